/-
  C02 / skeleton tie — the collective skeleton of the sync half of torcheval/metrics/toolkit.py (and, through it, of
  synclib), regenerated from /repo's working tree on every run, equals function by function the skeleton the hand-written
  model follows (`getSyncedMetric`, `getSyncedCollection` of TE/Model/Sync.lean; `TE.SyncSkel.expected`).

  Pinned for the toolkit: `_prepare_for_merge_state()` on every metric BEFORE any `state_dict()`; one `sync_states` over the whole
  collection with `rank=None`; traversal order from `metrics_traversal_order` (sorted); the own entry is addressed by the GROUP
  rank (`dist.get_rank(process_group)` / `_get_rank(process_group)`); the own metric is CLONED (`deepcopy`) before `merge_state`;
  the other members' pseudo-metrics are merged in ascending rank order (`for rank in range(world_size) if rank != local_rank`).
-/
import TE.Lemmas.SyncSkel
import TE.Gen.SyncSkel
namespace TE.C02
open TE TE.SyncSkel

/-- `_sync_metric_object`: the skeleton regenerated from the source is the expected one. -/
theorem C02_skel_generated_eq_sync_metric_object : Gen.sk_sync_metric_object = ex_sync_metric_object := by decide +kernel

/-- `get_synced_metric`: the skeleton regenerated from the source is the expected one. -/
theorem C02_skel_generated_eq_get_synced_metric : Gen.sk_get_synced_metric = ex_get_synced_metric := by decide +kernel

/-- `get_synced_metric_collection`: the skeleton regenerated from the source is the expected one. -/
theorem C02_skel_generated_eq_get_synced_metric_collection : Gen.sk_get_synced_metric_collection = ex_get_synced_metric_collection := by decide +kernel

/-- `get_synced_state_dict`: the skeleton regenerated from the source is the expected one. -/
theorem C02_skel_generated_eq_get_synced_state_dict : Gen.sk_get_synced_state_dict = ex_get_synced_state_dict := by decide +kernel

/-- `get_synced_state_dict_collection`: the skeleton regenerated from the source is the expected one. -/
theorem C02_skel_generated_eq_get_synced_state_dict_collection : Gen.sk_get_synced_state_dict_collection = ex_get_synced_state_dict_collection := by decide +kernel

/-- `sync_and_compute`: the skeleton regenerated from the source is the expected one. -/
theorem C02_skel_generated_eq_sync_and_compute : Gen.sk_sync_and_compute = ex_sync_and_compute := by decide +kernel

/-- `sync_and_compute_collection`: the skeleton regenerated from the source is the expected one. -/
theorem C02_skel_generated_eq_sync_and_compute_collection : Gen.sk_sync_and_compute_collection = ex_sync_and_compute_collection := by decide +kernel

/-- the traversal order both properties rest on (`metrics_traversal_order`): sorted metric names, then sorted state names. -/
theorem C02_skel_traversal_sorted :
    Gen.sk_metrics_traversal_order.body =
      .ret (c "flatfor" [.b 0, c "sorted" [c ".keys()" [.v "state_dict"]],
                         c "for" [.b 1, c "sorted" [c ".keys()" [c "getitem" [.v "state_dict", .b 0]]], c "()" [.b 0, .b 1]]]) := by
  decide +kernel

/-- the whole generated table is the expected one. -/
theorem C02_skel_generated_eq : Gen.syncSkel = expected := by decide +kernel

/-- coverage: the functions of toolkit.py that communicate (directly or through a callee), all inside the grammar. -/
theorem C02_skel_coverage :
    (Gen.syncSkel.filter (·.module == "toolkit")).map (fun f => (f.name, f.untranslated)) =
      [("_sync_metric_object", none), ("get_synced_metric", none), ("get_synced_metric_collection", none), ("get_synced_state_dict", none), ("get_synced_state_dict_collection", none), ("sync_and_compute", none), ("sync_and_compute_collection", none)] := by decide +kernel

/-- **lock-step**: in a well-formed table no guard and no trip count the collective sequence depends on mentions the
    member's own rank (`relevantRankFree`), and the sequence of collective sites a member passes (`run`) is a function of the
    values of exactly those guards / trip counts: two members whose valuations agree on every rank-free term — which is
    what `Syncable` inputs give: same state names and kinds, same gathered lengths, sizes and sentinels on every member —
    pass the same collective sites in the same order, whatever their own rank makes of the other guards. -/
theorem C02_skel_lockstep (t : Table) (hwf : WF t = true) (ρ₁ ρ₂ : Valuation)
    (hg : ∀ g : Term, g.rankFree = true → ρ₁.guard g = ρ₂.guard g)
    (ht : ∀ g : Term, g.rankFree = true → ρ₁.trips g = ρ₂.trips g) (fuel : Nat) (f : String) :
    run t ρ₁ fuel f = run t ρ₂ fuel f :=
  run_lockstep t (wf_facts t hwf).2.2.2.2.2.2 ρ₁ ρ₂ hg ht fuel f

/-- non-vacuity of `C02_skel_lockstep` on the generated table: two members of a group — the first believes it receives
    (every rank-dependent guard true), the second not — pass the same four sites for a collection of two tensor states of
    uneven shapes (per state: the sizes, then the padded payload, both through `_simple_send_tensors`' `all_gather`). -/
example :
    let shared : Term → Bool := fun g =>
      g == c "isinstance" [c "getitem" [c "getitem" [.v "states", c "getitem" [.b 0, .int 0]], c "getitem" [.b 0, .int 1]], .fn "torch.Tensor"]
        || g == c "is" [.none, .v "rank"]
    let ρ₁ : Valuation := ⟨fun g => shared g || !g.rankFree, fun _ => 2⟩
    let ρ₂ : Valuation := ⟨fun g => shared g, fun _ => 2⟩
    run Gen.syncSkel ρ₁ 8 "sync_states" = run Gen.syncSkel ρ₂ 8 "sync_states" ∧
    (run Gen.syncSkel ρ₁ 8 "sync_states").map (fun s => (s.fn, s.kind)) =
      [("_simple_send_tensors", .allGather), ("_simple_send_tensors", .allGather),
       ("_simple_send_tensors", .allGather), ("_simple_send_tensors", .allGather)] := by
  decide +kernel

end TE.C02
