/-
  C02 / skeleton tie — the collective skeleton of the sync half of torcheval/metrics/toolkit.py (and, through it, of
  synclib), regenerated from /repo's working tree on every run, equals function by function the skeleton the hand-written
  model follows (`getSyncedMetric`, `getSyncedCollection` of TE/Model/Sync.lean; `TE.SyncSkel.expected`).

  Pinned for the toolkit: `_prepare_for_merge_state()` on every metric BEFORE any `state_dict()`; one `sync_states` over the whole
  collection with `rank=None`; traversal order from `metrics_traversal_order` (sorted); the own entry is addressed by the GROUP
  rank (`dist.get_rank(process_group)` / `_get_rank(process_group)`); the own metric is CLONED (`deepcopy`) before `merge_state`;
  the other members' pseudo-metrics are merged in ascending rank order (`for rank in range(world_size) if rank != local_rank`).
-/
import TE.Lemmas.SyncSkel
import TE.Gen.SyncSkel
namespace TE.C02
open TE TE.SyncSkel

/-- `_sync_metric_object`: the skeleton regenerated from the source is the expected one. -/
theorem C02_skel_generated_eq_sync_metric_object : Gen.sk_sync_metric_object = ex_sync_metric_object := by decide +kernel

/-- `get_synced_metric`: the skeleton regenerated from the source is the expected one. -/
theorem C02_skel_generated_eq_get_synced_metric : Gen.sk_get_synced_metric = ex_get_synced_metric := by decide +kernel

/-- `get_synced_metric_collection`: the skeleton regenerated from the source is the expected one. -/
theorem C02_skel_generated_eq_get_synced_metric_collection : Gen.sk_get_synced_metric_collection = ex_get_synced_metric_collection := by decide +kernel

/-- `get_synced_state_dict`: the skeleton regenerated from the source is the expected one. -/
theorem C02_skel_generated_eq_get_synced_state_dict : Gen.sk_get_synced_state_dict = ex_get_synced_state_dict := by decide +kernel

/-- `get_synced_state_dict_collection`: the skeleton regenerated from the source is the expected one. -/
theorem C02_skel_generated_eq_get_synced_state_dict_collection : Gen.sk_get_synced_state_dict_collection = ex_get_synced_state_dict_collection := by decide +kernel

/-- `sync_and_compute`: the skeleton regenerated from the source is the expected one. -/
theorem C02_skel_generated_eq_sync_and_compute : Gen.sk_sync_and_compute = ex_sync_and_compute := by decide +kernel

/-- `sync_and_compute_collection`: the skeleton regenerated from the source is the expected one. -/
theorem C02_skel_generated_eq_sync_and_compute_collection : Gen.sk_sync_and_compute_collection = ex_sync_and_compute_collection := by decide +kernel

/-- the traversal order both properties rest on (`metrics_traversal_order`): sorted metric names, then sorted state names. -/
theorem C02_skel_traversal_sorted :
    Gen.sk_metrics_traversal_order.body =
      .ret (c "flatfor" [.b 0, c "sorted" [c ".keys()" [.v "state_dict"]],
                         c "for" [.b 1, c "sorted" [c ".keys()" [c "getitem" [.v "state_dict", .b 0]]], c "()" [.b 0, .b 1]]]) := by
  decide +kernel

/-- the whole generated table is the expected one. -/
theorem C02_skel_generated_eq : Gen.syncSkel = expected := by decide +kernel

/-- coverage: the functions of toolkit.py that communicate (directly or through a callee), all inside the grammar. -/
theorem C02_skel_coverage :
    (Gen.syncSkel.filter (·.module == "toolkit")).map (fun f => (f.name, f.untranslated)) =
      [("_sync_metric_object", none), ("get_synced_metric", none), ("get_synced_metric_collection", none), ("get_synced_state_dict", none), ("get_synced_state_dict_collection", none), ("sync_and_compute", none), ("sync_and_compute_collection", none)] := by decide +kernel

/-- **lock-step**: in a well-formed table no guard and no trip count the collective sequence depends on mentions the
    member's own rank (`relevantRankFree`), and the sequence of collective sites a member passes (`run`) is a function of the
    values of exactly those guards / trip counts: two members whose valuations agree on every rank-free term — which is
    what `Syncable` inputs give: same state names and kinds, same gathered lengths, sizes and sentinels on every member —
    pass the same collective sites in the same order, whatever their own rank makes of the other guards. -/
theorem C02_skel_lockstep (t : Table) (hwf : WF t = true) (ρ₁ ρ₂ : Valuation)
    (hg : ∀ g : Term, g.rankFree = true → ρ₁.guard g = ρ₂.guard g)
    (ht : ∀ g : Term, g.rankFree = true → ρ₁.trips g = ρ₂.trips g) (fuel : Nat) (f : String) :
    run t ρ₁ fuel f = run t ρ₂ fuel f :=
  run_lockstep t (wf_facts t hwf).2.2.2.2.2.2 ρ₁ ρ₂ hg ht fuel f

/-- non-vacuity of `C02_skel_lockstep` on the generated table: two members of a group — the first believes it receives
    (every rank-dependent guard true), the second not — pass the same four sites for a collection of two tensor states of
    uneven shapes (per state: the sizes, then the padded payload, both through `_simple_send_tensors`' `all_gather`). -/
example :
    let shared : Term → Bool := fun g =>
      g == c "isinstance" [c "getitem" [c "getitem" [.v "states", c "getitem" [.b 0, .int 0]], c "getitem" [.b 0, .int 1]], .fn "torch.Tensor"]
        || g == c "is" [.none, .v "rank"]
    let ρ₁ : Valuation := ⟨fun g => shared g || !g.rankFree, fun _ => 2⟩
    let ρ₂ : Valuation := ⟨fun g => shared g, fun _ => 2⟩
    run Gen.syncSkel ρ₁ 8 "sync_states" = run Gen.syncSkel ρ₂ 8 "sync_states" ∧
    (run Gen.syncSkel ρ₁ 8 "sync_states").map (fun s => (s.fn, s.kind)) =
      [("_simple_send_tensors", .allGather), ("_simple_send_tensors", .allGather),
       ("_simple_send_tensors", .allGather), ("_simple_send_tensors", .allGather)] := by
  decide +kernel

/-- **group lock-step**: a whole group of members (any number) whose valuations agree with one reference member on every
    rank-free guard and trip count passes, member by member, the reference member's sequence of collective sites. -/
theorem C02_skel_group_lockstep (t : Table) (hwf : WF t = true) (ρ₀ : Valuation) (grp : List Valuation)
    (hg : ∀ ρ ∈ grp, ∀ g : Term, g.rankFree = true → ρ.guard g = ρ₀.guard g)
    (ht : ∀ ρ ∈ grp, ∀ g : Term, g.rankFree = true → ρ.trips g = ρ₀.trips g) (fuel : Nat) (f : String) :
    ∀ ρ ∈ grp, run t ρ fuel f = run t ρ₀ fuel f :=
  fun ρ hρ => C02_skel_lockstep t hwf ρ ρ₀ (hg ρ hρ) (ht ρ hρ) fuel f

/-- **no member waits alone**: under the hypotheses of the group lock-step, at every step `i` of the schedule all members
    of the group are at the same collective site (same function, same node, same kind), or all have finished: no member
    issues an `i`-th collective that another member never issues (the hang of a mismatched schedule), and none issues a
    collective of another kind (the `gloo::EnforceNotMet` abort). -/
theorem C02_skel_no_lone_collective (t : Table) (hwf : WF t = true) (ρ₀ : Valuation) (grp : List Valuation)
    (hg : ∀ ρ ∈ grp, ∀ g : Term, g.rankFree = true → ρ.guard g = ρ₀.guard g)
    (ht : ∀ ρ ∈ grp, ∀ g : Term, g.rankFree = true → ρ.trips g = ρ₀.trips g) (fuel : Nat) (f : String) (i : Nat) :
    (∀ ρ₁ ∈ grp, ∀ ρ₂ ∈ grp, (run t ρ₁ fuel f)[i]? = (run t ρ₂ fuel f)[i]?) ∧
    (∀ ρ₁ ∈ grp, ∀ ρ₂ ∈ grp, (run t ρ₁ fuel f).length = (run t ρ₂ fuel f).length) := by
  have h := C02_skel_group_lockstep t hwf ρ₀ grp hg ht fuel f
  exact ⟨fun ρ₁ h₁ ρ₂ h₂ => by rw [h ρ₁ h₁, h ρ₂ h₂], fun ρ₁ h₁ ρ₂ h₂ => by rw [h ρ₁ h₁, h ρ₂ h₂]⟩

/-- the table regenerated from /repo's working tree satisfies the hypothesis of the lock-step theorems (decided on the
    generated table itself, not on the expected one). -/
theorem C02_skel_generated_wf : WF Gen.syncSkel = true := by decide +kernel

/-- **lock-step of the current tree**: for the skeleton of synclib / toolkit as they are in /repo now, every entry point
    (`f` ranges over all functions, in particular `sync_and_compute`, `get_synced_metric_collection`, `sync_states`) makes
    every member of a group whose rank-free guards and trip counts agree pass the same collective sites in the same order. -/
theorem C02_skel_lockstep_current (ρ₀ : Valuation) (grp : List Valuation)
    (hg : ∀ ρ ∈ grp, ∀ g : Term, g.rankFree = true → ρ.guard g = ρ₀.guard g)
    (ht : ∀ ρ ∈ grp, ∀ g : Term, g.rankFree = true → ρ.trips g = ρ₀.trips g) (fuel : Nat) (f : String) :
    ∀ ρ ∈ grp, run Gen.syncSkel ρ fuel f = run Gen.syncSkel ρ₀ fuel f :=
  C02_skel_group_lockstep Gen.syncSkel C02_skel_generated_wf ρ₀ grp hg ht fuel f

/-- non-vacuity of the group theorems on the generated table: a group of three (the receiver, and two members that take
    every rank-dependent guard the other way / only some of them, with other trip counts for rank-dependent loops) running `sync_states` passes one and the same
    schedule of four collectives. -/
example :
    let shared : Term → Bool := fun g =>
      g == c "isinstance" [c "getitem" [c "getitem" [.v "states", c "getitem" [.b 0, .int 0]], c "getitem" [.b 0, .int 1]], .fn "torch.Tensor"]
        || g == c "is" [.none, .v "rank"]
    let ρ₀ : Valuation := ⟨fun g => shared g || !g.rankFree, fun _ => 2⟩
    let ρ₁ : Valuation := ⟨fun g => shared g, fun _ => 2⟩
    let ρ₂ : Valuation := ⟨fun g => shared g || (!g.rankFree && g.headIs "==" ), fun g => if g.rankFree then 2 else 5⟩
    (∀ ρ ∈ [ρ₀, ρ₁, ρ₂], ∀ g : Term, g.rankFree = true → ρ.guard g = ρ₀.guard g) ∧
    run Gen.syncSkel ρ₁ 8 "sync_states" = run Gen.syncSkel ρ₀ 8 "sync_states" ∧
    run Gen.syncSkel ρ₂ 8 "sync_states" = run Gen.syncSkel ρ₀ 8 "sync_states" ∧
    (run Gen.syncSkel ρ₀ 8 "sync_states").length = 4 := by
  refine ⟨?_, by decide +kernel, by decide +kernel, by decide +kernel⟩
  intro ρ hρ g hgf
  simp only [List.mem_cons, List.not_mem_nil, or_false] at hρ
  rcases hρ with rfl | rfl | rfl <;> simp [hgf]

end TE.C02
