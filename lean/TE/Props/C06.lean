/-
  C06 — binned metrics equal exhaustive per-threshold counting; the 'vectorized'
  and 'memory' optimisation modes agree; binned AUROC / AUPRC with thresholds
  starting at 0 equal the exact AUROC / AUPRC of the scores rounded down to the
  nearest threshold.
  ONLY property theorems and non-vacuity examples live here; helper lemmas are in
  TE/Lemmas/Binned*.lean.  `Sorted (≤)` is `List.Pairwise (· ≤ ·)` (non-strict:
  duplicated thresholds are allowed everywhere).
-/
import TE.Model.Binned
import TE.Spec.Binned
import TE.Lemmas.Binned
import TE.Lemmas.BinnedArea
namespace TE.C06
open TE TE.Binned TE.Spec.Binned TE.BinnedL

/-! ## 1. the bucket index -/

/-- the parameter check `not (diff(threshold) < 0).any()` is sortedness. -/
theorem paramCheck_sorted (t : List Q) (h : paramCheck t = .ok ()) : t.Pairwise (· ≤ ·) := by
  unfold paramCheck at h
  by_cases hs : sortedB t = true
  · exact sortedB_pairwise t hs
  · simp [hs] at h

/-- `searchsorted(t, x, right=True) - 1 ≥ j  ↔  t[j] ≤ x` on a sorted (possibly
    repeating) threshold list: a score exactly on a threshold belongs to that
    threshold's bucket, a score below `t[0]` has bucket `-1`. -/
theorem bucket_ge_iff (t : List Q) (x : Q) (hs : t.Pairwise (· ≤ ·)) (j : Nat) (hj : j < t.length) :
    (j : Int) ≤ bucket t x ↔ t[j] ≤ x := by
  rw [← lt_ss_iff t x hs j hj]; unfold bucket; omega

/-- the bucket index never exceeds the last threshold's index. -/
theorem bucket_lt_length (t : List Q) (x : Q) : bucket t x < t.length := by
  have := ss_le_length t x; unfold bucket; omega

example : ([0, 1/4, 1/4, 1/2] : List Q).Pairwise (· ≤ ·) := by decide +kernel
example : bucket [0, 1/4, 1/4, 1/2] (1/4) = 2 ∧ bucket [1/4, 1/2] (1/8) = -1 ∧ bucket [1/4, 1/2] 1 = 1 := by decide +kernel

/-! ## 2. binary `_update`: suffix sums of the unit histogram = per-threshold counting -/

/-- `num_tp[j] = #{y=1 ∧ x ≥ t[j]}`, `num_fp[j] = #{y=0 ∧ x ≥ t[j]}`, `num_fn[j] = #{y=1 ∧ x < t[j]}`
    for every sorted threshold list (duplicates allowed, scores anywhere: a score below `t[0]` is
    dropped from TP/FP and kept in FN). -/
theorem binned_counts_eq (t xs : List Q) (ys : List Nat)
    (hs : t.Pairwise (· ≤ ·)) (hne : t ≠ []) (hlen : xs.length = ys.length) (hy : ∀ y ∈ ys, y ≤ 1) :
    binaryUpdate t xs ys = .ok
      (t.map fun u => (tpAt (xs.zip ys) u : Q),
       t.map fun u => (fpAt (xs.zip ys) u : Q),
       t.map fun u => (fnAt (xs.zip ys) u : Q)) := by
  have hT : t.length ≠ 0 := by simpa using hne
  have hcodes : ((xs.zip ys).map fun p => binaryCode t p.1 p.2)
      = codesOf 1 (fun p _ => searchsortedRight t p.1) (fun p _ => p.2) (xs.zip ys) := by
    simp [codesOf, binaryCode_eq, List.range_one, flatMap_single]
  have hc : ∀ a ∈ xs.zip ys, ∀ s, s < 1 → (fun (p : Q × Nat) (_ : Nat) => searchsortedRight t p.1) a s ≤ t.length :=
    fun a _ s _ => ss_le_length t a.1
  have hb : ∀ a ∈ xs.zip ys, ∀ s, s < 1 → (fun (p : Q × Nat) (_ : Nat) => p.2) a s ≤ 1 :=
    fun a ha s _ => hy a.2 (List.of_mem_zip ha).2
  have hrow : ∀ r, r ≤ 1 →
      suffixSums ((List.range t.length).map fun k =>
        (histcUnit (2 * t.length) ((xs.zip ys).map fun p => binaryCode t p.1 p.2)).getD (2 * k + r) 0)
      = (List.range t.length).map fun k =>
          qcount (fun p : Q × Nat => decide (k < searchsortedRight t p.1) && p.2 == r) (xs.zip ys) := by
    intro r hr
    have := memLine_eq t.length 1 _ _ (xs.zip ys) hc hb 0 r (by omega) hr
    simpa [memLine, hcodes] using this
  have htp : ((List.range t.length).map fun k =>
          qcount (fun p : Q × Nat => decide (k < searchsortedRight t p.1) && p.2 == 1) (xs.zip ys))
      = t.map fun u => (tpAt (xs.zip ys) u : Q) := by
    apply map_range_eq_map
    intro k hk
    show qcount _ _ = qcount _ _
    apply qcount_congr
    intro p _
    rw [Bool.and_comm]; congr 1
    exact decide_eq_decide.mpr (lt_ss_iff t p.1 hs k hk)
  have hfp : ((List.range t.length).map fun k =>
          qcount (fun p : Q × Nat => decide (k < searchsortedRight t p.1) && p.2 == 0) (xs.zip ys))
      = t.map fun u => (fpAt (xs.zip ys) u : Q) := by
    apply map_range_eq_map
    intro k hk
    show qcount _ _ = qcount _ _
    apply qcount_congr
    intro p _
    rw [Bool.and_comm]; congr 1
    exact decide_eq_decide.mpr (lt_ss_iff t p.1 hs k hk)
  have hsum : qsum (ys.map fun y => ((y : Nat) : Q)) = (((xs.zip ys).countP fun p => p.2 == 1 : Nat) : Q) := by
    rw [qsum_nat01 ys hy, countP_snd_zip xs ys hlen (· == 1)]
  unfold binaryUpdate
  simp only [hT, if_false, hrow 1 (by omega), hrow 0 (by omega), htp, hfp, hsum, List.map_map]
  congr 3
  apply List.map_congr_left
  intro u _
  simp only [Function.comp, pos_split (xs.zip ys) u, Rat.natCast_add]
  grind

example : binaryUpdate [1/4, 1/4, 1/2] [1/8, 1/4, 1/2, 1] [1, 0, 1, 1] = .ok ([2, 2, 2], [1, 1, 0], [1, 1, 1]) := by
  rw [binned_counts_eq _ _ _ (by decide +kernel) (by decide +kernel) (by decide +kernel) (by decide +kernel)]
  simp [tpAt, fpAt, fnAt]; decide +kernel

/-! ## 3. multiclass / multilabel: both optimisation modes = per-threshold counting -/

/-- `_multiclass_…_update_memory` (flat code `2(C·bucket + c) + [c = y]`, one `histc`, suffix sums):
    entry `[j, c]` counts the one-vs-rest problem of class `c` at threshold `t[j]`. -/
theorem multiclass_memory_counts_eq (t : List Q) (C : Nat) (rows : List (List Q)) (labs : List Nat)
    (hs : t.Pairwise (· ≤ ·)) (hne : t ≠ []) (hC : 0 < C)
    (hlen : rows.length = labs.length) (hl : ∀ l ∈ labs, l < C) :
    mcMemory t C rows labs = .ok (countMats (ovr rows labs) C t) := by
  have hT : 0 < t.length := List.length_pos_iff.mpr hne
  have hall : labs.all (· < C) = true := by simpa using hl
  have hbins : ¬ 2 * t.length * C = 0 := by
    have := Nat.mul_pos (Nat.mul_pos (show 0 < 2 by omega) hT) hC; omega
  have hcodes : ((rows.zip labs).flatMap fun p =>
        (List.range C).map fun c => flatCode C t (colAt p.1 c) c (if c == p.2 then 1 else 0))
      = codesOf C (fun p c => searchsortedRight t (colAt p.1 c)) (fun p c => if c == p.2 then 1 else 0) (rows.zip labs) := rfl
  have hb : ∀ a ∈ rows.zip labs, ∀ s, s < C → (fun (p : List Q × Nat) c => if c == p.2 then 1 else 0) a s ≤ 1 := by
    intro a _ s _; by_cases h : s = a.2 <;> simp [h]
  have hmat := fun r hr => memMat_counts t hs C (rows.zip labs) (fun p c => colAt p.1 c)
    (fun p c => if c == p.2 then 1 else 0) hb r hr
  unfold mcMemory
  simp only [hall, hbins, hcodes, Bool.not_true, Bool.false_eq_true, if_false, hmat 1 (by omega), hmat 0 (by omega),
    classCounts_eq C rows labs hlen hl, ← ovr_eq_view]
  unfold countMats
  congr 3
  exact fnFrom_eq t C (ovr rows labs)

/-- `_multiclass_…_update_vectorized` (broadcast comparison `input >= threshold[:,None,None]`). -/
theorem multiclass_vectorized_counts_eq (t : List Q) (C : Nat) (rows : List (List Q)) (labs : List Nat)
    (hlen : rows.length = labs.length) (hl : ∀ l ∈ labs, l < C) :
    mcVectorized t C rows labs = .ok (countMats (ovr rows labs) C t) := by
  have hall : labs.all (· < C) = true := by simpa using hl
  unfold mcVectorized countMats
  simp only [hall, Bool.not_true, Bool.false_eq_true, if_false, mcVecTp_eq, mcVecFp_eq _ _ _ _ hlen, mcVecFn_eq _ _ _ _ hlen]

/-- both modes reject a label outside `[0, C)` (`F.one_hot` / the indexed `+= 1`). -/
theorem multiclass_label_out_of_range (t : List Q) (C : Nat) (rows : List (List Q)) (labs : List Nat)
    (hl : ¬ ∀ l ∈ labs, l < C) :
    mcVectorized t C rows labs = .error .runtime ∧ mcMemory t C rows labs = .error .index := by
  have hall : ¬ labs.all (· < C) = true := by simpa using hl
  unfold mcVectorized mcMemory
  simp [hall]

/-- `_multilabel_…_update_memory`: entry `[j, l]` counts label column `l` at threshold `t[j]`. -/
theorem multilabel_memory_counts_eq (t : List Q) (L : Nat) (rows : List (List Q)) (tgts : List (List Nat))
    (hs : t.Pairwise (· ≤ ·)) (hne : t ≠ []) (hL : 0 < L)
    (hlen : rows.length = tgts.length) (h01 : ∀ r ∈ tgts, ∀ y ∈ r, y ≤ 1) :
    mlMemory t L rows tgts = .ok (countMats (labelCol rows tgts) L t) := by
  have hT : 0 < t.length := List.length_pos_iff.mpr hne
  have hbins : ¬ 2 * t.length * L = 0 := by
    have := Nat.mul_pos (Nat.mul_pos (show 0 < 2 by omega) hT) hL; omega
  have hcodes : ((rows.zip tgts).flatMap fun p =>
        (List.range L).map fun l => flatCode L t (colAt p.1 l) l (tgtAt p.2 l))
      = codesOf L (fun p l => searchsortedRight t (colAt p.1 l)) (fun p l => tgtAt p.2 l) (rows.zip tgts) := rfl
  have hb : ∀ a ∈ rows.zip tgts, ∀ s, s < L → (fun (p : List Q × List Nat) l => tgtAt p.2 l) a s ≤ 1 :=
    fun a ha s _ => tgtAt_le a.2 s (h01 a.2 (List.of_mem_zip ha).2)
  have hmat := fun r hr => memMat_counts t hs L (rows.zip tgts) (fun p l => colAt p.1 l)
    (fun p l => tgtAt p.2 l) hb r hr
  have hcc : ((List.range L).map fun l => qsum (tgts.map fun r => ((tgtAt r l : Nat) : Q)))
      = (List.range L).map fun l => (((labelCol rows tgts l).countP fun p => p.2 == 1 : Nat) : Q) :=
    List.map_congr_left fun l _ => mlCounts_eq l rows tgts hlen h01
  unfold mlMemory
  simp only [hbins, hcodes, if_false, hmat 1 (by omega), hmat 0 (by omega), hcc, ← labelCol_eq_view]
  unfold countMats
  congr 3
  exact fnFrom_eq t L (labelCol rows tgts)

/-- `_multilabel_…_update_vectorized` (`(labels & target).sum(1)` …). -/
theorem multilabel_vectorized_counts_eq (t : List Q) (L : Nat) (rows : List (List Q)) (tgts : List (List Nat))
    (hlen : rows.length = tgts.length) (h01 : ∀ r ∈ tgts, ∀ y ∈ r, y ≤ 1) :
    mlVectorized t L rows tgts = countMats (labelCol rows tgts) L t := by
  unfold mlVectorized countMats
  simp only [mlVecTp_eq _ _ _ _ h01, mlVecFp_eq _ _ _ _ hlen h01, mlVecFn_eq _ _ _ _ hlen h01]

/-- **the two optimisation modes agree** (multiclass): same `(num_tp, num_fp, num_fn)` on every valid
    input, sorted non-empty thresholds; they also reject the same inputs (`multiclass_label_out_of_range`). -/
theorem vectorized_eq_memory_multiclass (t : List Q) (C : Nat) (rows : List (List Q)) (labs : List Nat)
    (hs : t.Pairwise (· ≤ ·)) (hne : t ≠ []) (hC : 0 < C)
    (hlen : rows.length = labs.length) (hl : ∀ l ∈ labs, l < C) :
    mcVectorized t C rows labs = mcMemory t C rows labs := by
  rw [multiclass_vectorized_counts_eq t C rows labs hlen hl, multiclass_memory_counts_eq t C rows labs hs hne hC hlen hl]

/-- **the two optimisation modes agree** (multilabel). -/
theorem vectorized_eq_memory_multilabel (t : List Q) (L : Nat) (rows : List (List Q)) (tgts : List (List Nat))
    (hs : t.Pairwise (· ≤ ·)) (hne : t ≠ []) (hL : 0 < L)
    (hlen : rows.length = tgts.length) (h01 : ∀ r ∈ tgts, ∀ y ∈ r, y ≤ 1) :
    .ok (mlVectorized t L rows tgts) = mlMemory t L rows tgts := by
  rw [multilabel_vectorized_counts_eq t L rows tgts hlen h01, multilabel_memory_counts_eq t L rows tgts hs hne hL hlen h01]

/-- on an empty threshold tensor the modes do NOT agree: `histc(bins=0)` raises in the memory form while
    the vectorized form returns empty matrices (recorded, outside the property's quantifier). -/
theorem empty_threshold_modes_differ (C : Nat) (rows : List (List Q)) (labs : List Nat) (hl : ∀ l ∈ labs, l < C) :
    mcMemory [] C rows labs = .error .runtime ∧ mcVectorized [] C rows labs = .ok ([], [], []) := by
  have hall : labs.all (· < C) = true := by simpa using hl
  unfold mcMemory mcVectorized
  simp [hall]

example : mcMemory [1/4, 1/2] 2 [[1/8, 1/2], [1/2, 1/4]] [1, 0] = .ok ([[1, 1], [1, 1]], [[0, 1], [0, 0]], [[0, 0], [0, 0]]) := by
  rw [multiclass_memory_counts_eq _ _ _ _ (by decide +kernel) (by decide) (by decide) (by decide) (by decide)]
  congr 1; decide +kernel
example : mlMemory [0, 1/2] 2 [[1/8, 1/2], [1/2, 1/4]] [[1, 1], [0, 1]] = .ok (mlVectorized [0, 1/2] 2 [[1/8, 1/2], [1/2, 1/4]] [[1, 1], [0, 1]]) :=
  (vectorized_eq_memory_multilabel _ _ _ _ (by decide +kernel) (by decide) (by decide) (by decide) (by decide)).symm

/-! ## 4. `_compute`: the reported curve is precision / recall by counting -/

/-- `_binary_binned_precision_recall_curve_compute` applied to the per-threshold counts is the
    documented curve: `precision[j] = TP_j/(TP_j+FP_j)` (`1` when nothing is predicted positive),
    `recall[j] = TP_j/(TP_j+FN_j)` (NaN without positives), then the appended point `(1, 0)`. -/
theorem binned_curve_eq (s : Samples) (t : List Q) :
    curveCompute (t.map fun u => ((tpAt s u : Nat) : Q)) (t.map fun u => ((fpAt s u : Nat) : Q))
      (t.map fun u => ((fnAt s u : Nat) : Q)) = curve s t :=
  curveCompute_counts s t

/-- the whole binary functional (`_update` then `_compute`) on a valid input. -/
theorem binary_binned_curve_eq (t xs : List Q) (ys : List Nat)
    (hs : t.Pairwise (· ≤ ·)) (hne : t ≠ []) (hlen : xs.length = ys.length) (hy : ∀ y ∈ ys, y ≤ 1) :
    (binaryUpdate t xs ys).map (fun c => curveCompute c.1 c.2.1 c.2.2) = .ok (curve (xs.zip ys) t) := by
  rw [binned_counts_eq t xs ys hs hne hlen hy]
  exact congrArg Except.ok (binned_curve_eq (xs.zip ys) t)

/-- multiclass / multilabel `_compute` on the count matrices: one documented curve per class / label. -/
theorem binned_curve_eq_mat (view : Nat → Samples) (S : Nat) (t : List Q) :
    curveComputeMat S (countMats view S t).1 (countMats view S t).2.1 (countMats view S t).2.2
      = (List.range S).map fun s => curve (view s) t := by
  unfold curveComputeMat countMats
  apply List.map_congr_left
  intro s hs
  have hs : s < S := List.mem_range.mp hs
  simp only [column_map_range t S _ s hs]
  exact binned_curve_eq (view s) t

/-- value of a precision entry under its guard … -/
theorem curve_precision_val (s : Samples) (u : Q) (h : (tpAt s u : Q) + (fpAt s u : Q) ≠ 0) :
    (match precisionAt s u with | .nan => XQ.val 1 | p => p)
      = .val ((tpAt s u : Q) / ((tpAt s u : Q) + (fpAt s u : Q))) := by
  unfold precisionAt xdiv; simp [h]

/-- … and the documented convention when nothing is predicted positive at `u`: precision `1`. -/
theorem curve_precision_empty (s : Samples) (u : Q) (h : tpAt s u + fpAt s u = 0) :
    (match precisionAt s u with | .nan => XQ.val 1 | p => p) = .val 1 := by
  have h1 : tpAt s u = 0 := by omega
  have h2 : fpAt s u = 0 := by omega
  have h3 : (0 : Q) + 0 = 0 := by grind
  unfold precisionAt xdiv; simp [h1, h2, h3]

/-- recall under its guard … -/
theorem curve_recall_val (s : Samples) (u : Q) (h : (tpAt s u : Q) + (fnAt s u : Q) ≠ 0) :
    recallAt s u = .val ((tpAt s u : Q) / ((tpAt s u : Q) + (fnAt s u : Q))) := by
  unfold recallAt xdiv; simp [h]

/-- … and without any positive sample the recall is `NaN` (0/0), at every threshold. -/
theorem curve_recall_nan (s : Samples) (u : Q) (h : s.countP (fun p => p.2 == 1) = 0) :
    recallAt s u = .nan := by
  have := pos_split s u
  have h1 : tpAt s u = 0 := by omega
  have h2 : fnAt s u = 0 := by omega
  have h3 : (0 : Q) + 0 = 0 := by grind
  unfold recallAt xdiv; simp [h1, h2, h3]

example : curve [(1/8, 1), (1/4, 0), (1/2, 1), (1, 1)] [1/4, 1/2, 1]
    = ([.val (2/3), .val 1, .val 1, .val 1], [.val (2/3), .val (2/3), .val (1/3), .val 0]) := by decide +kernel
example : ((tpAt [(1/8, 1), (1/4, 0)] (1/2) : Nat) + fpAt [(1/8, 1), (1/4, 0)] (1/2) = 0) := by decide +kernel

/-! ## 5. binned AUROC = exact AUROC of the scores rounded down to the threshold grid -/

/-- the executable `floorTo?` returns the largest threshold not exceeding the score. -/
theorem floorTo_isFloor (t : List Q) (x v : Q) (h : floorTo? t x = some v) : IsFloorOf t x v :=
  floorTo?_isFloor t x v h

/-- **binned AUROC (one task)**: sorted thresholds (duplicates allowed), 0/1 labels, every score has a
    threshold at or below it (e.g. `t[0] = 0` and scores in `[0, 1]`); `f` rounds the scores down to the
    grid.  Then `_binary_binned_auroc_compute` (comparison, rot90+pad, trapz, `/ (TP₀·FP₀)`, `0.5` when
    that factor is 0) returns the exact AUROC — fraction of correctly ordered (positive, negative) pairs,
    ties ½, `0.5` without such a pair — of the floored scores. -/
theorem binned_auroc_eq_floor (t : List Q) (s : Samples) (f : Q → Q)
    (hs : t.Pairwise (· ≤ ·)) (hne : t ≠ []) (h01 : ∀ p ∈ s, p.2 ≤ 1)
    (hf : ∀ p ∈ s, IsFloorOf t p.1 (f p.1)) :
    binnedAurocRow t (s.map (·.1)) (s.map fun p => ((p.2 : Nat) : Q))
      = aurocSpec (s.map fun p => (f p.1, p.2)) :=
  binnedAurocRow_floor t s f hs hne h01 hf

/-- the same with the executable floor. -/
theorem binned_auroc_eq_floorTo (t : List Q) (s : Samples) (f : Q → Q)
    (hs : t.Pairwise (· ≤ ·)) (hne : t ≠ []) (h01 : ∀ p ∈ s, p.2 ≤ 1)
    (hf : ∀ p ∈ s, floorTo? t p.1 = some (f p.1)) :
    binnedAurocRow t (s.map (·.1)) (s.map fun p => ((p.2 : Nat) : Q))
      = aurocSpec (s.map fun p => (f p.1, p.2)) :=
  binned_auroc_eq_floor t s f hs hne h01 (fun p hp => floorTo?_isFloor t p.1 (f p.1) (hf p hp))

/-- per task: `binary_binned_auroc` with `num_tasks` rows applies the one-task computation to every row. -/
theorem binned_auroc_per_task (t : List Q) (tasks : List (List Q × List Q)) :
    binaryBinnedAuroc t tasks = tasks.map fun p => binnedAurocRow t p.1 p.2 := rfl

/-- the value of the exact AUROC under its guard, and the documented `0.5` otherwise. -/
theorem aurocSpec_val (s : Samples) (h : ((positives s).length : Q) * ((negatives s).length : Q) ≠ 0) :
    aurocSpec s = pairSum s / (((positives s).length : Q) * ((negatives s).length : Q)) := by
  unfold aurocSpec; simp [h]

theorem aurocSpec_degenerate (s : Samples) (h : ((positives s).length : Q) * ((negatives s).length : Q) = 0) :
    aurocSpec s = 1 / 2 := by
  unfold aurocSpec; simp [h]

example : IsFloorOf [0, 1/4, 1/4, 1] (1/2) (1/4) := floorTo_isFloor _ _ _ (by decide +kernel)
example : binnedAurocRow [0, 1/4, 1/4, 1] [1/8, 1/2, 1/4, 1] [0, 1, 0, 1] = 7/8 := by decide +kernel
example : aurocSpec [(0, 0), (1/4, 1), (1/4, 0), (1, 1)] = 7/8 := by decide +kernel

/-! ### `multiclass_binned_auroc`: the code reduces over the wrong axis (recorded finding)

  Intended statement (FALSE for the code as it is):
    `mcBinnedAuroc t C rows labs = (List.range C).map fun c => aurocSpec (floored (ovr rows labs c))`
  i.e. one one-vs-rest binned AUROC per class.  `_multiclass_binned_auroc_compute` sums
  `pred_label` of shape (T, n, C) over `dim=-1` (classes), so the model — like the code — treats every
  *sample* as a task whose "samples" are its C class scores. -/

/-- what the code does compute: per sample, the binned AUROC of that sample's class scores against
    its one-hot label. -/
theorem multiclass_binned_auroc_partial (t : List Q) (C : Nat) (rows : List (List Q)) (labs : List Nat) :
    mcBinnedAuroc t C rows labs = (rows.zip labs).map fun p => binnedAurocRow t p.1 (oneHot C p.2) := rfl

/-- the output has one entry per sample, not per class. -/
theorem multiclass_binned_auroc_length (t : List Q) (C : Nat) (rows : List (List Q)) (labs : List Nat)
    (hlen : rows.length = labs.length) : (mcBinnedAuroc t C rows labs).length = rows.length := by
  simp [mcBinnedAuroc, hlen]

/-- witness: 4 samples, 3 classes, thresholds {0,¼,½,¾,1}: the code's result has 4 entries, none of the
    per-class one-vs-rest binned AUROCs (7/8, 5/6, 1). Replayed on the real code by `./check C06`. -/
theorem multiclass_binned_auroc_witness :
    mcBinnedAuroc [0, 1/4, 1/2, 3/4, 1] 3 [[1/4, 1/2, 1/4], [0, 1/4, 3/4], [3/4, 1/4, 0], [1/4, 1/2, 1/4]] [1, 2, 0, 0]
        = [1, 1, 1, 1/4]
      ∧ mcBinnedAurocIntended [0, 1/4, 1/2, 3/4, 1] 3 [[1/4, 1/2, 1/4], [0, 1/4, 3/4], [3/4, 1/4, 0], [1/4, 1/2, 1/4]] [1, 2, 0, 0]
        = [7/8, 5/6, 1] := by
  decide +kernel

/-- the intended per-class computation does satisfy the floor statement (it is the binary row applied to
    the one-vs-rest problem of each class). -/
theorem multiclass_binned_auroc_intended_eq_floor (t : List Q) (C : Nat) (rows : List (List Q)) (labs : List Nat)
    (f : Q → Q) (hs : t.Pairwise (· ≤ ·)) (hne : t ≠ []) (hlen : rows.length = labs.length)
    (hf : ∀ c, c < C → ∀ p ∈ ovr rows labs c, IsFloorOf t p.1 (f p.1)) :
    mcBinnedAurocIntended t C rows labs
      = (List.range C).map fun c => aurocSpec ((ovr rows labs c).map fun p => (f p.1, p.2)) := by
  unfold mcBinnedAurocIntended
  apply List.map_congr_left
  intro c hc
  have hc : c < C := List.mem_range.mp hc
  have h := binned_auroc_eq_floor t (ovr rows labs c) f hs hne (ovr_label_le rows labs c) (hf c hc)
  have e1 : (ovr rows labs c).map (·.1) = rows.map fun r => colAt r c := by
    have : rows = (rows.zip labs).map Prod.fst := (List.map_fst_zip (by omega)).symm
    conv => rhs; rw [this]
    simp [ovr, colAt, List.map_map, Function.comp_def]
  have e2 : ((ovr rows labs c).map fun p => ((p.2 : Nat) : Q)) = labs.map fun l => b2q (l == c) := by
    have : labs = (rows.zip labs).map Prod.snd := (List.map_snd_zip (by omega)).symm
    conv => rhs; rw [this]
    simp only [ovr, List.map_map]
    apply List.map_congr_left
    intro p _
    by_cases hpc : p.2 = c
    · simp [hpc, b2q]
    · simp [hpc, b2q]
  rw [e1, e2] at h
  exact h

/-! ## 6. binned AUPRC = exact AUPRC (average precision) of the floored scores -/

/-- **binned AUPRC (one task / class / label)**: `nan_to_num(_riemann_integral(recall, precision))` on the
    per-threshold counts equals the exact AUPRC of the floored scores — `Σ (r_k − r_{k+1})·p_k` over the
    distinct floored scores, i.e. the mean over the positives of the precision at their own floored score —
    for sorted thresholds (duplicates, thresholds hit by no score allowed), 0/1 labels, every score having a
    threshold at or below it, and at least one positive. -/
theorem binned_auprc_eq_floor (t : List Q) (s : Samples) (f : Q → Q)
    (hs : t.Pairwise (· ≤ ·)) (h01 : ∀ p ∈ s, p.2 ≤ 1)
    (hf : ∀ p ∈ s, IsFloorOf t p.1 (f p.1)) (hP : (positives s).length ≠ 0) :
    auprcOf (t.map fun u => ((tpAt s u : Nat) : Q)) (t.map fun u => ((fpAt s u : Nat) : Q))
        (t.map fun u => ((fnAt s u : Nat) : Q))
      = auprcSpec (s.map fun p => (f p.1, p.2)) := by
  unfold auprcOf
  rw [binned_curve_eq]
  exact auprcOfCurve_floor t s f hs h01 hf hP

/-- without any positive sample the recall is 0/0 at every threshold and the code reports `0`
    (`nan_to_num(nan=0.0)`) — the same convention as the exact AUPRC. -/
theorem binned_auprc_no_positives (t : List Q) (s : Samples) (f : Q → Q) (hne : t ≠ [])
    (hP : (positives s).length = 0) :
    auprcOf (t.map fun u => ((tpAt s u : Nat) : Q)) (t.map fun u => ((fpAt s u : Nat) : Q))
        (t.map fun u => ((fnAt s u : Nat) : Q)) = 0
      ∧ auprcSpec (s.map fun p => (f p.1, p.2)) = 0 := by
  constructor
  · unfold auprcOf
    rw [binned_curve_eq]
    exact auprcOfCurve_no_positives t s hne hP
  · unfold auprcSpec
    simp [positives_map, hP]

/-- the whole binary pipeline (`_update` by histogram, `_compute`, Riemann integral) on a valid input. -/
theorem binary_binned_auprc_eq_floor (t xs : List Q) (ys : List Nat) (f : Q → Q)
    (hs : t.Pairwise (· ≤ ·)) (hne : t ≠ []) (hlen : xs.length = ys.length) (hy : ∀ y ∈ ys, y ≤ 1)
    (hf : ∀ p ∈ xs.zip ys, IsFloorOf t p.1 (f p.1)) (hP : (positives (xs.zip ys)).length ≠ 0) :
    (binaryUpdate t xs ys).map (fun c => auprcOf c.1 c.2.1 c.2.2)
      = .ok (auprcSpec ((xs.zip ys).map fun p => (f p.1, p.2))) := by
  rw [binned_counts_eq t xs ys hs hne hlen hy]
  exact congrArg Except.ok (binned_auprc_eq_floor t (xs.zip ys) f hs
    (fun p hp => hy p.2 (List.of_mem_zip hp).2) hf hP)

/-- per class / per label: column `c` of the count matrices (either optimisation mode, by §3) gives the
    exact AUPRC of the floored one-vs-rest / label-column problem. -/
theorem binned_auprc_eq_floor_mat (view : Nat → Samples) (S : Nat) (t : List Q) (f : Q → Q) (c : Nat) (hc : c < S)
    (hs : t.Pairwise (· ≤ ·)) (h01 : ∀ p ∈ view c, p.2 ≤ 1)
    (hf : ∀ p ∈ view c, IsFloorOf t p.1 (f p.1)) (hP : (positives (view c)).length ≠ 0) :
    auprcOf (column (countMats view S t).1 c) (column (countMats view S t).2.1 c) (column (countMats view S t).2.2 c)
      = auprcSpec ((view c).map fun p => (f p.1, p.2)) := by
  unfold countMats
  simp only [column_map_range t S _ c hc]
  exact binned_auprc_eq_floor t (view c) f hs h01 hf hP

/-- the value of the exact AUPRC under its guard. -/
theorem auprcSpec_val (s : Samples) (h : ((positives s).length : Q) ≠ 0) :
    auprcSpec s = apSum s / ((positives s).length : Q) := by
  unfold auprcSpec; simp [h]

example : auprcOf [2, 2, 2, 1] [2, 1, 1, 0] [0, 0, 0, 1] = 5/6
    ∧ auprcSpec [(0, 0), (1/4, 1), (1/4, 0), (1, 1)] = 5/6 := by decide +kernel
example : ∀ p ∈ ([(1/8, 0), (1/2, 1), (1/4, 0), (1, 1)] : Samples),
    IsFloorOf [0, 1/4, 1/4, 1] p.1 ((fun x => if x < 1/4 then 0 else if x < 1 then 1/4 else 1) p.1) := by
  intro p hp
  apply floorTo_isFloor
  revert p
  decide +kernel

end TE.C06
