import TE.Model.Binned
import TE.Spec.Binned
namespace TE.C06
open TE TE.Binned TE.Spec.Binned

theorem stub : searchsortedRight [] 0 = 0 := rfl

end TE.C06
