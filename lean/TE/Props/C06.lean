/-
  C06 — binned metrics equal exhaustive per-threshold counting; the 'vectorized'
  and 'memory' optimisation modes agree; binned AUROC / AUPRC with thresholds
  starting at 0 equal the exact AUROC / AUPRC of the scores rounded down to the
  nearest threshold.
  ONLY property theorems and non-vacuity examples live here; helper lemmas are in
  TE/Lemmas/Binned*.lean.  `Sorted (≤)` is `List.Pairwise (· ≤ ·)` (non-strict:
  duplicated thresholds are allowed everywhere).
-/
import TE.Model.Binned
import TE.Spec.Binned
import TE.Lemmas.Binned
namespace TE.C06
open TE TE.Binned TE.Spec.Binned TE.BinnedL

/-! ## 1. the bucket index -/

/-- the parameter check `not (diff(threshold) < 0).any()` is sortedness. -/
theorem paramCheck_sorted (t : List Q) (h : paramCheck t = .ok ()) : t.Pairwise (· ≤ ·) := by
  unfold paramCheck at h
  by_cases hs : sortedB t = true
  · exact sortedB_pairwise t hs
  · simp [hs] at h

/-- `searchsorted(t, x, right=True) - 1 ≥ j  ↔  t[j] ≤ x` on a sorted (possibly
    repeating) threshold list: a score exactly on a threshold belongs to that
    threshold's bucket, a score below `t[0]` has bucket `-1`. -/
theorem bucket_ge_iff (t : List Q) (x : Q) (hs : t.Pairwise (· ≤ ·)) (j : Nat) (hj : j < t.length) :
    (j : Int) ≤ bucket t x ↔ t[j] ≤ x := by
  rw [← lt_ss_iff t x hs j hj]; unfold bucket; omega

/-- the bucket index never exceeds the last threshold's index. -/
theorem bucket_lt_length (t : List Q) (x : Q) : bucket t x < t.length := by
  have := ss_le_length t x; unfold bucket; omega

example : ([0, 1/4, 1/4, 1/2] : List Q).Pairwise (· ≤ ·) := by decide +kernel
example : bucket [0, 1/4, 1/4, 1/2] (1/4) = 2 ∧ bucket [1/4, 1/2] (1/8) = -1 ∧ bucket [1/4, 1/2] 1 = 1 := by decide +kernel

/-! ## 2. binary `_update`: suffix sums of the unit histogram = per-threshold counting -/

/-- `num_tp[j] = #{y=1 ∧ x ≥ t[j]}`, `num_fp[j] = #{y=0 ∧ x ≥ t[j]}`, `num_fn[j] = #{y=1 ∧ x < t[j]}`
    for every sorted threshold list (duplicates allowed, scores anywhere: a score below `t[0]` is
    dropped from TP/FP and kept in FN). -/
theorem binned_counts_eq (t xs : List Q) (ys : List Nat)
    (hs : t.Pairwise (· ≤ ·)) (hne : t ≠ []) (hlen : xs.length = ys.length) (hy : ∀ y ∈ ys, y ≤ 1) :
    binaryUpdate t xs ys = .ok
      (t.map fun u => (tpAt (xs.zip ys) u : Q),
       t.map fun u => (fpAt (xs.zip ys) u : Q),
       t.map fun u => (fnAt (xs.zip ys) u : Q)) := by
  have hT : t.length ≠ 0 := by simpa using hne
  have hcodes : ((xs.zip ys).map fun p => binaryCode t p.1 p.2)
      = codesOf 1 (fun p _ => searchsortedRight t p.1) (fun p _ => p.2) (xs.zip ys) := by
    simp [codesOf, binaryCode_eq, List.range_one, flatMap_single]
  have hc : ∀ a ∈ xs.zip ys, ∀ s, s < 1 → (fun (p : Q × Nat) (_ : Nat) => searchsortedRight t p.1) a s ≤ t.length :=
    fun a _ s _ => ss_le_length t a.1
  have hb : ∀ a ∈ xs.zip ys, ∀ s, s < 1 → (fun (p : Q × Nat) (_ : Nat) => p.2) a s ≤ 1 :=
    fun a ha s _ => hy a.2 (List.of_mem_zip ha).2
  have hrow : ∀ r, r ≤ 1 →
      suffixSums ((List.range t.length).map fun k =>
        (histcUnit (2 * t.length) ((xs.zip ys).map fun p => binaryCode t p.1 p.2)).getD (2 * k + r) 0)
      = (List.range t.length).map fun k =>
          qcount (fun p : Q × Nat => decide (k < searchsortedRight t p.1) && p.2 == r) (xs.zip ys) := by
    intro r hr
    have := memLine_eq t.length 1 _ _ (xs.zip ys) hc hb 0 r (by omega) hr
    simpa [memLine, hcodes] using this
  have htp : ((List.range t.length).map fun k =>
          qcount (fun p : Q × Nat => decide (k < searchsortedRight t p.1) && p.2 == 1) (xs.zip ys))
      = t.map fun u => (tpAt (xs.zip ys) u : Q) := by
    apply map_range_eq_map
    intro k hk
    show qcount _ _ = qcount _ _
    apply qcount_congr
    intro p _
    rw [Bool.and_comm]; congr 1
    exact decide_eq_decide.mpr (lt_ss_iff t p.1 hs k hk)
  have hfp : ((List.range t.length).map fun k =>
          qcount (fun p : Q × Nat => decide (k < searchsortedRight t p.1) && p.2 == 0) (xs.zip ys))
      = t.map fun u => (fpAt (xs.zip ys) u : Q) := by
    apply map_range_eq_map
    intro k hk
    show qcount _ _ = qcount _ _
    apply qcount_congr
    intro p _
    rw [Bool.and_comm]; congr 1
    exact decide_eq_decide.mpr (lt_ss_iff t p.1 hs k hk)
  have hsum : qsum (ys.map fun y => ((y : Nat) : Q)) = (((xs.zip ys).countP fun p => p.2 == 1 : Nat) : Q) := by
    rw [qsum_nat01 ys hy, countP_snd_zip xs ys hlen (· == 1)]
  unfold binaryUpdate
  simp only [hT, if_false, hrow 1 (by omega), hrow 0 (by omega), htp, hfp, hsum, List.map_map]
  congr 3
  apply List.map_congr_left
  intro u _
  simp only [Function.comp, pos_split (xs.zip ys) u, Rat.natCast_add]
  grind

example : binaryUpdate [1/4, 1/4, 1/2] [1/8, 1/4, 1/2, 1] [1, 0, 1, 1] = .ok ([2, 2, 2], [1, 1, 0], [1, 1, 1]) := by
  rw [binned_counts_eq _ _ _ (by decide +kernel) (by decide +kernel) (by decide +kernel) (by decide +kernel)]
  simp [tpAt, fpAt, fnAt]; decide +kernel

end TE.C06
