/-
  C14 — failure atomicity of update() (the part a model can carry).
  * class models: a failing `upd` leaves the state exactly as it was and the object keeps
    behaving like one that never saw the failing call (the driver's `u` op is `applyUpd`);
  * code shape: "validate, then mutate" — which update() methods can still run a validation
    after their first state write is regenerated from /repo's AST on every run
    (harness/translators/atomicity.py) and decided here.
  * index-range safety (the provable part of "never write outside their buffers"):
    §A a semantics of index kernels with the behaviours observed on the installed torch
       (raises / wraps / drops / unchecked) and the notion `SafeIdx`;
    §B `idx_in_range_*`: for ALL inputs, on the typed models of the code, every index that
       reaches a kernel is inside `[0, bound)` whenever the model answers — and the model
       rejects otherwise;
    §C decided obligations over the inventory of index sites regenerated from /repo's AST and
       the kernel behaviours regenerated from the installed torch
       (harness/translators/indexsites.py → TE/Gen/IndexSites.lean).
    What C14 needs from an index site is that it cannot write (or read) outside its buffer.  A site
    that no guard protects (`unguardedSites`) uses a kernel of the WRAPPING or DROPPING kind; such a
    kernel keeps the buffer's extent for every index (`kernel_keeps_extent`) and never produces an
    undefined access (`kernel_defined_unless_unchecked`): an out-of-range label there yields a normal
    return with a wrong VALUE — which satisfies C14 ("return normally or raise") and is a matter of
    C04/C06/C18 — never an access outside the buffer.  Only the `unchecked` kinds could leave it, and
    `unchecked_kernels_are_guarded` decides that they are reached through an explicit check or
    constructed indices only.
  NOT decidable by this technique: native memory safety inside torch kernels, interpreter
  crashes and hangs — those are observed by the fault enumeration in a child process.
-/
import TE.Model.ClassSM
import TE.Gen.Atomicity
import TE.Model.Index
import TE.Gen.IndexSites
import TE.Lemmas.Index
import TE.Lemmas.IndexFam
import TE.Lemmas.Window
import TE.Lemmas.WindowAuroc
namespace TE.C14
open TE

variable {B S O : Type}

/-- what the object does with an update call: commit on success, keep the state on failure. -/
def applyUpd (m : Impl B S O) (s : S) (b : B) : S :=
  match m.upd s b with
  | .ok s' => s'
  | .error _ => s

theorem failed_update_keeps_state (m : Impl B S O) (s : S) (b : B) (e : Err)
    (h : m.upd s b = .error e) : applyUpd m s b = s := by
  simp [applyUpd, h]

/-- a failed call is invisible to every continuation: the run with the failing call inserted
    anywhere equals the run without it. -/
theorem failed_update_invisible (m : Impl B S O) (s : S) (bad : B) (e : Err)
    (h : m.upd s bad = .error e) (cont : List B) :
    cont.foldl (applyUpd m) (applyUpd m s bad) = cont.foldl (applyUpd m) s := by
  rw [failed_update_keeps_state m s bad e h]

/-- for `additive` classes failure is decided by the batch alone (validation does not look
    at the accumulated state), so a call that fails once fails at every point of every history. -/
theorem additive_failure_state_independent {A : Type} (M : Acc A) (stat : B → Except Err A)
    (outA : A → Except Err O) (s s' : A) (b : B) (e : Err)
    (h : (additive M stat outA).upd s b = .error e) : (additive M stat outA).upd s' b = .error e := by
  simp only [additive] at h ⊢
  cases hs : stat b with
  | error e' => simp [hs, bind, Except.bind] at h ⊢; exact h
  | ok a => simp [hs, bind, Except.bind] at h

/-- generated obligation: the update() methods in which a validation can still run after the
    first state write are exactly these three (loops over tasks / queries that validate per
    iteration); for them atomicity rests on the fault enumeration alone. -/
theorem validate_then_mutate_table :
    (Gen.validationAfterWrite.filter (·.2)).map (·.1) =
      ["BinaryBinnedAUPRC", "RetrievalPrecision", "RetrievalRecall"] := by decide +kernel

example : Gen.validationAfterWrite.length ≥ 60 := by decide +kernel


/-! # Index-range safety

## A. kernels -/

section
open TE.Index TE.IndexL
variable {α : Type}

/-- on an index inside `[0, n)` every kernel kind does the same thing: it updates that slot. -/
theorem kernels_agree_in_range (b : Behaviour) (buf : List α) (i : Int) (f : α → α)
    (h : 0 ≤ i ∧ i < (buf.length : Int)) : modifyAt b buf i f = .ok (buf.modify i.toNat f) :=
  modifyAt_inRange b buf i f h

/-- whatever a kernel answers, the buffer keeps its extent. -/
theorem kernel_keeps_extent (b : Behaviour) (buf l : List α) (i : Int) (f : α → α)
    (h : modifyAt b buf i f = .ok l) : l.length = buf.length :=
  modifyAt_length b buf l i f h

/-- only the `unchecked` kind can leave the buffer. -/
theorem kernel_defined_unless_unchecked (b : Behaviour) (hb : b ≠ .unchecked) (buf : List α) (i : Int)
    (f : α → α) : modifyAt b buf i f ≠ .undefined :=
  modifyAt_defined b hb buf i f

/-- **Safe ⇒ never silent**: if the kernel is of the raising kind or every index is in range, a
    whole index tensor is either rejected with a Python exception or handled exactly as the caller
    means (every index addresses its own slot): no wrap-around, no dropped element, no access
    outside the buffer. -/
theorem safe_site_never_silent (b : Behaviour) (buf : List α) (ops : List (Int × (α → α)))
    (h : SafeIdx b buf.length (ops.map (·.1))) :
    applyAll b buf ops = .raised ∨
      ((∀ i ∈ ops.map (·.1), 0 ≤ i ∧ i < (buf.length : Int)) ∧ applyAll b buf ops = .ok (textbook buf ops)) :=
  applyAll_safe b ops buf h

example : SafeIdx .wraps 3 [0, 2, 1] := Or.inr (by decide)
example : SafeIdx .raises 3 [0, -1, 7] := Or.inl rfl

/-- what an UNGUARDED site of each non-raising kind does with the label `-1` on three classes:
    `wraps` silently credits the last class, `drops` silently loses the sample, `unchecked` has no
    defined result — the three ways a metric can be silently wrong or crash. -/
theorem unguarded_kernel_witness :
    modifyAt .wraps [0, 0, 0] (-1) (· + 1) = .ok [0, 0, (1 : Nat)] ∧
    modifyAt .drops [0, 0, 0] (-1) (· + 1) = .ok [0, 0, (0 : Nat)] ∧
    modifyAt .unchecked [0, 0, 0] (-1) (· + (1 : Nat)) = .undefined ∧
    modifyAt .raises [0, 0, 0] (-1) (· + (1 : Nat)) = .raised := by decide

end

/-! ## B. `idx_in_range_*` on the typed models -/

section
open TE.Index TE.IndexL

/-- `torch.argmax(row)` of a non-empty row is a position of the row (index by construction). -/
theorem idx_in_range_argmax (row : List Q) (h : row ≠ []) : Count.argmaxFirst row < row.length :=
  argmaxFirst_lt row h

example : Count.argmaxFirst [1/2, 1, 1, 0] = 1 := by decide +kernel

/-- `zeros(n).scatter_(0, idx, vals, reduce="add")`: when the model answers, every index is a slot;
    any index `≥ n` makes it the `RuntimeError`. -/
theorem idx_in_range_scatter (n : Nat) (idx : List Nat) (vals : List Q) :
    (∀ r, Count.scatterAdd n idx vals = .ok r → ∀ i ∈ idx, i < n) ∧
    (∀ i ∈ idx, n ≤ i → Count.scatterAdd n idx vals = .error .runtime) :=
  ⟨fun r h => scatterAdd_ok_idx n idx vals r h, fun i hi hn => scatterAdd_err n idx vals i hi hn⟩

/-- the same on labels as the user passes them (negative ones included): in range or `RuntimeError`;
    and an answer is what EVERY kernel kind computes on those indices (`scatter_` itself is the
    raising kind on this torch). -/
theorem idx_in_range_scatter_int (n : Nat) (idx : List Int) (vals : List Q) :
    (∀ r, scatterAddI n idx vals = .ok r →
        (∀ i ∈ idx, 0 ≤ i ∧ i < (n : Int)) ∧ ∀ b, applyAll b (vzero n) (scatterOps idx vals) = .ok r) ∧
    (∀ i ∈ idx, (i < 0 ∨ (n : Int) ≤ i) → scatterAddI n idx vals = .error .runtime) :=
  ⟨fun r h => ⟨scatterAddI_ok_idx n idx vals r h, fun b => scatterAddI_eq_kernel b n idx vals r h⟩,
   fun i hi ho => scatterAddI_err n idx vals i hi ho⟩

example : scatterAddI 3 [0, 2, 2] [1, 1, 1] = .ok [1, 0, 2] ∧ scatterAddI 3 [0, -1] [1, 1] = .error .runtime := by
  decide +kernel

/-- per-class accuracy / precision / recall / F1 (`average ≠ "micro"`): when the update answers,
    every target — and every prediction that reaches `scatter_` — is a class index `< num_classes`. -/
theorem idx_in_range_count_families (preds labs : List Nat) (avg : Count.Avg) (C : Nat) (hm : avg ≠ .micro) :
    (∀ mask r, Count.mcAccFromMask mask labs avg C = .ok r → ∀ l ∈ labs, l < C) ∧
    (∀ s, Count.precisionUpdate preds labs avg C = .ok s →
        (∀ l ∈ labs, l < C) ∧ ∀ p ∈ preds.zip labs, p.1 ≠ p.2 → p.1 < C) ∧
    (∀ s, Count.recallUpdate preds labs avg C = .ok s → (∀ l ∈ labs, l < C) ∧ ∀ p ∈ preds, p < C) :=
  ⟨fun mask r h => mcAccFromMask_ok mask labs avg C r hm h,
   fun s h => precisionUpdate_ok preds labs avg C s hm h,
   fun s h => recallUpdate_ok preds labs avg C s hm h⟩

example : ∃ s, Count.recallUpdate [0, 2, 1] [0, 1, 1] .macro 3 = .ok s := ⟨_, rfl⟩

/-- confusion matrix, typed model: an answer means every prediction and every target is `< C`;
    anything else is rejected. -/
theorem idx_in_range_confusion (preds labs : List Nat) (C : Nat) :
    (∀ m, Count.confusionUpdate preds labs C = .ok m → (∀ p ∈ preds, p < C) ∧ (∀ l ∈ labs, l < C)) ∧
    (((∃ p ∈ preds, C ≤ p) ∨ (∃ l ∈ labs, C ≤ l)) → Count.confusionUpdate preds labs C = .error .runtime) :=
  ⟨fun m h => confusionUpdate_ok_idx preds labs C m h, confusionUpdate_err preds labs C⟩

/-- confusion matrix on labels as the user passes them, with the value checks of
    `_confusion_matrix_update_input_check` in front of the UNCHECKED kernel
    (`sparse_coo_tensor(...).to_dense()`): an answer means `0 ≤ label < C` on both sides; any other
    label is the check's `ValueError`; and whenever both checks pass the kernel's precondition holds
    — the unchecked kernel never sees an index outside `[0, C)`. -/
theorem idx_in_range_confusion_checked (C : Nat) (preds labs : List Int) :
    (∀ m, confusionI C preds labs = .ok m →
        (∀ p ∈ preds, 0 ≤ p ∧ p < (C : Int)) ∧ (∀ l ∈ labs, 0 ≤ l ∧ l < (C : Int))) ∧
    (preds ≠ [] → ((∃ p ∈ preds, p < 0 ∨ (C : Int) ≤ p) ∨ (∃ l ∈ labs, l < 0 ∨ (C : Int) ≤ l)) →
        confusionI C preds labs = .error .value) ∧
    (∀ p l, checkLabels C preds = .ok p → checkLabels C labs = .ok l →
        SafeIdx .unchecked C preds ∧ SafeIdx .unchecked C labs ∧ ∃ m, Count.confusionUpdate p l C = .ok m) :=
  ⟨fun m h => confusionI_ok C preds labs m h,
   fun hne h => confusionI_rejects C preds labs hne h,
   fun p l hp hl => ⟨Or.inr (checkLabels_ok C preds p hp).2.1, Or.inr (checkLabels_ok C labs l hl).2.1,
     confusion_checked C preds labs p l hp hl⟩⟩

example : confusionI 3 [0, 2] [1, 2] = .ok [[0, 0, 0], [1, 0, 0], [0, 0, 1]] ∧
    confusionI 3 [0, 2] [1, -1] = .error .value ∧ confusionI 3 [3, 2] [1, 1] = .error .value := by decide +kernel

/-- binned metrics: the bucket `searchsorted(threshold, x, right=True) - 1` lies in `[-1, T)`. -/
theorem idx_in_range_bucket (t : List Q) (x : Q) :
    -1 ≤ Binned.bucket t x ∧ Binned.bucket t x < (t.length : Int) :=
  bucket_range t x

/-- the flat histogram code `2·(S·bucket + slot) + bit` of the memory forms (`slot < S` classes /
    labels, `bit ≤ 1`): always below the number of bins `2·S·T`; non-negative exactly for the scores
    at or above the first threshold; NEGATIVE for a score below it, which `histc(min=0)` drops —
    it is never counted in a foreign bin. -/
theorem idx_in_range_flatcode (S : Nat) (t : List Q) (x : Q) (slot bit : Nat) (hs : slot < S) (hb : bit ≤ 1) :
    Binned.flatCode S t x slot bit < 2 * (S : Int) * (t.length : Int) ∧
    (0 ≤ Binned.bucket t x → 0 ≤ Binned.flatCode S t x slot bit) ∧
    (Binned.bucket t x = -1 → Binned.flatCode S t x slot bit < 0) :=
  ⟨flatCode_lt S t x slot bit hs hb, flatCode_nonneg S t x slot bit, fun h => flatCode_neg S t x slot bit h hs hb⟩

/-- the binary code `2·bucket + target` for targets in {0, 1}. -/
theorem idx_in_range_binarycode (t : List Q) (x : Q) (y : Nat) (hy : y ≤ 1) :
    Binned.binaryCode t x y < 2 * (t.length : Int) ∧ (0 ≤ Binned.bucket t x → 0 ≤ Binned.binaryCode t x y) ∧
      (Binned.bucket t x = -1 → Binned.binaryCode t x y < 0) :=
  binaryCode_range t x y hy

example : Binned.flatCode 3 [0, 1/2, 1] (3/4) 2 1 = 11 ∧ Binned.flatCode 3 [1/4, 1/2] (1/8) 2 1 = -1 := by decide +kernel

/-- UNGUARDED (binary / multilabel binned metrics): the code is only injective for `bit ≤ 1`; a
    target `2` at the lowest bucket gets the code of a NEGATIVE sample one threshold higher, and a
    target `-1` the code of a positive sample one threshold lower: silently wrong counts. -/
theorem binned_target_out_of_range_witness :
    Binned.binaryCode [0, 1/2] 0 2 = Binned.binaryCode [0, 1/2] (1/2) 0 ∧
    2 * Binned.bucket [0, 1/2] (1/2) + (-1 : Int) = Binned.binaryCode [0, 1/2] 0 1 := by decide +kernel

/-- `torch.gather(input, -1, target)` for one row: an answer means `0 ≤ target < len(row)` and is
    that element; any other target is the `RuntimeError` (negative targets do not wrap). -/
theorem idx_in_range_gather (row : List Q) (t : Int) :
    (∀ y, Rank.gather1 row t = .ok y → 0 ≤ t ∧ t < (row.length : Int) ∧ row[t.toNat]? = some y) ∧
    ((t < 0 ∨ (row.length : Int) ≤ t) → Rank.gather1 row t = .error .runtime) :=
  ⟨fun y h => gather1_ok row t y h, gather1_err row t⟩

/-- hit rate (`0 < k < C`) and reciprocal rank: an answer means every target addresses its row. -/
theorem idx_in_range_ranks (rows : List (List Q)) (target : List Int) :
    (∀ rs, Rank.ranks rows target = .ok rs → ∀ p ∈ rows.zip target, 0 ≤ p.2 ∧ p.2 < (p.1.length : Int)) ∧
    (∀ (C : Nat) (k : Int) r, 0 < k → k < (C : Int) → Rank.hitRate rows C target (some k) = .ok r →
        ∀ p ∈ rows.zip target, 0 ≤ p.2 ∧ p.2 < (p.1.length : Int)) ∧
    (∀ k r, Rank.reciprocalRank rows target k = .ok r → ∀ p ∈ rows.zip target, 0 ≤ p.2 ∧ p.2 < (p.1.length : Int)) :=
  ⟨fun rs h => ranks_ok rows target rs h, fun C k r h0 hC h => hitRate_ok rows C target k r h0 hC h,
   fun k r h => reciprocalRank_ok rows target k r h⟩

example : Rank.hitRate [[1/2, 1/4, 0]] 3 [1] (some 2) = .ok [1] ∧ Rank.hitRate [[1/2, 1/4, 0]] 3 [-1] (some 2) = .error .runtime := by
  decide +kernel

/-- NOT an index site, but a consequence worth a witness: for `k = None` or `k ≥ C` `hit_rate`
    answers ones without ever looking at `target` — an out-of-range target is not noticed. -/
theorem hit_rate_shortcut_ignores_target_witness :
    Rank.hitRate [[1/2, 1/4, 0]] 3 [-7] none = .ok [1] ∧ Rank.hitRate [[1/2, 1/4, 0]] 3 [99] (some 3) = .ok [1] := by
  decide +kernel

/-- `get_topk` + `gather` of the labels: every retained (score, label) pair is one of the input's
    positions, and `topk(min(k, n))` never asks for more than there is. -/
theorem idx_in_range_topk (k : Option Nat) (l : List Rank.Pair) :
    (∀ p ∈ Rank.topk k l, p ∈ l) ∧ (Rank.topk k l).length ≤ l.length ∧
    (Rank.topk k l).length = (match k with | none => l.length | some k => min k l.length) :=
  ⟨topk_mem k l, topk_length_le k l, RankL.topk_length k l⟩

/-- retrieval classes: the `indexes == i` partition of a batch only selects positions of the
    batch. -/
theorem idx_in_range_retrieval_partition (batch : List Rank.Pair) (ix : List Int) (i : Int) :
    (∀ x ∈ ((batch.zip ix).filter fun p => p.2 == i).map (·.1), x ∈ batch) ∧
    (((batch.zip ix).filter fun p => p.2 == i).map (·.1)).length ≤ batch.length :=
  ⟨partition_mem batch ix i, partition_length batch ix i⟩

/-- … and query numbers outside `[0, num_queries)` are silently ignored: the update succeeds and
    changes nothing (no index is formed from them — `drops` at the level of the metric). -/
theorem retrieval_foreign_indexes_ignored (c : Rank.RCfg) (st : Rank.RState) (batch : List Rank.Pair)
    (ix : List Int) (hq : c.numQueries ≠ 1) (hlen : st.length ≤ c.numQueries)
    (hout : ∀ j ∈ ix, j < 0 ∨ (c.numQueries : Int) ≤ j) : Rank.rUpdate c st batch (some ix) = .ok st :=
  rUpdate_foreign_indexes c st batch ix hq hlen hout

example : Rank.rUpdate ⟨.precision, some 2, false, 2, .neg, false⟩ [[], []] [(1/2, 1), (1/4, 0)] (some [-1, 2]) = .ok [[], []] := by
  decide +kernel

/-- windowed metrics (update-granular ring buffer), EVERY history of updates, merges and resets,
    every window size N ≥ 1: the write position `next_inserted` is a column of the buffer. -/
theorem idx_in_range_ring {α B O : Type} (M : Acc α) (N : Nat) (hN : 1 ≤ N) (whole : Bool) (stat : B → Except Err α)
    (render : α → α → Except Err O) (empty : O) (h : Hist B) (r : Window.Ring α)
    (he : eval (Window.ringImpl M N whole stat render empty) h = .ok r) :
    r.next < r.cap ∧ r.cap ≤ r.buf.length :=
  (ring_all_histories M N hN whole stat render empty h r he).2

/-- a single instance: the cursor is `|history| mod N` (C13 `ring_inv`), below `N = |buffer|`. -/
theorem idx_in_range_ring_run {α : Type} (M : Acc α) (N : Nat) (hN : 1 ≤ N) (us : List α) :
    (Window.Ring.run M N us).next = us.length % N ∧ (Window.Ring.run M N us).next < N ∧
    (Window.Ring.run M N us).buf.length = N := by
  have h := WindowL.rinv_run M N hN us
  exact ⟨h.next, by rw [h.next]; exact Nat.mod_lt _ (by omega), h.len⟩

/-- WindowedBinaryAUROC, every history: the cursor is a column of the buffer, the three branches
    of `update` write the column ranges `aurocWriteRanges` which all lie inside `[0, cap)`, and
    `update` IS that sequence of in-range slice assignments. -/
theorem idx_in_range_auroc_window {B O : Type} (T N : Nat) (hN : 1 ≤ N) (cols : B → Except Err (List Window.Col))
    (render : Window.AOut → O) (h : Hist B) (s : Window.SBuf)
    (he : eval (Window.aurocImpl T N cols render) h = .ok s) (b : List Window.Col) :
    s.next < s.cap ∧ s.cap ≤ s.buf.length ∧
    (∀ r ∈ aurocWriteRanges s.cap s.next b.length, r.1 ≤ r.2 ∧ r.2 ≤ s.cap) ∧
    (aurocWrites s.cap s.next b).map (fun w => (w.1, w.1 + w.2.length)) = aurocWriteRanges s.cap s.next b.length ∧
    (s.buf.length = s.cap →
      (s.update b).buf = (aurocWrites s.cap s.next b).foldl (fun d w => Window.place d w.1 w.2) s.buf) := by
  have hok := sbuf_all_histories T N hN cols render h s he
  exact ⟨hok.2.1, hok.2.2, aurocWriteRanges_in s.cap s.next b.length hok.2.1,
    aurocWrites_ranges s.cap s.next b hok.2.1, update_buf_eq_writes s b⟩

example : aurocWriteRanges 5 3 4 = [(3, 5), (0, 2)] ∧ aurocWriteRanges 5 3 2 = [(3, 5)] ∧ aurocWriteRanges 5 3 9 = [(0, 5)] := by
  decide

/-- perplexity: the explicit check bounds the counted targets (those ≠ `ignore_index`) from ABOVE. -/
theorem idx_in_range_perplexity_upper (exp ln : Q → Q) (V : Nat) (rows : Mat) (tgt : List Int) (ignore : Option Int) :
    (∀ r, Agg.pplUpdate exp ln V rows tgt ignore = .ok r → ∀ p ∈ Agg.pplTokens rows tgt ignore, p.2 < (V : Int)) ∧
    (∀ p ∈ Agg.pplTokens rows tgt ignore, (V : Int) ≤ p.2 → Agg.pplUpdate exp ln V rows tgt ignore = .error .value) :=
  ⟨fun r h => pplUpdate_ok_upper exp ln V rows tgt ignore r h, fun p hp hb => pplUpdate_rejects exp ln V rows tgt ignore p hp hb⟩

/-- UNGUARDED from below (full statement `∀ counted target, 0 ≤ target` is false): the model — like
    `_perplexity_input_check` — accepts a negative target, and the kernel `probs[:, target]` is of the
    wrapping kind: target `-1` silently reads the LAST vocabulary entry. -/
theorem perplexity_negative_target_witness :
    (∃ r, Agg.pplUpdate id id 3 [[1, 2, 3]] [-1] none = .ok r) ∧
    readAt .wraps [(1 : Q), 2, 3] (-1) = .ok 3 ∧ readAt .raises [(1 : Q), 2, 3] (-1) = .raised := by
  refine ⟨⟨_, rfl⟩, by decide +kernel, by decide +kernel⟩

/-- edit distance: the table's last row has exactly `|reference| + 1` cells, so `dp[-1][-1]` (and every
    `dp[i][j]`, `j ≤ |reference|`) exists. -/
theorem idx_in_range_edit_distance_table {α : Type} [DecidableEq α] (pred ref : List α) :
    (Text.dpRows ref pred (List.range (ref.length + 1)) 0).length = ref.length + 1 :=
  dp_final_row_length pred ref

/-- BLEU: every counted n-gram has a length in `[1, N]`, so `matches_by_order[len(ngram) - 1]`
    addresses one of the `N` slots. -/
theorem idx_in_range_bleu_order {α : Type} (s : List α) (N : Nat) :
    ∀ g ∈ Text.allNgrams s N, 1 ≤ g.length ∧ g.length ≤ N :=
  allNgrams_length s N

example : Text.allNgrams [1, 2, 3] 2 = [[1], [2], [3], [1, 2], [2, 3]] := by decide

end

/-! ## C. decided obligations over the regenerated inventory -/

section
open TE.Index

/-- behaviour of a kernel kind as observed on the installed torch. -/
def behaviourOf (k : String) : Option Behaviour :=
  (Gen.kernelBehaviour.find? (·.1 == k)).map (·.2.1)

/-- the index sites that NO guard protects on this tree (file, function, kernel kind, unconstructed roots):
    an upper bound — a site that gets a guard may stay listed, a new unguarded site breaks
    `index_sites_guarded`.  All of them use kernels of the wrapping (`index_aug`, `index_get`) or
    dropping (`histc`) kind (`unchecked_kernels_are_guarded`), so by `kernel_keeps_extent` and
    `kernel_defined_unless_unchecked` they cannot write outside the buffer — which is what C14 needs;
    the wrong value a call then returns (see `unguarded_kernel_witness`, `binned_target_out_of_range_witness`,
    `perplexity_negative_target_witness`) is outside C14.  What the real code does there is printed into
    the evidence on every run: harness/props/c14.py (`UNGUARDED`, `accepted_out_of_range_inputs`). -/
def unguardedSites : List (String × String × String × String) := [
  ("functional/classification/binned_precision_recall_curve.py", "_update", "histc", "target"),
  ("functional/classification/binned_precision_recall_curve.py", "_multiclass_binned_precision_recall_curve_update_memory",
   "index_aug", "target"),
  ("functional/classification/binned_precision_recall_curve.py", "_multiclass_binned_precision_recall_curve_update_memory",
   "histc", "target"),
  ("functional/classification/binned_precision_recall_curve.py", "_multilabel_binned_precision_recall_curve_update_memory",
   "histc", "target"),
  ("functional/text/perplexity.py", "_perplexity_update", "index_get", "target")
]

/-- **every user-fed index site is guarded** — by an explicit value check that runs before it, by
    construction of the index, or by a kernel that raises — except the sites listed above. -/
theorem index_sites_guarded :
    ∀ s ∈ Gen.indexSites, s.guard ≠ .none ∨ s.key ∈ unguardedSites := by decide +kernel

/-- a site that relies on the kernel's own bounds check uses a kernel that DID raise for every
    out-of-range index of the probe on the installed torch. -/
theorem kernel_raises_sites_probed :
    ∀ s ∈ Gen.indexSites, s.guard = .kernelRaises → s.kind ∈ Gen.raisingKinds := by decide +kernel

/-- every site's kernel kind has been probed. -/
theorem every_site_kind_probed : ∀ s ∈ Gen.indexSites, (behaviourOf s.kind).isSome = true := by decide +kernel

/-- **the memory-safety obligation of C14 over the inventory**: the kernels that can leave their
    buffer (`unchecked`) are only reached through an explicit check or with constructed indices;
    hence the unguarded sites above are of the wrapping / dropping kinds, which keep the buffer's
    extent and are always defined (`kernel_keeps_extent`, `kernel_defined_unless_unchecked`):
    possibly a wrong value, but no access outside a buffer. -/
theorem unchecked_kernels_are_guarded :
    ∀ s ∈ Gen.indexSites, behaviourOf s.kind = some .unchecked → s.guard = .explicitCheck ∨ s.guard = .byConstruction := by
  decide +kernel

/-- the behaviour of every probed kernel kind on the installed torch (a torch upgrade that changes
    one of them changes the generated table and breaks this theorem). -/
theorem kernel_behaviour_table :
    Gen.kernelBehaviour.map (fun r => (r.1, r.2.1)) = [
      ("gather", .raises), ("histc", .drops), ("index_add_", .raises), ("index_aug", .wraps), ("index_get", .wraps),
      ("index_put_", .wraps), ("index_select", .raises), ("index_set", .wraps), ("int_get", .wraps), ("one_hot", .raises),
      ("pylist_get", .wraps), ("pylist_set", .wraps), ("scatter_", .raises), ("scatter_add_", .raises),
      ("slice_set", .raises), ("sparse_coo_tensor", .unchecked), ("split", .raises), ("take_along_dim", .unchecked),
      ("topk", .raises)] ∧
    Gen.searchsortedNonFinite = [3, 3, 0] := by decide +kernel

example : Gen.indexSites.length ≥ 100 := by decide +kernel
example : ∃ s ∈ Gen.indexSites, s.guard = .explicitCheck ∧ s.kind = "sparse_coo_tensor" := by decide +kernel

end

end TE.C14
