/-
  C14 — failure atomicity of update() (the part a model can carry).
  * class models: a failing `upd` leaves the state exactly as it was and the object keeps
    behaving like one that never saw the failing call (the driver's `u` op is `applyUpd`);
  * code shape: "validate, then mutate" — which update() methods can still run a validation
    after their first state write is regenerated from /repo's AST on every run
    (harness/translators/atomicity.py) and decided here.
  NOT decidable by this technique: native memory safety inside torch kernels, interpreter
  crashes and hangs — those are observed by the fault enumeration in a child process.
-/
import TE.Model.ClassSM
import TE.Gen.Atomicity
namespace TE.C14
open TE

variable {B S O : Type}

/-- what the object does with an update call: commit on success, keep the state on failure. -/
def applyUpd (m : Impl B S O) (s : S) (b : B) : S :=
  match m.upd s b with
  | .ok s' => s'
  | .error _ => s

theorem failed_update_keeps_state (m : Impl B S O) (s : S) (b : B) (e : Err)
    (h : m.upd s b = .error e) : applyUpd m s b = s := by
  simp [applyUpd, h]

/-- a failed call is invisible to every continuation: the run with the failing call inserted
    anywhere equals the run without it. -/
theorem failed_update_invisible (m : Impl B S O) (s : S) (bad : B) (e : Err)
    (h : m.upd s bad = .error e) (cont : List B) :
    cont.foldl (applyUpd m) (applyUpd m s bad) = cont.foldl (applyUpd m) s := by
  rw [failed_update_keeps_state m s bad e h]

/-- for `additive` classes failure is decided by the batch alone (validation does not look
    at the accumulated state), so a call that fails once fails at every point of every history. -/
theorem additive_failure_state_independent {A : Type} (M : Acc A) (stat : B → Except Err A)
    (outA : A → Except Err O) (s s' : A) (b : B) (e : Err)
    (h : (additive M stat outA).upd s b = .error e) : (additive M stat outA).upd s' b = .error e := by
  simp only [additive] at h ⊢
  cases hs : stat b with
  | error e' => simp [hs, bind, Except.bind] at h ⊢; exact h
  | ok a => simp [hs, bind, Except.bind] at h

/-- generated obligation: the update() methods in which a validation can still run after the
    first state write are exactly these three (loops over tasks / queries that validate per
    iteration); for them atomicity rests on the fault enumeration alone. -/
theorem validate_then_mutate_table :
    (Gen.validationAfterWrite.filter (·.2)).map (·.1) =
      ["BinaryBinnedAUPRC", "RetrievalPrecision", "RetrievalRecall"] := by decide +kernel

example : Gen.validationAfterWrite.length ≥ 60 := by decide +kernel

end TE.C14
