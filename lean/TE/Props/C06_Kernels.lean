/-
  C06, tied to the SOURCE of the numeric kernels of the binned curve metrics: for every kernel that
  harness/translators/kernels.py translates from /repo's working tree (TE/Gen/KernelsBinned.lean, regenerated on every
  run of ./check C06), evaluating the GENERATED term on well-shaped arguments gives exactly the hand-written model of
  TE/Model/Binned.lean — for all lengths and all rational values.  A change of a kernel changes its generated term and
  breaks its theorem here; the runner then searches for a failing input.

  ONLY property theorems and non-vacuity examples; helper lemmas are in TE/Lemmas/Kernels*.lean.
-/
import TE.Model.TExpr
import TE.Model.Binned
import TE.Gen.KernelsBinned
import TE.Lemmas.Kernels
import TE.Lemmas.KernelsCurve
import TE.Lemmas.KernelsBinned
import TE.Props.C06
import TE.Lemmas.BinnedArea
namespace TE.C06K
open TE TE.TX TE.TXL TE.BinnedL TE.Spec.Binned
set_option linter.unusedSimpArgs false

/-! ## 0. coverage -/

theorem kernels_listed :
    Gen.Binned.kernels.map (·.name) = ["binned_update", "binary_binned_precision_recall_curve_update",
      "binary_binned_precision_recall_curve_compute",
      "binary_binned_auroc_compute", "riemann_integral", "binary_binned_auprc_compute"] := by
  kernel_proof "kernels_listed: the kernel table of C06 changed" => decide

/-- `_binary_binned_auroc_compute` compares against `threshold[:, None, None]` (3-d tensors): outside the grammar, it stays
    with the differential run (`binaryBinnedAuroc`). -/
theorem kernels_coverage :
    Gen.Binned.kernels.filterMap (fun k => k.reason?.map fun r => (k.name, r))
        = [("binary_binned_auroc_compute", "multi-dimensional index (:, None, None)")] ∧
      Gen.Binned.partials = [] := by
  kernel_proof "kernels_coverage: a kernel of C06 left the translator's grammar" => decide

/-! ## 1. `_binary_binned_precision_recall_curve_compute` (TorchScript)

  precision `nan_to_num(tp / (tp + fp), 1.0)`, recall `tp / (tp + fn)` (NaN with no positive at all), the appended
  `(1, 0)` point, the thresholds handed through. -/

/-- output of the kernel: `(precision, recall, threshold)` -/
def curveVal (c : List XQ × List XQ) (t : List Q) : Val := .pair (.vec c.1) (.pair (.vec c.2) (vecQ t))

/-- on count vectors of one length = `curveCompute` (every count, every threshold tensor). -/
theorem k_binary_binned_precision_recall_curve_compute_eq (tp fp fn t : List Q) (h1 : tp.length = fp.length)
    (h2 : fp.length = fn.length) :
    TX.eval [("num_tp", vecQ tp), ("num_fp", vecQ fp), ("num_fn", vecQ fn), ("threshold", vecQ t)]
        Gen.Binned.k_binary_binned_precision_recall_curve_compute
      = .ok (curveVal (Binned.curveCompute tp fp fn) t) := by
  obtain ⟨R, rfl, rfl, rfl⟩ := exists_rows3 tp fp fn h1 h2
  kernel_proof "k_binary_binned_precision_recall_curve_compute_eq: the generated term no longer evaluates to the model curveCompute" =>
    unfold Gen.Binned.k_binary_binned_precision_recall_curve_compute
    tx_eval [catV, fullV_one, curveVal, Binned.curveCompute, List.zip_map', xnanTo_one_binned]

example : ([2, 1, 0] : List Q).length = ([1, 0, 0] : List Q).length ∧ ([1, 0, 0] : List Q).length = ([0, 1, 2] : List Q).length := by
  decide

/-- hence the definition: on the per-threshold counts of the samples `s` the kernel returns the documented curve
    (`TE.C06.binned_curve_eq`). -/
theorem k_binary_binned_precision_recall_curve_compute_textbook (s : Spec.Binned.Samples) (t : List Q) :
    TX.eval [("num_tp", vecQ (t.map fun u => ((Spec.Binned.tpAt s u : Nat) : Q))),
             ("num_fp", vecQ (t.map fun u => ((Spec.Binned.fpAt s u : Nat) : Q))),
             ("num_fn", vecQ (t.map fun u => ((Spec.Binned.fnAt s u : Nat) : Q))), ("threshold", vecQ t)]
        Gen.Binned.k_binary_binned_precision_recall_curve_compute
      = .ok (curveVal (Spec.Binned.curve s t) t) := by
  rw [k_binary_binned_precision_recall_curve_compute_eq _ _ _ t (by simp) (by simp), TE.C06.binned_curve_eq]

/-! ## 2. the TorchScript `_update` of binned_precision_recall_curve.py

  bucket index `searchsorted(threshold, input, right=True) - 1`, the code `2 * bucket + target`, the unit-width
  `histc(bins=2T, min=0, max=2T)` (codes outside `[0, 2T]` — scores below the first threshold — are dropped; `T = 0`
  raises), `reshape((T, 2)).T`, suffix sums `flip.cumsum.flip` along the thresholds, `num_fn = target.sum() - num_tp`. -/

/-- output of the kernel: `(num_tp, num_fp, num_fn)` -/
def updVal (r : List Q × List Q × List Q) : Val := .pair (vecQ r.1) (.pair (vecQ r.2.1) (vecQ r.2.2))

/-- every score vector, every natural target vector of the same length, every threshold tensor (sorted or not, empty
    included: `RuntimeError`) -/
theorem k_binned_update_eq (t xs : List Q) (ys : List Nat) (h : xs.length = ys.length) :
    TX.eval [("input", vecQ xs), ("target", vecN ys), ("threshold", vecQ t)] Gen.Binned.k_binned_update
      = (Binned.binaryUpdate t xs ys).map updVal := by
  obtain ⟨R, rfl, rfl⟩ := exists_rows2 xs ys h
  kernel_proof "k_binned_update_eq: the generated term of _update no longer evaluates to the model binaryUpdate" =>
    unfold Gen.Binned.k_binned_update
    tx_eval [searchsortedRV, xsearchsortedRight_val]
    have hcode : R.map (fun a => XQ.val (((2 : Int) : Q) * (((Binned.searchsortedRight t a.fst : Nat) : Q) - 1) + ((a.snd : Nat) : Q)))
        = (R.map fun a => Binned.binaryCode t a.1 a.2).map (fun (c : Int) => XQ.val ((c : Int) : Q)) := by
      simp only [List.map_map, Function.comp_def, binaryCode_cast]
      rfl
    simp only [hcode, histcUnitV_codes]
    by_cases hT : t.length = 0
    · simp only [hT, if_true, error_bind, Binned.binaryUpdate, Except.map]
    · have hH := histcUnit_length (2 * t.length) (R.map fun a => Binned.binaryCode t a.1 a.2)
      simp only [hT, if_false, ok_bind, reshape2V_val _ _ hH, transposeV_range _ _ _ hT, rowsOp, List.map_cons, List.map_nil]
      simp only [rev_cumsum_rev_map, rowAtV_zero, rowAtV_one, ok_bind]
      tx_eval [Binned.binaryUpdate, hT, updVal, Except.map, zip_fst_snd, Nat.add_zero]

example : ([1/4, 3/4, 1/2] : List Q).length = ([1, 0, 1] : List Nat).length := by decide

/-- hence per-threshold counting (`TE.C06.binned_counts_eq`): `num_tp[j] = #{y=1 ∧ x ≥ t[j]}`, `num_fp[j] = #{y=0 ∧ x ≥ t[j]}`,
    `num_fn[j] = #{y=1 ∧ x < t[j]}` for sorted non-empty thresholds and 0/1 targets. -/
theorem k_binned_update_textbook (t xs : List Q) (ys : List Nat) (hs : t.Pairwise (· ≤ ·)) (hne : t ≠ [])
    (hlen : xs.length = ys.length) (hy : ∀ y ∈ ys, y ≤ 1) :
    TX.eval [("input", vecQ xs), ("target", vecN ys), ("threshold", vecQ t)] Gen.Binned.k_binned_update
      = .ok (updVal (t.map fun u => (Spec.Binned.tpAt (xs.zip ys) u : Q), t.map fun u => (Spec.Binned.fpAt (xs.zip ys) u : Q),
          t.map fun u => (Spec.Binned.fnAt (xs.zip ys) u : Q))) := by
  rw [k_binned_update_eq t xs ys hlen, TE.C06.binned_counts_eq t xs ys hs hne hlen hy]; rfl

/-- `_binary_binned_precision_recall_curve_update` is its input check followed by `_update`: the two generated terms coincide. -/
theorem k_binary_binned_precision_recall_curve_update_inlines :
    Gen.Binned.k_binary_binned_precision_recall_curve_update = Gen.Binned.k_binned_update := by
  kernel_proof "k_binary_binned_precision_recall_curve_update_inlines: the kernel is no longer `_update` after its input check" => rfl

example : ([0, 1/2, 1] : List Q).Pairwise (· ≤ ·) ∧ ([0, 1/2, 1] : List Q) ≠ [] ∧ (∀ y ∈ ([1, 0, 1] : List Nat), y ≤ 1) := by
  decide +kernel

/-! ## 3. `_binary_binned_auprc_compute` (binned_auprc.py) and `_riemann_integral` (tensor_utils.py)

  `_binary_binned_precision_recall_curve_update`, `_binary_binned_precision_recall_curve_compute` and `_riemann_integral` live in
  other modules: the generated term REFERS to their generated terms (`.call3 / .call4 / .call2`), once for the single task and
  once inside the Python-level loop over `num_tasks` rows (`.mapRange`, `input[i, :]` = `.rowDyn`), then `nan_to_num(nan=0.0)`.
  The theorems are compositions of `k_binned_update_textbook`, `…_compute_textbook`, `k_riemann_integral_eq` and
  `TE.C06.binned_curve_eq`; "at least one positive" and "no positive" (the recall is `0/0 = NaN` at every threshold, the integral NaN,
  which `nan_to_num` turns into `0`: `TE.C06.binned_auprc_no_positives`) have their own theorems. -/

/-- `-sum((x[1:] - x[:-1]) * y[:-1])` = `riemann x y`, for `x` and `y` of one length. -/
theorem k_riemann_integral_eq (xs ys : List Q) (h : xs.length = ys.length) :
    TX.eval [("x", vecQ xs), ("y", vecQ ys)] Gen.Binned.k_riemann_integral = .ok (scalarQ (Curve.riemann xs ys)) := by
  have hr := riemannSum_eq xs ys h
  obtain ⟨R, h1, h2, h3⟩ := exists_rows3 (xs.drop 1) xs.dropLast ys.dropLast (by simp) (by simp [h])
  rw [h1, h2, h3] at hr
  kernel_proof "k_riemann_integral_eq: the generated term of _riemann_integral no longer evaluates to the model riemann" =>
    unfold Gen.Binned.k_riemann_integral
    tx_eval [vecOp, ← List.map_drop, ← List.map_dropLast, h1, h2, h3]
    simp only [xneg, Curve.riemann, hr, List.zipWith_map, List.zipWith_self]


/-- the shape of the generated term: both branches are the SAME one-task term on different argument terms. -/
theorem k_binary_binned_auprc_compute_shape : Gen.Binned.k_binary_binned_auprc_compute
    = .ite (.pyAnd (.pyEq (.var "num_tasks") (.int 1)) (.pyEq (.ndim (.var "input")) (.int 1)))
        (.nanToNumTo (binnedAuprcTerm Gen.Binned.k_binary_binned_precision_recall_curve_update
          Gen.Binned.k_binary_binned_precision_recall_curve_compute Gen.Binned.k_riemann_integral
          (.var "input") (.var "target") (.var "threshold")) (.flt 0))
        (.nanToNumTo (.mapRange (.var "num_tasks") "$i0"
          (binnedAuprcTerm Gen.Binned.k_binary_binned_precision_recall_curve_update
            Gen.Binned.k_binary_binned_precision_recall_curve_compute Gen.Binned.k_riemann_integral
            (.rowDyn (.var "input") (.var "$i0")) (.rowDyn (.var "target") (.var "$i0")) (.var "threshold"))) (.flt 0)) := by
  kernel_proof "k_binary_binned_auprc_compute_shape: the generated term of _binary_binned_auprc_compute changed" => rfl


/-- one task with at least one positive: counts by `_update`, curve by `_compute`, Riemann integral of (recall, precision) -/
theorem k_binary_binned_auprc_row (t xs : List Q) (ys : List Nat) (hs : t.Pairwise (· ≤ ·)) (hne : t ≠ [])
    (hlen : xs.length = ys.length) (hy : ∀ y ∈ ys, y ≤ 1) (hP : (positives (xs.zip ys)).length ≠ 0)
    (env : Env) (a b th : TExpr) (ha : TX.eval env a = .ok (vecQ xs)) (hb : TX.eval env b = .ok (vecN ys))
    (hth : TX.eval env th = .ok (vecQ t)) :
    TX.eval env (binnedAuprcTerm Gen.Binned.k_binary_binned_precision_recall_curve_update
        Gen.Binned.k_binary_binned_precision_recall_curve_compute Gen.Binned.k_riemann_integral a b th)
      = .ok (scalarQ (Binned.auprcOf (t.map fun u => ((tpAt (xs.zip ys) u : Nat) : Q))
          (t.map fun u => ((fpAt (xs.zip ys) u : Nat) : Q)) (t.map fun u => ((fnAt (xs.zip ys) u : Nat) : Q)))) := by
  have hPq : ((positives (xs.zip ys)).length : Q) ≠ 0 := TE.BinnedL.natCast_ne_zero _ (by omega)
  have hu := k_binned_update_textbook t xs ys hs hne hlen hy
  rw [← k_binary_binned_precision_recall_curve_update_inlines] at hu
  have hcmp := k_binary_binned_precision_recall_curve_compute_textbook (xs.zip ys) t
  have hprec := curve_fst_vals (xs.zip ys) t
  have hrec : (curve (xs.zip ys) t).2
      = (t.map (fun u => (tpAt (xs.zip ys) u : Q) / ((positives (xs.zip ys)).length : Q)) ++ [0]).map XQ.val := by
    unfold curve
    simp only [List.map_append, List.map_map, List.map_cons, List.map_nil, Function.comp_def, recall_entry _ _ hPq]
  have hr := k_riemann_integral_eq
    (t.map (fun u => (tpAt (xs.zip ys) u : Q) / ((positives (xs.zip ys)).length : Q)) ++ [0])
    (t.map (precG (xs.zip ys)) ++ [1]) (by simp)
  have hm : Binned.auprcOf (t.map fun u => ((tpAt (xs.zip ys) u : Nat) : Q))
      (t.map fun u => ((fpAt (xs.zip ys) u : Nat) : Q)) (t.map fun u => ((fnAt (xs.zip ys) u : Nat) : Q))
      = Curve.riemann (t.map (fun u => (tpAt (xs.zip ys) u : Q) / ((positives (xs.zip ys)).length : Q)) ++ [0])
          (t.map (precG (xs.zip ys)) ++ [1]) := by
    unfold Binned.auprcOf
    rw [TE.C06.binned_curve_eq]
    unfold Binned.auprcOfCurve
    rw [hrec, hprec, allVals_vals, allVals_vals]
    simp only [Curve.riemann, riemannSum_binned_eq]
  rw [hm]
  simp only [vecQ, vecN, updVal, curveVal, hprec, hrec] at hu hcmp hr ha hb hth
  unfold binnedAuprcTerm
  simp only [TX.eval, ha, hb, hth, ok_bind, hu, fstV, sndV, hcmp, hr]


/-- one task (`num_tasks = 1`, 1-d input) -/
theorem k_binary_binned_auprc_compute_one (t xs : List Q) (ys : List Nat) (hs : t.Pairwise (· ≤ ·)) (hne : t ≠ [])
    (hlen : xs.length = ys.length) (hy : ∀ y ∈ ys, y ≤ 1) (hP : (positives (xs.zip ys)).length ≠ 0) :
    TX.eval [("input", vecQ xs), ("target", vecN ys), ("num_tasks", .int 1), ("threshold", vecQ t)] Gen.Binned.k_binary_binned_auprc_compute
      = .ok (scalarQ (Binned.auprcOf (t.map fun u => ((tpAt (xs.zip ys) u : Nat) : Q))
          (t.map fun u => ((fpAt (xs.zip ys) u : Nat) : Q)) (t.map fun u => ((fnAt (xs.zip ys) u : Nat) : Q)))) := by
  rw [k_binary_binned_auprc_compute_shape]
  simp only [TX.eval, List.lookup, String.reduceBEq, ok_bind, ndimV, pyEqV, asBool, pure_eq_ok, vecQ, Int.reduceBEq, BEq.rfl,
    if_true, Bool.true_eq_false, if_false]
  rw [k_binary_binned_auprc_row t xs ys hs hne hlen hy hP _ _ _ _ (by simp [TX.eval, List.lookup, vecQ])
    (by simp [TX.eval, List.lookup]) (by simp [TX.eval, List.lookup, vecQ])]
  simp only [ok_bind, Val.asElem, uop, Val.toTV, scalarQ, tvMap, TV.toVal, xnanTo_val, pure_eq_ok]


/-- `num_tasks` rows (2-d input; also one row, zero rows): one value per row -/
theorem k_binary_binned_auprc_compute_tasks (t : List Q) (rows : List (List Q × List Nat)) (hs : t.Pairwise (· ≤ ·)) (hne : t ≠ [])
    (h : ∀ r ∈ rows, r.1.length = r.2.length ∧ (∀ y ∈ r.2, y ≤ 1) ∧ (positives (r.1.zip r.2)).length ≠ 0) :
    TX.eval [("input", .mat (rows.map fun r => r.1.map XQ.val)),
        ("target", .mat (rows.map fun r => (r.2.map fun (n : Nat) => (n : Q)).map XQ.val)),
        ("num_tasks", .int rows.length), ("threshold", vecQ t)] Gen.Binned.k_binary_binned_auprc_compute
      = .ok (.vec (rows.map fun r => XQ.val (Binned.auprcOf (t.map fun u => ((tpAt (r.1.zip r.2) u : Nat) : Q))
          (t.map fun u => ((fpAt (r.1.zip r.2) u : Nat) : Q)) (t.map fun u => ((fnAt (r.1.zip r.2) u : Nat) : Q))))) := by
  rw [k_binary_binned_auprc_compute_shape]
  have hrow : ∀ j ∈ List.range rows.length,
      TX.eval [("$i0", .int ((j : Nat) : Int)), ("input", .mat (rows.map fun r => r.1.map XQ.val)),
          ("target", .mat (rows.map fun r => (r.2.map fun (n : Nat) => (n : Q)).map XQ.val)),
          ("num_tasks", .int rows.length), ("threshold", vecQ t)]
        (binnedAuprcTerm Gen.Binned.k_binary_binned_precision_recall_curve_update
          Gen.Binned.k_binary_binned_precision_recall_curve_compute Gen.Binned.k_riemann_integral
          (.rowDyn (.var "input") (.var "$i0")) (.rowDyn (.var "target") (.var "$i0")) (.var "threshold"))
        = .ok (.scalar (.val ((fun r : List Q × List Nat => Binned.auprcOf (t.map fun u => ((tpAt (r.1.zip r.2) u : Nat) : Q))
          (t.map fun u => ((fpAt (r.1.zip r.2) u : Nat) : Q)) (t.map fun u => ((fnAt (r.1.zip r.2) u : Nat) : Q)))
            (rows.getD j ([], []))))) := by
    intro j hj
    have hj' : j < rows.length := List.mem_range.mp hj
    have hmem : rows.getD j ([], []) ∈ rows := by
      simp [List.getD_eq_getElem?_getD, hj']
    obtain ⟨h1, h2, h3⟩ := h _ hmem
    rw [k_binary_binned_auprc_row t _ _ hs hne h1 h2 h3]
    · rfl
    · simp only [TX.eval, List.lookup, String.reduceBEq, ok_bind]
      rw [rowDynV_nat _ _ (by simpa using hj')]
      simp [vecQ, List.getD_eq_getElem?_getD, hj']
    · simp only [TX.eval, List.lookup, String.reduceBEq, ok_bind]
      rw [rowDynV_nat _ _ (by simpa using hj')]
      simp [vecQ, vecN, List.getD_eq_getElem?_getD, hj']
    · simp [TX.eval, List.lookup]
  have hcond : (if ((rows.length : Int) == 1) = true then (Except.ok (Val.bool ((2 : Int) == 1)) : Except Err Val)
      else Except.ok (Val.bool false)) = .ok (.bool false) := by
    split <;> rfl
  have h0 : (0 : Int) ≤ (rows.length : Int) := by omega
  simp only [TX.eval, List.lookup, String.reduceBEq, ok_bind, ndimV, pyEqV, asBool, pure_eq_ok, hcond, Bool.false_eq_true,
    if_false, sizeOf?, h0, if_true, Int.toNat_natCast]
  rw [seqE_congr_ok _ _ _ hrow]
  simp only [ok_bind, collectV, List.map_map, Function.comp_def, Val.asElem, seqE_map_ok, pure_eq_ok, uop, Val.toTV, tvMap,
    TV.toVal, xnanTo_val]
  rw [range_map_getD rows ([], []) (fun r => XQ.val (Binned.auprcOf (t.map fun u => ((tpAt (r.1.zip r.2) u : Nat) : Q))
    (t.map fun u => ((fpAt (r.1.zip r.2) u : Nat) : Q)) (t.map fun u => ((fnAt (r.1.zip r.2) u : Nat) : Q))))]

/-- a recall that is NaN at every threshold (no positive sample) makes the integral NaN -/
theorem k_riemann_integral_nan (T : Nat) (ys : List XQ) (h : ys.length = T + 2) :
    TX.eval [("x", .vec (List.replicate (T + 1) .nan ++ [.val 0])), ("y", .vec ys)] Gen.Binned.k_riemann_integral
      = .ok (.scalar .nan) := by
  have hd : (List.replicate (T + 1) XQ.nan ++ [XQ.val 0]).drop 1 = List.replicate T XQ.nan ++ [XQ.val 0] := by
    simp [List.replicate_succ]
  have hl : (List.replicate (T + 1) XQ.nan ++ [XQ.val 0]).dropLast = List.replicate (T + 1) XQ.nan := by
    simp [List.dropLast_concat]
  have hy : ys.dropLast.length = T + 1 := by simp [h]
  kernel_proof "k_riemann_integral_nan: the generated term of _riemann_integral changed" =>
    unfold Gen.Binned.k_riemann_integral
    simp only [TX.eval, List.lookup, String.reduceBEq, ok_bind, vecOp, hd, hl, bop, Val.toTV, tvBop, bzip, pure_eq_ok]
    have hlen1 : (List.replicate T XQ.nan ++ [XQ.val 0]).length = (List.replicate (T + 1) XQ.nan).length := by simp
    have hz1 : List.zipWith (xarith ArOp.sub) (List.replicate T XQ.nan ++ [XQ.val 0]) (List.replicate (T + 1) XQ.nan)
        = List.replicate (T + 1) XQ.nan := zipWith_nan_right _ xsub_nan_right _ _ (by simp)
    have hz2 : List.zipWith (xarith ArOp.mul) (List.replicate (T + 1) XQ.nan) ys.dropLast = List.replicate (T + 1) XQ.nan :=
      zipWith_nan_left _ xmul_nan_left _ _ hy
    simp only [hlen1, if_true, hz1, map_ok, TV.toVal, ok_bind, List.length_replicate, hy, hz2, sumV, xsum_replicate_nan, uop,
      Val.toTV, tvMap, xneg, pure_eq_ok]

/-- one task WITHOUT any positive: the recall is `0/0` at every threshold, the integral NaN -/
theorem k_binary_binned_auprc_row_no_positive (t xs : List Q) (ys : List Nat) (hs : t.Pairwise (· ≤ ·)) (hne : t ≠ [])
    (hlen : xs.length = ys.length) (hy : ∀ y ∈ ys, y ≤ 1) (hP : (positives (xs.zip ys)).length = 0)
    (env : Env) (a b th : TExpr) (ha : TX.eval env a = .ok (vecQ xs)) (hb : TX.eval env b = .ok (vecN ys))
    (hth : TX.eval env th = .ok (vecQ t)) :
    TX.eval env (binnedAuprcTerm Gen.Binned.k_binary_binned_precision_recall_curve_update
        Gen.Binned.k_binary_binned_precision_recall_curve_compute Gen.Binned.k_riemann_integral a b th)
      = .ok (.scalar .nan) := by
  obtain ⟨T, hT⟩ : ∃ T, t.length = T + 1 := by
    cases t with
    | nil => exact absurd rfl hne
    | cons u t' => exact ⟨t'.length, rfl⟩
  have hu := k_binned_update_textbook t xs ys hs hne hlen hy
  rw [← k_binary_binned_precision_recall_curve_update_inlines] at hu
  have hcmp := k_binary_binned_precision_recall_curve_compute_textbook (xs.zip ys) t
  have hprec := curve_fst_vals (xs.zip ys) t
  have hrec : (curve (xs.zip ys) t).2 = List.replicate (T + 1) XQ.nan ++ [XQ.val 0] := by
    unfold curve
    simp only [recall_nan _ _ hP, List.map_const', hT]
  have hr := k_riemann_integral_nan T ((t.map (precG (xs.zip ys)) ++ [1]).map XQ.val) (by simp [hT])
  simp only [vecQ, vecN, updVal, curveVal, hprec, hrec] at hu hcmp hr ha hb hth
  unfold binnedAuprcTerm
  simp only [TX.eval, ha, hb, hth, ok_bind, hu, fstV, sndV, hcmp, hr]

/-- … which `nan_to_num(nan=0.0)` reports as `0`, the value of the model (and of the definition:
    `TE.C06.binned_auprc_no_positives`). -/
theorem k_binary_binned_auprc_compute_no_positive (t xs : List Q) (ys : List Nat) (hs : t.Pairwise (· ≤ ·)) (hne : t ≠ [])
    (hlen : xs.length = ys.length) (hy : ∀ y ∈ ys, y ≤ 1) (hP : (positives (xs.zip ys)).length = 0) :
    TX.eval [("input", vecQ xs), ("target", vecN ys), ("num_tasks", .int 1), ("threshold", vecQ t)]
        Gen.Binned.k_binary_binned_auprc_compute
      = .ok (scalarQ (Binned.auprcOf (t.map fun u => ((tpAt (xs.zip ys) u : Nat) : Q))
          (t.map fun u => ((fpAt (xs.zip ys) u : Nat) : Q)) (t.map fun u => ((fnAt (xs.zip ys) u : Nat) : Q)))) := by
  rw [(TE.C06.binned_auprc_no_positives t (xs.zip ys) id hne hP).1, k_binary_binned_auprc_compute_shape]
  simp only [TX.eval, List.lookup, String.reduceBEq, ok_bind, ndimV, pyEqV, asBool, pure_eq_ok, vecQ, Int.reduceBEq, BEq.rfl,
    if_true, Bool.true_eq_false, if_false]
  rw [k_binary_binned_auprc_row_no_positive t xs ys hs hne hlen hy hP _ _ _ _ (by simp [TX.eval, List.lookup, vecQ])
    (by simp [TX.eval, List.lookup]) (by simp [TX.eval, List.lookup, vecQ])]
  simp only [ok_bind, Val.asElem, uop, Val.toTV, scalarQ, tvMap, TV.toVal, xnanTo, pure_eq_ok]

example : (positives (([1/2, 1/4] : List Q).zip ([0, 0] : List Nat))).length = 0 := by decide +kernel

example : ([0, 1/2, 1] : List Q).Pairwise (· ≤ ·) ∧ ([0, 1/2, 1] : List Q) ≠ [] ∧
    (∀ r ∈ [(([1/2, 1/4] : List Q), ([1, 0] : List Nat))], r.1.length = r.2.length ∧ (∀ y ∈ r.2, y ≤ 1) ∧
      (positives (r.1.zip r.2)).length ≠ 0) := by
  decide +kernel

/-- one task, with or without positives -/
theorem k_binary_binned_auprc_compute_eq (t xs : List Q) (ys : List Nat) (hs : t.Pairwise (· ≤ ·)) (hne : t ≠ [])
    (hlen : xs.length = ys.length) (hy : ∀ y ∈ ys, y ≤ 1) :
    TX.eval [("input", vecQ xs), ("target", vecN ys), ("num_tasks", .int 1), ("threshold", vecQ t)]
        Gen.Binned.k_binary_binned_auprc_compute
      = .ok (scalarQ (Binned.auprcOf (t.map fun u => ((tpAt (xs.zip ys) u : Nat) : Q))
          (t.map fun u => ((fpAt (xs.zip ys) u : Nat) : Q)) (t.map fun u => ((fnAt (xs.zip ys) u : Nat) : Q)))) := by
  by_cases hP : (positives (xs.zip ys)).length = 0
  · exact k_binary_binned_auprc_compute_no_positive t xs ys hs hne hlen hy hP
  · exact k_binary_binned_auprc_compute_one t xs ys hs hne hlen hy hP

/-- `num_tasks` rows, every row with or without positives -/
theorem k_binary_binned_auprc_compute_tasks_eq (t : List Q) (rows : List (List Q × List Nat)) (hs : t.Pairwise (· ≤ ·)) (hne : t ≠ [])
    (h : ∀ r ∈ rows, r.1.length = r.2.length ∧ (∀ y ∈ r.2, y ≤ 1)) :
    TX.eval [("input", .mat (rows.map fun r => r.1.map XQ.val)),
        ("target", .mat (rows.map fun r => (r.2.map fun (n : Nat) => (n : Q)).map XQ.val)),
        ("num_tasks", .int rows.length), ("threshold", vecQ t)] Gen.Binned.k_binary_binned_auprc_compute
      = .ok (.vec (rows.map fun r => XQ.val (Binned.auprcOf (t.map fun u => ((tpAt (r.1.zip r.2) u : Nat) : Q))
          (t.map fun u => ((fpAt (r.1.zip r.2) u : Nat) : Q)) (t.map fun u => ((fnAt (r.1.zip r.2) u : Nat) : Q))))) := by
  rw [k_binary_binned_auprc_compute_shape]
  let A : List Q × List Nat → Q := fun r => Binned.auprcOf (t.map fun u => ((tpAt (r.1.zip r.2) u : Nat) : Q))
    (t.map fun u => ((fpAt (r.1.zip r.2) u : Nat) : Q)) (t.map fun u => ((fnAt (r.1.zip r.2) u : Nat) : Q))
  let g : List Q × List Nat → XQ := fun r => if (positives (r.1.zip r.2)).length = 0 then .nan else .val (A r)
  have hrow : ∀ j ∈ List.range rows.length,
      TX.eval [("$i0", .int ((j : Nat) : Int)), ("input", .mat (rows.map fun r => r.1.map XQ.val)),
          ("target", .mat (rows.map fun r => (r.2.map fun (n : Nat) => (n : Q)).map XQ.val)),
          ("num_tasks", .int rows.length), ("threshold", vecQ t)]
        (binnedAuprcTerm Gen.Binned.k_binary_binned_precision_recall_curve_update
          Gen.Binned.k_binary_binned_precision_recall_curve_compute Gen.Binned.k_riemann_integral
          (.rowDyn (.var "input") (.var "$i0")) (.rowDyn (.var "target") (.var "$i0")) (.var "threshold"))
        = .ok (.scalar (g (rows.getD j ([], [])))) := by
    intro j hj
    have hj' : j < rows.length := List.mem_range.mp hj
    have hmem : rows.getD j ([], []) ∈ rows := by
      simp [List.getD_eq_getElem?_getD, hj']
    obtain ⟨h1, h2⟩ := h _ hmem
    have ha : TX.eval [("$i0", .int ((j : Nat) : Int)), ("input", .mat (rows.map fun r => r.1.map XQ.val)),
          ("target", .mat (rows.map fun r => (r.2.map fun (n : Nat) => (n : Q)).map XQ.val)),
          ("num_tasks", .int rows.length), ("threshold", vecQ t)] (.rowDyn (.var "input") (.var "$i0"))
        = .ok (vecQ (rows.getD j ([], [])).1) := by
      simp only [TX.eval, List.lookup, String.reduceBEq, ok_bind]
      rw [rowDynV_nat _ _ (by simpa using hj')]
      simp [vecQ, List.getD_eq_getElem?_getD, hj']
    have hb : TX.eval [("$i0", .int ((j : Nat) : Int)), ("input", .mat (rows.map fun r => r.1.map XQ.val)),
          ("target", .mat (rows.map fun r => (r.2.map fun (n : Nat) => (n : Q)).map XQ.val)),
          ("num_tasks", .int rows.length), ("threshold", vecQ t)] (.rowDyn (.var "target") (.var "$i0"))
        = .ok (vecN (rows.getD j ([], [])).2) := by
      simp only [TX.eval, List.lookup, String.reduceBEq, ok_bind]
      rw [rowDynV_nat _ _ (by simpa using hj')]
      simp [vecQ, vecN, List.getD_eq_getElem?_getD, hj']
    by_cases hP : (positives ((rows.getD j ([], [])).1.zip (rows.getD j ([], [])).2)).length = 0
    · rw [k_binary_binned_auprc_row_no_positive t _ _ hs hne h1 h2 hP _ _ _ _ ha hb (by simp [TX.eval, List.lookup])]
      simp only [g, hP, if_true]
    · rw [k_binary_binned_auprc_row t _ _ hs hne h1 h2 hP _ _ _ _ ha hb (by simp [TX.eval, List.lookup])]
      simp only [g, hP, if_false, scalarQ, A]
  have hcond : (if ((rows.length : Int) == 1) = true then (Except.ok (Val.bool ((2 : Int) == 1)) : Except Err Val)
      else Except.ok (Val.bool false)) = .ok (.bool false) := by
    split <;> rfl
  have h0 : (0 : Int) ≤ (rows.length : Int) := by omega
  simp only [TX.eval, List.lookup, String.reduceBEq, ok_bind, ndimV, pyEqV, asBool, pure_eq_ok, hcond, Bool.false_eq_true,
    if_false, sizeOf?, h0, if_true, Int.toNat_natCast]
  rw [seqE_congr_ok _ _ _ hrow]
  simp only [ok_bind, collectV, List.map_map, Function.comp_def, Val.asElem, seqE_map_ok, pure_eq_ok, uop, Val.toTV, tvMap,
    TV.toVal]
  rw [range_map_getD rows ([], []) (fun r => xnanTo (XQ.val 0) (g r))]
  congr 2
  apply List.map_congr_left
  intro r _
  by_cases hP : (positives (r.1.zip r.2)).length = 0
  · simp only [g, hP, if_true, xnanTo]
    rw [(TE.C06.binned_auprc_no_positives t (r.1.zip r.2) id hne hP).1]
  · simp only [g, hP, if_false, xnanTo_val, A]

example : ∀ r ∈ [(([1/2, 1/4] : List Q), ([1, 0] : List Nat)), ([1/2, 1/4], [0, 0])], r.1.length = r.2.length ∧ (∀ y ∈ r.2, y ≤ 1) := by
  decide

end TE.C06K
