/-
  C01 — sharded accumulation: merging shards = one metric that saw everything.
  The class models the driver executes are `additive partsAcc stat outA`
  (sufficient-statistic classes) and `additive (listAcc _) stat outA`
  (cache-all / order-carrying classes); these theorems are stated for *every*
  `stat`/`outA`, hence for every such class, every history (any number of
  shards, empty shards, fresh targets, any merge tree, sources merged twice,
  updates after merges, resets in between).
-/
import TE.Lemmas.Parts
import TE.Lemmas.FamStat
import TE.Lemmas.FamStatCount
import TE.Lemmas.FamStatAgg
import TE.Lemmas.FamStatBinned
import TE.Lemmas.FamStatText
import TE.Lemmas.FamStatList
namespace TE.C01
open TE

variable {B O α : Type}

/-- sufficient-statistic classes: any merge tree over any partition, in any
    order, computes what one instance fed the whole stream (in any order) computes. -/
theorem additive_merge_eq_single (stat : B → Except Err Parts) (outA : Parts → Except Err O)
    (h : Hist B) (bs : List B) (s s' : Parts)
    (he : eval (additive partsAcc stat outA) h = .ok s)
    (hs : eval (additive partsAcc stat outA) (single bs) = .ok s')
    (hp : bs.Perm (flatten h)) :
    (additive partsAcc stat outA).out s = (additive partsAcc stat outA).out s' :=
  merge_tree_eq_single (additive_sim partsAcc stat outA) partsAcc_laws h bs s s' he hs hp

/-- …and the state itself is the sum of the per-batch statistics of the live batches. -/
theorem additive_state_eq (stat : B → Except Err Parts) (outA : Parts → Except Err O)
    (h : Hist B) (s : Parts) (he : eval (additive partsAcc stat outA) h = .ok s) :
    s = accL partsAcc (statT partsAcc stat) (flatten h) :=
  (refines (additive_sim partsAcc stat outA) partsAcc_laws.toLaws h s he).2

/-- order-carrying classes (Cat, HitRate, ReciprocalRank, AUC(reorder=False)):
    the merge tree holds the data in merge order. -/
theorem ordered_merge_eq_concat (stat : B → Except Err (List α)) (outA : List α → Except Err O)
    (h : Hist B) (s : List α) (he : eval (additive (listAcc α) stat outA) h = .ok s) :
    s = ((flatten h).map (statT (listAcc α) stat)).flatten := by
  have := (refines (additive_sim (listAcc α) stat outA) (listAcc_laws α) h s he).2
  simpa [accL_listAcc] using this

/-- cache-all classes whose `compute` is invariant under permutation of the
    cached samples (AUROC, AUPRC, PR curves, … by C05): any merge tree equals a
    single instance fed the batches in any order. -/
theorem cacheall_merge_eq_single (stat : B → Except Err (List α)) (outA : List α → Except Err O)
    (hperm : ∀ l₁ l₂ : List α, l₁.Perm l₂ → outA l₁ = outA l₂)
    (h : Hist B) (bs : List B) (s s' : List α)
    (he : eval (additive (listAcc α) stat outA) h = .ok s)
    (hs : eval (additive (listAcc α) stat outA) (single bs) = .ok s')
    (hp : bs.Perm (flatten h)) :
    (additive (listAcc α) stat outA).out s = (additive (listAcc α) stat outA).out s' := by
  have e1 := ordered_merge_eq_concat stat outA h s he
  have e2 := ordered_merge_eq_concat stat outA (single bs) s' hs
  rw [flatten_single] at e2
  show outA s = outA s'
  rw [e1, e2]
  apply hperm
  exact List.Perm.flatten (List.Perm.map _ hp.symm)

/-- a single instance accepts every batch that was accepted somewhere in the tree
    (validation does not depend on the accumulated state). -/
theorem additive_single_total {A : Type} (M : Acc A) (stat : B → Except Err A)
    (outA : A → Except Err O) (bs : List B) (hb : ∀ b ∈ bs, ∃ a, stat b = .ok a) :
    ∃ s, eval (additive M stat outA) (single bs) = .ok s := by
  unfold single
  suffices ∀ (h : Hist B), (∃ s, eval (additive M stat outA) h = .ok s) →
      ∃ s, eval (additive M stat outA) (bs.foldl Hist.update h) = .ok s from
    this Hist.fresh ⟨M.zero, rfl⟩
  induction bs with
  | nil => intro h hh; simpa using hh
  | cons b bs ih =>
    intro h ⟨s, hs⟩
    simp only [List.foldl_cons]
    apply ih (fun b' hb' => hb b' (List.mem_cons_of_mem _ hb'))
    obtain ⟨a, ha⟩ := hb b (List.mem_cons_self ..)
    refine ⟨M.add s a, ?_⟩
    have : eval (additive M stat outA) (Hist.update h b) =
        (eval (additive M stat outA) h >>= fun s => (additive M stat outA).upd s b) := by
      simp [eval]
    rw [this, hs]
    simp [additive, ha, bind, Except.bind]

/-- non-vacuity: a 3-shard history with an empty shard, merged pairwise into a fresh target. -/
example :
    let stat : Nat → Except Err Parts := fun n => .ok [[(n : Q)], [1]]
    let outA : Parts → Except Err Q := fun p => .ok (part0 p 0 / part0 p 1)
    let a := Hist.update (Hist.update .fresh 1) 2
    let b : Hist Nat := .fresh
    let c := Hist.update .fresh 6
    let t := Hist.merge (Hist.merge .fresh [a, b]) [c]
    (eval (additive partsAcc stat outA) t).toOption.bind (fun s => (outA s).toOption) = some 3
      ∧ flatten t = [1, 2, 6] := by
  decide +kernel

/-! ## the typed metric families (TE/Model/Fams.lean)

  `FamStat.MergeTreeEqFunctional M stat catB` (TE/Lemmas/FamStat.lean) says, for EVERY `outA`:
  whatever tree of `update` / `merge_state` / `reset` calls (any number of shards, empty
  shards, fresh targets, sources merged twice, updates after merges) ran without error and
  produced the state `s`: `s` is the sum of the statistics of the batches alive in the tree,
  and for EVERY ordering `bs` of those batches `s` is the state of one instance fed `bs`, whose
  `compute()` is the functional `stat >=> outA` applied to the concatenation `catB bs`.
  The `…Ordered` form (list accumulators) keeps the merge order. -/
open TE.Fams

/-- `refines` + `StatCat`: every merge tree equals one instance that saw everything, in any
    order, and the functional on the concatenation of everything. -/
theorem merge_tree_eq_functional {A : Type} (M : Acc A) (L : CommLaws M) {stat : B → Except Err A}
    {catB : List B → B} (hc : FamStat.StatCat M stat catB) : FamStat.MergeTreeEqFunctional M stat catB :=
  FamStat.mergeTree_of_statCat M L hc

/-- order-carrying accumulators: the same in merge order. -/
theorem merge_tree_eq_functional_ordered {A : Type} (M : Acc A) (L : Laws M) {stat : B → Except Err A}
    {catB : List B → B} (hc : FamStat.StatCat M stat catB) :
    FamStat.MergeTreeEqFunctionalOrdered M stat catB :=
  FamStat.mergeTree_ordered_of_statCat M L hc

/-- BinaryAccuracy. -/
theorem C01_merge_tree_binaryAccuracy (thr : Q) :
    FamStat.MergeTreeEqFunctional partsAcc (binaryAccuracyStat thr) catPair :=
  merge_tree_eq_functional partsAcc partsAcc_laws (FamStat.statCat_binaryAccuracy thr)

/-- MulticlassAccuracy (k = 1; every average, predictions = labels or arg-max of logits). -/
theorem C01_merge_tree_mcAccuracy (avg : Count.Avg) (C : Nat) :
    FamStat.MergeTreeEqFunctional partsAcc (mcAccuracyStat avg C) catPair :=
  merge_tree_eq_functional partsAcc partsAcc_laws (FamStat.statCat_mcAccuracy avg C)

/-- MulticlassAccuracy (top-k on logit rows of width W; every average). -/
theorem C01_merge_tree_mcAccuracyTopk (avg : Count.Avg) (C k W : Nat) :
    FamStat.MergeTreeEqFunctional partsAcc (mcAccuracyTopkStat avg C k W) catPair :=
  merge_tree_eq_functional partsAcc partsAcc_laws (FamStat.statCat_mcAccuracyTopk avg C k W)

/-- MultilabelAccuracy (every criterion). -/
theorem C01_merge_tree_multilabelAccuracy (thr : Q) (crit : Count.Crit) :
    FamStat.MergeTreeEqFunctional partsAcc (multilabelAccuracyStat thr crit) catPair :=
  merge_tree_eq_functional partsAcc partsAcc_laws (FamStat.statCat_multilabelAccuracy thr crit)

/-- TopKMultilabelAccuracy (every criterion). -/
theorem C01_merge_tree_topkMultilabel (crit : Count.Crit) (k : Nat) :
    FamStat.MergeTreeEqFunctional partsAcc (topkMultilabelStat crit k) catPair :=
  merge_tree_eq_functional partsAcc partsAcc_laws (FamStat.statCat_topkMultilabel crit k)

/-- BinaryPrecision. -/
theorem C01_merge_tree_binaryPrecision (thr : Q) :
    FamStat.MergeTreeEqFunctional partsAcc (binaryPrecisionStat thr) catPair :=
  merge_tree_eq_functional partsAcc partsAcc_laws (FamStat.statCat_binaryPrecision thr)

/-- BinaryRecall. -/
theorem C01_merge_tree_binaryRecall (thr : Q) :
    FamStat.MergeTreeEqFunctional partsAcc (binaryRecallStat thr) catPair :=
  merge_tree_eq_functional partsAcc partsAcc_laws (FamStat.statCat_binaryRecall thr)

/-- BinaryF1Score. -/
theorem C01_merge_tree_binaryF1 (thr : Q) :
    FamStat.MergeTreeEqFunctional partsAcc (binaryF1Stat thr) catPair :=
  merge_tree_eq_functional partsAcc partsAcc_laws (FamStat.statCat_binaryF1 thr)

/-- MulticlassPrecision (every average). -/
theorem C01_merge_tree_mcPrecision (avg : Count.Avg) (C : Nat) :
    FamStat.MergeTreeEqFunctional partsAcc (mcPrecisionStat avg C) catPair :=
  merge_tree_eq_functional partsAcc partsAcc_laws (FamStat.statCat_mcPrecision avg C)

/-- MulticlassRecall and MulticlassF1Score (same `_update`; every average). -/
theorem C01_merge_tree_mcRecall (avg : Count.Avg) (C : Nat) :
    FamStat.MergeTreeEqFunctional partsAcc (mcRecallStat avg C) catPair :=
  merge_tree_eq_functional partsAcc partsAcc_laws (FamStat.statCat_mcRecall avg C)

/-- MulticlassConfusionMatrix. -/
theorem C01_merge_tree_confusion (C : Nat) (checkP checkL : Bool) :
    FamStat.MergeTreeEqFunctional partsAcc (confusionStat C checkP checkL) catPair :=
  merge_tree_eq_functional partsAcc partsAcc_laws (FamStat.statCat_confusion C checkP checkL)

/-- BinaryConfusionMatrix. -/
theorem C01_merge_tree_binaryConfusion (thr : Q) :
    FamStat.MergeTreeEqFunctional partsAcc (binaryConfusionStat thr) catPair :=
  merge_tree_eq_functional partsAcc partsAcc_laws (FamStat.statCat_binaryConfusion thr)

/-- Mean (scalar or per-sample weights). -/
theorem C01_merge_tree_mean :
    FamStat.MergeTreeEqFunctional partsAcc (meanStat) catWeighted :=
  merge_tree_eq_functional partsAcc partsAcc_laws (FamStat.statCat_mean)

/-- Sum (scalar or per-sample weights). -/
theorem C01_merge_tree_sum :
    FamStat.MergeTreeEqFunctional partsAcc (sumStat) catWeighted :=
  merge_tree_eq_functional partsAcc partsAcc_laws (FamStat.statCat_sum)

/-- MeanSquaredError, streams of one arity d (all 1-D, or all (n, d)); optional sample weights. -/
theorem C01_merge_tree_mse (d : Nat) :
    FamStat.MergeTreeEqFunctional partsAcc (mseStat d) (catCols d) :=
  merge_tree_eq_functional partsAcc partsAcc_laws (FamStat.statCat_mse d)

/-- R2Score, streams of one arity d. -/
theorem C01_merge_tree_r2 (d : Nat) :
    FamStat.MergeTreeEqFunctional partsAcc (r2Stat d) (catCols d) :=
  merge_tree_eq_functional partsAcc partsAcc_laws (FamStat.statCat_r2 d)

/-- BinaryNormalizedEntropy (`ln`, `exp` parameters; per task row). -/
theorem C01_merge_tree_bne (ln exp : Q → Q) (fl : Bool) (nt : Nat) :
    FamStat.MergeTreeEqFunctional partsAcc (bneStat ln exp fl nt) (catTasks nt) :=
  merge_tree_eq_functional partsAcc partsAcc_laws (FamStat.statCat_bne ln exp fl nt)

/-- Perplexity (`exp`, `ln` parameters). -/
theorem C01_merge_tree_ppl (exp ln : Q → Q) (v : Nat) (ignore : Option Int) :
    FamStat.MergeTreeEqFunctional partsAcc (pplStat exp ln v ignore) catPair :=
  merge_tree_eq_functional partsAcc partsAcc_laws (FamStat.statCat_ppl exp ln v ignore)

/-- the additive part of PeakSignalNoiseRatio (squared error, count). -/
theorem C01_merge_tree_psnr :
    FamStat.MergeTreeEqFunctional partsAcc (psnrStat) catPair :=
  merge_tree_eq_functional partsAcc partsAcc_laws (FamStat.statCat_psnr)

/-- ClickThroughRate (per task row; scalar or tensor weights). -/
theorem C01_merge_tree_ctr (nt : Nat) :
    FamStat.MergeTreeEqFunctional partsAcc (ctrStat nt) (catCtr nt) :=
  merge_tree_eq_functional partsAcc partsAcc_laws (FamStat.statCat_ctr nt)

/-- WeightedCalibration (per task row; scalar or tensor weights). -/
theorem C01_merge_tree_wc (nt : Nat) :
    FamStat.MergeTreeEqFunctional partsAcc (wcStat nt) (catWc nt) :=
  merge_tree_eq_functional partsAcc partsAcc_laws (FamStat.statCat_wc nt)

/-- BinaryBinnedPrecisionRecallCurve counts (any threshold list). -/
theorem C01_merge_tree_binaryBinned (t : List Q) :
    FamStat.MergeTreeEqFunctional partsAcc (binaryBinnedStat t) catPair :=
  merge_tree_eq_functional partsAcc partsAcc_laws (FamStat.statCat_binaryBinned t)

/-- MulticlassBinnedPrecisionRecallCurve / MulticlassBinnedAUPRC counts (both optimisations). -/
theorem C01_merge_tree_mcBinned (t : List Q) (opt : Binned.Opt) (W : Nat) :
    FamStat.MergeTreeEqFunctional partsAcc (mcBinnedStat t opt W) catPair :=
  merge_tree_eq_functional partsAcc partsAcc_laws (FamStat.statCat_mcBinned t opt W)

/-- MultilabelBinnedPrecisionRecallCurve / MultilabelBinnedAUPRC counts (both optimisations). -/
theorem C01_merge_tree_mlBinned (t : List Q) (opt : Binned.Opt) (L : Nat) :
    FamStat.MergeTreeEqFunctional partsAcc (mlBinnedStat t opt L) catPair :=
  merge_tree_eq_functional partsAcc partsAcc_laws (FamStat.statCat_mlBinned t opt L)

/-- BinaryBinnedAUPRC counts (per task row). -/
theorem C01_merge_tree_binaryBinnedAuprc (t : List Q) (nt : Nat) :
    FamStat.MergeTreeEqFunctional partsAcc (binaryBinnedAuprcStat t nt) (catTaskPairs nt) :=
  merge_tree_eq_functional partsAcc partsAcc_laws (FamStat.statCat_binaryBinnedAuprc t nt)

/-- WordErrorRate. -/
theorem C01_merge_tree_wer {α : Type} [DecidableEq α] :
    FamStat.MergeTreeEqFunctional partsAcc (werStat (α := α)) catPair :=
  merge_tree_eq_functional partsAcc partsAcc_laws (FamStat.statCat_wer)

/-- WordInformationPreserved. -/
theorem C01_merge_tree_wip {α : Type} [DecidableEq α] :
    FamStat.MergeTreeEqFunctional partsAcc (wipStat (α := α)) catPair :=
  merge_tree_eq_functional partsAcc partsAcc_laws (FamStat.statCat_wip)

/-- WordInformationLost. -/
theorem C01_merge_tree_wil {α : Type} [DecidableEq α] :
    FamStat.MergeTreeEqFunctional partsAcc (wilStat (α := α)) catPair :=
  merge_tree_eq_functional partsAcc partsAcc_laws (FamStat.statCat_wil)

/-- BLEUScore statistics (n-gram order N). -/
theorem C01_merge_tree_bleu {α : Type} [DecidableEq α] (N : Nat) :
    FamStat.MergeTreeEqFunctional partsAcc (bleuStat (α := α) N) catPair :=
  merge_tree_eq_functional partsAcc partsAcc_laws (FamStat.statCat_bleu N)

/-- cache of (score, target) samples: BinaryAUROC, BinaryAUPRC, BinaryPrecisionRecallCurve, BinaryRecallAtFixedPrecision, a task row of BinaryBinnedAUROC, AUC points. -/
theorem C01_merge_tree_pairSamples {α β : Type} :
    FamStat.MergeTreeEqFunctionalOrdered (listAcc (α × β)) (pairSamples (α := α) (β := β)) catPair :=
  merge_tree_eq_functional_ordered (listAcc (α × β)) (listAcc_laws _) (FamStat.statCat_pairSamples)

/-- cache of (score, target, weight) samples: weighted BinaryAUROC, Wasserstein1D. -/
theorem C01_merge_tree_tripleSamples {α β γ : Type} :
    FamStat.MergeTreeEqFunctionalOrdered (listAcc (α × β × γ)) (tripleSamples (α := α) (β := β) (γ := γ)) catTriple :=
  merge_tree_eq_functional_ordered (listAcc (α × β × γ)) (listAcc_laws _) (FamStat.statCat_tripleSamples)

/-- cache of (row, label / target row) samples: Multiclass/Multilabel AUROC, AUPRC, PR curves, recall@precision, MulticlassBinnedAUROC. -/
theorem C01_merge_tree_rowSamples {β : Type} :
    FamStat.MergeTreeEqFunctionalOrdered (listAcc (List Q × β)) (rowSamples (β := β)) catPair :=
  merge_tree_eq_functional_ordered (listAcc (List Q × β)) (listAcc_laws _) (FamStat.statCat_rowSamples)

/-- Cat. -/
theorem C01_merge_tree_catSamples {α : Type} :
    FamStat.MergeTreeEqFunctionalOrdered (listAcc α) (catSamples (α := α)) List.flatten :=
  merge_tree_eq_functional_ordered (listAcc α) (listAcc_laws _) (FamStat.statCat_catSamples)

/-- HitRate (per-sample values in update order). -/
theorem C01_merge_tree_hitRate (C : Nat) (k : Option Int) :
    FamStat.MergeTreeEqFunctionalOrdered (listAcc Q) (hitRateStat C k) catPair :=
  merge_tree_eq_functional_ordered (listAcc Q) (listAcc_laws _) (FamStat.statCat_hitRate C k)

/-- ReciprocalRank (per-sample values in update order). -/
theorem C01_merge_tree_reciprocalRank (k : Option Int) :
    FamStat.MergeTreeEqFunctionalOrdered (listAcc Q) (reciprocalRankStat k) catPair :=
  merge_tree_eq_functional_ordered (listAcc Q) (listAcc_laws _) (FamStat.statCat_reciprocalRank k)

/-- non-vacuity: MulticlassRecall(macro, 3 classes): shard `a` saw batches of sizes 3 and 1, shard `b`
    nothing, shard `c` a batch of size 2 and was reset before; merged pairwise into a fresh target.
    The live batches are the three batches, and the state is the statistic of their concatenation. -/
example :
    let b₁ : List Nat × List Nat := ([0, 2, 1], [0, 1, 1])
    let b₂ : List Nat × List Nat := ([2], [2])
    let b₃ : List Nat × List Nat := ([1, 0], [1, 2])
    let outA : Parts → Except Err Parts := fun p => .ok p
    let a := Hist.update (Hist.update .fresh b₁) b₂
    let b : Hist (List Nat × List Nat) := .fresh
    let c := Hist.update (Hist.reset (Hist.update .fresh b₂)) b₃
    let t := Hist.merge (Hist.merge .fresh [a, b]) [c]
    flatten t = [b₁, b₂, b₃] ∧
      (eval (additive partsAcc (mcRecallStat .macro 3) outA) t).toOption = some [[1, 2, 1], [1, 3, 2], [2, 2, 2]] ∧
      (mcRecallStat .macro 3 (catPair [b₃, b₁, b₂])).toOption = some [[1, 2, 1], [1, 3, 2], [2, 2, 2]] := by
  decide +kernel

end TE.C01
