/-
  C01 — sharded accumulation: merging shards = one metric that saw everything.
  The class models the driver executes are `additive partsAcc stat outA`
  (sufficient-statistic classes) and `additive (listAcc _) stat outA`
  (cache-all / order-carrying classes); these theorems are stated for *every*
  `stat`/`outA`, hence for every such class, every history (any number of
  shards, empty shards, fresh targets, any merge tree, sources merged twice,
  updates after merges, resets in between).
-/
import TE.Lemmas.Parts
namespace TE.C01
open TE

variable {B O α : Type}

/-- sufficient-statistic classes: any merge tree over any partition, in any
    order, computes what one instance fed the whole stream (in any order) computes. -/
theorem additive_merge_eq_single (stat : B → Except Err Parts) (outA : Parts → Except Err O)
    (h : Hist B) (bs : List B) (s s' : Parts)
    (he : eval (additive partsAcc stat outA) h = .ok s)
    (hs : eval (additive partsAcc stat outA) (single bs) = .ok s')
    (hp : bs.Perm (flatten h)) :
    (additive partsAcc stat outA).out s = (additive partsAcc stat outA).out s' :=
  merge_tree_eq_single (additive_sim partsAcc stat outA) partsAcc_laws h bs s s' he hs hp

/-- …and the state itself is the sum of the per-batch statistics of the live batches. -/
theorem additive_state_eq (stat : B → Except Err Parts) (outA : Parts → Except Err O)
    (h : Hist B) (s : Parts) (he : eval (additive partsAcc stat outA) h = .ok s) :
    s = accL partsAcc (statT partsAcc stat) (flatten h) :=
  (refines (additive_sim partsAcc stat outA) partsAcc_laws.toLaws h s he).2

/-- order-carrying classes (Cat, HitRate, ReciprocalRank, AUC(reorder=False)):
    the merge tree holds the data in merge order. -/
theorem ordered_merge_eq_concat (stat : B → Except Err (List α)) (outA : List α → Except Err O)
    (h : Hist B) (s : List α) (he : eval (additive (listAcc α) stat outA) h = .ok s) :
    s = ((flatten h).map (statT (listAcc α) stat)).flatten := by
  have := (refines (additive_sim (listAcc α) stat outA) (listAcc_laws α) h s he).2
  simpa [accL_listAcc] using this

/-- cache-all classes whose `compute` is invariant under permutation of the
    cached samples (AUROC, AUPRC, PR curves, … by C05): any merge tree equals a
    single instance fed the batches in any order. -/
theorem cacheall_merge_eq_single (stat : B → Except Err (List α)) (outA : List α → Except Err O)
    (hperm : ∀ l₁ l₂ : List α, l₁.Perm l₂ → outA l₁ = outA l₂)
    (h : Hist B) (bs : List B) (s s' : List α)
    (he : eval (additive (listAcc α) stat outA) h = .ok s)
    (hs : eval (additive (listAcc α) stat outA) (single bs) = .ok s')
    (hp : bs.Perm (flatten h)) :
    (additive (listAcc α) stat outA).out s = (additive (listAcc α) stat outA).out s' := by
  have e1 := ordered_merge_eq_concat stat outA h s he
  have e2 := ordered_merge_eq_concat stat outA (single bs) s' hs
  rw [flatten_single] at e2
  show outA s = outA s'
  rw [e1, e2]
  apply hperm
  exact List.Perm.flatten (List.Perm.map _ hp.symm)

/-- a single instance accepts every batch that was accepted somewhere in the tree
    (validation does not depend on the accumulated state). -/
theorem additive_single_total {A : Type} (M : Acc A) (stat : B → Except Err A)
    (outA : A → Except Err O) (bs : List B) (hb : ∀ b ∈ bs, ∃ a, stat b = .ok a) :
    ∃ s, eval (additive M stat outA) (single bs) = .ok s := by
  unfold single
  suffices ∀ (h : Hist B), (∃ s, eval (additive M stat outA) h = .ok s) →
      ∃ s, eval (additive M stat outA) (bs.foldl Hist.update h) = .ok s from
    this Hist.fresh ⟨M.zero, rfl⟩
  induction bs with
  | nil => intro h hh; simpa using hh
  | cons b bs ih =>
    intro h ⟨s, hs⟩
    simp only [List.foldl_cons]
    apply ih (fun b' hb' => hb b' (List.mem_cons_of_mem _ hb'))
    obtain ⟨a, ha⟩ := hb b (List.mem_cons_self ..)
    refine ⟨M.add s a, ?_⟩
    have : eval (additive M stat outA) (Hist.update h b) =
        (eval (additive M stat outA) h >>= fun s => (additive M stat outA).upd s b) := by
      simp [eval]
    rw [this, hs]
    simp [additive, ha, bind, Except.bind]

/-- non-vacuity: a 3-shard history with an empty shard, merged pairwise into a fresh target. -/
example :
    let stat : Nat → Except Err Parts := fun n => .ok [[(n : Q)], [1]]
    let outA : Parts → Except Err Q := fun p => .ok (part0 p 0 / part0 p 1)
    let a := Hist.update (Hist.update .fresh 1) 2
    let b : Hist Nat := .fresh
    let c := Hist.update .fresh 6
    let t := Hist.merge (Hist.merge .fresh [a, b]) [c]
    (eval (additive partsAcc stat outA) t).toOption.bind (fun s => (outA s).toOption) = some 3
      ∧ flatten t = [1, 2, 6] := by
  decide +kernel

end TE.C01
