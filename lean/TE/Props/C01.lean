/-
  C01 — sharded accumulation: merging shards = one metric that saw everything.
  The class models the driver executes are `additive partsAcc stat outA`
  (sufficient-statistic classes) and `additive (listAcc _) stat outA`
  (cache-all / order-carrying classes); these theorems are stated for *every*
  `stat`/`outA`, hence for every such class, every history (any number of
  shards, empty shards, fresh targets, any merge tree, sources merged twice,
  updates after merges, resets in between).
-/
import TE.Lemmas.Parts
import TE.Lemmas.FamStat
import TE.Lemmas.FamStatCount
import TE.Lemmas.FamStatAgg
import TE.Lemmas.FamStatBinned
import TE.Lemmas.FamStatText
import TE.Lemmas.FamStatList
import TE.Lemmas.FamCacheSM
namespace TE.C01
open TE

variable {B O α : Type}

/-- sufficient-statistic classes: any merge tree over any partition, in any
    order, computes what one instance fed the whole stream (in any order) computes. -/
theorem additive_merge_eq_single (stat : B → Except Err Parts) (outA : Parts → Except Err O)
    (h : Hist B) (bs : List B) (s s' : Parts)
    (he : eval (additive partsAcc stat outA) h = .ok s)
    (hs : eval (additive partsAcc stat outA) (single bs) = .ok s')
    (hp : bs.Perm (flatten h)) :
    (additive partsAcc stat outA).out s = (additive partsAcc stat outA).out s' :=
  merge_tree_eq_single (additive_sim partsAcc stat outA) partsAcc_laws h bs s s' he hs hp

/-- …and the state itself is the sum of the per-batch statistics of the live batches. -/
theorem additive_state_eq (stat : B → Except Err Parts) (outA : Parts → Except Err O)
    (h : Hist B) (s : Parts) (he : eval (additive partsAcc stat outA) h = .ok s) :
    s = accL partsAcc (statT partsAcc stat) (flatten h) :=
  (refines (additive_sim partsAcc stat outA) partsAcc_laws.toLaws h s he).2

/-- order-carrying classes (Cat, HitRate, ReciprocalRank, AUC(reorder=False)):
    the merge tree holds the data in merge order. -/
theorem ordered_merge_eq_concat (stat : B → Except Err (List α)) (outA : List α → Except Err O)
    (h : Hist B) (s : List α) (he : eval (additive (listAcc α) stat outA) h = .ok s) :
    s = ((flatten h).map (statT (listAcc α) stat)).flatten := by
  have := (refines (additive_sim (listAcc α) stat outA) (listAcc_laws α) h s he).2
  simpa [accL_listAcc] using this

/-- cache-all classes whose `compute` is invariant under permutation of the
    cached samples (AUROC, AUPRC, PR curves, … by C05): any merge tree equals a
    single instance fed the batches in any order. -/
theorem cacheall_merge_eq_single (stat : B → Except Err (List α)) (outA : List α → Except Err O)
    (hperm : ∀ l₁ l₂ : List α, l₁.Perm l₂ → outA l₁ = outA l₂)
    (h : Hist B) (bs : List B) (s s' : List α)
    (he : eval (additive (listAcc α) stat outA) h = .ok s)
    (hs : eval (additive (listAcc α) stat outA) (single bs) = .ok s')
    (hp : bs.Perm (flatten h)) :
    (additive (listAcc α) stat outA).out s = (additive (listAcc α) stat outA).out s' := by
  have e1 := ordered_merge_eq_concat stat outA h s he
  have e2 := ordered_merge_eq_concat stat outA (single bs) s' hs
  rw [flatten_single] at e2
  show outA s = outA s'
  rw [e1, e2]
  apply hperm
  exact List.Perm.flatten (List.Perm.map _ hp.symm)

/-- a single instance accepts every batch that was accepted somewhere in the tree
    (validation does not depend on the accumulated state). -/
theorem additive_single_total {A : Type} (M : Acc A) (stat : B → Except Err A)
    (outA : A → Except Err O) (bs : List B) (hb : ∀ b ∈ bs, ∃ a, stat b = .ok a) :
    ∃ s, eval (additive M stat outA) (single bs) = .ok s := by
  unfold single
  suffices ∀ (h : Hist B), (∃ s, eval (additive M stat outA) h = .ok s) →
      ∃ s, eval (additive M stat outA) (bs.foldl Hist.update h) = .ok s from
    this Hist.fresh ⟨M.zero, rfl⟩
  induction bs with
  | nil => intro h hh; simpa using hh
  | cons b bs ih =>
    intro h ⟨s, hs⟩
    simp only [List.foldl_cons]
    apply ih (fun b' hb' => hb b' (List.mem_cons_of_mem _ hb'))
    obtain ⟨a, ha⟩ := hb b (List.mem_cons_self ..)
    refine ⟨M.add s a, ?_⟩
    have : eval (additive M stat outA) (Hist.update h b) =
        (eval (additive M stat outA) h >>= fun s => (additive M stat outA).upd s b) := by
      simp [eval]
    rw [this, hs]
    simp [additive, ha, bind, Except.bind]

/-- non-vacuity: a 3-shard history with an empty shard, merged pairwise into a fresh target. -/
example :
    let stat : Nat → Except Err Parts := fun n => .ok [[(n : Q)], [1]]
    let outA : Parts → Except Err Q := fun p => .ok (part0 p 0 / part0 p 1)
    let a := Hist.update (Hist.update .fresh 1) 2
    let b : Hist Nat := .fresh
    let c := Hist.update .fresh 6
    let t := Hist.merge (Hist.merge .fresh [a, b]) [c]
    (eval (additive partsAcc stat outA) t).toOption.bind (fun s => (outA s).toOption) = some 3
      ∧ flatten t = [1, 2, 6] := by
  decide +kernel

/-! ## the typed metric families (TE/Model/Fams.lean)

  `FamStat.MergeTreeEqFunctional M stat catB` (TE/Lemmas/FamStat.lean) says, for EVERY `outA`:
  whatever tree of `update` / `merge_state` / `reset` calls (any number of shards, empty
  shards, fresh targets, sources merged twice, updates after merges) ran without error and
  produced the state `s`: `s` is the sum of the statistics of the batches alive in the tree,
  and for EVERY ordering `bs` of those batches `s` is the state of one instance fed `bs`, whose
  `compute()` is the functional `stat >=> outA` applied to the concatenation `catB bs`.
  The `…Ordered` form (list accumulators) keeps the merge order. -/
open TE.Fams

/-- `refines` + `StatCat`: every merge tree equals one instance that saw everything, in any
    order, and the functional on the concatenation of everything. -/
theorem merge_tree_eq_functional {A : Type} (M : Acc A) (L : CommLaws M) {stat : B → Except Err A}
    {catB : List B → B} (hc : FamStat.StatCat M stat catB) : FamStat.MergeTreeEqFunctional M stat catB :=
  FamStat.mergeTree_of_statCat M L hc

/-- order-carrying accumulators: the same in merge order. -/
theorem merge_tree_eq_functional_ordered {A : Type} (M : Acc A) (L : Laws M) {stat : B → Except Err A}
    {catB : List B → B} (hc : FamStat.StatCat M stat catB) :
    FamStat.MergeTreeEqFunctionalOrdered M stat catB :=
  FamStat.mergeTree_ordered_of_statCat M L hc

/-- BinaryAccuracy. -/
theorem C01_merge_tree_binaryAccuracy (thr : Q) :
    FamStat.MergeTreeEqFunctional partsAcc (binaryAccuracyStat thr) catPair :=
  merge_tree_eq_functional partsAcc partsAcc_laws (FamStat.statCat_binaryAccuracy thr)

/-- MulticlassAccuracy (k = 1; every average, predictions = labels or arg-max of logits). -/
theorem C01_merge_tree_mcAccuracy (avg : Count.Avg) (C : Nat) :
    FamStat.MergeTreeEqFunctional partsAcc (mcAccuracyStat avg C) catPair :=
  merge_tree_eq_functional partsAcc partsAcc_laws (FamStat.statCat_mcAccuracy avg C)

/-- MulticlassAccuracy (top-k on logit rows of width W; every average). -/
theorem C01_merge_tree_mcAccuracyTopk (avg : Count.Avg) (C k W : Nat) :
    FamStat.MergeTreeEqFunctional partsAcc (mcAccuracyTopkStat avg C k W) catPair :=
  merge_tree_eq_functional partsAcc partsAcc_laws (FamStat.statCat_mcAccuracyTopk avg C k W)

/-- MultilabelAccuracy (every criterion). -/
theorem C01_merge_tree_multilabelAccuracy (thr : Q) (crit : Count.Crit) :
    FamStat.MergeTreeEqFunctional partsAcc (multilabelAccuracyStat thr crit) catPair :=
  merge_tree_eq_functional partsAcc partsAcc_laws (FamStat.statCat_multilabelAccuracy thr crit)

/-- TopKMultilabelAccuracy (every criterion). -/
theorem C01_merge_tree_topkMultilabel (crit : Count.Crit) (k : Nat) :
    FamStat.MergeTreeEqFunctional partsAcc (topkMultilabelStat crit k) catPair :=
  merge_tree_eq_functional partsAcc partsAcc_laws (FamStat.statCat_topkMultilabel crit k)

/-- BinaryPrecision. -/
theorem C01_merge_tree_binaryPrecision (thr : Q) :
    FamStat.MergeTreeEqFunctional partsAcc (binaryPrecisionStat thr) catPair :=
  merge_tree_eq_functional partsAcc partsAcc_laws (FamStat.statCat_binaryPrecision thr)

/-- BinaryRecall. -/
theorem C01_merge_tree_binaryRecall (thr : Q) :
    FamStat.MergeTreeEqFunctional partsAcc (binaryRecallStat thr) catPair :=
  merge_tree_eq_functional partsAcc partsAcc_laws (FamStat.statCat_binaryRecall thr)

/-- BinaryF1Score. -/
theorem C01_merge_tree_binaryF1 (thr : Q) :
    FamStat.MergeTreeEqFunctional partsAcc (binaryF1Stat thr) catPair :=
  merge_tree_eq_functional partsAcc partsAcc_laws (FamStat.statCat_binaryF1 thr)

/-- MulticlassPrecision (every average). -/
theorem C01_merge_tree_mcPrecision (avg : Count.Avg) (C : Nat) :
    FamStat.MergeTreeEqFunctional partsAcc (mcPrecisionStat avg C) catPair :=
  merge_tree_eq_functional partsAcc partsAcc_laws (FamStat.statCat_mcPrecision avg C)

/-- MulticlassRecall and MulticlassF1Score (same `_update`; every average). -/
theorem C01_merge_tree_mcRecall (avg : Count.Avg) (C : Nat) :
    FamStat.MergeTreeEqFunctional partsAcc (mcRecallStat avg C) catPair :=
  merge_tree_eq_functional partsAcc partsAcc_laws (FamStat.statCat_mcRecall avg C)

/-- MulticlassConfusionMatrix. -/
theorem C01_merge_tree_confusion (C : Nat) (checkP checkL : Bool) :
    FamStat.MergeTreeEqFunctional partsAcc (confusionStat C checkP checkL) catPair :=
  merge_tree_eq_functional partsAcc partsAcc_laws (FamStat.statCat_confusion C checkP checkL)

/-- BinaryConfusionMatrix. -/
theorem C01_merge_tree_binaryConfusion (thr : Q) :
    FamStat.MergeTreeEqFunctional partsAcc (binaryConfusionStat thr) catPair :=
  merge_tree_eq_functional partsAcc partsAcc_laws (FamStat.statCat_binaryConfusion thr)

/-- Mean (scalar or per-sample weights). -/
theorem C01_merge_tree_mean :
    FamStat.MergeTreeEqFunctional partsAcc (meanStat) catWeighted :=
  merge_tree_eq_functional partsAcc partsAcc_laws (FamStat.statCat_mean)

/-- Sum (scalar or per-sample weights). -/
theorem C01_merge_tree_sum :
    FamStat.MergeTreeEqFunctional partsAcc (sumStat) catWeighted :=
  merge_tree_eq_functional partsAcc partsAcc_laws (FamStat.statCat_sum)

/-- MeanSquaredError, streams of one arity d (all 1-D, or all (n, d)); optional sample weights. -/
theorem C01_merge_tree_mse (d : Nat) :
    FamStat.MergeTreeEqFunctional partsAcc (mseStat d) (catCols d) :=
  merge_tree_eq_functional partsAcc partsAcc_laws (FamStat.statCat_mse d)

/-- R2Score, streams of one arity d. -/
theorem C01_merge_tree_r2 (d : Nat) :
    FamStat.MergeTreeEqFunctional partsAcc (r2Stat d) (catCols d) :=
  merge_tree_eq_functional partsAcc partsAcc_laws (FamStat.statCat_r2 d)

/-- BinaryNormalizedEntropy (`ln`, `exp` parameters; per task row). -/
theorem C01_merge_tree_bne (ln exp : Q → Q) (fl : Bool) (nt : Nat) :
    FamStat.MergeTreeEqFunctional partsAcc (bneStat ln exp fl nt) (catTasks nt) :=
  merge_tree_eq_functional partsAcc partsAcc_laws (FamStat.statCat_bne ln exp fl nt)

/-- Perplexity (`exp`, `ln` parameters). -/
theorem C01_merge_tree_ppl (exp ln : Q → Q) (v : Nat) (ignore : Option Int) :
    FamStat.MergeTreeEqFunctional partsAcc (pplStat exp ln v ignore) catPair :=
  merge_tree_eq_functional partsAcc partsAcc_laws (FamStat.statCat_ppl exp ln v ignore)

/-- the additive part of PeakSignalNoiseRatio (squared error, count). -/
theorem C01_merge_tree_psnr :
    FamStat.MergeTreeEqFunctional partsAcc (psnrStat) catPair :=
  merge_tree_eq_functional partsAcc partsAcc_laws (FamStat.statCat_psnr)

/-- ClickThroughRate (per task row; scalar or tensor weights). -/
theorem C01_merge_tree_ctr (nt : Nat) :
    FamStat.MergeTreeEqFunctional partsAcc (ctrStat nt) (catCtr nt) :=
  merge_tree_eq_functional partsAcc partsAcc_laws (FamStat.statCat_ctr nt)

/-- WeightedCalibration (per task row; scalar or tensor weights). -/
theorem C01_merge_tree_wc (nt : Nat) :
    FamStat.MergeTreeEqFunctional partsAcc (wcStat nt) (catWc nt) :=
  merge_tree_eq_functional partsAcc partsAcc_laws (FamStat.statCat_wc nt)

/-- BinaryBinnedPrecisionRecallCurve counts (any threshold list). -/
theorem C01_merge_tree_binaryBinned (t : List Q) :
    FamStat.MergeTreeEqFunctional partsAcc (binaryBinnedStat t) catPair :=
  merge_tree_eq_functional partsAcc partsAcc_laws (FamStat.statCat_binaryBinned t)

/-- MulticlassBinnedPrecisionRecallCurve / MulticlassBinnedAUPRC counts (both optimisations). -/
theorem C01_merge_tree_mcBinned (t : List Q) (opt : Binned.Opt) (W : Nat) :
    FamStat.MergeTreeEqFunctional partsAcc (mcBinnedStat t opt W) catPair :=
  merge_tree_eq_functional partsAcc partsAcc_laws (FamStat.statCat_mcBinned t opt W)

/-- MultilabelBinnedPrecisionRecallCurve / MultilabelBinnedAUPRC counts (both optimisations). -/
theorem C01_merge_tree_mlBinned (t : List Q) (opt : Binned.Opt) (L : Nat) :
    FamStat.MergeTreeEqFunctional partsAcc (mlBinnedStat t opt L) catPair :=
  merge_tree_eq_functional partsAcc partsAcc_laws (FamStat.statCat_mlBinned t opt L)

/-- BinaryBinnedAUPRC counts (per task row). -/
theorem C01_merge_tree_binaryBinnedAuprc (t : List Q) (nt : Nat) :
    FamStat.MergeTreeEqFunctional partsAcc (binaryBinnedAuprcStat t nt) (catTaskPairs nt) :=
  merge_tree_eq_functional partsAcc partsAcc_laws (FamStat.statCat_binaryBinnedAuprc t nt)

/-- WordErrorRate. -/
theorem C01_merge_tree_wer {α : Type} [DecidableEq α] :
    FamStat.MergeTreeEqFunctional partsAcc (werStat (α := α)) catPair :=
  merge_tree_eq_functional partsAcc partsAcc_laws (FamStat.statCat_wer)

/-- WordInformationPreserved. -/
theorem C01_merge_tree_wip {α : Type} [DecidableEq α] :
    FamStat.MergeTreeEqFunctional partsAcc (wipStat (α := α)) catPair :=
  merge_tree_eq_functional partsAcc partsAcc_laws (FamStat.statCat_wip)

/-- WordInformationLost. -/
theorem C01_merge_tree_wil {α : Type} [DecidableEq α] :
    FamStat.MergeTreeEqFunctional partsAcc (wilStat (α := α)) catPair :=
  merge_tree_eq_functional partsAcc partsAcc_laws (FamStat.statCat_wil)

/-- BLEUScore statistics (n-gram order N). -/
theorem C01_merge_tree_bleu {α : Type} [DecidableEq α] (N : Nat) :
    FamStat.MergeTreeEqFunctional partsAcc (bleuStat (α := α) N) catPair :=
  merge_tree_eq_functional partsAcc partsAcc_laws (FamStat.statCat_bleu N)

/-- cache of (score, target) samples: BinaryAUROC, BinaryAUPRC, BinaryPrecisionRecallCurve, BinaryRecallAtFixedPrecision, a task row of BinaryBinnedAUROC, AUC points. -/
theorem C01_merge_tree_pairSamples {α β : Type} :
    FamStat.MergeTreeEqFunctionalOrdered (listAcc (α × β)) (pairSamples (α := α) (β := β)) catPair :=
  merge_tree_eq_functional_ordered (listAcc (α × β)) (listAcc_laws _) (FamStat.statCat_pairSamples)

/-- cache of (score, target, weight) samples: weighted BinaryAUROC, Wasserstein1D. -/
theorem C01_merge_tree_tripleSamples {α β γ : Type} :
    FamStat.MergeTreeEqFunctionalOrdered (listAcc (α × β × γ)) (tripleSamples (α := α) (β := β) (γ := γ)) catTriple :=
  merge_tree_eq_functional_ordered (listAcc (α × β × γ)) (listAcc_laws _) (FamStat.statCat_tripleSamples)

/-- cache of (row, label / target row) samples: Multiclass/Multilabel AUROC, AUPRC, PR curves, recall@precision, MulticlassBinnedAUROC. -/
theorem C01_merge_tree_rowSamples {β : Type} :
    FamStat.MergeTreeEqFunctionalOrdered (listAcc (List Q × β)) (rowSamples (β := β)) catPair :=
  merge_tree_eq_functional_ordered (listAcc (List Q × β)) (listAcc_laws _) (FamStat.statCat_rowSamples)

/-- Cat. -/
theorem C01_merge_tree_catSamples {α : Type} :
    FamStat.MergeTreeEqFunctionalOrdered (listAcc α) (catSamples (α := α)) List.flatten :=
  merge_tree_eq_functional_ordered (listAcc α) (listAcc_laws _) (FamStat.statCat_catSamples)

/-- HitRate (per-sample values in update order). -/
theorem C01_merge_tree_hitRate (C : Nat) (k : Option Int) :
    FamStat.MergeTreeEqFunctionalOrdered (listAcc Q) (hitRateStat C k) catPair :=
  merge_tree_eq_functional_ordered (listAcc Q) (listAcc_laws _) (FamStat.statCat_hitRate C k)

/-- ReciprocalRank (per-sample values in update order). -/
theorem C01_merge_tree_reciprocalRank (k : Option Int) :
    FamStat.MergeTreeEqFunctionalOrdered (listAcc Q) (reciprocalRankStat k) catPair :=
  merge_tree_eq_functional_ordered (listAcc Q) (listAcc_laws _) (FamStat.statCat_reciprocalRank k)

/-- non-vacuity: MulticlassRecall(macro, 3 classes): shard `a` saw batches of sizes 3 and 1, shard `b`
    nothing, shard `c` a batch of size 2 and was reset before; merged pairwise into a fresh target.
    The live batches are the three batches, and the state is the statistic of their concatenation. -/
example :
    let b₁ : List Nat × List Nat := ([0, 2, 1], [0, 1, 1])
    let b₂ : List Nat × List Nat := ([2], [2])
    let b₃ : List Nat × List Nat := ([1, 0], [1, 2])
    let outA : Parts → Except Err Parts := fun p => .ok p
    let a := Hist.update (Hist.update .fresh b₁) b₂
    let b : Hist (List Nat × List Nat) := .fresh
    let c := Hist.update (Hist.reset (Hist.update .fresh b₂)) b₃
    let t := Hist.merge (Hist.merge .fresh [a, b]) [c]
    flatten t = [b₁, b₂, b₃] ∧
      (eval (additive partsAcc (mcRecallStat .macro 3) outA) t).toOption = some [[1, 2, 1], [1, 3, 2], [2, 2, 2]] ∧
      (mcRecallStat .macro 3 (catPair [b₃, b₁, b₂])).toOption = some [[1, 2, 1], [1, 3, 2], [2, 2, 2]] := by
  decide +kernel

end TE.C01

/-! ## class level: the cache-all and the non-additive classes (TE/Model/FamsCache.lean)

  `FamCache.MergeTreeFn f cat`: for EVERY history tree (`Hist`: any number of shards, empty shards,
  fresh targets, flat / pairwise / sequential merges, a source merged twice, updates after merges,
  resets) that runs without error, the state is the samples of the live batches in merge order, it is
  the state of ONE instance fed those batches, and `compute()` is the functional on their concatenation.
  `FamCache.MergeTreeAnyOrder f P cat`: moreover `compute()` equals the functional on the concatenation
  of ANY non-empty valid stream `bs` whose samples are a permutation of the live samples, and equals
  `compute()` of one instance fed `bs` — in particular the single instance that saw the whole stream in
  stream order, whatever the partition into shards and the merge order were.  `P` is the side
  condition under which the functional is order-insensitive (C05 / C06 / C07). -/
namespace TE.C01
open TE TE.Fams TE.FamCache

/-- BinaryAUROC (any `num_tasks`, weights); order-insensitive for 0/1 targets. -/
theorem C01_merge_tree_BinaryAUROC (nt : Nat) :
    MergeTreeFn (binaryAurocC nt) List.flatten ∧
      MergeTreeAnyOrder (binaryAurocC nt) (BinaryLabels nt) List.flatten :=
  ⟨mergeTreeFn_of_statCat _ FamStat.statCat_catSamples,
    mergeTreeAnyOrder _ FamStat.statCat_catSamples (outPerm_binaryAuroc nt)⟩

/-- MulticlassAUROC (every average). -/
theorem C01_merge_tree_MulticlassAUROC (nc : Nat) (avg : Curve.Avg) :
    MergeTreeFn (multiclassAurocC nc avg) catPair ∧
      MergeTreeAnyOrder (multiclassAurocC nc avg) (fun _ => True) catPair :=
  ⟨mergeTreeFn_of_statCat _ FamStat.statCat_rowSamples,
    mergeTreeAnyOrder _ FamStat.statCat_rowSamples (outPerm_multiclassAuroc nc avg)⟩

/-- BinaryAUPRC (any `num_tasks`). -/
theorem C01_merge_tree_BinaryAUPRC (nt : Nat) :
    MergeTreeFn (binaryAuprcC nt) List.flatten ∧
      MergeTreeAnyOrder (binaryAuprcC nt) (fun _ => True) List.flatten :=
  ⟨mergeTreeFn_of_statCat _ FamStat.statCat_catSamples,
    mergeTreeAnyOrder _ FamStat.statCat_catSamples (outPerm_binaryAuprc nt)⟩

/-- MulticlassAUPRC (every average). -/
theorem C01_merge_tree_MulticlassAUPRC (nc : Nat) (avg : Curve.Avg) :
    MergeTreeFn (multiclassAuprcC nc avg) catPair ∧
      MergeTreeAnyOrder (multiclassAuprcC nc avg) (fun _ => True) catPair :=
  ⟨mergeTreeFn_of_statCat _ FamStat.statCat_rowSamples,
    mergeTreeAnyOrder _ FamStat.statCat_rowSamples (outPerm_multiclassAuprc nc avg)⟩

/-- MultilabelAUPRC (every average). -/
theorem C01_merge_tree_MultilabelAUPRC (nl : Nat) (avg : Curve.Avg) :
    MergeTreeFn (multilabelAuprcC nl avg) catPair ∧
      MergeTreeAnyOrder (multilabelAuprcC nl avg) (fun _ => True) catPair :=
  ⟨mergeTreeFn_of_statCat _ FamStat.statCat_rowSamples,
    mergeTreeAnyOrder _ FamStat.statCat_rowSamples (outPerm_multilabelAuprc nl avg)⟩

/-- BinaryPrecisionRecallCurve. -/
theorem C01_merge_tree_BinaryPrecisionRecallCurve :
    MergeTreeFn binaryPrCurveC catPair ∧ MergeTreeAnyOrder binaryPrCurveC (fun _ => True) catPair :=
  ⟨mergeTreeFn_of_statCat _ FamStat.statCat_pairSamples,
    mergeTreeAnyOrder _ FamStat.statCat_pairSamples outPerm_binaryPrCurve⟩

/-- MulticlassPrecisionRecallCurve (`num_classes` given or `None`). -/
theorem C01_merge_tree_MulticlassPrecisionRecallCurve (nc0 : Option Nat) :
    MergeTreeFn (multiclassPrCurveC nc0) catPair ∧
      MergeTreeAnyOrder (multiclassPrCurveC nc0) (fun _ => True) catPair :=
  ⟨mergeTreeFn_of_statCat _ FamStat.statCat_rowSamples,
    mergeTreeAnyOrder _ FamStat.statCat_rowSamples (outPerm_multiclassPrCurve nc0)⟩

/-- MultilabelPrecisionRecallCurve. -/
theorem C01_merge_tree_MultilabelPrecisionRecallCurve (nl : Nat) :
    MergeTreeFn (multilabelPrCurveC nl) catPair ∧
      MergeTreeAnyOrder (multilabelPrCurveC nl) (fun _ => True) catPair :=
  ⟨mergeTreeFn_of_statCat _ FamStat.statCat_rowSamples,
    mergeTreeAnyOrder _ FamStat.statCat_rowSamples (outPerm_multilabelPrCurve nl)⟩

/-- BinaryRecallAtFixedPrecision. -/
theorem C01_merge_tree_BinaryRecallAtFixedPrecision (p : Q) :
    MergeTreeFn (binaryRecallAtPrecisionC p) catPair ∧
      MergeTreeAnyOrder (binaryRecallAtPrecisionC p) (fun _ => True) catPair :=
  ⟨mergeTreeFn_of_statCat _ FamStat.statCat_pairSamples,
    mergeTreeAnyOrder _ FamStat.statCat_pairSamples (outPerm_binaryRecallAtPrecision p)⟩

/-- MultilabelRecallAtFixedPrecision. -/
theorem C01_merge_tree_MultilabelRecallAtFixedPrecision (p : Q) (nl : Nat) :
    MergeTreeFn (multilabelRecallAtPrecisionC p nl) catPair ∧
      MergeTreeAnyOrder (multilabelRecallAtPrecisionC p nl) (fun _ => True) catPair :=
  ⟨mergeTreeFn_of_statCat _ FamStat.statCat_rowSamples,
    mergeTreeAnyOrder _ FamStat.statCat_rowSamples (outPerm_multilabelRecallAtPrecision p nl)⟩

/-- AUC (both `reorder` settings): the live points in merge order. -/
theorem C01_merge_tree_AUC (reorder : Bool) (nt : Nat) : MergeTreeFn (aucC reorder nt) List.flatten :=
  mergeTreeFn_of_statCat _ FamStat.statCat_catSamples

/- AUC(reorder=True), full statement (FALSE, see `C12.C12_AUC_reorder_tie_witness`):
     `MergeTreeAnyOrder (aucC true nt) (fun _ => True) List.flatten` -/

/-- AUC(reorder=True): any order of the live points, provided points with equal abscissa coincide. -/
theorem C01_merge_tree_AUC_reorder_partial (nt : Nat) :
    MergeTreeAnyOrder (aucC true nt) (DistinctX nt) List.flatten :=
  mergeTreeAnyOrder _ FamStat.statCat_catSamples (outPerm_auc_reorder nt)

/-- witness of the order dependence with tied abscissae: shard `a` holds `(0,0), (1,1)`, shard `b` holds
    `(1,2), (3,0)`; merging `b` into `a` gives `5/2`, merging `a` into `b` gives `2`. -/
theorem C01_AUC_reorder_tie_witness :
    let a : Hist (List TaskPair) := .update .fresh [([0], [0]), ([1], [1])]
    let b : Hist (List TaskPair) := .update .fresh [([1], [2]), ([3], [0])]
    ((eval (aucC true 1).cls (.merge a [b])).toOption.bind fun s => ((aucC true 1).cls.out s).toOption) = some [5 / 2] ∧
    ((eval (aucC true 1).cls (.merge b [a])).toOption.bind fun s => ((aucC true 1).cls.out s).toOption) = some [2] := by
  decide +kernel

/-- BinaryBinnedAUROC (any `num_tasks`, any threshold list). -/
theorem C01_merge_tree_BinaryBinnedAUROC (t : List Q) (nt : Nat) :
    FamStat.MergeTreeEqFunctionalOrdered (listAcc TaskPair) (binaryBinnedAurocL t nt).stat List.flatten ∧
      LMergeTreeAnyOrder (binaryBinnedAurocL t nt) (fun _ => True) List.flatten :=
  ⟨FamStat.mergeTree_ordered_of_statCat _ (listAcc_laws _) FamStat.statCat_catSamples,
    lMergeTreeAnyOrder _ FamStat.statCat_catSamples (outPerm_binaryBinnedAuroc t nt)⟩

/- MulticlassBinnedAUROC, full statement (FALSE for the code as it is, recorded finding
   `C06.multiclass_binned_auroc_witness` / `C12.C12_MulticlassBinnedAUROC_order_witness`):
     `LMergeTreeAnyOrder (mcBinnedAurocL t C) (fun _ => True) catPair` -/

/-- MulticlassBinnedAUROC: the live samples in merge order (order-carrying as it is). -/
theorem C01_merge_tree_MulticlassBinnedAUROC_partial (t : List Q) (C : Nat) :
    FamStat.MergeTreeEqFunctionalOrdered (listAcc (List Q × Nat)) (mcBinnedAurocL t C).stat catPair :=
  FamStat.mergeTree_ordered_of_statCat _ (listAcc_laws _) FamStat.statCat_rowSamples

/-- Wasserstein1D: every history holds the weighted samples of both distributions in merge order
    (for every `compute`), and `compute()` is `wasserstein_1d` on the concatenation of ANY valid stream
    holding the same weighted samples in any order = `compute()` of one instance fed that stream. -/
theorem C01_merge_tree_Wasserstein1D :
    FamStat.MergeTreeEqFunctionalOrdered (pairAcc (Q × Q) (Q × Q)) wassStat catW ∧
    (∀ (h : Hist WBatch) (s : List (Q × Q) × List (Q × Q)), eval wassCls h = .ok s →
      ∀ bs : List WBatch, bs ≠ [] → WValid bs →
        (wState bs).1.Perm (wState (flatten h)).1 → (wState bs).2.Perm (wState (flatten h)).2 →
        s = wState (flatten h) ∧
        wassCls.out s = Agg.wasserstein (catW bs).x (catW bs).y (catW bs).xw (catW bs).yw ∧
        ∃ s', eval wassCls (single bs) = .ok s' ∧ wassCls.out s' = wassCls.out s) :=
  ⟨FamStat.mergeTree_ordered_of_statCat _ (pairAcc_laws _ _) statCat_wass,
    fun h s he bs hne hv h1 h2 => wass_mergeTree_anyOrder h s he bs hne hv h1 h2⟩

/-- PeakSignalNoiseRatio(data_range=None): after any history with a live target element `compute()`
    is the functional on ALL live data (summed squared error, element count, `max − min` of all live
    targets — the running range is the global one), and any other history holding the same batches in
    any order computes the same. -/
theorem C01_merge_tree_PSNR_auto (h : Hist (List Q × List Q)) (s : Agg.PsnrS)
    (he : eval (psnrCls none) h = .ok s) (hne : psnrTargets (flatten h) ≠ []) :
    (psnrCls none).out s = Agg.psnrFn (psnrInputs (flatten h)) (psnrTargets (flatten h)) none ∧
    ∀ (h' : Hist (List Q × List Q)) (s' : Agg.PsnrS), eval (psnrCls none) h' = .ok s' →
      (flatten h).Perm (flatten h') → (psnrCls none).out s = (psnrCls none).out s' :=
  ⟨psnr_merge_tree_auto h s he hne, fun h' s' he' hp => psnr_any_history_auto h h' s s' he he' hp hne⟩

/-- PeakSignalNoiseRatio(data_range = r > 0). -/
theorem C01_merge_tree_PSNR_fixed (r : Q) (hr : 0 < r) (h : Hist (List Q × List Q)) (s : Agg.PsnrS)
    (he : eval (psnrCls (some r)) h = .ok s) :
    (psnrCls (some r)).out s = Agg.psnrFn (psnrInputs (flatten h)) (psnrTargets (flatten h)) (some r) ∧
    ∀ (h' : Hist (List Q × List Q)) (s' : Agg.PsnrS), eval (psnrCls (some r)) h' = .ok s' →
      (flatten h).Perm (flatten h') → (psnrCls (some r)).out s = (psnrCls (some r)).out s' :=
  ⟨psnr_merge_tree_fixed r hr h s he, fun h' s' he' hp => psnr_any_history_fixed r h h' s s' he he' hp⟩

/-- Covariance (batches of `d` columns; shards without rows or with a single row included): `compute()`
    of any history is `compute` of the `(n, Σx, M2)` summary of all live observations
    (`C07.cov_compute_eq_def`: their sample mean and unbiased covariance, `ValueError` below two), and any
    other history whose live observations are a permutation of these computes the same. -/
theorem C01_merge_tree_Covariance (d : Nat) (h : Hist (Nat × Mat)) (s : Agg.CovS)
    (he : eval covCls h = .ok s) (hd : ∀ b ∈ flatten h, b.1 = d) :
    covCls.out s = Agg.covCompute (Agg.covBatch d (AggL.rowsOf (flatten h))) ∧
    ∀ (h' : Hist (Nat × Mat)) (s' : Agg.CovS), eval covCls h' = .ok s' → (∀ b ∈ flatten h', b.1 = d) →
      (AggL.rowsOf (flatten h)).Perm (AggL.rowsOf (flatten h')) → covCls.out s = covCls.out s' :=
  ⟨C07.cov_merge_tree d h s he hd, fun h' s' he' hd' hp => cov_any_history d h h' s s' he he' hd hd' hp⟩

/-- Max: any history tree = any other history (e.g. one instance) holding the same elements in any order. -/
theorem C01_merge_tree_Max (h h' : Hist (List Q)) (s s' : Option Q)
    (he : eval maxCls h = .ok s) (he' : eval maxCls h' = .ok s')
    (hp : (flatten h).flatten.Perm (flatten h').flatten) : maxCls.out s = maxCls.out s' :=
  max_any_history h h' s s' he he' hp

theorem C01_merge_tree_Min (h h' : Hist (List Q)) (s s' : Option Q)
    (he : eval minCls h = .ok s) (he' : eval minCls h' = .ok s')
    (hp : (flatten h).flatten.Perm (flatten h').flatten) : minCls.out s = minCls.out s' :=
  min_any_history h h' s s' he he' hp

/- Throughput, full statement (FALSE — the documented deviation):
     `eval thrCls h = .ok s → eval thrCls (single (flatten h)) = .ok s' → thrCls.out s = thrCls.out s'`
   `merge_state` adds the counts but keeps the MAXIMUM of the elapsed times ("the slowest shard"). -/

/-- Throughput: the state of any history is (sum of the counts of all live updates, elapsed time of the
    history), where the elapsed time adds on `update` and is the maximum over target and sources on
    `merge_state` (`FamCache.thrElapsed`); `compute()` is their ratio (`0.0` before any time). -/
theorem C01_merge_tree_Throughput_partial (h : Hist (Q × Q)) (s : Q × Q) (he : eval thrCls h = .ok s) :
    s.1 = ((flatten h).map (·.1)).sum ∧ s.2 = thrElapsed h ∧
    thrCls.out s = .ok (if thrElapsed h = 0 then 0 else ((flatten h).map (·.1)).sum / thrElapsed h) ∧
    (∀ (t : Hist (Q × Q)) (srcs : List (Hist (Q × Q))),
      Spec.Agg.IsMax (thrElapsed t :: srcs.map thrElapsed) (thrElapsed (.merge t srcs))) ∧
    (∀ bs : List (Q × Q), thrElapsed (single bs) = (bs.map (·.2)).sum) :=
  ⟨(thr_refines h s he).1, (thr_refines h s he).2, thr_out h s he, thrElapsed_merge_isMax, thrElapsed_single⟩

/-- witness of the deviation: shards `(3 items, 2 s)` and `(5 items, 4 s)`: merged `8/4 = 2`, single `8/6`. -/
theorem C01_Throughput_merge_witness :
    ((eval thrCls (.merge (.update .fresh (3, 2)) [.update .fresh (5, 4)])).toOption.bind
        fun s => (thrCls.out s).toOption) = some 2 ∧
    ((eval thrCls (single [(3, 2), (5, 4)])).toOption.bind fun s => (thrCls.out s).toOption) = some (4 / 3) :=
  thr_merge_deviation_witness

/-! ### non-vacuity: 3-shard trees with an empty shard and a batch of size 1 -/

/-- BinaryAUROC (one task, weights): shard `a` saw batches of 3 and 1 samples, shard `b` nothing, shard `c`
    a batch of 2 and was reset before; merged pairwise into a fresh target.  The live samples are the six
    samples in merge order, the labels are 0/1, and the stream `[b₃, b₁, b₂]` is another order of them — so
    `compute()` of the tree is `binary_auroc` on that stream's concatenation. -/
example :
    let b₁ : List TaskSample := [([3/4], [1], [1]), ([1/4], [0], [2]), ([1/2], [1], [1])]
    let b₂ : List TaskSample := [([1/2], [0], [1])]
    let b₃ : List TaskSample := [([1], [1], [1]), ([0], [0], [3])]
    let a := Hist.update (Hist.update .fresh b₁) b₂
    let b : Hist (List TaskSample) := .fresh
    let c := Hist.update (Hist.reset (Hist.update .fresh b₂)) b₃
    let t := Hist.merge (Hist.merge .fresh [a, b]) [c]
    ∃ s, eval (binaryAurocC 1).cls t = .ok s ∧ s = (true, b₁ ++ b₂ ++ b₃) ∧
      (binaryAurocC 1).cls.out s = (binaryAurocC 1).fn (b₃ ++ b₁ ++ b₂) := by
  intro b₁ b₂ b₃ a b c t
  have he : eval (binaryAurocC 1).cls t = .ok (true, b₁ ++ b₂ ++ b₃) := eq_ok_of_toOption (by decide +kernel)
  refine ⟨_, he, rfl, ?_⟩
  have hf : flatten t = [b₁, b₂, b₃] := by decide +kernel
  have := ((C01_merge_tree_BinaryAUROC 1).2 t _ he [b₃, b₁, b₂] (by decide) (by rw [hf]; decide)
    (valid_catSamples _)
    (by show (samplesOf (catSamples (α := TaskSample)) _).Perm (samplesOf catSamples _)
        rw [samplesOf_catSamples, samplesOf_catSamples, hf]; decide +kernel)
    (by show BinaryLabels 1 (samplesOf (catSamples (α := TaskSample)) _)
        rw [samplesOf_catSamples, hf]; unfold BinaryLabels; decide +kernel)).1
  simpa using this

/-- MulticlassAUPRC (row samples), the same tree shape: live rows in merge order. -/
example :
    let b₁ : Mat × List Q := ([[1/2, 1/4], [1/4, 3/4], [1, 0]], [0, 1, 0])
    let b₂ : Mat × List Q := ([[1/8, 1/2]], [1])
    let b₃ : Mat × List Q := ([[3/4, 1/4], [0, 1]], [0, 1])
    let a := Hist.update (Hist.update .fresh b₁) b₂
    let b : Hist (Mat × List Q) := .fresh
    let c := Hist.update (Hist.reset (Hist.update .fresh b₂)) b₃
    let t := Hist.merge (Hist.merge .fresh [a, b]) [c]
    flatten t = [b₁, b₂, b₃] ∧
      (eval (multiclassAuprcC 2 .macro).cls t).toOption
        = some (true, [([1/2, 1/4], 0), ([1/4, 3/4], 1), ([1, 0], 0), ([1/8, 1/2], 1), ([3/4, 1/4], 0), ([0, 1], 1)]) ∧
      Valid (multiclassAuprcC 2 .macro).stat [b₃, b₁, b₂] := by
  intro b₁ b₂ b₃ a b c t
  exact ⟨by decide +kernel, by decide +kernel, valid_of_all' _ _ (by decide +kernel)⟩

/-- Wasserstein1D: 3 shards, one empty, one update with a single sample per distribution. -/
example :
    let b₁ : WBatch := ⟨[1, 2], [5, 0], some [1, 2], none⟩
    let b₂ : WBatch := ⟨[3], [1], none, some [2]⟩
    let a := Hist.update .fresh b₁
    let b : Hist WBatch := .fresh
    let c := Hist.update .fresh b₂
    let t := Hist.merge a [b, c]
    (eval wassCls t).toOption = some ([(1, 1), (2, 2), (3, 1)], [(5, 1), (0, 1), (1, 2)]) ∧
      WValid [b₂, b₁] ∧ (wState [b₂, b₁]).1.Perm (wState (flatten t)).1 ∧ (wState [b₂, b₁]).2.Perm (wState (flatten t)).2 := by
  intro b₁ b₂ a b c t
  exact ⟨by decide +kernel, FamStat.valid_of_all _ _ (by decide +kernel), by decide +kernel, by decide +kernel⟩

/-- PSNR(data_range=None): 3 shards (one empty, one with a single element), merged flat into a fresh target. -/
example :
    let a : Hist (List Q × List Q) := .update .fresh ([1, 2, 3], [1, 2, 5])
    let b : Hist (List Q × List Q) := .fresh
    let c : Hist (List Q × List Q) := .update .fresh ([0], [4])
    let t := Hist.merge .fresh [a, b, c]
    ((eval (psnrCls none) t).toOption.bind fun s => ((psnrCls none).out s).toOption) = some (.val (16 / 5)) ∧
      psnrTargets (flatten t) ≠ [] ∧
      (Agg.psnrFn [1, 2, 3, 0] [1, 2, 5, 4] none).toOption = some (.val (16 / 5)) := by
  intro a b c t
  exact ⟨by decide +kernel, by decide +kernel, by decide +kernel⟩

/-- Covariance: shards with one row, no row, two rows; merged pairwise. -/
example :
    let a : Hist (Nat × Mat) := .update .fresh (2, [[1, 2]])
    let b : Hist (Nat × Mat) := .fresh
    let c : Hist (Nat × Mat) := .update .fresh (2, [[3, 5], [0, 1]])
    let t := Hist.merge (Hist.merge a [b]) [c]
    (∀ x ∈ flatten t, x.1 = 2) ∧ AggL.rowsOf (flatten t) = [[1, 2], [3, 5], [0, 1]] ∧
      ((eval covCls t).toOption.bind fun s => (covCls.out s).toOption)
        = some ([4/3, 8/3], [[7/3, 19/6], [19/6, 13/3]]) := by
  intro a b c t
  exact ⟨by decide +kernel, by decide +kernel, by decide +kernel⟩

/-- Max: 3 shards, one empty, one with a single element. -/
example :
    let t : Hist (List Q) := .merge (.update .fresh [1, 2]) [.fresh, .update .fresh [5]]
    (eval maxCls t).toOption = some (some 5) ∧ (flatten t).flatten.Perm [5, 2, 1] := by
  intro t
  exact ⟨by decide +kernel, by decide +kernel⟩

/-- AUC(reorder=True), two tasks: 3 shards (one empty, one holding a single point per task), abscissae
    distinct per task: `compute()` of the tree is `auc` on the points in the other order. -/
example :
    let b₁ : List TaskPair := [([0, 1], [0, 1]), ([2, 3], [1, 1])]
    let b₂ : List TaskPair := [([1, 0], [2, 0])]
    let t : Hist (List TaskPair) := .merge (.update .fresh b₁) [.fresh, .update .fresh b₂]
    ∃ s, eval (aucC true 2).cls t = .ok s ∧ (aucC true 2).cls.out s = (aucC true 2).fn (b₂ ++ b₁) := by
  intro b₁ b₂ t
  have he : eval (aucC true 2).cls t = .ok (true, b₁ ++ b₂) := eq_ok_of_toOption (by decide +kernel)
  refine ⟨_, he, ?_⟩
  have hf : flatten t = [b₁, b₂] := by decide +kernel
  have := ((C01_merge_tree_AUC_reorder_partial 2) t _ he [b₂, b₁] (by decide) (by rw [hf]; decide)
    (valid_catSamples _)
    (by show (samplesOf (catSamples (α := TaskPair)) _).Perm (samplesOf catSamples _)
        rw [samplesOf_catSamples, samplesOf_catSamples, hf]; decide +kernel)
    (by show DistinctX 2 (samplesOf (catSamples (α := TaskPair)) _)
        rw [samplesOf_catSamples, hf]; unfold DistinctX TiesEqual pairsAt; decide +kernel)).1
  simpa using this

/-- BinaryBinnedAUROC (duplicated threshold): 3 shards, one empty, one with a single sample, flat merge into
    a fresh target; the value does not depend on the order of the cached samples. -/
example :
    let b₁ : List TaskPair := [([1/8], [0]), ([1/2], [1]), ([1/4], [0])]
    let b₂ : List TaskPair := [([1], [1])]
    let t : Hist (List TaskPair) := .merge .fresh [.update .fresh b₁, .fresh, .update .fresh b₂]
    (eval (binaryBinnedAurocL [0, 1/4, 1/4, 1] 1).cls t).toOption = some (b₁ ++ b₂) ∧
      ((binaryBinnedAurocL [0, 1/4, 1/4, 1] 1).outA (b₁ ++ b₂)).toOption = some [7/8] ∧
      ((binaryBinnedAurocL [0, 1/4, 1/4, 1] 1).outA (b₂ ++ b₁)).toOption = some [7/8] := by
  decide +kernel

/-- Throughput: target with two updates, an empty shard and a slower shard: counts add (`3+1+5`), the
    elapsed time is `max(2+1, 0, 4)`. -/
example :
    let t : Hist (Q × Q) := .merge (.update (.update .fresh (3, 2)) (1, 1)) [.fresh, .update .fresh (5, 4)]
    (eval thrCls t).toOption = some (9, 4) ∧ thrElapsed t = 4 ∧ ((flatten t).map (·.1)).sum = 9 := by
  decide +kernel

end TE.C01
