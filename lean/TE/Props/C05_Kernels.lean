/-
  C05, tied to the SOURCE of the numeric kernels of the curve metrics: for every kernel that
  harness/translators/kernels.py translates from /repo's working tree (TE/Gen/KernelsCurve.lean, regenerated on every
  run of ./check C05), evaluating the GENERATED term on well-shaped arguments gives exactly the hand-written model of
  TE/Model/Curve.lean — for all lengths and all rational values.  A change of a kernel changes its generated term and
  breaks its theorem here; the runner then searches for a failing input.

  ONLY property theorems and non-vacuity examples; helper lemmas are in TE/Lemmas/Kernels.lean and
  TE/Lemmas/KernelsCurve.lean.
-/
import TE.Model.TExpr
import TE.Model.Curve
import TE.Gen.KernelsCurve
import TE.Lemmas.Kernels
import TE.Lemmas.KernelsCurve
namespace TE.C05K
open TE TE.TX TE.TXL
set_option linter.unusedSimpArgs false

/-! ## 0. coverage -/

/-- the curve kernels the translator looks at (the vectorised multiclass pipelines — 2-d `sort`, `target[indices] == arange[:, None]`,
    `split` — are not in this table yet: they stay with the differential run of TE/Driver/Curve.lean). -/
theorem kernels_listed :
    Gen.Curve.kernels.map (·.name) = ["riemann_integral", "compute_for_each_class", "binary_precision_recall_curve_compute",
      "binary_auroc_compute_jit"] := by
  kernel_proof "kernels_listed: the kernel table of C05 changed" => decide

/-- nothing is untranslated; one kernel has a branch outside the grammar: the `num_tasks > 1` branch of
    `_binary_auroc_compute_jit` (`cum_tp[:, -1]`, 2-d tensors), which stays with the differential run (`binaryAurocTasks`). -/
theorem kernels_coverage :
    Gen.Curve.kernels.filterMap (fun k => k.reason?.map fun r => (k.name, r)) = [] ∧
      Gen.Curve.partials = [("binary_auroc_compute_jit", ["multi-dimensional index (:, -1)"])] := by
  kernel_proof "kernels_coverage: a kernel of C05 left the translator's grammar" => decide

/-! ## 1. `_riemann_integral` (tensor_utils.py), the integral under the precision-recall curve -/

/-- `-sum((x[1:] - x[:-1]) * y[:-1])` = `riemann x y`, for `x` and `y` of one length. -/
theorem k_riemann_integral_eq (xs ys : List Q) (h : xs.length = ys.length) :
    TX.eval [("x", vecQ xs), ("y", vecQ ys)] Gen.Curve.k_riemann_integral = .ok (scalarQ (Curve.riemann xs ys)) := by
  have hr := riemannSum_eq xs ys h
  obtain ⟨R, h1, h2, h3⟩ := exists_rows3 (xs.drop 1) xs.dropLast ys.dropLast (by simp) (by simp [h])
  rw [h1, h2, h3] at hr
  kernel_proof "k_riemann_integral_eq: the generated term of _riemann_integral no longer evaluates to the model riemann" =>
    unfold Gen.Curve.k_riemann_integral
    tx_eval [vecOp, ← List.map_drop, ← List.map_dropLast, h1, h2, h3]
    simp only [xneg, Curve.riemann, hr, List.zipWith_map, List.zipWith_self]

example : ([0, 1/2, 1] : List Q).length = ([1, 1/2, 1/4] : List Q).length := by decide

/-! ## 2. the binary precision-recall curve: `_compute_for_each_class` (TorchScript) and its caller

  `input.sort(descending=True)` is a stable merge sort here (torch leaves the order of tied scores unspecified; the
  curve does not depend on it: `TE.C05.prCurve_any_sort`), `target[indices]` a gather, the tie mask `F.pad(diff != 0)`,
  cumulative TP / FP at the last element of every tie group, flips, the appended `(1, 0)` point, `nan_to_num(1.0)`. -/

/-- output of the kernel: `(precision, recall, thresholds)` -/
def prcVal (c : Curve.PRC) : Val := .pair (.vec c.precision) (.pair (.vec c.recall) (vecQ c.thresholds))

/-- `_compute_for_each_class(input, target, 1)` on a non-empty input of one length = `binaryPrCurve`. -/
theorem k_compute_for_each_class_eq (xs ts : List Q) (h : xs.length = ts.length) (hne : xs ≠ []) :
    TX.eval [("input", vecQ xs), ("target", vecQ ts), ("pos_label", .int 1)] Gen.Curve.k_compute_for_each_class
      = (Curve.binaryPrCurve xs ts).map prcVal := by
  have hg := gatherRow_sorted ts (sortedIdx xs) (fun p hp => h ▸ mem_sortedIdx_lt xs p hp)
  have hP : sortedIdx xs ≠ [] := by
    intro e
    have := congrArg List.length e
    simp [sortedIdx] at this
    exact hne this
  have hm := diffMask_val ((sortedIdx xs).map (·.1)) (by simpa using hP)
  simp only [List.map_map, Function.comp_def] at hm
  kernel_proof "k_compute_for_each_class_eq: the generated term no longer evaluates to the model binaryPrCurve" =>
    unfold Gen.Curve.k_compute_for_each_class
    simp only [Curve.binaryPrCurve, sortDesc_posPts xs ts h, Curve.prCurveSorted, List.map_map, Function.comp_def]
    tx_eval [sortDescV, xargsortDesc_val, valIdx, fstV, sndV, gatherLastV, hg, vecOp, qcmp_eq, xcumsum_map, hm,
      diffMask_length, cumsum_length, maskSel_select, lastV_map]
    have hAB := select_length (Curve.diffMask ((sortedIdx xs).map (·.1)))
      (Curve.cumsum ((sortedIdx xs).map fun a => b2q (ts.getD a.2 0 == 1)))
      (Curve.cumsum ((sortedIdx xs).map fun a => 1 - b2q (ts.getD a.2 0 == 1))) (by simp [cumsum_length])
    generalize Curve.select (Curve.diffMask ((sortedIdx xs).map (·.1)))
      (Curve.cumsum ((sortedIdx xs).map fun a => b2q (ts.getD a.2 0 == 1))) = A at hAB ⊢
    generalize Curve.select (Curve.diffMask ((sortedIdx xs).map (·.1)))
      (Curve.cumsum ((sortedIdx xs).map fun a => 1 - b2q (ts.getD a.2 0 == 1))) = B at hAB ⊢
    obtain ⟨W, rfl, rfl⟩ := exists_rows2 A B hAB
    simp only [List.getLast?_map, List.map_map, Function.comp_def]
    cases hw : W.getLast? with
    | none =>
      simp only [Option.map_none, error_bind, scriptedE, Except.map]
    | some w =>
      simp only [Option.map_some]
      tx_eval [fullV_one, catV, firstV_vec, xnanTo_one, prcVal, select_map, List.zip_map', some_beq_nan]
      generalize hL : (W.map fun x => xdiv x.1 w.1).reverse ++ [XQ.val 0] = L
      cases hh : L.head? with
      | none => rw [← hL] at hh; simp at hh
      | some x =>
        simp only [ok_bind, Val.toTV, pure_eq_ok, tvMap, TV.toVal, truthT, xtruthy_b2q, b2x_eq]
        cases hx : xisNan x <;> simp [scriptedE, tvMap, TV.toVal, Val.toTV, vecQ, ok_bind, fstV, sndV]
        · intro e; subst e; exact absurd hx (by decide)
        · have e : x = XQ.nan := by cases x <;> first | rfl | (simp [xisNan] at hx)
          rw [if_pos e]
          exact List.map_congr_left (fun a _ => xnanTo_one a)

/-- an empty input: `num_tp[-1]` raises inside the TorchScript function. -/
theorem k_compute_for_each_class_empty :
    TX.eval [("input", vecQ []), ("target", vecQ []), ("pos_label", .int 1)] Gen.Curve.k_compute_for_each_class
      = (Curve.binaryPrCurve [] []).map prcVal := by
  kernel_proof "k_compute_for_each_class_empty: the generated term no longer evaluates to the model binaryPrCurve" =>
    unfold Gen.Curve.k_compute_for_each_class
    tx_eval [sortDescV, xargsortDesc, List.mergeSort_nil, List.zip_nil_left, List.map_nil, List.length_nil, List.range_zero,
      fstV, sndV, gatherLastV, gatherRow, idxList, seqE, vecOp, xdiff, xcumsumFrom, List.nil_append, List.length_cons,
      Nat.zero_ne_one, lastV, List.getLast?_nil, scriptedE, Curve.binaryPrCurve, Curve.posPts, Curve.sortDesc,
      Curve.prCurveSorted, Curve.diffMask, Curve.cumsum, Curve.cumsumFrom, Curve.select, Except.map, bind, Except.bind]

/-- `_binary_precision_recall_curve_compute` (the inlined kernel with `pos_label = 1`, re-packed) = `binaryPrCurve`. -/
theorem k_binary_precision_recall_curve_compute_eq (xs ts : List Q) (h : xs.length = ts.length) (hne : xs ≠ []) :
    TX.eval [("input", vecQ xs), ("target", vecQ ts)] Gen.Curve.k_binary_precision_recall_curve_compute
      = (Curve.binaryPrCurve xs ts).map prcVal := by
  have hg := gatherRow_sorted ts (sortedIdx xs) (fun p hp => h ▸ mem_sortedIdx_lt xs p hp)
  have hP : sortedIdx xs ≠ [] := by
    intro e
    have := congrArg List.length e
    simp [sortedIdx] at this
    exact hne this
  have hm := diffMask_val ((sortedIdx xs).map (·.1)) (by simpa using hP)
  simp only [List.map_map, Function.comp_def] at hm
  kernel_proof "k_binary_precision_recall_curve_compute_eq: the generated term no longer evaluates to the model binaryPrCurve" =>
    unfold Gen.Curve.k_binary_precision_recall_curve_compute
    simp only [Curve.binaryPrCurve, sortDesc_posPts xs ts h, Curve.prCurveSorted, List.map_map, Function.comp_def]
    tx_eval [sortDescV, xargsortDesc_val, valIdx, fstV, sndV, gatherLastV, hg, vecOp, qcmp_eq, xcumsum_map, hm,
      diffMask_length, cumsum_length, maskSel_select, lastV_map]
    have hAB := select_length (Curve.diffMask ((sortedIdx xs).map (·.1)))
      (Curve.cumsum ((sortedIdx xs).map fun a => b2q (ts.getD a.2 0 == 1)))
      (Curve.cumsum ((sortedIdx xs).map fun a => 1 - b2q (ts.getD a.2 0 == 1))) (by simp [cumsum_length])
    generalize Curve.select (Curve.diffMask ((sortedIdx xs).map (·.1)))
      (Curve.cumsum ((sortedIdx xs).map fun a => b2q (ts.getD a.2 0 == 1))) = A at hAB ⊢
    generalize Curve.select (Curve.diffMask ((sortedIdx xs).map (·.1)))
      (Curve.cumsum ((sortedIdx xs).map fun a => 1 - b2q (ts.getD a.2 0 == 1))) = B at hAB ⊢
    obtain ⟨W, rfl, rfl⟩ := exists_rows2 A B hAB
    simp only [List.getLast?_map, List.map_map, Function.comp_def]
    cases hw : W.getLast? with
    | none =>
      simp only [Option.map_none, error_bind, scriptedE, Except.map]
    | some w =>
      simp only [Option.map_some]
      tx_eval [fullV_one, catV, firstV_vec, xnanTo_one, prcVal, select_map, List.zip_map', some_beq_nan]
      generalize hL : (W.map fun x => xdiv x.1 w.1).reverse ++ [XQ.val 0] = L
      cases hh : L.head? with
      | none => rw [← hL] at hh; simp at hh
      | some x =>
        simp only [ok_bind, Val.toTV, pure_eq_ok, tvMap, TV.toVal, truthT, xtruthy_b2q, b2x_eq]
        cases hx : xisNan x <;> simp [scriptedE, tvMap, TV.toVal, Val.toTV, vecQ, ok_bind, fstV, sndV]
        · intro e; subst e; exact absurd hx (by decide)
        · have e : x = XQ.nan := by cases x <;> first | rfl | (simp [xisNan] at hx)
          rw [if_pos e]
          exact List.map_congr_left (fun a _ => xnanTo_one a)


/-! ## 3. `_binary_auroc_compute_jit` (TorchScript), one task

  descending sort, tie mask, `gather` of target (and weight), cumulative weighted TP / FP, `masked_scatter_` with the
  right-aligned mask `count >= arange(n, 0, -1)` (= `padLeft`), `factor = cum_tp[-1] * cum_fp[-1]`,
  `where(factor == 0, 0.5, trapz(cum_tp, cum_fp) / factor)`. -/

/-- `weight=None`, 1-d, non-empty: every sample has weight `1`. -/
theorem k_binary_auroc_none (xs ts : List Q) (h : xs.length = ts.length) (hne : xs ≠ []) :
    TX.eval [("input", vecQ xs), ("target", vecQ ts), ("weight", .none)] Gen.Curve.k_binary_auroc_compute_jit
      = (Curve.binaryAuroc xs ts (ts.map fun _ => 1)).map scalarQ := by
  have hg := gatherRow_sorted ts (sortedIdx xs) (fun p hp => h ▸ mem_sortedIdx_lt xs p hp)
  have hP : sortedIdx xs ≠ [] := by
    intro e
    have := congrArg List.length e
    simp [sortedIdx] at this
    exact hne this
  have hm := diffMask_val ((sortedIdx xs).map (·.1)) (by simpa using hP)
  simp only [List.map_map, Function.comp_def] at hm
  have hsA := scatter_padLeft (Curve.diffMask ((sortedIdx xs).map (·.1)))
    (Curve.cumsum ((sortedIdx xs).map fun a => 1 * ts.getD a.2 0)) (by simp [cumsum_length, diffMask_length])
  have hsB := scatter_padLeft (Curve.diffMask ((sortedIdx xs).map (·.1)))
    (Curve.cumsum ((sortedIdx xs).map fun a => 1 * (1 - ts.getD a.2 0))) (by simp [cumsum_length, diffMask_length])
  simp only [cumsum_length, List.length_map] at hsA hsB
  kernel_proof "k_binary_auroc_none: the generated term of _binary_auroc_compute_jit no longer evaluates to the model binaryAuroc" =>
    unfold Gen.Curve.k_binary_auroc_compute_jit
    simp only [Curve.binaryAuroc, Curve.aurocCore, sortDesc_binPts_ones xs ts h, Curve.aurocSorted, List.map_map, Function.comp_def,
      List.length_map]
    by_cases hn1 : (sortedIdx xs).length = 1
    · simp only [hn1, List.range_one, List.map_cons, List.map_nil, List.replicate_one] at hsA hsB
      have hlen := padLeft_length_eq 1 _ _ (select_length (Curve.diffMask ((sortedIdx xs).map (·.1)))
        (Curve.cumsum ((sortedIdx xs).map fun a => 1 * ts.getD a.2 0))
        (Curve.cumsum ((sortedIdx xs).map fun a => 1 * (1 - ts.getD a.2 0))) (by simp [cumsum_length]))
      tx_eval [sortDescV, xargsortDesc_val, valIdx, fstV, sndV, gatherLastV, hg, vecOp, qcmp_eq, xcumsum_map, hm,
        diffMask_length, cumsum_length, maskSel_select, isNoneV, ndimV, pyCmpV, sizeLastV, arangeDownV_nat, zerosLikeV,
        qcmp_ge_le, qsum_map_b2q, List.map_const', maskedScatterV, List.length_replicate, List.length_range,
        List.length_cons, List.length_nil, hn1, List.range_one, List.map_cons, List.map_nil, List.replicate_one,
        List.zipWith_cons_cons, List.zipWith_nil_left, hsA, hsB]
      generalize Curve.padLeft _ (Curve.select (Curve.diffMask ((sortedIdx xs).map (·.1)))
        (Curve.cumsum ((sortedIdx xs).map fun a => 1 * ts.getD a.2 0))) = CT at hlen ⊢
      generalize Curve.padLeft _ (Curve.select (Curve.diffMask ((sortedIdx xs).map (·.1)))
        (Curve.cumsum ((sortedIdx xs).map fun a => 1 * (1 - ts.getD a.2 0)))) = CF at hlen ⊢
      simp only [lastV_map]
      cases hct : CT.getLast? with
      | none => simp [scriptedE, qcmp, error_bind, ok_bind]; rfl
      | some tp =>
        cases hcf : CF.getLast? with
        | none => simp [scriptedE, qcmp, error_bind, ok_bind]; rfl
        | some fp =>
          tx_eval [qcmp, whereTV, trapzV, hlen, xtrapz_val, trapz_swap, scriptedE, Except.map]
          by_cases hf : tp * fp = 0 <;> simp [hf, xdiv]
    · have hn1' : ¬ (1 = (sortedIdx xs).length) := fun e => hn1 e.symm
      have hlen := padLeft_length_eq (sortedIdx xs).length _ _ (select_length (Curve.diffMask ((sortedIdx xs).map (·.1)))
        (Curve.cumsum ((sortedIdx xs).map fun a => 1 * ts.getD a.2 0))
        (Curve.cumsum ((sortedIdx xs).map fun a => 1 * (1 - ts.getD a.2 0))) (by simp [cumsum_length]))
      tx_eval [sortDescV, xargsortDesc_val, valIdx, fstV, sndV, gatherLastV, hg, vecOp, qcmp_eq, xcumsum_map, hm,
        diffMask_length, cumsum_length, maskSel_select, isNoneV, ndimV, pyCmpV, sizeLastV, arangeDownV_nat, zerosLikeV,
        qcmp_ge_le, qsum_map_b2q, List.map_const', maskedScatterV, List.length_replicate, List.length_range,
        List.length_cons, List.length_nil, hn1', hsA, hsB]
      generalize Curve.padLeft _ (Curve.select (Curve.diffMask ((sortedIdx xs).map (·.1)))
        (Curve.cumsum ((sortedIdx xs).map fun a => 1 * ts.getD a.2 0))) = CT at hlen ⊢
      generalize Curve.padLeft _ (Curve.select (Curve.diffMask ((sortedIdx xs).map (·.1)))
        (Curve.cumsum ((sortedIdx xs).map fun a => 1 * (1 - ts.getD a.2 0)))) = CF at hlen ⊢
      simp only [lastV_map]
      cases hct : CT.getLast? with
      | none => simp [scriptedE, qcmp, error_bind, ok_bind]; rfl
      | some tp =>
        cases hcf : CF.getLast? with
        | none => simp [scriptedE, qcmp, error_bind, ok_bind]; rfl
        | some fp =>
          tx_eval [qcmp, whereTV, trapzV, hlen, xtrapz_val, trapz_swap, scriptedE, Except.map]
          by_cases hf : tp * fp = 0 <;> simp [hf, xdiv]

/-- with per-sample weights. -/
theorem k_binary_auroc_weighted (xs ts ws : List Q) (h : xs.length = ts.length) (hw : ts.length = ws.length)
    (hne : xs ≠ []) :
    TX.eval [("input", vecQ xs), ("target", vecQ ts), ("weight", vecQ ws)] Gen.Curve.k_binary_auroc_compute_jit
      = (Curve.binaryAuroc xs ts ws).map scalarQ := by
  have hgw := gatherRow_sorted ws (sortedIdx xs) (fun p hp => hw ▸ h ▸ mem_sortedIdx_lt xs p hp)
  have hg := gatherRow_sorted ts (sortedIdx xs) (fun p hp => h ▸ mem_sortedIdx_lt xs p hp)
  have hP : sortedIdx xs ≠ [] := by
    intro e
    have := congrArg List.length e
    simp [sortedIdx] at this
    exact hne this
  have hm := diffMask_val ((sortedIdx xs).map (·.1)) (by simpa using hP)
  simp only [List.map_map, Function.comp_def] at hm
  have hsA := scatter_padLeft (Curve.diffMask ((sortedIdx xs).map (·.1)))
    (Curve.cumsum ((sortedIdx xs).map fun a => ws.getD a.2 0 * ts.getD a.2 0)) (by simp [cumsum_length, diffMask_length])
  have hsB := scatter_padLeft (Curve.diffMask ((sortedIdx xs).map (·.1)))
    (Curve.cumsum ((sortedIdx xs).map fun a => ws.getD a.2 0 * (1 - ts.getD a.2 0))) (by simp [cumsum_length, diffMask_length])
  simp only [cumsum_length, List.length_map] at hsA hsB
  kernel_proof "k_binary_auroc_weighted: the generated term of _binary_auroc_compute_jit no longer evaluates to the model binaryAuroc" =>
    unfold Gen.Curve.k_binary_auroc_compute_jit
    simp only [Curve.binaryAuroc, Curve.aurocCore, sortDesc_binPts xs ts ws h hw, Curve.aurocSorted, List.map_map, Function.comp_def,
      List.length_map]
    by_cases hn1 : (sortedIdx xs).length = 1
    · simp only [hn1, List.range_one, List.map_cons, List.map_nil, List.replicate_one] at hsA hsB
      have hlen := padLeft_length_eq 1 _ _ (select_length (Curve.diffMask ((sortedIdx xs).map (·.1)))
        (Curve.cumsum ((sortedIdx xs).map fun a => ws.getD a.2 0 * ts.getD a.2 0))
        (Curve.cumsum ((sortedIdx xs).map fun a => ws.getD a.2 0 * (1 - ts.getD a.2 0))) (by simp [cumsum_length]))
      tx_eval [sortDescV, xargsortDesc_val, valIdx, fstV, sndV, gatherLastV, hg, hgw, vecOp, qcmp_eq, xcumsum_map, hm,
        diffMask_length, cumsum_length, maskSel_select, isNoneV, ndimV, pyCmpV, sizeLastV, arangeDownV_nat, zerosLikeV,
        qcmp_ge_le, qsum_map_b2q, List.map_const', maskedScatterV, List.length_replicate, List.length_range,
        List.length_cons, List.length_nil, hn1, List.range_one, List.map_cons, List.map_nil, List.replicate_one,
        List.zipWith_cons_cons, List.zipWith_nil_left, hsA, hsB]
      generalize Curve.padLeft _ (Curve.select (Curve.diffMask ((sortedIdx xs).map (·.1)))
        (Curve.cumsum ((sortedIdx xs).map fun a => ws.getD a.2 0 * ts.getD a.2 0))) = CT at hlen ⊢
      generalize Curve.padLeft _ (Curve.select (Curve.diffMask ((sortedIdx xs).map (·.1)))
        (Curve.cumsum ((sortedIdx xs).map fun a => ws.getD a.2 0 * (1 - ts.getD a.2 0)))) = CF at hlen ⊢
      simp only [lastV_map]
      cases hct : CT.getLast? with
      | none => simp [scriptedE, qcmp, error_bind, ok_bind]; rfl
      | some tp =>
        cases hcf : CF.getLast? with
        | none => simp [scriptedE, qcmp, error_bind, ok_bind]; rfl
        | some fp =>
          tx_eval [qcmp, whereTV, trapzV, hlen, xtrapz_val, trapz_swap, scriptedE, Except.map]
          by_cases hf : tp * fp = 0 <;> simp [hf, xdiv]
    · have hn1' : ¬ (1 = (sortedIdx xs).length) := fun e => hn1 e.symm
      have hlen := padLeft_length_eq (sortedIdx xs).length _ _ (select_length (Curve.diffMask ((sortedIdx xs).map (·.1)))
        (Curve.cumsum ((sortedIdx xs).map fun a => ws.getD a.2 0 * ts.getD a.2 0))
        (Curve.cumsum ((sortedIdx xs).map fun a => ws.getD a.2 0 * (1 - ts.getD a.2 0))) (by simp [cumsum_length]))
      tx_eval [sortDescV, xargsortDesc_val, valIdx, fstV, sndV, gatherLastV, hg, hgw, vecOp, qcmp_eq, xcumsum_map, hm,
        diffMask_length, cumsum_length, maskSel_select, isNoneV, ndimV, pyCmpV, sizeLastV, arangeDownV_nat, zerosLikeV,
        qcmp_ge_le, qsum_map_b2q, List.map_const', maskedScatterV, List.length_replicate, List.length_range,
        List.length_cons, List.length_nil, hn1', hsA, hsB]
      generalize Curve.padLeft _ (Curve.select (Curve.diffMask ((sortedIdx xs).map (·.1)))
        (Curve.cumsum ((sortedIdx xs).map fun a => ws.getD a.2 0 * ts.getD a.2 0))) = CT at hlen ⊢
      generalize Curve.padLeft _ (Curve.select (Curve.diffMask ((sortedIdx xs).map (·.1)))
        (Curve.cumsum ((sortedIdx xs).map fun a => ws.getD a.2 0 * (1 - ts.getD a.2 0)))) = CF at hlen ⊢
      simp only [lastV_map]
      cases hct : CT.getLast? with
      | none => simp [scriptedE, qcmp, error_bind, ok_bind]; rfl
      | some tp =>
        cases hcf : CF.getLast? with
        | none => simp [scriptedE, qcmp, error_bind, ok_bind]; rfl
        | some fp =>
          tx_eval [qcmp, whereTV, trapzV, hlen, xtrapz_val, trapz_swap, scriptedE, Except.map]
          by_cases hf : tp * fp = 0 <;> simp [hf, xdiv]


example : ([1/2, 1/4, 1/2] : List Q).length = ([1, 0, 0] : List Q).length ∧ ([1/2, 1/4, 1/2] : List Q) ≠ [] := by decide

end TE.C05K
