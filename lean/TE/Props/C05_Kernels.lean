/-
  C05, tied to the SOURCE of the numeric kernels of the curve metrics: for every kernel that
  harness/translators/kernels.py translates from /repo's working tree (TE/Gen/KernelsCurve.lean, regenerated on every
  run of ./check C05), evaluating the GENERATED term on well-shaped arguments gives exactly the hand-written model of
  TE/Model/Curve.lean — for all lengths and all rational values.  A change of a kernel changes its generated term and
  breaks its theorem here; the runner then searches for a failing input.

  ONLY property theorems and non-vacuity examples; helper lemmas are in TE/Lemmas/Kernels.lean and
  TE/Lemmas/KernelsCurve.lean.
-/
import TE.Model.TExpr
import TE.Model.Curve
import TE.Gen.KernelsCurve
import TE.Lemmas.Kernels
import TE.Lemmas.KernelsCurve
import TE.Props.C05
namespace TE.C05K
open TE TE.TX TE.TXL
set_option linter.unusedSimpArgs false

/-! ## 0. coverage -/

/-- the curve kernels the translator looks at (the vectorised multiclass pipelines — 2-d `sort`, `target[indices] == arange[:, None]`,
    `split` — are not in this table yet: they stay with the differential run of TE/Driver/Curve.lean). -/
theorem kernels_listed :
    Gen.Curve.kernels.map (·.name) = ["riemann_integral", "compute_for_each_class", "binary_precision_recall_curve_compute",
      "binary_auroc_compute_jit", "binary_auprc_compute", "recall_at_precision", "binary_recall_at_fixed_precision_compute"] := by
  kernel_proof "kernels_listed: the kernel table of C05 changed" => decide

/-- nothing is untranslated; one kernel has a branch outside the grammar: the `num_tasks > 1` branch of
    `_binary_auroc_compute_jit` (`cum_tp[:, -1]`, 2-d tensors), which stays with the differential run (`binaryAurocTasks`). -/
theorem kernels_coverage :
    Gen.Curve.kernels.filterMap (fun k => k.reason?.map fun r => (k.name, r)) = [] ∧
      Gen.Curve.partials = [("binary_auroc_compute_jit", ["multi-dimensional index (:, -1)"])] := by
  kernel_proof "kernels_coverage: a kernel of C05 left the translator's grammar" => decide

/-! ## 1. `_riemann_integral` (tensor_utils.py), the integral under the precision-recall curve -/

/-- `-sum((x[1:] - x[:-1]) * y[:-1])` = `riemann x y`, for `x` and `y` of one length. -/
theorem k_riemann_integral_eq (xs ys : List Q) (h : xs.length = ys.length) :
    TX.eval [("x", vecQ xs), ("y", vecQ ys)] Gen.Curve.k_riemann_integral = .ok (scalarQ (Curve.riemann xs ys)) := by
  have hr := riemannSum_eq xs ys h
  obtain ⟨R, h1, h2, h3⟩ := exists_rows3 (xs.drop 1) xs.dropLast ys.dropLast (by simp) (by simp [h])
  rw [h1, h2, h3] at hr
  kernel_proof "k_riemann_integral_eq: the generated term of _riemann_integral no longer evaluates to the model riemann" =>
    unfold Gen.Curve.k_riemann_integral
    tx_eval [vecOp, ← List.map_drop, ← List.map_dropLast, h1, h2, h3]
    simp only [xneg, Curve.riemann, hr, List.zipWith_map, List.zipWith_self]

example : ([0, 1/2, 1] : List Q).length = ([1, 1/2, 1/4] : List Q).length := by decide

/-! ## 2. the binary precision-recall curve: `_compute_for_each_class` (TorchScript) and its caller

  `input.sort(descending=True)` is a stable merge sort here (torch leaves the order of tied scores unspecified; the
  curve does not depend on it: `TE.C05.prCurve_any_sort`), `target[indices]` a gather, the tie mask `F.pad(diff != 0)`,
  cumulative TP / FP at the last element of every tie group, flips, the appended `(1, 0)` point, `nan_to_num(1.0)`. -/

/-- output of the kernel: `(precision, recall, thresholds)` -/
def prcVal (c : Curve.PRC) : Val := .pair (.vec c.precision) (.pair (.vec c.recall) (vecQ c.thresholds))

/-- `_compute_for_each_class(input, target, 1)` on a non-empty input of one length = `binaryPrCurve`. -/
theorem k_compute_for_each_class_eq (xs ts : List Q) (h : xs.length = ts.length) (hne : xs ≠ []) :
    TX.eval [("input", vecQ xs), ("target", vecQ ts), ("pos_label", .int 1)] Gen.Curve.k_compute_for_each_class
      = (Curve.binaryPrCurve xs ts).map prcVal := by
  have hg := gatherRow_sorted ts (sortedIdx xs) (fun p hp => h ▸ mem_sortedIdx_lt xs p hp)
  have hP : sortedIdx xs ≠ [] := by
    intro e
    have := congrArg List.length e
    simp [sortedIdx] at this
    exact hne this
  have hm := diffMask_val ((sortedIdx xs).map (·.1)) (by simpa using hP)
  simp only [List.map_map, Function.comp_def] at hm
  kernel_proof "k_compute_for_each_class_eq: the generated term no longer evaluates to the model binaryPrCurve" =>
    unfold Gen.Curve.k_compute_for_each_class
    simp only [Curve.binaryPrCurve, sortDesc_posPts xs ts h, Curve.prCurveSorted, List.map_map, Function.comp_def]
    tx_eval [sortDescV, xargsortDesc_val, valIdx, fstV, sndV, gatherLastV, hg, vecOp, qcmp_eq, xcumsum_map, hm,
      diffMask_length, cumsum_length, maskSel_select, lastV_map]
    have hAB := select_length (Curve.diffMask ((sortedIdx xs).map (·.1)))
      (Curve.cumsum ((sortedIdx xs).map fun a => b2q (ts.getD a.2 0 == 1)))
      (Curve.cumsum ((sortedIdx xs).map fun a => 1 - b2q (ts.getD a.2 0 == 1))) (by simp [cumsum_length])
    generalize Curve.select (Curve.diffMask ((sortedIdx xs).map (·.1)))
      (Curve.cumsum ((sortedIdx xs).map fun a => b2q (ts.getD a.2 0 == 1))) = A at hAB ⊢
    generalize Curve.select (Curve.diffMask ((sortedIdx xs).map (·.1)))
      (Curve.cumsum ((sortedIdx xs).map fun a => 1 - b2q (ts.getD a.2 0 == 1))) = B at hAB ⊢
    obtain ⟨W, rfl, rfl⟩ := exists_rows2 A B hAB
    simp only [List.getLast?_map, List.map_map, Function.comp_def]
    cases hw : W.getLast? with
    | none =>
      simp only [Option.map_none, error_bind, scriptedE, Except.map]
    | some w =>
      simp only [Option.map_some]
      tx_eval [fullV_one, catV, firstV_vec, xnanTo_one, prcVal, select_map, List.zip_map', some_beq_nan]
      generalize hL : (W.map fun x => xdiv x.1 w.1).reverse ++ [XQ.val 0] = L
      cases hh : L.head? with
      | none => rw [← hL] at hh; simp at hh
      | some x =>
        simp only [ok_bind, Val.toTV, pure_eq_ok, tvMap, TV.toVal, truthT, xtruthy_b2q, b2x_eq]
        cases hx : xisNan x <;> simp [scriptedE, tvMap, TV.toVal, Val.toTV, vecQ, ok_bind, fstV, sndV]
        · intro e; subst e; exact absurd hx (by decide)
        · have e : x = XQ.nan := by cases x <;> first | rfl | (simp [xisNan] at hx)
          rw [if_pos e]
          exact List.map_congr_left (fun a _ => xnanTo_one a)

/-- an empty input: `num_tp[-1]` raises inside the TorchScript function. -/
theorem k_compute_for_each_class_empty :
    TX.eval [("input", vecQ []), ("target", vecQ []), ("pos_label", .int 1)] Gen.Curve.k_compute_for_each_class
      = (Curve.binaryPrCurve [] []).map prcVal := by
  kernel_proof "k_compute_for_each_class_empty: the generated term no longer evaluates to the model binaryPrCurve" =>
    unfold Gen.Curve.k_compute_for_each_class
    tx_eval [sortDescV, xargsortDesc, List.mergeSort_nil, List.zip_nil_left, List.map_nil, List.length_nil, List.range_zero,
      fstV, sndV, gatherLastV, gatherRow, idxList, seqE, vecOp, xdiff, xcumsumFrom, List.nil_append, List.length_cons,
      Nat.zero_ne_one, lastV, List.getLast?_nil, scriptedE, Curve.binaryPrCurve, Curve.posPts, Curve.sortDesc,
      Curve.prCurveSorted, Curve.diffMask, Curve.cumsum, Curve.cumsumFrom, Curve.select, Except.map, bind, Except.bind]

/-- `_binary_precision_recall_curve_compute` (the inlined kernel with `pos_label = 1`, re-packed) = `binaryPrCurve`. -/
theorem k_binary_precision_recall_curve_compute_eq (xs ts : List Q) (h : xs.length = ts.length) (hne : xs ≠ []) :
    TX.eval [("input", vecQ xs), ("target", vecQ ts)] Gen.Curve.k_binary_precision_recall_curve_compute
      = (Curve.binaryPrCurve xs ts).map prcVal := by
  have hg := gatherRow_sorted ts (sortedIdx xs) (fun p hp => h ▸ mem_sortedIdx_lt xs p hp)
  have hP : sortedIdx xs ≠ [] := by
    intro e
    have := congrArg List.length e
    simp [sortedIdx] at this
    exact hne this
  have hm := diffMask_val ((sortedIdx xs).map (·.1)) (by simpa using hP)
  simp only [List.map_map, Function.comp_def] at hm
  kernel_proof "k_binary_precision_recall_curve_compute_eq: the generated term no longer evaluates to the model binaryPrCurve" =>
    unfold Gen.Curve.k_binary_precision_recall_curve_compute
    simp only [Curve.binaryPrCurve, sortDesc_posPts xs ts h, Curve.prCurveSorted, List.map_map, Function.comp_def]
    tx_eval [sortDescV, xargsortDesc_val, valIdx, fstV, sndV, gatherLastV, hg, vecOp, qcmp_eq, xcumsum_map, hm,
      diffMask_length, cumsum_length, maskSel_select, lastV_map]
    have hAB := select_length (Curve.diffMask ((sortedIdx xs).map (·.1)))
      (Curve.cumsum ((sortedIdx xs).map fun a => b2q (ts.getD a.2 0 == 1)))
      (Curve.cumsum ((sortedIdx xs).map fun a => 1 - b2q (ts.getD a.2 0 == 1))) (by simp [cumsum_length])
    generalize Curve.select (Curve.diffMask ((sortedIdx xs).map (·.1)))
      (Curve.cumsum ((sortedIdx xs).map fun a => b2q (ts.getD a.2 0 == 1))) = A at hAB ⊢
    generalize Curve.select (Curve.diffMask ((sortedIdx xs).map (·.1)))
      (Curve.cumsum ((sortedIdx xs).map fun a => 1 - b2q (ts.getD a.2 0 == 1))) = B at hAB ⊢
    obtain ⟨W, rfl, rfl⟩ := exists_rows2 A B hAB
    simp only [List.getLast?_map, List.map_map, Function.comp_def]
    cases hw : W.getLast? with
    | none =>
      simp only [Option.map_none, error_bind, scriptedE, Except.map]
    | some w =>
      simp only [Option.map_some]
      tx_eval [fullV_one, catV, firstV_vec, xnanTo_one, prcVal, select_map, List.zip_map', some_beq_nan]
      generalize hL : (W.map fun x => xdiv x.1 w.1).reverse ++ [XQ.val 0] = L
      cases hh : L.head? with
      | none => rw [← hL] at hh; simp at hh
      | some x =>
        simp only [ok_bind, Val.toTV, pure_eq_ok, tvMap, TV.toVal, truthT, xtruthy_b2q, b2x_eq]
        cases hx : xisNan x <;> simp [scriptedE, tvMap, TV.toVal, Val.toTV, vecQ, ok_bind, fstV, sndV]
        · intro e; subst e; exact absurd hx (by decide)
        · have e : x = XQ.nan := by cases x <;> first | rfl | (simp [xisNan] at hx)
          rw [if_pos e]
          exact List.map_congr_left (fun a _ => xnanTo_one a)


/-! ## 3. `_binary_auroc_compute_jit` (TorchScript), one task

  descending sort, tie mask, `gather` of target (and weight), cumulative weighted TP / FP, `masked_scatter_` with the
  right-aligned mask `count >= arange(n, 0, -1)` (= `padLeft`), `factor = cum_tp[-1] * cum_fp[-1]`,
  `where(factor == 0, 0.5, trapz(cum_tp, cum_fp) / factor)`. -/

/-- `weight=None`, 1-d, non-empty: every sample has weight `1`. -/
theorem k_binary_auroc_none (xs ts : List Q) (h : xs.length = ts.length) (hne : xs ≠ []) :
    TX.eval [("input", vecQ xs), ("target", vecQ ts), ("weight", .none)] Gen.Curve.k_binary_auroc_compute_jit
      = (Curve.binaryAuroc xs ts (ts.map fun _ => 1)).map scalarQ := by
  have hg := gatherRow_sorted ts (sortedIdx xs) (fun p hp => h ▸ mem_sortedIdx_lt xs p hp)
  have hP : sortedIdx xs ≠ [] := by
    intro e
    have := congrArg List.length e
    simp [sortedIdx] at this
    exact hne this
  have hm := diffMask_val ((sortedIdx xs).map (·.1)) (by simpa using hP)
  simp only [List.map_map, Function.comp_def] at hm
  have hsA := scatter_padLeft (Curve.diffMask ((sortedIdx xs).map (·.1)))
    (Curve.cumsum ((sortedIdx xs).map fun a => 1 * ts.getD a.2 0)) (by simp [cumsum_length, diffMask_length])
  have hsB := scatter_padLeft (Curve.diffMask ((sortedIdx xs).map (·.1)))
    (Curve.cumsum ((sortedIdx xs).map fun a => 1 * (1 - ts.getD a.2 0))) (by simp [cumsum_length, diffMask_length])
  simp only [cumsum_length, List.length_map] at hsA hsB
  kernel_proof "k_binary_auroc_none: the generated term of _binary_auroc_compute_jit no longer evaluates to the model binaryAuroc" =>
    unfold Gen.Curve.k_binary_auroc_compute_jit
    simp only [Curve.binaryAuroc, Curve.aurocCore, sortDesc_binPts_ones xs ts h, Curve.aurocSorted, List.map_map, Function.comp_def,
      List.length_map]
    by_cases hn1 : (sortedIdx xs).length = 1
    · simp only [hn1, List.range_one, List.map_cons, List.map_nil, List.replicate_one] at hsA hsB
      have hlen := padLeft_length_eq 1 _ _ (select_length (Curve.diffMask ((sortedIdx xs).map (·.1)))
        (Curve.cumsum ((sortedIdx xs).map fun a => 1 * ts.getD a.2 0))
        (Curve.cumsum ((sortedIdx xs).map fun a => 1 * (1 - ts.getD a.2 0))) (by simp [cumsum_length]))
      tx_eval [sortDescV, xargsortDesc_val, valIdx, fstV, sndV, gatherLastV, hg, vecOp, qcmp_eq, xcumsum_map, hm,
        diffMask_length, cumsum_length, maskSel_select, isNoneV, ndimV, pyCmpV, sizeLastV, arangeDownV_nat, zerosLikeV,
        qcmp_ge_le, qsum_map_b2q, List.map_const', maskedScatterV, List.length_replicate, List.length_range,
        List.length_cons, List.length_nil, hn1, List.range_one, List.map_cons, List.map_nil, List.replicate_one,
        List.zipWith_cons_cons, List.zipWith_nil_left, hsA, hsB]
      generalize Curve.padLeft _ (Curve.select (Curve.diffMask ((sortedIdx xs).map (·.1)))
        (Curve.cumsum ((sortedIdx xs).map fun a => 1 * ts.getD a.2 0))) = CT at hlen ⊢
      generalize Curve.padLeft _ (Curve.select (Curve.diffMask ((sortedIdx xs).map (·.1)))
        (Curve.cumsum ((sortedIdx xs).map fun a => 1 * (1 - ts.getD a.2 0)))) = CF at hlen ⊢
      simp only [lastV_map]
      cases hct : CT.getLast? with
      | none => simp [scriptedE, qcmp, error_bind, ok_bind]; rfl
      | some tp =>
        cases hcf : CF.getLast? with
        | none => simp [scriptedE, qcmp, error_bind, ok_bind]; rfl
        | some fp =>
          tx_eval [qcmp, whereTV, trapzV, hlen, xtrapz_val, trapz_swap, scriptedE, Except.map]
          by_cases hf : tp * fp = 0 <;> simp [hf, xdiv]
    · have hn1' : ¬ (1 = (sortedIdx xs).length) := fun e => hn1 e.symm
      have hlen := padLeft_length_eq (sortedIdx xs).length _ _ (select_length (Curve.diffMask ((sortedIdx xs).map (·.1)))
        (Curve.cumsum ((sortedIdx xs).map fun a => 1 * ts.getD a.2 0))
        (Curve.cumsum ((sortedIdx xs).map fun a => 1 * (1 - ts.getD a.2 0))) (by simp [cumsum_length]))
      tx_eval [sortDescV, xargsortDesc_val, valIdx, fstV, sndV, gatherLastV, hg, vecOp, qcmp_eq, xcumsum_map, hm,
        diffMask_length, cumsum_length, maskSel_select, isNoneV, ndimV, pyCmpV, sizeLastV, arangeDownV_nat, zerosLikeV,
        qcmp_ge_le, qsum_map_b2q, List.map_const', maskedScatterV, List.length_replicate, List.length_range,
        List.length_cons, List.length_nil, hn1', hsA, hsB]
      generalize Curve.padLeft _ (Curve.select (Curve.diffMask ((sortedIdx xs).map (·.1)))
        (Curve.cumsum ((sortedIdx xs).map fun a => 1 * ts.getD a.2 0))) = CT at hlen ⊢
      generalize Curve.padLeft _ (Curve.select (Curve.diffMask ((sortedIdx xs).map (·.1)))
        (Curve.cumsum ((sortedIdx xs).map fun a => 1 * (1 - ts.getD a.2 0)))) = CF at hlen ⊢
      simp only [lastV_map]
      cases hct : CT.getLast? with
      | none => simp [scriptedE, qcmp, error_bind, ok_bind]; rfl
      | some tp =>
        cases hcf : CF.getLast? with
        | none => simp [scriptedE, qcmp, error_bind, ok_bind]; rfl
        | some fp =>
          tx_eval [qcmp, whereTV, trapzV, hlen, xtrapz_val, trapz_swap, scriptedE, Except.map]
          by_cases hf : tp * fp = 0 <;> simp [hf, xdiv]

/-- with per-sample weights. -/
theorem k_binary_auroc_weighted (xs ts ws : List Q) (h : xs.length = ts.length) (hw : ts.length = ws.length)
    (hne : xs ≠ []) :
    TX.eval [("input", vecQ xs), ("target", vecQ ts), ("weight", vecQ ws)] Gen.Curve.k_binary_auroc_compute_jit
      = (Curve.binaryAuroc xs ts ws).map scalarQ := by
  have hgw := gatherRow_sorted ws (sortedIdx xs) (fun p hp => hw ▸ h ▸ mem_sortedIdx_lt xs p hp)
  have hg := gatherRow_sorted ts (sortedIdx xs) (fun p hp => h ▸ mem_sortedIdx_lt xs p hp)
  have hP : sortedIdx xs ≠ [] := by
    intro e
    have := congrArg List.length e
    simp [sortedIdx] at this
    exact hne this
  have hm := diffMask_val ((sortedIdx xs).map (·.1)) (by simpa using hP)
  simp only [List.map_map, Function.comp_def] at hm
  have hsA := scatter_padLeft (Curve.diffMask ((sortedIdx xs).map (·.1)))
    (Curve.cumsum ((sortedIdx xs).map fun a => ws.getD a.2 0 * ts.getD a.2 0)) (by simp [cumsum_length, diffMask_length])
  have hsB := scatter_padLeft (Curve.diffMask ((sortedIdx xs).map (·.1)))
    (Curve.cumsum ((sortedIdx xs).map fun a => ws.getD a.2 0 * (1 - ts.getD a.2 0))) (by simp [cumsum_length, diffMask_length])
  simp only [cumsum_length, List.length_map] at hsA hsB
  kernel_proof "k_binary_auroc_weighted: the generated term of _binary_auroc_compute_jit no longer evaluates to the model binaryAuroc" =>
    unfold Gen.Curve.k_binary_auroc_compute_jit
    simp only [Curve.binaryAuroc, Curve.aurocCore, sortDesc_binPts xs ts ws h hw, Curve.aurocSorted, List.map_map, Function.comp_def,
      List.length_map]
    by_cases hn1 : (sortedIdx xs).length = 1
    · simp only [hn1, List.range_one, List.map_cons, List.map_nil, List.replicate_one] at hsA hsB
      have hlen := padLeft_length_eq 1 _ _ (select_length (Curve.diffMask ((sortedIdx xs).map (·.1)))
        (Curve.cumsum ((sortedIdx xs).map fun a => ws.getD a.2 0 * ts.getD a.2 0))
        (Curve.cumsum ((sortedIdx xs).map fun a => ws.getD a.2 0 * (1 - ts.getD a.2 0))) (by simp [cumsum_length]))
      tx_eval [sortDescV, xargsortDesc_val, valIdx, fstV, sndV, gatherLastV, hg, hgw, vecOp, qcmp_eq, xcumsum_map, hm,
        diffMask_length, cumsum_length, maskSel_select, isNoneV, ndimV, pyCmpV, sizeLastV, arangeDownV_nat, zerosLikeV,
        qcmp_ge_le, qsum_map_b2q, List.map_const', maskedScatterV, List.length_replicate, List.length_range,
        List.length_cons, List.length_nil, hn1, List.range_one, List.map_cons, List.map_nil, List.replicate_one,
        List.zipWith_cons_cons, List.zipWith_nil_left, hsA, hsB]
      generalize Curve.padLeft _ (Curve.select (Curve.diffMask ((sortedIdx xs).map (·.1)))
        (Curve.cumsum ((sortedIdx xs).map fun a => ws.getD a.2 0 * ts.getD a.2 0))) = CT at hlen ⊢
      generalize Curve.padLeft _ (Curve.select (Curve.diffMask ((sortedIdx xs).map (·.1)))
        (Curve.cumsum ((sortedIdx xs).map fun a => ws.getD a.2 0 * (1 - ts.getD a.2 0)))) = CF at hlen ⊢
      simp only [lastV_map]
      cases hct : CT.getLast? with
      | none => simp [scriptedE, qcmp, error_bind, ok_bind]; rfl
      | some tp =>
        cases hcf : CF.getLast? with
        | none => simp [scriptedE, qcmp, error_bind, ok_bind]; rfl
        | some fp =>
          tx_eval [qcmp, whereTV, trapzV, hlen, xtrapz_val, trapz_swap, scriptedE, Except.map]
          by_cases hf : tp * fp = 0 <;> simp [hf, xdiv]
    · have hn1' : ¬ (1 = (sortedIdx xs).length) := fun e => hn1 e.symm
      have hlen := padLeft_length_eq (sortedIdx xs).length _ _ (select_length (Curve.diffMask ((sortedIdx xs).map (·.1)))
        (Curve.cumsum ((sortedIdx xs).map fun a => ws.getD a.2 0 * ts.getD a.2 0))
        (Curve.cumsum ((sortedIdx xs).map fun a => ws.getD a.2 0 * (1 - ts.getD a.2 0))) (by simp [cumsum_length]))
      tx_eval [sortDescV, xargsortDesc_val, valIdx, fstV, sndV, gatherLastV, hg, hgw, vecOp, qcmp_eq, xcumsum_map, hm,
        diffMask_length, cumsum_length, maskSel_select, isNoneV, ndimV, pyCmpV, sizeLastV, arangeDownV_nat, zerosLikeV,
        qcmp_ge_le, qsum_map_b2q, List.map_const', maskedScatterV, List.length_replicate, List.length_range,
        List.length_cons, List.length_nil, hn1', hsA, hsB]
      generalize Curve.padLeft _ (Curve.select (Curve.diffMask ((sortedIdx xs).map (·.1)))
        (Curve.cumsum ((sortedIdx xs).map fun a => ws.getD a.2 0 * ts.getD a.2 0))) = CT at hlen ⊢
      generalize Curve.padLeft _ (Curve.select (Curve.diffMask ((sortedIdx xs).map (·.1)))
        (Curve.cumsum ((sortedIdx xs).map fun a => ws.getD a.2 0 * (1 - ts.getD a.2 0)))) = CF at hlen ⊢
      simp only [lastV_map]
      cases hct : CT.getLast? with
      | none => simp [scriptedE, qcmp, error_bind, ok_bind]; rfl
      | some tp =>
        cases hcf : CF.getLast? with
        | none => simp [scriptedE, qcmp, error_bind, ok_bind]; rfl
        | some fp =>
          tx_eval [qcmp, whereTV, trapzV, hlen, xtrapz_val, trapz_swap, scriptedE, Except.map]
          by_cases hf : tp * fp = 0 <;> simp [hf, xdiv]


example : ([1/2, 1/4, 1/2] : List Q).length = ([1, 0, 0] : List Q).length ∧ ([1/2, 1/4, 1/2] : List Q) ≠ [] := by decide

/-! ## 4. `_binary_auprc_compute` (auprc.py), one task

  `p, r, t = _compute_for_each_class(input, target, 1); return _riemann_integral(r, p)`: the two helpers live in other
  modules, so the generated term REFERS to their generated terms (`.call3 … k_compute_for_each_class`,
  `.call2 … k_riemann_integral`: arguments evaluated here, the callee on exactly its parameters) and this theorem is the
  composition of `k_compute_for_each_class_eq`, `TE.C05.prCurve_model_eq_spec` (the curve has no NaN and its precision and
  recall have one length) and `k_riemann_integral_eq`.  The `for i in range(num_tasks)` branch — a Python-level loop that
  collects one 0-d tensor per task — is `.mapRange (.var "num_tasks") "$i0" body` with `input[i, :]` = `.rowDyn`. -/

/-- `_binary_auprc_compute(input, target, 1)` on a non-empty 1-d input of one length = `binaryAuprc`. -/
theorem k_binary_auprc_compute_one (xs ts : List Q) (h : xs.length = ts.length) (hne : xs ≠ []) :
    TX.eval [("input", vecQ xs), ("target", vecQ ts), ("num_tasks", .int 1)] Gen.Curve.k_binary_auprc_compute
      = (Curve.binaryAuprc xs ts).map .scalar := by
  have hls : Spec.Curve.posLS xs ts ≠ [] := by
    cases xs with
    | nil => exact absurd rfl hne
    | cons x xs' =>
      cases ts with
      | nil => simp at h
      | cons t ts' => simp [Spec.Curve.posLS]
  have hc := k_compute_for_each_class_eq xs ts h hne
  rw [TE.C05.prCurve_model_eq_spec xs ts hls] at hc
  have hlen : (Spec.Curve.prCurve (Spec.Curve.posLS xs ts)).recall.length
      = (Spec.Curve.prCurve (Spec.Curve.posLS xs ts)).precision.length := by
    simp [Spec.Curve.prCurve]
  have hr := k_riemann_integral_eq _ _ hlen
  simp only [vecQ, Except.map, prcVal] at hc hr
  kernel_proof "k_binary_auprc_compute_one: the generated term of _binary_auprc_compute no longer evaluates to the model binaryAuprc" =>
    unfold Gen.Curve.k_binary_auprc_compute
    tx_eval [hc, hr, fstV, sndV, Curve.binaryAuprc, TE.C05.prCurve_model_eq_spec xs ts hls, Curve.auprcOf,
      TE.CurveL.allQ?_map_val, Except.map, bind, Except.bind]

/-- one task: the curve of the (referenced) `k_compute_for_each_class` on the values of the argument terms, then the
    (referenced) `k_riemann_integral` of (recall, precision) = `binaryAuprc` -/
theorem k_binary_auprc_row (xs ts : List Q) (h : xs.length = ts.length) (hne : xs ≠ []) (env : Env)
    (a b : TExpr) (ha : TX.eval env a = .ok (vecQ xs)) (hb : TX.eval env b = .ok (vecQ ts)) :
    TX.eval env (auprcTerm Gen.Curve.k_compute_for_each_class Gen.Curve.k_riemann_integral a b)
      = (Curve.binaryAuprc xs ts).map .scalar := by
  unfold auprcTerm
  have hls : Spec.Curve.posLS xs ts ≠ [] := by
    cases xs with
    | nil => exact absurd rfl hne
    | cons x xs' =>
      cases ts with
      | nil => simp at h
      | cons t ts' => simp [Spec.Curve.posLS]
  have hc := k_compute_for_each_class_eq xs ts h hne
  rw [TE.C05.prCurve_model_eq_spec xs ts hls] at hc
  have hlen : (Spec.Curve.prCurve (Spec.Curve.posLS xs ts)).recall.length
      = (Spec.Curve.prCurve (Spec.Curve.posLS xs ts)).precision.length := by
    simp [Spec.Curve.prCurve]
  have hr := k_riemann_integral_eq _ _ hlen
  simp only [Except.map, prcVal] at hc hr
  simp only [TX.eval, ha, hb, ok_bind, hc, fstV, sndV]
  simp only [vecQ] at hr
  simp only [hr, Curve.binaryAuprc, TE.C05.prCurve_model_eq_spec xs ts hls, Curve.auprcOf,
      TE.CurveL.allQ?_map_val, Except.map, bind, Except.bind, scalarQ]


/-- `num_tasks` rows (2-d input; also one row): `torch.tensor([auprc of row i for i in range(num_tasks)])` = `binaryAuprcTasks`
    = the definition's AUPRC of every row (`TE.C05.auprc_tasks_eq`); rows non-empty, scores and targets of one length. -/
theorem k_binary_auprc_compute_tasks (rows : List (List Q × List Q)) (h : ∀ r ∈ rows, r.1.length = r.2.length ∧ r.1 ≠ []) :
    TX.eval [("input", .mat (rows.map fun r => r.1.map XQ.val)), ("target", .mat (rows.map fun r => r.2.map XQ.val)),
        ("num_tasks", .int rows.length)] Gen.Curve.k_binary_auprc_compute
      = (Curve.binaryAuprcTasks rows).map .vec := by
  have hls : ∀ r ∈ rows, Spec.Curve.posLS r.1 r.2 ≠ [] := by
    intro r hr
    obtain ⟨h1, h2⟩ := h r hr
    rcases r with ⟨xs, ts⟩
    cases xs with
    | nil => exact absurd rfl h2
    | cons x xs' =>
      cases ts with
      | nil => simp at h1
      | cons t ts' => simp [Spec.Curve.posLS]
  rw [TE.C05.auprc_tasks_eq rows hls]
  kernel_proof "k_binary_auprc_compute_tasks: the generated term of _binary_auprc_compute no longer evaluates to the model binaryAuprcTasks" =>
    have hk : Gen.Curve.k_binary_auprc_compute = .ite (.pyAnd (.pyEq (.var "num_tasks") (.int 1)) (.pyEq (.ndim (.var "input")) (.int 1)))
        (auprcTerm Gen.Curve.k_compute_for_each_class Gen.Curve.k_riemann_integral (.var "input") (.var "target"))
        (.mapRange (.var "num_tasks") "$i0" (auprcTerm Gen.Curve.k_compute_for_each_class Gen.Curve.k_riemann_integral
          (.rowDyn (.var "input") (.var "$i0")) (.rowDyn (.var "target") (.var "$i0")))) := rfl
    rw [hk]
    have hrow : ∀ j ∈ List.range rows.length,
        TX.eval [("$i0", .int ((j : Nat) : Int)), ("input", .mat (rows.map fun r => r.1.map XQ.val)),
            ("target", .mat (rows.map fun r => r.2.map XQ.val)), ("num_tasks", .int rows.length)]
          (auprcTerm Gen.Curve.k_compute_for_each_class Gen.Curve.k_riemann_integral
            (.rowDyn (.var "input") (.var "$i0")) (.rowDyn (.var "target") (.var "$i0")))
          = .ok (.scalar (.val (Spec.Curve.auprc (Spec.Curve.posLS (rows.getD j ([], [])).1 (rows.getD j ([], [])).2)))) := by
      intro j hj
      have hj' : j < rows.length := List.mem_range.mp hj
      have hmem : rows.getD j ([], []) ∈ rows := by
        simp [List.getD_eq_getElem?_getD, hj']
      obtain ⟨h1, h2⟩ := h _ hmem
      rw [k_binary_auprc_row _ _ h1 h2, TE.C05.auprc_eq _ _ (hls _ hmem)]
      · rfl
      · simp only [TX.eval, List.lookup, String.reduceBEq, ok_bind]
        rw [rowDynV_nat _ _ (by simpa using hj')]
        simp [vecQ, List.getD_eq_getElem?_getD, hj']
      · simp only [TX.eval, List.lookup, String.reduceBEq, ok_bind]
        rw [rowDynV_nat _ _ (by simpa using hj')]
        simp [vecQ, List.getD_eq_getElem?_getD, hj']
    simp only [TX.eval, List.lookup, String.reduceBEq, ok_bind, ndimV, pyEqV, asBool, pure_eq_ok]
    have hcond : (if ((rows.length : Int) == 1) = true then (Except.ok (Val.bool ((2 : Int) == 1)) : Except Err Val)
        else Except.ok (Val.bool false)) = .ok (.bool false) := by
      split <;> rfl
    have h0 : (0 : Int) ≤ (rows.length : Int) := by omega
    simp only [hcond, ok_bind, Bool.false_eq_true, if_false, sizeOf?, h0, if_true, Int.toNat_natCast]
    rw [seqE_congr_ok _ _ _ hrow]
    simp only [ok_bind, collectV, List.map_map, Function.comp_def, Val.asElem, seqE_map_ok, pure_eq_ok, Except.map]
    rw [range_map_getD rows ([], []) (fun r => XQ.val (Spec.Curve.auprc (Spec.Curve.posLS r.1 r.2)))]

example : ∀ r ∈ [(([1/2, 1/4] : List Q), ([1, 0] : List Q)), ([1/2, 1/4], [0, 1])], r.1.length = r.2.length ∧ r.1 ≠ [] := by
  decide

/-- an empty 1-d input: `num_tp[-1]` raises inside `_compute_for_each_class`. -/
theorem k_binary_auprc_compute_empty :
    TX.eval [("input", vecQ []), ("target", vecQ []), ("num_tasks", .int 1)] Gen.Curve.k_binary_auprc_compute
      = (Curve.binaryAuprc [] []).map .scalar := by
  have hc := k_compute_for_each_class_empty
  rw [TE.C05.prCurve_empty] at hc
  simp only [vecQ, Except.map] at hc
  kernel_proof "k_binary_auprc_compute_empty: the generated term no longer evaluates to the model binaryAuprc" =>
    unfold Gen.Curve.k_binary_auprc_compute
    tx_eval [hc]
    simp only [Curve.binaryAuprc, TE.C05.prCurve_empty, bind, Except.bind, Except.map]

/-- the theorem is the definition's AUPRC: `Σₖ (rₖ − rₖ₊₁)·pₖ` over the points of the curve of the definition. -/
theorem k_binary_auprc_compute_one_textbook (xs ts : List Q) (h : xs.length = ts.length) (hne : xs ≠ []) :
    TX.eval [("input", vecQ xs), ("target", vecQ ts), ("num_tasks", .int 1)] Gen.Curve.k_binary_auprc_compute
      = .ok (scalarQ (Spec.Curve.auprc (Spec.Curve.posLS xs ts))) := by
  have hls : Spec.Curve.posLS xs ts ≠ [] := by
    cases xs with
    | nil => exact absurd rfl hne
    | cons x xs' =>
      cases ts with
      | nil => simp at h
      | cons t ts' => simp [Spec.Curve.posLS]
  rw [k_binary_auprc_compute_one xs ts h hne, TE.C05.auprc_eq xs ts hls]; rfl

example : ([1/2, 1/2, 1/4, 3/4] : List Q).length = ([1, 0, 1, 0] : List Q).length ∧ ([1/2, 1/2, 1/4, 3/4] : List Q) ≠ [] := by decide

/-! ## 5. recall at fixed precision: `_recall_at_precision` (TorchScript) and `_binary_recall_at_fixed_precision_compute`

  `torch.max(recall[precision >= min_precision])`, the appended pseudo-threshold `-1`, `torch.max(thresholds[recall == max_recall])`,
  `torch.abs`.  `torch.max` of an empty selection raises (`listMax`). -/

/-- output of the kernel: `(max_recall, |best_threshold|)` -/
def rapVal (r : XQ × XQ) : Val := .pair (.scalar r.1) (.scalar r.2)

/-- `_recall_at_precision(precision, recall, thresholds, min_precision)` on a curve of finite values (precision and recall
    of one length, one threshold less) = `recallAtPrecision`, errors of `torch.max` included. -/
theorem k_recall_at_precision_eq (P R T : List Q) (m : Q) (h1 : R.length = P.length) (h2 : T.length + 1 = R.length) :
    TX.eval [("precision", vecQ P), ("recall", vecQ R), ("thresholds", vecQ T), ("min_precision", .num m)]
        Gen.Curve.k_recall_at_precision
      = (Curve.recallAtPrecision ⟨P.map .val, R.map .val, T⟩ m).map rapVal := by
  obtain ⟨W, rfl, rfl⟩ := exists_rows2 R P h1
  obtain ⟨V, hV1, hV2⟩ := exists_rows2 (T ++ [-1]) (W.map (·.1)) (by simpa using h2)
  kernel_proof "k_recall_at_precision_eq: the generated term of _recall_at_precision no longer evaluates to the model recallAtPrecision" =>
    unfold Gen.Curve.k_recall_at_precision
    simp only [Curve.recallAtPrecision, TE.CurveL.allQ?_map_val, zip_fst_snd]
    tx_eval [qcmp_ge_le, maxAllV_map, catV, fullV_one_flt]
    generalize Curve.listMax _ = M
    cases M with
    | error e => rfl
    | ok mx =>
      have hcat : T.map XQ.val ++ [XQ.val (-1)] = (T ++ [-1]).map XQ.val := by simp
      simp only [map_ok, ok_bind, hcat]
      rw [hV1, hV2]
      tx_eval [xcmp_val, qcmp_eq, maxAllV_map, zip_fst_snd]
      have hlen : V.length = W.length := by simpa using (congrArg List.length hV2).symm
      have hmask : W.map (fun x => XQ.val (b2q (mx == x.fst))) = V.map (fun x => XQ.val (b2q (x.snd == mx))) := by
        have := congrArg (List.map fun a => XQ.val (b2q (a == mx))) hV2
        simp only [List.map_map, Function.comp_def] at this
        rw [← this]
        exact List.map_congr_left fun a _ => by rw [Bool.beq_comm]
      simp only [hmask, hlen, if_true, sel_same, ok_bind, maxAllV_map]
      generalize Curve.listMax _ = B
      cases B with
      | error e => rfl
      | ok b => rfl

example : ([1, 1/2, 1] : List Q).length = ([1/2, 1/3, 1] : List Q).length ∧ ([1/4, 1/2] : List Q).length + 1 = 3 := by decide

/-- `_binary_recall_at_fixed_precision_compute(input, target, min_precision)`: the curve of the (referenced) generated
    `_binary_precision_recall_curve_compute`, then the inlined `_recall_at_precision` = `binaryRecallAtPrecision`. -/
theorem k_binary_recall_at_fixed_precision_compute_eq (xs ts : List Q) (m : Q) (h : xs.length = ts.length) (hne : xs ≠ []) :
    TX.eval [("input", vecQ xs), ("target", vecQ ts), ("min_precision", .num m)]
        Gen.Curve.k_binary_recall_at_fixed_precision_compute
      = (Curve.binaryRecallAtPrecision xs ts m).map rapVal := by
  have hls : Spec.Curve.posLS xs ts ≠ [] := by
    cases xs with
    | nil => exact absurd rfl hne
    | cons x xs' =>
      cases ts with
      | nil => simp at h
      | cons t ts' => simp [Spec.Curve.posLS]
  have hc := k_binary_precision_recall_curve_compute_eq xs ts h hne
  rw [TE.C05.prCurve_model_eq_spec xs ts hls] at hc
  have h1 : (Spec.Curve.prCurve (Spec.Curve.posLS xs ts)).recall.length
      = (Spec.Curve.prCurve (Spec.Curve.posLS xs ts)).precision.length := by simp [Spec.Curve.prCurve]
  have h2 : (Spec.Curve.prCurve (Spec.Curve.posLS xs ts)).thresholds.length + 1
      = (Spec.Curve.prCurve (Spec.Curve.posLS xs ts)).recall.length := by simp [Spec.Curve.prCurve]
  simp only [Curve.binaryRecallAtPrecision, TE.C05.prCurve_model_eq_spec xs ts hls]
  generalize (Spec.Curve.prCurve (Spec.Curve.posLS xs ts)).precision = P at hc h1 h2 ⊢
  generalize (Spec.Curve.prCurve (Spec.Curve.posLS xs ts)).recall = R at hc h1 h2 ⊢
  generalize (Spec.Curve.prCurve (Spec.Curve.posLS xs ts)).thresholds = T at hc h1 h2 ⊢
  simp only [vecQ, Except.map, prcVal] at hc
  obtain ⟨W, rfl, rfl⟩ := exists_rows2 R P h1
  obtain ⟨V, hV1, hV2⟩ := exists_rows2 (T ++ [-1]) (W.map (·.1)) (by simpa using h2)
  kernel_proof "k_binary_recall_at_fixed_precision_compute_eq: the generated term no longer evaluates to the model binaryRecallAtPrecision" =>
    unfold Gen.Curve.k_binary_recall_at_fixed_precision_compute
    simp only [ok_bind, Curve.recallAtPrecision, TE.CurveL.allQ?_map_val, zip_fst_snd]
    tx_eval [hc, fstV, sndV, qcmp_ge_le, maxAllV_map, catV, fullV_one_flt]
    generalize Curve.listMax _ = M
    cases M with
    | error e => rfl
    | ok mx =>
      have hcat : T.map XQ.val ++ [XQ.val (-1)] = (T ++ [-1]).map XQ.val := by simp
      simp only [map_ok, ok_bind, hcat]
      rw [hV1, hV2]
      tx_eval [xcmp_val, qcmp_eq, maxAllV_map, zip_fst_snd]
      have hlen : V.length = W.length := by simpa using (congrArg List.length hV2).symm
      have hmask : W.map (fun x => XQ.val (b2q (x.fst == mx))) = V.map (fun x => XQ.val (b2q (x.snd == mx))) := by
        have := congrArg (List.map fun a => XQ.val (b2q (a == mx))) hV2
        simpa only [List.map_map, Function.comp_def] using this
      simp only [hmask, hlen, if_true, sel_same, ok_bind, maxAllV_map]
      generalize Curve.listMax _ = B
      cases B with
      | error e => rfl
      | ok b => rfl

/-- an empty input: the curve kernel raises. -/
theorem k_binary_recall_at_fixed_precision_compute_empty (m : Q) :
    TX.eval [("input", vecQ []), ("target", vecQ []), ("min_precision", .num m)]
        Gen.Curve.k_binary_recall_at_fixed_precision_compute
      = (Curve.binaryRecallAtPrecision [] [] m).map rapVal := by
  have hc : TX.eval [("input", vecQ []), ("target", vecQ [])] Gen.Curve.k_binary_precision_recall_curve_compute
      = .error .runtime := by
    unfold Gen.Curve.k_binary_precision_recall_curve_compute
    tx_eval [sortDescV, xargsortDesc, List.mergeSort_nil, List.zip_nil_left, List.map_nil, List.length_nil, List.range_zero,
      fstV, sndV, gatherLastV, gatherRow, idxList, seqE, vecOp, xdiff, xcumsumFrom, List.nil_append, List.length_cons,
      Nat.zero_ne_one, lastV, List.getLast?_nil, scriptedE, bind, Except.bind]
  simp only [vecQ] at hc
  kernel_proof "k_binary_recall_at_fixed_precision_compute_empty: the generated term no longer evaluates to the model binaryRecallAtPrecision" =>
    unfold Gen.Curve.k_binary_recall_at_fixed_precision_compute
    tx_eval [hc]
    simp only [Curve.binaryRecallAtPrecision, TE.C05.prCurve_empty, bind, Except.bind, Except.map]

/-- hence the definition: the largest recall among the curve points whose precision reaches the bound, and the absolute
    value of the largest threshold among the points of that recall (`TE.C05.recall_at_precision_eq`). -/
theorem k_binary_recall_at_fixed_precision_compute_textbook (xs ts : List Q) (m : Q) (h : xs.length = ts.length)
    (hne : xs ≠ []) (hp : m ≤ 1) :
    ∃ r t, TX.eval [("input", vecQ xs), ("target", vecQ ts), ("min_precision", .num m)]
          Gen.Curve.k_binary_recall_at_fixed_precision_compute = .ok (rapVal (.val r, .val (Curve.qabs t)))
      ∧ Spec.Curve.IsMaxRecall (Spec.Curve.prCurve (Spec.Curve.posLS xs ts)) m r
      ∧ Spec.Curve.IsBestThreshold (Spec.Curve.prCurve (Spec.Curve.posLS xs ts)) r t := by
  have hls : Spec.Curve.posLS xs ts ≠ [] := by
    cases xs with
    | nil => exact absurd rfl hne
    | cons x xs' =>
      cases ts with
      | nil => simp at h
      | cons t ts' => simp [Spec.Curve.posLS]
  obtain ⟨r, t, h1, h2, h3⟩ := TE.C05.recall_at_precision_eq xs ts m hls hp
  exact ⟨r, t, by rw [k_binary_recall_at_fixed_precision_compute_eq xs ts m h hne, h1]; rfl, h2, h3⟩

example : ([1/2, 1/2, 1/4, 3/4] : List Q).length = ([1, 0, 1, 0] : List Q).length ∧ ([1/2, 1/2, 1/4, 3/4] : List Q) ≠ []
    ∧ (1/2 : Q) ≤ 1 := by decide +kernel

end TE.C05K
