/-
  C04, tied to the SOURCE of the numeric kernels: for every kernel that harness/translators/kernels.py
  translates from /repo's working tree (TE/Gen/Kernels.lean, regenerated on every run), evaluating the
  GENERATED term on well-shaped arguments gives exactly the hand-written model of TE/Model/Count.lean — for
  all lengths, all rational scores, all thresholds / num_classes / k.  Together with the `model = counting
  spec` theorems of TE/Props/C04.lean (cited in the `_textbook` corollaries) the kernel as it is written NOW
  computes the textbook definition.  A change of a kernel changes its generated term and breaks its theorem
  here; the runner then searches for a failing input.

  ONLY property theorems and non-vacuity examples; helper lemmas are in TE/Lemmas/Kernels.lean.
  Proofs about generated terms are wrapped in `kernel_proof "<theorem>: …"` so that the build error names the
  theorem that no longer holds.
-/
import TE.Model.TExpr
import TE.Gen.Kernels
import TE.Lemmas.Kernels
import TE.Props.C04
namespace TE.C04K
open TE TE.TX TE.Count TE.Spec.Count TE.TXL TE.CountL
set_option linter.unusedSimpArgs false

/-! ## 0. coverage: which kernels are in the grammar -/

/-- the kernels the translator looks at, in table order. -/
theorem kernels_listed :
    Gen.kernels.map (·.name) =
      ["binary_accuracy_update", "binary_precision_update", "binary_recall_update", "binary_f1_score_update",
       "binary_confusion_matrix_update", "accuracy_compute", "multiclass_accuracy_update", "multilabel_update",
       "multilabel_accuracy_update", "topk_multilabel_accuracy_update", "precision_update", "precision_compute",
       "recall_update", "recall_compute", "binary_recall_compute", "f1_score__update", "f1_score_update",
       "f1_score_compute", "confusion_matrix__update", "confusion_matrix_update", "confusion_matrix_compute",
       "binary_confusion_matrix_compute"] := by
  kernel_proof "kernels_listed: the kernel table changed" => decide

/-- exactly one kernel is outside the grammar, for the stated reason (`torch.topk` leaves the order of tied
    scores unspecified: the model of that kernel is a relation, see TE/Model/Count.lean `topkIndicator`).  A kernel
    that silently falls out of the grammar breaks this theorem. -/
theorem kernels_coverage :
    Gen.kernels.filterMap (fun k => k.reason?.map fun r => (k.name, r)) =
      [("topk_multilabel_accuracy_update", "torch.topk (tie order unspecified)")] := by
  kernel_proof "kernels_coverage: a kernel left (or entered) the translator's grammar" => decide

/-! ## 1. the five binary `_update` kernels -/

/-- arguments of the binary update kernels: scores, targets, threshold. -/
def envBin (xs ys : List Q) (thr : Q) : Env :=
  [("input", vecQ xs), ("target", vecQ ys), ("threshold", .num thr)]

/-- `_binary_accuracy_update` as written = `binaryAccuracyUpdate`. -/
theorem k_binary_accuracy_update_eq (thr : Q) (xs ys : List Q) (h : xs.length = ys.length) :
    eval (envBin xs ys thr) Gen.k_binary_accuracy_update
      = .ok (.pair (scalarQ (binaryAccuracyUpdate thr xs ys).1) (scalarQ (binaryAccuracyUpdate thr xs ys).2)) := by
  kernel_proof "k_binary_accuracy_update_eq: the generated term of _binary_accuracy_update no longer evaluates to the model binaryAccuracyUpdate" =>
    unfold Gen.k_binary_accuracy_update envBin
    tx_eval [h]
    simp only [zipWith_zip_map, qsum_b2q, binaryAccuracyUpdate, qcount, qcmp, thrQ]

/-- … hence the number of samples whose thresholded score `[x ≥ thr]` equals the label, and the sample count. -/
theorem k_binary_accuracy_update_textbook (thr : Q) (xs : List Q) (ys : List Nat) (h : xs.length = ys.length) :
    eval (envBin xs (ys.map fun (y : Nat) => (y : Q)) thr) Gen.k_binary_accuracy_update
      = .ok (.pair (scalarQ (correct ((xs.map (binPred thr)).zip ys) : Nat)) (scalarQ (ys.length : Nat))) := by
  rw [k_binary_accuracy_update_eq thr xs _ (by simpa using h), (C04.binaryAccuracyUpdate_eq thr xs ys).1,
    (C04.binaryAccuracyUpdate_eq thr xs ys).2]

/-- `_binary_precision_update` as written = `binaryPrecisionUpdate` (third output: the constant `0.0`). -/
theorem k_binary_precision_update_eq (thr : Q) (xs ys : List Q) (h : xs.length = ys.length) :
    eval (envBin xs ys thr) Gen.k_binary_precision_update
      = .ok (.pair (scalarQ (binaryPrecisionUpdate thr xs ys).1)
          (.pair (scalarQ (binaryPrecisionUpdate thr xs ys).2) (scalarQ 0))) := by
  kernel_proof "k_binary_precision_update_eq: the generated term of _binary_precision_update no longer evaluates to the model binaryPrecisionUpdate" =>
    unfold Gen.k_binary_precision_update envBin
    tx_eval [h]
    simp only [zipWith_zip_map, binaryPrecisionUpdate, thrQ]
    rfl

theorem k_binary_precision_update_textbook (thr : Q) (xs : List Q) (ys : List Nat)
    (h : xs.length = ys.length) (h01 : ∀ y ∈ ys, y ≤ 1) :
    eval (envBin xs (ys.map fun (y : Nat) => (y : Q)) thr) Gen.k_binary_precision_update
      = .ok (.pair (scalarQ (tp ((xs.map (binPred thr)).zip ys) 1 : Nat))
          (.pair (scalarQ (fp ((xs.map (binPred thr)).zip ys) 1 : Nat)) (scalarQ 0))) := by
  rw [k_binary_precision_update_eq thr xs _ (by simpa using h), C04.binaryPrecisionUpdate_eq thr xs ys h h01]

/-- `_binary_recall_update` as written = `binaryRecallUpdate` (integer targets: `input & target`). -/
theorem k_binary_recall_update_eq (thr : Q) (xs : List Q) (ys : List Nat) (h : xs.length = ys.length) :
    eval [("input", vecQ xs), ("target", vecN ys), ("threshold", .num thr)] Gen.k_binary_recall_update
      = .ok (.pair (scalarQ (binaryRecallUpdate thr xs ys).1) (scalarQ (binaryRecallUpdate thr xs ys).2)) := by
  kernel_proof "k_binary_recall_update_eq: the generated term of _binary_recall_update no longer evaluates to the model binaryRecallUpdate" =>
    unfold Gen.k_binary_recall_update
    tx_eval [h]
    simp only [zipWith_zip_map, binaryRecallUpdate]

theorem k_binary_recall_update_textbook (thr : Q) (xs : List Q) (ys : List Nat)
    (h : xs.length = ys.length) (h01 : ∀ y ∈ ys, y ≤ 1) :
    eval [("input", vecQ xs), ("target", vecN ys), ("threshold", .num thr)] Gen.k_binary_recall_update
      = .ok (.pair (scalarQ (tp ((xs.map (binPred thr)).zip ys) 1 : Nat))
          (scalarQ (support ((xs.map (binPred thr)).zip ys) 1 : Nat))) := by
  rw [k_binary_recall_update_eq thr xs ys h, C04.binaryRecallUpdate_eq thr xs ys h h01]

/-- `_binary_f1_score_update` as written = `binaryF1Update`. -/
theorem k_binary_f1_score_update_eq (thr : Q) (xs ys : List Q) (h : xs.length = ys.length) :
    eval (envBin xs ys thr) Gen.k_binary_f1_score_update
      = .ok (.pair (scalarQ (binaryF1Update thr xs ys).1)
          (.pair (scalarQ (binaryF1Update thr xs ys).2.1) (scalarQ (binaryF1Update thr xs ys).2.2))) := by
  kernel_proof "k_binary_f1_score_update_eq: the generated term of _binary_f1_score_update no longer evaluates to the model binaryF1Update" =>
    unfold Gen.k_binary_f1_score_update envBin
    tx_eval [h]
    simp only [zipWith_zip_map, binaryF1Update, thrQ]
    rfl

theorem k_binary_f1_score_update_textbook (thr : Q) (xs : List Q) (ys : List Nat)
    (h : xs.length = ys.length) (h01 : ∀ y ∈ ys, y ≤ 1) :
    eval (envBin xs (ys.map fun (y : Nat) => (y : Q)) thr) Gen.k_binary_f1_score_update
      = .ok (.pair (scalarQ (tp ((xs.map (binPred thr)).zip ys) 1 : Nat))
          (.pair (scalarQ (support ((xs.map (binPred thr)).zip ys) 1 : Nat))
            (scalarQ (predicted ((xs.map (binPred thr)).zip ys) 1 : Nat)))) := by
  rw [k_binary_f1_score_update_eq thr xs _ (by simpa using h), C04.binaryF1Update_eq thr xs ys h h01]

/-- `_binary_confusion_matrix_update` as written (threshold, then the inlined COO accumulation of `_update`
    with `num_classes = 2`) = `confusionUpdate` on the thresholded predictions, errors included (a target
    outside `{0, 1}` is the `RuntimeError` of `sparse_coo_tensor`). -/
theorem k_binary_confusion_matrix_update_eq (thr : Q) (xs : List Q) (ys : List Nat) (h : xs.length = ys.length) :
    eval [("input", vecQ xs), ("target", vecN ys), ("threshold", .num thr)] Gen.k_binary_confusion_matrix_update
      = (confusionUpdate (xs.map (thresh thr)) ys 2).map matQ := by
  kernel_proof "k_binary_confusion_matrix_update_eq: the generated term of _binary_confusion_matrix_update no longer evaluates to the model confusionUpdate" =>
    unfold Gen.k_binary_confusion_matrix_update
    tx_eval
    simp only [thrQ]
    have := cooDenseV_nat ys xs ys (fun y => y) (thresh thr) 2 h.symm rfl
    simp only [List.map_id', Except.map, matQ, Int.cast_ofNat_Int] at this
    exact this

/-- … hence, for 0/1 targets, the 2×2 matrix of textbook confusion counts of the predictions `[x ≥ thr]`. -/
theorem k_binary_confusion_matrix_update_textbook (thr : Q) (xs : List Q) (ys : List Nat)
    (h : xs.length = ys.length) (h01 : ys.all (· < 2) = true) :
    eval [("input", vecQ xs), ("target", vecN ys), ("threshold", .num thr)] Gen.k_binary_confusion_matrix_update
      = .ok (matQ ((List.range 2).map fun t => (List.range 2).map fun p =>
          (confusion ((xs.map (binPred thr)).zip ys) t p : Q))) := by
  rw [k_binary_confusion_matrix_update_eq thr xs ys h]
  have hp : (xs.map (thresh thr)).all (· < 2) = true := by
    simp only [List.all_map, List.all_eq_true]
    intro x _
    simp only [Function.comp, thresh]
    split <;> decide
  rw [C04.confusionUpdate_eq _ _ 2 hp h01]
  rw [show thresh thr = binPred thr from funext (C04.thresh_eq_binPred thr)]
  rfl

example : ([1/4, 1/2, 3/4] : List Q).length = ([0, 1, 0] : List Nat).length ∧
    (∀ y ∈ ([0, 1, 0] : List Nat), y ≤ 1) ∧ ([0, 1, 0] : List Nat).all (· < 2) = true := by decide

/-! ## 2. `_accuracy_compute` -/

/-- `average="macro"`: the mean over the classes with support, as one 0-d tensor. -/
theorem k_accuracy_compute_macro (c t : List Q) (h : c.length = t.length) :
    ∃ x, accuracyCompute c t .macro = [x] ∧
      eval [("num_correct", vecQ c), ("num_total", vecQ t), ("average", avgVal .macro)] Gen.k_accuracy_compute
        = .ok (.scalar x) := by
  refine ⟨_, rfl, ?_⟩
  obtain ⟨R, rfl, rfl⟩ := exists_rows2 c t h
  kernel_proof "k_accuracy_compute_macro: the generated term of _accuracy_compute no longer evaluates to the model accuracyCompute (macro)" =>
    unfold Gen.k_accuracy_compute avgVal
    tx_eval
    simp only [qcmp_ne_zero]
    rw [map_filter_xdiv R _ _ _ (fun r hr => by simpa using hr), xmean_val]
    simp only [List.zip_map', Prod.eta, List.map_id']

/-- `average=None` (per class) and `"micro"` on vectors: elementwise `num_correct / num_total` (NaN at `0/0`). -/
theorem k_accuracy_compute_vec (c t : List Q) (avg : Avg) (havg : avg ≠ .macro) (h : c.length = t.length) :
    eval [("num_correct", vecQ c), ("num_total", vecQ t), ("average", avgVal avg)] Gen.k_accuracy_compute
      = .ok (.vec (accuracyCompute c t avg)) := by
  obtain ⟨R, rfl, rfl⟩ := exists_rows2 c t h
  kernel_proof "k_accuracy_compute_vec: the generated term of _accuracy_compute no longer evaluates to the model accuracyCompute (micro / None)" =>
    unfold Gen.k_accuracy_compute
    cases avg <;> first | exact absurd rfl havg | skip
    all_goals
      simp only [avgVal]
      tx_eval
      simp only [accuracyCompute, List.zip_map', List.map_map, Function.comp_def]

/-- `"micro"` as the classes call it: two 0-d tensors. -/
theorem k_accuracy_compute_scalar (c t : Q) (avg : Avg) (havg : avg ≠ .macro) :
    ∃ x, accuracyCompute [c] [t] avg = [x] ∧
      eval [("num_correct", scalarQ c), ("num_total", scalarQ t), ("average", avgVal avg)] Gen.k_accuracy_compute
        = .ok (.scalar x) := by
  kernel_proof "k_accuracy_compute_scalar: the generated term of _accuracy_compute no longer evaluates to the model accuracyCompute (0-d micro)" =>
    unfold Gen.k_accuracy_compute
    cases avg <;> first | exact absurd rfl havg | skip
    all_goals
      refine ⟨_, rfl, ?_⟩
      simp only [avgVal]
      tx_eval

/-- composed with the update's counting theorem: macro accuracy as written is the mean of `tp / support` over
    the classes with support. -/
theorem k_accuracy_compute_macro_textbook (ps : Pairs) (C : Nat) :
    eval [("num_correct", vecQ ((List.range C).map fun c => (tp ps c : Q))),
          ("num_total", vecQ ((List.range C).map fun c => (support ps c : Q))), ("average", avgVal .macro)]
        Gen.k_accuracy_compute
      = .ok (.scalar (meanX (((List.range C).filter fun c => support ps c != 0).map fun c =>
          (tp ps c : Q) / (support ps c : Q)))) := by
  obtain ⟨x, hx, he⟩ := k_accuracy_compute_macro ((List.range C).map fun c => (tp ps c : Q))
    ((List.range C).map fun c => (support ps c : Q)) (by simp)
  rw [he]
  rw [C04.accuracyCompute_macro_eq ps C] at hx
  injection hx with hx
  rw [hx]

example : ([1, 1, 0] : List Q).length = ([1, 2, 0] : List Q).length := rfl
example : Avg.none ≠ Avg.macro := by decide


/-! ## 3. `_multiclass_accuracy_update`

  `IsPred I preds`: the `input` argument `I` is a 1-d tensor of predicted labels `preds`, or a 2-d tensor of logits
  with non-empty rows whose first maximal indices are `preds`. -/

/-- `k = 1`, per-class averages: `scatter_` of the correctness mask and of ones = `mcAccFromMask` on the label
    mask — errors included (a target outside `[0, num_classes)` is the `RuntimeError` of `scatter_`). -/
theorem k_multiclass_accuracy_update_class (I : Val) (preds labs : List Nat) (avg : Avg) (C : Nat)
    (hI : IsPred I preds) (hlen : preds.length = labs.length) (havg : avg ≠ .micro) :
    eval [("input", I), ("target", vecN labs), ("average", avgVal avg), ("num_classes", .int C), ("k", .int 1)]
        Gen.k_multiclass_accuracy_update
      = (mcAccFromMask (mcMaskLabel preds labs) labs avg C).map accOut := by
  kernel_proof "k_multiclass_accuracy_update_class: the generated term of _multiclass_accuracy_update no longer evaluates to the model mcAccFromMask ∘ mcMaskLabel" =>
    unfold Gen.k_multiclass_accuracy_update
    cases hI with
    | labels =>
      obtain ⟨R, rfl, rfl⟩ := exists_rows2 preds labs hlen
      cases avg <;> first | exact absurd rfl havg | skip
      all_goals
        simp only [avgVal]
        tx_eval [scatterAddV_vec_same, scatterAddV_ones, qcmp_eq_natCast]
        simp only [mcAccFromMask, mcMaskLabel, List.zip_map', List.map_map, Function.comp_def]
        exact pack2 _ _
    | logits rows h =>
      have hlen' : rows.length = labs.length := by simpa using hlen
      obtain ⟨R, rfl, rfl⟩ := exists_rows2 rows labs hlen'
      cases avg <;> first | exact absurd rfl havg | skip
      all_goals
        simp only [avgVal]
        tx_eval [argmax1V_mat R (·.1) (fun x hx => h _ (List.mem_map_of_mem hx)), scatterAddV_vec_same,
          scatterAddV_ones, qcmp_eq_natCast]
        simp only [mcAccFromMask, mcMaskLabel, List.zip_map', List.map_map, Function.comp_def]
        exact pack2 _ _

/-- `k = 1`, `average="micro"`: two 0-d tensors. -/
theorem k_multiclass_accuracy_update_micro (I : Val) (preds labs : List Nat) (C : Nat)
    (hI : IsPred I preds) (hlen : preds.length = labs.length) :
    ∃ a b, mcAccFromMask (mcMaskLabel preds labs) labs .micro C = .ok ([a], [b]) ∧
      eval [("input", I), ("target", vecN labs), ("average", avgVal .micro), ("num_classes", .int C), ("k", .int 1)]
          Gen.k_multiclass_accuracy_update
        = .ok (.pair (scalarQ a) (scalarQ b)) := by
  refine ⟨_, _, rfl, ?_⟩
  kernel_proof "k_multiclass_accuracy_update_micro: the generated term of _multiclass_accuracy_update no longer evaluates to the model mcAccFromMask ∘ mcMaskLabel (micro)" =>
    unfold Gen.k_multiclass_accuracy_update
    cases hI with
    | labels =>
      obtain ⟨R, rfl, rfl⟩ := exists_rows2 preds labs hlen
      simp only [avgVal]
      tx_eval [qcmp_eq_natCast]
      simp only [mcMaskLabel, List.zip_map', List.map_map, Function.comp_def]
      try rfl
    | logits rows h =>
      have hlen' : rows.length = labs.length := by simpa using hlen
      obtain ⟨R, rfl, rfl⟩ := exists_rows2 rows labs hlen'
      simp only [avgVal]
      tx_eval [argmax1V_mat R (·.1) (fun x hx => h _ (List.mem_map_of_mem hx)), qcmp_eq_natCast]
      simp only [mcMaskLabel, List.zip_map', List.map_map, Function.comp_def]
      try rfl

/-- `k > 1` (any `k ≠ 1`), per-class averages: gather the true class' score, rank by strictly greater scores,
    `rank < k` = `mcMaskTopk`; every label must address a column of its row (`torch.gather` raises otherwise). -/
theorem k_multiclass_accuracy_update_topk_class (rows : List (List Q)) (labs : List Nat) (avg : Avg) (C k : Nat)
    (hlen : rows.length = labs.length) (hk : k ≠ 1) (hin : ∀ p ∈ rows.zip labs, p.2 < p.1.length)
    (havg : avg ≠ .micro) :
    eval [("input", matQ rows), ("target", vecN labs), ("average", avgVal avg), ("num_classes", .int C), ("k", .int k)]
        Gen.k_multiclass_accuracy_update
      = (mcAccFromMask (mcMaskTopk rows labs k) labs avg C).map accOut := by
  obtain ⟨R, rfl, rfl⟩ := exists_rows2 rows labs hlen
  have hk' : ((k : Int) == 1) = false := by simp; omega
  have hin' : ∀ r ∈ R, r.2 < r.1.length := fun r hr => hin r (by simpa [List.zip_map'] using hr)
  kernel_proof "k_multiclass_accuracy_update_topk_class: the generated term of _multiclass_accuracy_update no longer evaluates to the model mcAccFromMask ∘ mcMaskTopk" =>
    unfold Gen.k_multiclass_accuracy_update
    cases avg <;> first | exact absurd rfl havg | skip
    all_goals
      simp only [avgVal]
      tx_eval [hk', gatherLastV_rows R (·.1) (·.2) hin', bzipM_rows_single, qcmp_gt, qsum_b2q, qcmp_lt_natCast,
        scatterAddV_vec_same, scatterAddV_ones]
      simp only [mcAccFromMask, mcMaskTopk, rankOf, List.zip_map', List.map_map, Function.comp_def]
      exact pack2 _ _

/-- `k > 1`, `average="micro"`. -/
theorem k_multiclass_accuracy_update_topk_micro (rows : List (List Q)) (labs : List Nat) (C k : Nat)
    (hlen : rows.length = labs.length) (hk : k ≠ 1) (hin : ∀ p ∈ rows.zip labs, p.2 < p.1.length) :
    ∃ a b, mcAccFromMask (mcMaskTopk rows labs k) labs .micro C = .ok ([a], [b]) ∧
      eval [("input", matQ rows), ("target", vecN labs), ("average", avgVal .micro), ("num_classes", .int C), ("k", .int k)]
          Gen.k_multiclass_accuracy_update
        = .ok (.pair (scalarQ a) (scalarQ b)) := by
  refine ⟨_, _, rfl, ?_⟩
  obtain ⟨R, rfl, rfl⟩ := exists_rows2 rows labs hlen
  have hk' : ((k : Int) == 1) = false := by simp; omega
  have hin' : ∀ r ∈ R, r.2 < r.1.length := fun r hr => hin r (by simpa [List.zip_map'] using hr)
  kernel_proof "k_multiclass_accuracy_update_topk_micro: the generated term of _multiclass_accuracy_update no longer evaluates to the model mcAccFromMask ∘ mcMaskTopk (micro)" =>
    unfold Gen.k_multiclass_accuracy_update
    simp only [avgVal]
    tx_eval [hk', gatherLastV_rows R (·.1) (·.2) hin', bzipM_rows_single, qcmp_gt, qsum_b2q, qcmp_lt_natCast]
    simp only [mcMaskTopk, rankOf, List.zip_map', List.map_map, Function.comp_def, qsum_b2q]
    try rfl

/-- composed with `TE.C04.mcMaskTopk_eq`: the top-k mask as written marks exactly the top-k-correct samples
    (fewer than `k` classes score strictly higher than the true class — ties in favour of the sample). -/
theorem k_multiclass_accuracy_update_topk_textbook (rows : List (List Q)) (labs : List Nat) (C k : Nat)
    (hlen : rows.length = labs.length) (hk : k ≠ 1) (hin : ∀ p ∈ rows.zip labs, p.2 < p.1.length) :
    eval [("input", matQ rows), ("target", vecN labs), ("average", avgVal .micro), ("num_classes", .int C), ("k", .int k)]
        Gen.k_multiclass_accuracy_update
      = .ok (.pair (scalarQ (((rows.zip labs).countP fun p => topkCorrect p.1 p.2 k : Nat) : Q))
          (scalarQ (labs.length : Nat))) := by
  obtain ⟨a, b, hm, he⟩ := k_multiclass_accuracy_update_topk_micro rows labs C k hlen hk hin
  rw [C04.mcAccFromMask_topk_micro_eq] at hm
  injection hm with hm
  injection hm with h1 h2
  injection h1 with h1
  injection h2 with h2
  rw [he, ← h1, ← h2]

example : ([[1, 3, 2], [5, 4, 6]] : List (List Q)).length = ([2, 1] : List Nat).length ∧ (2 : Nat) ≠ 1 ∧
    ∀ p ∈ ([[1, 3, 2], [5, 4, 6]] : List (List Q)).zip ([2, 1] : List Nat), p.2 < p.1.length := by decide
example : IsPred (vecN [0, 2, 1]) [0, 2, 1] := .labels _
example : IsPred (matQ [[1, 3, 2], [5, 4, 6]]) ([[1, 3, 2], [5, 4, 6]].map argmaxFirst) := .logits _ (by decide)

/-! ## 4. `_precision_update`, `_recall_update`, f1 `_update` / `_f1_score_update` -/

/-- per-class averages (`macro`, `weighted`, `None`): three `scatter_`s of ones over the labels, over the labels of the correct samples and over the predictions of the wrong samples = `precisionUpdate` — errors included. -/
theorem k_precision_update_class (I : Val) (preds labs : List Nat) (avg : Avg) (C : Nat) (hI : IsPred I preds)
    (hlen : preds.length = labs.length) (havg : avg ≠ .micro) :
    eval [("input", I), ("target", vecN labs), ("num_classes", .int C), ("average", avgVal avg)] Gen.k_precision_update
      = (precisionUpdate preds labs avg C).map prfOut := by
  kernel_proof "k_precision_update_class: the generated term of _precision_update no longer evaluates to the model precisionUpdate (per-class states)" =>
    unfold Gen.k_precision_update
    cases hI with
    | labels =>
      obtain ⟨R, rfl, rfl⟩ := exists_rows2 preds labs hlen
      cases avg <;> first | exact absurd rfl havg | skip
      all_goals
        simp only [avgVal]
        tx_eval [scatterAddV_ones, qcmp_eq_natCast, qcmp_ne_natCast]
        simp only [precisionUpdate, scatterOnes, List.zip_map', List.map_map, List.filter_map, Function.comp_def]
        exact pack3_cab _ _ _ (scatterAdd_okRt _ _ _) (scatterAdd_okRt _ _ _) (scatterAdd_okRt _ _ _)
    | logits rows h =>
      have hlen' : rows.length = labs.length := by simpa using hlen
      obtain ⟨R, rfl, rfl⟩ := exists_rows2 rows labs hlen'
      cases avg <;> first | exact absurd rfl havg | skip
      all_goals
        simp only [avgVal]
        tx_eval [argmax1V_mat R (·.1) (fun x hx => h _ (List.mem_map_of_mem hx)), scatterAddV_ones, qcmp_eq_natCast,
          qcmp_ne_natCast]
        simp only [precisionUpdate, scatterOnes, List.zip_map', List.map_map, List.filter_map, Function.comp_def]
        exact pack3_cab _ _ _ (scatterAdd_okRt _ _ _) (scatterAdd_okRt _ _ _) (scatterAdd_okRt _ _ _)

/-- `average=micro`: `(#correct, #wrong, 0.0)` as 0-d tensors. -/
theorem k_precision_update_micro (I : Val) (preds labs : List Nat) (C : Nat) (hI : IsPred I preds)
    (hlen : preds.length = labs.length) :
    ∃ a b c, precisionUpdate preds labs .micro C = .ok ⟨[a], [b], [c]⟩ ∧
      eval [("input", I), ("target", vecN labs), ("num_classes", .int C), ("average", avgVal .micro)] Gen.k_precision_update
        = .ok (.pair (scalarQ a) (.pair (scalarQ b) (scalarQ c))) := by
  refine ⟨_, _, _, rfl, ?_⟩
  kernel_proof "k_precision_update_micro: the generated term of _precision_update no longer evaluates to the model precisionUpdate (micro)" =>
    unfold Gen.k_precision_update
    cases hI with
    | labels =>
      obtain ⟨R, rfl, rfl⟩ := exists_rows2 preds labs hlen
      simp only [avgVal]
      tx_eval [qcmp_eq_natCast, qcmp_ne_natCast, qsum_b2q]
      simp only [qcount, List.zip_map', List.map_map, Function.comp_def, List.countP_map, List.length_map]
      try rfl
    | logits rows h =>
      have hlen' : rows.length = labs.length := by simpa using hlen
      obtain ⟨R, rfl, rfl⟩ := exists_rows2 rows labs hlen'
      simp only [avgVal]
      tx_eval [argmax1V_mat R (·.1) (fun x hx => h _ (List.mem_map_of_mem hx)), qcmp_eq_natCast, qcmp_ne_natCast,
        qsum_b2q]
      simp only [qcount, List.zip_map', List.map_map, Function.comp_def, List.countP_map, List.length_map]
      try rfl

/-- per-class averages: `scatter_`s over labels, predictions and the labels of the correct samples = `recallUpdate`. -/
theorem k_recall_update_class (I : Val) (preds labs : List Nat) (avg : Avg) (C : Nat) (hI : IsPred I preds)
    (hlen : preds.length = labs.length) (havg : avg ≠ .micro) :
    eval [("input", I), ("target", vecN labs), ("num_classes", .int C), ("average", avgVal avg)] Gen.k_recall_update
      = (recallUpdate preds labs avg C).map prfOut := by
  kernel_proof "k_recall_update_class: the generated term of _recall_update no longer evaluates to the model recallUpdate (per-class states)" =>
    unfold Gen.k_recall_update
    cases hI with
    | labels =>
      obtain ⟨R, rfl, rfl⟩ := exists_rows2 preds labs hlen
      cases avg <;> first | exact absurd rfl havg | skip
      all_goals
        simp only [avgVal]
        tx_eval [scatterAddV_ones, qcmp_eq_natCast, qcmp_ne_natCast]
        simp only [recallUpdate, scatterOnes, List.zip_map', List.map_map, List.filter_map, Function.comp_def]
        exact pack3_bca _ _ _ (scatterAdd_okRt _ _ _) (scatterAdd_okRt _ _ _) (scatterAdd_okRt _ _ _)
    | logits rows h =>
      have hlen' : rows.length = labs.length := by simpa using hlen
      obtain ⟨R, rfl, rfl⟩ := exists_rows2 rows labs hlen'
      cases avg <;> first | exact absurd rfl havg | skip
      all_goals
        simp only [avgVal]
        tx_eval [argmax1V_mat R (·.1) (fun x hx => h _ (List.mem_map_of_mem hx)), scatterAddV_ones, qcmp_eq_natCast,
          qcmp_ne_natCast]
        simp only [recallUpdate, scatterOnes, List.zip_map', List.map_map, List.filter_map, Function.comp_def]
        exact pack3_bca _ _ _ (scatterAdd_okRt _ _ _) (scatterAdd_okRt _ _ _) (scatterAdd_okRt _ _ _)

/-- `average=micro`: `(#correct, n, n)`. -/
theorem k_recall_update_micro (I : Val) (preds labs : List Nat) (C : Nat) (hI : IsPred I preds)
    (hlen : preds.length = labs.length) :
    ∃ a b c, recallUpdate preds labs .micro C = .ok ⟨[a], [b], [c]⟩ ∧
      eval [("input", I), ("target", vecN labs), ("num_classes", .int C), ("average", avgVal .micro)] Gen.k_recall_update
        = .ok (.pair (scalarQ a) (.pair (scalarQ b) (scalarQ c))) := by
  refine ⟨_, _, _, rfl, ?_⟩
  kernel_proof "k_recall_update_micro: the generated term of _recall_update no longer evaluates to the model recallUpdate (micro)" =>
    unfold Gen.k_recall_update
    cases hI with
    | labels =>
      obtain ⟨R, rfl, rfl⟩ := exists_rows2 preds labs hlen
      simp only [avgVal]
      tx_eval [qcmp_eq_natCast, qcmp_ne_natCast, qsum_b2q]
      simp only [qcount, List.zip_map', List.map_map, Function.comp_def, List.countP_map, List.length_map]
      try rfl
    | logits rows h =>
      have hlen' : rows.length = labs.length := by simpa using hlen
      obtain ⟨R, rfl, rfl⟩ := exists_rows2 rows labs hlen'
      simp only [avgVal]
      tx_eval [argmax1V_mat R (·.1) (fun x hx => h _ (List.mem_map_of_mem hx)), qcmp_eq_natCast, qcmp_ne_natCast,
        qsum_b2q]
      simp only [qcount, List.zip_map', List.map_map, Function.comp_def, List.countP_map, List.length_map]
      try rfl

/-- the TorchScript helper `_update` of f1_score.py computes the same state as `_recall_update`. -/
theorem k_f1_score__update_class (I : Val) (preds labs : List Nat) (avg : Avg) (C : Nat) (hI : IsPred I preds)
    (hlen : preds.length = labs.length) (havg : avg ≠ .micro) :
    eval [("input", I), ("target", vecN labs), ("num_classes", .int C), ("average", avgVal avg)] Gen.k_f1_score__update
      = (recallUpdate preds labs avg C).map prfOut := by
  kernel_proof "k_f1_score__update_class: the generated term of f1_score._update no longer evaluates to the model recallUpdate (per-class states)" =>
    unfold Gen.k_f1_score__update
    cases hI with
    | labels =>
      obtain ⟨R, rfl, rfl⟩ := exists_rows2 preds labs hlen
      cases avg <;> first | exact absurd rfl havg | skip
      all_goals
        simp only [avgVal]
        tx_eval [scatterAddV_ones, qcmp_eq_natCast, qcmp_ne_natCast]
        simp only [recallUpdate, scatterOnes, List.zip_map', List.map_map, List.filter_map, Function.comp_def]
        exact pack3_bca _ _ _ (scatterAdd_okRt _ _ _) (scatterAdd_okRt _ _ _) (scatterAdd_okRt _ _ _)
    | logits rows h =>
      have hlen' : rows.length = labs.length := by simpa using hlen
      obtain ⟨R, rfl, rfl⟩ := exists_rows2 rows labs hlen'
      cases avg <;> first | exact absurd rfl havg | skip
      all_goals
        simp only [avgVal]
        tx_eval [argmax1V_mat R (·.1) (fun x hx => h _ (List.mem_map_of_mem hx)), scatterAddV_ones, qcmp_eq_natCast,
          qcmp_ne_natCast]
        simp only [recallUpdate, scatterOnes, List.zip_map', List.map_map, List.filter_map, Function.comp_def]
        exact pack3_bca _ _ _ (scatterAdd_okRt _ _ _) (scatterAdd_okRt _ _ _) (scatterAdd_okRt _ _ _)

/-- `average=micro`: `(#correct, n, n)`. -/
theorem k_f1_score__update_micro (I : Val) (preds labs : List Nat) (C : Nat) (hI : IsPred I preds)
    (hlen : preds.length = labs.length) :
    ∃ a b c, recallUpdate preds labs .micro C = .ok ⟨[a], [b], [c]⟩ ∧
      eval [("input", I), ("target", vecN labs), ("num_classes", .int C), ("average", avgVal .micro)] Gen.k_f1_score__update
        = .ok (.pair (scalarQ a) (.pair (scalarQ b) (scalarQ c))) := by
  refine ⟨_, _, _, rfl, ?_⟩
  kernel_proof "k_f1_score__update_micro: the generated term of f1_score._update no longer evaluates to the model recallUpdate (micro)" =>
    unfold Gen.k_f1_score__update
    cases hI with
    | labels =>
      obtain ⟨R, rfl, rfl⟩ := exists_rows2 preds labs hlen
      simp only [avgVal]
      tx_eval [qcmp_eq_natCast, qcmp_ne_natCast, qsum_b2q]
      simp only [qcount, List.zip_map', List.map_map, Function.comp_def, List.countP_map, List.length_map]
      try rfl
    | logits rows h =>
      have hlen' : rows.length = labs.length := by simpa using hlen
      obtain ⟨R, rfl, rfl⟩ := exists_rows2 rows labs hlen'
      simp only [avgVal]
      tx_eval [argmax1V_mat R (·.1) (fun x hx => h _ (List.mem_map_of_mem hx)), qcmp_eq_natCast, qcmp_ne_natCast,
        qsum_b2q]
      simp only [qcount, List.zip_map', List.map_map, Function.comp_def, List.countP_map, List.length_map]
      try rfl

/-- `_f1_score_update` is its input check followed by `_update`: the two generated terms coincide. -/
theorem k_f1_score_update_inlines : Gen.k_f1_score_update = Gen.k_f1_score__update := by
  kernel_proof "k_f1_score_update_inlines: _f1_score_update is no longer `_update` after its input check" => rfl

/-- … hence the per-class textbook counts (`tp`, `support`, `predicted`) of every class. -/
theorem k_recall_update_textbook (I : Val) (preds labs : List Nat) (avg : Avg) (C : Nat) (hI : IsPred I preds)
    (hlen : preds.length = labs.length) (hp : preds.all (· < C) = true) (hl : labs.all (· < C) = true)
    (havg : avg ≠ .micro) :
    eval [("input", I), ("target", vecN labs), ("num_classes", .int C), ("average", avgVal avg)] Gen.k_recall_update
      = .ok (.pair (vecQ ((List.range C).map fun c => (tp (preds.zip labs) c : Q)))
          (.pair (vecQ ((List.range C).map fun c => (support (preds.zip labs) c : Q)))
            (vecQ ((List.range C).map fun c => (predicted (preds.zip labs) c : Q))))) := by
  rw [k_recall_update_class I preds labs avg C hI hlen havg, C04.recallUpdate_eq preds labs avg C hlen hp hl havg]
  rfl

theorem k_precision_update_textbook (I : Val) (preds labs : List Nat) (avg : Avg) (C : Nat) (hI : IsPred I preds)
    (hlen : preds.length = labs.length) (hp : preds.all (· < C) = true) (hl : labs.all (· < C) = true)
    (havg : avg ≠ .micro) :
    eval [("input", I), ("target", vecN labs), ("num_classes", .int C), ("average", avgVal avg)] Gen.k_precision_update
      = .ok (.pair (vecQ ((List.range C).map fun c => (tp (preds.zip labs) c : Q)))
          (.pair (vecQ ((List.range C).map fun c => (fp (preds.zip labs) c : Q)))
            (vecQ ((List.range C).map fun c => (support (preds.zip labs) c : Q))))) := by
  rw [k_precision_update_class I preds labs avg C hI hlen havg, C04.precisionUpdate_eq preds labs avg C hlen hp hl havg]
  rfl

example : ([0, 2, 1, 2] : List Nat).length = ([0, 1, 1, 2] : List Nat).length ∧
    ([0, 2, 1, 2] : List Nat).all (· < 3) = true ∧ ([0, 1, 1, 2] : List Nat).all (· < 3) = true ∧ Avg.macro ≠ Avg.micro := by
  decide

/-! ## 5. confusion matrix `_update` / `_confusion_matrix_update` -/

/-- `vstack((target, input))` → `sparse_coo_tensor(…, ones_like(target), (C, C)).to_dense()` =
    `confusionUpdate` (rows = true class), errors included. -/
theorem k_confusion_matrix__update_eq (I : Val) (preds labs : List Nat) (C : Nat) (hI : IsPred I preds)
    (hlen : preds.length = labs.length) :
    eval [("input", I), ("target", vecN labs), ("num_classes", .int C)] Gen.k_confusion_matrix__update
      = (confusionUpdate preds labs C).map matQ := by
  kernel_proof "k_confusion_matrix__update_eq: the generated term of confusion_matrix._update no longer evaluates to the model confusionUpdate" =>
    unfold Gen.k_confusion_matrix__update
    cases hI with
    | labels =>
      tx_eval
      have := cooDenseV_nat labs preds labs (fun y => y) (fun y => y) C hlen.symm rfl
      simp only [List.map_id'] at this
      exact this
    | logits rows h =>
      have hlen' : rows.length = labs.length := by simpa using hlen
      tx_eval [argmax1V_mat rows (fun r => r) h]
      have := cooDenseV_nat labs rows labs (fun y => y) argmaxFirst C hlen'.symm rfl
      simp only [List.map_id'] at this
      exact this

/-- `_confusion_matrix_update` is its input check followed by `_update`. -/
theorem k_confusion_matrix_update_inlines : Gen.k_confusion_matrix_update = Gen.k_confusion_matrix__update := by
  kernel_proof "k_confusion_matrix_update_inlines: _confusion_matrix_update is no longer `_update` after its input check" => rfl

/-- … hence the `C × C` matrix of textbook confusion counts. -/
theorem k_confusion_matrix__update_textbook (I : Val) (preds labs : List Nat) (C : Nat) (hI : IsPred I preds)
    (hlen : preds.length = labs.length) (hp : preds.all (· < C) = true) (hl : labs.all (· < C) = true) :
    eval [("input", I), ("target", vecN labs), ("num_classes", .int C)] Gen.k_confusion_matrix__update
      = .ok (matQ ((List.range C).map fun t => (List.range C).map fun p => (confusion (preds.zip labs) t p : Q))) := by
  rw [k_confusion_matrix__update_eq I preds labs C hI hlen, C04.confusionUpdate_eq preds labs C hp hl]
  rfl


/-! ## 6. `_precision_compute`, `_recall_compute`, `_f1_score_compute`

  The three state vectors have one entry per class; `r` ranges over the classes' rows `(tp, a, b)`. -/

/-- `average="macro"`: the mean of `tp / (tp + fp)` (`0` where undefined) over the classes with a label or a prediction; a class without predictions has no true positive. -/
theorem k_precision_compute_macro (tp a b : List Q) (h1 : tp.length = a.length) (h2 : a.length = b.length)
    (hrow : ∀ r ∈ tp.zip (a.zip b), r.1 + r.2.1 = 0 → r.1 = 0) :
    ∃ x, precisionCompute ⟨tp, a, b⟩ .macro = [x] ∧
      eval [("num_tp", vecQ tp), ("num_fp", vecQ a), ("num_label", vecQ b), ("average", avgVal .macro)] Gen.k_precision_compute
        = .ok (.scalar x) := by
  refine ⟨_, rfl, ?_⟩
  obtain ⟨R, rfl, rfl, rfl⟩ := exists_rows3 tp a b h1 h2
  have hrow' : ∀ r ∈ R, r.1 + r.2.1 = 0 → r.1 = 0 := by
    simpa only [List.zip_map', Prod.eta, List.map_id'] using hrow
  kernel_proof "k_precision_compute_macro: the generated term of _precision_compute no longer evaluates to the model precisionCompute (macro)" =>
    unfold Gen.k_precision_compute
    simp only [avgVal]
    tx_eval
    rw [xmean_congr _ _ (fun r => divNan0 r.1 (r.1 + r.2.1)) (fun r hr => nanToNum_xdiv _ _ (hrow' r (List.mem_filter.mp hr).1))]
    simp only [precisionCompute, qcmp_ne_zero, qcmp, List.zip_map', Prod.eta, List.map_id', Bool.not_not]
    first | done | rfl | (simp only [Bool.or_comm]; first | done | rfl)

/-- `average=None`: one ratio per class (`nan ↦ 0`). -/
theorem k_precision_compute_none (tp a b : List Q) (h1 : tp.length = a.length) (h2 : a.length = b.length)
    (hrow : ∀ r ∈ tp.zip (a.zip b), r.1 + r.2.1 = 0 → r.1 = 0) :
    eval [("num_tp", vecQ tp), ("num_fp", vecQ a), ("num_label", vecQ b), ("average", avgVal .none)] Gen.k_precision_compute
      = .ok (.vec (precisionCompute ⟨tp, a, b⟩ .none)) := by
  obtain ⟨R, rfl, rfl, rfl⟩ := exists_rows3 tp a b h1 h2
  have hrow' : ∀ r ∈ R, r.1 + r.2.1 = 0 → r.1 = 0 := by
    simpa only [List.zip_map', Prod.eta, List.map_id'] using hrow
  kernel_proof "k_precision_compute_none: the generated term of _precision_compute no longer evaluates to the model precisionCompute (None)" =>
    unfold Gen.k_precision_compute
    simp only [avgVal]
    tx_eval
    rw [map_congr_val _ _ (fun r => divNan0 r.1 (r.1 + r.2.1)) (fun r hr => nanToNum_xdiv _ _ (hrow' r hr))]
    simp only [precisionCompute, List.zip_map', List.map_map, Function.comp_def]
    first | done | rfl

/-- `average="weighted"`: the label-count-weighted sum over the present classes; the label counts are
    non-negative (so that a zero total means that every weight is `0/0`). -/
theorem k_precision_compute_weighted (tp a b : List Q) (h1 : tp.length = a.length) (h2 : a.length = b.length)
    (hrow : ∀ r ∈ tp.zip (a.zip b), r.1 + r.2.1 = 0 → r.1 = 0)
    (hl : ∀ l ∈ b, 0 ≤ l) :
    ∃ x, precisionCompute ⟨tp, a, b⟩ .weighted = [x] ∧
      eval [("num_tp", vecQ tp), ("num_fp", vecQ a), ("num_label", vecQ b), ("average", avgVal .weighted)] Gen.k_precision_compute
        = .ok (.scalar x) := by
  obtain ⟨R, rfl, rfl, rfl⟩ := exists_rows3 tp a b h1 h2
  have hrow' : ∀ r ∈ R, r.1 + r.2.1 = 0 → r.1 = 0 := by
    simpa only [List.zip_map', Prod.eta, List.map_id'] using hrow
  have hl' : ∀ r ∈ R, 0 ≤ r.2.2 :=
    fun r hr => hl _ (List.mem_map_of_mem (f := fun r => r.2.2) hr)
  kernel_proof "k_precision_compute_weighted: the generated term of _precision_compute no longer evaluates to the model precisionCompute (weighted)" =>
    unfold Gen.k_precision_compute
    simp only [avgVal]
    tx_eval
    rw [wsum _ _ (fun r => divNan0 r.1 (r.1 + r.2.1)) _ _ (fun r hr => nanToNum_xdiv _ _ (hrow' r (List.mem_filter.mp hr).1))
      (fun ht r hr => qsum_zero_of_nonneg R (·.2.2) hl' ht r (List.mem_filter.mp hr).1)]
    refine ⟨_, ?_, rfl⟩
    simp only [precisionCompute, qcmp_ne_zero, qcmp, List.zip_map', Prod.eta, List.map_id', list_ite, Bool.not_not,
      List.map_map, Function.comp_def]
    first | done | rfl | (simp only [Bool.or_comm]; first | done | rfl)

/-- `average="macro"`: the mean of `tp / labels` (`0` where undefined) over the present classes; a class without labels has no true positive. -/
theorem k_recall_compute_macro (tp a b : List Q) (h1 : tp.length = a.length) (h2 : a.length = b.length)
    (hrow : ∀ r ∈ tp.zip (a.zip b), r.2.1 = 0 → r.1 = 0) :
    ∃ x, recallCompute ⟨tp, a, b⟩ .macro = [x] ∧
      eval [("num_tp", vecQ tp), ("num_labels", vecQ a), ("num_predictions", vecQ b), ("average", avgVal .macro)] Gen.k_recall_compute
        = .ok (.scalar x) := by
  refine ⟨_, rfl, ?_⟩
  obtain ⟨R, rfl, rfl, rfl⟩ := exists_rows3 tp a b h1 h2
  have hrow' : ∀ r ∈ R, r.2.1 = 0 → r.1 = 0 := by
    simpa only [List.zip_map', Prod.eta, List.map_id'] using hrow
  kernel_proof "k_recall_compute_macro: the generated term of _recall_compute no longer evaluates to the model recallCompute (macro)" =>
    unfold Gen.k_recall_compute
    simp only [avgVal]
    tx_eval
    split
    · rw [xmean_congr _ _ (fun r => divNan0 r.1 r.2.1) (fun r hr => nanToNum_xdiv _ _ (hrow' r (List.mem_filter.mp hr).1))]
      simp only [recallCompute, qcmp_ne_zero, qcmp, List.zip_map', Prod.eta, List.map_id', Bool.not_not]
      first | done | rfl
    · rename_i hn
      rw [xmean_congr _ _ (fun r => divNan0 r.1 r.2.1) (val_of_no_nan _ _ _ hn (fun r hr => nanToNum_xdiv _ _ (hrow' r (List.mem_filter.mp hr).1)))]
      simp only [recallCompute, qcmp_ne_zero, qcmp, List.zip_map', Prod.eta, List.map_id', Bool.not_not]
      first | done | rfl

/-- `average=None`: one ratio per class (`nan ↦ 0`). -/
theorem k_recall_compute_none (tp a b : List Q) (h1 : tp.length = a.length) (h2 : a.length = b.length)
    (hrow : ∀ r ∈ tp.zip (a.zip b), r.2.1 = 0 → r.1 = 0) :
    eval [("num_tp", vecQ tp), ("num_labels", vecQ a), ("num_predictions", vecQ b), ("average", avgVal .none)] Gen.k_recall_compute
      = .ok (.vec (recallCompute ⟨tp, a, b⟩ .none)) := by
  obtain ⟨R, rfl, rfl, rfl⟩ := exists_rows3 tp a b h1 h2
  have hrow' : ∀ r ∈ R, r.2.1 = 0 → r.1 = 0 := by
    simpa only [List.zip_map', Prod.eta, List.map_id'] using hrow
  kernel_proof "k_recall_compute_none: the generated term of _recall_compute no longer evaluates to the model recallCompute (None)" =>
    unfold Gen.k_recall_compute
    simp only [avgVal]
    tx_eval
    split
    · rw [map_congr_val _ _ (fun r => divNan0 r.1 r.2.1) (fun r hr => nanToNum_xdiv _ _ (hrow' r hr))]
      simp only [recallCompute, List.zip_map', List.map_map, Function.comp_def]
      first | done | rfl
    · rename_i hn
      rw [map_congr_val _ _ (fun r => divNan0 r.1 r.2.1) (val_of_no_nan _ _ _ hn (fun r hr => nanToNum_xdiv _ _ (hrow' r hr)))]
      simp only [recallCompute, List.zip_map', List.map_map, Function.comp_def]
      first | done | rfl

/-- `average="weighted"`: the label-count-weighted sum over the present classes; the label counts are
    non-negative (so that a zero total means that every weight is `0/0`). -/
theorem k_recall_compute_weighted (tp a b : List Q) (h1 : tp.length = a.length) (h2 : a.length = b.length)
    (hrow : ∀ r ∈ tp.zip (a.zip b), r.2.1 = 0 → r.1 = 0)
    (hl : ∀ l ∈ a, 0 ≤ l) :
    ∃ x, recallCompute ⟨tp, a, b⟩ .weighted = [x] ∧
      eval [("num_tp", vecQ tp), ("num_labels", vecQ a), ("num_predictions", vecQ b), ("average", avgVal .weighted)] Gen.k_recall_compute
        = .ok (.scalar x) := by
  obtain ⟨R, rfl, rfl, rfl⟩ := exists_rows3 tp a b h1 h2
  have hrow' : ∀ r ∈ R, r.2.1 = 0 → r.1 = 0 := by
    simpa only [List.zip_map', Prod.eta, List.map_id'] using hrow
  have hl' : ∀ r ∈ R, 0 ≤ r.2.1 :=
    fun r hr => hl _ (List.mem_map_of_mem (f := fun r => r.2.1) hr)
  kernel_proof "k_recall_compute_weighted: the generated term of _recall_compute no longer evaluates to the model recallCompute (weighted)" =>
    unfold Gen.k_recall_compute
    simp only [avgVal]
    tx_eval
    split
    · rw [wsum' _ _ (fun r => divNan0 r.1 r.2.1) _ _ (fun r hr => nanToNum_xdiv _ _ (hrow' r (List.mem_filter.mp hr).1))
        (fun ht r hr => qsum_zero_of_nonneg _ (·.2.1) (fun r hr => hl' r (List.mem_filter.mp hr).1) ht r hr)]
      refine ⟨_, ?_, rfl⟩
      simp only [recallCompute, qcmp_ne_zero, qcmp, List.zip_map', Prod.eta, List.map_id', list_ite, Bool.not_not,
        List.map_map, Function.comp_def]
      first | done | rfl
    · rename_i hn
      rw [wsum' _ _ (fun r => divNan0 r.1 r.2.1) _ _ (val_of_no_nan _ _ _ hn (fun r hr => nanToNum_xdiv _ _ (hrow' r (List.mem_filter.mp hr).1)))
        (fun ht r hr => qsum_zero_of_nonneg _ (·.2.1) (fun r hr => hl' r (List.mem_filter.mp hr).1) ht r hr)]
      refine ⟨_, ?_, rfl⟩
      simp only [recallCompute, qcmp_ne_zero, qcmp, List.zip_map', Prod.eta, List.map_id', list_ite, Bool.not_not,
        List.map_map, Function.comp_def]
      first | done | rfl

/-- `average="macro"`: the mean of `2·p·r / (p + r)` (`0` where undefined) over the present classes; the states are counts (`0 ≤ tp ≤ labels, predictions`). -/
theorem k_f1_score_compute_macro (tp a b : List Q) (h1 : tp.length = a.length) (h2 : a.length = b.length)
    (hrow : ∀ r ∈ tp.zip (a.zip b), 0 ≤ r.1 ∧ r.1 ≤ r.2.1 ∧ r.1 ≤ r.2.2) :
    ∃ x, f1Compute ⟨tp, a, b⟩ .macro = [x] ∧
      eval [("num_tp", vecQ tp), ("num_label", vecQ a), ("num_prediction", vecQ b), ("average", avgVal .macro)] Gen.k_f1_score_compute
        = .ok (.scalar x) := by
  refine ⟨_, rfl, ?_⟩
  obtain ⟨R, rfl, rfl, rfl⟩ := exists_rows3 tp a b h1 h2
  have hrow' : ∀ r ∈ R, 0 ≤ r.1 ∧ r.1 ≤ r.2.1 ∧ r.1 ≤ r.2.2 := by
    simpa only [List.zip_map', Prod.eta, List.map_id'] using hrow
  kernel_proof "k_f1_score_compute_macro: the generated term of _f1_score_compute no longer evaluates to the model f1Compute (macro)" =>
    unfold Gen.k_f1_score_compute
    simp only [avgVal]
    tx_eval
    rw [xmean_congr _ _ (fun r => f1One r.1 r.2.1 r.2.2) (fun r hr => f1_pointwise _ _ _ (hrow' r (List.mem_filter.mp hr).1).1 (hrow' r (List.mem_filter.mp hr).1).2.1 (hrow' r (List.mem_filter.mp hr).1).2.2)]
    simp only [f1Compute, qcmp_ne_zero, qcmp, List.zip_map', Prod.eta, List.map_id', Bool.not_not]
    first | done | rfl

/-- `average=None`: one ratio per class (`nan ↦ 0`). -/
theorem k_f1_score_compute_none (tp a b : List Q) (h1 : tp.length = a.length) (h2 : a.length = b.length)
    (hrow : ∀ r ∈ tp.zip (a.zip b), 0 ≤ r.1 ∧ r.1 ≤ r.2.1 ∧ r.1 ≤ r.2.2) :
    eval [("num_tp", vecQ tp), ("num_label", vecQ a), ("num_prediction", vecQ b), ("average", avgVal .none)] Gen.k_f1_score_compute
      = .ok (.vec (f1Compute ⟨tp, a, b⟩ .none)) := by
  obtain ⟨R, rfl, rfl, rfl⟩ := exists_rows3 tp a b h1 h2
  have hrow' : ∀ r ∈ R, 0 ≤ r.1 ∧ r.1 ≤ r.2.1 ∧ r.1 ≤ r.2.2 := by
    simpa only [List.zip_map', Prod.eta, List.map_id'] using hrow
  kernel_proof "k_f1_score_compute_none: the generated term of _f1_score_compute no longer evaluates to the model f1Compute (None)" =>
    unfold Gen.k_f1_score_compute
    simp only [avgVal]
    tx_eval
    rw [map_congr_val _ _ (fun r => f1One r.1 r.2.1 r.2.2) (fun r hr => f1_pointwise _ _ _ (hrow' r hr).1 (hrow' r hr).2.1 (hrow' r hr).2.2)]
    simp only [f1Compute, List.zip_map', List.map_map, Function.comp_def]
    first | done | rfl

/-- `average="weighted"`: the label-count-weighted sum over the present classes; the label counts are
    non-negative (so that a zero total means that every weight is `0/0`). -/
theorem k_f1_score_compute_weighted (tp a b : List Q) (h1 : tp.length = a.length) (h2 : a.length = b.length)
    (hrow : ∀ r ∈ tp.zip (a.zip b), 0 ≤ r.1 ∧ r.1 ≤ r.2.1 ∧ r.1 ≤ r.2.2)
    (hl : ∀ l ∈ a, 0 ≤ l) :
    ∃ x, f1Compute ⟨tp, a, b⟩ .weighted = [x] ∧
      eval [("num_tp", vecQ tp), ("num_label", vecQ a), ("num_prediction", vecQ b), ("average", avgVal .weighted)] Gen.k_f1_score_compute
        = .ok (.scalar x) := by
  obtain ⟨R, rfl, rfl, rfl⟩ := exists_rows3 tp a b h1 h2
  have hrow' : ∀ r ∈ R, 0 ≤ r.1 ∧ r.1 ≤ r.2.1 ∧ r.1 ≤ r.2.2 := by
    simpa only [List.zip_map', Prod.eta, List.map_id'] using hrow
  have hl' : ∀ r ∈ R, 0 ≤ r.2.1 :=
    fun r hr => hl _ (List.mem_map_of_mem (f := fun r => r.2.1) hr)
  kernel_proof "k_f1_score_compute_weighted: the generated term of _f1_score_compute no longer evaluates to the model f1Compute (weighted)" =>
    unfold Gen.k_f1_score_compute
    simp only [avgVal]
    tx_eval
    rw [wsum' _ _ (fun r => f1One r.1 r.2.1 r.2.2) _ _ (fun r hr => f1_pointwise _ _ _ (hrow' r (List.mem_filter.mp hr).1).1 (hrow' r (List.mem_filter.mp hr).1).2.1 (hrow' r (List.mem_filter.mp hr).1).2.2)
      (fun ht r hr => qsum_zero_of_nonneg _ (·.2.1) (fun r hr => hl' r (List.mem_filter.mp hr).1) ht r hr)]
    refine ⟨_, ?_, rfl⟩
    simp only [f1Compute, qcmp_ne_zero, qcmp, List.zip_map', Prod.eta, List.map_id', list_ite, Bool.not_not,
      List.map_map, Function.comp_def]
    first | done | rfl


/-- `average="micro"`: three 0-d tensors. -/
theorem k_precision_compute_micro (tp fp lab : Q) (h : tp + fp = 0 → tp = 0) :
    ∃ x, precisionCompute ⟨[tp], [fp], [lab]⟩ .micro = [x] ∧
      eval [("num_tp", scalarQ tp), ("num_fp", scalarQ fp), ("num_label", scalarQ lab), ("average", avgVal .micro)]
          Gen.k_precision_compute
        = .ok (.scalar x) := by
  refine ⟨_, rfl, ?_⟩
  kernel_proof "k_precision_compute_micro: the generated term of _precision_compute no longer evaluates to the model precisionCompute (micro)" =>
    unfold Gen.k_precision_compute
    simp only [avgVal]
    tx_eval [nanToNum_xdiv _ _ h]

theorem k_recall_compute_micro (tp lab prd : Q) (h : lab = 0 → tp = 0) :
    ∃ x, recallCompute ⟨[tp], [lab], [prd]⟩ .micro = [x] ∧
      eval [("num_tp", scalarQ tp), ("num_labels", scalarQ lab), ("num_predictions", scalarQ prd), ("average", avgVal .micro)]
          Gen.k_recall_compute
        = .ok (.scalar x) := by
  refine ⟨_, rfl, ?_⟩
  kernel_proof "k_recall_compute_micro: the generated term of _recall_compute no longer evaluates to the model recallCompute (micro)" =>
    unfold Gen.k_recall_compute
    simp only [avgVal]
    tx_eval
    split
    · rw [nanToNum_xdiv _ _ h]
    · rename_i hn
      have := nanToNum_xdiv _ _ h
      rw [xnanToNum_of_not_nan _ (by simpa using hn)] at this
      rw [this]

theorem k_f1_score_compute_micro (tp lab prd : Q) (h0 : 0 ≤ tp) (hl : tp ≤ lab) (hp : tp ≤ prd) :
    ∃ x, f1Compute ⟨[tp], [lab], [prd]⟩ .micro = [x] ∧
      eval [("num_tp", scalarQ tp), ("num_label", scalarQ lab), ("num_prediction", scalarQ prd), ("average", avgVal .micro)]
          Gen.k_f1_score_compute
        = .ok (.scalar x) := by
  refine ⟨_, rfl, ?_⟩
  kernel_proof "k_f1_score_compute_micro: the generated term of _f1_score_compute no longer evaluates to the model f1Compute (micro)" =>
    unfold Gen.k_f1_score_compute
    simp only [avgVal]
    tx_eval [f1_pointwise _ _ _ h0 hl hp]

/-- `_binary_recall_compute`: `tp / labels`, `0` when there is no positive label. -/
theorem k_binary_recall_compute_eq (tp lab : Q) (h : lab = 0 → tp = 0) :
    eval [("num_tp", scalarQ tp), ("num_true_labels", scalarQ lab)] Gen.k_binary_recall_compute
      = .ok (scalarQ (divNan0 tp lab)) := by
  kernel_proof "k_binary_recall_compute_eq: the generated term of _binary_recall_compute no longer evaluates to divNan0" =>
    unfold Gen.k_binary_recall_compute
    tx_eval
    split
    · rw [nanToNum_xdiv _ _ h]
    · rename_i hn
      have := nanToNum_xdiv _ _ h
      rw [xnanToNum_of_not_nan _ (by simpa using hn)] at this
      rw [this]

/-! ### composed with the updates' counting theorems: the averages as written are the textbook averages -/

theorem k_precision_compute_macro_textbook (ps : Pairs) (C : Nat) :
    eval [("num_tp", vecQ ((List.range C).map fun c => (tp ps c : Q))),
          ("num_fp", vecQ ((List.range C).map fun c => (fp ps c : Q))),
          ("num_label", vecQ ((List.range C).map fun c => (support ps c : Q))), ("average", avgVal .macro)]
        Gen.k_precision_compute
      = .ok (.scalar (meanX ((present ps C).map (precision ps)))) := by
  obtain ⟨x, hx, he⟩ := k_precision_compute_macro _ _ _ (by simp) (by simp)
    (rows_range (fun c => (tp ps c : Q)) (fun c => (fp ps c : Q)) (fun c => (support ps c : Q))
      (fun r => r.1 + r.2.1 = 0 → r.1 = 0) (fun c => natCast_add_eq_zero _ _))
  rw [he]
  rw [C04.precisionCompute_macro_eq ps C] at hx
  injection hx with hx
  rw [hx]

theorem k_recall_compute_macro_textbook (ps : Pairs) (C : Nat) :
    eval [("num_tp", vecQ ((List.range C).map fun c => (tp ps c : Q))),
          ("num_labels", vecQ ((List.range C).map fun c => (support ps c : Q))),
          ("num_predictions", vecQ ((List.range C).map fun c => (predicted ps c : Q))), ("average", avgVal .macro)]
        Gen.k_recall_compute
      = .ok (.scalar (meanX ((present ps C).map (recall ps)))) := by
  obtain ⟨x, hx, he⟩ := k_recall_compute_macro _ _ _ (by simp) (by simp)
    (rows_range (fun c => (tp ps c : Q)) (fun c => (support ps c : Q)) (fun c => (predicted ps c : Q))
      (fun r => r.2.1 = 0 → r.1 = 0) (fun c => natCast_zero_of_le _ _ (tp_le_support ps c)))
  rw [he]
  rw [C04.recallCompute_macro_eq ps C] at hx
  injection hx with hx
  rw [hx]

/-- the weighted recall as written (after the repair of the `IndexError` on classes absent from both sides) is the
    support-weighted mean of the per-class recall over the present classes. -/
theorem k_recall_compute_weighted_textbook (ps : Pairs) (C : Nat) (hl : ∀ p ∈ ps, p.2 < C) :
    eval [("num_tp", vecQ ((List.range C).map fun c => (tp ps c : Q))),
          ("num_labels", vecQ ((List.range C).map fun c => (support ps c : Q))),
          ("num_predictions", vecQ ((List.range C).map fun c => (predicted ps c : Q))), ("average", avgVal .weighted)]
        Gen.k_recall_compute
      = .ok (.scalar (.val ((present ps C).map fun c =>
          recall ps c * ((support ps c : Q) / (ps.length : Q))).sum)) := by
  obtain ⟨x, hx, he⟩ := k_recall_compute_weighted _ _ _ (by simp) (by simp)
    (rows_range (fun c => (tp ps c : Q)) (fun c => (support ps c : Q)) (fun c => (predicted ps c : Q))
      (fun r => r.2.1 = 0 → r.1 = 0) (fun c => natCast_zero_of_le _ _ (tp_le_support ps c)))
    (by intro l hl'; obtain ⟨c, _, rfl⟩ := List.mem_map.mp hl'; exact Rat.natCast_nonneg)
  rw [he]
  rw [C04.recallCompute_weighted_eq ps C hl] at hx
  injection hx with hx
  rw [hx]

theorem k_f1_score_compute_macro_textbook (ps : Pairs) (C : Nat) :
    eval [("num_tp", vecQ ((List.range C).map fun c => (tp ps c : Q))),
          ("num_label", vecQ ((List.range C).map fun c => (support ps c : Q))),
          ("num_prediction", vecQ ((List.range C).map fun c => (predicted ps c : Q))), ("average", avgVal .macro)]
        Gen.k_f1_score_compute
      = .ok (.scalar (meanX ((present ps C).map (f1 ps)))) := by
  obtain ⟨x, hx, he⟩ := k_f1_score_compute_macro _ _ _ (by simp) (by simp)
    (rows_range (fun c => (tp ps c : Q)) (fun c => (support ps c : Q)) (fun c => (predicted ps c : Q))
      (fun r => 0 ≤ r.1 ∧ r.1 ≤ r.2.1 ∧ r.1 ≤ r.2.2)
      (fun c => ⟨Rat.natCast_nonneg, Rat.natCast_le_natCast.mpr (tp_le_support ps c),
        Rat.natCast_le_natCast.mpr (tp_le_predicted ps c)⟩))
  rw [he]
  rw [C04.f1Compute_macro_eq ps C] at hx
  injection hx with hx
  rw [hx]

example : ∀ r ∈ ([1, 1, 1] : List Q).zip (([1, 2, 1] : List Q).zip ([1, 1, 2] : List Q)),
    0 ≤ r.1 ∧ r.1 ≤ r.2.1 ∧ r.1 ≤ r.2.2 := by decide
example : ∀ r ∈ ([1, 0, 1] : List Q).zip (([0, 0, 1] : List Q).zip ([1, 2, 1] : List Q)), r.1 + r.2.1 = 0 → r.1 = 0 := by
  decide +kernel

/-! ## 7. `_multilabel_update`, `_multilabel_accuracy_update`

  `input` and `target` are 2-d tensors with the same shape (`inp`, `tgt`: equally many rows, equally long rows). -/

/-- `exact_match`, `hamming`, `contain`, `belong`: the TorchScript chain of `if criteria == …` returns = `multilabelUpdate`. -/
theorem k_multilabel_update_eq (crit : Crit) (inp tgt : List (List Q)) (h1 : inp.length = tgt.length)
    (h2 : ∀ p ∈ inp.zip tgt, p.1.length = p.2.length) (hc : crit ≠ .overlap) :
    eval [("input", matQ inp), ("target", matQ tgt), ("criteria", critVal crit)] Gen.k_multilabel_update
      = .ok (.pair (scalarQ (multilabelUpdate crit inp tgt).1) (scalarQ (multilabelUpdate crit inp tgt).2)) := by
  obtain ⟨R, rfl, rfl⟩ := exists_cells inp tgt h1 h2
  kernel_proof "k_multilabel_update_eq: the generated term of _multilabel_update no longer evaluates to the model multilabelUpdate" =>
    unfold Gen.k_multilabel_update
    cases crit <;> first | exact absurd rfl hc | skip
    all_goals
      simp only [critVal]
      tx_eval [bzipM_rows_map]
      simp only [multilabelUpdate, mlRowCorrect, List.zip_map', Prod.eta, List.map_id', List.map_map,
        Function.comp_def, List.length_map, qcmp_ge_zero, qcmp_le_zero, xsum_flatten_rows, natCast_length_flatten,
        qsum_b2q, qcount, qcmp_eq, qsum_map_add, List.all_map, List.any_map, List.countP_map]
      first | done | rfl

/-- `overlap` takes a row maximum (`.max(dim=1)`), which torch refuses for rows without columns. -/
theorem k_multilabel_update_eq_overlap (inp tgt : List (List Q)) (h1 : inp.length = tgt.length)
    (h2 : ∀ p ∈ inp.zip tgt, p.1.length = p.2.length) (hne : ∀ r ∈ inp, r ≠ []) :
    eval [("input", matQ inp), ("target", matQ tgt), ("criteria", critVal .overlap)] Gen.k_multilabel_update
      = .ok (.pair (scalarQ (multilabelUpdate .overlap inp tgt).1) (scalarQ (multilabelUpdate .overlap inp tgt).2)) := by
  obtain ⟨R, rfl, rfl⟩ := exists_cells inp tgt h1 h2
  have hne' : ∀ r ∈ R, r ≠ [] :=
    fun r hr hnil => hne _ (List.mem_map_of_mem (f := fun r => r.map (·.1)) hr) (by simp [hnil])
  kernel_proof "k_multilabel_update_eq_overlap: the generated term of _multilabel_update no longer evaluates to the model multilabelUpdate (overlap)" =>
    unfold Gen.k_multilabel_update
    simp only [critVal]
    tx_eval [bzipM_rows_map, maxDim1V_rows R _ hne']
    simp only [multilabelUpdate, mlRowCorrect, List.zip_map', Prod.eta, List.map_id', List.map_map,
        Function.comp_def, List.length_map, qcmp_ge_zero, qcmp_le_zero, xsum_flatten_rows, natCast_length_flatten,
        qsum_b2q, qcount, qcmp_eq, qsum_map_add, List.all_map, List.any_map, List.countP_map]
    first | done | rfl

/-- `_multilabel_accuracy_update` thresholds the scores and inlines `_multilabel_update`. -/
theorem k_multilabel_accuracy_update_eq (thr : Q) (crit : Crit) (inp tgt : List (List Q)) (h1 : inp.length = tgt.length)
    (h2 : ∀ p ∈ inp.zip tgt, p.1.length = p.2.length) (hc : crit ≠ .overlap) :
    eval [("input", matQ inp), ("target", matQ tgt), ("threshold", .num thr), ("criteria", critVal crit)] Gen.k_multilabel_accuracy_update
      = .ok (.pair (scalarQ (multilabelAccuracyUpdate thr crit inp tgt).1) (scalarQ (multilabelAccuracyUpdate thr crit inp tgt).2)) := by
  obtain ⟨R, rfl, rfl⟩ := exists_cells inp tgt h1 h2
  kernel_proof "k_multilabel_accuracy_update_eq: the generated term of _multilabel_accuracy_update no longer evaluates to the model multilabelAccuracyUpdate" =>
    unfold Gen.k_multilabel_accuracy_update
    cases crit <;> first | exact absurd rfl hc | skip
    all_goals
      simp only [critVal]
      tx_eval [bzipM_rows_map]
      simp only [multilabelAccuracyUpdate, thrQ, multilabelUpdate, mlRowCorrect, List.zip_map', Prod.eta, List.map_id', List.map_map,
        Function.comp_def, List.length_map, qcmp_ge_zero, qcmp_le_zero, xsum_flatten_rows, natCast_length_flatten,
        qsum_b2q, qcount, qcmp_eq, qsum_map_add, List.all_map, List.any_map, List.countP_map]
      first | done | rfl

/-- the same for `overlap` (non-empty rows). -/
theorem k_multilabel_accuracy_update_eq_overlap (thr : Q) (inp tgt : List (List Q)) (h1 : inp.length = tgt.length)
    (h2 : ∀ p ∈ inp.zip tgt, p.1.length = p.2.length) (hne : ∀ r ∈ inp, r ≠ []) :
    eval [("input", matQ inp), ("target", matQ tgt), ("threshold", .num thr), ("criteria", critVal .overlap)] Gen.k_multilabel_accuracy_update
      = .ok (.pair (scalarQ (multilabelAccuracyUpdate thr .overlap inp tgt).1) (scalarQ (multilabelAccuracyUpdate thr .overlap inp tgt).2)) := by
  obtain ⟨R, rfl, rfl⟩ := exists_cells inp tgt h1 h2
  have hne' : ∀ r ∈ R, r ≠ [] :=
    fun r hr hnil => hne _ (List.mem_map_of_mem (f := fun r => r.map (·.1)) hr) (by simp [hnil])
  kernel_proof "k_multilabel_accuracy_update_eq_overlap: the generated term of _multilabel_accuracy_update no longer evaluates to the model multilabelAccuracyUpdate (overlap)" =>
    unfold Gen.k_multilabel_accuracy_update
    simp only [critVal]
    tx_eval [bzipM_rows_map, maxDim1V_rows R _ hne']
    simp only [multilabelAccuracyUpdate, thrQ, multilabelUpdate, mlRowCorrect, List.zip_map', Prod.eta, List.map_id', List.map_map,
        Function.comp_def, List.length_map, qcmp_ge_zero, qcmp_le_zero, xsum_flatten_rows, natCast_length_flatten,
        qsum_b2q, qcount, qcmp_eq, qsum_map_add, List.all_map, List.any_map, List.countP_map]
    first | done | rfl

/-- … hence (TE.C04.multilabelUpdate_eq) for every criterion but hamming the number of rows satisfying the criterion
    and the number of rows. -/
theorem k_multilabel_update_textbook (crit : Crit) (inp tgt : List (List Q)) (h1 : inp.length = tgt.length)
    (h2 : ∀ p ∈ inp.zip tgt, p.1.length = p.2.length) (hc : crit ≠ .overlap) (hh : crit ≠ .hamming) :
    eval [("input", matQ inp), ("target", matQ tgt), ("criteria", critVal crit)] Gen.k_multilabel_update
      = .ok (.pair (scalarQ (((inp.zip tgt).countP fun p => mlRowCorrect crit p.1 p.2 == 1 : Nat) : Q))
          (scalarQ (tgt.length : Nat))) := by
  rw [k_multilabel_update_eq crit inp tgt h1 h2 hc, (C04.multilabelUpdate_eq crit inp tgt hh).1,
    (C04.multilabelUpdate_eq crit inp tgt hh).2]

example : ([[1, 1, 0], [0, 0, 1]] : List (List Q)).length = ([[1, 0, 0], [1, 0, 0]] : List (List Q)).length ∧
    (∀ p ∈ ([[1, 1, 0], [0, 0, 1]] : List (List Q)).zip ([[1, 0, 0], [1, 0, 0]] : List (List Q)), p.1.length = p.2.length) ∧
    (∀ r ∈ ([[1, 1, 0], [0, 0, 1]] : List (List Q)), r ≠ []) ∧ Crit.contain ≠ Crit.overlap := by decide


/-! ## 8. `_confusion_matrix_compute`, `_binary_confusion_matrix_compute`

  `M` is an `n × n` matrix of counts (natural numbers): the L1 norm of a row or column is then `0` or `≥ 1`, so the
  clamp `max(‖·‖₁, 1e-12)` of `torch.nn.functional.normalize` only matters where the fibre is all zero. -/

/-- every `normalize` option: `None`, `"all"` (NaN for an empty matrix), `"true"` (rows), `"pred"` (columns). -/
theorem k_confusion_matrix_compute_eq (M : List (List Nat)) (n : Nat) (norm : Norm) (hn : M.length = n)
    (hr : ∀ r ∈ M, r.length = n) :
    eval [("confusion_matrix", matQ (natMat M)), ("normalize", normVal norm)] Gen.k_confusion_matrix_compute
      = .ok (.mat (confusionCompute (natMat M) n norm)) := by
  have hlen : (natMat M).length = n := by simpa [natMat] using hn
  kernel_proof "k_confusion_matrix_compute_eq: the generated term of _confusion_matrix_compute no longer evaluates to the model confusionCompute" =>
    unfold Gen.k_confusion_matrix_compute
    cases norm
    all_goals
      simp only [normVal]
      tx_eval [xsum_flatten_val, headD_cols M n hn hr, xl1normalize_rows, xtranspose_val, xtranspose_val',
        transpose_natMat, hlen]
      simp only [confusionCompute, List.map_map, Function.comp_def, ← transpose_natMat]
      first | done | rfl

/-- `_binary_confusion_matrix_compute` (not called anywhere in the tree) normalises `"pred"` along dim 1 and
    `"true"` along dim 0 — the other way round than `_confusion_matrix_compute`; pinned as it is. -/
theorem k_binary_confusion_matrix_compute_eq (M : List (List Nat)) (n : Nat) (norm : Norm) (hn : M.length = n)
    (hr : ∀ r ∈ M, r.length = n) :
    eval [("cm", matQ (natMat M)), ("normalize", normVal norm)] Gen.k_binary_confusion_matrix_compute
      = .ok (.mat (confusionCompute (natMat M) n (swapNorm norm))) := by
  have hlen : (natMat M).length = n := by simpa [natMat] using hn
  kernel_proof "k_binary_confusion_matrix_compute_eq: the generated term of _binary_confusion_matrix_compute changed" =>
    unfold Gen.k_binary_confusion_matrix_compute
    cases norm
    all_goals
      simp only [normVal, swapNorm]
      tx_eval [xsum_flatten_val, headD_cols M n hn hr, xl1normalize_rows, xtranspose_val, xtranspose_val',
        transpose_natMat, hlen]
      simp only [confusionCompute, List.map_map, Function.comp_def, ← transpose_natMat]
      first | done | rfl

example : ([[1, 1], [0, 2]] : List (List Nat)).length = 2 ∧ ∀ r ∈ ([[1, 1], [0, 2]] : List (List Nat)), r.length = 2 := by
  decide

end TE.C04K
