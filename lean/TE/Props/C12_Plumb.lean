/-
  C12, tied to the source through the generated plumbing (TE/Gen/Plumbing.lean, see TE/Props/C01_Plumb.lean):
  for every plumbing row, feeding a permutation of the batches leaves every numeric state unchanged and permutes
  the chunks of every list state.  (That the functional `_compute` helpers of the list-state classes do not
  depend on the order of the samples is the subject of TE.Props.C12 proper.)
-/
import TE.Lemmas.Plumb
import TE.Gen.Plumbing
namespace TE.C12
open TE TE.Plumb

theorem C12_plumb_perm {A C R : Type} (O : Ops A C) (P : ClassPlumb) (g : View A C → Except Err R)
    (l l' : List (Contrib A C)) (hp : l.Perm l') (s s' : St A C)
    (he : eval (plumbImpl O P g) (single l) = .ok s) (he' : eval (plumbImpl O P g) (single l') = .ok s') :
    s.num = s'.num ∧ ∀ f, (s.lst f).Perm (s'.lst f) := by
  rw [eval_single] at he he'
  simp only [Except.ok.injEq] at he he'
  subst he; subst he'
  refine ⟨funext fun f => ?_, fun f => ?_⟩
  · rw [foldl_upd_num, foldl_upd_num]
    rcases numOf P.fields f with _ | ⟨u, m, src⟩
    · rfl
    · exact foldl_op_perm O u (fun b => b.num f) hp _
  · rw [foldl_upd_lst, foldl_upd_lst]
    rcases lstOf P.fields f with _ | x
    · exact List.Perm.refl _
    · exact List.Perm.append_left _ (hp.map _)

/-- a class all of whose states are numeric gives the same result for every order of the batches. -/
theorem C12_plumb_numeric_order_free {A C R : Type} (O : Ops A C) (P : ClassPlumb) (g : View A C → Except Err R)
    (hnum : P.fields.all (fun f => match f with | .num .. => true | .lst .. => false) = true)
    (l l' : List (Contrib A C)) (hp : l.Perm l') (s s' : St A C)
    (he : eval (plumbImpl O P g) (single l) = .ok s) (he' : eval (plumbImpl O P g) (single l') = .ok s') :
    (plumbImpl O P g).out s = (plumbImpl O P g).out s' := by
  have hn := (C12_plumb_perm O P g l l' hp s s' he he').1
  rw [eval_single] at he he'
  simp only [Except.ok.injEq] at he he'
  have hl : ∀ f, lstOf P.fields f = none := by
    intro f
    generalize P.fields = fs at hnum
    induction fs with
    | nil => rfl
    | cons x rest ih =>
      simp only [List.all_cons, Bool.and_eq_true] at hnum
      cases x with
      | num n u m sc du => simpa [lstOf] using ih hnum.2
      | lst n sc gd d rd raw => simp at hnum
  have hls : s.lst = s'.lst := by
    subst he; subst he'
    funext f
    rw [foldl_upd_lst, foldl_upd_lst, hl f]
  have : view O P.fields s = view O P.fields s' := by simp only [view, hn, hls]
  simp only [plumbImpl, this]

/-- the generated rows that consist of numeric states only (their order-freeness needs nothing else). -/
theorem C12_plumb_numeric_rows :
    ((Gen.classPlumb.filter fun P => P.unsupported.isNone && !P.fields.isEmpty &&
        P.fields.all (fun f => match f with | .num .. => true | .lst .. => false)).length ≥ 28) := by
  decide +kernel

end TE.C12
