/-
  C12, tied to the source through the generated plumbing (TE/Gen/Plumbing.lean, see TE/Props/C01_Plumb.lean):
  for every plumbing row, feeding a permutation of the batches leaves every numeric state unchanged and permutes
  the chunks of every list state.  (That the functional `_compute` helpers of the list-state classes do not
  depend on the order of the samples is the subject of TE.Props.C12 proper.)
-/
import TE.Lemmas.Plumb
import TE.Gen.Plumbing
namespace TE.C12
open TE TE.Plumb

theorem C12_plumb_perm {A C R : Type} (O : Ops A C) (P : ClassPlumb) (g : View A C → Except Err R)
    (hb : Basic P = true)
    (l l' : List (Contrib A C)) (hp : l.Perm l') (s s' : St A C)
    (he : eval (plumbImpl O P g) (single l) = .ok s) (he' : eval (plumbImpl O P g) (single l') = .ok s') :
    s.num = s'.num ∧ ∀ f, (s.lst f).Perm (s'.lst f) := by
  simp only [Basic, Bool.and_eq_true, Bool.not_eq_true'] at hb
  rw [eval_single] at he he'
  simp only [Except.ok.injEq] at he he'
  subst he; subst he'
  refine ⟨funext fun f => ?_, fun f => ?_⟩
  · rw [foldl_upd_num O _ hb.1 hb.2, foldl_upd_num O _ hb.1 hb.2]
    rcases numOf P.fields f with _ | ⟨u, m, src⟩
    · rfl
    · exact foldl_op_perm O u (fun b => b.num f) hp _
  · rw [foldl_upd_lst, foldl_upd_lst]
    rcases lstOf P.fields f with _ | x
    · exact List.Perm.refl _
    · exact List.Perm.append_left _ (hp.map _)

/-- the same for every WELL-FORMED row, including those with an adoption branch (for shape-coherent batches) and
    with a derived state (for a non-empty stream): the numeric states do not depend on the order of the batches. -/
theorem C12_plumb_perm_wf {A C R : Type} (O : Ops A C) (P : ClassPlumb) (g : View A C → Except Err R)
    (hwf : WF P = true)
    (l l' : List (Contrib A C)) (hp : l.Perm l') (s s' : St A C)
    (he : eval (plumbImpl O P g) (single l) = .ok s) (he' : eval (plumbImpl O P g) (single l') = .ok s')
    (hc : hasAdopt P.fields = true → Coh O l) (hd : hasDer P.fields = true → l ≠ []) :
    s.num = s'.num ∧ ∀ f, (s.lst f).Perm (s'.lst f) := by
  have hall : P.fields.all (wfField P.fields) = true := by
    simp only [WF, Bool.and_eq_true] at hwf; exact hwf.2
  have r := plumb_refines O P g hwf (single l) s he (by rw [flatten_single]; exact hc)
  have r' := plumb_refines O P g hwf (single l') s' he' (by rw [flatten_single]; exact fun h => (hc h).perm O hp)
  rw [flatten_single] at r r'
  refine ⟨funext fun f => ?_, fun f => ?_⟩
  · have hcan := congrFun (canon_num_perm O P.fields hp)
    rcases hf : effDer P.fields f with _ | ⟨a, b, iu, im, ae⟩
    · rw [r.1.1 f hf, r'.1.1 f hf, hcan f]
    · obtain ⟨-, hdf⟩ := effDer_some hf
      have hne := hd (hasDer_of hdf)
      have hne' : l' ≠ [] := fun e => hne (by simpa [e] using hp)
      obtain ⟨-, -, hna, hnb⟩ := wf_der hall hdf
      have ea := effDer_of_num hna
      have eb := effDer_of_num hnb
      rw [r.2 f a b iu im ae hf hne, r'.2 f a b iu im ae hf hne', r.1.1 a ea, r'.1.1 a ea, r.1.1 b eb, r'.1.1 b eb,
        hcan a, hcan b]
  · rw [eval_single] at he he'
    simp only [Except.ok.injEq] at he he'
    subst he; subst he'
    rw [foldl_upd_lst, foldl_upd_lst]
    rcases lstOf P.fields f with _ | x
    · exact List.Perm.refl _
    · exact List.Perm.append_left _ (hp.map _)

/-- a class all of whose states are numeric gives the same result for every order of the batches. -/
theorem C12_plumb_numeric_order_free {A C R : Type} (O : Ops A C) (P : ClassPlumb) (g : View A C → Except Err R)
    (hb : Basic P = true)
    (hnum : P.fields.all (fun f => match f with | .lst .. => false | _ => true) = true)
    (l l' : List (Contrib A C)) (hp : l.Perm l') (s s' : St A C)
    (he : eval (plumbImpl O P g) (single l) = .ok s) (he' : eval (plumbImpl O P g) (single l') = .ok s') :
    (plumbImpl O P g).out s = (plumbImpl O P g).out s' := by
  have hn := (C12_plumb_perm O P g hb l l' hp s s' he he').1
  rw [eval_single] at he he'
  simp only [Except.ok.injEq] at he he'
  have hl : ∀ f, lstOf P.fields f = none := by
    intro f
    generalize P.fields = fs at hnum
    induction fs with
    | nil => rfl
    | cons x rest ih =>
      simp only [List.all_cons, Bool.and_eq_true] at hnum
      cases x with
      | lst n sc gd d rd raw => simp at hnum
      | _ => simpa [lstOf] using ih hnum.2
  have hls : s.lst = s'.lst := by
    subst he; subst he'
    funext f
    rw [foldl_upd_lst, foldl_upd_lst, hl f]
  have : view O P.fields s = view O P.fields s' := by simp only [view, hn, hls]
  simp only [plumbImpl, this]

/-- the generated rows that consist of numeric states only (their order-freeness needs nothing else). -/
theorem C12_plumb_numeric_rows :
    ((Gen.classPlumb.filter fun P => P.unsupported.isNone && !P.fields.isEmpty && Basic P &&
        P.fields.all (fun f => match f with | .lst .. => false | _ => true)).length ≥ 28) := by
  decide +kernel

end TE.C12
