/-
  C07, tied to the SOURCE of the numeric kernels of the aggregation / regression / image metrics: for every kernel
  that harness/translators/kernels.py translates from /repo's working tree (TE/Gen/KernelsAgg.lean, regenerated on
  every run of ./check C07), evaluating the GENERATED term on well-shaped arguments gives exactly the hand-written
  model of TE/Model/Agg.lean — for all lengths and all rational values.  The theorems of TE/Props/C07.lean say that
  those models compute the textbook formulas; a change of a kernel changes its generated term and breaks its theorem
  here, and the runner then searches for a failing input.

  ONLY property theorems and non-vacuity examples; helper lemmas are in TE/Lemmas/Kernels.lean and
  TE/Lemmas/KernelsAgg.lean.  Proofs about generated terms are wrapped in `kernel_proof "<theorem>: …"` so that the
  build error names the theorem that no longer holds.
-/
import TE.Model.TExpr
import TE.Model.Agg
import TE.Gen.KernelsAgg
import TE.Lemmas.Kernels
import TE.Lemmas.KernelsAgg
namespace TE.C07K
open TE TE.TX TE.TXL
set_option linter.unusedSimpArgs false

/-! ## 0. coverage -/

theorem kernels_listed :
    Gen.Agg.kernels.map (·.name) =
      ["mean_update", "mean_compute", "sum_update", "auc_compute", "mse__update", "mean_squared_error_update",
       "mean_squared_error_compute", "r2__update", "r2_score_update", "r2__compute", "r2_score_compute",
       "psnr_update", "psnr_compute"] := by
  kernel_proof "kernels_listed: the kernel table of C07 changed" => decide

/-- every kernel of the table is inside the grammar. -/
theorem kernels_coverage :
    Gen.Agg.kernels.filterMap (fun k => k.reason?.map fun r => (k.name, r)) = [] := by
  kernel_proof "kernels_coverage: a kernel of C07 left the translator's grammar" => decide

/-- no translated kernel has a branch outside the grammar (`.unsupported` leaf). -/
theorem kernels_partial : Gen.Agg.partials = [] := by
  kernel_proof "kernels_partial: a branch of a C07 kernel left the translator's grammar" => decide

/-! ## 1. `_mean_update`, `_mean_compute`, `_sum_update` -/

def pairQ (p : Q × Q) : Val := .pair (scalarQ p.1) (scalarQ p.2)

/-- `_mean_update` with a Python float weight = `meanUpdate … (.scalar w)`. -/
theorem k_mean_update_float (xs : List Q) (w : Q) :
    TX.eval [("input", vecQ xs), ("weight", .num w)] Gen.Agg.k_mean_update
      = (Agg.meanUpdate xs (.scalar w)).map pairQ := by
  kernel_proof "k_mean_update_float: the generated term of _mean_update no longer evaluates to the model meanUpdate (float weight)" =>
    unfold Gen.Agg.k_mean_update
    tx_eval2 [Agg.meanUpdate, sum_eq_qsum, pairQ]
    try simp only [Rat.mul_comm]

/-- … with a Python int weight. -/
theorem k_mean_update_int (xs : List Q) (w : Int) :
    TX.eval [("input", vecQ xs), ("weight", .int w)] Gen.Agg.k_mean_update
      = (Agg.meanUpdate xs (.scalar (w : Q))).map pairQ := by
  kernel_proof "k_mean_update_int: the generated term of _mean_update no longer evaluates to the model meanUpdate (int weight)" =>
    unfold Gen.Agg.k_mean_update
    tx_eval2 [Agg.meanUpdate, sum_eq_qsum, pairQ]
    try simp only [Rat.mul_comm]

/-- … with a tensor weight, the `ValueError` of a size mismatch included. -/
theorem k_mean_update_tensor (xs ws : List Q) :
    TX.eval [("input", vecQ xs), ("weight", vecQ ws)] Gen.Agg.k_mean_update
      = (Agg.meanUpdate xs (.tensor ws)).map pairQ := by
  kernel_proof "k_mean_update_tensor: the generated term of _mean_update no longer evaluates to the model meanUpdate (tensor weight)" =>
    unfold Gen.Agg.k_mean_update
    by_cases h : ws.length = xs.length
    · obtain ⟨R, rfl, rfl⟩ := exists_rows2 ws xs h
      tx_eval2 [Agg.meanUpdate, sum_eq_qsum, pairQ]
      try simp only [Rat.mul_comm]
    · have h' : ¬ xs.length = ws.length := fun e => h e.symm
      tx_eval2 [Agg.meanUpdate, sum_eq_qsum, h, h', pairQ]

/-- `_mean_compute` (the functional `mean`) = `meanFn`: torch division of the two sums. -/
theorem k_mean_compute_float (xs : List Q) (w : Q) :
    TX.eval [("input", vecQ xs), ("weight", .num w)] Gen.Agg.k_mean_compute
      = (Agg.meanFn xs (.scalar w)).map Val.scalar := by
  kernel_proof "k_mean_compute_float: the generated term of _mean_compute no longer evaluates to the model meanFn (float weight)" =>
    unfold Gen.Agg.k_mean_compute
    tx_eval2 [Agg.meanFn, Agg.meanUpdate, sum_eq_qsum]
    try simp only [Rat.mul_comm]

theorem k_mean_compute_tensor (xs ws : List Q) :
    TX.eval [("input", vecQ xs), ("weight", vecQ ws)] Gen.Agg.k_mean_compute
      = (Agg.meanFn xs (.tensor ws)).map Val.scalar := by
  kernel_proof "k_mean_compute_tensor: the generated term of _mean_compute no longer evaluates to the model meanFn (tensor weight)" =>
    unfold Gen.Agg.k_mean_compute
    by_cases h : ws.length = xs.length
    · obtain ⟨R, rfl, rfl⟩ := exists_rows2 ws xs h
      tx_eval2 [Agg.meanFn, Agg.meanUpdate, sum_eq_qsum]
      try simp only [Rat.mul_comm]
    · have h' : ¬ xs.length = ws.length := fun e => h e.symm
      tx_eval2 [Agg.meanFn, Agg.meanUpdate, sum_eq_qsum, h, h']

/-- `_sum_update` = `sumUpdate`. -/
theorem k_sum_update_float (xs : List Q) (w : Q) :
    TX.eval [("input", vecQ xs), ("weight", .num w)] Gen.Agg.k_sum_update
      = (Agg.sumUpdate xs (.scalar w)).map scalarQ := by
  kernel_proof "k_sum_update_float: the generated term of _sum_update no longer evaluates to the model sumUpdate (float weight)" =>
    unfold Gen.Agg.k_sum_update
    tx_eval2 [Agg.sumUpdate, sum_eq_qsum]

theorem k_sum_update_tensor (xs ws : List Q) :
    TX.eval [("input", vecQ xs), ("weight", vecQ ws)] Gen.Agg.k_sum_update
      = (Agg.sumUpdate xs (.tensor ws)).map scalarQ := by
  kernel_proof "k_sum_update_tensor: the generated term of _sum_update no longer evaluates to the model sumUpdate (tensor weight)" =>
    unfold Gen.Agg.k_sum_update
    by_cases h : ws.length = xs.length
    · obtain ⟨R, rfl, rfl⟩ := exists_rows2 ws xs h
      tx_eval2 [Agg.sumUpdate, sum_eq_qsum]
    · have h' : ¬ xs.length = ws.length := fun e => h e.symm
      tx_eval2 [Agg.sumUpdate, sum_eq_qsum, h, h']


/-! ## 2. PSNR -/

/-- `_psnr_update` = `psnrUpdate`: `(Σ(input − target)², numel)`. -/
theorem k_psnr_update_eq (xs ts : List Q) (h : xs.length = ts.length) :
    TX.eval [("input", vecQ xs), ("target", vecQ ts)] Gen.Agg.k_psnr_update
      = .ok (pairQ (Agg.psnrUpdate xs ts)) := by
  obtain ⟨R, rfl, rfl⟩ := exists_rows2 xs ts h
  kernel_proof "k_psnr_update_eq: the generated term of _psnr_update no longer evaluates to the model psnrUpdate" =>
    unfold Gen.Agg.k_psnr_update
    tx_eval2 [Agg.psnrUpdate, sum_eq_qsum, pairQ]

/-- `_psnr_compute` is `10 · log10(arg)` where `arg` evaluates to the model's `psnrArg` (the model is "up to the
    argument of `log10`"; `log10` is uninterpreted on both sides). -/
theorem k_psnr_compute_eq (sse n : Q) (range : XQ) :
    ∃ arg, Gen.Agg.k_psnr_compute = .arith .mul (.int 10) (.ufun "log10" arg) ∧
      TX.eval [("sum_square_error", scalarQ sse), ("num_observations", scalarQ n), ("data_range", .scalar range)] arg
        = .ok (.scalar (Agg.psnrArg sse n range)) := by
  kernel_proof "k_psnr_compute_eq: the generated term of _psnr_compute is no longer 10·log10 of the model psnrArg" =>
    refine ⟨_, rfl, ?_⟩
    tx_eval2 [Agg.psnrArg, agg_xmul, agg_xdivX]
    rfl

/-! ## 3. mean squared error -/

/-- `_mean_squared_error_update` is its TorchScript helper `_update` behind the input check. -/
theorem k_mean_squared_error_update_inlines : Gen.Agg.k_mean_squared_error_update = Gen.Agg.k_mse__update := by
  kernel_proof "k_mean_squared_error_update_inlines: _mean_squared_error_update is no longer _update behind the input check" => rfl

/-- 1-d input, no sample weights: `(Σ(target − input)², n)`. -/
theorem k_mse_update_1d (xs ts : List Q) (h : xs.length = ts.length) :
    TX.eval [("input", vecQ xs), ("target", vecQ ts), ("sample_weight", .none)] Gen.Agg.k_mse__update
      = .ok (.pair (scalarQ (Agg.sseCol none xs ts)) (scalarQ (ts.length : Q))) := by
  obtain ⟨R, rfl, rfl⟩ := exists_rows2 xs ts h
  kernel_proof "k_mse_update_1d: the generated term of mean_squared_error._update no longer evaluates to the model sseCol (no weights)" =>
    unfold Gen.Agg.k_mse__update
    tx_eval2 [Agg.sseCol, sum_eq_qsum]

/-- 1-d input with sample weights: `(Σ w·(target − input)², Σ w)`. -/
theorem k_mse_update_1d_weighted (xs ts ws : List Q) (h : xs.length = ts.length) (hw : ts.length = ws.length) :
    TX.eval [("input", vecQ xs), ("target", vecQ ts), ("sample_weight", vecQ ws)] Gen.Agg.k_mse__update
      = .ok (.pair (scalarQ (Agg.sseCol (some ws) xs ts)) (scalarQ ws.sum)) := by
  obtain ⟨R, rfl, rfl, rfl⟩ := exists_rows3 xs ts ws h hw
  kernel_proof "k_mse_update_1d_weighted: the generated term of mean_squared_error._update no longer evaluates to the model sseCol (weights)" =>
    unfold Gen.Agg.k_mse__update
    tx_eval2 [Agg.sseCol, sum_eq_qsum, squeezeV]

/-- 2-d input `(n, d)`, `n > 0`, no sample weights: `.sum(dim=0)` = the model on the `d` columns. -/
theorem k_mse_update_2d (X T : List (List Q)) (d : Nat) (hlen : X.length = T.length)
    (hX : ∀ r ∈ X, r.length = d) (hT : ∀ r ∈ T, r.length = d) (hne : X ≠ []) :
    TX.eval [("input", matQ X), ("target", matQ T), ("sample_weight", .none)] Gen.Agg.k_mse__update
      = .ok (.pair (vecQ (Agg.mseUpdate none (Agg.cols d X) (Agg.cols d T) T.length).1)
          (scalarQ (Agg.mseUpdate none (Agg.cols d X) (Agg.cols d T) T.length).2)) := by
  have hz : ∀ p ∈ X.zip T, p.1.length = p.2.length := by
    intro p hp
    rw [hX p.1 (List.of_mem_zip hp).1, hT p.2 (List.of_mem_zip hp).2]
  obtain ⟨R, rfl, rfl⟩ := exists_cells X T hlen hz
  have hd : ∀ r ∈ R, r.length = d := by
    intro r hr
    have := hX (r.map (·.1)) (List.mem_map_of_mem hr)
    simpa using this
  have hne' : R ≠ [] := by
    intro e; subst e; exact hne rfl
  have h0 : (fun p : Q × Q => (p.2 - p.1) * (p.2 - p.1)) (0, 0) = 0 := by decide +kernel
  have hs := sumDim0V_rows R (fun p => (p.2 - p.1) * (p.2 - p.1)) (0, 0) h0 d hd hne'
  simp only [sumDim0V, vecQ, List.map_map, Function.comp_def, Except.ok.injEq, Val.vec.injEq] at hs
  kernel_proof "k_mse_update_2d: the generated term of mean_squared_error._update no longer evaluates to the model mseUpdate on the columns (2-d, no weights)" =>
    unfold Gen.Agg.k_mse__update
    tx_eval2 [bzipM_rows_map, hs,
      Agg.mseUpdate, Agg.cols, Agg.sseCol, sum_eq_qsum, col_cells R (·.1) (0, 0) rfl, col_cells R (·.2) (0, 0) rfl]

/-- 2-d input with per-sample weights: `sample_weight.unsqueeze(-1)` broadcast over the outputs. -/
theorem k_mse_update_2d_weighted (X T : List (List Q)) (ws : List Q) (d : Nat) (h : SameShape X T)
    (hw : T.length = ws.length) (hX : ∀ r ∈ X, r.length = d) (hne : X ≠ []) :
    TX.eval [("input", matQ X), ("target", matQ T), ("sample_weight", vecQ ws)] Gen.Agg.k_mse__update
      = .ok (.pair (vecQ (Agg.mseUpdate (some ws) (Agg.cols d X) (Agg.cols d T) T.length).1)
          (scalarQ (Agg.mseUpdate (some ws) (Agg.cols d X) (Agg.cols d T) T.length).2)) := by
  obtain ⟨C, rfl, rfl⟩ := exists_cells X T h.1 h.2
  obtain ⟨R, rfl, rfl⟩ := exists_rows2 C ws (by simpa using hw)
  have hd : ∀ r ∈ R, r.1.length = d := by
    intro r hr
    have := hX (r.1.map (·.1)) (by simp only [List.map_map]; exact List.mem_map_of_mem (f := fun x => List.map (·.1) x.1) hr)
    simpa using this
  have hne' : R ≠ [] := by
    intro e; subst e; exact hne rfl
  have hs := sumDim0V_rows' R (·.1) (fun r p => (p.2 - p.1) * (p.2 - p.1) * r.2) (0, 0) (by intro r; grind) d hd hne'
  simp only [sumDim0V, vecQ, List.map_map, Function.comp_def, Except.ok.injEq, Val.vec.injEq] at hs
  have hsw := sum_unsqueezed R (·.2) hne'
  kernel_proof "k_mse_update_2d_weighted: the generated term of mean_squared_error._update no longer evaluates to the model mseUpdate on the columns (2-d, sample weights)" =>
    unfold Gen.Agg.k_mse__update
    simp only [sumDim0V, bind, Except.bind, List.map_map, Function.comp_def] at hsw
    tx_eval2 [bzipM_rows_map' _ R (·.1), bzipM_rows_single, hs, hsw, Agg.mseUpdate, Agg.cols, Agg.sseCol, sum_eq_qsum,
      col_cells' R (·.1) (·.1) (0, 0) rfl, col_cells' R (·.1) (·.2) (0, 0) rfl]

example : ∀ r ∈ ([[1, 2], [3, 4]] : List (List Q)), r.length = 2 := by decide

/-- `_mean_squared_error_compute`, `multioutput="raw_values"`: `sse / (|Σw|.clamp(min=eps) · sign(Σw))` per output. -/
theorem k_mse_compute_raw (sse : List Q) (sw : Q) :
    TX.eval [("sum_squared_error", vecQ sse), ("multioutput", .str "raw_values"), ("sum_weight", scalarQ sw)]
        Gen.Agg.k_mean_squared_error_compute
      = .ok (.vec (Agg.mseCompute false sse sw)) := by
  kernel_proof "k_mse_compute_raw: the generated term of _mean_squared_error_compute no longer evaluates to the model mseCompute (raw_values)" =>
    unfold Gen.Agg.k_mean_squared_error_compute
    tx_eval2 [Agg.mseCompute, Agg.mseRaw, xsign, xabs, xclampMin, absQ_eq_qabs, clampMin_val, sign_val, Agg.eps64]

/-- any other `multioutput` (the input check admits `"uniform_average"`): the mean of the raw values. -/
theorem k_mse_compute_uniform (sse : List Q) (sw : Q) :
    ∃ x, Agg.mseCompute true sse sw = [x] ∧
      TX.eval [("sum_squared_error", vecQ sse), ("multioutput", .str "uniform_average"), ("sum_weight", scalarQ sw)]
          Gen.Agg.k_mean_squared_error_compute
        = .ok (.scalar x) := by
  refine ⟨_, rfl, ?_⟩
  kernel_proof "k_mse_compute_uniform: the generated term of _mean_squared_error_compute no longer evaluates to the model mseCompute (uniform_average)" =>
    unfold Gen.Agg.k_mean_squared_error_compute
    tx_eval2 [Agg.mseCompute, Agg.mseRaw, xsign, xabs, xclampMin, absQ_eq_qabs, clampMin_val, sign_val, agg_xmean, Agg.eps64]

/-- 1-d data: the sums are 0-d tensors. -/
theorem k_mse_compute_scalar (sse sw : Q) :
    TX.eval [("sum_squared_error", scalarQ sse), ("multioutput", .str "raw_values"), ("sum_weight", scalarQ sw)]
        Gen.Agg.k_mean_squared_error_compute
      = .ok (.scalar ((Agg.mseRaw [sse] sw).headD .nan)) := by
  kernel_proof "k_mse_compute_scalar: the generated term of _mean_squared_error_compute no longer evaluates to the model mseRaw (0-d sums)" =>
    unfold Gen.Agg.k_mean_squared_error_compute
    tx_eval2 [Agg.mseRaw, xsign, xabs, xclampMin, absQ_eq_qabs, clampMin_val, sign_val, Agg.eps64, List.map_cons, List.map_nil,
      List.headD_cons]

/-! ## 4. R² -/

theorem k_r2_score_update_inlines : Gen.Agg.k_r2_score_update = Gen.Agg.k_r2__update := by
  kernel_proof "k_r2_score_update_inlines: _r2_score_update is no longer _update behind the input check" => rfl

/-- 1-d data: `(Σy², Σy, Σ(y − ŷ)², n)` = `r2Update` on the single column. -/
theorem k_r2_update_1d (xs ts : List Q) (h : xs.length = ts.length) :
    TX.eval [("input", vecQ xs), ("target", vecQ ts)] Gen.Agg.k_r2__update
      = .ok (.pair (scalarQ ((Agg.r2Update [xs] [ts]).1.headD 0)) (.pair (scalarQ ((Agg.r2Update [xs] [ts]).2.1.headD 0))
          (.pair (scalarQ ((Agg.r2Update [xs] [ts]).2.2.headD 0)) (scalarQ (ts.length : Q))))) := by
  obtain ⟨R, rfl, rfl⟩ := exists_rows2 xs ts h
  kernel_proof "k_r2_update_1d: the generated term of r2_score._update no longer evaluates to the model r2Update" =>
    unfold Gen.Agg.k_r2__update
    tx_eval2 [Agg.r2Update, sum_eq_qsum, List.map_cons, List.map_nil, List.headD_cons, List.zipWith_cons_cons,
      List.zipWith_nil_left]

/-- 2-d data `(n, d)`, `n > 0`: the three column sums = `r2Update` on the `d` columns. -/
theorem k_r2_update_2d (X T : List (List Q)) (d : Nat) (hlen : X.length = T.length)
    (hX : ∀ r ∈ X, r.length = d) (hT : ∀ r ∈ T, r.length = d) (hne : X ≠ []) :
    TX.eval [("input", matQ X), ("target", matQ T)] Gen.Agg.k_r2__update
      = .ok (.pair (vecQ (Agg.r2Update (Agg.cols d X) (Agg.cols d T)).1)
          (.pair (vecQ (Agg.r2Update (Agg.cols d X) (Agg.cols d T)).2.1)
            (.pair (vecQ (Agg.r2Update (Agg.cols d X) (Agg.cols d T)).2.2) (scalarQ (T.length : Q))))) := by
  have hz : ∀ p ∈ X.zip T, p.1.length = p.2.length := by
    intro p hp
    rw [hX p.1 (List.of_mem_zip hp).1, hT p.2 (List.of_mem_zip hp).2]
  obtain ⟨R, rfl, rfl⟩ := exists_cells X T hlen hz
  have hd : ∀ r ∈ R, r.length = d := by
    intro r hr
    have := hX (r.map (·.1)) (List.mem_map_of_mem hr)
    simpa using this
  have hne' : R ≠ [] := by
    intro e; subst e; exact hne rfl
  have h0 : (fun p : Q × Q => (p.2 - p.1) * (p.2 - p.1)) (0, 0) = 0 := by decide +kernel
  have h1 : (fun p : Q × Q => p.2 * p.2) (0, 0) = 0 := by decide +kernel
  have hs0 := sumDim0V_rows R (fun p => (p.2 - p.1) * (p.2 - p.1)) (0, 0) h0 d hd hne'
  have hs1 := sumDim0V_rows R (fun p => p.2 * p.2) (0, 0) h1 d hd hne'
  have hs2 := sumDim0V_rows R (fun p => p.2) (0, 0) rfl d hd hne'
  simp only [sumDim0V, vecQ, List.map_map, Function.comp_def, Except.ok.injEq, Val.vec.injEq] at hs0 hs1 hs2
  kernel_proof "k_r2_update_2d: the generated term of r2_score._update no longer evaluates to the model r2Update on the columns (2-d)" =>
    unfold Gen.Agg.k_r2__update
    tx_eval2 [bzipM_rows_map, hs0, hs1, hs2,
      Agg.r2Update, Agg.cols, sum_eq_qsum, col_cells R (·.1) (0, 0) rfl, col_cells R (·.2) (0, 0) rfl]

/-- `_r2_score_compute` = `r2Compute`: both `ValueError`s (fewer than two samples; `num_regressors ≥ n − 1`), every
    `multioutput` mode, the adjusted form for `num_regressors ≠ 0`; NaN / ±inf of a constant target included. -/
theorem k_r2_score_compute_eq (sso so rss : List Q) (n : Q) (mo : Agg.MultiOut) (p : Nat)
    (h1 : sso.length = so.length) (h2 : so.length = rss.length) :
    TX.eval [("sum_squared_obs", vecQ sso), ("sum_obs", vecQ so), ("rss", vecQ rss), ("num_obs", scalarQ n),
             ("multioutput", moVal mo), ("num_regressors", .int (p : Int))] Gen.Agg.k_r2_score_compute
      = (Agg.r2Compute sso so rss n mo p).map (r2Out mo) := by
  obtain ⟨R, rfl, rfl, rfl⟩ := exists_rows3 sso so rss h1 h2
  have e2 : (((2 : Int)) : Q) = 2 := by simp
  kernel_proof "k_r2_score_compute_eq: the generated term of _r2_score_compute no longer evaluates to the model r2Compute" =>
    unfold Gen.Agg.k_r2_score_compute
    by_cases hn : n < 2
    · cases mo <;> simp only [moVal] <;>
        tx_eval2 [Agg.r2Compute, qcmp_lt, qcmp_ge_le, hn, e2, Except.map]
    · have hn0 : n ≠ 0 := by grind
      by_cases hp : n - 1 ≤ (p : Q)
      · cases mo <;> simp only [moVal] <;>
          tx_eval2 [Agg.r2Compute, qcmp_lt, qcmp_ge_le, hn, hp, e2, Except.map]
      · have hb : (((p : Nat) : Int) == 0) = decide (p = 0) := natCast_int_beq_zero p
        by_cases hp0 : p = 0
        · have hb' : (((p : Nat) : Int) == 0) = true := by rw [hb]; exact decide_eq_true hp0
          cases mo <;> simp only [moVal] <;>
          tx_eval2 [Agg.r2Compute, qcmp_lt, qcmp_ge_le, hn, hp, e2, Except.map, Agg.r2Tss, Agg.r2Raw, Agg.r2Adjust, agg_xsub,
            agg_xmul, agg_xdivX, agg_xmean, agg_xsum, r2Out, xdiv_of_ne _ _ hn0, hb', if_pos hp0, sum_eq_qsum,
            List.headD_cons, List.map_cons, List.map_nil] <;>
          simp only [xarith]
        · have hb' : (((p : Nat) : Int) == 0) = false := by rw [hb]; exact decide_eq_false hp0
          cases mo <;> simp only [moVal] <;>
          tx_eval2 [Agg.r2Compute, qcmp_lt, qcmp_ge_le, hn, hp, e2, Except.map, Agg.r2Tss, Agg.r2Raw, Agg.r2Adjust, agg_xsub,
            agg_xmul, agg_xdivX, agg_xmean, agg_xsum, r2Out, xdiv_of_ne _ _ hn0, hb', if_neg hp0, sum_eq_qsum,
            List.headD_cons, List.map_cons, List.map_nil] <;>
          simp only [xarith]

/-- the TorchScript helper `_compute` (no guards) = `r2Compute` where the guards pass. -/
theorem k_r2_compute_eq (sso so rss : List Q) (n : Q) (mo : Agg.MultiOut) (p : Nat)
    (h1 : sso.length = so.length) (h2 : so.length = rss.length) (hn : ¬ n < 2) (hp : ¬ n - 1 ≤ (p : Q)) :
    TX.eval [("sum_squared_obs", vecQ sso), ("sum_obs", vecQ so), ("rss", vecQ rss), ("num_obs", scalarQ n),
             ("multioutput", moVal mo), ("num_regressors", .int (p : Int))] Gen.Agg.k_r2__compute
      = (Agg.r2Compute sso so rss n mo p).map (r2Out mo) := by
  obtain ⟨R, rfl, rfl, rfl⟩ := exists_rows3 sso so rss h1 h2
  have e2 : (((2 : Int)) : Q) = 2 := by simp
  kernel_proof "k_r2_compute_eq: the generated term of r2_score._compute no longer evaluates to the model r2Compute" =>
    unfold Gen.Agg.k_r2__compute
    have hn0 : n ≠ 0 := by grind
    have hb : (((p : Nat) : Int) == 0) = decide (p = 0) := natCast_int_beq_zero p
    by_cases hp0 : p = 0
    · have hb' : (((p : Nat) : Int) == 0) = true := by rw [hb]; exact decide_eq_true hp0
      cases mo <;> simp only [moVal] <;>
          tx_eval2 [Agg.r2Compute, qcmp_lt, qcmp_ge_le, hn, hp, e2, Except.map, Agg.r2Tss, Agg.r2Raw, Agg.r2Adjust, agg_xsub,
            agg_xmul, agg_xdivX, agg_xmean, agg_xsum, r2Out, xdiv_of_ne _ _ hn0, hb', if_pos hp0, sum_eq_qsum,
            List.headD_cons, List.map_cons, List.map_nil] <;>
          simp only [xarith]
    · have hb' : (((p : Nat) : Int) == 0) = false := by rw [hb]; exact decide_eq_false hp0
      cases mo <;> simp only [moVal] <;>
          tx_eval2 [Agg.r2Compute, qcmp_lt, qcmp_ge_le, hn, hp, e2, Except.map, Agg.r2Tss, Agg.r2Raw, Agg.r2Adjust, agg_xsub,
            agg_xmul, agg_xdivX, agg_xmean, agg_xsum, r2Out, xdiv_of_ne _ _ hn0, hb', if_neg hp0, sum_eq_qsum,
            List.headD_cons, List.map_cons, List.map_nil] <;>
          simp only [xarith]

example : ¬ ((3 : Q) < 2) ∧ ¬ ((3 : Q) - 1 ≤ ((1 : Nat) : Q)) := by decide +kernel

/-! ## 5. trapezoidal AUC -/

/-- 1-d `x`, `y`: one task. -/
theorem k_auc_compute_1d (xs ys : List Q) (h : xs.length = ys.length) (hne : xs ≠ []) :
    TX.eval [("x", vecQ xs), ("y", vecQ ys), ("reorder", .bool false)] Gen.Agg.k_auc_compute
      = .ok (vecQ (Agg.auc false [xs] [ys])) := by
  have hx : ¬ ((xs.length : Int) = 0) := by
    intro e; exact hne (List.length_eq_zero_iff.mp (by omega))
  have hy : ¬ ((ys.length : Int) = 0) := by rw [← h]; exact hx
  kernel_proof "k_auc_compute_1d: the generated term of _auc_compute no longer evaluates to the model auc (trapezoidal rule)" =>
    unfold Gen.Agg.k_auc_compute
    tx_eval2 [trapzV, Agg.auc, Agg.aucRow, h, hx, hy, xtrapz_val, List.length_cons, List.length_nil, List.zipWith_cons_cons,
      List.zipWith_nil_left, List.all_cons, List.all_nil, decide_true, id]
    simp

/-- 2-d `x`, `y` of one shape (one task per row), not empty. -/
theorem k_auc_compute_2d (X Y : List (List Q)) (h : SameShape X Y) (hne : X.flatten ≠ []) :
    TX.eval [("x", matQ X), ("y", matQ Y), ("reorder", .bool false)] Gen.Agg.k_auc_compute
      = .ok (vecQ (Agg.auc false X Y)) := by
  obtain ⟨R, rfl, rfl⟩ := exists_cells X Y h.1 h.2
  have hR := flatten_cells_ne R _ hne
  have hx := numel_cells_ne R (fun p => XQ.val p.1) hR
  have hy := numel_cells_ne R (fun p => XQ.val p.2) hR
  kernel_proof "k_auc_compute_2d: the generated term of _auc_compute no longer evaluates to the model auc on task rows" =>
    unfold Gen.Agg.k_auc_compute
    tx_eval2 [hx, hy, trapzV, Agg.auc, Agg.aucRow, xtrapz_val', List.all_map]
    simp

/-- … with `reorder=True`: every row sorted on its own. -/
theorem k_auc_compute_2d_reorder (X Y : List (List Q)) (h : SameShape X Y) (hne : X.flatten ≠ []) :
    TX.eval [("x", matQ X), ("y", matQ Y), ("reorder", .bool true)] Gen.Agg.k_auc_compute
      = .ok (vecQ (Agg.auc true X Y)) := by
  obtain ⟨R, rfl, rfl⟩ := exists_rows2 X Y h.1
  have hrow : ∀ r ∈ R, r.1.length = r.2.length := fun r hr => h.2 r (by simpa [List.zip_map'] using hr)
  have hx : ¬ (((R.map fun r => r.1.map XQ.val).flatten.length : Int) = 0) := by
    have := numel_cells_ne (R.map (·.1)) XQ.val hne
    simpa only [List.map_map, Function.comp_def] using this
  have hy : ¬ (((R.map fun r => r.2.map XQ.val).flatten.length : Int) = 0) := by
    rw [flatten_length_rows R hrow]; exact hx
  have hg : seqE (R.map fun r => gatherRow (r.2.map XQ.val)
        ((xargsortStable (r.1.map XQ.val)).map fun p => XQ.val ((p.2 : Nat) : Q)))
      = .ok (R.map fun r => aucGathered r.1 r.2) :=
    seqE_congr_ok R _ _ (fun r hr => auc_row_gather r.1 r.2 (hrow r hr))
  kernel_proof "k_auc_compute_2d_reorder: the generated term of _auc_compute no longer evaluates to the model auc on task rows (reorder=True)" =>
    unfold Gen.Agg.k_auc_compute
    tx_eval2 [hx, hy, gatherLastV, Nat.le_refl, hg, trapzV, auc_row_trapz, Agg.auc, List.all_map, aucGathered_length]
    simp

example : SameShape ([[0, 1, 2], [2, 0, 1]] : List (List Q)) ([[1, 1, 3], [1, 1, 3]] : List (List Q)) ∧
    ([[0, 1, 2], [2, 0, 1]] : List (List Q)).flatten ≠ [] := by
  refine ⟨⟨rfl, ?_⟩, ?_⟩ <;> decide

/-- an empty `x`: the empty tensor. -/
theorem k_auc_compute_empty (ys : List Q) (ro : Bool) :
    TX.eval [("x", vecQ []), ("y", vecQ ys), ("reorder", .bool ro)] Gen.Agg.k_auc_compute = .ok (.vec []) := by
  kernel_proof "k_auc_compute_empty: the generated term of _auc_compute no longer returns the empty tensor for empty input" =>
    unfold Gen.Agg.k_auc_compute
    tx_eval2 [List.map_nil, List.length_nil]
    rfl

/-- `reorder=True`, 1-d: `torch.sort(x, stable=True)` (stable insertion sort of the model) and `y.gather(1, x_idx)`,
    then the trapezoidal rule = `aucRow true`. -/
theorem k_auc_compute_1d_reorder (xs ys : List Q) (h : xs.length = ys.length) (hne : xs ≠ []) :
    TX.eval [("x", vecQ xs), ("y", vecQ ys), ("reorder", .bool true)] Gen.Agg.k_auc_compute
      = .ok (vecQ (Agg.auc true [xs] [ys])) := by
  have hx : ¬ ((xs.length : Int) = 0) := by
    intro e; exact hne (List.length_eq_zero_iff.mp (by omega))
  have hy : ¬ ((ys.length : Int) = 0) := by rw [← h]; exact hx
  have hg := gatherRow_sorted ys (Agg.argsortStable xs) (fun p hp => h ▸ argsortStable_idx_lt xs p hp)
  have ht := xtrapz_val ((Agg.argsortStable xs).map (·.1)) ((Agg.argsortStable xs).map fun p => ys.getD p.2 0)
  simp only [List.map_map, Function.comp_def] at ht
  kernel_proof "k_auc_compute_1d_reorder: the generated term of _auc_compute no longer evaluates to the model auc (reorder=True)" =>
    unfold Gen.Agg.k_auc_compute
    tx_eval2 [hx, hy, List.map_cons, List.map_nil, xargsortStable_val, valIdx, gatherLastV, List.length_cons, List.length_nil,
      List.zipWith_cons_cons, List.zipWith_nil_left, hg, seqE, trapzV, Nat.le_refl, List.all_cons, List.all_nil, id, decide_true,
      xtrapz_val, Agg.auc, Agg.aucRow, Agg.gatherBy]
    rw [ht]

example : ([0, 1, 2] : List Q).length = ([1, 1, 3] : List Q).length ∧ ([0, 1, 2] : List Q) ≠ [] := by decide

end TE.C07K
