/-
  C08 — ranking / retrieval and text metrics equal their definitions.
  ONLY property theorems and non-vacuity examples live here; helper lemmas are in
  TE/Lemmas/{TextLev,TextBleu,RankSort,RankHit,RankRetrieval}.lean.
  Models: TE/Model/{Rank,Text}.lean (follow the code); definitions: TE/Spec/{Rank,Text}.lean.
-/
import TE.Lemmas.TextLev
import TE.Lemmas.TextWer
import TE.Lemmas.TextBleu
import TE.Lemmas.RankHit
import TE.Lemmas.RankRetrieval
namespace TE.C08
open TE TE.Rank TE.Text TE.RankL TE.TextL

/-! ## 1. `_edit_distance` -/

/-- the dynamic programme of `_edit_distance` — both copies, the one used by WER
    and the one in `helper.py` used by WIP/WIL — returns the Levenshtein distance
    (the textbook three-way minimum recurrence) for all token sequences. -/
theorem edit_distance_dp_eq_lev {α : Type} [DecidableEq α] (pred ref : List α) :
    editDistance pred ref = Spec.Text.lev pred ref ∧
    editDistanceHelper pred ref = Spec.Text.lev pred ref :=
  ⟨dp_last pred ref, dp_last pred ref⟩

/-- the two textbook formulations agree: the prefix-indexed recurrence and the
    recursion on the first tokens (the one the Python oracle runs). -/
theorem lev_prefix_eq_list {α : Type} [DecidableEq α] (a b : List α) :
    Spec.Text.lev a b = Spec.Text.levL a b :=
  lev_eq_levL a b

example : editDistance [1, 2, 3] [1, 3, 4, 5] = 3 := by decide
example : editDistanceHelper ["a", "b"] ([] : List String) = 2 := by decide

/-! ## 2. hit rate, reciprocal rank -/

/-- `hit_rate` with a cut-off below the number of candidates: per sample 1 iff the
    target's score stands among the first `k` of the descending ranking; the call
    fails exactly when some target is not a candidate.  Ties with the target's
    score do not count against it. -/
theorem hit_rate_eq (rows : List (List Q)) (C : Nat) (target : List Int) (k : Nat)
    (hk : 0 < k) (hkC : k < C) :
    (hitRate rows C target (some (k : Int))).toOption = Spec.Rank.hitRate (some k) rows target := by
  have h1 : ¬ ((k : Int) ≤ 0) := by omega
  have h2 : ¬ ((C : Int) ≤ (k : Int)) := by omega
  simp only [hitRate, h1, h2, if_false]
  rw [toOption_bind_pure, ranks_toOption, Spec.Rank.hitRate, option_mapM_map]
  congr 1
  funext rs
  congr 1
  funext r
  simp [Spec.Rank.hit, b2q, Int.ofNat_lt]

/-- `k = None` or `k ≥ C` (the code's shortcut returns ones without reading
    `target`): for valid targets this *is* the definition — every candidate is
    ranked among the first `C`. -/
theorem hit_rate_eq_all (rows : List (List Q)) (C : Nat) (target : List Int) (k : Option Nat)
    (hk : ∀ k', k = some k' → C ≤ k') (hlen : rows.length = target.length)
    (hC : ∀ row ∈ rows, row.length = C) (ht : ∀ t ∈ target, 0 ≤ t ∧ t.toNat < C) (hC0 : 0 < C) :
    hitRate rows C target (k.map fun k' => (k' : Int)) = .ok (target.map fun _ => 1) ∧
    Spec.Rank.hitRate k rows target = some (target.map fun _ => 1) := by
  constructor
  · cases k with
    | none => rfl
    | some k' =>
      have := hk k' rfl
      have h1 : ¬ ((k' : Int) ≤ 0) := by omega
      have h2 : (C : Int) ≤ (k' : Int) := by omega
      simp [hitRate, h2]
      omega
  · unfold Spec.Rank.hitRate
    induction rows generalizing target with
    | nil =>
      cases target with
      | nil => rfl
      | cons _ _ => simp at hlen
    | cons row rows ih =>
      cases target with
      | nil => simp at hlen
      | cons t ts =>
        have hrow := hC row (List.mem_cons_self ..)
        have htv := ht t (List.mem_cons_self ..)
        obtain ⟨r, hr, hlt⟩ := rankOfI_lt row t htv.1 (by omega)
        have ih' := ih ts (by simpa using hlen) (fun r hr => hC r (List.mem_cons_of_mem _ hr))
          (fun t ht' => ht t (List.mem_cons_of_mem _ ht'))
        simp only [List.zip_cons_cons, List.mapM_cons, hr, Option.map_some, ih', List.map_cons]
        have : Spec.Rank.hit k r = 1 := by
          cases k with
          | none => rfl
          | some k' =>
            have := hk k' rfl
            have : r < k' := by omega
            simp [Spec.Rank.hit, this]
        simp [this]

/-- `k ≤ 0` is rejected. -/
theorem hit_rate_reject (rows : List (List Q)) (C : Nat) (target : List Int) (k : Int) (hk : k ≤ 0) :
    hitRate rows C target (some k) = .error .value := by
  simp [hitRate, hk]

example : (hitRate [[1, 1/2, 1/2, 0]] 4 [2] (some 2)).toOption = some [1] := by decide +kernel
example : Spec.Rank.hitRate (some 2) [[1, 1/2, 1/2, 0]] [2] = some [1] := by decide +kernel
example : (0 : Nat) < 2 ∧ 2 < 4 := by decide

/-- `reciprocal_rank` for every `k` (None, positive, and the unchecked `k ≤ 0`
    which zeroes everything): `1/(position+1)` of the target's score in the
    descending ranking when that position is below `k`, else 0; fails exactly
    when some target is not a candidate. -/
theorem reciprocal_rank_eq (rows : List (List Q)) (target : List Int) (k : Option Int) :
    (reciprocalRank rows target k).toOption
      = Spec.Rank.reciprocalRank (k.map Int.toNat) rows target := by
  unfold reciprocalRank
  rw [toOption_bind_pure, ranks_toOption, Spec.Rank.reciprocalRank, option_mapM_map]
  congr 1
  funext rs
  congr 1
  funext r
  cases k with
  | none => rfl
  | some k =>
    simp only [Option.map_some, Spec.Rank.rr, Int.ofNat_eq_natCast]
    by_cases h : k ≤ (r : Int)
    · have : ¬ r < k.toNat := by omega
      simp [h, this]
    · have : r < k.toNat := by omega
      simp [h, this]

example : (reciprocalRank [[1, 1/2, 1/2, 0]] [3] (some 4)).toOption = some [1/4] := by decide +kernel
example : (reciprocalRank [[1, 1/2, 1/2, 0]] [2] none).toOption = some [1/2] := by decide +kernel

/-! ## 3. retrieval precision / recall (functional) -/

/-- `retrieval_precision` on tie-free scores, for every `k` (None, `k > n`),
    with and without `limit_k_to_size`: sort-take-k-gather-sum equals counting the
    relevant items among those with fewer than `k` items scored strictly higher;
    the denominator is `k`, `min k n` or `n`.  (`torch.topk` leaves the order of
    equal scores unspecified, hence the hypothesis.)  Values live in `XQ`, so the
    `0/0 = nan` of an empty collection is part of the statement. -/
theorem retrieval_precision_eq (k : Option Nat) (limit : Bool) (items : List Pair)
    (hn : (items.map (·.1)).Nodup) :
    precisionPairs k limit items = Spec.Rank.precision k limit items := by
  unfold precisionPairs Spec.Rank.precision
  rw [nbRelevant_eq k items hn]
  rfl

/-- `retrieval_recall`: relevant retrieved over all relevant (`0/0 = nan` for a
    query without relevant items). -/
theorem retrieval_recall_eq (k : Option Nat) (items : List Pair) (hn : (items.map (·.1)).Nodup) :
    recallPairs k items = Spec.Rank.recall k items := by
  unfold recallPairs Spec.Rank.recall
  rw [nbRelevant_eq k items hn, qsum_eq_sum]

example : precisionPairs (some 2) false [(1/2, 1), (3/4, 0), (1/4, 1)] = .val (1/2) := by decide +kernel
example : Spec.Rank.precision (some 2) false [(1/2, 1), (3/4, 0), (1/4, 1)] = .val (1/2) := by decide +kernel
example : recallPairs (some 5) [(1/2, 1), (3/4, 0), (1/4, 1)] = .val 1 := by decide +kernel
example : ([(1/2, 1), (3/4, 0), (1/4, 1)] : List Pair).map (·.1) |>.Nodup := by decide +kernel

/-! ## 4. RetrievalPrecision / RetrievalRecall classes -/

/-- **top-k retention**: pruning what has been seen to its top-k before the next
    batch arrives does not change the top-k of everything (the model's stable
    top-k; on tie-free scores it is `torch.topk`). -/
theorem topk_retention (k : Option Nat) (a b : List Pair) :
    topk k (topk k a ++ b) = topk k (a ++ b) :=
  topk_retention_left k a b

/-- every reachable per-query state (any updates, merges without re-pruning)
    has the top-k of all the data the query has seen (tie-free scores). -/
theorem retained_topk_eq (k : Option Nat) (s d : List Pair) (h : Reach k s d)
    (hn : (d.map (·.1)).Nodup) : topk k s = topk k d :=
  (reach_inv k h hn).1

/-
  Full-strength statement (FALSE for the code as it is — see the two witnesses below):

    theorem retrieval_class_eq (c : RCfg) (s d : List Pair) (h : Reach c.k s d) (tie-free d, 0/1 labels, d ≠ []) :
      queryValue c s = .ok (some (if no relevant item in d then policy c.action else functionalOn c d))

  i.e. `compute()` = the definition applied to all data seen so far, with the
  empty-target policy applied to queries that have no relevant item at all.
-/

/-- `RetrievalPrecision(empty_target_action="neg")`: for every reachable state
    of a query — any sequence of `update` batches, `merge_state`s of instances
    that were themselves updated/merged (states concatenated, not re-pruned) —
    `compute()` is the functional `retrieval_precision` applied to **all** data
    the query has seen, for tie-free scores, 0/1 labels and a non-empty query. -/
theorem retrieval_precision_class_eq_partial (c : RCfg) (s d : List Pair)
    (hkind : c.kind = .precision) (hact : c.action = .neg)
    (hk : ∀ k, c.k = some k → 0 < k)
    (h : Reach c.k s d) (hn : (d.map (·.1)).Nodup)
    (hlab : ∀ p ∈ d, p.2 = 0 ∨ p.2 = 1) (hd : d ≠ []) :
    queryValue c s = .ok (some (precisionPairs c.k c.limit d)) := by
  obtain ⟨i1, i2, r, hr⟩ := reach_inv c.k h hn
  have hdl : 0 < d.length := List.length_pos_iff.mpr hd
  have hsl : 0 < s.length := by
    cases hkk : c.k with
    | none => rw [hkk] at i2; simp only [sameSize] at i2; omega
    | some k =>
      have := hk k hkk
      rw [hkk] at i2; simp only [sameSize] at i2; omega
  have hse : s.isEmpty = false := by
    cases s with
    | nil => simp at hsl
    | cons _ _ => rfl
  have hden : nbRetrieved c.k c.limit s.length = nbRetrieved c.k c.limit d.length := by
    cases hkk : c.k with
    | none => rw [hkk] at i2; simpa [nbRetrieved, sameSize] using i2
    | some k =>
      rw [hkk] at i2
      simp only [nbRetrieved, sameSize] at i2 ⊢
      split <;> simp [i2]
  have hrel : nbRelevant c.k s = nbRelevant c.k d := by unfold nbRelevant; rw [i1]
  unfold queryValue
  simp only [hse, Bool.false_eq_true, if_false]
  by_cases hone : (s.any fun p => p.2 == 1) = true
  · simp only [hone, Bool.not_true, Bool.false_eq_true, if_false, functionalOn, hkind,
      precisionPairs, hrel, hden]
  · simp only [hone, Bool.not_false, if_true, hact]
    -- no label 1 among the retained pairs: every retained label is 0
    have hzero : ∀ p ∈ s, p.2 = 0 := by
      intro p hp
      have hpd : p ∈ d := hr.mem_iff.mp (List.mem_append_left r hp)
      rcases hlab p hpd with h0 | h1
      · exact h0
      · exfalso; apply hone
        rw [List.any_eq_true]; exact ⟨p, hp, by simp [h1]⟩
    have hsum : nbRelevant c.k d = 0 := by
      rw [← hrel]
      unfold nbRelevant
      rw [qsum_eq_sum]
      have hall : ∀ q ∈ (topk c.k s).map (·.2), q = 0 := by
        intro q hq
        obtain ⟨p, hp, rfl⟩ := List.mem_map.mp hq
        obtain ⟨r', hr'⟩ := topk_sublist_perm c.k s
        exact hzero p (hr'.mem_iff.mp (List.mem_append_left r' hp))
      generalize (topk c.k s).map (·.2) = l at hall
      induction l with
      | nil => rfl
      | cons a l ih =>
        rw [List.sum_cons, hall a (List.mem_cons_self ..), ih (fun q hq => hall q (List.mem_cons_of_mem _ hq))]
        exact Rat.add_zero 0
    have hnz : ((nbRetrieved c.k c.limit d.length : Nat) : Q) ≠ 0 := by
      have : 0 < nbRetrieved c.k c.limit d.length := by
        cases hkk : c.k with
        | none => simpa [nbRetrieved] using hdl
        | some k =>
          have := hk k hkk
          simp only [nbRetrieved]
          split <;> omega
      intro h0
      have : nbRetrieved c.k c.limit d.length = 0 := by exact_mod_cast h0
      omega
    simp only [precisionPairs, hsum, xdiv, hnz, if_false]
    congr 3
    grind

/-- non-vacuity: a state reached by two updates and a merge with another instance. -/
example : Reach (some 2) (updateSingle (some 2) (updateSingle (some 2) [] [(1/2, 1), (1/4, 0)]) [(3/4, 0)]
      ++ updateSingle (some 2) [] [(1/8, 1)])
    (([] ++ [(1/2, 1), (1/4, 0)] ++ [(3/4, 0)]) ++ ([] ++ [(1/8, 1)])) :=
  .mrg (.upd _ (.upd _ .init)) (.upd _ .init)

/-- **defect witness (RetrievalRecall)**: one query, `k = 1`, three relevant
    items with scores 3 > 2 > 1 in one update.  The class keeps only the top-1
    pair, so `compute()` divides by the single *retained* relevant item and
    returns 1, whereas recall@1 of the data seen is 1/3. -/
theorem retrieval_recall_class_pruned_witness :
    let c : RCfg := ⟨.recall, some 1, false, 1, .neg, false⟩
    let data : List Pair := [(3, 1), (2, 1), (1, 1)]
    ((rUpdate c (rInit c) data none).toOption.bind fun st => (rCompute c st).toOption)
        = some (.inl [.val 1])
      ∧ recallPairs (some 1) data = .val (1/3)
      ∧ Spec.Rank.recall (some 1) data = .val (1/3) := by
  decide +kernel

/-- **defect witness (RetrievalPrecision, empty_target_action ≠ "neg")**: one
    query, `k = 1`, items (score 3, irrelevant), (score 2, relevant).  The
    query *has* a relevant item, so precision@1 of the data seen is 0; the
    class applies the empty-target policy to the retained top-1 labels and
    returns 1 (`"pos"`), NaN (`"skip"`) or raises (`"err"`). -/
theorem retrieval_precision_class_empty_target_witness :
    let data : List Pair := [(3, 0), (2, 1)]
    let run := fun (a : Action) =>
      let c : RCfg := ⟨.precision, some 1, false, 1, a, false⟩
      (rUpdate c (rInit c) data none).toOption.bind fun st => (rCompute c st).toOption
    run .pos = some (.inl [.val 1]) ∧ run .skip = some (.inl [.nan]) ∧ run .err = none
      ∧ run .neg = some (.inl [.val 0])
      ∧ precisionPairs (some 1) false data = .val 0
      ∧ Spec.Rank.precision (some 1) false data = .val 0 := by
  decide +kernel

/-! ## 5. word error rate, word information preserved / lost -/

section
variable {α : Type} [DecidableEq α]

/-- WER = total Levenshtein distance / total reference length over
    `zip(input, target)`; division as torch does it (`0/0 = nan`, `x/0 = inf`). -/
theorem wer_eq (input target : List (List α)) :
    werCompute (werUpdate input target).1 (werUpdate input target).2
      = Spec.Text.wer (input.zip target) := by
  rw [werUpdate_eq]
  rfl

/-- the three states of WIP: correct words `Σ max(|hyp|,|ref|) − lev`, and the totals. -/
theorem wip_update_eq (input target : List (List α)) :
    wipUpdate input target =
      (Spec.Text.correct (input.zip target), Spec.Text.refTotal (input.zip target),
       Spec.Text.hypTotal (input.zip target)) := by
  unfold wipUpdate
  rw [errorsAndTotals_eq]
  simp only [Spec.Text.correct, Spec.Text.refTotal, Spec.Text.hypTotal, sum_sub_map]

/-- WIP = `C/N_ref · C/N_hyp` when both totals are non-zero. -/
theorem wip_eq (input target : List (List α))
    (hr : Spec.Text.refTotal (input.zip target) ≠ 0) (hh : Spec.Text.hypTotal (input.zip target) ≠ 0) :
    wipCompute (wipUpdate input target).1 (wipUpdate input target).2.1 (wipUpdate input target).2.2
      = .val (Spec.Text.wip (input.zip target)) := by
  rw [wip_update_eq]
  simp [wipCompute, xdiv, hr, hh, xmul, Spec.Text.wip]

/-- WIL: the code carries `errors − max_total = −C`; the sign is squared away and
    the result is `1 − WIP`. -/
theorem wil_eq (input target : List (List α))
    (hr : Spec.Text.refTotal (input.zip target) ≠ 0) (hh : Spec.Text.hypTotal (input.zip target) ≠ 0) :
    wilCompute (wilUpdate input target).1 (wilUpdate input target).2.1 (wilUpdate input target).2.2
      = .val (Spec.Text.wil (input.zip target)) := by
  have h := wip_update_eq input target
  unfold wipUpdate at h
  unfold wilUpdate
  simp only [Prod.mk.injEq] at h
  obtain ⟨h1, h2, h3⟩ := h
  simp only [h2, h3]
  have h1' : (errorsAndTotals input target).errors - (errorsAndTotals input target).maxTotal
      = - Spec.Text.correct (input.zip target) := by rw [← h1]; grind
  rw [h1']
  simp only [wilCompute, xdiv, hr, hh, if_false, xmul, xoneMinus, Spec.Text.wil, Spec.Text.wip]
  congr 1
  grind

/-- zero branch: when every reference is empty, or every hypothesis is empty,
    WIP and WIL are NaN (`0/0`), as the real code returns. -/
theorem wip_wil_nan (input target : List (List α))
    (h : (∀ p ∈ input.zip target, p.2 = []) ∨ (∀ p ∈ input.zip target, p.1 = [])) :
    wipCompute (wipUpdate input target).1 (wipUpdate input target).2.1 (wipUpdate input target).2.2 = .nan ∧
    wilCompute (wilUpdate input target).1 (wilUpdate input target).2.1 (wilUpdate input target).2.2 = .nan := by
  have hu := wip_update_eq input target
  have hc : Spec.Text.correct (input.zip target) = 0 := by
    unfold Spec.Text.correct
    apply sum_map_zero
    intro p hp
    rcases h with h | h
    · rw [h p hp, lev_nil_right]; simp [Rat.sub_self]
    · rw [h p hp, lev_nil_left]; simp [Rat.sub_self]
  have hz : Spec.Text.refTotal (input.zip target) = 0 ∨ Spec.Text.hypTotal (input.zip target) = 0 := by
    rcases h with h | h
    · left; unfold Spec.Text.refTotal; apply sum_map_zero; intro p hp; rw [h p hp]; rfl
    · right; unfold Spec.Text.hypTotal; apply sum_map_zero; intro p hp; rw [h p hp]; rfl
  have hu' := hu
  unfold wipUpdate at hu'
  simp only [Prod.mk.injEq] at hu'
  obtain ⟨h1, h2, h3⟩ := hu'
  have h1' : (errorsAndTotals input target).errors - (errorsAndTotals input target).maxTotal = 0 := by
    have : (errorsAndTotals input target).maxTotal - (errorsAndTotals input target).errors = 0 := by rw [h1, hc]
    grind
  constructor
  · rw [hu, hc]
    rcases hz with hz | hz <;> by_cases h0 : Spec.Text.refTotal (input.zip target) = 0 <;>
      by_cases h0' : Spec.Text.hypTotal (input.zip target) = 0 <;>
      simp_all [wipCompute, xdiv, xmul]
  · unfold wilUpdate
    simp only [h1', h2, h3]
    rcases hz with hz | hz <;> by_cases h0 : Spec.Text.refTotal (input.zip target) = 0 <;>
      by_cases h0' : Spec.Text.hypTotal (input.zip target) = 0 <;>
      simp_all [wilCompute, xdiv, xmul, xoneMinus]

example : werCompute (werUpdate [[1, 2, 3], [4]] [[1, 3], [4, 5]]).1 (werUpdate [[1, 2, 3], [4]] [[1, 3], [4, 5]]).2
    = .val (1/2) := by decide +kernel
example : wipCompute (wipUpdate [[1, 2]] [[1, 3]]).1 (wipUpdate [[1, 2]] [[1, 3]]).2.1 (wipUpdate [[1, 2]] [[1, 3]]).2.2
    = .val (1/4) := by decide +kernel
example : wilCompute (wilUpdate [[1, 2]] [[1, 3]]).1 (wilUpdate [[1, 2]] [[1, 3]]).2.1 (wilUpdate [[1, 2]] [[1, 3]]).2.2
    = .val (3/4) := by decide +kernel

end

/-! ## 5b. BLEU bookkeeping -/

section
variable {α : Type} [DecidableEq α]

/-- **clipped n-gram counts**: what `_bleu_score_update` adds to
    `matches_by_order` for one candidate — n-grams of all orders in one
    `Counter`, references joined with `|=`, candidate intersected with `&`,
    entries routed by `len(ngram) − 1` — is, for every order `n = 1..N`,
    Σ over the distinct candidate n-grams of
    min(count in the candidate, max over the references of the count in the reference). -/
theorem bleu_counts_eq (cand : List α) (refs : List (List α)) (N : Nat) :
    matchesOf (cinter (getNgrams cand N) (refCounter refs N)) N
      = (List.range N).map fun i => Spec.Text.clippedMatches (i + 1) cand refs :=
  matchesOf_eq cand refs N

/-- the effective reference length is a closest one (minimal `|r − c|`), the
    shorter one on a tie; no reference at all is rejected (`min([])`). -/
theorem bleu_closest_ref_len (c : Nat) (lens : List Nat) :
    (lens ≠ [] → ∃ r, closestRefLen c lens = .ok r ∧ Spec.Text.IsClosestRefLen c lens r) ∧
    (lens = [] → closestRefLen c lens = .error .value) :=
  ⟨closestRefLen_spec c lens, fun h => by subst h; rfl⟩

/-- one `(candidate, references)` step of `_bleu_score_update` for `n_gram ∈ 1..4`
    and at least one reference: lengths, clipped matches and possible matches
    (`len + 1 − n`, truncated at 0) per order are added to the running statistics. -/
theorem bleu_step_eq (N : Nat) (hN : N = 1 ∨ N = 2 ∨ N = 3 ∨ N = 4) (acc : BleuStats)
    (cand : List α) (refs : List (List α)) (hr : refs ≠ []) :
    ∃ r, Spec.Text.IsClosestRefLen cand.length (refs.map (·.length)) r ∧
      bleuStep N acc cand refs = .ok
        ⟨acc.inputLen + cand.length, acc.targetLen + r,
         addVec acc.matchesBy ((List.range N).map fun i => Spec.Text.clippedMatches (i + 1) cand refs),
         addVec acc.possibleBy ((List.range N).map fun i => Spec.Text.possibleMatches (i + 1) cand.length)⟩ := by
  obtain ⟨r, h1, h2⟩ := closestRefLen_spec cand.length (refs.map (·.length)) (by simpa using hr)
  refine ⟨r, h2, ?_⟩
  unfold bleuStep
  rw [h1]
  simp only [bind, Except.bind, hN, decide_true, Bool.not_true, Bool.false_eq_true, if_false,
    matchesOf_eq, possibleOf_eq]
  rfl

example : matchesOf (cinter (getNgrams [1, 1, 2, 1] 2) (refCounter [[1, 2], [1, 1, 3]] 2)) 2 = [3, 2] := by decide
example : Spec.Text.clippedMatches 1 [1, 1, 2, 1] [[1, 2], [1, 1, 3]] = 3 := by decide
example : (closestRefLen 2 [3, 1]).toOption = some 1 := by decide

end

/-! ## 6. click-through rate, weighted calibration, collisions, frequency -/

/-- the states of CTR: weighted clicks and total weight. -/
theorem ctr_update_eq (input weights : List Q) :
    ctrUpdate input weights = (Spec.Rank.weightedClicks input weights, weights.sum) := by
  simp [ctrUpdate, qsum_eq_sum, Spec.Rank.weightedClicks]

/-- a scalar weight is the constant weight vector. -/
theorem ctr_update_scalar_eq (input : List Q) (w : Q) :
    ctrUpdateScalar input w = ctrUpdate input (input.map fun _ => w) := by
  simp only [ctrUpdateScalar, ctrUpdate, qsum_eq_sum]
  induction input with
  | nil => simp [Rat.mul_zero]
  | cons a l ih =>
    simp only [List.map_cons, List.zip_cons_cons, List.sum_cons, List.length_cons, Prod.mk.injEq] at ih ⊢
    obtain ⟨i1, i2⟩ := ih
    constructor
    · rw [← i1]; grind
    · rw [← i2]; push_cast; grind

/-- CTR as computed: weighted clicks over (total weight + eps).  With `eps = 0`
    and a non-zero total weight this is the textbook ratio. -/
theorem ctr_eq (eps : Q) (input weights : List Q) (h : weights.sum + eps ≠ 0) :
    ctrCompute eps (ctrUpdate input weights).1 (ctrUpdate input weights).2
      = .val (Spec.Rank.weightedClicks input weights / (weights.sum + eps)) := by
  rw [ctr_update_eq]
  simp [ctrCompute, xdiv, h]

theorem ctr_eq_exact (input weights : List Q) (h : weights.sum ≠ 0) :
    ctrCompute 0 (ctrUpdate input weights).1 (ctrUpdate input weights).2
      = .val (Spec.Rank.ctr input weights) := by
  rw [ctr_eq 0 input weights (by simpa [Rat.add_zero] using h)]
  simp [Spec.Rank.ctr, Rat.add_zero]

/-- zero branch: with all weights zero the `eps` in the denominator makes the
    result 0 (not NaN). -/
theorem ctr_zero_weight (eps : Q) (heps : eps ≠ 0) (input weights : List Q) (h : ∀ w ∈ weights, w = 0) :
    ctrCompute eps (ctrUpdate input weights).1 (ctrUpdate input weights).2 = .val 0 := by
  have hw : weights.sum = 0 := by
    have := TextL.sum_map_zero (fun w : Q => w) weights h
    simpa using this
  have hc : Spec.Rank.weightedClicks input weights = 0 := by
    unfold Spec.Rank.weightedClicks
    apply TextL.sum_map_zero
    intro p hp
    have := h p.2 (List.of_mem_zip hp).2
    rw [this]; exact Rat.mul_zero _
  rw [ctr_update_eq, hw, hc]
  have : (0 : Q) + eps ≠ 0 := by simpa [Rat.zero_add] using heps
  simp only [ctrCompute, xdiv, this, if_false]
  congr 1
  grind

example : ctrCompute 0 (ctrUpdate [1, 0, 1] [1/2, 1, 2]).1 (ctrUpdate [1, 0, 1] [1/2, 1, 2]).2 = .val (5/7) := by
  decide +kernel

/-- weighted calibration = Σ w·pred / Σ w·label (torch division: `x/0 = ±inf`, `0/0 = nan`). -/
theorem weighted_calibration_eq (input target weight : List Q) :
    xdiv (wcUpdate input target weight).1 (wcUpdate input target weight).2
      = Spec.Rank.calibration input target weight := by
  simp [wcUpdate, qsum_eq_sum, Spec.Rank.calibration]

theorem weighted_calibration_scalar_eq (input target : List Q) (w : Q) (hlen : input.length = target.length) :
    wcUpdateScalar input target w = wcUpdate input target (input.map fun _ => w) := by
  have key : ∀ l : List Q, w * l.sum = (((l.map fun _ => w).zip l).map fun p => p.1 * p.2).sum := by
    intro l
    induction l with
    | nil => simp [Rat.mul_zero]
    | cons a l ih => simp only [List.map_cons, List.zip_cons_cons, List.sum_cons, ← ih]; grind
  simp only [wcUpdateScalar, wcUpdate, qsum_eq_sum, Prod.mk.injEq]
  refine ⟨key input, ?_⟩
  have : (input.map fun _ => w) = (target.map fun _ => w) := by
    apply List.ext_getElem <;> simp [hlen]
  rw [this]
  exact key target

example : xdiv (wcUpdate [1/2, 1/4] [1, 0] [1, 2]).1 (wcUpdate [1/2, 1/4] [1, 0] [1, 2]).2 = .val 1 := by
  decide +kernel

/-- `num_collisions`: for every position the number of *other* positions with the same id. -/
theorem num_collisions_eq (ids : List Int) :
    numCollisions ids = ids.map fun x => ((Spec.Rank.collisions ids x : Nat) : Int) := by
  unfold numCollisions
  apply List.map_congr_left
  intro x hx
  unfold Spec.Rank.collisions
  have h1 : ids.countP (· == x) = (ids.filter fun y => decide (y = x)).length := by
    rw [List.countP_eq_length_filter]
    congr 2
  have h2 : 0 < ids.countP (· == x) := by
    rw [List.countP_pos_iff]; exact ⟨x, hx, by simp⟩
  rw [← h1]
  omega

example : numCollisions [3, 7, 3, 3] = [2, 0, 2, 2] := by decide

/-- `frequency_at_k`: indicator of `x < k`; a negative `k` is rejected. -/
theorem frequency_at_k_eq (input : List Q) (k : Q) :
    frequencyAtK input k = if k < 0 then .error .value else .ok (input.map (Spec.Rank.frequency k)) := by
  unfold frequencyAtK
  split
  · rfl
  · congr 2
    funext x
    simp [Spec.Rank.frequency, b2q]

example : (frequencyAtK [1, 2, 3] 2).toOption = some [1, 0, 0] := by decide +kernel

end TE.C08
