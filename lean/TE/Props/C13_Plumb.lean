/-
  C13 tied to the SOURCE of the windowed classes: the ring-buffer plumbing that
  harness/translators/winplumb.py reads off `__init__` / `update` / `compute` / `reset` / `merge_state` of
  torcheval/metrics/window/*.py on every run (TE/Gen/WinPlumbing.lean) IS the ring buffer `TE.Window.Ring`
  that TE/Props/C13.lean is about.

  * The row is data (index expressions, components, guards); `TE.WinPlumb.toImpl` interprets it as a class state
    machine over abstract per-update statistics (`x c` = component `c` of the functional helper's result tuple, one
    column of a buffer; any accumulator `M`).  `WinRow.WF` is decidable.
  * `C13_plumb_sim` / `C13_plumb_step` / `C13_plumb_merge_eq`: for EVERY well-formed row, every window size N ≥ 1,
    every update history, the object seen on one (buffer, lifetime state) pair of a component is `Ring.run` /
    `Ring.push` / `Ring.merge` on that component — so `C13_window_eq`, `C13_lifetime_eq`, `C13_compute_ok`,
    `C13_reset_init`, `C01_window_flat_partial` apply; the corollaries are stated explicitly below.
  * `C13_plumb_generated_wf` (`decide`): every row generated from the current tree is well-formed;
    `C13_plumb_coverage` pins which windowed classes are in which grammar (and why one would be outside).
  * WindowedBinaryAUROC is sample-windowed: its row (`SRow`: the three-branch batch write, the all-zeros test of
    compute) is interpreted too and proved to be `SBuf.update` / `SBuf.compute`'s column choice (§5).
  A source change that writes a buffer at another column, before the input check, advances the cursor on some
  paths only or modulo something else, sums another prefix in compute(), drops the reset override, forgets a counter
  in merge_state … changes the generated row and breaks one of the two.
-/
import TE.Lemmas.WinPlumb
import TE.Lemmas.WindowMerge
import TE.Gen.WinPlumbing
import TE.Props.C13
namespace TE.C13
open TE TE.Window TE.Spec.Window TE.WindowL TE.WinPlumb

variable {γ B V : Type}

/-! ## 1. the simulation -/

/-- **one accepted update is `Ring.push`** (any state — no invariant needed): on every buffer the slot under the
    cursor is overwritten with the buffer's component, the cursor advances modulo `max_num_updates`, the counter
    by one; with `enable_lifetime` every lifetime state takes its component. -/
theorem C13_plumb_step (r : WinRow) (hwf : r.WF = true) (cfg : Cfg) (M : Acc γ) (sc : γ → Bool) (s : RowState γ)
    (x : Nat → γ) (b : BufW) (hb : b ∈ r.bufs) (l : LifeW) (hl : l ∈ r.lifes) (hc : l.comp = b.comp)
    (hlife : cfg.lifetime = true) (hop : l.op = .add) :
    (rowPush r cfg M sc s x).ring b.name l.name = (s.ring b.name l.name).push M (x b.comp) := by
  have w := (WinRow.wfp hwf)
  apply ring_ext (push_sameWindow w cfg M sc s x hb l.name)
  show (rowPush r cfg M sc s x).life l.name = _
  rw [push_life w cfg M sc s x hl, hlife, if_pos rfl, hop, hc]
  rfl

/-- **the row's state machine IS the ring buffer**: a single instance fed the statistics `xs`, seen on the buffer
    and the lifetime state of one component, is `Ring.run` on that component.  (`hop`: the lifetime state is a
    plain `+=`, or — WindowedMeanSquaredError's adoption branch — all statistics have the same number of
    dimensions, which its input check enforces.) -/
theorem C13_plumb_sim (r : WinRow) (hwf : r.WF = true) (cfg : Cfg) (hN : 1 ≤ cfg.N) (hlife : cfg.lifetime = true)
    (M : Acc γ) (sc : γ → Bool) (xs : List (Nat → γ)) (b : BufW) (hb : b ∈ r.bufs) (l : LifeW) (hl : l ∈ r.lifes)
    (hc : l.comp = b.comp) (hop : l.op = .add ∨ AdoptOk M sc (xs.map (· l.comp))) :
    (rowRun r cfg M sc xs).ring b.name l.name = Ring.run M cfg.N (xs.map (· b.comp)) := by
  have w := (WinRow.wfp hwf)
  apply ring_ext (run_window w cfg M sc hb l.name xs)
  show (rowRun r cfg M sc xs).life l.name = _
  rw [run_life w cfg hlife M sc hl xs hop, hc]
  exact ((rinv_run M cfg.N hN _).life).symm

/-- without lifetime states (or whatever they hold) the window part is `Ring.run` all the same. -/
theorem C13_plumb_sim_window (r : WinRow) (hwf : r.WF = true) (cfg : Cfg) (M : Acc γ) (sc : γ → Bool)
    (xs : List (Nat → γ)) (b : BufW) (hb : b ∈ r.bufs) (ln : String) :
    Ring.sameWindow ((rowRun r cfg M sc xs).ring b.name ln) (Ring.run M cfg.N (xs.map (· b.comp))) :=
  run_window (WinRow.wfp hwf) cfg M sc hb ln xs

/-! ## 2. the C13 corollaries for every well-formed row -/

/-- **C13_plumb_window_eq**: the sum `compute()` forms over a buffer is the non-windowed sum of the buffer's
    component over exactly the last N updates (`C13_window_eq` on the simulated ring). -/
theorem C13_plumb_window_eq (r : WinRow) (hwf : r.WF = true) (cfg : Cfg) (hN : 1 ≤ cfg.N) (M : Acc γ) (L : CommLaws M)
    (sc : γ → Bool) (xs : List (Nat → γ)) (b : BufW) (hb : b ∈ r.bufs) :
    rowWindowed r M (rowRun r cfg M sc xs) b.name = windowedSpec M cfg.N (xs.map (· b.comp)) := by
  rw [rowWindowed_run (WinRow.wfp hwf) cfg M sc hb]
  exact C13_window_eq M L cfg.N hN _ _

/-- **C13_plumb_lifetime_eq**: with `enable_lifetime`, a lifetime state is the non-windowed sum of its component
    over everything (`C13_lifetime_eq`). -/
theorem C13_plumb_lifetime_eq (r : WinRow) (hwf : r.WF = true) (cfg : Cfg) (hlife : cfg.lifetime = true)
    (M : Acc γ) (sc : γ → Bool) (xs : List (Nat → γ)) (l : LifeW) (hl : l ∈ r.lifes)
    (hop : l.op = .add ∨ AdoptOk M sc (xs.map (· l.comp))) :
    (rowRun r cfg M sc xs).life l.name = lifetimeSpec M (xs.map (· l.comp)) :=
  run_life (WinRow.wfp hwf) cfg hlife M sc hl xs hop

/-- the three counters of a single instance. -/
theorem C13_plumb_counters (r : WinRow) (hwf : r.WF = true) (cfg : Cfg) (hN : 1 ≤ cfg.N) (M : Acc γ) (sc : γ → Bool)
    (xs : List (Nat → γ)) :
    (rowRun r cfg M sc xs).total = xs.length ∧ (rowRun r cfg M sc xs).next = xs.length % cfg.N ∧
    (rowRun r cfg M sc xs).cap = cfg.N := by
  have w := (WinRow.wfp hwf)
  have hne : r.bufs ≠ [] := by
    intro e
    have := w.bcomps
    rw [e] at this
    have h1 := w.ncomp
    cases hn : r.upd.ncomp with
    | zero => omega
    | succ n => rw [hn, List.range_succ] at this; simp at this
  obtain ⟨b, hb⟩ := List.exists_mem_of_ne_nil _ hne
  obtain ⟨h1, _, h3, h4⟩ := run_window w cfg M sc hb "" xs
  have inv := rinv_run M cfg.N hN (xs.map (· b.comp))
  simp only [RowState.ring] at h1 h3 h4
  rw [h4, h3, h1, inv.total, inv.next, inv.cap]
  simp

/-- **C13_plumb_compute_eq_spec**: `compute()` of a single instance is the queue specification, component by
    component: nothing before the first update, else the class's value formula on the sums of the last N updates
    and (with lifetime — the SAME formula, `sameFormula`) on the sums of all updates. -/
theorem C13_plumb_compute_eq_spec (r : WinRow) (hwf : r.WF = true) (cfg : Cfg) (hN : 1 ≤ cfg.N) (M : Acc γ)
    (L : CommLaws M) (sc : γ → Bool) (value valueL : List γ → Except Err V) (xs : List (Nat → γ))
    (hop : cfg.lifetime = true → ∀ l ∈ r.lifes, l.op = .add ∨ AdoptOk M sc (xs.map (· l.comp))) :
    rowOut r cfg M value valueL (rowRun r cfg M sc xs) = specOut M cfg.N cfg.lifetime r.upd.ncomp value xs :=
  out_run (WinRow.wfp hwf) cfg hN M L sc value valueL xs hop

/-- **C13_plumb_compute_ok**: `compute()` succeeds whenever at least one update arrived (the value formulas never
    raise: `hv`), and shows a windowed value (and a lifetime value exactly when `enable_lifetime`). -/
theorem C13_plumb_compute_ok (r : WinRow) (hwf : r.WF = true) (cfg : Cfg) (hN : 1 ≤ cfg.N) (M : Acc γ)
    (L : CommLaws M) (sc : γ → Bool) (value valueL : List γ → Except Err V) (xs : List (Nat → γ)) (hne : xs ≠ [])
    (hop : cfg.lifetime = true → ∀ l ∈ r.lifes, l.op = .add ∨ AdoptOk M sc (xs.map (· l.comp)))
    (hv : ∀ a, ∃ v, value a = .ok v) :
    ∃ lv wv, rowOut r cfg M value valueL (rowRun r cfg M sc xs) = .ok (some (lv, wv)) ∧
      (lv.isSome = cfg.lifetime) ∧
      value ((List.range r.upd.ncomp).map fun c => windowedSpec M cfg.N (xs.map (· c))) = .ok wv := by
  rw [C13_plumb_compute_eq_spec r hwf cfg hN M L sc value valueL xs hop]
  obtain ⟨wv, hw⟩ := hv ((List.range r.upd.ncomp).map fun c => windowedSpec M cfg.N (xs.map (· c)))
  obtain ⟨lv, hl⟩ := hv ((List.range r.upd.ncomp).map fun c => lifetimeSpec M (xs.map (· c)))
  cases hc : cfg.lifetime with
  | false => exact ⟨none, wv, by simp [specOut, hne, hw, bind, Except.bind], rfl, hw⟩
  | true => exact ⟨some lv, wv, by simp [specOut, hne, hw, hl, bind, Except.bind], rfl, hw⟩

/-- while the window is not yet full the lifetime value IS the windowed value (same formula, same sums). -/
theorem C13_plumb_short_lifetime_eq_window (cfg : Cfg) (M : Acc γ) (ncomp : Nat)
    (xs : List (Nat → γ)) (hs : xs.length ≤ cfg.N) :
    ((List.range ncomp).map fun c => windowedSpec M cfg.N (xs.map (· c)))
      = (List.range ncomp).map fun c => lifetimeSpec M (xs.map (· c)) := by
  apply List.map_congr_left
  intro c _
  unfold windowedSpec lifetimeSpec
  rw [lastN_of_length_le]
  simpa using hs

/-- **C13_plumb_reset_fresh**: `reset()` (= `Metric.reset()` on the registered states + the override's
    `next_inserted = 0`) gives the freshly constructed object whatever the state was — cursor included. -/
theorem C13_plumb_reset_fresh (r : WinRow) (hwf : r.WF = true) (cfg : Cfg) (M : Acc γ) (s : RowState γ) :
    rowReset r cfg M s = rowInit r cfg M ∧ (rowReset r cfg M s).next = 0 ∧ (rowReset r cfg M s).total = 0 := by
  have w := (WinRow.wfp hwf)
  rw [reset_eq_init w]
  simp [rowInit, w.cur0, w.tot0, Ix.eval]

/-- the class state machine (`toImpl`): `reset` in a history is the fresh object (`C13_reset_init`). -/
theorem C13_plumb_reset_hist (r : WinRow) (cfg : Cfg) (M : Acc γ) (sc : γ → Bool) (stat : B → Except Err (Nat → γ))
    (value valueL : List γ → Except Err V) (h : Hist B) (s : RowState γ)
    (he : eval (toImpl r cfg M sc stat value valueL) (.reset h) = .ok s) : s = rowInit r cfg M :=
  reset_forgets h s he

/-- **a rejected update() leaves no trace**: every call that can raise precedes every write. -/
theorem C13_plumb_reject_atomic (r : WinRow) (hwf : r.WF = true) (cfg : Cfg) (M : Acc γ) (sc : γ → Bool)
    (s : RowState γ) (junk : Nat → γ) : rowReject r cfg M sc s junk = s :=
  reject_eq (WinRow.wfp hwf) cfg M sc s junk

/-- a history of accepted updates never fails (no `AttributeError`: every state `update` touches was registered). -/
theorem C13_plumb_update_ok (r : WinRow) (hwf : r.WF = true) (cfg : Cfg) (M : Acc γ) (sc : γ → Bool)
    (stat : B → Except Err (Nat → γ)) (value valueL : List γ → Except Err V) (s : RowState γ) (b : B) (x : Nat → γ)
    (hx : stat b = .ok x) :
    (toImpl r cfg M sc stat value valueL).upd s b = .ok (rowPush r cfg M sc s x) := by
  have w := (WinRow.wfp hwf)
  have ha : attrOk r cfg = true := by
    simp only [attrOk, Bool.and_eq_true, List.all_eq_true, Bool.or_eq_true, Bool.not_eq_true']
    refine ⟨fun b hb => ?_, fun l hl => ?_⟩
    · rw [(w.bufs b hb).reg]; exact Or.inr rfl
    · rw [(w.lifes l hl).reg, (w.lifes l hl).guard]; cases cfg.lifetime <;> simp [Guard.holds]
  simp [toImpl, hx, ha, bind, Except.bind]

/-! ## 3. merge_state is `Ring.merge` (C01, windowed clause) -/

/-- **C13_plumb_merge_eq**: `merge_state` of a well-formed row, seen on the buffer and the lifetime state of one
    component, is `Ring.merge` — for ANY target and sources (whatever their histories; `hlen`: their buffers are
    at least as long as what is copied out of them, true of every constructed / updated / merged object).
    As coded: `max_num_updates` is not enlarged, so the recorded findings `C01_window_sequential_merge_drops` /
    `C01_window_update_after_merge_overwrites` are facts about this very state machine. -/
theorem C13_plumb_merge_eq (r : WinRow) (hwf : r.WF = true) (cfg : Cfg) (hlife : cfg.lifetime = true) (M : Acc γ)
    (sc : γ → Bool) (s : RowState γ) (ss : List (RowState γ)) (b : BufW) (hb : b ∈ r.bufs) (l : LifeW) (hl : l ∈ r.lifes)
    (hop : l.op = .add) (hlen : ∀ t ∈ s :: ss, min t.total t.cap ≤ (t.buf b.name).length) :
    (rowMerge r cfg M sc s ss).ring b.name l.name = (s.ring b.name l.name).merge M (ss.map (·.ring b.name l.name)) := by
  obtain ⟨h1, h2⟩ := merge_window (WinRow.wfp hwf) cfg M sc s ss hb hl hlen
  apply ring_ext h1
  show (rowMerge r cfg M sc s ss).life l.name = _
  rw [h2]
  simp only [hlife, if_true, hop, lifeApply, Ring.merge, RowState.ring, List.foldl_map]

/-- the window part alone (lifetime on or off, any lifetime operator). -/
theorem C13_plumb_merge_window (r : WinRow) (hwf : r.WF = true) (cfg : Cfg) (M : Acc γ) (sc : γ → Bool)
    (s : RowState γ) (ss : List (RowState γ)) (b : BufW) (hb : b ∈ r.bufs) (l : LifeW) (hl : l ∈ r.lifes)
    (hlen : ∀ t ∈ s :: ss, min t.total t.cap ≤ (t.buf b.name).length) :
    Ring.sameWindow ((rowMerge r cfg M sc s ss).ring b.name l.name)
      ((s.ring b.name l.name).merge M (ss.map (·.ring b.name l.name))) :=
  (merge_window (WinRow.wfp hwf) cfg M sc s ss hb hl hlen).1

/-- **C13_plumb_flat_merge**: ONE flat `merge_state` of instances that were only ever updated (any window sizes ≥ 1,
    any numbers of updates) pools exactly the live entries — `C01_window_flat_partial` on the simulated rings:
    every buffer's windowed sum is the non-windowed sum of its component over
    `lastN N target ++ lastN Nᵢ sourceᵢ …`. -/
theorem C13_plumb_flat_merge (r : WinRow) (hwf : r.WF = true) (cfg : Cfg) (hN : 1 ≤ cfg.N) (M : Acc γ) (L : CommLaws M)
    (sc : γ → Bool) (ut : List (Nat → γ)) (srcs : List (Nat × List (Nat → γ))) (hs : ∀ p ∈ srcs, 1 ≤ p.1)
    (b : BufW) (hb : b ∈ r.bufs) :
    rowWindowed r M (rowMerge r cfg M sc (rowRun r cfg M sc ut) (srcs.map fun p => rowRun r ⟨p.1, cfg.lifetime⟩ M sc p.2))
        b.name
      = pooledSpec M cfg.N (ut.map (· b.comp)) (srcs.map fun p => (p.1, p.2.map (· b.comp))) := by
  have w := WinRow.wfp hwf
  have hne : r.lifes ≠ [] := by
    intro e
    have := w.lcomps
    rw [e] at this
    have h1 := w.ncomp
    cases hn : r.upd.ncomp with
    | zero => omega
    | succ n => rw [hn, List.range_succ] at this; simp at this
  obtain ⟨l, hl⟩ := List.exists_mem_of_ne_nil _ hne
  rw [rowWindowed_eq w M _ b.name l.name,
    windowed_congr M _ (merge_runs_window w cfg hN M sc hb hl ut srcs hs)]
  exact (C01_window_flat_partial M L cfg.N hN _ _ _
    (by intro p hp; obtain ⟨q, hq, rfl⟩ := List.mem_map.mp hp; exact hs q hq)).1

/-! ## 4. the generated table -/

def generatedRows : List WinRow := Gen.winPlumbing.filterMap (·.row)

def generatedSRows : List SRow := Gen.winPlumbing.filterMap (·.srow)

/-- **every row generated from the current source tree is well-formed** (update-windowed and sample-windowed). -/
theorem C13_plumb_generated_wf : (∀ r ∈ generatedRows, r.WF = true) ∧ (∀ r ∈ generatedSRows, r.WF = true) := by
  decide +kernel

/-- which windowed classes have a row, and why the others have none (hand-written model + correspondence only). -/
theorem C13_plumb_coverage :
    Gen.winPlumbing.map (fun c => (c.name, c.row.isSome, c.srow.isSome, c.untranslated)) =
      [("WindowedClickThroughRate", true, false, none), ("WindowedWeightedCalibration", true, false, none),
       ("WindowedBinaryNormalizedEntropy", true, false, none), ("WindowedMeanSquaredError", true, false, none),
       ("WindowedBinaryAUROC", false, true, none)] := by
  decide +kernel

/-- the value formulas / special cases of the generated rows: only WindowedMeanSquaredError sums the whole
    buffer unconditionally and only its `sum_squared_error` has the adoption branch — for every other lifetime
    state of every class the lifetime theorems hold without the `AdoptOk` hypothesis. -/
theorem C13_plumb_special_cases :
    (generatedRows.filter (·.cmp.whole)).map (·.name) = ["WindowedMeanSquaredError"] ∧
    (generatedRows.flatMap fun r => (r.lifes.filter (·.op != .add)).map fun l => (r.name, l.name))
      = [("WindowedMeanSquaredError", "sum_squared_error")] := by
  decide +kernel

/-- corollary for the generated table: the windowed sums of every buffer of every translated class. -/
theorem C13_plumb_generated_window_eq (cfg : Cfg) (hN : 1 ≤ cfg.N) (M : Acc γ) (L : CommLaws M) (sc : γ → Bool)
    (xs : List (Nat → γ)) :
    ∀ r ∈ generatedRows, ∀ b ∈ r.bufs,
      rowWindowed r M (rowRun r cfg M sc xs) b.name = windowedSpec M cfg.N (xs.map (· b.comp)) :=
  fun r hr b hb => C13_plumb_window_eq r (C13_plumb_generated_wf.1 r hr) cfg hN M L sc xs b hb

/-! ## 5. the sample-windowed class (WindowedBinaryAUROC)

Its `update` writes whole batches (three branches), its `compute` has the "all zeros beyond the cursor" test and
`.squeeze()` — the three recorded C13 findings live there and the row records the code as it is.  The row's
`update` is interpreted (`sPush`) and proved to be the three-branch sample window `sUpdate`, which is
`SBuf.update` of TE.Model.Window (so `C13_auroc_inv` / `C13_auroc_partial` are about the source's plumbing);
`compute`'s column choice is `SBuf.compute`'s; `reset` is fresh; `merge_state` is pinned by `MergeW.swf`
(the copy loop of the other classes, but with `max_num_samples` enlarged — not interpreted). -/

/-- **C13_plumb_sample_step**: one accepted `update()` with a batch of `n` columns, on every sample buffer. -/
theorem C13_plumb_sample_step (r : SRow) (hwf : r.WF = true) (s : SState γ) (hcap : 1 ≤ s.cap) (x : String → List γ)
    (n : Nat) (b : String × String × String) (hb : b ∈ r.bufs) (hn : (x b.2.1).length = n) :
    (sPush r s n x).buf b.1 = (sUpdate s.cap s.next (s.buf b.1) (x b.2.1)).1 ∧
    (sPush r s n x).next = (sUpdate s.cap s.next (s.buf b.1) (x b.2.1)).2 ∧
    (sPush r s n x).total = s.total + n ∧ (sPush r s n x).cap = s.cap :=
  sPush_eq (SRow.wfp hwf) s hcap x n hb hn

/-- `sUpdate` is the hand-written model's `SBuf.update` (the object of `C13_auroc_inv`, `C13_auroc_partial`). -/
theorem C13_plumb_sample_is_sbuf (s : SBuf) (b : List Col) :
    s.update b = { s with buf := (sUpdate s.cap s.next s.buf b).1, next := (sUpdate s.cap s.next s.buf b).2,
                          total := s.total + b.length } :=
  sbuf_update_eq s b

/-- the columns `compute()` hands to the functional: `SBuf.compute`'s choice, on the scores buffer (the first one). -/
theorem C13_plumb_sample_window (r : SRow) (hwf : r.WF = true) (isZero : γ → Bool) (s : SState γ) (name : String) :
    sWindow r isZero s name
      = if ((s.buf ((r.bufs.map (·.1)).headD "")).drop s.next).all isZero then (s.buf name).take s.next else s.buf name :=
  sWindow_eq (SRow.wfp hwf) isZero s name

theorem C13_plumb_sample_reset_fresh (r : SRow) (hwf : r.WF = true) (N : Nat) (z : γ) (s : SState γ) :
    sReset r N z s = sInit r N z ∧ (sInit r N z).next = 0 ∧ (sInit r N z).total = 0 :=
  sReset_eq_init (SRow.wfp hwf) N z s

/-! ## 6. non-vacuity -/


/-- statistics of the examples: component 0 = 2^k, component 1 = 3·2^k (sums identify the summands). -/
def demoX (k : Nat) : Nat → Nat := fun c => if c = 0 then 2 ^ k else 3 * 2 ^ k

def ctrRow : WinRow := Gen.winWindowedClickThroughRateRow

example : ctrRow ∈ generatedRows ∧ ctrRow.WF = true ∧ ctrRow.bufs.length = 2 ∧ ctrRow.lifes.length = 2 := by
  decide +kernel

/-- window 3, five updates: the buffers hold the last three (wrapped), the cursor is 5 mod 3, lifetime holds all. -/
example :
    let s := rowRun ctrRow ⟨3, true⟩ natAcc (fun _ => true) [demoX 0, demoX 1, demoX 2, demoX 3, demoX 4]
    s.buf "windowed_click_total" = [8, 16, 4] ∧ s.buf "windowed_weight_total" = [24, 48, 12] ∧ s.next = 2 ∧
      s.total = 5 ∧ s.life "click_total" = 31 ∧ s.life "weight_total" = 93 ∧
      rowWindowed ctrRow natAcc s "windowed_click_total" = 4 + 8 + 16 := by
  decide +kernel

/-- the hypotheses of `C13_plumb_sim` are met by that run, and both sides are the ring `[8,16,4]`, cursor 2. -/
example :
    let a := (rowRun ctrRow ⟨3, true⟩ natAcc (fun _ => true) [demoX 0, demoX 1, demoX 2, demoX 3, demoX 4]).ring
        "windowed_click_total" "click_total"
    let b := Ring.run natAcc 3 [1, 2, 4, 8, 16]
    (a.cap, a.buf, a.next, a.total, a.life) = (b.cap, b.buf, b.next, b.total, b.life) ∧ b.buf = [8, 16, 4] ∧ b.life = 31 := by
  decide +kernel

/-- compute(): partially filled window (2 of 3) reads the prefix below the cursor; lifetime off shows no lifetime value. -/
example :
    (rowOut ctrRow ⟨3, false⟩ natAcc (fun l => Except.ok l) (fun l => Except.ok l)
        (rowRun ctrRow ⟨3, false⟩ natAcc (fun _ => true) [demoX 0, demoX 1])).toOption = some (some (none, [3, 9])) ∧
    (rowOut ctrRow ⟨3, true⟩ natAcc (fun l => Except.ok l) (fun l => Except.ok l)
        (rowRun ctrRow ⟨3, true⟩ natAcc (fun _ => true) [demoX 0, demoX 1])).toOption = some (some (some [3, 9], [3, 9])) ∧
    (rowOut ctrRow ⟨3, true⟩ natAcc (fun l => Except.ok l) (fun l => Except.ok l)
        (rowRun ctrRow ⟨3, true⟩ natAcc (fun _ => true) [])).toOption = some none := by
  decide +kernel

/-- merge: target (window 3) fed 4 updates merges sources with windows 2 and 3 fed 3 and 1 updates: the new buffer has
    3+2+3 columns, holds the three live windows in buffer order, the cursor is 6 mod 3, `max_num_updates` stays 3;
    the windowed sum is the pool `(2+4+8) + (32+64) + 128` (= `pooledSpec`). -/
example :
    let t := rowRun ctrRow ⟨3, true⟩ natAcc (fun _ => true) [demoX 0, demoX 1, demoX 2, demoX 3]
    let a := rowRun ctrRow ⟨2, true⟩ natAcc (fun _ => true) [demoX 4, demoX 5, demoX 6]
    let c := rowRun ctrRow ⟨3, true⟩ natAcc (fun _ => true) [demoX 7]
    let m := rowMerge ctrRow ⟨3, true⟩ natAcc (fun _ => true) t [a, c]
    m.buf "windowed_click_total" = [8, 2, 4, 64, 32, 128, 0, 0] ∧ m.next = 0 ∧ m.total = 8 ∧ m.cap = 3 ∧
      m.life "click_total" = 255 ∧ rowWindowed ctrRow natAcc m "windowed_click_total" = (2 + 4 + 8) + (32 + 64) + 128 ∧
      pooledSpec natAcc 3 [1, 2, 4, 8] [(2, [16, 32, 64]), (3, [128])] = (2 + 4 + 8) + (32 + 64) + 128 := by
  decide +kernel

/-- `WF` is not vacuous: it rejects the typical slips (each is one field of the CTR row changed). -/
example : ({ ctrRow with rst := { callsSuper := true, cursorTo := none } } : WinRow).WF = false := by decide +kernel
example : ({ ctrRow with upd := { ctrRow.upd with curNew := .mod (.add .cur (.lit 1)) (.sub .cap (.lit 1)) } } : WinRow).WF = false := by
  decide +kernel
example : ({ ctrRow with upd := { ctrRow.upd with checksFirst := false } } : WinRow).WF = false := by decide +kernel
example : ({ ctrRow with upd := { ctrRow.upd with curGuard := .lifetime } } : WinRow).WF = false := by decide +kernel
example : ({ ctrRow with cmp := { ctrRow.cmp with partHi := some (.add .cur (.lit 1)) } } : WinRow).WF = false := by decide +kernel
example : ({ ctrRow with mrg := { ctrRow.mrg with totStep := .tot } } : WinRow).WF = false := by decide +kernel

/-- and the semantics really differs for such a row: with the cursor reduced modulo `cap - 1` a window of 3 keeps
    only two entries alive. -/
example :
    let bad : WinRow := { ctrRow with upd := { ctrRow.upd with curNew := .mod (.add .cur (.lit 1)) (.sub .cap (.lit 1)) } }
    (rowRun bad ⟨3, true⟩ natAcc (fun _ => true) [demoX 0, demoX 1, demoX 2, demoX 3]).buf "windowed_click_total" = [4, 8, 0] := by
  decide +kernel

/-- the adoption branch (WindowedMeanSquaredError, `num_tasks > 1`): a carrier with 0-dim and 1-D values
    (`(v, true)` = 0-dim) under broadcasting addition satisfies the laws `AdoptOk` asks for; all statistics 1-D. -/
def dimAcc : Acc (Nat × Bool) := ⟨(0, true), fun a b => (a.1 + b.1, a.2 && b.2)⟩

def mseRow : WinRow := Gen.winWindowedMeanSquaredErrorRow

example : AdoptOk dimAcc (·.2) [(1, false), (2, false), (4, false)] := by
  refine ⟨⟨?_, ?_, ?_⟩, ⟨rfl, fun _ _ => rfl⟩, by decide⟩
  · intro a b c; simp [dimAcc, Nat.add_assoc, Bool.and_assoc]
  · intro a; simp [dimAcc]
  · intro a; simp [dimAcc]

/-- … and on that run the adopted lifetime state is the sum of everything (1-D), the window (size 2) the last two. -/
example :
    let xs : List (Nat → Nat × Bool) := [fun _ => (1, false), fun _ => (2, false), fun _ => (4, false)]
    let s := rowRun mseRow ⟨2, true⟩ dimAcc (·.2) xs
    s.life "sum_squared_error" = (7, false) ∧ s.buf "windowed_sum_squared_error" = [(4, false), (2, false)] ∧
      rowWindowed mseRow dimAcc s "windowed_sum_squared_error" = (6, false) ∧
      (mseRow.lifes.map (·.op)) = [.adopt, .add] := by
  decide +kernel

def aurocRow : SRow := Gen.winWindowedBinaryAUROCRow

example : aurocRow ∈ generatedSRows ∧ aurocRow.WF = true ∧ aurocRow.branches.length = 3 := by decide +kernel

/-- window 3: batches of 2 (fits), 2 (wraps), 4 (≥ window) — each buffer from its own argument. -/
example :
    let x (k : Nat) (m : Nat) : String → List Nat := fun a =>
      (List.range m).map fun i => (if a = "input" then 100 else if a = "target" then 200 else 300) + k + i
    let s1 := sPush aurocRow (sInit aurocRow 3 0) 2 (x 0 2)
    let s2 := sPush aurocRow s1 2 (x 10 2)
    let s3 := sPush aurocRow s2 4 (x 20 4)
    s1.buf "inputs" = [100, 101, 0] ∧ s1.next = 2 ∧
    s2.buf "inputs" = [111, 101, 110] ∧ s2.buf "weights" = [311, 301, 310] ∧ s2.next = 1 ∧ s2.total = 4 ∧
    s3.buf "targets" = [221, 222, 223] ∧ s3.next = 0 ∧ s3.total = 8 ∧
    s2.buf "inputs" = (sUpdate 3 2 (s1.buf "inputs") [110, 111]).1 := by
  decide +kernel

example : ({ aurocRow with branches := aurocRow.branches.take 2 } : SRow).WF = false := by decide +kernel

end TE.C13
