/-
  C05 — AUROC, AUPRC, precision-recall curves and recall at fixed precision equal
  their definitions, including ties, weights and the degenerate conventions.
  ONLY property theorems and non-vacuity examples live here; helper lemmas are in
  TE/Lemmas/Curve*.lean.  Models: TE/Model/Curve.lean (the code's sort / diff-mask /
  cumsum / masked-scatter / trapz pipeline); specs: TE/Spec/Curve.lean (double
  sums and counting, no sorting).
-/
import TE.Model.Curve
import TE.Spec.Curve
import TE.Lemmas.Curve
import TE.Lemmas.CurveAuroc
import TE.Lemmas.CurvePR
namespace TE.C05
open TE TE.Curve TE.Spec.Curve TE.CurveL

/-! ## (a) AUROC: the trapezoid over the masked, right-aligned cumulative sums is
    the weighted pairwise probability, ties counting one half -/

/-- **binary AUROC = its definition**, for every score vector (any tie pattern,
    constant scores), every 0/1 label vector (incl. all-positive / all-negative)
    and *arbitrary* rational weights, `n ≥ 1`:
    `Σ_{i pos, j neg} wᵢwⱼ([sᵢ>sⱼ] + ½[sᵢ=sⱼ]) / (W⁺·W⁻)`, and `1/2` when `W⁺·W⁻ = 0`. -/
theorem auroc_model_eq_spec (xs ts ws : List Q)
    (hne : samples xs ts ws ≠ [])
    (hlab : ∀ x ∈ samples xs ts ws, x.t = 0 ∨ x.t = 1) :
    binaryAuroc xs ts ws = .ok (auroc (samples xs ts ws)) := by
  unfold binaryAuroc
  rw [binPts_eq, aurocCore_eq _ (by simpa using hne) (toPt_ab _ hlab),
    sum_a_eq_wPos _ hlab, sum_b_eq_wNeg _ hlab, ptNum_eq_aurocNum _ hlab]
  rfl

example : binaryAuroc [1/2, 1/2, 1/4, 3/4] [1, 0, 1, 0] [1, 2, 1, 2] = .ok (1/8) := by
  rw [auroc_model_eq_spec _ _ _ (by decide +kernel) (by decide +kernel)]; exact congrArg _ (by decide +kernel)

/-- the same for every task row (`num_tasks > 1`). -/
theorem auroc_tasks_model_eq_spec (rows : List (List Q × List Q × List Q))
    (hne : ∀ r ∈ rows, samples r.1 r.2.1 r.2.2 ≠ [])
    (hlab : ∀ r ∈ rows, ∀ x ∈ samples r.1 r.2.1 r.2.2, x.t = 0 ∨ x.t = 1) :
    binaryAurocTasks rows = .ok (rows.map fun r => auroc (samples r.1 r.2.1 r.2.2)) := by
  unfold binaryAurocTasks
  apply mapM_ok
  intro r hr
  exact auroc_model_eq_spec _ _ _ (hne r hr) (hlab r hr)

example : binaryAurocTasks [([1/2, 1/2], [1, 0], [1, 1]), ([1/4, 3/4], [0, 1], [1, 2])] = .ok [1/2, 1] := by
  rw [auroc_tasks_model_eq_spec _ (by decide +kernel) (by decide +kernel)]; exact congrArg _ (by decide +kernel)

/-! ## (b) permutation invariance; the order in which the sort leaves tied samples is irrelevant -/

/-- the definition does not depend on the order of the samples. -/
theorem aurocSpec_perm {l₁ l₂ : List Sample} (h : l₁.Perm l₂) : auroc l₁ = auroc l₂ := by
  have hp := h.filter isPos
  have hn := h.filter isNeg
  have e1 : wPos l₁ = wPos l₂ := sum_map_perm hp _
  have e2 : wNeg l₁ = wNeg l₂ := sum_map_perm hn _
  have e3 : aurocNum l₁ = aurocNum l₂ := by
    unfold aurocNum
    rw [sum_map_perm hp]
    apply sum_map_congr
    intro i _
    exact sum_map_perm hn _
  unfold auroc
  rw [e1, e2, e3]

example : auroc [⟨1/2, 1, 1⟩, ⟨1/2, 0, 2⟩, ⟨1/4, 1, 1⟩] = auroc [⟨1/4, 1, 1⟩, ⟨1/2, 0, 2⟩, ⟨1/2, 1, 1⟩] :=
  aurocSpec_perm (by decide +kernel)

/-- **any** arrangement of the samples in non-increasing score order — whatever
    `torch.sort` does with ties — gives the definition's value: the result does
    not depend on how ties are ordered by the sort. -/
theorem auroc_any_sort (xs ts ws : List Q) (srt : List Pt)
    (hperm : srt.Perm (binPts xs ts ws))
    (hsorted : srt.Pairwise fun x y => y.s ≤ x.s)
    (hne : samples xs ts ws ≠ [])
    (hlab : ∀ x ∈ samples xs ts ws, x.t = 0 ∨ x.t = 1) :
    aurocSorted srt = .ok (auroc (samples xs ts ws)) := by
  rw [binPts_eq] at hperm
  rw [aurocSorted_of_perm _ srt hperm hsorted (by simpa using hne) (toPt_ab _ hlab),
    sum_a_eq_wPos _ hlab, sum_b_eq_wNeg _ hlab, ptNum_eq_aurocNum _ hlab]
  rfl

/-- two different arrangements of the tied pair (positive first / negative first). -/
example : aurocSorted [⟨1/2, 1, 0⟩, ⟨1/2, 0, 1⟩, ⟨1/4, 1, 0⟩] = .ok (1/4)
    ∧ aurocSorted [⟨1/2, 0, 1⟩, ⟨1/2, 1, 0⟩, ⟨1/4, 1, 0⟩] = .ok (1/4) := by
  constructor
  · rw [auroc_any_sort [1/2, 1/2, 1/4] [1, 0, 1] [1, 1, 1] _ (by decide +kernel) (by decide +kernel) (by decide +kernel) (by decide +kernel)]
    exact congrArg _ (by decide +kernel)
  · rw [auroc_any_sort [1/2, 1/2, 1/4] [1, 0, 1] [1, 1, 1] _ (by decide +kernel) (by decide +kernel) (by decide +kernel) (by decide +kernel)]
    exact congrArg _ (by decide +kernel)

/-- the model's own sort is such an arrangement (so `binaryAuroc` of a permuted
    input is the same value). -/
theorem auroc_model_perm (xs ts ws xs' ts' ws' : List Q)
    (hp : (samples xs ts ws).Perm (samples xs' ts' ws'))
    (hne : samples xs ts ws ≠ [])
    (hlab : ∀ x ∈ samples xs ts ws, x.t = 0 ∨ x.t = 1) :
    binaryAuroc xs ts ws = binaryAuroc xs' ts' ws' := by
  have hne' : samples xs' ts' ws' ≠ [] := by
    intro e; rw [e] at hp; exact hne (List.Perm.eq_nil hp)
  rw [auroc_model_eq_spec _ _ _ hne hlab,
    auroc_model_eq_spec _ _ _ hne' (fun x hx => hlab x (hp.mem_iff.mpr hx)), aurocSpec_perm hp]

example : binaryAuroc [1/2, 1/4, 1/2] [1, 0, 0] [1, 2, 1] = binaryAuroc [1/4, 1/2, 1/2] [0, 0, 1] [2, 1, 1] :=
  auroc_model_perm _ _ _ _ _ _ (by decide +kernel) (by decide +kernel) (by decide +kernel)

/-! ## (e) degenerate conventions of AUROC -/

/-- a class without weight (in particular: absent) ⇒ `0.5`. -/
theorem auroc_degenerate (xs ts ws : List Q)
    (hne : samples xs ts ws ≠ [])
    (hlab : ∀ x ∈ samples xs ts ws, x.t = 0 ∨ x.t = 1)
    (hdeg : wPos (samples xs ts ws) = 0 ∨ wNeg (samples xs ts ws) = 0) :
    binaryAuroc xs ts ws = .ok (1 / 2) := by
  rw [auroc_model_eq_spec _ _ _ hne hlab]
  unfold auroc
  have : wPos (samples xs ts ws) * wNeg (samples xs ts ws) = 0 := by
    rcases hdeg with h | h <;> rw [h] <;> grind
  simp [this]

/-- all labels negative (or all positive) ⇒ the class is absent ⇒ `0.5`. -/
theorem auroc_single_class (xs ts ws : List Q) (c : Q) (hc : c = 0 ∨ c = 1)
    (hne : samples xs ts ws ≠ [])
    (hall : ∀ x ∈ samples xs ts ws, x.t = c) :
    binaryAuroc xs ts ws = .ok (1 / 2) := by
  have hlab : ∀ x ∈ samples xs ts ws, x.t = 0 ∨ x.t = 1 := by
    intro x hx; rw [hall x hx]; exact hc
  apply auroc_degenerate _ _ _ hne hlab
  rcases hc with rfl | rfl
  · left
    unfold wPos
    have : (samples xs ts ws).filter isPos = [] := by
      apply List.filter_eq_nil_iff.mpr
      intro x hx
      simp [isPos, hall x hx]
    rw [this]; rfl
  · right
    unfold wNeg
    have : (samples xs ts ws).filter isNeg = [] := by
      apply List.filter_eq_nil_iff.mpr
      intro x hx
      simp [isNeg, hall x hx]
    rw [this]; rfl

example : binaryAuroc [1/2, 1/4, 1/2] [0, 0, 0] [1, 2, 1] = .ok (1 / 2) :=
  auroc_single_class _ _ _ 0 (Or.inl rfl) (by decide +kernel) (by decide +kernel)
example : binaryAuroc [1/2, 1/4, 1/2] [1, 1, 1] [1, 2, 1] = .ok (1 / 2) :=
  auroc_single_class _ _ _ 1 (Or.inr rfl) (by decide +kernel) (by decide +kernel)

/-- no sample at all: the real code fails indexing `cum_tp[-1]` (TorchScript `RuntimeError`). -/
theorem auroc_empty (ts ws : List Q) : binaryAuroc [] ts ws = .error .runtime := by
  unfold binaryAuroc binPts aurocCore sortDesc
  simp [aurocSorted_nil]

/-! ## (d) multiclass AUROC = one-vs-rest binary AUROC per class, then the average -/

/-- class `c` of `_multiclass_auroc_compute` is the binary definition on the
    one-vs-rest samples (unit weights, label 1 iff the target is `c`). -/
theorem multiclass_auroc_class_eq (c : Nat) (col labs : List Q) (hne : col.zip labs ≠ []) :
    aurocCore (ovrPts c col labs) = .ok (auroc (ovrSamples c col labs)) := by
  have hb : Binary (ovrSamples c col labs) := ovrSamples_binary c col labs
  rw [ovrPts_eq, aurocCore_eq _ (by simpa [ovrSamples] using hne) (toPt_ab _ hb),
    sum_a_eq_wPos _ hb, sum_b_eq_wNeg _ hb, ptNum_eq_aurocNum _ hb]
  rfl

/-- `average=None`: the vector of per-class one-vs-rest AUROCs. -/
theorem multiclass_auroc_none_eq (cols : List (List Q)) (labs : List Q)
    (hne : ∀ col ∈ cols, col.zip labs ≠ []) :
    multiclassAuroc cols labs .none
      = .ok ((cols.zipIdx.map fun cc => auroc (ovrSamples cc.2 cc.1 labs)).map XQ.val) := by
  unfold multiclassAuroc
  rw [mapM_ok (g := fun cc => auroc (ovrSamples cc.2 cc.1 labs))]
  · rfl
  · intro cc hcc
    exact multiclass_auroc_class_eq _ _ _ (hne cc.1 (mem_zipIdx_fst hcc))

/-- `average="macro"`: their unweighted mean. -/
theorem multiclass_auroc_macro_eq (cols : List (List Q)) (labs : List Q)
    (hne : ∀ col ∈ cols, col.zip labs ≠ []) :
    multiclassAuroc cols labs .macro
      = .ok [mean (cols.zipIdx.map fun cc => auroc (ovrSamples cc.2 cc.1 labs))] := by
  unfold multiclassAuroc
  rw [mapM_ok (g := fun cc => auroc (ovrSamples cc.2 cc.1 labs))]
  · rfl
  · intro cc hcc
    exact multiclass_auroc_class_eq _ _ _ (hne cc.1 (mem_zipIdx_fst hcc))

example : multiclassAuroc [[1/2, 1/2, 1], [1/2, 1/4, 0]] [0, 1, 0] .none = .ok [.val (3/4), .val (1/2)] := by
  rw [multiclass_auroc_none_eq _ _ (by decide +kernel)]; exact congrArg _ (by decide +kernel)
example : multiclassAuroc [[1/2, 1/2, 1], [1/2, 1/4, 0]] [0, 1, 0] .macro = .ok [.val (5/8)] := by
  rw [multiclass_auroc_macro_eq _ _ (by decide +kernel)]; exact congrArg _ (by decide +kernel)

end TE.C05
