import TE.Model.Curve
import TE.Spec.Curve
namespace TE.C05
end TE.C05
