/-
  C05 — AUROC, AUPRC, precision-recall curves and recall at fixed precision equal
  their definitions, including ties, weights and the degenerate conventions.
  ONLY property theorems and non-vacuity examples live here; helper lemmas are in
  TE/Lemmas/Curve*.lean.  Models: TE/Model/Curve.lean (the code's sort / diff-mask /
  cumsum / masked-scatter / trapz pipeline); specs: TE/Spec/Curve.lean (double
  sums and counting, no sorting).
-/
import TE.Model.Curve
import TE.Spec.Curve
import TE.Lemmas.Curve
import TE.Lemmas.CurveAuroc
import TE.Lemmas.CurvePR
namespace TE.C05
open TE TE.Curve TE.Spec.Curve TE.CurveL

/-! ## (a) AUROC: the trapezoid over the masked, right-aligned cumulative sums is
    the weighted pairwise probability, ties counting one half -/

/-- **binary AUROC = its definition**, for every score vector (any tie pattern,
    constant scores), every 0/1 label vector (incl. all-positive / all-negative)
    and *arbitrary* rational weights, `n ≥ 1`:
    `Σ_{i pos, j neg} wᵢwⱼ([sᵢ>sⱼ] + ½[sᵢ=sⱼ]) / (W⁺·W⁻)`, and `1/2` when `W⁺·W⁻ = 0`. -/
theorem auroc_model_eq_spec (xs ts ws : List Q)
    (hne : samples xs ts ws ≠ [])
    (hlab : ∀ x ∈ samples xs ts ws, x.t = 0 ∨ x.t = 1) :
    binaryAuroc xs ts ws = .ok (auroc (samples xs ts ws)) := by
  unfold binaryAuroc
  rw [binPts_eq, aurocCore_eq _ (by simpa using hne) (toPt_ab _ hlab),
    sum_a_eq_wPos _ hlab, sum_b_eq_wNeg _ hlab, ptNum_eq_aurocNum _ hlab]
  rfl

example : binaryAuroc [1/2, 1/2, 1/4, 3/4] [1, 0, 1, 0] [1, 2, 1, 2] = .ok (1/8) := by
  rw [auroc_model_eq_spec _ _ _ (by decide +kernel) (by decide +kernel)]; exact congrArg _ (by decide +kernel)

/-- the same for every task row (`num_tasks > 1`). -/
theorem auroc_tasks_model_eq_spec (rows : List (List Q × List Q × List Q))
    (hne : ∀ r ∈ rows, samples r.1 r.2.1 r.2.2 ≠ [])
    (hlab : ∀ r ∈ rows, ∀ x ∈ samples r.1 r.2.1 r.2.2, x.t = 0 ∨ x.t = 1) :
    binaryAurocTasks rows = .ok (rows.map fun r => auroc (samples r.1 r.2.1 r.2.2)) := by
  unfold binaryAurocTasks
  apply mapM_ok
  intro r hr
  exact auroc_model_eq_spec _ _ _ (hne r hr) (hlab r hr)

example : binaryAurocTasks [([1/2, 1/2], [1, 0], [1, 1]), ([1/4, 3/4], [0, 1], [1, 2])] = .ok [1/2, 1] := by
  rw [auroc_tasks_model_eq_spec _ (by decide +kernel) (by decide +kernel)]; exact congrArg _ (by decide +kernel)

/-! ## (b) permutation invariance; the order in which the sort leaves tied samples is irrelevant -/

/-- the definition does not depend on the order of the samples. -/
theorem aurocSpec_perm {l₁ l₂ : List Sample} (h : l₁.Perm l₂) : auroc l₁ = auroc l₂ := by
  have hp := h.filter isPos
  have hn := h.filter isNeg
  have e1 : wPos l₁ = wPos l₂ := sum_map_perm hp _
  have e2 : wNeg l₁ = wNeg l₂ := sum_map_perm hn _
  have e3 : aurocNum l₁ = aurocNum l₂ := by
    unfold aurocNum
    rw [sum_map_perm hp]
    apply sum_map_congr
    intro i _
    exact sum_map_perm hn _
  unfold auroc
  rw [e1, e2, e3]

example : auroc [⟨1/2, 1, 1⟩, ⟨1/2, 0, 2⟩, ⟨1/4, 1, 1⟩] = auroc [⟨1/4, 1, 1⟩, ⟨1/2, 0, 2⟩, ⟨1/2, 1, 1⟩] :=
  aurocSpec_perm (by decide +kernel)

/-- **any** arrangement of the samples in non-increasing score order — whatever
    `torch.sort` does with ties — gives the definition's value: the result does
    not depend on how ties are ordered by the sort. -/
theorem auroc_any_sort (xs ts ws : List Q) (srt : List Pt)
    (hperm : srt.Perm (binPts xs ts ws))
    (hsorted : srt.Pairwise fun x y => y.s ≤ x.s)
    (hne : samples xs ts ws ≠ [])
    (hlab : ∀ x ∈ samples xs ts ws, x.t = 0 ∨ x.t = 1) :
    aurocSorted srt = .ok (auroc (samples xs ts ws)) := by
  rw [binPts_eq] at hperm
  rw [aurocSorted_of_perm _ srt hperm hsorted (by simpa using hne) (toPt_ab _ hlab),
    sum_a_eq_wPos _ hlab, sum_b_eq_wNeg _ hlab, ptNum_eq_aurocNum _ hlab]
  rfl

/-- two different arrangements of the tied pair (positive first / negative first). -/
example : aurocSorted [⟨1/2, 1, 0⟩, ⟨1/2, 0, 1⟩, ⟨1/4, 1, 0⟩] = .ok (1/4)
    ∧ aurocSorted [⟨1/2, 0, 1⟩, ⟨1/2, 1, 0⟩, ⟨1/4, 1, 0⟩] = .ok (1/4) := by
  constructor
  · rw [auroc_any_sort [1/2, 1/2, 1/4] [1, 0, 1] [1, 1, 1] _ (by decide +kernel) (by decide +kernel) (by decide +kernel) (by decide +kernel)]
    exact congrArg _ (by decide +kernel)
  · rw [auroc_any_sort [1/2, 1/2, 1/4] [1, 0, 1] [1, 1, 1] _ (by decide +kernel) (by decide +kernel) (by decide +kernel) (by decide +kernel)]
    exact congrArg _ (by decide +kernel)

/-- the model's own sort is such an arrangement (so `binaryAuroc` of a permuted
    input is the same value). -/
theorem auroc_model_perm (xs ts ws xs' ts' ws' : List Q)
    (hp : (samples xs ts ws).Perm (samples xs' ts' ws'))
    (hne : samples xs ts ws ≠ [])
    (hlab : ∀ x ∈ samples xs ts ws, x.t = 0 ∨ x.t = 1) :
    binaryAuroc xs ts ws = binaryAuroc xs' ts' ws' := by
  have hne' : samples xs' ts' ws' ≠ [] := by
    intro e; rw [e] at hp; exact hne (List.Perm.eq_nil hp)
  rw [auroc_model_eq_spec _ _ _ hne hlab,
    auroc_model_eq_spec _ _ _ hne' (fun x hx => hlab x (hp.mem_iff.mpr hx)), aurocSpec_perm hp]

example : binaryAuroc [1/2, 1/4, 1/2] [1, 0, 0] [1, 2, 1] = binaryAuroc [1/4, 1/2, 1/2] [0, 0, 1] [2, 1, 1] :=
  auroc_model_perm _ _ _ _ _ _ (by decide +kernel) (by decide +kernel) (by decide +kernel)

/-! ## (e) degenerate conventions of AUROC -/

/-- a class without weight (in particular: absent) ⇒ `0.5`. -/
theorem auroc_degenerate (xs ts ws : List Q)
    (hne : samples xs ts ws ≠ [])
    (hlab : ∀ x ∈ samples xs ts ws, x.t = 0 ∨ x.t = 1)
    (hdeg : wPos (samples xs ts ws) = 0 ∨ wNeg (samples xs ts ws) = 0) :
    binaryAuroc xs ts ws = .ok (1 / 2) := by
  rw [auroc_model_eq_spec _ _ _ hne hlab]
  unfold auroc
  have : wPos (samples xs ts ws) * wNeg (samples xs ts ws) = 0 := by
    rcases hdeg with h | h <;> rw [h] <;> grind
  simp [this]

/-- all labels negative (or all positive) ⇒ the class is absent ⇒ `0.5`. -/
theorem auroc_single_class (xs ts ws : List Q) (c : Q) (hc : c = 0 ∨ c = 1)
    (hne : samples xs ts ws ≠ [])
    (hall : ∀ x ∈ samples xs ts ws, x.t = c) :
    binaryAuroc xs ts ws = .ok (1 / 2) := by
  have hlab : ∀ x ∈ samples xs ts ws, x.t = 0 ∨ x.t = 1 := by
    intro x hx; rw [hall x hx]; exact hc
  apply auroc_degenerate _ _ _ hne hlab
  rcases hc with rfl | rfl
  · left
    unfold wPos
    have : (samples xs ts ws).filter isPos = [] := by
      apply List.filter_eq_nil_iff.mpr
      intro x hx
      simp [isPos, hall x hx]
    rw [this]; rfl
  · right
    unfold wNeg
    have : (samples xs ts ws).filter isNeg = [] := by
      apply List.filter_eq_nil_iff.mpr
      intro x hx
      simp [isNeg, hall x hx]
    rw [this]; rfl

example : binaryAuroc [1/2, 1/4, 1/2] [0, 0, 0] [1, 2, 1] = .ok (1 / 2) :=
  auroc_single_class _ _ _ 0 (Or.inl rfl) (by decide +kernel) (by decide +kernel)
example : binaryAuroc [1/2, 1/4, 1/2] [1, 1, 1] [1, 2, 1] = .ok (1 / 2) :=
  auroc_single_class _ _ _ 1 (Or.inr rfl) (by decide +kernel) (by decide +kernel)

/-- no sample at all: the real code fails indexing `cum_tp[-1]` (TorchScript `RuntimeError`). -/
theorem auroc_empty (ts ws : List Q) : binaryAuroc [] ts ws = .error .runtime := by
  unfold binaryAuroc binPts aurocCore sortDesc
  simp [aurocSorted_nil]

/-- why the label hypothesis cannot be dropped: `binary_auroc` multiplies by the
    target, and for a fractional "label" the right-aligned `masked_scatter_`
    leaves no origin point in front of the curve when all scores are distinct —
    appending a sample of *zero* mass that merely ties with an existing score
    then changes the result (2/3 vs 5/6; the real code returns 0.6667 / 0.8333
    on `input=[1,.5]`, `target=[.5,0]` resp. with the extra `(.5, 0, weight 0)`).
    Labels in {0,1} exclude this (`auroc_model_eq_spec`). -/
theorem auroc_fractional_label_witness :
    (aurocSorted [⟨1, 1/2, 1/2⟩, ⟨1/2, 0, 1⟩]).toOption = some (2/3)
      ∧ (aurocSorted [⟨1, 1/2, 1/2⟩, ⟨1/2, 0, 1⟩, ⟨1/2, 0, 0⟩]).toOption = some (5/6) := by
  decide +kernel

/-! ## (d) multiclass AUROC = one-vs-rest binary AUROC per class, then the average -/

/-- class `c` of `_multiclass_auroc_compute` is the binary definition on the
    one-vs-rest samples (unit weights, label 1 iff the target is `c`). -/
theorem multiclass_auroc_class_eq (c : Nat) (col labs : List Q) (hne : col.zip labs ≠ []) :
    aurocCore (ovrPts c col labs) = .ok (auroc (ovrSamples c col labs)) := by
  have hb : Binary (ovrSamples c col labs) := ovrSamples_binary c col labs
  rw [ovrPts_eq, aurocCore_eq _ (by simpa [ovrSamples] using hne) (toPt_ab _ hb),
    sum_a_eq_wPos _ hb, sum_b_eq_wNeg _ hb, ptNum_eq_aurocNum _ hb]
  rfl

/-- `average=None`: the vector of per-class one-vs-rest AUROCs. -/
theorem multiclass_auroc_none_eq (cols : List (List Q)) (labs : List Q)
    (hne : ∀ col ∈ cols, col.zip labs ≠ []) :
    multiclassAuroc cols labs .none
      = .ok ((cols.zipIdx.map fun cc => auroc (ovrSamples cc.2 cc.1 labs)).map XQ.val) := by
  unfold multiclassAuroc
  rw [mapM_ok (g := fun cc => auroc (ovrSamples cc.2 cc.1 labs))]
  · rfl
  · intro cc hcc
    exact multiclass_auroc_class_eq _ _ _ (hne cc.1 (mem_zipIdx_fst hcc))

/-- `average="macro"`: their unweighted mean. -/
theorem multiclass_auroc_macro_eq (cols : List (List Q)) (labs : List Q)
    (hne : ∀ col ∈ cols, col.zip labs ≠ []) :
    multiclassAuroc cols labs .macro
      = .ok [mean (cols.zipIdx.map fun cc => auroc (ovrSamples cc.2 cc.1 labs))] := by
  unfold multiclassAuroc
  rw [mapM_ok (g := fun cc => auroc (ovrSamples cc.2 cc.1 labs))]
  · rfl
  · intro cc hcc
    exact multiclass_auroc_class_eq _ _ _ (hne cc.1 (mem_zipIdx_fst hcc))

example : multiclassAuroc [[1/2, 1/2, 1], [1/2, 1/4, 0]] [0, 1, 0] .none = .ok [.val (3/4), .val (1/2)] := by
  rw [multiclass_auroc_none_eq _ _ (by decide +kernel)]; exact congrArg _ (by decide +kernel)
example : multiclassAuroc [[1/2, 1/2, 1], [1/2, 1/4, 0]] [0, 1, 0] .macro = .ok [.val (5/8)] := by
  rw [multiclass_auroc_macro_eq _ _ (by decide +kernel)]; exact congrArg _ (by decide +kernel)

/-! ## (c) precision-recall curve, AUPRC, recall at fixed precision -/

/-- **the curve of `_compute_for_each_class` = the definition**: one point per
    distinct score (ascending), precision `TP(≥t)/(TP(≥t)+FP(≥t))` and recall
    `TP(≥t)/P` by counting the samples scored at or above it, followed by the
    point (precision 1, recall 0); no NaN survives (with no positive at all the
    recall is `1`).  Every score vector, every label vector, `n ≥ 1`. -/
theorem prCurve_model_eq_spec (xs ts : List Q) (hne : posLS xs ts ≠ []) :
    binaryPrCurve xs ts = .ok
      ⟨(prCurve (posLS xs ts)).precision.map XQ.val, (prCurve (posLS xs ts)).recall.map XQ.val,
       (prCurve (posLS xs ts)).thresholds⟩ := by
  unfold binaryPrCurve
  rw [posPts_eq]
  exact prCurveSorted_eq _ _ (sortDesc_perm _) (sortDesc_desc _) hne

example : binaryPrCurve [1/2, 1/2, 1/4, 3/4] [1, 0, 1, 0]
    = .ok ⟨[.val (1/2), .val (1/3), .val 0, .val 1], [.val 1, .val (1/2), .val 0, .val 0], [1/4, 1/2, 3/4]⟩ := by
  rw [prCurve_model_eq_spec _ _ (by decide +kernel)]; exact congrArg _ (by decide +kernel)

/-- whatever the sort does with tied samples. -/
theorem prCurve_any_sort (xs ts : List Q) (srt : List Pt)
    (hperm : srt.Perm (posPts xs ts))
    (hsorted : srt.Pairwise fun x y => y.s ≤ x.s)
    (hne : posLS xs ts ≠ []) :
    prCurveSorted srt = .ok
      ⟨(prCurve (posLS xs ts)).precision.map XQ.val, (prCurve (posLS xs ts)).recall.map XQ.val,
       (prCurve (posLS xs ts)).thresholds⟩ := by
  rw [posPts_eq] at hperm
  exact prCurveSorted_eq _ _ hperm hsorted hne

example : prCurveSorted [⟨1/2, 0, 1⟩, ⟨1/2, 1, 0⟩] = .ok ⟨[.val (1/2), .val 1], [.val 1, .val 0], [1/2]⟩
    ∧ prCurveSorted [⟨1/2, 1, 0⟩, ⟨1/2, 0, 1⟩] = .ok ⟨[.val (1/2), .val 1], [.val 1, .val 0], [1/2]⟩ := by
  constructor
  · rw [prCurve_any_sort [1/2, 1/2] [1, 0] _ (by decide +kernel) (by decide +kernel) (by decide +kernel)]
    exact congrArg _ (by decide +kernel)
  · rw [prCurve_any_sort [1/2, 1/2] [1, 0] _ (by decide +kernel) (by decide +kernel) (by decide +kernel)]
    exact congrArg _ (by decide +kernel)

/-- the thresholds of the definition are exactly the distinct scores, strictly
    ascending — the curve has exactly one point per distinct score, plus the appended one. -/
theorem prCurve_one_point_per_distinct_score (ls : List LS) :
    (prCurve ls).thresholds.Pairwise (· < ·)
      ∧ (∀ t, t ∈ (prCurve ls).thresholds ↔ ∃ x ∈ ls, x.1 = t)
      ∧ (prCurve ls).precision.length = (prCurve ls).thresholds.length + 1
      ∧ (prCurve ls).recall.length = (prCurve ls).thresholds.length + 1 := by
  refine ⟨distinctAsc_sorted _, ?_, by simp [prCurve], by simp [prCurve]⟩
  intro t
  show t ∈ distinctAsc _ ↔ _
  rw [mem_distinctAsc, List.mem_map]

example : (prCurve [(1/2, true), (1/4, false), (1/2, false)]).thresholds = [1/4, 1/2] := by decide +kernel

/-- the definition does not depend on the order of the samples. -/
theorem prCurveSpec_perm {l₁ l₂ : List LS} (h : l₁.Perm l₂) : prCurve l₁ = prCurve l₂ := by
  have hT : distinctAsc (l₁.map (·.1)) = distinctAsc (l₂.map (·.1)) := by
    apply strictAsc_ext _ _ (distinctAsc_sorted _) (distinctAsc_sorted _)
    intro t
    rw [mem_distinctAsc, mem_distinctAsc]
    exact (h.map _).mem_iff
  have htp : ∀ t, tpAt l₁ t = tpAt l₂ t := fun t => h.countP_eq _
  have hfp : ∀ t, fpAt l₁ t = fpAt l₂ t := fun t => h.countP_eq _
  have hn : nPos l₁ = nPos l₂ := h.countP_eq _
  have hprec : precisionAt l₁ = precisionAt l₂ := by
    funext t; unfold precisionAt; rw [htp, hfp]
  have hrec : recallAt l₁ = recallAt l₂ := by
    funext t; unfold recallAt; rw [htp, hn]
  unfold prCurve
  simp only [hT, hprec, hrec]

example : prCurve [(1/2, true), (1/4, false)] = prCurve [(1/4, false), (1/2, true)] :=
  prCurveSpec_perm (by decide +kernel)

/-- the model's curve does not depend on the order of the samples. -/
theorem prCurve_model_perm (xs ts xs' ts' : List Q)
    (hp : (posLS xs ts).Perm (posLS xs' ts')) (hne : posLS xs ts ≠ []) :
    binaryPrCurve xs ts = binaryPrCurve xs' ts' := by
  have hne' : posLS xs' ts' ≠ [] := by
    intro e; rw [e] at hp; exact hne (List.Perm.eq_nil hp)
  rw [prCurve_model_eq_spec _ _ hne, prCurve_model_eq_spec _ _ hne', prCurveSpec_perm hp]

example : binaryPrCurve [1/2, 1/4, 1/2] [1, 0, 0] = binaryPrCurve [1/4, 1/2, 1/2] [0, 0, 1] :=
  prCurve_model_perm _ _ _ _ (by decide +kernel) (by decide +kernel)

/-- **AUPRC = Σₖ (rₖ − rₖ₊₁)·pₖ** over the points of the definition's curve. -/
theorem auprc_eq (xs ts : List Q) (hne : posLS xs ts ≠ []) :
    binaryAuprc xs ts = .ok (.val (auprc (posLS xs ts))) := by
  unfold binaryAuprc
  rw [prCurve_model_eq_spec xs ts hne]
  simp only [bind, Except.bind]
  exact congrArg _ (auprcOf_curveX (prCurve (posLS xs ts)))

example : binaryAuprc [1/2, 1/2, 1/4, 3/4] [1, 0, 1, 0] = .ok (.val (5/12)) := by
  rw [auprc_eq _ _ (by decide +kernel)]; exact congrArg _ (by decide +kernel)

theorem auprc_tasks_eq (rows : List (List Q × List Q)) (hne : ∀ r ∈ rows, posLS r.1 r.2 ≠ []) :
    binaryAuprcTasks rows = .ok (rows.map fun r => XQ.val (auprc (posLS r.1 r.2))) := by
  unfold binaryAuprcTasks
  apply mapM_ok
  intro r hr
  exact auprc_eq _ _ (hne r hr)

example : binaryAuprcTasks [([1/2, 1/4], [1, 0]), ([1/2, 1/4], [0, 1])] = .ok [.val 1, .val (1/2)] := by
  rw [auprc_tasks_eq _ (by decide +kernel)]; exact congrArg _ (by decide +kernel)

/-- **recall at fixed precision = the largest recall among the curve points
    whose precision reaches the bound** (and the returned threshold is the
    absolute value of the largest threshold among the points of that recall, the
    appended point counting as −1), for every bound `≤ 1`. -/
theorem recall_at_precision_eq (xs ts : List Q) (minP : Q) (hne : posLS xs ts ≠ []) (hp : minP ≤ 1) :
    ∃ m t, binaryRecallAtPrecision xs ts minP = .ok (.val m, .val (qabs t))
      ∧ IsMaxRecall (prCurve (posLS xs ts)) minP m
      ∧ IsBestThreshold (prCurve (posLS xs ts)) m t := by
  have hc := prCurve_one_point_per_distinct_score (posLS xs ts)
  obtain ⟨m, t, h1, h2, h3⟩ := recallAtPrecision_curveX (prCurve (posLS xs ts)) minP hc.2.2.2 (by
    refine ⟨(0, 1), ?_, hp⟩
    simp only [prCurve]
    rw [List.zip_append (by simp)]
    simp)
  refine ⟨m, t, ?_, h2, h3⟩
  unfold binaryRecallAtPrecision
  rw [prCurve_model_eq_spec xs ts hne]
  simp only [bind, Except.bind]
  exact h1

/-- the executable oracle (`spec.binary_recall_at_fixed_precision`) computes that maximum. -/
theorem recallAtPrecision_spec_isMax (ls : List LS) (bound r : Q)
    (h : Spec.Curve.recallAtPrecision ls bound = some r) : IsMaxRecall (prCurve ls) bound r := by
  unfold Spec.Curve.recallAtPrecision at h
  obtain ⟨hm, hmax⟩ := maxOf_spec _ _ h
  obtain ⟨rp, hrp, e⟩ := List.mem_map.mp hm
  have := List.mem_filter.mp hrp
  refine ⟨⟨rp, this.1, by simpa using this.2, e⟩, ?_⟩
  intro q hq hqb
  exact hmax _ (List.mem_map.mpr ⟨q, List.mem_filter.mpr ⟨hq, by simpa using hqb⟩, rfl⟩)

example : ∃ m t, binaryRecallAtPrecision [1/2, 1/2, 1/4, 3/4] [1, 0, 1, 0] (1/2) = .ok (.val m, .val (qabs t))
    ∧ IsMaxRecall (prCurve (posLS [1/2, 1/2, 1/4, 3/4] [1, 0, 1, 0])) (1/2) m :=
  let ⟨m, t, h, hm, _⟩ := recall_at_precision_eq [1/2, 1/2, 1/4, 3/4] [1, 0, 1, 0] (1/2) (by decide +kernel) (by decide +kernel)
  ⟨m, t, h, hm⟩
example : Spec.Curve.recallAtPrecision (posLS [1/2, 1/2, 1/4, 3/4] [1, 0, 1, 0]) (1/2) = some 1 := by decide +kernel

/-! ## (d) multiclass / multilabel forms = the binary form per class / label, then the average -/

/-- one row of the vectorised `_multiclass_precision_recall_curve_compute`
    returns what `_compute_for_each_class` returns on the same sorted samples —
    for every input (any masses, any ties), including the failure on no samples. -/
theorem multiclass_prcurve_row_eq (srt : List Pt) : mcPrCurveSorted srt = prCurveSorted srt :=
  mcPrCurveSorted_eq srt

/-- multiclass precision-recall curves = the definition's curve of every
    one-vs-rest problem (class `c` positive iff the target is `c`). -/
theorem multiclass_prcurve_eq (cols : List (List Q)) (labs : List Q)
    (hne : ∀ col ∈ cols, col.zip labs ≠ []) :
    multiclassPrCurve cols labs = .ok (cols.zipIdx.map fun cc =>
      ⟨(prCurve (ovrLS cc.2 cc.1 labs)).precision.map XQ.val,
       (prCurve (ovrLS cc.2 cc.1 labs)).recall.map XQ.val,
       (prCurve (ovrLS cc.2 cc.1 labs)).thresholds⟩) := by
  unfold multiclassPrCurve
  apply mapM_ok
  intro cc hcc
  rw [mcPrCurveSorted_eq, ovrPts_eq_lsPt]
  exact prCurveSorted_eq _ _ (sortDesc_perm _) (sortDesc_desc _)
    (by simpa [ovrLS] using hne cc.1 (mem_zipIdx_fst hcc))

example : multiclassPrCurve [[1/2, 1/2], [1/2, 1/4]] [0, 1]
    = .ok [⟨[.val (1/2), .val 1], [.val 1, .val 0], [1/2]⟩,
           ⟨[.val (1/2), .val 0, .val 1], [.val 1, .val 0, .val 0], [1/4, 1/2]⟩] := by
  rw [multiclass_prcurve_eq _ _ (by decide +kernel)]; exact congrArg _ (by decide +kernel)

/-- multilabel precision-recall curves = the definition's curve of every label column. -/
theorem multilabel_prcurve_eq (cols : List (List Q × List Q)) (hne : ∀ c ∈ cols, posLS c.1 c.2 ≠ []) :
    multilabelPrCurve cols = .ok (cols.map fun c =>
      ⟨(prCurve (posLS c.1 c.2)).precision.map XQ.val, (prCurve (posLS c.1 c.2)).recall.map XQ.val,
       (prCurve (posLS c.1 c.2)).thresholds⟩) := by
  unfold multilabelPrCurve
  apply mapM_ok
  intro c hc
  exact prCurve_model_eq_spec _ _ (hne c hc)

example : multilabelPrCurve [([1/2, 1/2], [1, 0]), ([1/2, 1/4], [0, 0])]
    = .ok [⟨[.val (1/2), .val 1], [.val 1, .val 0], [1/2]⟩,
           ⟨[.val 0, .val 0, .val 1], [.val 1, .val 1, .val 0], [1/4, 1/2]⟩] := by
  rw [multilabel_prcurve_eq _ (by decide +kernel)]; exact congrArg _ (by decide +kernel)

/-- multiclass AUPRC: per-class one-vs-rest AUPRC, then `average` (`none`: the
    vector; `macro`: the unweighted mean). -/
theorem multiclass_auprc_eq (cols : List (List Q)) (labs : List Q) (avg : Avg)
    (hne : ∀ col ∈ cols, col.zip labs ≠ []) :
    multiclassAuprc cols labs avg
      = .ok (averaged avg (cols.zipIdx.map fun cc => auprc (ovrLS cc.2 cc.1 labs))) := by
  unfold multiclassAuprc
  rw [multiclass_prcurve_eq cols labs hne]
  simp only [bind, Except.bind, List.map_map]
  rw [← averagedX_val, List.map_map]
  apply congrArg
  apply congrArg
  apply List.map_congr_left
  intro cc _
  exact auprcOf_curveX (prCurve (ovrLS cc.2 cc.1 labs))

/-- multilabel AUPRC: per-label binary AUPRC, then `average`. -/
theorem multilabel_auprc_eq (cols : List (List Q × List Q)) (avg : Avg)
    (hne : ∀ c ∈ cols, posLS c.1 c.2 ≠ []) :
    multilabelAuprc cols avg = .ok (averaged avg (cols.map fun c => auprc (posLS c.1 c.2))) := by
  unfold multilabelAuprc
  rw [multilabel_prcurve_eq cols hne]
  simp only [bind, Except.bind, List.map_map]
  rw [← averagedX_val, List.map_map]
  apply congrArg
  apply congrArg
  apply List.map_congr_left
  intro c _
  exact auprcOf_curveX (prCurve (posLS c.1 c.2))

/-- what `average` means. -/
theorem averaged_def (per : List Q) :
    averaged .none per = per.map XQ.val ∧ averaged .macro per = [xdiv per.sum per.length] :=
  ⟨rfl, rfl⟩

example : multiclassAuprc [[1/2, 1/2], [1/2, 1/4]] [0, 1] .macro = .ok [.val (1/2)] := by
  rw [multiclass_auprc_eq _ _ _ (by decide +kernel)]; exact congrArg _ (by decide +kernel)
example : multilabelAuprc [([1/2, 1/2], [1, 0]), ([1/2, 1/4], [0, 1])] .none = .ok [.val (1/2), .val (1/2)] := by
  rw [multilabel_auprc_eq _ _ (by decide +kernel)]; exact congrArg _ (by decide +kernel)

/-- multilabel recall at fixed precision: the binary routine on every label column. -/
theorem multilabel_recall_at_precision_eq (cols : List (List Q × List Q)) (minP : Q)
    (hne : ∀ c ∈ cols, posLS c.1 c.2 ≠ []) :
    multilabelRecallAtPrecision cols minP = cols.mapM fun c => binaryRecallAtPrecision c.1 c.2 minP := by
  unfold multilabelRecallAtPrecision
  rw [multilabel_prcurve_eq cols hne]
  simp only [bind, Except.bind, List.mapM_map]
  apply mapM_congr
  intro c hc
  unfold binaryRecallAtPrecision
  rw [prCurve_model_eq_spec _ _ (hne c hc)]
  rfl

/-! ## (e) degenerate conventions of the curve functionals -/

/-- no positive sample: every recall of the curve is `1` (the code's
    `nan_to_num(1.0)` of `0/0`), the appended point keeps recall `0`. -/
theorem prCurve_no_positive (ls : List LS) (h : nPos ls = 0) :
    (prCurve ls).recall = (prCurve ls).thresholds.map (fun _ => 1) ++ [0] := by
  simp [prCurve, recallAt, h]

/-- …and then every precision is `0`, hence AUPRC = 0. -/
theorem auprc_no_positive (ls : List LS) (hne : ls ≠ []) (h : nPos ls = 0) : auprc ls = 0 := by
  have hr := prCurve_no_positive ls h
  have hp : (prCurve ls).precision = (prCurve ls).thresholds.map (fun _ => 0) ++ [1] := by
    simp only [prCurve]
    congr 1
    apply List.map_congr_left
    intro t _
    have : tpAt ls t = 0 := by have := tpAt_le_nPos ls t; omega
    simp [precisionAt, this, Rat.div_def, Rat.zero_mul]
  have hT : (prCurve ls).thresholds ≠ [] := by
    intro e
    obtain ⟨x, hx⟩ := List.exists_mem_of_ne_nil ls hne
    have := ((prCurve_one_point_per_distinct_score ls).2.1 x.1).mpr ⟨x, hx, rfl⟩
    rw [e] at this; simp at this
  unfold auprc
  rw [hr, hp]
  exact stepSum_ones_zeros _ hT

example : auprc [(1/2, false), (1/4, false)] = 0 := auprc_no_positive _ (by decide +kernel) (by decide +kernel)

/-- no sample at all: the real code fails (`num_tp[-1]` on an empty tensor). -/
theorem prCurve_empty (ts : List Q) : binaryPrCurve [] ts = .error .runtime := by
  unfold binaryPrCurve posPts sortDesc
  simp [prCurveSorted_nil]

/-- a bound above 1 leaves no candidate: `torch.max` of an empty tensor raises
    (the public functionals reject such a bound earlier with `ValueError`). -/
theorem recall_at_precision_bound_above_one (xs ts : List Q) (minP : Q) (hne : posLS xs ts ≠ [])
    (hp : 1 < minP) : binaryRecallAtPrecision xs ts minP = .error .runtime := by
  unfold binaryRecallAtPrecision
  rw [prCurve_model_eq_spec xs ts hne]
  simp only [bind, Except.bind, TE.Curve.recallAtPrecision, allQ?_map_val]
  have : ((prCurve (posLS xs ts)).recall.zip (prCurve (posLS xs ts)).precision).filter
      (fun rp => decide (minP ≤ rp.2)) = [] := by
    apply List.filter_eq_nil_iff.mpr
    intro rp hrp
    have h1 := precision_le_one (posLS xs ts) rp.2 (List.of_mem_zip hrp).2
    simp only [decide_eq_true_eq]
    grind
  rw [this]
  rfl

example : binaryRecallAtPrecision [1/2, 1/4] [1, 0] 2 = .error .runtime :=
  recall_at_precision_bound_above_one _ _ _ (by decide +kernel) (by decide +kernel)

end TE.C05
