/-
  C18 — shape contract: inconsistent sample counts are rejected, never broadcast.

  Per check helper `_<stem>_(update_)input_check` of torcheval.metrics.functional (translated on every run
  from /repo's working tree by harness/translators/shapes.py into `TE.Gen.check_<stem>`), for ALL shapes
  (lists of naturals of any length and extents) and all parameter values:
    (1) C18_accepts_<stem>  : Gen.check_<stem> … = .ok ↔ Accepts_<stem> …        what the code lets through
                              (value oracles — label ranges, probabilities, dtypes — taken "in range")
    (2) C18_complete_<stem> : Valid_<stem> … → Accepts_<stem> …                  every documented shape is accepted
    (3) C18_gap_<stem>      : Accepts ∧ ¬Valid ↔ one of the named `patterns_<stem>` matches
                              (or, when the list is empty:  Accepts → Valid)
  `Valid_<stem>` / `patterns_<stem>`: TE/Spec/Shape.lean (from the docstrings); `Accepts_<stem>`:
  TE/Lemmas/ShapeAccepts.lean.  Every gap pattern is then run against the real call by
  harness/props/c18.py: it must raise later or it is reported as a violation.

  Reading of "(num_tasks, n_sample) or (n_sample,)" for num_tasks = 1: see TE/Spec/Shape.lean (`Valid_tasks` for
  binary_auprc / binary_binned_auprc / auc, which document and accept the one-row layout; `Valid_tasks1` — exactly
  (n_sample,) — for the functions whose check says "`input` is expected to be one-dimensional").

  Proofs are uniform (`split_shape` on the rank of every tensor, then `shape_auto` = `simp` with the shared
  definitions + `grind`; TE/Lemmas/ShapeAccepts.lean), so a refactoring of a
  Python helper that regenerates a logically equivalent Lean term keeps them green.
-/
import TE.Gen.Shapes
import TE.Spec.Shape
import TE.Lemmas.Shape
import TE.Lemmas.ShapeAccepts
set_option linter.unusedSimpArgs false
set_option linter.unusedVariables false
namespace TE.C18
open TE TE.Shape TE.ShapeSpec

/-! ### `_binary_accuracy` -/

theorem C18_accepts_binary_accuracy (i t : Shp) :
    Gen.check_binary_accuracy i t = .ok ↔ Accepts_1d i t = true := by
  unfold Gen.check_binary_accuracy Accepts_1d
  split_shape i <;> split_shape t <;> shape_auto

theorem C18_complete_binary_accuracy (i t : Shp) :
    Valid_binary_accuracy i t = true → Accepts_1d i t = true := by
  unfold Valid_binary_accuracy Accepts_1d
  split_shape i <;> split_shape t <;> shape_auto

/-- nothing undocumented is accepted -/
theorem C18_gap_binary_accuracy (i t : Shp) :
    Accepts_1d i t = true → Valid_binary_accuracy i t = true := by
  unfold Valid_binary_accuracy Accepts_1d
  split_shape i <;> split_shape t <;> shape_auto

example : Gen.check_binary_accuracy [3] [3] = .ok ∧ Valid_binary_accuracy [3] [3] = true := by decide

/-! ### `_binary_precision` -/

theorem C18_accepts_binary_precision (i t : Shp) :
    Gen.check_binary_precision i t = .ok ↔ Accepts_1d i t = true := by
  unfold Gen.check_binary_precision Accepts_1d
  split_shape i <;> split_shape t <;> shape_auto

theorem C18_complete_binary_precision (i t : Shp) :
    Valid_binary_precision i t = true → Accepts_1d i t = true := by
  unfold Valid_binary_precision Accepts_1d
  split_shape i <;> split_shape t <;> shape_auto

/-- nothing undocumented is accepted -/
theorem C18_gap_binary_precision (i t : Shp) :
    Accepts_1d i t = true → Valid_binary_precision i t = true := by
  unfold Valid_binary_precision Accepts_1d
  split_shape i <;> split_shape t <;> shape_auto

example : Gen.check_binary_precision [3] [3] = .ok ∧ Valid_binary_precision [3] [3] = true := by decide

/-! ### `_binary_recall` -/

theorem C18_accepts_binary_recall (i t : Shp) :
    Gen.check_binary_recall i t = .ok ↔ Accepts_1d i t = true := by
  unfold Gen.check_binary_recall Accepts_1d
  split_shape i <;> split_shape t <;> shape_auto

theorem C18_complete_binary_recall (i t : Shp) :
    Valid_binary_recall i t = true → Accepts_1d i t = true := by
  unfold Valid_binary_recall Accepts_1d
  split_shape i <;> split_shape t <;> shape_auto

/-- nothing undocumented is accepted -/
theorem C18_gap_binary_recall (i t : Shp) :
    Accepts_1d i t = true → Valid_binary_recall i t = true := by
  unfold Valid_binary_recall Accepts_1d
  split_shape i <;> split_shape t <;> shape_auto

example : Gen.check_binary_recall [3] [3] = .ok ∧ Valid_binary_recall [3] [3] = true := by decide

/-! ### `_binary_f1_score` -/

theorem C18_accepts_binary_f1_score (i t : Shp) :
    Gen.check_binary_f1_score i t = .ok ↔ Accepts_1d i t = true := by
  unfold Gen.check_binary_f1_score Accepts_1d
  split_shape i <;> split_shape t <;> shape_auto

theorem C18_complete_binary_f1_score (i t : Shp) :
    Valid_binary_f1_score i t = true → Accepts_1d i t = true := by
  unfold Valid_binary_f1_score Accepts_1d
  split_shape i <;> split_shape t <;> shape_auto

/-- nothing undocumented is accepted -/
theorem C18_gap_binary_f1_score (i t : Shp) :
    Accepts_1d i t = true → Valid_binary_f1_score i t = true := by
  unfold Valid_binary_f1_score Accepts_1d
  split_shape i <;> split_shape t <;> shape_auto

example : Gen.check_binary_f1_score [3] [3] = .ok ∧ Valid_binary_f1_score [3] [3] = true := by decide

/-! ### `_binary_precision_recall_curve` -/

theorem C18_accepts_binary_precision_recall_curve (i t : Shp) :
    Gen.check_binary_precision_recall_curve i t = .ok ↔ Accepts_1d i t = true := by
  unfold Gen.check_binary_precision_recall_curve Accepts_1d
  split_shape i <;> split_shape t <;> shape_auto

theorem C18_complete_binary_precision_recall_curve (i t : Shp) :
    Valid_binary_precision_recall_curve i t = true → Accepts_1d i t = true := by
  unfold Valid_binary_precision_recall_curve Accepts_1d
  split_shape i <;> split_shape t <;> shape_auto

/-- nothing undocumented is accepted -/
theorem C18_gap_binary_precision_recall_curve (i t : Shp) :
    Accepts_1d i t = true → Valid_binary_precision_recall_curve i t = true := by
  unfold Valid_binary_precision_recall_curve Accepts_1d
  split_shape i <;> split_shape t <;> shape_auto

example : Gen.check_binary_precision_recall_curve [3] [3] = .ok ∧ Valid_binary_precision_recall_curve [3] [3] = true := by decide

/-! ### `_binary_confusion_matrix` -/

theorem C18_accepts_binary_confusion_matrix (i t : Shp) :
    Gen.check_binary_confusion_matrix i t false = .ok ↔ Accepts_1d i t = true := by
  unfold Gen.check_binary_confusion_matrix Accepts_1d
  split_shape i <;> split_shape t <;> shape_auto

theorem C18_complete_binary_confusion_matrix (i t : Shp) :
    Valid_binary_confusion_matrix i t = true → Accepts_1d i t = true := by
  unfold Valid_binary_confusion_matrix Accepts_1d
  split_shape i <;> split_shape t <;> shape_auto

/-- nothing undocumented is accepted -/
theorem C18_gap_binary_confusion_matrix (i t : Shp) :
    Accepts_1d i t = true → Valid_binary_confusion_matrix i t = true := by
  unfold Valid_binary_confusion_matrix Accepts_1d
  split_shape i <;> split_shape t <;> shape_auto

example : Gen.check_binary_confusion_matrix [3] [3] false = .ok ∧ Valid_binary_confusion_matrix [3] [3] = true := by decide

/-! ### `_binary_recall_at_fixed_precision` -/

theorem C18_accepts_binary_recall_at_fixed_precision (i t : Shp) :
    Gen.check_binary_recall_at_fixed_precision i t false = .ok ↔ Accepts_1d i t = true := by
  unfold Gen.check_binary_recall_at_fixed_precision Accepts_1d Gen.check_binary_precision_recall_curve
  split_shape i <;> split_shape t <;> shape_auto

theorem C18_complete_binary_recall_at_fixed_precision (i t : Shp) :
    Valid_binary_recall_at_fixed_precision i t = true → Accepts_1d i t = true := by
  unfold Valid_binary_recall_at_fixed_precision Accepts_1d
  split_shape i <;> split_shape t <;> shape_auto

/-- nothing undocumented is accepted -/
theorem C18_gap_binary_recall_at_fixed_precision (i t : Shp) :
    Accepts_1d i t = true → Valid_binary_recall_at_fixed_precision i t = true := by
  unfold Valid_binary_recall_at_fixed_precision Accepts_1d
  split_shape i <;> split_shape t <;> shape_auto

example : Gen.check_binary_recall_at_fixed_precision [3] [3] false = .ok ∧ Valid_binary_recall_at_fixed_precision [3] [3] = true := by decide

/-! ### `_accuracy` -/

theorem C18_accepts_accuracy (i t : Shp) (nc : Option Int) (k : Int) :
    Gen.check_accuracy i t nc k = .ok ↔ Accepts_accuracy i t nc k = true := by
  unfold Gen.check_accuracy Accepts_accuracy
  split_shape i <;> split_shape t <;> cases nc <;> shape_auto

theorem C18_complete_accuracy (i t : Shp) (nc : Option Int) (k : Int) :
    Valid_accuracy i t nc k = true → Accepts_accuracy i t nc k = true := by
  unfold Valid_accuracy Accepts_accuracy
  split_shape i <;> split_shape t <;> cases nc <;> shape_auto

/-- nothing undocumented is accepted -/
theorem C18_gap_accuracy (i t : Shp) (nc : Option Int) (k : Int) :
    Accepts_accuracy i t nc k = true → Valid_accuracy i t nc k = true := by
  unfold Valid_accuracy Accepts_accuracy
  split_shape i <;> split_shape t <;> cases nc <;> shape_auto

example : Gen.check_accuracy [3, 4] [3] (some 4) 2 = .ok ∧ Valid_accuracy [3, 4] [3] (some 4) 2 = true := by decide

/-! ### `_precision` -/

theorem C18_accepts_precision (i t : Shp) (nc : Option Int) :
    Gen.check_precision i t nc = .ok ↔ Accepts_multiclass i t nc = true := by
  unfold Gen.check_precision Accepts_multiclass
  split_shape i <;> split_shape t <;> cases nc <;> shape_auto

theorem C18_complete_precision (i t : Shp) (nc : Option Int) :
    Valid_precision i t nc = true → Accepts_multiclass i t nc = true := by
  unfold Valid_precision Accepts_multiclass
  split_shape i <;> split_shape t <;> cases nc <;> shape_auto

/-- nothing undocumented is accepted -/
theorem C18_gap_precision (i t : Shp) (nc : Option Int) :
    Accepts_multiclass i t nc = true → Valid_precision i t nc = true := by
  unfold Valid_precision Accepts_multiclass
  split_shape i <;> split_shape t <;> cases nc <;> shape_auto

example : Gen.check_precision [3, 4] [3] (some 4) = .ok ∧ Valid_precision [3, 4] [3] (some 4) = true := by decide

/-! ### `_recall` -/

theorem C18_accepts_recall (i t : Shp) (nc : Option Int) :
    Gen.check_recall i t nc = .ok ↔ Accepts_multiclass i t nc = true := by
  unfold Gen.check_recall Accepts_multiclass
  split_shape i <;> split_shape t <;> cases nc <;> shape_auto

theorem C18_complete_recall (i t : Shp) (nc : Option Int) :
    Valid_recall i t nc = true → Accepts_multiclass i t nc = true := by
  unfold Valid_recall Accepts_multiclass
  split_shape i <;> split_shape t <;> cases nc <;> shape_auto

/-- nothing undocumented is accepted -/
theorem C18_gap_recall (i t : Shp) (nc : Option Int) :
    Accepts_multiclass i t nc = true → Valid_recall i t nc = true := by
  unfold Valid_recall Accepts_multiclass
  split_shape i <;> split_shape t <;> cases nc <;> shape_auto

example : Gen.check_recall [3, 4] [3] (some 4) = .ok ∧ Valid_recall [3, 4] [3] (some 4) = true := by decide

/-! ### `_f1_score` -/

theorem C18_accepts_f1_score (i t : Shp) (nc : Option Int) :
    Gen.check_f1_score i t nc = .ok ↔ Accepts_multiclass i t nc = true := by
  unfold Gen.check_f1_score Accepts_multiclass
  split_shape i <;> split_shape t <;> cases nc <;> shape_auto

theorem C18_complete_f1_score (i t : Shp) (nc : Option Int) :
    Valid_f1_score i t nc = true → Accepts_multiclass i t nc = true := by
  unfold Valid_f1_score Accepts_multiclass
  split_shape i <;> split_shape t <;> cases nc <;> shape_auto

/-- nothing undocumented is accepted -/
theorem C18_gap_f1_score (i t : Shp) (nc : Option Int) :
    Accepts_multiclass i t nc = true → Valid_f1_score i t nc = true := by
  unfold Valid_f1_score Accepts_multiclass
  split_shape i <;> split_shape t <;> cases nc <;> shape_auto

example : Gen.check_f1_score [3, 4] [3] (some 4) = .ok ∧ Valid_f1_score [3, 4] [3] (some 4) = true := by decide

/-! ### `_confusion_matrix` -/

theorem C18_accepts_confusion_matrix (i t : Shp) (nc : Option Int) :
    Gen.check_confusion_matrix i t nc false false false false = .ok ↔ Accepts_confusion_matrix i t nc = true := by
  unfold Gen.check_confusion_matrix Accepts_confusion_matrix
  split_shape i <;> split_shape t <;> cases nc <;> shape_auto

theorem C18_complete_confusion_matrix (i t : Shp) (nc : Option Int) :
    Valid_confusion_matrix i t nc = true → Accepts_confusion_matrix i t nc = true := by
  unfold Valid_confusion_matrix Accepts_confusion_matrix
  split_shape i <;> split_shape t <;> cases nc <;> shape_auto

/-- nothing undocumented is accepted -/
theorem C18_gap_confusion_matrix (i t : Shp) (nc : Option Int) :
    Accepts_confusion_matrix i t nc = true → Valid_confusion_matrix i t nc = true := by
  unfold Valid_confusion_matrix Accepts_confusion_matrix
  split_shape i <;> split_shape t <;> cases nc <;> shape_auto

example : Gen.check_confusion_matrix [3, 4] [3] (some 4) false false false false = .ok ∧ Valid_confusion_matrix [3, 4] [3] (some 4) = true := by decide

/-! ### `_multiclass_auroc` -/

theorem C18_accepts_multiclass_auroc (i t : Shp) (nc : Int) :
    Gen.check_multiclass_auroc i t nc = .ok ↔ Accepts_scores i t (some nc) = true := by
  unfold Gen.check_multiclass_auroc Accepts_scores
  split_shape i <;> split_shape t <;> shape_auto

theorem C18_complete_multiclass_auroc (i t : Shp) (nc : Int) :
    Valid_multiclass_auroc i t nc = true → Accepts_scores i t (some nc) = true := by
  unfold Valid_multiclass_auroc Accepts_scores
  split_shape i <;> split_shape t <;> shape_auto

/-- nothing undocumented is accepted -/
theorem C18_gap_multiclass_auroc (i t : Shp) (nc : Int) :
    Accepts_scores i t (some nc) = true → Valid_multiclass_auroc i t nc = true := by
  unfold Valid_multiclass_auroc Accepts_scores
  split_shape i <;> split_shape t <;> shape_auto

example : Gen.check_multiclass_auroc [3, 4] [3] 4 = .ok ∧ Valid_multiclass_auroc [3, 4] [3] 4 = true := by decide

/-! ### `_multiclass_auprc` -/

theorem C18_accepts_multiclass_auprc (i t : Shp) (nc : Int) :
    Gen.check_multiclass_auprc i t nc = .ok ↔ Accepts_scores i t (some nc) = true := by
  unfold Gen.check_multiclass_auprc Accepts_scores
  split_shape i <;> split_shape t <;> shape_auto

theorem C18_complete_multiclass_auprc (i t : Shp) (nc : Int) :
    Valid_multiclass_auprc i t nc = true → Accepts_scores i t (some nc) = true := by
  unfold Valid_multiclass_auprc Accepts_scores
  split_shape i <;> split_shape t <;> shape_auto

/-- nothing undocumented is accepted -/
theorem C18_gap_multiclass_auprc (i t : Shp) (nc : Int) :
    Accepts_scores i t (some nc) = true → Valid_multiclass_auprc i t nc = true := by
  unfold Valid_multiclass_auprc Accepts_scores
  split_shape i <;> split_shape t <;> shape_auto

example : Gen.check_multiclass_auprc [3, 4] [3] 4 = .ok ∧ Valid_multiclass_auprc [3, 4] [3] 4 = true := by decide

/-! ### `_multiclass_binned_auroc` -/

theorem C18_accepts_multiclass_binned_auroc (i t : Shp) (nc : Int) :
    Gen.check_multiclass_binned_auroc i t nc = .ok ↔ Accepts_scores i t (some nc) = true := by
  unfold Gen.check_multiclass_binned_auroc Accepts_scores
  split_shape i <;> split_shape t <;> shape_auto

theorem C18_complete_multiclass_binned_auroc (i t : Shp) (nc : Int) :
    Valid_multiclass_binned_auroc i t nc = true → Accepts_scores i t (some nc) = true := by
  unfold Valid_multiclass_binned_auroc Accepts_scores
  split_shape i <;> split_shape t <;> shape_auto

/-- nothing undocumented is accepted -/
theorem C18_gap_multiclass_binned_auroc (i t : Shp) (nc : Int) :
    Accepts_scores i t (some nc) = true → Valid_multiclass_binned_auroc i t nc = true := by
  unfold Valid_multiclass_binned_auroc Accepts_scores
  split_shape i <;> split_shape t <;> shape_auto

example : Gen.check_multiclass_binned_auroc [3, 4] [3] 4 = .ok ∧ Valid_multiclass_binned_auroc [3, 4] [3] 4 = true := by decide

/-! ### `_multiclass_binned_auprc` -/

theorem C18_accepts_multiclass_binned_auprc (i t : Shp) (nc : Int) :
    Gen.check_multiclass_binned_auprc i t nc = .ok ↔ Accepts_scores i t (some nc) = true := by
  unfold Gen.check_multiclass_binned_auprc Accepts_scores
  split_shape i <;> split_shape t <;> shape_auto

theorem C18_complete_multiclass_binned_auprc (i t : Shp) (nc : Int) :
    Valid_multiclass_binned_auprc i t nc = true → Accepts_scores i t (some nc) = true := by
  unfold Valid_multiclass_binned_auprc Accepts_scores
  split_shape i <;> split_shape t <;> shape_auto

/-- nothing undocumented is accepted -/
theorem C18_gap_multiclass_binned_auprc (i t : Shp) (nc : Int) :
    Accepts_scores i t (some nc) = true → Valid_multiclass_binned_auprc i t nc = true := by
  unfold Valid_multiclass_binned_auprc Accepts_scores
  split_shape i <;> split_shape t <;> shape_auto

example : Gen.check_multiclass_binned_auprc [3, 4] [3] 4 = .ok ∧ Valid_multiclass_binned_auprc [3, 4] [3] 4 = true := by decide

/-! ### `_multiclass_precision_recall_curve` -/

theorem C18_accepts_multiclass_precision_recall_curve (i t : Shp) (nc : Option Int) :
    Gen.check_multiclass_precision_recall_curve i t nc = .ok ↔ Accepts_scores i t nc = true := by
  unfold Gen.check_multiclass_precision_recall_curve Accepts_scores
  split_shape i <;> split_shape t <;> cases nc <;> shape_auto

theorem C18_complete_multiclass_precision_recall_curve (i t : Shp) (nc : Option Int) :
    Valid_multiclass_precision_recall_curve i t nc = true → Accepts_scores i t nc = true := by
  unfold Valid_multiclass_precision_recall_curve Accepts_scores
  split_shape i <;> split_shape t <;> cases nc <;> shape_auto

/-- nothing undocumented is accepted -/
theorem C18_gap_multiclass_precision_recall_curve (i t : Shp) (nc : Option Int) :
    Accepts_scores i t nc = true → Valid_multiclass_precision_recall_curve i t nc = true := by
  unfold Valid_multiclass_precision_recall_curve Accepts_scores
  split_shape i <;> split_shape t <;> cases nc <;> shape_auto

example : Gen.check_multiclass_precision_recall_curve [3, 4] [3] none = .ok ∧ Valid_multiclass_precision_recall_curve [3, 4] [3] none = true := by decide

/-! ### `_hit_rate` -/

theorem C18_accepts_hit_rate (i t : Shp) :
    Gen.check_hit_rate i t none = .ok ↔ Accepts_rank i t = true := by
  unfold Gen.check_hit_rate Accepts_rank
  split_shape i <;> split_shape t <;> shape_auto

theorem C18_complete_hit_rate (i t : Shp) :
    Valid_hit_rate i t = true → Accepts_rank i t = true := by
  unfold Valid_hit_rate Accepts_rank
  split_shape i <;> split_shape t <;> shape_auto

/-- nothing undocumented is accepted -/
theorem C18_gap_hit_rate (i t : Shp) :
    Accepts_rank i t = true → Valid_hit_rate i t = true := by
  unfold Valid_hit_rate Accepts_rank
  split_shape i <;> split_shape t <;> shape_auto

example : Gen.check_hit_rate [3, 4] [3] none = .ok ∧ Valid_hit_rate [3, 4] [3] = true := by decide

/-! ### `_reciprocal_rank` -/

theorem C18_accepts_reciprocal_rank (i t : Shp) :
    Gen.check_reciprocal_rank i t = .ok ↔ Accepts_rank i t = true := by
  unfold Gen.check_reciprocal_rank Accepts_rank
  split_shape i <;> split_shape t <;> shape_auto

theorem C18_complete_reciprocal_rank (i t : Shp) :
    Valid_reciprocal_rank i t = true → Accepts_rank i t = true := by
  unfold Valid_reciprocal_rank Accepts_rank
  split_shape i <;> split_shape t <;> shape_auto

/-- nothing undocumented is accepted -/
theorem C18_gap_reciprocal_rank (i t : Shp) :
    Accepts_rank i t = true → Valid_reciprocal_rank i t = true := by
  unfold Valid_reciprocal_rank Accepts_rank
  split_shape i <;> split_shape t <;> shape_auto

example : Gen.check_reciprocal_rank [3, 4] [3] = .ok ∧ Valid_reciprocal_rank [3, 4] [3] = true := by decide

/-! ### `_multilabel_accuracy` -/

theorem C18_accepts_multilabel_accuracy (i t : Shp) :
    Gen.check_multilabel_accuracy i t = .ok ↔ Accepts_eq2d i t = true := by
  unfold Gen.check_multilabel_accuracy Accepts_eq2d
  split_shape i <;> split_shape t <;> shape_auto

theorem C18_complete_multilabel_accuracy (i t : Shp) :
    Valid_multilabel_accuracy i t = true → Accepts_eq2d i t = true := by
  unfold Valid_multilabel_accuracy Accepts_eq2d
  split_shape i <;> split_shape t <;> shape_auto

/-- nothing undocumented is accepted -/
theorem C18_gap_multilabel_accuracy (i t : Shp) :
    Accepts_eq2d i t = true → Valid_multilabel_accuracy i t = true := by
  unfold Valid_multilabel_accuracy Accepts_eq2d
  split_shape i <;> split_shape t <;> shape_auto

example : Gen.check_multilabel_accuracy [3, 4] [3, 4] = .ok ∧ Valid_multilabel_accuracy [3, 4] [3, 4] = true := by decide

/-! ### `_topk_multilabel_accuracy` -/

theorem C18_accepts_topk_multilabel_accuracy (i t : Shp) (k : Int) :
    Gen.check_topk_multilabel_accuracy i t k = .ok ↔ Accepts_eq2d i t = true := by
  unfold Gen.check_topk_multilabel_accuracy Accepts_eq2d
  split_shape i <;> split_shape t <;> shape_auto

theorem C18_complete_topk_multilabel_accuracy (i t : Shp) (k : Int) :
    Valid_topk_multilabel_accuracy i t = true → Accepts_eq2d i t = true := by
  unfold Valid_topk_multilabel_accuracy Accepts_eq2d
  split_shape i <;> split_shape t <;> shape_auto

/-- nothing undocumented is accepted -/
theorem C18_gap_topk_multilabel_accuracy (i t : Shp) (k : Int) :
    Accepts_eq2d i t = true → Valid_topk_multilabel_accuracy i t = true := by
  unfold Valid_topk_multilabel_accuracy Accepts_eq2d
  split_shape i <;> split_shape t <;> shape_auto

example : Gen.check_topk_multilabel_accuracy [3, 4] [3, 4] 2 = .ok ∧ Valid_topk_multilabel_accuracy [3, 4] [3, 4] = true := by decide

/-! ### `_multilabel_auprc` -/

theorem C18_accepts_multilabel_auprc (i t : Shp) (L : Int) :
    Gen.check_multilabel_auprc i t L = .ok ↔ Accepts_multilabel i t L = true := by
  unfold Gen.check_multilabel_auprc Accepts_multilabel
  split_shape i <;> split_shape t <;> shape_auto

theorem C18_complete_multilabel_auprc (i t : Shp) (L : Int) :
    Valid_multilabel_auprc i t L = true → Accepts_multilabel i t L = true := by
  unfold Valid_multilabel_auprc Accepts_multilabel
  split_shape i <;> split_shape t <;> shape_auto

/-- nothing undocumented is accepted -/
theorem C18_gap_multilabel_auprc (i t : Shp) (L : Int) :
    Accepts_multilabel i t L = true → Valid_multilabel_auprc i t L = true := by
  unfold Valid_multilabel_auprc Accepts_multilabel
  split_shape i <;> split_shape t <;> shape_auto

example : Gen.check_multilabel_auprc [3, 4] [3, 4] 4 = .ok ∧ Valid_multilabel_auprc [3, 4] [3, 4] 4 = true := by decide

/-! ### `_multilabel_binned_auprc` -/

theorem C18_accepts_multilabel_binned_auprc (i t : Shp) (L : Int) :
    Gen.check_multilabel_binned_auprc i t L = .ok ↔ Accepts_multilabel i t L = true := by
  unfold Gen.check_multilabel_binned_auprc Accepts_multilabel
  split_shape i <;> split_shape t <;> shape_auto

theorem C18_complete_multilabel_binned_auprc (i t : Shp) (L : Int) :
    Valid_multilabel_binned_auprc i t L = true → Accepts_multilabel i t L = true := by
  unfold Valid_multilabel_binned_auprc Accepts_multilabel
  split_shape i <;> split_shape t <;> shape_auto

/-- nothing undocumented is accepted -/
theorem C18_gap_multilabel_binned_auprc (i t : Shp) (L : Int) :
    Accepts_multilabel i t L = true → Valid_multilabel_binned_auprc i t L = true := by
  unfold Valid_multilabel_binned_auprc Accepts_multilabel
  split_shape i <;> split_shape t <;> shape_auto

example : Gen.check_multilabel_binned_auprc [3, 4] [3, 4] 4 = .ok ∧ Valid_multilabel_binned_auprc [3, 4] [3, 4] 4 = true := by decide

/-! ### `_multilabel_precision_recall_curve` -/

theorem C18_accepts_multilabel_precision_recall_curve (i t : Shp) (L : Int) :
    Gen.check_multilabel_precision_recall_curve i t L = .ok ↔ Accepts_multilabel i t L = true := by
  unfold Gen.check_multilabel_precision_recall_curve Accepts_multilabel
  split_shape i <;> split_shape t <;> shape_auto

theorem C18_complete_multilabel_precision_recall_curve (i t : Shp) (L : Int) :
    Valid_multilabel_precision_recall_curve i t L = true → Accepts_multilabel i t L = true := by
  unfold Valid_multilabel_precision_recall_curve Accepts_multilabel
  split_shape i <;> split_shape t <;> shape_auto

/-- nothing undocumented is accepted -/
theorem C18_gap_multilabel_precision_recall_curve (i t : Shp) (L : Int) :
    Accepts_multilabel i t L = true → Valid_multilabel_precision_recall_curve i t L = true := by
  unfold Valid_multilabel_precision_recall_curve Accepts_multilabel
  split_shape i <;> split_shape t <;> shape_auto

example : Gen.check_multilabel_precision_recall_curve [3, 4] [3, 4] 4 = .ok ∧ Valid_multilabel_precision_recall_curve [3, 4] [3, 4] 4 = true := by decide

/-! ### `_multilabel_recall_at_fixed_precision` -/

theorem C18_accepts_multilabel_recall_at_fixed_precision (i t : Shp) (L : Int) :
    Gen.check_multilabel_recall_at_fixed_precision i t L false = .ok ↔ Accepts_multilabel i t L = true := by
  unfold Gen.check_multilabel_recall_at_fixed_precision Accepts_multilabel Gen.check_multilabel_precision_recall_curve
  split_shape i <;> split_shape t <;> shape_auto

theorem C18_complete_multilabel_recall_at_fixed_precision (i t : Shp) (L : Int) :
    Valid_multilabel_recall_at_fixed_precision i t L = true → Accepts_multilabel i t L = true := by
  unfold Valid_multilabel_recall_at_fixed_precision Accepts_multilabel
  split_shape i <;> split_shape t <;> shape_auto

/-- nothing undocumented is accepted -/
theorem C18_gap_multilabel_recall_at_fixed_precision (i t : Shp) (L : Int) :
    Accepts_multilabel i t L = true → Valid_multilabel_recall_at_fixed_precision i t L = true := by
  unfold Valid_multilabel_recall_at_fixed_precision Accepts_multilabel
  split_shape i <;> split_shape t <;> shape_auto

example : Gen.check_multilabel_recall_at_fixed_precision [3, 4] [3, 4] 4 false = .ok ∧ Valid_multilabel_recall_at_fixed_precision [3, 4] [3, 4] 4 = true := by decide

/-! ### `_binary_auprc` -/

theorem C18_accepts_binary_auprc (i t : Shp) (T : Int) :
    Gen.check_binary_auprc i t T = .ok ↔ Accepts_binary_auprc i t T = true := by
  unfold Gen.check_binary_auprc Accepts_binary_auprc
  split_shape i <;> split_shape t <;> shape_auto

theorem C18_complete_binary_auprc (i t : Shp) (T : Int) :
    Valid_binary_auprc i t T = true → Accepts_binary_auprc i t T = true := by
  unfold Valid_binary_auprc Accepts_binary_auprc
  split_shape i <;> split_shape t <;> shape_auto

theorem C18_gap_binary_auprc (i t : Shp) (T : Int) :
    (Accepts_binary_auprc i t T && !Valid_binary_auprc i t T) = true ↔ (patterns_binary_auprc.any fun p => p.2 i t T) = true := by
  unfold Valid_binary_auprc Accepts_binary_auprc patterns_binary_auprc
  split_shape i <;> split_shape t <;> shape_auto

example : Gen.check_binary_auprc [2, 3] [2, 3] 2 = .ok ∧ Valid_binary_auprc [2, 3] [2, 3] 2 = true := by decide

/-! ### `_binary_binned_auprc` -/

theorem C18_accepts_binary_binned_auprc (i t th : Shp) (T : Int) :
    Gen.check_binary_binned_auprc i t T th = .ok ↔ Accepts_binary_binned_auprc i t T = true := by
  unfold Gen.check_binary_binned_auprc Accepts_binary_binned_auprc
  split_shape i <;> split_shape t <;> shape_auto

theorem C18_complete_binary_binned_auprc (i t th : Shp) (T : Int) :
    Valid_binary_binned_auprc i t T = true → Accepts_binary_binned_auprc i t T = true := by
  unfold Valid_binary_binned_auprc Accepts_binary_binned_auprc
  split_shape i <;> split_shape t <;> shape_auto

/-- nothing undocumented is accepted -/
theorem C18_gap_binary_binned_auprc (i t th : Shp) (T : Int) :
    Accepts_binary_binned_auprc i t T = true → Valid_binary_binned_auprc i t T = true := by
  unfold Valid_binary_binned_auprc Accepts_binary_binned_auprc
  split_shape i <;> split_shape t <;> shape_auto

example : Gen.check_binary_binned_auprc [1, 3] [1, 3] 1 [5] = .ok ∧ Valid_binary_binned_auprc [1, 3] [1, 3] 1 = true := by decide

/-! ### `_binary_binned_auroc` -/

theorem C18_accepts_binary_binned_auroc (i t th : Shp) (T : Int) :
    Gen.check_binary_binned_auroc i t T th = .ok ↔ Accepts_tasks_strict i t T = true := by
  unfold Gen.check_binary_binned_auroc Accepts_tasks_strict
  split_shape i <;> split_shape t <;> shape_auto

theorem C18_complete_binary_binned_auroc (i t th : Shp) (T : Int) :
    Valid_binary_binned_auroc i t T = true → Accepts_tasks_strict i t T = true := by
  unfold Valid_binary_binned_auroc Accepts_tasks_strict
  split_shape i <;> split_shape t <;> shape_auto

/-- nothing undocumented is accepted -/
theorem C18_gap_binary_binned_auroc (i t th : Shp) (T : Int) :
    Accepts_tasks_strict i t T = true → Valid_binary_binned_auroc i t T = true := by
  unfold Valid_binary_binned_auroc Accepts_tasks_strict
  split_shape i <;> split_shape t <;> shape_auto

example : Gen.check_binary_binned_auroc [2, 3] [2, 3] 2 [5] = .ok ∧ Valid_binary_binned_auroc [2, 3] [2, 3] 2 = true := by decide

/-! ### `_retrieval_precision` -/

theorem C18_accepts_retrieval_precision (i t : Shp) (T : Int) (ix : Option Shp) (q : Int) :
    Gen.check_retrieval_precision i t T ix q = .ok ↔ Accepts_retrieval i t T ix = true := by
  unfold Gen.check_retrieval_precision Accepts_retrieval
  split_shape i <;> split_shape t <;> cases ix <;> shape_auto

theorem C18_complete_retrieval_precision (i t : Shp) (T : Int) (ix : Option Shp) (q : Int) :
    Valid_retrieval_precision i t T ix = true → Accepts_retrieval i t T ix = true := by
  unfold Valid_retrieval_precision Accepts_retrieval
  split_shape i <;> split_shape t <;> cases ix <;> shape_auto

/-- nothing undocumented is accepted -/
theorem C18_gap_retrieval_precision (i t : Shp) (T : Int) (ix : Option Shp) (q : Int) :
    Accepts_retrieval i t T ix = true → Valid_retrieval_precision i t T ix = true := by
  unfold Valid_retrieval_precision Accepts_retrieval
  split_shape i <;> split_shape t <;> cases ix <;> shape_auto

example : Gen.check_retrieval_precision [3] [3] 1 (some [3]) 2 = .ok ∧ Valid_retrieval_precision [3] [3] 1 (some [3]) = true := by decide

/-! ### `_retrieval_recall` -/

theorem C18_accepts_retrieval_recall (i t : Shp) (T : Int) (ix : Option Shp) (q : Int) :
    Gen.check_retrieval_recall i t T ix q = .ok ↔ Accepts_retrieval i t T ix = true := by
  unfold Gen.check_retrieval_recall Accepts_retrieval
  split_shape i <;> split_shape t <;> cases ix <;> shape_auto

theorem C18_complete_retrieval_recall (i t : Shp) (T : Int) (ix : Option Shp) (q : Int) :
    Valid_retrieval_recall i t T ix = true → Accepts_retrieval i t T ix = true := by
  unfold Valid_retrieval_recall Accepts_retrieval
  split_shape i <;> split_shape t <;> cases ix <;> shape_auto

/-- nothing undocumented is accepted -/
theorem C18_gap_retrieval_recall (i t : Shp) (T : Int) (ix : Option Shp) (q : Int) :
    Accepts_retrieval i t T ix = true → Valid_retrieval_recall i t T ix = true := by
  unfold Valid_retrieval_recall Accepts_retrieval
  split_shape i <;> split_shape t <;> cases ix <;> shape_auto

example : Gen.check_retrieval_recall [3] [3] 1 (some [3]) 2 = .ok ∧ Valid_retrieval_recall [3] [3] 1 (some [3]) = true := by decide

/-! ### `_binary_auroc` -/

theorem C18_accepts_binary_auroc (i t : Shp) (T : Int) (w : Option Shp) :
    Gen.check_binary_auroc i t T w = .ok ↔ Accepts_binary_auroc i t T w = true := by
  unfold Gen.check_binary_auroc Accepts_binary_auroc
  split_shape i <;> split_shape t <;> cases w <;> shape_auto

theorem C18_complete_binary_auroc (i t : Shp) (T : Int) (w : Option Shp) :
    Valid_binary_auroc i t T w = true → Accepts_binary_auroc i t T w = true := by
  unfold Valid_binary_auroc Accepts_binary_auroc
  split_shape i <;> split_shape t <;> cases w <;> shape_auto

theorem C18_gap_binary_auroc (i t : Shp) (T : Int) (w : Option Shp) :
    (Accepts_binary_auroc i t T w && !Valid_binary_auroc i t T w) = true ↔ (patterns_binary_auroc.any fun p => p.2 i t T w) = true := by
  unfold Valid_binary_auroc Accepts_binary_auroc patterns_binary_auroc
  split_shape i <;> split_shape t <;> cases w <;> shape_auto

example : Gen.check_binary_auroc [2, 3] [2, 3] 2 (some [2, 3]) = .ok ∧ Valid_binary_auroc [2, 3] [2, 3] 2 (some [2, 3]) = true := by decide

/-! ### `_ne` -/

theorem C18_accepts_ne (i t : Shp) (fl : Bool) (T : Int) (w : Option Shp) :
    Gen.check_ne i t fl T w false = .ok ↔ Accepts_ne i t T w = true := by
  unfold Gen.check_ne Accepts_ne
  split_shape i <;> split_shape t <;> cases w <;> shape_auto

theorem C18_complete_ne (i t : Shp) (fl : Bool) (T : Int) (w : Option Shp) :
    Valid_ne i t T w = true → Accepts_ne i t T w = true := by
  unfold Valid_ne Accepts_ne
  split_shape i <;> split_shape t <;> cases w <;> shape_auto

/-- nothing undocumented is accepted -/
theorem C18_gap_ne (i t : Shp) (fl : Bool) (T : Int) (w : Option Shp) :
    Accepts_ne i t T w = true → Valid_ne i t T w = true := by
  unfold Valid_ne Accepts_ne
  split_shape i <;> split_shape t <;> cases w <;> shape_auto

example : Gen.check_ne [2, 3] [2, 3] false 2 (some [2, 3]) false = .ok ∧ Valid_ne [2, 3] [2, 3] 2 (some [2, 3]) = true := by decide

/-! ### `_weighted_calibration` -/

theorem C18_accepts_weighted_calibration (i t : Shp) (w : Option Shp) (T : Int) :
    Gen.check_weighted_calibration i t w T = .ok ↔ Accepts_weighted_calibration i t T = true := by
  unfold Gen.check_weighted_calibration Accepts_weighted_calibration
  split_shape i <;> split_shape t <;> cases w <;> shape_auto

theorem C18_complete_weighted_calibration (i t : Shp) (w : Option Shp) (T : Int) :
    Valid_weighted_calibration i t w T = true → Accepts_weighted_calibration i t T = true := by
  unfold Valid_weighted_calibration Accepts_weighted_calibration
  split_shape i <;> split_shape t <;> cases w <;> shape_auto

theorem C18_gap_weighted_calibration (i t : Shp) (w : Option Shp) (T : Int) :
    (Accepts_weighted_calibration i t T && !Valid_weighted_calibration i t w T) = true ↔ (patterns_weighted_calibration.any fun p => p.2 i t T w) = true := by
  unfold Valid_weighted_calibration Accepts_weighted_calibration patterns_weighted_calibration
  split_shape i <;> split_shape t <;> cases w <;> shape_auto

example : Gen.check_weighted_calibration [2, 3] [2, 3] (some [2, 3]) 2 = .ok ∧ Valid_weighted_calibration [2, 3] [2, 3] (some [2, 3]) 2 = true := by decide

/-! ### `_click_through_rate` -/

theorem C18_accepts_click_through_rate (i : Shp) (w : Option Shp) (T : Int) :
    Gen.check_click_through_rate i w T = .ok ↔ Accepts_click_through_rate i w T = true := by
  unfold Gen.check_click_through_rate Accepts_click_through_rate
  split_shape i <;> cases w <;> shape_auto

theorem C18_complete_click_through_rate (i : Shp) (w : Option Shp) (T : Int) :
    Valid_click_through_rate i w T = true → Accepts_click_through_rate i w T = true := by
  unfold Valid_click_through_rate Accepts_click_through_rate
  split_shape i <;> cases w <;> shape_auto

/-- nothing undocumented is accepted -/
theorem C18_gap_click_through_rate (i : Shp) (w : Option Shp) (T : Int) :
    Accepts_click_through_rate i w T = true → Valid_click_through_rate i w T = true := by
  unfold Valid_click_through_rate Accepts_click_through_rate
  split_shape i <;> cases w <;> shape_auto

example : Gen.check_click_through_rate [2, 3] (some [2, 3]) 2 = .ok ∧ Valid_click_through_rate [2, 3] (some [2, 3]) 2 = true := by decide

/-! ### `_mean_squared_error` -/

theorem C18_accepts_mean_squared_error (i t : Shp) (w : Option Shp) :
    Gen.check_mean_squared_error i t w = .ok ↔ Accepts_mean_squared_error i t w = true := by
  unfold Gen.check_mean_squared_error Accepts_mean_squared_error
  split_shape i <;> split_shape t <;> rcases w with _ | w <;> (try split_shape3 w) <;> shape_auto

theorem C18_complete_mean_squared_error (i t : Shp) (w : Option Shp) :
    Valid_mean_squared_error i t w = true → Accepts_mean_squared_error i t w = true := by
  unfold Valid_mean_squared_error Accepts_mean_squared_error
  split_shape i <;> split_shape t <;> rcases w with _ | w <;> (try split_shape3 w) <;> shape_auto

theorem C18_gap_mean_squared_error (i t : Shp) (w : Option Shp) :
    (Accepts_mean_squared_error i t w && !Valid_mean_squared_error i t w) = true ↔ (patterns_mean_squared_error.any fun p => p.2 i t w) = true := by
  unfold Valid_mean_squared_error Accepts_mean_squared_error patterns_mean_squared_error
  split_shape i <;> split_shape t <;> rcases w with _ | w <;> (try split_shape3 w) <;> shape_auto

example : Gen.check_mean_squared_error [3, 2] [3, 2] (some [3]) = .ok ∧ Valid_mean_squared_error [3, 2] [3, 2] (some [3]) = true := by decide

/-! ### `_r2_score` -/

theorem C18_accepts_r2_score (i t : Shp) :
    Gen.check_r2_score i t = .ok ↔ Accepts_r2_score i t = true := by
  unfold Gen.check_r2_score Accepts_r2_score
  split_shape i <;> split_shape t <;> shape_auto

theorem C18_complete_r2_score (i t : Shp) :
    Valid_r2_score i t = true → Accepts_r2_score i t = true := by
  unfold Valid_r2_score Accepts_r2_score
  split_shape i <;> split_shape t <;> shape_auto

theorem C18_gap_r2_score (i t : Shp) :
    (Accepts_r2_score i t && !Valid_r2_score i t) = true ↔ (patterns_r2_score.any fun p => p.2 i t) = true := by
  unfold Valid_r2_score Accepts_r2_score patterns_r2_score
  split_shape i <;> split_shape t <;> shape_auto

example : Gen.check_r2_score [3, 2] [3, 2] = .ok ∧ Valid_r2_score [3, 2] [3, 2] = true := by decide

/-! ### `_psnr` -/

theorem C18_accepts_psnr (i t : Shp) :
    Gen.check_psnr i t = .ok ↔ Accepts_same i t = true := by
  unfold Gen.check_psnr Accepts_same
  split_shape i <;> split_shape t <;> shape_auto

theorem C18_complete_psnr (i t : Shp) :
    Valid_psnr i t = true → Accepts_same i t = true := by
  unfold Valid_psnr Accepts_same
  split_shape i <;> split_shape t <;> shape_auto

/-- nothing undocumented is accepted -/
theorem C18_gap_psnr (i t : Shp) :
    Accepts_same i t = true → Valid_psnr i t = true := by
  unfold Valid_psnr Accepts_same
  split_shape i <;> split_shape t <;> shape_auto

example : Gen.check_psnr [2, 3, 4, 4] [2, 3, 4, 4] = .ok ∧ Valid_psnr [2, 3, 4, 4] [2, 3, 4, 4] = true := by decide

/-! ### `_perplexity` -/

theorem C18_accepts_perplexity (i t : Shp) (ig : Option Int) :
    Gen.check_perplexity i t ig false = .ok ↔ Accepts_perplexity i t = true := by
  unfold Gen.check_perplexity Accepts_perplexity
  split_shape i <;> split_shape t <;> shape_auto

theorem C18_complete_perplexity (i t : Shp) (ig : Option Int) :
    Valid_perplexity i t = true → Accepts_perplexity i t = true := by
  unfold Valid_perplexity Accepts_perplexity
  split_shape i <;> split_shape t <;> shape_auto

/-- nothing undocumented is accepted -/
theorem C18_gap_perplexity (i t : Shp) (ig : Option Int) :
    Accepts_perplexity i t = true → Valid_perplexity i t = true := by
  unfold Valid_perplexity Accepts_perplexity
  split_shape i <;> split_shape t <;> shape_auto

example : Gen.check_perplexity [2, 3, 5] [2, 3] none false = .ok ∧ Valid_perplexity [2, 3, 5] [2, 3] = true := by decide

/-! ### `_frequency` -/

theorem C18_accepts_frequency (i : Shp) :
    Gen.check_frequency i false = .ok ↔ Accepts_rank1 i = true := by
  unfold Gen.check_frequency Accepts_rank1
  split_shape i <;> shape_auto

theorem C18_complete_frequency (i : Shp) :
    Valid_frequency i = true → Accepts_rank1 i = true := by
  unfold Valid_frequency Accepts_rank1
  split_shape i <;> shape_auto

/-- nothing undocumented is accepted -/
theorem C18_gap_frequency (i : Shp) :
    Accepts_rank1 i = true → Valid_frequency i = true := by
  unfold Valid_frequency Accepts_rank1
  split_shape i <;> shape_auto

example : Gen.check_frequency [3] false = .ok ∧ Valid_frequency [3] = true := by decide

/-! ### `_num_collisions` -/

theorem C18_accepts_num_collisions (i : Shp) :
    Gen.check_num_collisions i false = .ok ↔ Accepts_rank1 i = true := by
  unfold Gen.check_num_collisions Accepts_rank1
  split_shape i <;> shape_auto

theorem C18_complete_num_collisions (i : Shp) :
    Valid_num_collisions i = true → Accepts_rank1 i = true := by
  unfold Valid_num_collisions Accepts_rank1
  split_shape i <;> shape_auto

/-- nothing undocumented is accepted -/
theorem C18_gap_num_collisions (i : Shp) :
    Accepts_rank1 i = true → Valid_num_collisions i = true := by
  unfold Valid_num_collisions Accepts_rank1
  split_shape i <;> shape_auto

example : Gen.check_num_collisions [3] false = .ok ∧ Valid_num_collisions [3] = true := by decide

/-! ### `_auc` -/

theorem C18_accepts_auc (x y : Shp) (T : Int) :
    Gen.check_auc x y T = .ok ↔ Accepts_auc x y T = true := by
  unfold Gen.check_auc Accepts_auc
  split_shape x <;> split_shape y <;> shape_auto

theorem C18_complete_auc (x y : Shp) (T : Int) :
    Valid_auc x y T = true → Accepts_auc x y T = true := by
  unfold Valid_auc Accepts_auc
  split_shape x <;> split_shape y <;> shape_auto

/-- nothing undocumented is accepted -/
theorem C18_gap_auc (x y : Shp) (T : Int) :
    Accepts_auc x y T = true → Valid_auc x y T = true := by
  unfold Valid_auc Accepts_auc
  split_shape x <;> split_shape y <;> shape_auto

example : Gen.check_auc [2, 3] [2, 3] 2 = .ok ∧ Valid_auc [2, 3] [2, 3] 2 = true := by decide

/-! ### `_wasserstein` -/

theorem C18_accepts_wasserstein (x y : Shp) (xw yw : Option Shp) :
    Gen.check_wasserstein x y xw yw false false false false false false false = .ok ↔ Accepts_wasserstein x y xw yw = true := by
  unfold Gen.check_wasserstein Accepts_wasserstein
  split_shape3 x <;> split_shape3 y <;> cases xw <;> cases yw <;> shape_auto

theorem C18_complete_wasserstein (x y : Shp) (xw yw : Option Shp) :
    Valid_wasserstein x y xw yw = true → Accepts_wasserstein x y xw yw = true := by
  unfold Valid_wasserstein Accepts_wasserstein
  split_shape3 x <;> split_shape3 y <;> cases xw <;> cases yw <;> shape_auto

theorem C18_gap_wasserstein (x y : Shp) (xw yw : Option Shp) :
    (Accepts_wasserstein x y xw yw && !Valid_wasserstein x y xw yw) = true ↔ (patterns_wasserstein.any fun p => p.2 x y xw yw) = true := by
  unfold Valid_wasserstein Accepts_wasserstein patterns_wasserstein
  split_shape3 x <;> split_shape3 y <;> cases xw <;> cases yw <;> shape_auto

example : Gen.check_wasserstein [3] [2] (some [3]) none false false false false false false false = .ok ∧ Valid_wasserstein [3] [2] (some [3]) none = true := by decide

/-! ### `_word_error_rate` -/

theorem C18_accepts_word_error_rate (a b : Option Nat) :
    Gen.check_word_error_rate a b = .ok ↔ Accepts_text a b = true := by
  unfold Gen.check_word_error_rate Accepts_text
  cases a <;> cases b <;> shape_auto

theorem C18_complete_word_error_rate (a b : Option Nat) :
    Valid_word_error_rate a b = true → Accepts_text a b = true := by
  unfold Valid_word_error_rate Accepts_text
  cases a <;> cases b <;> shape_auto

/-- nothing undocumented is accepted -/
theorem C18_gap_word_error_rate (a b : Option Nat) :
    Accepts_text a b = true → Valid_word_error_rate a b = true := by
  unfold Valid_word_error_rate Accepts_text
  cases a <;> cases b <;> shape_auto

example : Gen.check_word_error_rate (some 2) (some 2) = .ok ∧ Valid_word_error_rate (some 2) (some 2) = true := by decide

/-! ### `_word_information_preserved` -/

theorem C18_accepts_word_information_preserved (a b : Option Nat) :
    Gen.check_word_information_preserved a b = .ok ↔ Accepts_text a b = true := by
  unfold Gen.check_word_information_preserved Accepts_text
  cases a <;> cases b <;> shape_auto

theorem C18_complete_word_information_preserved (a b : Option Nat) :
    Valid_word_information_preserved a b = true → Accepts_text a b = true := by
  unfold Valid_word_information_preserved Accepts_text
  cases a <;> cases b <;> shape_auto

/-- nothing undocumented is accepted -/
theorem C18_gap_word_information_preserved (a b : Option Nat) :
    Accepts_text a b = true → Valid_word_information_preserved a b = true := by
  unfold Valid_word_information_preserved Accepts_text
  cases a <;> cases b <;> shape_auto

example : Gen.check_word_information_preserved (some 2) (some 2) = .ok ∧ Valid_word_information_preserved (some 2) (some 2) = true := by decide

/-! ### parameter checks (`_*_param_check`): accepted parameter domain -/

theorem C18_accepts_accuracy_param (average : Option String) (nc : Option Int) (k : Int) :
    Gen.check_accuracy_param average nc k = .ok ↔
      average ∈ [some "micro", some "macro", some "none", none] ∧
      (average = some "micro" ∨ ∃ n, nc = some n ∧ 0 < n) ∧ 1 ≤ k := by
  unfold Gen.check_accuracy_param
  cases nc <;> simp [ival] <;> grind

theorem C18_accepts_precision_param (nc : Option Int) (average : Option String) :
    Gen.check_precision_param nc average = .ok ↔
      average ∈ [some "micro", some "macro", some "weighted", some "None", none] ∧
      (average = some "micro" ∨ ∃ n, nc = some n ∧ 0 < n) := by
  unfold Gen.check_precision_param
  cases nc <;> simp [ival] <;> grind

theorem C18_accepts_recall_param (nc : Option Int) (average : Option String) :
    Gen.check_recall_param nc average = .ok ↔
      average ∈ [some "micro", some "macro", some "weighted", none] ∧
      (average = some "micro" ∨ ∃ n, nc = some n ∧ 0 < n) := by
  unfold Gen.check_recall_param
  cases nc <;> simp [ival] <;> grind

theorem C18_accepts_f1_score_param (nc : Option Int) (average : Option String) :
    Gen.check_f1_score_param nc average = .ok ↔
      average ∈ [some "micro", some "macro", some "weighted", none] ∧
      (average = some "micro" ∨ ∃ n, nc = some n ∧ 0 < n) := by
  unfold Gen.check_f1_score_param
  cases nc <;> simp [ival] <;> grind

theorem C18_accepts_multiclass_auroc_param (nc : Int) (average : Option String) :
    Gen.check_multiclass_auroc_param nc average = .ok ↔ average ∈ [some "macro", some "none", none] ∧ 2 ≤ nc := by
  unfold Gen.check_multiclass_auroc_param
  simp <;> grind

theorem C18_accepts_multiclass_auprc_param (nc : Int) (average : Option String) :
    Gen.check_multiclass_auprc_param nc average = .ok ↔ average ∈ [some "macro", some "none", none] ∧ 2 ≤ nc := by
  unfold Gen.check_multiclass_auprc_param
  simp <;> grind

theorem C18_accepts_multilabel_auprc_param (nl : Int) (average : Option String) :
    Gen.check_multilabel_auprc_param nl average = .ok ↔ average ∈ [some "macro", some "none", none] ∧ 2 ≤ nl := by
  unfold Gen.check_multilabel_auprc_param
  simp <;> grind

/-- thresholds: 1-D (values sorted, within [0,1], first 0 and last 1 are the oracles, taken as satisfied) -/
theorem C18_accepts_binary_binned_auprc_param (T : Int) (th : Shp) :
    Gen.check_binary_binned_auprc_param T th false false false false = .ok ↔ 1 ≤ T ∧ ndim th = 1 := by
  unfold Gen.check_binary_binned_auprc_param
  simp <;> grind

theorem C18_accepts_multiclass_binned_auprc_param (nc : Int) (th : Shp) (average : Option String) :
    Gen.check_multiclass_binned_auprc_param nc th average false false false false = .ok ↔
      average ∈ [some "macro", some "none", none] ∧ 2 ≤ nc ∧ ndim th = 1 := by
  unfold Gen.check_multiclass_binned_auprc_param
  simp <;> grind

theorem C18_accepts_multilabel_binned_auprc_param (nl : Int) (th : Shp) (average : Option String) :
    Gen.check_multilabel_binned_auprc_param nl th average false false false false = .ok ↔
      average ∈ [some "macro", some "none", none] ∧ 2 ≤ nl ∧ ndim th = 1 := by
  unfold Gen.check_multilabel_binned_auprc_param
  simp <;> grind

/-- the binned AUROC parameter checks never look at the rank of `threshold` -/
theorem C18_accepts_binary_binned_auroc_param (T : Int) (th : Shp) :
    Gen.check_binary_binned_auroc_param T th false false = .ok ↔ 1 ≤ T := by
  unfold Gen.check_binary_binned_auroc_param
  simp <;> grind

theorem C18_accepts_multiclass_binned_auroc_param (nc : Int) (th : Shp) (average : Option String) :
    Gen.check_multiclass_binned_auroc_param nc th average false false = .ok ↔
      average ∈ [some "macro", some "none", none] ∧ 2 ≤ nc := by
  unfold Gen.check_multiclass_binned_auroc_param
  simp <;> grind

theorem C18_accepts_confusion_matrix_param (nc : Int) (normalize : Option String) :
    Gen.check_confusion_matrix_param nc normalize = .ok ↔
      2 ≤ nc ∧ normalize ∈ [none, some "all", some "pred", some "true", some "none"] := by
  unfold Gen.check_confusion_matrix_param
  cases normalize <;> simp <;> grind

theorem C18_accepts_multilabel_accuracy_param (criteria : String) :
    Gen.check_multilabel_accuracy_param criteria = .ok ↔
      criteria ∈ ["exact_match", "hamming", "overlap", "contain", "belong"] := by
  unfold Gen.check_multilabel_accuracy_param
  simp <;> grind

theorem C18_accepts_topk_multilabel_accuracy_param (criteria : String) (k : Int) :
    Gen.check_topk_multilabel_accuracy_param criteria k = .ok ↔
      criteria ∈ ["exact_match", "hamming", "overlap", "contain", "belong"] ∧ 2 ≤ k := by
  unfold Gen.check_topk_multilabel_accuracy_param Gen.check_multilabel_accuracy_param
  simp <;> grind

theorem C18_accepts_optimization_param (o : String) :
    Gen.check_optimization_param o = .ok ↔ o ∈ ["vectorized", "memory"] := by
  unfold Gen.check_optimization_param
  simp <;> grind

theorem C18_accepts_mean_squared_error_param (m : String) :
    Gen.check_mean_squared_error_param m = .ok ↔ m ∈ ["raw_values", "uniform_average"] := by
  unfold Gen.check_mean_squared_error_param
  simp <;> grind

theorem C18_accepts_r2_score_param (m : String) (r : Int) :
    Gen.check_r2_score_param m r = .ok ↔ m ∈ ["raw_values", "uniform_average", "variance_weighted"] ∧ 0 ≤ r := by
  unfold Gen.check_r2_score_param
  simp <;> grind

theorem C18_accepts_retrieval_precision_param (k : Option Int) (lim : Bool) :
    Gen.check_retrieval_precision_param k lim = .ok ↔ (k = none ∧ lim = false) ∨ ∃ n, k = some n ∧ 0 < n := by
  unfold Gen.check_retrieval_precision_param
  cases k <;> simp [ival] <;> grind

theorem C18_accepts_retrieval_recall_param (k : Option Int) (lim : Bool) :
    Gen.check_retrieval_recall_param k lim = .ok ↔ (k = none ∧ lim = false) ∨ ∃ n, k = some n ∧ 0 < n := by
  unfold Gen.check_retrieval_recall_param
  cases k <;> simp [ival] <;> grind

example : Gen.check_accuracy_param (some "macro") (some 3) 2 = .ok := by decide
example : Gen.check_confusion_matrix_param 1 none = .err .value := by decide
/-! ### generated tables -/

/-- every helper found in /repo is inside the translator's grammar -/
theorem C18_all_helpers_translated : Gen.untranslated = [] ∧ Gen.helperTable.all (·.2) = true := by decide

/-- public entry points that reach NO check helper and NO inline `raise`/`assert` guard before their first
    arithmetic: only shape-agnostic reductions (and Cat, whose contract is torch.cat's). -/
theorem C18_unguarded_entries :
    ((Gen.entryChecks.zip Gen.entryInline).filter (fun e => e.1.2.isEmpty && e.2.2 == 0)).map (·.1.1) =
      ["Cat.update", "FrechetAudioDistance.update", "Max.update", "Min.update"] := by decide

/-- public entry points guarded only by inline checks (no `_*_check` helper) -/
theorem C18_inline_only_entries :
    ((Gen.entryChecks.zip Gen.entryInline).filter (fun e => e.1.2.isEmpty && e.2.2 != 0)).map (·.1.1) =
      ["bleu_score", "gaussian_frechet_distance", "mean", "sum", "throughput", "word_information_lost",
       "BLEUScore.update", "Covariance.update", "FrechetInceptionDistance.update", "Mean.update",
       "StructuralSimilarity.update", "Sum.update", "Throughput.update", "WordInformationLost.update"] := by decide

example : Gen.helperTable.length ≥ 60 ∧ Gen.entryChecks.length ≥ 100 := by decide

end TE.C18
