/-
  C12 — results depend only on the multiset of samples, not on batching or order.
  Generic part: for an additive class whose per-batch statistic distributes over
  batch concatenation (`stat_cat`), every way of cutting the same samples into
  batches, fed in any batch order, computes the same result.  Per-class
  `stat_cat` lemmas are in TE/Props/C12Stat.lean.
-/
import TE.Lemmas.Parts
namespace TE.C12
open TE

variable {B O A : Type}

/-- `catB` concatenates batches along the sample dimension. `StatCat` says the
    statistic of a concatenation is the sum of the statistics (whenever every
    piece passes validation). -/
def StatCat (M : Acc A) (stat : B → Except Err A) (catB : List B → B) : Prop :=
  ∀ bs : List B, bs ≠ [] → (∀ b ∈ bs, ∃ a, stat b = .ok a) →
    stat (catB bs) = .ok (accL M (statT M stat) bs)

/-- any batching (any order of the batches) of the same samples gives the same
    state as one update with the concatenation. -/
theorem batching_irrelevant (M : Acc A) (L : CommLaws M) (stat : B → Except Err A)
    (outA : A → Except Err O) (catB : List B → B) (hc : StatCat M stat catB)
    (bs bs' : List B) (hne : bs ≠ []) (hp : bs'.Perm bs) (hv : ∀ b ∈ bs, ∃ a, stat b = .ok a)
    (s s' : A)
    (h1 : eval (additive M stat outA) (single [catB bs]) = .ok s)
    (h2 : eval (additive M stat outA) (single bs') = .ok s') :
    s = s' := by
  have r1 := (refines (additive_sim M stat outA) L.toLaws _ s h1).2
  have r2 := (refines (additive_sim M stat outA) L.toLaws _ s' h2).2
  simp only [id, flatten_single] at r1 r2
  rw [r1, r2, accL_singleton M L.toLaws, accL_perm M L _ hp]
  simp [statT, hc bs hne hv]

/-- order-carrying classes: any *consecutive* batching gives the same state. -/
theorem batching_irrelevant_ordered (M : Acc A) (L : Laws M) (stat : B → Except Err A)
    (outA : A → Except Err O) (catB : List B → B) (hc : StatCat M stat catB)
    (bs : List B) (hne : bs ≠ []) (hv : ∀ b ∈ bs, ∃ a, stat b = .ok a) (s s' : A)
    (h1 : eval (additive M stat outA) (single [catB bs]) = .ok s)
    (h2 : eval (additive M stat outA) (single bs) = .ok s') :
    s = s' := by
  have r1 := (refines (additive_sim M stat outA) L _ s h1).2
  have r2 := (refines (additive_sim M stat outA) L _ s' h2).2
  simp only [id, flatten_single] at r1 r2
  rw [r1, r2, accL_singleton M L]
  simp [statT, hc bs hne hv]

/-- C03 in the same breath: the class fed any batching = the functional
    (`stat >=> outA`) applied once to the concatenation. -/
theorem class_eq_functional (M : Acc A) (L : Laws M) (stat : B → Except Err A)
    (outA : A → Except Err O) (catB : List B → B) (hc : StatCat M stat catB)
    (bs : List B) (hne : bs ≠ []) (hv : ∀ b ∈ bs, ∃ a, stat b = .ok a) (s : A)
    (h : eval (additive M stat outA) (single bs) = .ok s) :
    (additive M stat outA).out s = (stat (catB bs) >>= outA) := by
  have r := (refines (additive_sim M stat outA) L _ s h).2
  simp only [id, flatten_single] at r
  rw [hc bs hne hv, r]
  rfl

/-- non-vacuity: `StatCat` holds for the cache-all statistic (a batch is its list of
    samples, concatenation of batches is list concatenation). -/
example : StatCat (listAcc Nat) (fun b : List Nat => (.ok b : Except Err (List Nat))) List.flatten := by
  intro bs _ _
  rw [accL_listAcc]
  have : (statT (listAcc Nat) fun b : List Nat => (.ok b : Except Err (List Nat))) = id := by
    funext b; rfl
  simp [this]

end TE.C12
