/-
  C12 — results depend only on the multiset of samples, not on batching or order.
  Generic part: for an additive class whose per-batch statistic distributes over
  batch concatenation (`stat_cat`), every way of cutting the same samples into
  batches, fed in any batch order, computes the same result.  Per-class
  `statCat_<family>` lemmas are in TE/Lemmas/FamStat*.lean; the per-family corollaries are at the end of this file.
-/
import TE.Lemmas.Parts
import TE.Lemmas.FamStat
import TE.Lemmas.FamStatCount
import TE.Lemmas.FamStatAgg
import TE.Lemmas.FamStatBinned
import TE.Lemmas.FamStatText
import TE.Lemmas.FamStatList
import TE.Lemmas.FamCacheSM
namespace TE.C12
open TE

variable {B O A : Type}

/-- `catB` concatenates batches along the sample dimension. `StatCat` says the
    statistic of a concatenation is the sum of the statistics (whenever every
    piece passes validation). -/
def StatCat (M : Acc A) (stat : B → Except Err A) (catB : List B → B) : Prop :=
  ∀ bs : List B, bs ≠ [] → (∀ b ∈ bs, ∃ a, stat b = .ok a) →
    stat (catB bs) = .ok (accL M (statT M stat) bs)

/-- any batching (any order of the batches) of the same samples gives the same
    state as one update with the concatenation. -/
theorem batching_irrelevant (M : Acc A) (L : CommLaws M) (stat : B → Except Err A)
    (outA : A → Except Err O) (catB : List B → B) (hc : StatCat M stat catB)
    (bs bs' : List B) (hne : bs ≠ []) (hp : bs'.Perm bs) (hv : ∀ b ∈ bs, ∃ a, stat b = .ok a)
    (s s' : A)
    (h1 : eval (additive M stat outA) (single [catB bs]) = .ok s)
    (h2 : eval (additive M stat outA) (single bs') = .ok s') :
    s = s' := by
  have r1 := (refines (additive_sim M stat outA) L.toLaws _ s h1).2
  have r2 := (refines (additive_sim M stat outA) L.toLaws _ s' h2).2
  simp only [id, flatten_single] at r1 r2
  rw [r1, r2, accL_singleton M L.toLaws, accL_perm M L _ hp]
  simp [statT, hc bs hne hv]

/-- order-carrying classes: any *consecutive* batching gives the same state. -/
theorem batching_irrelevant_ordered (M : Acc A) (L : Laws M) (stat : B → Except Err A)
    (outA : A → Except Err O) (catB : List B → B) (hc : StatCat M stat catB)
    (bs : List B) (hne : bs ≠ []) (hv : ∀ b ∈ bs, ∃ a, stat b = .ok a) (s s' : A)
    (h1 : eval (additive M stat outA) (single [catB bs]) = .ok s)
    (h2 : eval (additive M stat outA) (single bs) = .ok s') :
    s = s' := by
  have r1 := (refines (additive_sim M stat outA) L _ s h1).2
  have r2 := (refines (additive_sim M stat outA) L _ s' h2).2
  simp only [id, flatten_single] at r1 r2
  rw [r1, r2, accL_singleton M L]
  simp [statT, hc bs hne hv]

/-- C03 in the same breath: the class fed any batching = the functional
    (`stat >=> outA`) applied once to the concatenation. -/
theorem class_eq_functional (M : Acc A) (L : Laws M) (stat : B → Except Err A)
    (outA : A → Except Err O) (catB : List B → B) (hc : StatCat M stat catB)
    (bs : List B) (hne : bs ≠ []) (hv : ∀ b ∈ bs, ∃ a, stat b = .ok a) (s : A)
    (h : eval (additive M stat outA) (single bs) = .ok s) :
    (additive M stat outA).out s = (stat (catB bs) >>= outA) := by
  have r := (refines (additive_sim M stat outA) L _ s h).2
  simp only [id, flatten_single] at r
  rw [hc bs hne hv, r]
  rfl

/-- non-vacuity: `StatCat` holds for the cache-all statistic (a batch is its list of
    samples, concatenation of batches is list concatenation). -/
example : StatCat (listAcc Nat) (fun b : List Nat => (.ok b : Except Err (List Nat))) List.flatten := by
  intro bs _ _
  rw [accL_listAcc]
  have : (statT (listAcc Nat) fun b : List Nat => (.ok b : Except Err (List Nat))) = id := by
    funext b; rfl
  simp [this]

/-! ## the typed metric families (TE/Model/Fams.lean)

  `StatCat` is proved per family in TE/Lemmas/FamStat*.lean (`FamStat.StatCat` there is this
  file's `StatCat`, definitionally).  The driver adapters call the very `…Stat` functions named
  here, so the statements below are about what the differential harness runs.
  `FamStat.BatchingIrrelevant M stat catB` (TE/Lemmas/FamStat.lean) says, for EVERY `outA`:
  for every non-empty list `bs` of batches that pass validation and every reordering `bs'` of
  it, one instance fed `catB bs` in a single update and one instance fed the batches `bs'` one
  by one both run without error and reach the SAME state (hence the same `compute()`).
  Batch sizes are arbitrary (1, empty where the real code accepts it, one huge batch);
  arities (`W`, `d`, `nt`) are fixed per stream. -/
open TE.Fams

/-- total form of `batching_irrelevant`: both runs succeed and the states coincide. -/
theorem batching_irrelevant_total (M : Acc A) (L : CommLaws M) {stat : B → Except Err A}
    {catB : List B → B} (hc : StatCat M stat catB) : FamStat.BatchingIrrelevant M stat catB :=
  FamStat.batching_of_statCat M L hc

/-- total form of `batching_irrelevant_ordered` (order-carrying accumulators: consecutive batchings). -/
theorem batching_irrelevant_ordered_total (M : Acc A) (L : Laws M) {stat : B → Except Err A}
    {catB : List B → B} (hc : StatCat M stat catB) : FamStat.BatchingIrrelevantOrdered M stat catB :=
  FamStat.batching_ordered_of_statCat M L hc

/-- BinaryAccuracy. -/
theorem C12_batching_binaryAccuracy (thr : Q) :
    FamStat.BatchingIrrelevant partsAcc (binaryAccuracyStat thr) catPair :=
  batching_irrelevant_total partsAcc partsAcc_laws (FamStat.statCat_binaryAccuracy thr)

/-- MulticlassAccuracy (k = 1; every average, predictions = labels or arg-max of logits). -/
theorem C12_batching_mcAccuracy (avg : Count.Avg) (C : Nat) :
    FamStat.BatchingIrrelevant partsAcc (mcAccuracyStat avg C) catPair :=
  batching_irrelevant_total partsAcc partsAcc_laws (FamStat.statCat_mcAccuracy avg C)

/-- MulticlassAccuracy (top-k on logit rows of width W; every average). -/
theorem C12_batching_mcAccuracyTopk (avg : Count.Avg) (C k W : Nat) :
    FamStat.BatchingIrrelevant partsAcc (mcAccuracyTopkStat avg C k W) catPair :=
  batching_irrelevant_total partsAcc partsAcc_laws (FamStat.statCat_mcAccuracyTopk avg C k W)

/-- MultilabelAccuracy (every criterion). -/
theorem C12_batching_multilabelAccuracy (thr : Q) (crit : Count.Crit) :
    FamStat.BatchingIrrelevant partsAcc (multilabelAccuracyStat thr crit) catPair :=
  batching_irrelevant_total partsAcc partsAcc_laws (FamStat.statCat_multilabelAccuracy thr crit)

/-- TopKMultilabelAccuracy (every criterion). -/
theorem C12_batching_topkMultilabel (crit : Count.Crit) (k : Nat) :
    FamStat.BatchingIrrelevant partsAcc (topkMultilabelStat crit k) catPair :=
  batching_irrelevant_total partsAcc partsAcc_laws (FamStat.statCat_topkMultilabel crit k)

/-- BinaryPrecision. -/
theorem C12_batching_binaryPrecision (thr : Q) :
    FamStat.BatchingIrrelevant partsAcc (binaryPrecisionStat thr) catPair :=
  batching_irrelevant_total partsAcc partsAcc_laws (FamStat.statCat_binaryPrecision thr)

/-- BinaryRecall. -/
theorem C12_batching_binaryRecall (thr : Q) :
    FamStat.BatchingIrrelevant partsAcc (binaryRecallStat thr) catPair :=
  batching_irrelevant_total partsAcc partsAcc_laws (FamStat.statCat_binaryRecall thr)

/-- BinaryF1Score. -/
theorem C12_batching_binaryF1 (thr : Q) :
    FamStat.BatchingIrrelevant partsAcc (binaryF1Stat thr) catPair :=
  batching_irrelevant_total partsAcc partsAcc_laws (FamStat.statCat_binaryF1 thr)

/-- MulticlassPrecision (every average). -/
theorem C12_batching_mcPrecision (avg : Count.Avg) (C : Nat) :
    FamStat.BatchingIrrelevant partsAcc (mcPrecisionStat avg C) catPair :=
  batching_irrelevant_total partsAcc partsAcc_laws (FamStat.statCat_mcPrecision avg C)

/-- MulticlassRecall and MulticlassF1Score (same `_update`; every average). -/
theorem C12_batching_mcRecall (avg : Count.Avg) (C : Nat) :
    FamStat.BatchingIrrelevant partsAcc (mcRecallStat avg C) catPair :=
  batching_irrelevant_total partsAcc partsAcc_laws (FamStat.statCat_mcRecall avg C)

/-- MulticlassConfusionMatrix. -/
theorem C12_batching_confusion (C : Nat) (checkP checkL : Bool) :
    FamStat.BatchingIrrelevant partsAcc (confusionStat C checkP checkL) catPair :=
  batching_irrelevant_total partsAcc partsAcc_laws (FamStat.statCat_confusion C checkP checkL)

/-- BinaryConfusionMatrix. -/
theorem C12_batching_binaryConfusion (thr : Q) :
    FamStat.BatchingIrrelevant partsAcc (binaryConfusionStat thr) catPair :=
  batching_irrelevant_total partsAcc partsAcc_laws (FamStat.statCat_binaryConfusion thr)

/-- Mean (scalar or per-sample weights). -/
theorem C12_batching_mean :
    FamStat.BatchingIrrelevant partsAcc (meanStat) catWeighted :=
  batching_irrelevant_total partsAcc partsAcc_laws (FamStat.statCat_mean)

/-- Sum (scalar or per-sample weights). -/
theorem C12_batching_sum :
    FamStat.BatchingIrrelevant partsAcc (sumStat) catWeighted :=
  batching_irrelevant_total partsAcc partsAcc_laws (FamStat.statCat_sum)

/-- MeanSquaredError, streams of one arity d (all 1-D, or all (n, d)); optional sample weights. -/
theorem C12_batching_mse (d : Nat) :
    FamStat.BatchingIrrelevant partsAcc (mseStat d) (catCols d) :=
  batching_irrelevant_total partsAcc partsAcc_laws (FamStat.statCat_mse d)

/-- R2Score, streams of one arity d. -/
theorem C12_batching_r2 (d : Nat) :
    FamStat.BatchingIrrelevant partsAcc (r2Stat d) (catCols d) :=
  batching_irrelevant_total partsAcc partsAcc_laws (FamStat.statCat_r2 d)

/-- BinaryNormalizedEntropy (`ln`, `exp` parameters; per task row). -/
theorem C12_batching_bne (ln exp : Q → Q) (fl : Bool) (nt : Nat) :
    FamStat.BatchingIrrelevant partsAcc (bneStat ln exp fl nt) (catTasks nt) :=
  batching_irrelevant_total partsAcc partsAcc_laws (FamStat.statCat_bne ln exp fl nt)

/-- Perplexity (`exp`, `ln` parameters). -/
theorem C12_batching_ppl (exp ln : Q → Q) (v : Nat) (ignore : Option Int) :
    FamStat.BatchingIrrelevant partsAcc (pplStat exp ln v ignore) catPair :=
  batching_irrelevant_total partsAcc partsAcc_laws (FamStat.statCat_ppl exp ln v ignore)

/-- the additive part of PeakSignalNoiseRatio (squared error, count). -/
theorem C12_batching_psnr :
    FamStat.BatchingIrrelevant partsAcc (psnrStat) catPair :=
  batching_irrelevant_total partsAcc partsAcc_laws (FamStat.statCat_psnr)

/-- ClickThroughRate (per task row; scalar or tensor weights). -/
theorem C12_batching_ctr (nt : Nat) :
    FamStat.BatchingIrrelevant partsAcc (ctrStat nt) (catCtr nt) :=
  batching_irrelevant_total partsAcc partsAcc_laws (FamStat.statCat_ctr nt)

/-- WeightedCalibration (per task row; scalar or tensor weights). -/
theorem C12_batching_wc (nt : Nat) :
    FamStat.BatchingIrrelevant partsAcc (wcStat nt) (catWc nt) :=
  batching_irrelevant_total partsAcc partsAcc_laws (FamStat.statCat_wc nt)

/-- BinaryBinnedPrecisionRecallCurve counts (any threshold list). -/
theorem C12_batching_binaryBinned (t : List Q) :
    FamStat.BatchingIrrelevant partsAcc (binaryBinnedStat t) catPair :=
  batching_irrelevant_total partsAcc partsAcc_laws (FamStat.statCat_binaryBinned t)

/-- MulticlassBinnedPrecisionRecallCurve / MulticlassBinnedAUPRC counts (both optimisations). -/
theorem C12_batching_mcBinned (t : List Q) (opt : Binned.Opt) (W : Nat) :
    FamStat.BatchingIrrelevant partsAcc (mcBinnedStat t opt W) catPair :=
  batching_irrelevant_total partsAcc partsAcc_laws (FamStat.statCat_mcBinned t opt W)

/-- MultilabelBinnedPrecisionRecallCurve / MultilabelBinnedAUPRC counts (both optimisations). -/
theorem C12_batching_mlBinned (t : List Q) (opt : Binned.Opt) (L : Nat) :
    FamStat.BatchingIrrelevant partsAcc (mlBinnedStat t opt L) catPair :=
  batching_irrelevant_total partsAcc partsAcc_laws (FamStat.statCat_mlBinned t opt L)

/-- BinaryBinnedAUPRC counts (per task row). -/
theorem C12_batching_binaryBinnedAuprc (t : List Q) (nt : Nat) :
    FamStat.BatchingIrrelevant partsAcc (binaryBinnedAuprcStat t nt) (catTaskPairs nt) :=
  batching_irrelevant_total partsAcc partsAcc_laws (FamStat.statCat_binaryBinnedAuprc t nt)

/-- WordErrorRate. -/
theorem C12_batching_wer {α : Type} [DecidableEq α] :
    FamStat.BatchingIrrelevant partsAcc (werStat (α := α)) catPair :=
  batching_irrelevant_total partsAcc partsAcc_laws (FamStat.statCat_wer)

/-- WordInformationPreserved. -/
theorem C12_batching_wip {α : Type} [DecidableEq α] :
    FamStat.BatchingIrrelevant partsAcc (wipStat (α := α)) catPair :=
  batching_irrelevant_total partsAcc partsAcc_laws (FamStat.statCat_wip)

/-- WordInformationLost. -/
theorem C12_batching_wil {α : Type} [DecidableEq α] :
    FamStat.BatchingIrrelevant partsAcc (wilStat (α := α)) catPair :=
  batching_irrelevant_total partsAcc partsAcc_laws (FamStat.statCat_wil)

/-- BLEUScore statistics (n-gram order N). -/
theorem C12_batching_bleu {α : Type} [DecidableEq α] (N : Nat) :
    FamStat.BatchingIrrelevant partsAcc (bleuStat (α := α) N) catPair :=
  batching_irrelevant_total partsAcc partsAcc_laws (FamStat.statCat_bleu N)

/-- cache of (score, target) samples: BinaryAUROC, BinaryAUPRC, BinaryPrecisionRecallCurve, BinaryRecallAtFixedPrecision, a task row of BinaryBinnedAUROC, AUC points. -/
theorem C12_batching_pairSamples {α β : Type} :
    FamStat.BatchingIrrelevantOrdered (listAcc (α × β)) (pairSamples (α := α) (β := β)) catPair :=
  batching_irrelevant_ordered_total (listAcc (α × β)) (listAcc_laws _) (FamStat.statCat_pairSamples)

/-- cache of (score, target, weight) samples: weighted BinaryAUROC, Wasserstein1D. -/
theorem C12_batching_tripleSamples {α β γ : Type} :
    FamStat.BatchingIrrelevantOrdered (listAcc (α × β × γ)) (tripleSamples (α := α) (β := β) (γ := γ)) catTriple :=
  batching_irrelevant_ordered_total (listAcc (α × β × γ)) (listAcc_laws _) (FamStat.statCat_tripleSamples)

/-- cache of (row, label / target row) samples: Multiclass/Multilabel AUROC, AUPRC, PR curves, recall@precision, MulticlassBinnedAUROC. -/
theorem C12_batching_rowSamples {β : Type} :
    FamStat.BatchingIrrelevantOrdered (listAcc (List Q × β)) (rowSamples (β := β)) catPair :=
  batching_irrelevant_ordered_total (listAcc (List Q × β)) (listAcc_laws _) (FamStat.statCat_rowSamples)

/-- Cat. -/
theorem C12_batching_catSamples {α : Type} :
    FamStat.BatchingIrrelevantOrdered (listAcc α) (catSamples (α := α)) List.flatten :=
  batching_irrelevant_ordered_total (listAcc α) (listAcc_laws _) (FamStat.statCat_catSamples)

/-- HitRate (per-sample values in update order). -/
theorem C12_batching_hitRate (C : Nat) (k : Option Int) :
    FamStat.BatchingIrrelevantOrdered (listAcc Q) (hitRateStat C k) catPair :=
  batching_irrelevant_ordered_total (listAcc Q) (listAcc_laws _) (FamStat.statCat_hitRate C k)

/-- ReciprocalRank (per-sample values in update order). -/
theorem C12_batching_reciprocalRank (k : Option Int) :
    FamStat.BatchingIrrelevantOrdered (listAcc Q) (reciprocalRankStat k) catPair :=
  batching_irrelevant_ordered_total (listAcc Q) (listAcc_laws _) (FamStat.statCat_reciprocalRank k)

/-! ### the arity marker of the MeanSquaredError / R2Score adapters is NOT additive

  Full statement (FALSE for the driver's encoding):
    `StatCat partsAcc (fun b => withMarker two (mseStat d b)) (catCols d)`
  The adapters append a part `[1]` to every `(n, d)` batch so that `compute` can tell the 1-D from the
  2-D form; accumulated over `k` batches it is `[k]`, on the concatenation it is `[1]`.  `compute` only
  tests it against `0`, so nothing observable depends on it; the additive parts themselves satisfy
  `StatCat` (`FamStat.statCat_mse`, `FamStat.statCat_r2`, used above), and for 1-D streams the marker is
  `[0]`, which is additive. -/

/-- witness: two `(1, 1)` batches — marker `[1]` on the concatenation, `[2]` accumulated. -/
theorem mse_arity_marker_witness :
    let b : ColBatch := ⟨[[1]], [[0]], 1, none⟩
    (withMarker true (mseStat 1 (catCols 1 [b, b]))).toOption = some [[2], [2], [1]] ∧
    accL partsAcc (statT partsAcc fun b => withMarker true (mseStat 1 b)) [b, b] = [[2], [2], [2]] := by
  decide +kernel

/-! ### non-vacuity: concrete batch lists (sizes 3/1/2, 2/1, …) satisfy the hypotheses -/


/-- count group: three batches of sizes 3, 1, 2, also fed in reverse order. -/
example :
    let bs : List (List Q × List Q) := [([3/4, 1/4, 1/2], [1, 0, 0]), ([1/8], [1]), ([1, 0], [1, 1])]
    bs ≠ [] ∧ bs.reverse.Perm bs ∧ (∀ b ∈ bs, ∃ a, binaryAccuracyStat (1/2) b = .ok a) ∧
      (binaryAccuracyStat (1/2) (catPair bs)).toOption = some [[3], [6]] := by
  intro bs
  exact ⟨by decide, List.reverse_perm _, FamStat.valid_of_all _ _ (by decide +kernel), by decide +kernel⟩

example :
    let bs : List (List Nat × List Nat) := [([0, 2, 1], [0, 1, 1]), ([2], [2]), ([1, 0], [1, 2])]
    bs ≠ [] ∧ (∀ b ∈ bs, ∃ a, mcRecallStat .macro 3 b = .ok a) ∧
      (mcRecallStat .macro 3 (catPair bs)).toOption = some [[1, 2, 1], [1, 3, 2], [2, 2, 2]] := by
  intro bs
  exact ⟨by decide, FamStat.valid_of_all _ _ (by decide +kernel), by decide +kernel⟩

/-- agg group: Mean with a scalar weight, per-sample weights and the default -/
example :
    let bs : List (List Q × Agg.Weight) := [([1, 2, 3], .scalar 2), ([5], .tensor [1/2]), ([1, 1], .scalar 1)]
    bs ≠ [] ∧ (∀ b ∈ bs, ∃ a, meanStat b = .ok a) ∧
      (meanStat (catWeighted bs)).toOption = some [[33/2], [17/2]] := by
  intro bs
  exact ⟨by decide, FamStat.valid_of_all _ _ (by decide +kernel), by decide +kernel⟩

example :
    let bs : List ColBatch := [⟨[[1, 2], [0, 1]], [[1, 1], [1, 1]], 2, none⟩, ⟨[[3], [3]], [[1], [2]], 1, some [2]⟩]
    bs ≠ [] ∧ (∀ b ∈ bs, ∃ a, mseStat 2 b = .ok a) ∧
      (mseStat 2 (catCols 2 bs)).toOption = some [[9, 3], [4]] := by
  intro bs
  exact ⟨by simp [bs], FamStat.valid_of_all _ _ (by decide +kernel), by decide +kernel⟩

/-- rank group -/
example :
    let bs : List (Mat × TW) := [([[1, 0, 1], [0, 0, 1]], .scalar 2), ([[1], [1]], .tensor [[3], [1/2]])]
    bs ≠ [] ∧ (∀ b ∈ bs, ∃ a, ctrStat 2 b = .ok a) ∧
      (ctrStat 2 (catCtr 2 bs)).toOption = some [[7, 5/2], [9, 13/2]] := by
  intro bs
  exact ⟨by simp [bs], FamStat.valid_of_all _ _ (by decide +kernel), by decide +kernel⟩

/-- binned group -/
example :
    let bs : List (Mat × List Nat) := [([[1/8, 1/2], [1/2, 1/4], [3/4, 1]], [1, 0, 1]), ([[1, 0]], [0])]
    bs ≠ [] ∧ (∀ b ∈ bs, ∃ a, mcBinnedStat [1/4, 1/2] .memory 2 b = .ok a) ∧
      (mcBinnedStat [1/4, 1/2] .memory 2 (catPair bs)).toOption = (mcBinnedStat [1/4, 1/2] .vectorized 2 (catPair bs)).toOption ∧
      (mcBinnedStat [1/4, 1/2] .memory 2 (catPair bs)).toOption = some [[2, 2, 2, 2], [1, 1, 1, 0], [0, 0, 0, 0]] := by
  intro bs
  exact ⟨by decide, FamStat.valid_of_all _ _ (by decide +kernel), by decide +kernel, by decide +kernel⟩

/-- text group -/
example :
    let bs : List (List (List Nat) × List (List (List Nat))) :=
      [([[1, 2, 3, 4], [5, 6]], [[[1, 2, 3, 4, 5]], [[5, 6], [6]]]), ([[7, 8, 9]], [[[7, 9], [7, 8, 9, 9]]])]
    bs ≠ [] ∧ (∀ b ∈ bs, ∃ a, bleuStat 2 b = .ok a) ∧
      (bleuStat 2 (catPair bs)).toOption = some [[9], [9], [9, 6], [9, 6]] := by
  intro bs
  exact ⟨by decide, FamStat.valid_of_all _ _ (by decide +kernel), by decide +kernel⟩

/-- list group -/
example :
    let bs : List (Mat × List Int) := [([[1/2, 1/4, 1/8], [0, 1, 1/2]], [1, 2]), ([[1/4, 1/2, 1]], [0])]
    bs ≠ [] ∧ (∀ b ∈ bs, ∃ a, reciprocalRankStat none b = .ok a) ∧
      (reciprocalRankStat none (catPair bs)).toOption = some [1/2, 1/2, 1/3] := by
  intro bs
  exact ⟨by decide, FamStat.valid_of_all _ _ (by decide +kernel), by decide +kernel⟩

end TE.C12

/-! ## class level: the cache-all and the non-additive classes (TE/Model/FamsCache.lean)

  The driver packs of these classes run the typed objects `Fams.…C.cls` / `Fams.…L.cls` /
  `Fams.wassCls` / `Fams.psnrCls` / `Agg.extImpl` / `Agg.covImpl` / `Agg.thrImpl`.
  `FamCache.BatchingSame f cat`: feeding valid batches one by one reaches the state of ONE update with
  their concatenation.  `FamCache.AnyOrder f P`: two non-empty valid streams whose cached samples are
  permutations of each other (any batching, any order of the batches, any order of the samples inside
  them) give the same `compute()` — because the functional sorts / sums the samples (C05, C06, C07).
  `P` is the side condition on the samples under which that holds. -/
namespace TE.C12
open TE TE.Fams TE.FamCache

/-- BinaryAUROC (any `num_tasks`, weights): permutation invariance for 0/1 targets. -/
theorem C12_batching_BinaryAUROC (nt : Nat) :
    BatchingSame (binaryAurocC nt) List.flatten ∧ AnyOrder (binaryAurocC nt) (BinaryLabels nt) :=
  ⟨batchingSame_of_statCat _ FamStat.statCat_catSamples, anyOrder_of_outPerm _ (outPerm_binaryAuroc nt)⟩

/-- MulticlassAUROC (every average). -/
theorem C12_batching_MulticlassAUROC (nc : Nat) (avg : Curve.Avg) :
    BatchingSame (multiclassAurocC nc avg) catPair ∧ AnyOrder (multiclassAurocC nc avg) (fun _ => True) :=
  ⟨batchingSame_of_statCat _ FamStat.statCat_rowSamples, anyOrder_of_outPerm _ (outPerm_multiclassAuroc nc avg)⟩

/-- BinaryAUPRC (any `num_tasks`). -/
theorem C12_batching_BinaryAUPRC (nt : Nat) :
    BatchingSame (binaryAuprcC nt) List.flatten ∧ AnyOrder (binaryAuprcC nt) (fun _ => True) :=
  ⟨batchingSame_of_statCat _ FamStat.statCat_catSamples, anyOrder_of_outPerm _ (outPerm_binaryAuprc nt)⟩

/-- MulticlassAUPRC (every average). -/
theorem C12_batching_MulticlassAUPRC (nc : Nat) (avg : Curve.Avg) :
    BatchingSame (multiclassAuprcC nc avg) catPair ∧ AnyOrder (multiclassAuprcC nc avg) (fun _ => True) :=
  ⟨batchingSame_of_statCat _ FamStat.statCat_rowSamples, anyOrder_of_outPerm _ (outPerm_multiclassAuprc nc avg)⟩

/-- MultilabelAUPRC (every average). -/
theorem C12_batching_MultilabelAUPRC (nl : Nat) (avg : Curve.Avg) :
    BatchingSame (multilabelAuprcC nl avg) catPair ∧ AnyOrder (multilabelAuprcC nl avg) (fun _ => True) :=
  ⟨batchingSame_of_statCat _ FamStat.statCat_rowSamples, anyOrder_of_outPerm _ (outPerm_multilabelAuprc nl avg)⟩

/-- BinaryPrecisionRecallCurve. -/
theorem C12_batching_BinaryPrecisionRecallCurve :
    BatchingSame binaryPrCurveC catPair ∧ AnyOrder binaryPrCurveC (fun _ => True) :=
  ⟨batchingSame_of_statCat _ FamStat.statCat_pairSamples, anyOrder_of_outPerm _ outPerm_binaryPrCurve⟩

/-- MulticlassPrecisionRecallCurve; with `num_classes=None` the class count is the width of the cached
    rows (`torch.cat` raises when they differ — in either order). -/
theorem C12_batching_MulticlassPrecisionRecallCurve (nc0 : Option Nat) :
    BatchingSame (multiclassPrCurveC nc0) catPair ∧ AnyOrder (multiclassPrCurveC nc0) (fun _ => True) :=
  ⟨batchingSame_of_statCat _ FamStat.statCat_rowSamples, anyOrder_of_outPerm _ (outPerm_multiclassPrCurve nc0)⟩

/-- MultilabelPrecisionRecallCurve. -/
theorem C12_batching_MultilabelPrecisionRecallCurve (nl : Nat) :
    BatchingSame (multilabelPrCurveC nl) catPair ∧ AnyOrder (multilabelPrCurveC nl) (fun _ => True) :=
  ⟨batchingSame_of_statCat _ FamStat.statCat_rowSamples, anyOrder_of_outPerm _ (outPerm_multilabelPrCurve nl)⟩

/-- BinaryRecallAtFixedPrecision. -/
theorem C12_batching_BinaryRecallAtFixedPrecision (p : Q) :
    BatchingSame (binaryRecallAtPrecisionC p) catPair ∧ AnyOrder (binaryRecallAtPrecisionC p) (fun _ => True) :=
  ⟨batchingSame_of_statCat _ FamStat.statCat_pairSamples, anyOrder_of_outPerm _ (outPerm_binaryRecallAtPrecision p)⟩

/-- MultilabelRecallAtFixedPrecision. -/
theorem C12_batching_MultilabelRecallAtFixedPrecision (p : Q) (nl : Nat) :
    BatchingSame (multilabelRecallAtPrecisionC p nl) catPair ∧
      AnyOrder (multilabelRecallAtPrecisionC p nl) (fun _ => True) :=
  ⟨batchingSame_of_statCat _ FamStat.statCat_rowSamples,
    anyOrder_of_outPerm _ (outPerm_multilabelRecallAtPrecision p nl)⟩

/-- AUC, both `reorder` settings: consecutive batching.  (`reorder=False` is order-carrying by
    definition: nothing more holds.) -/
theorem C12_batching_AUC (reorder : Bool) (nt : Nat) : BatchingSame (aucC reorder nt) List.flatten :=
  batchingSame_of_statCat _ FamStat.statCat_catSamples

/- AUC(reorder=True), full statement (FALSE for the code as it is, and by definition of the polyline):
     `AnyOrder (aucC true nt) (fun _ => True)`
   `torch.sort(x, stable=True)` keeps the arrival order of points with equal `x`; the trapezoids entering
   and leaving such a vertical segment depend on which of the tied points comes first. -/

/-- AUC(reorder=True): any order of the points, provided points with equal abscissa coincide. -/
theorem C12_batching_AUC_reorder_partial (nt : Nat) : AnyOrder (aucC true nt) (DistinctX nt) :=
  anyOrder_of_outPerm _ (outPerm_auc_reorder nt)

/-- witness: the points `(0,0), (1,1), (1,2), (3,0)` give `5/2`, with the tied pair swapped `2`. -/
theorem C12_AUC_reorder_tie_witness :
    ((aucC true 1).out [([0], [0]), ([1], [1]), ([1], [2]), ([3], [0])]).toOption = some [5 / 2] ∧
    ((aucC true 1).out [([0], [0]), ([1], [2]), ([1], [1]), ([3], [0])]).toOption = some [2] ∧
    [([0], [0]), ([1], [1]), ([1], [2]), ([3], [0])].Perm
      ([([0], [0]), ([1], [2]), ([1], [1]), ([3], [0])] : List TaskPair) :=
  ⟨auc_reorder_tie_witness.1, auc_reorder_tie_witness.2, by decide +kernel⟩

/-- BinaryBinnedAUROC (any `num_tasks`, any threshold list). -/
theorem C12_batching_BinaryBinnedAUROC (t : List Q) (nt : Nat) :
    FamStat.BatchingIrrelevantOrdered (listAcc TaskPair) (binaryBinnedAurocL t nt).stat List.flatten ∧
      LAnyOrder (binaryBinnedAurocL t nt) (fun _ => True) :=
  ⟨FamStat.batching_ordered_of_statCat _ (listAcc_laws _) FamStat.statCat_catSamples,
    lAnyOrder_of_outPerm _ (outPerm_binaryBinnedAuroc t nt)⟩

/- MulticlassBinnedAUROC, full statement (FALSE for the code as it is — recorded finding
   `C06.multiclass_binned_auroc_witness`): `LAnyOrder (mcBinnedAurocL t C) (fun _ => True)`.
   `_multiclass_binned_auroc_compute` returns one value per cached SAMPLE, in cache order. -/

/-- MulticlassBinnedAUROC: consecutive batching only (order-carrying as it is). -/
theorem C12_batching_MulticlassBinnedAUROC_partial (t : List Q) (C : Nat) :
    FamStat.BatchingIrrelevantOrdered (listAcc (List Q × Nat)) (mcBinnedAurocL t C).stat catPair :=
  FamStat.batching_ordered_of_statCat _ (listAcc_laws _) FamStat.statCat_rowSamples

/-- witness: two cached samples, swapped ⇒ the two output entries swap. -/
theorem C12_MulticlassBinnedAUROC_order_witness :
    ((mcBinnedAurocL [0, 1/4, 1/2, 3/4, 1] 3).outA [([3/4, 1/4, 0], 0), ([1/4, 1/2, 1/4], 0)]).toOption = some [1, 1/4] ∧
    ((mcBinnedAurocL [0, 1/4, 1/2, 3/4, 1] 3).outA [([1/4, 1/2, 1/4], 0), ([3/4, 1/4, 0], 0)]).toOption = some [1/4, 1] := by
  decide +kernel

/-- Wasserstein1D: consecutive batching reaches the same state (for every `compute`), and two valid
    streams whose weighted samples of either distribution are permutations of each other give the same
    `compute()`. -/
theorem C12_batching_Wasserstein1D :
    FamStat.BatchingIrrelevantOrdered (pairAcc (Q × Q) (Q × Q)) wassStat catW ∧
    (∀ bs bs' : List WBatch, WValid bs → WValid bs' →
      (wState bs).1.Perm (wState bs').1 → (wState bs).2.Perm (wState bs').2 →
      ∃ s s', eval wassCls (single bs) = .ok s ∧ eval wassCls (single bs') = .ok s' ∧
        wassCls.out s = wassCls.out s') :=
  ⟨FamStat.batching_ordered_of_statCat _ (pairAcc_laws _ _) statCat_wass, wass_anyOrder⟩

/-- PeakSignalNoiseRatio(data_range=None): any two histories (in particular two single instances fed
    different batchings / orders) holding the same live batches up to order compute the same value; and
    re-cutting the batch boundaries does not matter either (the value is the functional on the
    concatenation, `C01_merge_tree_PSNR_auto`). -/
theorem C12_batching_PSNR_auto (bs bs' : List (List Q × List Q)) (s s' : Agg.PsnrS)
    (he : eval (psnrCls none) (single bs) = .ok s) (he' : eval (psnrCls none) (single bs') = .ok s')
    (hne : psnrTargets bs ≠ [])
    (h : bs.Perm bs' ∨ (psnrInputs bs = psnrInputs bs' ∧ psnrTargets bs = psnrTargets bs')) :
    (psnrCls none).out s = (psnrCls none).out s' := by
  rcases h with hp | ⟨e1, e2⟩
  · exact psnr_any_history_auto _ _ s s' he he' (by simpa [flatten_single] using hp) (by simpa [flatten_single] using hne)
  · rw [psnr_merge_tree_auto _ s he (by simpa [flatten_single] using hne),
      psnr_merge_tree_auto _ s' he' (by rw [flatten_single, ← e2]; exact hne)]
    simp only [flatten_single, e1, e2]

/-- PeakSignalNoiseRatio(data_range = r > 0). -/
theorem C12_batching_PSNR_fixed (r : Q) (hr : 0 < r) (bs bs' : List (List Q × List Q)) (s s' : Agg.PsnrS)
    (he : eval (psnrCls (some r)) (single bs) = .ok s) (he' : eval (psnrCls (some r)) (single bs') = .ok s')
    (h : bs.Perm bs' ∨ (psnrInputs bs = psnrInputs bs' ∧ psnrTargets bs = psnrTargets bs')) :
    (psnrCls (some r)).out s = (psnrCls (some r)).out s' := by
  rcases h with hp | ⟨e1, e2⟩
  · exact psnr_any_history_fixed r _ _ s s' he he' (by simpa [flatten_single] using hp)
  · rw [psnr_merge_tree_fixed r hr _ s he, psnr_merge_tree_fixed r hr _ s' he']
    simp only [flatten_single, e1, e2]

/-- Covariance: any batching (batches without rows and with a single row included) and any order of
    the observations of `d` columns give the same `compute()` (value or `ValueError`). -/
theorem C12_batching_Covariance (d : Nat) (bs bs' : List (Nat × Mat))
    (hd : ∀ b ∈ bs, b.1 = d) (hd' : ∀ b ∈ bs', b.1 = d) (hp : (AggL.rowsOf bs).Perm (AggL.rowsOf bs')) :
    ∃ s s', eval covCls (single bs) = .ok s ∧ eval covCls (single bs') = .ok s' ∧
      covCls.out s = covCls.out s' := by
  obtain ⟨s, he⟩ := cov_eval_ok (single bs)
  obtain ⟨s', he'⟩ := cov_eval_ok (single bs')
  exact ⟨s, s', he, he', cov_any_history d _ _ s s' he he' (by simpa [flatten_single] using hd)
    (by simpa [flatten_single] using hd') (by simpa [flatten_single] using hp)⟩

/-- Max / Min: any batching, any order of the elements. -/
theorem C12_batching_Max (bs bs' : List (List Q)) (s s' : Option Q)
    (he : eval maxCls (single bs) = .ok s) (he' : eval maxCls (single bs') = .ok s')
    (hp : bs.flatten.Perm bs'.flatten) : maxCls.out s = maxCls.out s' :=
  max_any_history _ _ s s' he he' (by simpa [flatten_single] using hp)

theorem C12_batching_Min (bs bs' : List (List Q)) (s s' : Option Q)
    (he : eval minCls (single bs) = .ok s) (he' : eval minCls (single bs') = .ok s')
    (hp : bs.flatten.Perm bs'.flatten) : minCls.out s = minCls.out s' :=
  min_any_history _ _ s s' he he' (by simpa [flatten_single] using hp)

/-- Throughput: one instance fed the same `(num_processed, elapsed_time_sec)` updates in any order. -/
theorem C12_batching_Throughput (bs bs' : List (Q × Q)) (s s' : Q × Q) (hp : bs.Perm bs')
    (he : eval thrCls (single bs) = .ok s) (he' : eval thrCls (single bs') = .ok s') :
    thrCls.out s = thrCls.out s' :=
  thr_single_any_order bs bs' s s' hp he he'

/-! ### non-vacuity -/

/-- BinaryAUROC, one task: streams `3 + 1 + 2` samples vs the same samples permuted and cut `1 + 0 + 5`
    (an empty batch included): hypotheses of `C12_batching_BinaryAUROC` hold, so `compute()` agrees. -/
example :
    let bs : List (List TaskSample) :=
      [[([3/4], [1], [1]), ([1/4], [0], [2]), ([1/2], [1], [1])], [([1/2], [0], [1])], [([1], [1], [1]), ([0], [0], [3])]]
    let bs' : List (List TaskSample) :=
      [[([1/2], [0], [1])], [], [([0], [0], [3]), ([3/4], [1], [1]), ([1], [1], [1]), ([1/4], [0], [2]), ([1/2], [1], [1])]]
    ∃ s s', eval (binaryAurocC 1).cls (single bs) = .ok s ∧ eval (binaryAurocC 1).cls (single bs') = .ok s' ∧
      (binaryAurocC 1).cls.out s = (binaryAurocC 1).cls.out s' := by
  intro bs bs'
  refine (C12_batching_BinaryAUROC 1).2 bs bs' (by decide) (by decide) (valid_catSamples _) (valid_catSamples _) ?_ ?_
  · show (samplesOf (catSamples (α := TaskSample)) bs).Perm (samplesOf catSamples bs')
    rw [samplesOf_catSamples, samplesOf_catSamples]; decide +kernel
  · show BinaryLabels 1 (samplesOf (catSamples (α := TaskSample)) bs)
    rw [samplesOf_catSamples]; unfold BinaryLabels; decide +kernel

/-- MultilabelAUPRC (row samples): `2 + 1` rows vs the rows reversed in one batch. -/
example :
    let bs : List (Mat × Mat) := [([[1/2, 1/4], [1/4, 3/4]], [[1, 0], [0, 1]]), ([[1, 0]], [[1, 1]])]
    let bs' : List (Mat × Mat) := [([[1, 0], [1/4, 3/4], [1/2, 1/4]], [[1, 1], [0, 1], [1, 0]])]
    ∃ s s', eval (multilabelAuprcC 2 .macro).cls (single bs) = .ok s ∧
      eval (multilabelAuprcC 2 .macro).cls (single bs') = .ok s' ∧
      (multilabelAuprcC 2 .macro).cls.out s = (multilabelAuprcC 2 .macro).cls.out s' := by
  intro bs bs'
  refine (C12_batching_MultilabelAUPRC 2 .macro).2 bs bs' (by decide) (by decide)
    (valid_of_all' _ _ (by decide +kernel)) (valid_of_all' _ _ (by decide +kernel)) ?_ trivial
  have e : ∀ l : List (Mat × Mat), Valid (rowSamples (β := List Q)) l →
      samplesOf rowSamples l = (l.map fun b => b.1.zip b.2).flatten := samplesOf_pairSamples
  show (samplesOf (rowSamples (β := List Q)) bs).Perm (samplesOf rowSamples bs')
  rw [e _ (valid_of_all' _ _ (by decide +kernel)), e _ (valid_of_all' _ _ (by decide +kernel))]
  decide +kernel

/-- Wasserstein1D: weights given / missing, samples of both distributions in another order and batching. -/
example :
    let bs : List WBatch := [⟨[1, 2], [5], some [1, 2], none⟩, ⟨[3], [1, 4], none, some [2, 1]⟩]
    let bs' : List WBatch := [⟨[3, 1, 2], [4, 5, 1], some [1, 1, 2], some [1, 1, 2]⟩]
    WValid bs ∧ WValid bs' ∧ (wState bs).1.Perm (wState bs').1 ∧ (wState bs).2.Perm (wState bs').2 := by
  intro bs bs'
  exact ⟨FamStat.valid_of_all _ _ (by decide +kernel), FamStat.valid_of_all _ _ (by decide +kernel),
    by decide +kernel, by decide +kernel⟩

/-- PSNR(data_range=None): three updates (one of a single element) vs another order. -/
example :
    let bs : List (List Q × List Q) := [([1, 2, 3], [1, 2, 5]), ([0], [4]), ([2, 2], [2, 0])]
    (eval (psnrCls none) (single bs)).toOption.isSome ∧ (eval (psnrCls none) (single bs.reverse)).toOption.isSome ∧
      psnrTargets bs ≠ [] ∧ bs.Perm bs.reverse := by
  intro bs
  exact ⟨by decide +kernel, by decide +kernel, by decide +kernel, (List.reverse_perm _).symm⟩

/-- Covariance: batches of 1, 0 and 2 rows vs one batch with the rows in another order. -/
example :
    let bs : List (Nat × Mat) := [(2, [[1, 2]]), (2, []), (2, [[3, 5], [0, 1]])]
    let bs' : List (Nat × Mat) := [(2, [[0, 1], [1, 2], [3, 5]])]
    (∀ b ∈ bs, b.1 = 2) ∧ (∀ b ∈ bs', b.1 = 2) ∧ (AggL.rowsOf bs).Perm (AggL.rowsOf bs') := by
  intro bs bs'
  exact ⟨by decide, by decide, by decide +kernel⟩

end TE.C12
