/-
  C12 — results depend only on the multiset of samples, not on batching or order.
  Generic part: for an additive class whose per-batch statistic distributes over
  batch concatenation (`stat_cat`), every way of cutting the same samples into
  batches, fed in any batch order, computes the same result.  Per-class
  `statCat_<family>` lemmas are in TE/Lemmas/FamStat*.lean; the per-family corollaries are at the end of this file.
-/
import TE.Lemmas.Parts
import TE.Lemmas.FamStat
import TE.Lemmas.FamStatCount
import TE.Lemmas.FamStatAgg
import TE.Lemmas.FamStatBinned
import TE.Lemmas.FamStatText
import TE.Lemmas.FamStatList
namespace TE.C12
open TE

variable {B O A : Type}

/-- `catB` concatenates batches along the sample dimension. `StatCat` says the
    statistic of a concatenation is the sum of the statistics (whenever every
    piece passes validation). -/
def StatCat (M : Acc A) (stat : B → Except Err A) (catB : List B → B) : Prop :=
  ∀ bs : List B, bs ≠ [] → (∀ b ∈ bs, ∃ a, stat b = .ok a) →
    stat (catB bs) = .ok (accL M (statT M stat) bs)

/-- any batching (any order of the batches) of the same samples gives the same
    state as one update with the concatenation. -/
theorem batching_irrelevant (M : Acc A) (L : CommLaws M) (stat : B → Except Err A)
    (outA : A → Except Err O) (catB : List B → B) (hc : StatCat M stat catB)
    (bs bs' : List B) (hne : bs ≠ []) (hp : bs'.Perm bs) (hv : ∀ b ∈ bs, ∃ a, stat b = .ok a)
    (s s' : A)
    (h1 : eval (additive M stat outA) (single [catB bs]) = .ok s)
    (h2 : eval (additive M stat outA) (single bs') = .ok s') :
    s = s' := by
  have r1 := (refines (additive_sim M stat outA) L.toLaws _ s h1).2
  have r2 := (refines (additive_sim M stat outA) L.toLaws _ s' h2).2
  simp only [id, flatten_single] at r1 r2
  rw [r1, r2, accL_singleton M L.toLaws, accL_perm M L _ hp]
  simp [statT, hc bs hne hv]

/-- order-carrying classes: any *consecutive* batching gives the same state. -/
theorem batching_irrelevant_ordered (M : Acc A) (L : Laws M) (stat : B → Except Err A)
    (outA : A → Except Err O) (catB : List B → B) (hc : StatCat M stat catB)
    (bs : List B) (hne : bs ≠ []) (hv : ∀ b ∈ bs, ∃ a, stat b = .ok a) (s s' : A)
    (h1 : eval (additive M stat outA) (single [catB bs]) = .ok s)
    (h2 : eval (additive M stat outA) (single bs) = .ok s') :
    s = s' := by
  have r1 := (refines (additive_sim M stat outA) L _ s h1).2
  have r2 := (refines (additive_sim M stat outA) L _ s' h2).2
  simp only [id, flatten_single] at r1 r2
  rw [r1, r2, accL_singleton M L]
  simp [statT, hc bs hne hv]

/-- C03 in the same breath: the class fed any batching = the functional
    (`stat >=> outA`) applied once to the concatenation. -/
theorem class_eq_functional (M : Acc A) (L : Laws M) (stat : B → Except Err A)
    (outA : A → Except Err O) (catB : List B → B) (hc : StatCat M stat catB)
    (bs : List B) (hne : bs ≠ []) (hv : ∀ b ∈ bs, ∃ a, stat b = .ok a) (s : A)
    (h : eval (additive M stat outA) (single bs) = .ok s) :
    (additive M stat outA).out s = (stat (catB bs) >>= outA) := by
  have r := (refines (additive_sim M stat outA) L _ s h).2
  simp only [id, flatten_single] at r
  rw [hc bs hne hv, r]
  rfl

/-- non-vacuity: `StatCat` holds for the cache-all statistic (a batch is its list of
    samples, concatenation of batches is list concatenation). -/
example : StatCat (listAcc Nat) (fun b : List Nat => (.ok b : Except Err (List Nat))) List.flatten := by
  intro bs _ _
  rw [accL_listAcc]
  have : (statT (listAcc Nat) fun b : List Nat => (.ok b : Except Err (List Nat))) = id := by
    funext b; rfl
  simp [this]

/-! ## the typed metric families (TE/Model/Fams.lean)

  `StatCat` is proved per family in TE/Lemmas/FamStat*.lean (`FamStat.StatCat` there is this
  file's `StatCat`, definitionally).  The driver adapters call the very `…Stat` functions named
  here, so the statements below are about what the differential harness runs.
  `FamStat.BatchingIrrelevant M stat catB` (TE/Lemmas/FamStat.lean) says, for EVERY `outA`:
  for every non-empty list `bs` of batches that pass validation and every reordering `bs'` of
  it, one instance fed `catB bs` in a single update and one instance fed the batches `bs'` one
  by one both run without error and reach the SAME state (hence the same `compute()`).
  Batch sizes are arbitrary (1, empty where the real code accepts it, one huge batch);
  arities (`W`, `d`, `nt`) are fixed per stream. -/
open TE.Fams

/-- total form of `batching_irrelevant`: both runs succeed and the states coincide. -/
theorem batching_irrelevant_total (M : Acc A) (L : CommLaws M) {stat : B → Except Err A}
    {catB : List B → B} (hc : StatCat M stat catB) : FamStat.BatchingIrrelevant M stat catB :=
  FamStat.batching_of_statCat M L hc

/-- total form of `batching_irrelevant_ordered` (order-carrying accumulators: consecutive batchings). -/
theorem batching_irrelevant_ordered_total (M : Acc A) (L : Laws M) {stat : B → Except Err A}
    {catB : List B → B} (hc : StatCat M stat catB) : FamStat.BatchingIrrelevantOrdered M stat catB :=
  FamStat.batching_ordered_of_statCat M L hc

/-- BinaryAccuracy. -/
theorem C12_batching_binaryAccuracy (thr : Q) :
    FamStat.BatchingIrrelevant partsAcc (binaryAccuracyStat thr) catPair :=
  batching_irrelevant_total partsAcc partsAcc_laws (FamStat.statCat_binaryAccuracy thr)

/-- MulticlassAccuracy (k = 1; every average, predictions = labels or arg-max of logits). -/
theorem C12_batching_mcAccuracy (avg : Count.Avg) (C : Nat) :
    FamStat.BatchingIrrelevant partsAcc (mcAccuracyStat avg C) catPair :=
  batching_irrelevant_total partsAcc partsAcc_laws (FamStat.statCat_mcAccuracy avg C)

/-- MulticlassAccuracy (top-k on logit rows of width W; every average). -/
theorem C12_batching_mcAccuracyTopk (avg : Count.Avg) (C k W : Nat) :
    FamStat.BatchingIrrelevant partsAcc (mcAccuracyTopkStat avg C k W) catPair :=
  batching_irrelevant_total partsAcc partsAcc_laws (FamStat.statCat_mcAccuracyTopk avg C k W)

/-- MultilabelAccuracy (every criterion). -/
theorem C12_batching_multilabelAccuracy (thr : Q) (crit : Count.Crit) :
    FamStat.BatchingIrrelevant partsAcc (multilabelAccuracyStat thr crit) catPair :=
  batching_irrelevant_total partsAcc partsAcc_laws (FamStat.statCat_multilabelAccuracy thr crit)

/-- TopKMultilabelAccuracy (every criterion). -/
theorem C12_batching_topkMultilabel (crit : Count.Crit) (k : Nat) :
    FamStat.BatchingIrrelevant partsAcc (topkMultilabelStat crit k) catPair :=
  batching_irrelevant_total partsAcc partsAcc_laws (FamStat.statCat_topkMultilabel crit k)

/-- BinaryPrecision. -/
theorem C12_batching_binaryPrecision (thr : Q) :
    FamStat.BatchingIrrelevant partsAcc (binaryPrecisionStat thr) catPair :=
  batching_irrelevant_total partsAcc partsAcc_laws (FamStat.statCat_binaryPrecision thr)

/-- BinaryRecall. -/
theorem C12_batching_binaryRecall (thr : Q) :
    FamStat.BatchingIrrelevant partsAcc (binaryRecallStat thr) catPair :=
  batching_irrelevant_total partsAcc partsAcc_laws (FamStat.statCat_binaryRecall thr)

/-- BinaryF1Score. -/
theorem C12_batching_binaryF1 (thr : Q) :
    FamStat.BatchingIrrelevant partsAcc (binaryF1Stat thr) catPair :=
  batching_irrelevant_total partsAcc partsAcc_laws (FamStat.statCat_binaryF1 thr)

/-- MulticlassPrecision (every average). -/
theorem C12_batching_mcPrecision (avg : Count.Avg) (C : Nat) :
    FamStat.BatchingIrrelevant partsAcc (mcPrecisionStat avg C) catPair :=
  batching_irrelevant_total partsAcc partsAcc_laws (FamStat.statCat_mcPrecision avg C)

/-- MulticlassRecall and MulticlassF1Score (same `_update`; every average). -/
theorem C12_batching_mcRecall (avg : Count.Avg) (C : Nat) :
    FamStat.BatchingIrrelevant partsAcc (mcRecallStat avg C) catPair :=
  batching_irrelevant_total partsAcc partsAcc_laws (FamStat.statCat_mcRecall avg C)

/-- MulticlassConfusionMatrix. -/
theorem C12_batching_confusion (C : Nat) (checkP checkL : Bool) :
    FamStat.BatchingIrrelevant partsAcc (confusionStat C checkP checkL) catPair :=
  batching_irrelevant_total partsAcc partsAcc_laws (FamStat.statCat_confusion C checkP checkL)

/-- BinaryConfusionMatrix. -/
theorem C12_batching_binaryConfusion (thr : Q) :
    FamStat.BatchingIrrelevant partsAcc (binaryConfusionStat thr) catPair :=
  batching_irrelevant_total partsAcc partsAcc_laws (FamStat.statCat_binaryConfusion thr)

/-- Mean (scalar or per-sample weights). -/
theorem C12_batching_mean :
    FamStat.BatchingIrrelevant partsAcc (meanStat) catWeighted :=
  batching_irrelevant_total partsAcc partsAcc_laws (FamStat.statCat_mean)

/-- Sum (scalar or per-sample weights). -/
theorem C12_batching_sum :
    FamStat.BatchingIrrelevant partsAcc (sumStat) catWeighted :=
  batching_irrelevant_total partsAcc partsAcc_laws (FamStat.statCat_sum)

/-- MeanSquaredError, streams of one arity d (all 1-D, or all (n, d)); optional sample weights. -/
theorem C12_batching_mse (d : Nat) :
    FamStat.BatchingIrrelevant partsAcc (mseStat d) (catCols d) :=
  batching_irrelevant_total partsAcc partsAcc_laws (FamStat.statCat_mse d)

/-- R2Score, streams of one arity d. -/
theorem C12_batching_r2 (d : Nat) :
    FamStat.BatchingIrrelevant partsAcc (r2Stat d) (catCols d) :=
  batching_irrelevant_total partsAcc partsAcc_laws (FamStat.statCat_r2 d)

/-- BinaryNormalizedEntropy (`ln`, `exp` parameters; per task row). -/
theorem C12_batching_bne (ln exp : Q → Q) (fl : Bool) (nt : Nat) :
    FamStat.BatchingIrrelevant partsAcc (bneStat ln exp fl nt) (catTasks nt) :=
  batching_irrelevant_total partsAcc partsAcc_laws (FamStat.statCat_bne ln exp fl nt)

/-- Perplexity (`exp`, `ln` parameters). -/
theorem C12_batching_ppl (exp ln : Q → Q) (v : Nat) (ignore : Option Int) :
    FamStat.BatchingIrrelevant partsAcc (pplStat exp ln v ignore) catPair :=
  batching_irrelevant_total partsAcc partsAcc_laws (FamStat.statCat_ppl exp ln v ignore)

/-- the additive part of PeakSignalNoiseRatio (squared error, count). -/
theorem C12_batching_psnr :
    FamStat.BatchingIrrelevant partsAcc (psnrStat) catPair :=
  batching_irrelevant_total partsAcc partsAcc_laws (FamStat.statCat_psnr)

/-- ClickThroughRate (per task row; scalar or tensor weights). -/
theorem C12_batching_ctr (nt : Nat) :
    FamStat.BatchingIrrelevant partsAcc (ctrStat nt) (catCtr nt) :=
  batching_irrelevant_total partsAcc partsAcc_laws (FamStat.statCat_ctr nt)

/-- WeightedCalibration (per task row; scalar or tensor weights). -/
theorem C12_batching_wc (nt : Nat) :
    FamStat.BatchingIrrelevant partsAcc (wcStat nt) (catWc nt) :=
  batching_irrelevant_total partsAcc partsAcc_laws (FamStat.statCat_wc nt)

/-- BinaryBinnedPrecisionRecallCurve counts (any threshold list). -/
theorem C12_batching_binaryBinned (t : List Q) :
    FamStat.BatchingIrrelevant partsAcc (binaryBinnedStat t) catPair :=
  batching_irrelevant_total partsAcc partsAcc_laws (FamStat.statCat_binaryBinned t)

/-- MulticlassBinnedPrecisionRecallCurve / MulticlassBinnedAUPRC counts (both optimisations). -/
theorem C12_batching_mcBinned (t : List Q) (opt : Binned.Opt) (W : Nat) :
    FamStat.BatchingIrrelevant partsAcc (mcBinnedStat t opt W) catPair :=
  batching_irrelevant_total partsAcc partsAcc_laws (FamStat.statCat_mcBinned t opt W)

/-- MultilabelBinnedPrecisionRecallCurve / MultilabelBinnedAUPRC counts (both optimisations). -/
theorem C12_batching_mlBinned (t : List Q) (opt : Binned.Opt) (L : Nat) :
    FamStat.BatchingIrrelevant partsAcc (mlBinnedStat t opt L) catPair :=
  batching_irrelevant_total partsAcc partsAcc_laws (FamStat.statCat_mlBinned t opt L)

/-- BinaryBinnedAUPRC counts (per task row). -/
theorem C12_batching_binaryBinnedAuprc (t : List Q) (nt : Nat) :
    FamStat.BatchingIrrelevant partsAcc (binaryBinnedAuprcStat t nt) (catTaskPairs nt) :=
  batching_irrelevant_total partsAcc partsAcc_laws (FamStat.statCat_binaryBinnedAuprc t nt)

/-- WordErrorRate. -/
theorem C12_batching_wer {α : Type} [DecidableEq α] :
    FamStat.BatchingIrrelevant partsAcc (werStat (α := α)) catPair :=
  batching_irrelevant_total partsAcc partsAcc_laws (FamStat.statCat_wer)

/-- WordInformationPreserved. -/
theorem C12_batching_wip {α : Type} [DecidableEq α] :
    FamStat.BatchingIrrelevant partsAcc (wipStat (α := α)) catPair :=
  batching_irrelevant_total partsAcc partsAcc_laws (FamStat.statCat_wip)

/-- WordInformationLost. -/
theorem C12_batching_wil {α : Type} [DecidableEq α] :
    FamStat.BatchingIrrelevant partsAcc (wilStat (α := α)) catPair :=
  batching_irrelevant_total partsAcc partsAcc_laws (FamStat.statCat_wil)

/-- BLEUScore statistics (n-gram order N). -/
theorem C12_batching_bleu {α : Type} [DecidableEq α] (N : Nat) :
    FamStat.BatchingIrrelevant partsAcc (bleuStat (α := α) N) catPair :=
  batching_irrelevant_total partsAcc partsAcc_laws (FamStat.statCat_bleu N)

/-- cache of (score, target) samples: BinaryAUROC, BinaryAUPRC, BinaryPrecisionRecallCurve, BinaryRecallAtFixedPrecision, a task row of BinaryBinnedAUROC, AUC points. -/
theorem C12_batching_pairSamples {α β : Type} :
    FamStat.BatchingIrrelevantOrdered (listAcc (α × β)) (pairSamples (α := α) (β := β)) catPair :=
  batching_irrelevant_ordered_total (listAcc (α × β)) (listAcc_laws _) (FamStat.statCat_pairSamples)

/-- cache of (score, target, weight) samples: weighted BinaryAUROC, Wasserstein1D. -/
theorem C12_batching_tripleSamples {α β γ : Type} :
    FamStat.BatchingIrrelevantOrdered (listAcc (α × β × γ)) (tripleSamples (α := α) (β := β) (γ := γ)) catTriple :=
  batching_irrelevant_ordered_total (listAcc (α × β × γ)) (listAcc_laws _) (FamStat.statCat_tripleSamples)

/-- cache of (row, label / target row) samples: Multiclass/Multilabel AUROC, AUPRC, PR curves, recall@precision, MulticlassBinnedAUROC. -/
theorem C12_batching_rowSamples {β : Type} :
    FamStat.BatchingIrrelevantOrdered (listAcc (List Q × β)) (rowSamples (β := β)) catPair :=
  batching_irrelevant_ordered_total (listAcc (List Q × β)) (listAcc_laws _) (FamStat.statCat_rowSamples)

/-- Cat. -/
theorem C12_batching_catSamples {α : Type} :
    FamStat.BatchingIrrelevantOrdered (listAcc α) (catSamples (α := α)) List.flatten :=
  batching_irrelevant_ordered_total (listAcc α) (listAcc_laws _) (FamStat.statCat_catSamples)

/-- HitRate (per-sample values in update order). -/
theorem C12_batching_hitRate (C : Nat) (k : Option Int) :
    FamStat.BatchingIrrelevantOrdered (listAcc Q) (hitRateStat C k) catPair :=
  batching_irrelevant_ordered_total (listAcc Q) (listAcc_laws _) (FamStat.statCat_hitRate C k)

/-- ReciprocalRank (per-sample values in update order). -/
theorem C12_batching_reciprocalRank (k : Option Int) :
    FamStat.BatchingIrrelevantOrdered (listAcc Q) (reciprocalRankStat k) catPair :=
  batching_irrelevant_ordered_total (listAcc Q) (listAcc_laws _) (FamStat.statCat_reciprocalRank k)

/-! ### the arity marker of the MeanSquaredError / R2Score adapters is NOT additive

  Full statement (FALSE for the driver's encoding):
    `StatCat partsAcc (fun b => withMarker two (mseStat d b)) (catCols d)`
  The adapters append a part `[1]` to every `(n, d)` batch so that `compute` can tell the 1-D from the
  2-D form; accumulated over `k` batches it is `[k]`, on the concatenation it is `[1]`.  `compute` only
  tests it against `0`, so nothing observable depends on it; the additive parts themselves satisfy
  `StatCat` (`FamStat.statCat_mse`, `FamStat.statCat_r2`, used above), and for 1-D streams the marker is
  `[0]`, which is additive. -/

/-- witness: two `(1, 1)` batches — marker `[1]` on the concatenation, `[2]` accumulated. -/
theorem mse_arity_marker_witness :
    let b : ColBatch := ⟨[[1]], [[0]], 1, none⟩
    (withMarker true (mseStat 1 (catCols 1 [b, b]))).toOption = some [[2], [2], [1]] ∧
    accL partsAcc (statT partsAcc fun b => withMarker true (mseStat 1 b)) [b, b] = [[2], [2], [2]] := by
  decide +kernel

/-! ### non-vacuity: concrete batch lists (sizes 3/1/2, 2/1, …) satisfy the hypotheses -/


/-- count group: three batches of sizes 3, 1, 2, also fed in reverse order. -/
example :
    let bs : List (List Q × List Q) := [([3/4, 1/4, 1/2], [1, 0, 0]), ([1/8], [1]), ([1, 0], [1, 1])]
    bs ≠ [] ∧ bs.reverse.Perm bs ∧ (∀ b ∈ bs, ∃ a, binaryAccuracyStat (1/2) b = .ok a) ∧
      (binaryAccuracyStat (1/2) (catPair bs)).toOption = some [[3], [6]] := by
  intro bs
  exact ⟨by decide, List.reverse_perm _, FamStat.valid_of_all _ _ (by decide +kernel), by decide +kernel⟩

example :
    let bs : List (List Nat × List Nat) := [([0, 2, 1], [0, 1, 1]), ([2], [2]), ([1, 0], [1, 2])]
    bs ≠ [] ∧ (∀ b ∈ bs, ∃ a, mcRecallStat .macro 3 b = .ok a) ∧
      (mcRecallStat .macro 3 (catPair bs)).toOption = some [[1, 2, 1], [1, 3, 2], [2, 2, 2]] := by
  intro bs
  exact ⟨by decide, FamStat.valid_of_all _ _ (by decide +kernel), by decide +kernel⟩

/-- agg group: Mean with a scalar weight, per-sample weights and the default -/
example :
    let bs : List (List Q × Agg.Weight) := [([1, 2, 3], .scalar 2), ([5], .tensor [1/2]), ([1, 1], .scalar 1)]
    bs ≠ [] ∧ (∀ b ∈ bs, ∃ a, meanStat b = .ok a) ∧
      (meanStat (catWeighted bs)).toOption = some [[33/2], [17/2]] := by
  intro bs
  exact ⟨by decide, FamStat.valid_of_all _ _ (by decide +kernel), by decide +kernel⟩

example :
    let bs : List ColBatch := [⟨[[1, 2], [0, 1]], [[1, 1], [1, 1]], 2, none⟩, ⟨[[3], [3]], [[1], [2]], 1, some [2]⟩]
    bs ≠ [] ∧ (∀ b ∈ bs, ∃ a, mseStat 2 b = .ok a) ∧
      (mseStat 2 (catCols 2 bs)).toOption = some [[9, 3], [4]] := by
  intro bs
  exact ⟨by simp [bs], FamStat.valid_of_all _ _ (by decide +kernel), by decide +kernel⟩

/-- rank group -/
example :
    let bs : List (Mat × TW) := [([[1, 0, 1], [0, 0, 1]], .scalar 2), ([[1], [1]], .tensor [[3], [1/2]])]
    bs ≠ [] ∧ (∀ b ∈ bs, ∃ a, ctrStat 2 b = .ok a) ∧
      (ctrStat 2 (catCtr 2 bs)).toOption = some [[7, 5/2], [9, 13/2]] := by
  intro bs
  exact ⟨by simp [bs], FamStat.valid_of_all _ _ (by decide +kernel), by decide +kernel⟩

/-- binned group -/
example :
    let bs : List (Mat × List Nat) := [([[1/8, 1/2], [1/2, 1/4], [3/4, 1]], [1, 0, 1]), ([[1, 0]], [0])]
    bs ≠ [] ∧ (∀ b ∈ bs, ∃ a, mcBinnedStat [1/4, 1/2] .memory 2 b = .ok a) ∧
      (mcBinnedStat [1/4, 1/2] .memory 2 (catPair bs)).toOption = (mcBinnedStat [1/4, 1/2] .vectorized 2 (catPair bs)).toOption ∧
      (mcBinnedStat [1/4, 1/2] .memory 2 (catPair bs)).toOption = some [[2, 2, 2, 2], [1, 1, 1, 0], [0, 0, 0, 0]] := by
  intro bs
  exact ⟨by decide, FamStat.valid_of_all _ _ (by decide +kernel), by decide +kernel, by decide +kernel⟩

/-- text group -/
example :
    let bs : List (List (List Nat) × List (List (List Nat))) :=
      [([[1, 2, 3, 4], [5, 6]], [[[1, 2, 3, 4, 5]], [[5, 6], [6]]]), ([[7, 8, 9]], [[[7, 9], [7, 8, 9, 9]]])]
    bs ≠ [] ∧ (∀ b ∈ bs, ∃ a, bleuStat 2 b = .ok a) ∧
      (bleuStat 2 (catPair bs)).toOption = some [[9], [9], [9, 6], [9, 6]] := by
  intro bs
  exact ⟨by decide, FamStat.valid_of_all _ _ (by decide +kernel), by decide +kernel⟩

/-- list group -/
example :
    let bs : List (Mat × List Int) := [([[1/2, 1/4, 1/8], [0, 1, 1/2]], [1, 2]), ([[1/4, 1/2, 1]], [0])]
    bs ≠ [] ∧ (∀ b ∈ bs, ∃ a, reciprocalRankStat none b = .ok a) ∧
      (reciprocalRankStat none (catPair bs)).toOption = some [1/2, 1/2, 1/3] := by
  intro bs
  exact ⟨by decide, FamStat.valid_of_all _ _ (by decide +kernel), by decide +kernel⟩

end TE.C12
