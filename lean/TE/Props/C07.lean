/-
  C07 — regression, aggregation, statistical and image metrics equal their formulas.

  ONLY property theorems and non-vacuity examples live here; helper lemmas are in
  TE/Lemmas/Agg.lean and TE/Lemmas/AggSM.lean.  Models: TE/Model/Agg.lean (follow
  the code's algorithm), textbook definitions: TE/Spec/Agg.lean.

  WHAT IS DECIDED HERE.  Every theorem is an *exact identity over the rationals*, for
  all lengths, weights, batchings and (where stated) merge trees: the streaming /
  sufficient-statistics / sorted-index algorithm of the code computes the textbook
  definition.  `ln`, `exp` are arbitrary functions `Q → Q` wherever the code calls
  `log`/`exp` (normalized entropy, perplexity); PSNR is proved up to the argument of
  `log10`; the eigenvalue term of `gaussian_frechet_distance` is out of scope (only
  the rational part `a + b` is modelled, and the moment bookkeeping of
  FrechetAudioDistance is proved).

  WHAT IS NOT DECIDED HERE.  The clause "to within rounding of the working precision"
  of C07 and its ill-conditioned cases (near-constant targets for R², near-equal
  distributions, float32 accumulation) concern IEEE rounding and conditioning.  Exact
  field identities say nothing about them (e.g. `Σy² − (Σy)²/n` is exactly `Σ(y−ȳ)²`
  here and visibly less stable than it in float32).  That part is only *sampled* by
  the differential correspondence (harness/props/c07.py: float32/float64, tolerance
  relative to Σ|terms| / the condition number), not proved.
-/
import TE.Model.Agg
import TE.Spec.Agg
import TE.Lemmas.Agg
import TE.Lemmas.AggSM
namespace TE.C07
open TE TE.Agg TE.AggL
open TE.Spec.Agg (wsum wmean IsMax IsMin)

/-! ## 1. Mean / Sum -/

/-- `_mean_update` with a weight tensor returns `(Σ wᵢxᵢ, Σ wᵢ)`. -/
theorem mean_update_eq (xs ws : List Q) (h : ws.length = xs.length) :
    meanUpdate xs (.tensor ws) = .ok (wsum ws xs, ws.sum) := by
  simp [meanUpdate, h, wsum]

/-- **mean, tensor weights**: `Σ wᵢxᵢ / Σ wᵢ` whenever the total weight is non-zero. -/
theorem mean_eq (xs ws : List Q) (h : ws.length = xs.length) (hw : ws.sum ≠ 0) :
    meanFn xs (.tensor ws) = .ok (.val (wmean ws xs)) := by
  simp [meanFn, mean_update_eq xs ws h, bind, Except.bind, pure, Except.pure, xdiv_val _ _ hw, wmean]

/-- **mean, scalar weight** `w`: the weighted mean with every weight equal to `w`, which is
    the plain arithmetic mean. -/
theorem mean_scalar_eq (xs : List Q) (w : Q) (hw : w ≠ 0) (hn : xs ≠ []) :
    meanFn xs (.scalar w) = .ok (.val (wmean (List.replicate xs.length w) xs)) ∧
    wmean (List.replicate xs.length w) xs = Spec.Agg.mean xs := by
  have hl : (xs.length : Q) ≠ 0 := natCast_ne_zero (by simpa using hn)
  have hden : w * (xs.length : Q) ≠ 0 := by grind
  have e : wmean (List.replicate xs.length w) xs = w * xs.sum / (w * (xs.length : Q)) := by
    simp [wmean, wsum, zipWith_replicate_left xs.length w xs rfl, sum_map_mul_left, sum_replicate]
    grind
  refine ⟨?_, ?_⟩
  · simp [meanFn, meanUpdate, bind, Except.bind, pure, Except.pure, xdiv_val _ _ hden, e]
  · rw [e, Spec.Agg.mean]; grind

/-- zero total weight: torch's division conventions (`NaN`, `±inf`), not a number. -/
theorem mean_zero_weight (xs ws : List Q) (h : ws.length = xs.length) (hw : ws.sum = 0) :
    meanFn xs (.tensor ws) = .ok (xdiv (wsum ws xs) 0) := by
  simp [meanFn, mean_update_eq xs ws h, bind, Except.bind, pure, Except.pure, hw]

/-- a weight tensor of another size is rejected. -/
theorem mean_rejects (xs ws : List Q) (h : ws.length ≠ xs.length) :
    meanFn xs (.tensor ws) = .error .value := by
  simp [meanFn, meanUpdate, h, bind, Except.bind]

/-- **sum**: `(input * weight).sum()` is `Σ wᵢxᵢ` (tensor weights) resp. `w·Σxᵢ` (scalar). -/
theorem sum_eq (xs ws : List Q) (h : ws.length = xs.length) :
    sumUpdate xs (.tensor ws) = .ok (wsum ws xs) := by
  simp [sumUpdate, h, wsum, zipWith_mul_comm xs ws]

theorem sum_scalar_eq (xs : List Q) (w : Q) :
    sumUpdate xs (.scalar w) = .ok (wsum (List.replicate xs.length w) xs) ∧
    wsum (List.replicate xs.length w) xs = w * xs.sum := by
  have e : wsum (List.replicate xs.length w) xs = w * xs.sum := by
    simp [wsum, zipWith_replicate_left xs.length w xs rfl, sum_map_mul_left]
  exact ⟨by simp [sumUpdate, e, sum_map_mul_right], e⟩

/-- the class `Mean` over a stream: the accumulated `(Σ wx, Σ w)` of the batches are those of
    the concatenated stream, so `compute` is the weighted mean of everything seen. -/
theorem mean_stream_eq (bs : List (List Q × List Q)) (hb : ∀ b ∈ bs, b.2.length = b.1.length) :
    (bs.map fun b => wsum b.2 b.1).sum = wsum (bs.map (·.2)).flatten (bs.map (·.1)).flatten ∧
    (bs.map fun b => b.2.sum).sum = ((bs.map (·.2)).flatten).sum := by
  induction bs with
  | nil => simp [wsum]
  | cons b bs ih =>
    have ih' := ih (fun b' hb' => hb b' (List.mem_cons_of_mem _ hb'))
    have hl := hb b (List.mem_cons_self ..)
    refine ⟨?_, ?_⟩
    · simp only [List.map_cons, List.sum_cons, List.flatten_cons, ih'.1]
      simp only [wsum]; rw [sum_zipWith_append _ _ _ _ _ hl]
    · simp only [List.map_cons, List.sum_cons, List.flatten_cons, List.sum_append, ih'.2]

/-- `Mean.compute` on the accumulated state: the weighted mean (and `0.0` without weight). -/
theorem mean_compute_eq (ws xs : List Q) (hw : ws.sum ≠ 0) :
    meanCompute (wsum ws xs) ws.sum = wmean ws xs := by simp [meanCompute, hw, wmean]

theorem mean_compute_zero (s : Q) : meanCompute s 0 = 0 := by simp [meanCompute]

example : (meanFn [1, 2, 3] (.tensor [1, 2, 3])).toOption = some (.val (7 / 3)) ∧ wmean [1, 2, 3] [1, 2, 3] = 7 / 3 := by
  decide +kernel
example : ([1, 2, 3] : List Q).length = ([1, 2, 3] : List Q).length ∧ ([1, 2, 3] : List Q).sum ≠ 0 := by decide +kernel
example : (meanFn [1, 2, 3] (.scalar 2)).toOption = some (.val 2) := by decide +kernel
example : (sumUpdate [1, 2, 3] (.tensor [1, 2, 3])).toOption = some 14 := by decide +kernel

/-! ## 2. Max / Min -/

/-- **max**: `torch.max(input)` is the maximum — attained, and an upper bound of every element. -/
theorem max_eq (xs : List Q) (m : Q) (h : reduceBy qmax xs = some m) : IsMax xs m := reduce_max xs m h

theorem min_eq (xs : List Q) (m : Q) (h : reduceBy qmin xs = some m) : IsMin xs m := reduce_min xs m h

/-- exactly the empty tensor is rejected (`RuntimeError` in torch). -/
theorem max_defined_iff (pick : Q → Q → Q) (xs : List Q) : (∃ m, reduceBy pick xs = some m) ↔ xs ≠ [] := by
  cases xs <;> simp [reduceBy]

/-- the class `Max` after **any history** (updates on any number of instances, any merge
    tree, resets): `compute` is the maximum of all live samples, `-inf` when there are none. -/
theorem max_merge_tree (h : Hist (List Q)) (s : Option Q) (he : eval (extImpl qmax .ninf) h = .ok s) :
    match s with
    | none => (flatten h).flatten = [] ∧ (extImpl qmax .ninf).out s = .ok .ninf
    | some m => IsMax (flatten h).flatten m ∧ (extImpl qmax .ninf).out s = .ok (.val m) := by
  have := ext_refines qmax .ninf IsMax reduce_max (fun _ _ _ _ => isMax_append) h s he
  cases s with
  | none => exact ⟨this, rfl⟩
  | some m => exact ⟨this, rfl⟩

theorem min_merge_tree (h : Hist (List Q)) (s : Option Q) (he : eval (extImpl qmin .pinf) h = .ok s) :
    match s with
    | none => (flatten h).flatten = [] ∧ (extImpl qmin .pinf).out s = .ok .pinf
    | some m => IsMin (flatten h).flatten m ∧ (extImpl qmin .pinf).out s = .ok (.val m) := by
  have := ext_refines qmin .pinf IsMin reduce_min (fun _ _ _ _ => isMin_append) h s he
  cases s with
  | none => exact ⟨this, rfl⟩
  | some m => exact ⟨this, rfl⟩

example : reduceBy qmax [1, 7, 3] = some 7 ∧ IsMax [1, 7, 3] 7 :=
  ⟨by decide +kernel, max_eq _ _ (by decide +kernel)⟩
example : (eval (extImpl qmax .ninf) (.merge (.update .fresh [1, 2]) [.fresh, .update .fresh [5, 0]])).toOption
    = some (some 5) := by decide +kernel

/-! ## 3. trapezoidal AUC -/

/-- `torch.sort(x, stable=True)` + `y.gather(idx)` orders the *points* by abscissa
    (ties in arrival order) … -/
theorem auc_reorder_sorts (xs ys : List Q) (h : xs.length = ys.length) :
    ((argsortStable xs).map (·.1)).zip (gatherBy (argsortStable xs) ys) = Spec.Agg.sortPts (xs.zip ys) := by
  rw [gatherBy, List.zip_map', argsort_gather xs ys h, isort_leFst]

/-- … and that order is sorted and a permutation of the input points. -/
theorem sortPts_spec (pts : List (Q × Q)) :
    (Spec.Agg.sortPts pts).Pairwise (fun a b => a.1 ≤ b.1) ∧ (Spec.Agg.sortPts pts).Perm pts :=
  ⟨sortPts_sorted pts, sortPts_perm pts⟩

/-- **AUC**: with `reorder=True` the result is the trapezoid rule over the points ordered by
    `x`; with `reorder=False` over the points as given. -/
theorem auc_trapz_eq (xs ys : List Q) (h : xs.length = ys.length) :
    aucRow true xs ys = Spec.Agg.auc (xs.zip ys) ∧
    aucRow false xs ys = Spec.Agg.trapzPts (xs.zip ys) :=
  ⟨aucRow_reorder xs ys h, by simp [aucRow, trapz_zip xs ys h]⟩

/-- multi-task input: one trapezoid sum per row. -/
theorem auc_rows_eq (xr yr : Mat) (h : ∀ p ∈ xr.zip yr, p.1.length = p.2.length) :
    auc true xr yr = List.zipWith (fun x y => Spec.Agg.auc (x.zip y)) xr yr := by
  induction xr generalizing yr with
  | nil => rfl
  | cons x xr ih =>
    cases yr with
    | nil => rfl
    | cons y yr =>
      have h₁ := h (x, y) (by simp)
      have h₂ := ih yr (fun p hp => h p (by simp [hp]))
      simp only [auc, List.zipWith_cons_cons] at h₂ ⊢
      rw [h₂, (auc_trapz_eq _ _ h₁).1]

example : aucRow true [0, 1, 1/2] [1, 1, 2] = 3 / 2 := by decide +kernel
example : Spec.Agg.auc ([0, 1, 1/2].zip [1, 1, 2]) = 3 / 2 := by decide +kernel

/-! ## 4. Covariance: the streaming Chan / Welford combine -/

/-- **Chan combine**: merging the `(n, Σx, M2)` summaries of two batches with the code's
    `_update` formula gives the summary of the concatenated observations (all `d × d`
    entries; empty batches included). -/
theorem chan_combine (d : Nat) (A B : Mat) :
    covCombine (covBatch d A) (covBatch d B) = covBatch d (A ++ B) := chan_combine_batches d A B

/-- the scalar identity behind it. -/
theorem chan_combine_scalar (x₁ y₁ x₂ y₂ : List Q) (h₁ : x₁.length = y₁.length) (h₂ : x₂.length = y₂.length)
    (n₁ : x₁.length ≠ 0) (n₂ : x₂.length ≠ 0) :
    Spec.Agg.scatter (x₁ ++ x₂) (y₁ ++ y₂)
      = Spec.Agg.scatter x₁ y₁ +
        (Spec.Agg.scatter x₂ y₂ +
          (x₁.sum / (x₁.length : Q) - x₂.sum / (x₂.length : Q)) * (y₁.sum / (x₁.length : Q) - y₂.sum / (x₂.length : Q))
            * ((x₂.length : Q) * (x₁.length : Q)) / ((x₁.length : Q) + (x₂.length : Q))) :=
  chan_scalar x₁ y₁ x₂ y₂ h₁ h₂ n₁ n₂

/-- `Σ(x−x̄)(y−ȳ) = Σxy − ΣxΣy/n` (second moments from raw sums). -/
theorem m2_from_raw_sums (xs ys : List Q) (h : xs.length = ys.length) (hn : xs.length ≠ 0) :
    Spec.Agg.scatter xs ys = (List.zipWith (· * ·) xs ys).sum - xs.sum * ys.sum / (xs.length : Q) :=
  scatter_raw xs ys h hn

/-- `compute` on the summary of `n ≥ 2` observations is the definition: sample means and
    the unbiased sample covariance matrix. -/
theorem cov_compute_eq_def (d : Nat) (rows : Mat) (hn : 2 ≤ rows.length) :
    covCompute (covBatch d rows) = .ok
      ((List.range d).map fun j => Spec.Agg.mean (col j rows),
       (List.range d).map fun i => (List.range d).map fun j => Spec.Agg.cov (col i rows) (col j rows)) := by
  have : ¬ rows.length < 2 := by omega
  simp [covCompute, covBatch, this, Spec.Agg.mean, Spec.Agg.cov, col_length, comoment_eq_scatter, Function.comp_def]

/-- **any batching**: feeding the observations in any number of batches (empty ones included)
    computes what one batch holding all observations computes. -/
theorem cov_stream_eq_def (d : Nat) (bs : List Mat) :
    covCompute (bs.foldl (covUpdate d) covInit) = covCompute (covBatch d bs.flatten) := by
  have := cov_fold d bs covInit [] (Or.inl ⟨rfl, rfl⟩)
  simpa using covRep_compute d this

/-- **any merge tree**: after any history of `update` / `merge_state` / `reset` on any number
    of `Covariance` instances (batches of `d` columns), `compute` is `compute` of the summary
    of all live observations — hence, by `cov_compute_eq_def`, their sample mean / covariance. -/
theorem cov_merge_tree (d : Nat) (h : Hist (Nat × Mat)) (s : CovS)
    (he : eval covImpl h = .ok s) (hd : ∀ b ∈ flatten h, b.1 = d) :
    covImpl.out s = covCompute (covBatch d (rowsOf (flatten h))) :=
  covRep_compute d (cov_refines d h s he hd)

/-- fewer than two observations: `ValueError`. -/
theorem cov_too_few (d : Nat) (rows : Mat) (hn : rows.length < 2) :
    covCompute (covBatch d rows) = .error .value := by simp [covCompute, covBatch, hn]

example : (covCompute ([[[1, 2]], [[3, 5], [0, 1]]].foldl (covUpdate 2) covInit)).toOption
    = some ([4/3, 8/3], [[7/3, 19/6], [19/6, 13/3]]) := by decide +kernel
example : Spec.Agg.cov [1, 3, 0] [2, 5, 1] = 19 / 6 := by decide +kernel

/-! ## 5. mean squared error -/

/-- `_update` of one output column: `Σ wₖ(tₖ − xₖ)²`. -/
theorem mse_update_eq (ws xs ts : List Q) :
    sseCol (some ws) xs ts = wsum ws (List.zipWith (fun x t => (t - x) * (t - x)) xs ts) ∧
    sseCol none xs ts = (List.zipWith (fun x t => (t - x) * (t - x)) xs ts).sum :=
  ⟨sseCol_weighted ws xs ts, rfl⟩

/-- **weighted MSE, multi-output, `raw_values`**: one `Σ w(t−x)²/Σw` per output column,
    whenever the total weight is at least `eps` (the code clamps below that). -/
theorem mse_eq (ws : List Q) (xc tc : Mat) (n : Nat) (hw : eps64 ≤ ws.sum) :
    mseCompute false (mseUpdate (some ws) xc tc n).1 (mseUpdate (some ws) xc tc n).2
      = (List.zipWith (fun x t => Spec.Agg.wmse ws x t) xc tc).map XQ.val := by
  simp only [mseCompute, mseUpdate, mseRaw_eq _ _ hw, List.map_zipWith, Bool.false_eq_true, if_false]
  congr 1
  funext x t
  simp [sseCol_weighted, Spec.Agg.wmse]

/-- `uniform_average`: the mean of the per-output values (a single value for 1-D input). -/
theorem mse_uniform_eq (ws : List Q) (xc tc : Mat) (n : Nat) (hw : eps64 ≤ ws.sum)
    (hd : List.zipWith (fun x t => Spec.Agg.wmse ws x t) xc tc ≠ []) :
    mseCompute true (mseUpdate (some ws) xc tc n).1 (mseUpdate (some ws) xc tc n).2
      = [.val (Spec.Agg.mean (List.zipWith (fun x t => Spec.Agg.wmse ws x t) xc tc))] := by
  have := mse_eq ws xc tc n hw
  simp only [mseCompute, Bool.false_eq_true, if_false, if_true] at this ⊢
  rw [this, xmean_vals _ hd]
  rfl

/-- unweighted: `sum_weight = n`, the plain `Σ(t−x)²/n` per column of length `n ≥ 1`. -/
theorem mse_unweighted_eq (n : Nat) (hn : n ≠ 0) : ∀ (xc tc : Mat), (∀ t ∈ tc, t.length = n) →
    mseCompute false (mseUpdate none xc tc n).1 (mseUpdate none xc tc n).2
      = (List.zipWith (fun x t => Spec.Agg.mse x t) xc tc).map XQ.val := by
  intro xc tc h
  simp only [mseCompute, mseUpdate, mseRaw_eq _ _ (eps64_le_natCast hn), List.map_zipWith, Bool.false_eq_true, if_false]
  induction xc generalizing tc with
  | nil => simp
  | cons x xc ih =>
    cases tc with
    | nil => simp
    | cons t tc =>
      simp only [List.zipWith_cons_cons, List.cons.injEq]
      exact ⟨by simp [sseCol, Spec.Agg.mse, h t (List.mem_cons_self ..)],
        ih tc (fun t' ht' => h t' (List.mem_cons_of_mem _ ht'))⟩

/-- below `eps` total weight the guarded denominator is not the weight: the documented
    degenerate case (`0/0 = NaN` for zero weight). -/
theorem mse_zero_weight (sse : List Q) : mseRaw sse 0 = sse.map fun s => xdiv s 0 := by
  simp [mseRaw, sgn]

example : (mseCompute false (mseUpdate (some [1, 2, 3]) [[1, 1, 1], [0, 1, 2]] [[0, 0, 0], [0, 3, 2]] 3).1 6)
    = [.val 1, .val (4 / 3)] := by decide +kernel
example : eps64 ≤ ([1, 2, 3] : List Q).sum := by decide +kernel
example : Spec.Agg.wmse [1, 2, 3] [0, 1, 2] [0, 3, 2] = 4 / 3 := by decide +kernel

/-! ## 6. R² -/

/-- **the sufficient-statistics form of the total sum of squares is the definition**:
    `Σy² − (Σy)²/n = Σ(y−ȳ)²`. -/
theorem r2_tss_eq_def (ys : List Q) (h : ys ≠ []) :
    (ys.map fun y => y * y).sum - ys.sum * ys.sum / (ys.length : Q) = Spec.Agg.tss ys := tss_raw ys h

/-- the `tss` vector computed from `(Σy², Σy, n)` is the per-output definition. -/
theorem r2_tss_vec_eq (n : Nat) (hn : n ≠ 0) (xc tc : Mat) (h : ∀ t ∈ tc, t.length = n) :
    r2Tss (r2Update xc tc).1 (r2Update xc tc).2.1 (n : Q) = tc.map Spec.Agg.tss := tss_list n hn xc tc h

/-- **R², `raw_values`** (every output, 1-D input = one output): `1 − RSS/TSS` per output from
    `(Σy², Σy, Σ(y−ŷ)², n)`, for `n ≥ 2` samples and non-constant targets. -/
theorem r2_eq_def (n : Nat) (hn : 2 ≤ n) (xc tc : Mat) (h : ∀ t ∈ tc, t.length = n ∧ Spec.Agg.tss t ≠ 0) :
    r2Compute (r2Update xc tc).1 (r2Update xc tc).2.1 (r2Update xc tc).2.2 (n : Q) .raw 0
      = .ok ((List.zipWith Spec.Agg.r2 xc tc).map XQ.val) := by
  have h2 : ¬ (n : Q) < 2 := by
    have : (2 : Q) ≤ (n : Q) := by exact_mod_cast hn
    exact Rat.not_lt.mpr this
  have h1 : ¬ (n : Q) - 1 ≤ ((0 : Nat) : Q) := by
    have : (2 : Q) ≤ (n : Q) := by exact_mod_cast hn
    grind
  simp only [r2Compute, h2, h1, if_false, if_true, r2_raw_list n (by omega) xc tc h]

/-- **`uniform_average`**: the mean of the per-output scores. -/
theorem r2_uniform_eq (n : Nat) (hn : 2 ≤ n) (xc tc : Mat) (h : ∀ t ∈ tc, t.length = n ∧ Spec.Agg.tss t ≠ 0)
    (hd : List.zipWith Spec.Agg.r2 xc tc ≠ []) :
    r2Compute (r2Update xc tc).1 (r2Update xc tc).2.1 (r2Update xc tc).2.2 (n : Q) .uniform 0
      = .ok [.val (Spec.Agg.mean (List.zipWith Spec.Agg.r2 xc tc))] := by
  have h2 : ¬ (n : Q) < 2 := by
    have : (2 : Q) ≤ (n : Q) := by exact_mod_cast hn
    exact Rat.not_lt.mpr this
  have h1 : ¬ (n : Q) - 1 ≤ ((0 : Nat) : Q) := by
    have : (2 : Q) ≤ (n : Q) := by exact_mod_cast hn
    grind
  simp only [r2Compute, h2, h1, if_false, if_true, r2_raw_list n (by omega) xc tc h, xmean_vals _ hd]
  rfl

/-- **`variance_weighted`**: per-output scores weighted by the outputs' total sums of squares. -/
theorem r2_variance_weighted_eq (n : Nat) (hn : 2 ≤ n) (xc tc : Mat)
    (h : ∀ t ∈ tc, t.length = n ∧ Spec.Agg.tss t ≠ 0) (hT : (tc.map Spec.Agg.tss).sum ≠ 0) :
    r2Compute (r2Update xc tc).1 (r2Update xc tc).2.1 (r2Update xc tc).2.2 (n : Q) .variance 0
      = .ok [.val (Spec.Agg.r2vw xc tc)] := by
  have h2 : ¬ (n : Q) < 2 := by
    have : (2 : Q) ≤ (n : Q) := by exact_mod_cast hn
    exact Rat.not_lt.mpr this
  have h1 : ¬ (n : Q) - 1 ≤ ((0 : Nat) : Q) := by
    have : (2 : Q) ≤ (n : Q) := by exact_mod_cast hn
    grind
  have ht := tss_list n (by omega) xc tc (fun t ht => (h t ht).1)
  simp only [r2Compute, h2, h1, if_false, if_true]
  rw [r2_raw_list n (by omega) xc tc h, ht, xsum_weighted_vals _ _ _ hT, zipWith_zipWith_map]
  rfl

/-- **adjusted R²** (`num_regressors = p ≥ 1`, `p < n − 1`): `1 − (1 − R²)(n−1)/(n−p−1)` applied to
    whatever the multi-output mode produced. -/
theorem r2_adjusted_eq (sso so rss : List Q) (n : Nat) (mo : MultiOut) (p : Nat) (hp : p ≠ 0) (hpn : p + 1 < n)
    (vals : List Q) (h0 : r2Compute sso so rss (n : Q) mo 0 = .ok (vals.map XQ.val)) :
    r2Compute sso so rss (n : Q) mo p = .ok ((vals.map (Spec.Agg.r2adj (n : Q) p)).map XQ.val) := by
  have hq : ((p : Q) + 1 < (n : Q)) := by exact_mod_cast hpn
  have h2 : ¬ (n : Q) < 2 := by
    have : (2 : Q) ≤ (n : Q) := by
      have : 2 ≤ n := by omega
      exact_mod_cast this
    exact Rat.not_lt.mpr this
  have h1 : ¬ (n : Q) - 1 ≤ (p : Q) := by grind
  have h1' : ¬ (n : Q) - 1 ≤ ((0 : Nat) : Q) := by simp; grind
  have hden : (n : Q) - (p : Q) - 1 ≠ 0 := by grind
  simp only [r2Compute, h2, h1, h1', if_false, if_true, hp, Except.ok.injEq] at h0 ⊢
  rw [h0, List.map_map, List.map_map]
  apply List.map_congr_left; intro r _
  exact r2Adjust_val _ _ _ hden

/-- rejected inputs: fewer than two samples, or too many regressors. -/
theorem r2_rejects (sso so rss : List Q) (n : Q) (mo : MultiOut) (p : Nat) (h : n < 2 ∨ n - 1 ≤ (p : Q)) :
    r2Compute sso so rss n mo p = .error .value := by
  unfold r2Compute
  rcases h with h | h
  · simp [h]
  · by_cases h' : n < 2 <;> simp [h, h']

/-- constant target (`TSS = 0`): not a number — `-inf` for a wrong prediction, `NaN` for an exact one. -/
theorem r2_constant_target (rss : Q) : r2Raw [rss] [0] = [xsub (.val 1) (xdiv rss 0)] := rfl

example : (r2Compute (r2Update [[1, 2, 3]] [[2, 3, 4]]).1 (r2Update [[1, 2, 3]] [[2, 3, 4]]).2.1
    (r2Update [[1, 2, 3]] [[2, 3, 4]]).2.2 3 .raw 0).toOption = some [.val (-1 / 2)] := by decide +kernel
example : Spec.Agg.r2 [1, 2, 3] [2, 3, 4] = -1 / 2 ∧ Spec.Agg.tss [2, 3, 4] ≠ 0 := by decide +kernel
example : Spec.Agg.r2vw [[0, 1, 1], [1, 2, 4]] [[2, 1, 1], [1, 2, 3]] = -7 / 8 := by decide +kernel

/-! ## 7. Wasserstein-1D -/

/-- `searchsorted(sorted x, v, right=True)` is `#{xᵢ ≤ v}`, and the sorted cumulative weight at
    that index is `W{xᵢ ≤ v}` of the **unsorted** sample. -/
theorem wasserstein_cum_weight (pts : List (Q × Q)) (v : Q) :
    (cumFrom 0 ((Spec.Agg.sortPts pts).map (·.2))).getD (searchsortedRight ((Spec.Agg.sortPts pts).map (·.1)) v) 0
      = ((pts.filter fun p => decide (p.1 ≤ v)).map (·.2)).sum := cum_weight_at pts v

/-- both CDF constructions of `_wasserstein_compute` are the weighted empirical CDF. -/
theorem wasserstein_cdf_eq (xs ws q : List Q) (h : xs.length = ws.length) :
    wCdf xs (some ws) q = q.map (Spec.Agg.cdf (xs.zip ws)) ∧
    wCdf xs none q = q.map (Spec.Agg.cdf (xs.zip (xs.map fun _ => 1))) :=
  ⟨wCdf_weighted xs ws q h, wCdf_unweighted xs q⟩

/-- **Wasserstein-1D**: for non-empty samples (of possibly different sizes) and positive weights of
    matching sizes, the result is `Σ |F_x(v_k) − F_y(v_k)|·(v_{k+1} − v_k)` over the merged sorted
    support, with the weighted empirical CDFs of the definition. -/
theorem wasserstein_eq (x y : List Q) (xw yw : Option (List Q)) (hx : x ≠ []) (hy : y ≠ [])
    (hxw : weightsOk x xw = true) (hyw : weightsOk y yw = true) :
    wasserstein x y xw yw = .ok (Spec.Agg.w1 (x.zip (Spec.Agg.unitOr x xw)) (y.zip (Spec.Agg.unitOr y yw))) := by
  have hx' : x.isEmpty = false := by cases x <;> simp_all
  have hy' : y.isEmpty = false := by cases y <;> simp_all
  have lx : x.length = (Spec.Agg.unitOr x xw).length := by
    cases xw with
    | none => simp [Spec.Agg.unitOr]
    | some w => simp [weightsOk] at hxw; simp [Spec.Agg.unitOr, hxw.2]
  have ly : y.length = (Spec.Agg.unitOr y yw).length := by
    cases yw with
    | none => simp [Spec.Agg.unitOr]
    | some w => simp [weightsOk] at hyw; simp [Spec.Agg.unitOr, hyw.2]
  have cx : ∀ q, wCdf x xw q = q.map (Spec.Agg.cdf (x.zip (Spec.Agg.unitOr x xw))) := by
    intro q
    cases xw with
    | none => exact wCdf_unweighted x q
    | some w => exact wCdf_weighted x w q lx
  have cy : ∀ q, wCdf y yw q = q.map (Spec.Agg.cdf (y.zip (Spec.Agg.unitOr y yw))) := by
    intro q
    cases yw with
    | none => exact wCdf_unweighted y q
    | some w => exact wCdf_weighted y w q ly
  simp only [wasserstein, hx', hy', hxw, hyw, Bool.or_self, Bool.not_true, Bool.false_eq_true, if_false, cx, cy,
    isort_leQ, Except.ok.injEq]
  rw [w1_sum _ _ _ _ rfl rfl, Spec.Agg.w1]
  rw [List.map_fst_zip (by omega), List.map_fst_zip (by omega)]

/-- rejected inputs: an empty sample, or weights that are empty / not all positive / of another size. -/
theorem wasserstein_rejects (x y : List Q) (xw yw : Option (List Q))
    (h : x = [] ∨ y = [] ∨ weightsOk x xw = false ∨ weightsOk y yw = false) :
    wasserstein x y xw yw = .error .value := by
  unfold wasserstein
  by_cases h1 : (x.isEmpty || y.isEmpty) = true
  · simp [h1]
  · have : x ≠ [] ∧ y ≠ [] := by
      cases x <;> cases y <;> simp_all
    rcases h with h | h | h | h
    · exact absurd h this.1
    · exact absurd h this.2
    · simp [h1, h]
    · simp [h1, h]

example : (wasserstein [1, 2, 3] [1, 5] (some [1, 2, 1]) (some [1, 3])).toOption = some 2 := by decide +kernel
example : Spec.Agg.w1 ([1, 2, 3].zip [1, 2, 1]) ([1, 5].zip [1, 3]) = 2 := by decide +kernel
example : weightsOk [1, 2, 3] (some [1, 2, 1]) = true ∧ weightsOk [1, 5] none = true := by decide +kernel

/-! ## 9. binary normalized entropy -/

/-- **normalized entropy** (`ln`, `exp` arbitrary): the accumulated `(cross_entropy, num_positive,
    num_examples)` give `Σw·ce / Σw` over the entropy of the clamped base rate `Σw·t / Σw` — for
    probabilities (logs not hitting torch's clamp at −100) and for logits. -/
theorem bne_eq (ln exp : Q → Q) (fl : Bool) (xs ts ws : List Q)
    (hclamp : fl = false → ∀ p ∈ xs.zip ts, -100 ≤ ln p.1 ∧ -100 ≤ ln (1 - p.1))
    (hw : ws.sum ≠ 0)
    (hH : Spec.Agg.H ln (clampQ eps64 (1 - eps64) (wsum ws ts / ws.sum)) ≠ 0) :
    let u := bneUpdate ln exp fl xs ts (some ws)
    u = (wsum ws (if fl then List.zipWith (Spec.Agg.ceLogit ln exp) xs ts else List.zipWith (Spec.Agg.ce ln) xs ts),
         wsum ws ts, ws.sum) ∧
    bneCompute ln u.1 u.2.1 u.2.2 = .val (Spec.Agg.ne
      (if fl then List.zipWith (Spec.Agg.ceLogit ln exp) xs ts else List.zipWith (Spec.Agg.ce ln) xs ts) ws
      (Spec.Agg.H ln (clampQ eps64 (1 - eps64) (wsum ws ts / ws.sum)))) := by
  intro u
  have hu : u = (wsum ws (if fl then List.zipWith (Spec.Agg.ceLogit ln exp) xs ts else List.zipWith (Spec.Agg.ce ln) xs ts),
         wsum ws ts, ws.sum) := by
    simp only [u, bneUpdate, bce_sum ln exp fl xs ts ws hclamp, wsum]
  refine ⟨hu, ?_⟩
  rw [hu]
  simp only [bneCompute, hw, if_false, baseline_eq, xdiv_val _ _ hH, Spec.Agg.ne]

/-- without a weight tensor every example has weight one. -/
theorem bne_unweighted (ln exp : Q → Q) (fl : Bool) (xs ts : List Q) :
    bneUpdate ln exp fl xs ts none = bneUpdate ln exp fl xs ts (some (ts.map fun _ => 1)) := rfl

/-- no weight at all: `NaN` (the class returns an empty tensor instead). -/
theorem bne_zero_weight (ln : Q → Q) (ce pos : Q) : bneCompute ln ce pos 0 = .nan := by simp [bneCompute]

example : (bneUpdate (fun q => q - 1) (fun q => q) false [1/4, 1/2] [0, 1] (some [1, 2])).2 = (2, 3) := by decide +kernel
example : ∀ p ∈ ([1/4, 1/2] : List Q).zip [0, 1], (-100 : Q) ≤ (fun q => q - 1) p.1 ∧ (-100 : Q) ≤ (fun q : Q => q - 1) (1 - p.1) := by
  decide +kernel

/-! ## 10. perplexity -/

/-- **perplexity** (`exp`, `ln` arbitrary): with all counted labels inside the vocabulary, the
    state is `(−Σ ln softmax(row)[label], #tokens)` over the tokens whose label is not
    `ignore_index`; the argument of the final `exp` is their mean negative log-likelihood. -/
theorem perplexity_arg_eq (exp ln : Q → Q) (vocab : Nat) (rows : Mat) (tgt : List Int) (ignore : Option Int)
    (hv : ∀ p ∈ pplTokens rows tgt ignore, p.2 < (vocab : Int))
    (hn : pplTokens rows tgt ignore ≠ []) :
    let toks := (pplTokens rows tgt ignore).map fun p => (p.1, p.2.toNat)
    ∃ s n, pplUpdate exp ln vocab rows tgt ignore = .ok (s, n) ∧ n = (toks.length : Q) ∧
      pplArg s n = .val (Spec.Agg.meanNLL exp ln toks) ∧
      pplCompute exp s n = .val (exp (Spec.Agg.meanNLL exp ln toks)) := by
  intro toks
  have hany : (pplTokens rows tgt ignore).any (fun p => decide ((vocab : Int) ≤ p.2)) = false := by
    apply List.any_eq_false.mpr
    intro p hp
    have := hv p hp
    simp; omega
  have hl : ((pplTokens rows tgt ignore).length : Q) ≠ 0 := natCast_ne_zero (by simpa using hn)
  refine ⟨-(List.map (fun p => ln (softmaxAt exp p.1 p.2.toNat)) (pplTokens rows tgt ignore)).sum,
    ((pplTokens rows tgt ignore).length : Q), by simp only [pplUpdate, hany, Bool.false_eq_true, if_false],
    by simp [toks], ?_⟩
  have harg : pplArg (-(List.map (fun p => ln (softmaxAt exp p.1 p.2.toNat)) (pplTokens rows tgt ignore)).sum)
      ((pplTokens rows tgt ignore).length : Q) = .val (Spec.Agg.meanNLL exp ln toks) := by
    simp only [pplArg, xdiv_val _ _ hl, Spec.Agg.meanNLL, toks, List.map_map, List.length_map, Function.comp_def]
    rw [← sum_map_neg, List.map_map]
    rfl
  exact ⟨harg, by simp only [pplCompute, harg]⟩

/-- the counted tokens are exactly those whose label differs from `ignore_index`. -/
theorem perplexity_tokens (rows : Mat) (tgt : List Int) (ignore : Option Int) (p : List Q × Int) :
    p ∈ pplTokens rows tgt ignore ↔ p ∈ rows.zip tgt ∧ ignore ≠ some p.2 := by
  simp [pplTokens, List.mem_filter]

/-- a counted label outside the vocabulary is rejected. -/
theorem perplexity_rejects (exp ln : Q → Q) (vocab : Nat) (rows : Mat) (tgt : List Int) (ignore : Option Int)
    (p : List Q × Int) (hp : p ∈ pplTokens rows tgt ignore) (hv : (vocab : Int) ≤ p.2) :
    pplUpdate exp ln vocab rows tgt ignore = .error .value := by
  have : (pplTokens rows tgt ignore).any (fun p => decide ((vocab : Int) ≤ p.2)) = true :=
    List.any_eq_true.mpr ⟨p, hp, by simpa using hv⟩
  simp [pplUpdate, this]

/-- every token ignored: `0/0`, not a number (the class returns an empty tensor). -/
theorem perplexity_all_ignored (exp : Q → Q) : pplCompute exp 0 0 = .nan := by
  simp [pplCompute, pplArg, xdiv]

example : pplTokens [[0, 1, -1], [1, 1, 0]] [2, 1] (some 1) = [([0, 1, -1], 2)] := by decide +kernel

/-! ## 11. Throughput -/

/-- **throughput**: `num_processed / elapsed_time_sec`; negative counts and non-positive times are rejected. -/
theorem throughput_eq (num elapsed : Q) :
    (0 ≤ num → 0 < elapsed → throughputFn num elapsed = .ok (num / elapsed)) ∧
    (num < 0 ∨ elapsed ≤ 0 → throughputFn num elapsed = .error .value) := by
  refine ⟨fun h1 h2 => ?_, fun h => ?_⟩
  · have a : ¬ num < 0 := Rat.not_lt.mpr h1
    have b : ¬ elapsed ≤ 0 := Rat.not_le.mpr h2
    simp [throughputFn, a, b]
  · unfold throughputFn
    rcases h with h | h
    · simp [h]
    · by_cases h' : num < 0 <;> simp [h, h']

/-- the class over a stream of valid updates: `(Σ items, Σ seconds)`, i.e. items per second overall. -/
theorem throughput_stream_eq (bs : List (Q × Q)) (hb : ∀ b ∈ bs, 0 ≤ b.1 ∧ 0 < b.2) (s : Q × Q) :
    bs.foldlM (fun s b => thrUpd s b.1 b.2) s = .ok (s.1 + (bs.map (·.1)).sum, s.2 + (bs.map (·.2)).sum) := by
  induction bs generalizing s with
  | nil => simp [pure, Except.pure, Rat.add_zero]
  | cons b bs ih =>
    have hb0 := hb b (List.mem_cons_self ..)
    have a : ¬ b.1 < 0 := Rat.not_lt.mpr hb0.1
    have c : ¬ b.2 ≤ 0 := Rat.not_le.mpr hb0.2
    have hu : thrUpd s b.1 b.2 = .ok (s.1 + b.1, s.2 + b.2) := by simp [thrUpd, a, c]
    rw [List.foldlM_cons, hu]
    simp only [bind, Except.bind]
    rw [ih (fun b' hb' => hb b' (List.mem_cons_of_mem _ hb'))]
    simp only [List.map_cons, List.sum_cons, Except.ok.injEq, Prod.mk.injEq]
    constructor <;> grind

theorem throughput_compute_eq (items elapsed : List Q) (h : elapsed.sum ≠ 0) :
    thrOut (items.sum, elapsed.sum) = Spec.Agg.throughput items elapsed := by
  simp [thrOut, h, Spec.Agg.throughput]

/-- `merge_state`: counts add, the elapsed time becomes the **maximum** over target and sources
    (the documented "slowest shard" convention — deliberately not the sum). -/
theorem throughput_merge_eq (s : Q × Q) (ss : List (Q × Q)) :
    (thrMrg s ss).1 = s.1 + (ss.map (·.1)).sum ∧ IsMax (s.2 :: ss.map (·.2)) (thrMrg s ss).2 := by
  have key : thrMrg s ss = (s.1 + (ss.map (·.1)).sum, (ss.map (·.2)).foldl qmax s.2) := by
    unfold thrMrg
    induction ss generalizing s with
    | nil => simp [Rat.add_zero]
    | cons m ss ih => simp only [List.foldl_cons, List.map_cons, List.sum_cons, ih]; ext <;> simp <;> grind
  rw [key]
  exact ⟨rfl, foldl_pick_mem qmax qmax_sel _ _,
    foldl_pick_bound qmax (· ≤ ·) (fun _ => Rat.le_refl) (fun _ _ _ => Rat.le_trans) qmax_ub _ _⟩

example : (([(3, 2), (5, 1/2)] : List (Q × Q)).foldlM (fun s b => thrUpd s b.1 b.2) (0, 0)).toOption = some (8, 5/2) := by
  decide +kernel
example : ∀ b ∈ ([(3, 2), (5, 1/2)] : List (Q × Q)), 0 ≤ b.1 ∧ 0 < b.2 := by decide +kernel
example : thrMrg (3, 2) [(5, 4), (1, 1)] = (9, 4) := by decide +kernel

/-! ## 8. PSNR (argument of `log10`) -/

/-- **PSNR, given `data_range = r > 0`**: the argument of `10·log10` is `r² / MSE`. -/
theorem psnr_arg_eq (xs ts : List Q) (r : Q) (hr : 0 < r) (hn : ts ≠ [])
    (hs : (psnrUpdate xs ts).1 ≠ 0) :
    psnrFn xs ts (some r) = .ok (.val (Spec.Agg.psnrRatio r xs ts)) := by
  have a : ¬ r ≤ 0 := Rat.not_le.mpr hr
  have hl : (ts.length : Q) ≠ 0 := natCast_ne_zero (by simpa using hn)
  simp only [psnrFn, a, if_false]
  simp only [psnrUpdate] at hs ⊢
  rw [psnrArg_val _ _ _ hl hs]; rfl

/-- **PSNR, `data_range = None`**: the range is `max(target) − min(target)`. -/
theorem psnr_arg_auto_eq (xs ts : List Q) (hi lo : Q) (hhi : IsMax ts hi) (hlo : IsMin ts lo)
    (hs : (psnrUpdate xs ts).1 ≠ 0) :
    psnrFn xs ts none = .ok (.val (Spec.Agg.psnrRatio (hi - lo) xs ts)) := by
  have hne : ts ≠ [] := by intro e; rw [e] at hhi; exact absurd hhi.1 (by simp)
  obtain ⟨m, hm⟩ := (max_defined_iff qmax ts).mpr hne
  obtain ⟨k, hk⟩ := (max_defined_iff qmin ts).mpr hne
  have e1 : m = hi := isMax_unique (reduce_max ts m hm) hhi
  have e2 : k = lo := isMin_unique (reduce_min ts k hk) hlo
  have hl : (ts.length : Q) ≠ 0 := natCast_ne_zero (by simpa using hne)
  simp only [psnrFn, hm, hk, e1, e2]
  simp only [psnrUpdate] at hs ⊢
  rw [psnrArg_val _ _ _ hl hs]; rfl

/-- identical images: `MSE = 0`, the argument is `+inf` (PSNR `inf`) for a positive range. -/
theorem psnr_identical (n r : Q) (hn : n ≠ 0) (hr : 0 < r) : psnrArg 0 n (.val r) = .pinf := by
  have hp : 0 < r * r := Rat.mul_pos hr hr
  have hne : r * r ≠ 0 := by grind
  have h0 : (0 : Q) / n = 0 := by grind
  simp [psnrArg, xmul, xdivX, xdiv, hn, h0, hp, hne]

/-- non-positive `data_range` is rejected; an empty target with `data_range=None` raises in `torch.max`. -/
theorem psnr_rejects (xs ts : List Q) (r : Q) (hr : r ≤ 0) :
    psnrFn xs ts (some r) = .error .value ∧ psnrFn xs [] none = .error .runtime := by
  simp [psnrFn, hr, reduceBy]

example : (psnrFn [1, 2, 3, 4] [1, 2, 3, 6] none).toOption = some (.val 25) := by decide +kernel
example : IsMax [1, 2, 3, 6] 6 ∧ IsMin [1, 2, 3, 6] 1 ∧ (psnrUpdate [1, 2, 3, 4] [1, 2, 3, 6]).1 ≠ 0 := by
  refine ⟨max_eq _ _ (by decide +kernel), min_eq _ _ (by decide +kernel), by decide +kernel⟩

/-! ## 12. Fréchet audio distance: moment bookkeeping -/

/-- the partial sums `(n, Σe, ΣeᵀE)` are additive over batches / merges … -/
theorem fad_partial_sums_additive (d : Nat) (A B : Mat) :
    fadAdd (fadBatch d A) (fadBatch d B) = fadBatch d (A ++ B) := fadBatch_append d A B

theorem fad_stream_eq (d : Nat) (bs : List Mat) :
    bs.foldl (fun s b => fadAdd s (fadBatch d b)) (fadBatch d []) = fadBatch d bs.flatten := by
  suffices ∀ P : Mat, bs.foldl (fun s b => fadAdd s (fadBatch d b)) (fadBatch d P) = fadBatch d (P ++ bs.flatten) by
    simpa using this []
  induction bs with
  | nil => intro P; simp
  | cons b bs ih => intro P; simp only [List.foldl_cons, fadBatch_append, ih, List.flatten_cons, List.append_assoc]

/-- … and **`compute`'s moments are the definition**: for `n ≥ 2` embeddings, `Σe/n` is the sample
    mean and `ΣeᵀE/(n−1) − μᵀμ·n/(n−1)` the unbiased sample covariance. -/
theorem fad_moments_eq (d : Nat) (rows : Mat) (hn : 2 ≤ rows.length) :
    fadMoments (fadBatch d rows) =
      ((List.range d).map fun j => Spec.Agg.mean (col j rows),
       (List.range d).map fun i => (List.range d).map fun j => Spec.Agg.cov (col i rows) (col j rows)) := by
  have h0 : rows.length ≠ 0 := by omega
  have hq : (rows.length : Q) ≠ 0 := natCast_ne_zero h0
  have h1 : (rows.length : Q) - 1 ≠ 0 := by
    have : (2 : Q) ≤ (rows.length : Q) := by exact_mod_cast hn
    grind
  simp only [fadMoments, fadBatch, List.map_map, zipWith_map_same, Prod.mk.injEq]
  refine ⟨?_, ?_⟩
  · apply List.map_congr_left; intro j _
    simp [Spec.Agg.mean, col_length]
  · apply List.map_congr_left; intro i _
    apply List.map_congr_left; intro j _
    simp only [Function.comp_apply, Spec.Agg.cov, scatter_raw (col i rows) (col j rows) (by simp [col_length]) (by simpa [col_length] using h0),
      col_length]
    grind

example : fadMoments ([[[1, 2]], [[3, 5], [0, 1]]].foldl (fun s b => fadAdd s (fadBatch 2 b)) (fadBatch 2 []))
    = ([4/3, 8/3], [[7/3, 19/6], [19/6, 13/3]]) := by decide +kernel

end TE.C07
