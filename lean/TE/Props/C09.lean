/-
  C09 — checkpoint / pickle / clone reproduce a metric's present and future behaviour.
  Generic: if no operation writes an unregistered attribute, a restored object is
  *equal* to the original, hence bisimilar under every continuation; copies of the
  whole object (pickle, deepcopy, clone_metric) are equal unconditionally.
  Per class: the premise is decided over the regenerated attribute table
  `TE.Gen.classAttrs` (translator: harness/translators/states.py).
-/
import TE.Model.Obj
import TE.Gen.States
namespace TE.C09
open TE

variable {R U Op Out : Type}

theorem run_unreg (sem : ObjSem R U Op Out) (hf : FrozenUnreg sem) (o : Obj R U) (ops : List Op) :
    (sem.run o ops).unreg = o.unreg := by
  induction ops generalizing o with
  | nil => rfl
  | cons op ops ih => simp [ObjSem.run, ih, hf o op]

/-- **restore bisimulation**: checkpoint at any point of any history, restore into
    a fresh instance, then any continuation gives the same outputs. -/
theorem restore_bisim (sem : ObjSem R U Op Out) (hf : FrozenUnreg sem) (fresh : Obj R U)
    (history cont : List Op) :
    sem.outputs (restore (sem.run fresh history) fresh) cont = sem.outputs (sem.run fresh history) cont := by
  have h : restore (sem.run fresh history) fresh = sem.run fresh history := by
    have := run_unreg sem hf fresh history
    cases hs : sem.run fresh history with
    | mk r u => simp [restore, hs] at this ⊢; exact this.symm
  rw [h]

/-- whole-object copies (pickle, deepcopy, clone_metric) need no premise. -/
theorem clone_bisim (sem : ObjSem R U Op Out) (o : Obj R U) (cont : List Op) :
    sem.outputs (Obj.mk o.reg o.unreg) cont = sem.outputs o cont := rfl

/-- a restore that loses a written unregistered attribute is observable: witness
    semantics (a 2-slot ring buffer whose cursor is unregistered). -/
def ringSem : ObjSem (List Nat) Nat Nat (List Nat) where
  step o x := (⟨o.reg.set (o.unreg % 2) x, o.unreg + 1⟩, o.reg.set (o.unreg % 2) x)

theorem restore_loses_cursor_witness :
    ringSem.outputs (restore (ringSem.run ⟨[0, 0], 0⟩ [7]) ⟨[0, 0], 0⟩) [9]
      ≠ ringSem.outputs (ringSem.run ⟨[0, 0], 0⟩ [7]) [9] := by decide

/-! ### per-class obligations over the generated table -/

def restoreSafe (c : Gen.ClassAttrs) : Bool :=
  c.writtenAfterInit.all fun a => c.registered.contains a

def resetSafe (c : Gen.ClassAttrs) : Bool :=
  c.writtenAfterInit.all fun a => c.registered.contains a || c.resetWrites.contains a

/-- every class except the five windowed ones keeps all post-construction writes in
    registered states (so `restore_bisim` applies); the windowed classes write the
    plain attribute `next_inserted` — the recorded finding C09|…|load_state_dict. -/
theorem restoreSafe_table :
    (Gen.classAttrs.filter fun c => !restoreSafe c).map (·.name) =
      ["WindowedClickThroughRate", "WindowedWeightedCalibration", "WindowedBinaryNormalizedEntropy",
       "WindowedMeanSquaredError", "WindowedBinaryAUROC"] := by decide +kernel

theorem window_unsafe_attr :
    ∀ c ∈ Gen.classAttrs, restoreSafe c = false →
      c.writtenAfterInit.filter (fun a => !c.registered.contains a) = ["next_inserted"] := by decide +kernel

/-- C10's generated obligation: every plain attribute written after construction is
    re-initialised by the class's `reset()` override. -/
theorem resetSafe_table : Gen.classAttrs.all resetSafe = true := by decide +kernel

example : (Gen.classAttrs.length ≥ 60) := by decide +kernel

end TE.C09
