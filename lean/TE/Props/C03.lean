/-
  C03 — class metric = functional metric on the concatenated data.
  The functional of a family is `stat >=> outA`, the class is
  `additive M stat outA` (exactly what the driver runs for both request kinds),
  so the statement is `C12.class_eq_functional` + the per-class `StatCat`.
  Constructor defaults: see the generated table in TE/Gen/Defaults.lean.
-/
import TE.Props.C12
namespace TE.C03
open TE

variable {B O A : Type}

/-- class fed any non-empty batching of valid batches = functional applied once to
    the concatenation (same parameters: they are baked into `stat`/`outA`). -/
theorem class_eq_functional_on_concat (M : Acc A) (L : Laws M) (stat : B → Except Err A)
    (outA : A → Except Err O) (catB : List B → B) (hc : C12.StatCat M stat catB)
    (bs : List B) (hne : bs ≠ []) (hv : ∀ b ∈ bs, ∃ a, stat b = .ok a) (s : A)
    (h : eval (additive M stat outA) (single bs) = .ok s) :
    (additive M stat outA).out s = (stat (catB bs) >>= outA) :=
  C12.class_eq_functional M L stat outA catB hc bs hne hv s h

/-- cache-all classes: `stat` returns the batch's samples, the functional is
    `outA` of the samples; class = functional of the concatenation, definitionally
    after flattening. -/
theorem cacheall_class_eq_functional {α : Type} (stat : B → Except Err (List α))
    (outA : List α → Except Err O) (bs : List B) (s : List α)
    (h : eval (additive (listAcc α) stat outA) (single bs) = .ok s) :
    (additive (listAcc α) stat outA).out s = outA ((bs.map (statT (listAcc α) stat)).flatten) := by
  have r := (refines (additive_sim (listAcc α) stat outA) (listAcc_laws α) _ s h).2
  simp only [id, flatten_single, accL_listAcc] at r
  rw [r]; rfl

/-! ## the typed metric families (TE/Model/Fams.lean)

  `FamStat.ClassEqFunctional M stat catB` (TE/Lemmas/FamStat.lean) says, for EVERY `outA`
  (`_compute` + presentation): for every non-empty list `bs` of batches that pass validation,
  the class fed `bs` batch by batch runs without error and its `compute()` equals the
  functional `stat >=> outA` applied once to the concatenation `catB bs` — including the
  cases where the functional is an error or NaN (`outA` is arbitrary). -/
open TE.Fams

/-- total form of `class_eq_functional_on_concat`: the class run succeeds, too. -/
theorem class_eq_functional_total (M : Acc A) {stat : B → Except Err A} {catB : List B → B}
    (hc : C12.StatCat M stat catB) : FamStat.ClassEqFunctional M stat catB :=
  FamStat.classEq_of_statCat M hc

/-- BinaryAccuracy. -/
theorem C03_class_eq_functional_binaryAccuracy (thr : Q) :
    FamStat.ClassEqFunctional partsAcc (binaryAccuracyStat thr) catPair :=
  class_eq_functional_total partsAcc (FamStat.statCat_binaryAccuracy thr)

/-- MulticlassAccuracy (k = 1; every average, predictions = labels or arg-max of logits). -/
theorem C03_class_eq_functional_mcAccuracy (avg : Count.Avg) (C : Nat) :
    FamStat.ClassEqFunctional partsAcc (mcAccuracyStat avg C) catPair :=
  class_eq_functional_total partsAcc (FamStat.statCat_mcAccuracy avg C)

/-- MulticlassAccuracy (top-k on logit rows of width W; every average). -/
theorem C03_class_eq_functional_mcAccuracyTopk (avg : Count.Avg) (C k W : Nat) :
    FamStat.ClassEqFunctional partsAcc (mcAccuracyTopkStat avg C k W) catPair :=
  class_eq_functional_total partsAcc (FamStat.statCat_mcAccuracyTopk avg C k W)

/-- MultilabelAccuracy (every criterion). -/
theorem C03_class_eq_functional_multilabelAccuracy (thr : Q) (crit : Count.Crit) :
    FamStat.ClassEqFunctional partsAcc (multilabelAccuracyStat thr crit) catPair :=
  class_eq_functional_total partsAcc (FamStat.statCat_multilabelAccuracy thr crit)

/-- TopKMultilabelAccuracy (every criterion). -/
theorem C03_class_eq_functional_topkMultilabel (crit : Count.Crit) (k : Nat) :
    FamStat.ClassEqFunctional partsAcc (topkMultilabelStat crit k) catPair :=
  class_eq_functional_total partsAcc (FamStat.statCat_topkMultilabel crit k)

/-- BinaryPrecision. -/
theorem C03_class_eq_functional_binaryPrecision (thr : Q) :
    FamStat.ClassEqFunctional partsAcc (binaryPrecisionStat thr) catPair :=
  class_eq_functional_total partsAcc (FamStat.statCat_binaryPrecision thr)

/-- BinaryRecall. -/
theorem C03_class_eq_functional_binaryRecall (thr : Q) :
    FamStat.ClassEqFunctional partsAcc (binaryRecallStat thr) catPair :=
  class_eq_functional_total partsAcc (FamStat.statCat_binaryRecall thr)

/-- BinaryF1Score. -/
theorem C03_class_eq_functional_binaryF1 (thr : Q) :
    FamStat.ClassEqFunctional partsAcc (binaryF1Stat thr) catPair :=
  class_eq_functional_total partsAcc (FamStat.statCat_binaryF1 thr)

/-- MulticlassPrecision (every average). -/
theorem C03_class_eq_functional_mcPrecision (avg : Count.Avg) (C : Nat) :
    FamStat.ClassEqFunctional partsAcc (mcPrecisionStat avg C) catPair :=
  class_eq_functional_total partsAcc (FamStat.statCat_mcPrecision avg C)

/-- MulticlassRecall and MulticlassF1Score (same `_update`; every average). -/
theorem C03_class_eq_functional_mcRecall (avg : Count.Avg) (C : Nat) :
    FamStat.ClassEqFunctional partsAcc (mcRecallStat avg C) catPair :=
  class_eq_functional_total partsAcc (FamStat.statCat_mcRecall avg C)

/-- MulticlassConfusionMatrix. -/
theorem C03_class_eq_functional_confusion (C : Nat) (checkP checkL : Bool) :
    FamStat.ClassEqFunctional partsAcc (confusionStat C checkP checkL) catPair :=
  class_eq_functional_total partsAcc (FamStat.statCat_confusion C checkP checkL)

/-- BinaryConfusionMatrix. -/
theorem C03_class_eq_functional_binaryConfusion (thr : Q) :
    FamStat.ClassEqFunctional partsAcc (binaryConfusionStat thr) catPair :=
  class_eq_functional_total partsAcc (FamStat.statCat_binaryConfusion thr)

/-- Mean (scalar or per-sample weights). -/
theorem C03_class_eq_functional_mean :
    FamStat.ClassEqFunctional partsAcc (meanStat) catWeighted :=
  class_eq_functional_total partsAcc (FamStat.statCat_mean)

/-- Sum (scalar or per-sample weights). -/
theorem C03_class_eq_functional_sum :
    FamStat.ClassEqFunctional partsAcc (sumStat) catWeighted :=
  class_eq_functional_total partsAcc (FamStat.statCat_sum)

/-- MeanSquaredError, streams of one arity d (all 1-D, or all (n, d)); optional sample weights. -/
theorem C03_class_eq_functional_mse (d : Nat) :
    FamStat.ClassEqFunctional partsAcc (mseStat d) (catCols d) :=
  class_eq_functional_total partsAcc (FamStat.statCat_mse d)

/-- R2Score, streams of one arity d. -/
theorem C03_class_eq_functional_r2 (d : Nat) :
    FamStat.ClassEqFunctional partsAcc (r2Stat d) (catCols d) :=
  class_eq_functional_total partsAcc (FamStat.statCat_r2 d)

/-- BinaryNormalizedEntropy (`ln`, `exp` parameters; per task row). -/
theorem C03_class_eq_functional_bne (ln exp : Q → Q) (fl : Bool) (nt : Nat) :
    FamStat.ClassEqFunctional partsAcc (bneStat ln exp fl nt) (catTasks nt) :=
  class_eq_functional_total partsAcc (FamStat.statCat_bne ln exp fl nt)

/-- Perplexity (`exp`, `ln` parameters). -/
theorem C03_class_eq_functional_ppl (exp ln : Q → Q) (v : Nat) (ignore : Option Int) :
    FamStat.ClassEqFunctional partsAcc (pplStat exp ln v ignore) catPair :=
  class_eq_functional_total partsAcc (FamStat.statCat_ppl exp ln v ignore)

/-- the additive part of PeakSignalNoiseRatio (squared error, count). -/
theorem C03_class_eq_functional_psnr :
    FamStat.ClassEqFunctional partsAcc (psnrStat) catPair :=
  class_eq_functional_total partsAcc (FamStat.statCat_psnr)

/-- ClickThroughRate (per task row; scalar or tensor weights). -/
theorem C03_class_eq_functional_ctr (nt : Nat) :
    FamStat.ClassEqFunctional partsAcc (ctrStat nt) (catCtr nt) :=
  class_eq_functional_total partsAcc (FamStat.statCat_ctr nt)

/-- WeightedCalibration (per task row; scalar or tensor weights). -/
theorem C03_class_eq_functional_wc (nt : Nat) :
    FamStat.ClassEqFunctional partsAcc (wcStat nt) (catWc nt) :=
  class_eq_functional_total partsAcc (FamStat.statCat_wc nt)

/-- BinaryBinnedPrecisionRecallCurve counts (any threshold list). -/
theorem C03_class_eq_functional_binaryBinned (t : List Q) :
    FamStat.ClassEqFunctional partsAcc (binaryBinnedStat t) catPair :=
  class_eq_functional_total partsAcc (FamStat.statCat_binaryBinned t)

/-- MulticlassBinnedPrecisionRecallCurve / MulticlassBinnedAUPRC counts (both optimisations). -/
theorem C03_class_eq_functional_mcBinned (t : List Q) (opt : Binned.Opt) (W : Nat) :
    FamStat.ClassEqFunctional partsAcc (mcBinnedStat t opt W) catPair :=
  class_eq_functional_total partsAcc (FamStat.statCat_mcBinned t opt W)

/-- MultilabelBinnedPrecisionRecallCurve / MultilabelBinnedAUPRC counts (both optimisations). -/
theorem C03_class_eq_functional_mlBinned (t : List Q) (opt : Binned.Opt) (L : Nat) :
    FamStat.ClassEqFunctional partsAcc (mlBinnedStat t opt L) catPair :=
  class_eq_functional_total partsAcc (FamStat.statCat_mlBinned t opt L)

/-- BinaryBinnedAUPRC counts (per task row). -/
theorem C03_class_eq_functional_binaryBinnedAuprc (t : List Q) (nt : Nat) :
    FamStat.ClassEqFunctional partsAcc (binaryBinnedAuprcStat t nt) (catTaskPairs nt) :=
  class_eq_functional_total partsAcc (FamStat.statCat_binaryBinnedAuprc t nt)

/-- WordErrorRate. -/
theorem C03_class_eq_functional_wer {α : Type} [DecidableEq α] :
    FamStat.ClassEqFunctional partsAcc (werStat (α := α)) catPair :=
  class_eq_functional_total partsAcc (FamStat.statCat_wer)

/-- WordInformationPreserved. -/
theorem C03_class_eq_functional_wip {α : Type} [DecidableEq α] :
    FamStat.ClassEqFunctional partsAcc (wipStat (α := α)) catPair :=
  class_eq_functional_total partsAcc (FamStat.statCat_wip)

/-- WordInformationLost. -/
theorem C03_class_eq_functional_wil {α : Type} [DecidableEq α] :
    FamStat.ClassEqFunctional partsAcc (wilStat (α := α)) catPair :=
  class_eq_functional_total partsAcc (FamStat.statCat_wil)

/-- BLEUScore statistics (n-gram order N). -/
theorem C03_class_eq_functional_bleu {α : Type} [DecidableEq α] (N : Nat) :
    FamStat.ClassEqFunctional partsAcc (bleuStat (α := α) N) catPair :=
  class_eq_functional_total partsAcc (FamStat.statCat_bleu N)

/-- cache of (score, target) samples: BinaryAUROC, BinaryAUPRC, BinaryPrecisionRecallCurve, BinaryRecallAtFixedPrecision, a task row of BinaryBinnedAUROC, AUC points. -/
theorem C03_class_eq_functional_pairSamples {α β : Type} :
    FamStat.ClassEqFunctional (listAcc (α × β)) (pairSamples (α := α) (β := β)) catPair :=
  class_eq_functional_total (listAcc (α × β)) (FamStat.statCat_pairSamples)

/-- cache of (score, target, weight) samples: weighted BinaryAUROC, Wasserstein1D. -/
theorem C03_class_eq_functional_tripleSamples {α β γ : Type} :
    FamStat.ClassEqFunctional (listAcc (α × β × γ)) (tripleSamples (α := α) (β := β) (γ := γ)) catTriple :=
  class_eq_functional_total (listAcc (α × β × γ)) (FamStat.statCat_tripleSamples)

/-- cache of (row, label / target row) samples: Multiclass/Multilabel AUROC, AUPRC, PR curves, recall@precision, MulticlassBinnedAUROC. -/
theorem C03_class_eq_functional_rowSamples {β : Type} :
    FamStat.ClassEqFunctional (listAcc (List Q × β)) (rowSamples (β := β)) catPair :=
  class_eq_functional_total (listAcc (List Q × β)) (FamStat.statCat_rowSamples)

/-- Cat. -/
theorem C03_class_eq_functional_catSamples {α : Type} :
    FamStat.ClassEqFunctional (listAcc α) (catSamples (α := α)) List.flatten :=
  class_eq_functional_total (listAcc α) (FamStat.statCat_catSamples)

/-- HitRate (per-sample values in update order). -/
theorem C03_class_eq_functional_hitRate (C : Nat) (k : Option Int) :
    FamStat.ClassEqFunctional (listAcc Q) (hitRateStat C k) catPair :=
  class_eq_functional_total (listAcc Q) (FamStat.statCat_hitRate C k)

/-- ReciprocalRank (per-sample values in update order). -/
theorem C03_class_eq_functional_reciprocalRank (k : Option Int) :
    FamStat.ClassEqFunctional (listAcc Q) (reciprocalRankStat k) catPair :=
  class_eq_functional_total (listAcc Q) (FamStat.statCat_reciprocalRank k)

/-- non-vacuity: BinaryAccuracy fed batches of sizes 3, 1, 2 = `binary_accuracy` of the six samples. -/
example :
    let bs : List (List Q × List Q) := [([3/4, 1/4, 1/2], [1, 0, 0]), ([1/8], [1]), ([1, 0], [1, 1])]
    let outA : Parts → Except Err XQ := fun p => .ok (xdiv (part0 p 0) (part0 p 1))
    bs ≠ [] ∧ (∀ b ∈ bs, ∃ a, binaryAccuracyStat (1/2) b = .ok a) ∧
      (eval (additive partsAcc (binaryAccuracyStat (1/2)) outA) (single bs)).toOption.bind
          (fun s => (outA s).toOption) = some (.val (1/2)) ∧
      (binaryAccuracyStat (1/2) (catPair bs) >>= outA).toOption = some (.val (1/2)) := by
  intro bs outA
  exact ⟨by decide, FamStat.valid_of_all _ _ (by decide +kernel), by decide +kernel, by decide +kernel⟩

/-- non-vacuity: MeanSquaredError on two (n, 2) batches, the second one weighted. -/
example :
    let bs : List ColBatch := [⟨[[1, 2], [0, 1]], [[1, 1], [1, 1]], 2, none⟩, ⟨[[3], [3]], [[1], [2]], 1, some [2]⟩]
    let outA : Parts → Except Err (List XQ) := fun p => .ok (Agg.mseCompute false (p.getD 0 []) (part0 p 1))
    (∀ b ∈ bs, ∃ a, mseStat 2 b = .ok a) ∧
      (eval (additive partsAcc (mseStat 2) outA) (single bs)).toOption.bind
          (fun s => (outA s).toOption) = some [.val (9/4), .val (3/4)] ∧
      (mseStat 2 (catCols 2 bs) >>= outA).toOption = some [.val (9/4), .val (3/4)] := by
  intro bs outA
  exact ⟨FamStat.valid_of_all _ _ (by decide +kernel), by decide +kernel, by decide +kernel⟩

end TE.C03

/-! ## class level: the cache-all classes (TE/Model/FamsCache.lean)

  `FamCache.ClassEqFn f cat`: for every non-empty stream `bs` of batches that pass validation, the
  class `f.cls` (the typed object the driver pack runs) fed `bs` batch by batch runs without error and
  its `compute()` equals the functional `f.fn = stat >=> out` applied once to the concatenation
  `cat bs` — errors of the functional included.  `FamCache.*_fn_eq` (TE/Lemmas/FamCacheCurve.lean)
  identify `f.fn` on a batch with the model functional of TE/Model/Curve.lean on the batch's tensors. -/
namespace TE.C03
open TE TE.Fams TE.FamCache

/-- BinaryAUROC (any `num_tasks`, weights); a batch is the list of its sample columns. -/
theorem C03_class_eq_functional_BinaryAUROC (nt : Nat) : ClassEqFn (binaryAurocC nt) List.flatten :=
  classEqFn_of_statCat _ FamStat.statCat_catSamples

/-- MulticlassAUROC (every average). -/
theorem C03_class_eq_functional_MulticlassAUROC (nc : Nat) (avg : Curve.Avg) :
    ClassEqFn (multiclassAurocC nc avg) catPair :=
  classEqFn_of_statCat _ FamStat.statCat_rowSamples

/-- BinaryAUPRC (any `num_tasks`). -/
theorem C03_class_eq_functional_BinaryAUPRC (nt : Nat) : ClassEqFn (binaryAuprcC nt) List.flatten :=
  classEqFn_of_statCat _ FamStat.statCat_catSamples

/-- MulticlassAUPRC (every average). -/
theorem C03_class_eq_functional_MulticlassAUPRC (nc : Nat) (avg : Curve.Avg) :
    ClassEqFn (multiclassAuprcC nc avg) catPair :=
  classEqFn_of_statCat _ FamStat.statCat_rowSamples

/-- MultilabelAUPRC (every average). -/
theorem C03_class_eq_functional_MultilabelAUPRC (nl : Nat) (avg : Curve.Avg) :
    ClassEqFn (multilabelAuprcC nl avg) catPair :=
  classEqFn_of_statCat _ FamStat.statCat_rowSamples

/-- BinaryPrecisionRecallCurve. -/
theorem C03_class_eq_functional_BinaryPrecisionRecallCurve : ClassEqFn binaryPrCurveC catPair :=
  classEqFn_of_statCat _ FamStat.statCat_pairSamples

/-- MulticlassPrecisionRecallCurve (`num_classes` given or `None`).  (Short name: the audit's parser of
    `#print axioms` needs the report on one 120-column line.) -/
theorem C03_class_eq_functional_MulticlassPRCurve (nc0 : Option Nat) :
    ClassEqFn (multiclassPrCurveC nc0) catPair :=
  classEqFn_of_statCat _ FamStat.statCat_rowSamples

/-- MultilabelPrecisionRecallCurve. -/
theorem C03_class_eq_functional_MultilabelPRCurve (nl : Nat) :
    ClassEqFn (multilabelPrCurveC nl) catPair :=
  classEqFn_of_statCat _ FamStat.statCat_rowSamples

/-- BinaryRecallAtFixedPrecision. -/
theorem C03_class_eq_functional_BinaryRecallAtFixedPrecision (p : Q) :
    ClassEqFn (binaryRecallAtPrecisionC p) catPair :=
  classEqFn_of_statCat _ FamStat.statCat_pairSamples

/-- MultilabelRecallAtFixedPrecision. -/
theorem C03_class_eq_functional_MultilabelRecallAtPrecision (p : Q) (nl : Nat) :
    ClassEqFn (multilabelRecallAtPrecisionC p nl) catPair :=
  classEqFn_of_statCat _ FamStat.statCat_rowSamples

/-- AUC (both `reorder` settings, any `n_tasks`). -/
theorem C03_class_eq_functional_AUC (reorder : Bool) (nt : Nat) : ClassEqFn (aucC reorder nt) List.flatten :=
  classEqFn_of_statCat _ FamStat.statCat_catSamples

/-- BinaryBinnedAUROC: on a non-empty cache the class computes `binary_binned_auroc` of the
    concatenation (the functional itself accepts an empty batch; the class raises in `torch.cat`). -/
theorem C03_class_eq_functional_BinaryBinnedAUROC (t : List Q) (nt : Nat) (bs : List (List TaskPair))
    (hne : bs.flatten ≠ []) :
    ∃ s, eval (binaryBinnedAurocL t nt).cls (single bs) = .ok s ∧
      (binaryBinnedAurocL t nt).cls.out s = binaryBinnedAurocFn t nt bs.flatten := by
  refine ⟨_, eval_single_lcls _ bs (valid_catSamples bs), ?_⟩
  show (binaryBinnedAurocL t nt).outA (samplesOf (catSamples (α := TaskPair)) bs) = _
  rw [samplesOf_catSamples]
  exact binaryBinnedAuroc_out_eq_fn t nt _ hne

/-- MulticlassBinnedAUROC (as it is: one value per cached sample, `C06.multiclass_binned_auroc_witness`):
    on a non-empty cache the class computes `multiclass_binned_auroc` of the concatenation. -/
theorem C03_class_eq_functional_MulticlassBinnedAUROC (t : List Q) (C : Nat) (bs : List (Mat × List Nat))
    (hne : bs ≠ []) (hv : Valid (rowSamples (β := Nat)) bs) (hdata : (catPair bs).1 ≠ []) :
    ∃ s, eval (mcBinnedAurocL t C).cls (single bs) = .ok s ∧
      (mcBinnedAurocL t C).cls.out s = mcBinnedAurocFn t C (catPair bs) := by
  obtain ⟨s, h1, h2⟩ := FamStat.classEq_of_statCat (listAcc (List Q × Nat)) (FamStat.statCat_rowSamples (β := Nat))
    (mcBinnedAurocL t C).outA bs hne hv
  refine ⟨s, h1, ?_⟩
  have hl : (catPair bs).1.length = (catPair bs).2.length :=
    FamStat.catPair_lengths bs fun b hb => (pairSamples_ok_iff b).mp (hv b hb)
  rw [← mcBinnedAuroc_out_eq_fn t C (catPair bs) hl hdata]
  exact h2

/-- Wasserstein1D: the class fed any non-empty valid stream computes `wasserstein_1d` of the concatenated
    samples and weights (missing weights are ones). -/
theorem C03_class_eq_functional_Wasserstein1D (bs : List WBatch) (hne : bs ≠ []) (hv : WValid bs) :
    ∃ s, eval wassCls (single bs) = .ok s ∧
      wassCls.out s = Agg.wasserstein (catW bs).x (catW bs).y (catW bs).xw (catW bs).yw := by
  obtain ⟨s, h1, h2⟩ := FamStat.classEq_of_statCat (pairAcc (Q × Q) (Q × Q)) statCat_wass wassOut bs hne hv
  exact ⟨s, h1, by rw [← wassFn_eq_functional]; exact h2⟩

/-- PeakSignalNoiseRatio(data_range=None): the class fed a stream with at least one target element
    computes the functional (up to `10·log10`) on the concatenation. -/
theorem C03_class_eq_functional_PSNR_auto (bs : List (List Q × List Q)) (s : Agg.PsnrS)
    (he : eval (psnrCls none) (single bs) = .ok s) (hne : psnrTargets bs ≠ []) :
    (psnrCls none).out s = Agg.psnrFn (psnrInputs bs) (psnrTargets bs) none := by
  have := psnr_merge_tree_auto (single bs) s he (by simpa [flatten_single] using hne)
  simpa [flatten_single] using this

/-- PeakSignalNoiseRatio(data_range = r > 0). -/
theorem C03_class_eq_functional_PSNR_fixed (r : Q) (hr : 0 < r) (bs : List (List Q × List Q)) (s : Agg.PsnrS)
    (he : eval (psnrCls (some r)) (single bs) = .ok s) :
    (psnrCls (some r)).out s = Agg.psnrFn (psnrInputs bs) (psnrTargets bs) (some r) := by
  have := psnr_merge_tree_fixed r hr (single bs) s he
  simpa [flatten_single] using this

/-! ### non-vacuity -/

/-- BinaryPrecisionRecallCurve fed batches of sizes 3, 1, 2: the state is the six samples, and `compute()`
    is `binary_precision_recall_curve` of the concatenated tensors. -/
example :
    let bs : List (List Q × List Q) := [([3/4, 1/4, 1/2], [1, 0, 0]), ([1/8], [1]), ([1, 0], [1, 1])]
    bs ≠ [] ∧ Valid pairSamples bs ∧
      (eval binaryPrCurveC.cls (single bs)).toOption
        = some (true, [(3/4, 1), (1/4, 0), (1/2, 0), (1/8, 1), (1, 1), (0, 1)]) ∧
      binaryPrCurveC.fn (catPair bs) = Curve.binaryPrCurve [3/4, 1/4, 1/2, 1/8, 1, 0] [1, 0, 0, 1, 1, 1] := by
  intro bs
  exact ⟨by decide, valid_of_all' _ _ (by decide +kernel), by decide +kernel,
    binaryPrCurveC_fn_eq (catPair bs) (by decide)⟩

/-- BinaryAUROC with two tasks: the typed functional on the columns of `(2, 3)` tensors is `binary_auroc`
    on their rows. -/
example :
    (binaryAurocC 2).fn (taskSamplesOf 3 [[1/2, 1/4, 3/4], [0, 1, 1/2]] [[1, 0, 1], [0, 1, 1]] [[1, 1, 1], [1, 2, 1]])
      = Curve.binaryAurocTasks ([[1/2, 1/4, 3/4], [0, 1, 1/2]].zip ([[1, 0, 1], [0, 1, 1]].zip [[1, 1, 1], [1, 2, 1]])) :=
  binaryAurocC_fn_eq 2 3 _ _ _ rfl rfl rfl (by decide) (by decide) (by decide)

/-- PSNR(data_range=None) fed three updates (one with a single element). -/
example :
    let bs : List (List Q × List Q) := [([1, 2, 3], [1, 2, 5]), ([0], [4]), ([2, 2], [2, 0])]
    (eval (psnrCls none) (single bs)).toOption.isSome ∧ psnrTargets bs ≠ [] := by
  intro bs
  exact ⟨by decide +kernel, by decide +kernel⟩

end TE.C03
