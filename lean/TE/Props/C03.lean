/-
  C03 — class metric = functional metric on the concatenated data.
  The functional of a family is `stat >=> outA`, the class is
  `additive M stat outA` (exactly what the driver runs for both request kinds),
  so the statement is `C12.class_eq_functional` + the per-class `StatCat`.
  Constructor defaults: see the generated table in TE/Gen/Defaults.lean.
-/
import TE.Props.C12
namespace TE.C03
open TE

variable {B O A : Type}

/-- class fed any non-empty batching of valid batches = functional applied once to
    the concatenation (same parameters: they are baked into `stat`/`outA`). -/
theorem class_eq_functional_on_concat (M : Acc A) (L : Laws M) (stat : B → Except Err A)
    (outA : A → Except Err O) (catB : List B → B) (hc : C12.StatCat M stat catB)
    (bs : List B) (hne : bs ≠ []) (hv : ∀ b ∈ bs, ∃ a, stat b = .ok a) (s : A)
    (h : eval (additive M stat outA) (single bs) = .ok s) :
    (additive M stat outA).out s = (stat (catB bs) >>= outA) :=
  C12.class_eq_functional M L stat outA catB hc bs hne hv s h

/-- cache-all classes: `stat` returns the batch's samples, the functional is
    `outA` of the samples; class = functional of the concatenation, definitionally
    after flattening. -/
theorem cacheall_class_eq_functional {α : Type} (stat : B → Except Err (List α))
    (outA : List α → Except Err O) (bs : List B) (s : List α)
    (h : eval (additive (listAcc α) stat outA) (single bs) = .ok s) :
    (additive (listAcc α) stat outA).out s = outA ((bs.map (statT (listAcc α) stat)).flatten) := by
  have r := (refines (additive_sim (listAcc α) stat outA) (listAcc_laws α) _ s h).2
  simp only [id, flatten_single, accL_listAcc] at r
  rw [r]; rfl

end TE.C03
