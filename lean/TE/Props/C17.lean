/-
  C17 — invariance under monotone rescaling, weight scaling, duplication, relabelling.

  ONLY property theorems and non-vacuity examples live here; every statement is proved in
  TE/Lemmas/Meta{Basic,Mono,Scale,DupCount,DupOther,Relabel,RelabelCurve}.lean and restated verbatim.
  Strategy (DESIGN §6/C17): the invariances are proved on the textbook SPECS (TE/Spec) and transferred to the
  executable MODELS of the code (TE/Model, the functions the driver runs and the correspondence ties to /repo)
  through the `model = spec` theorems of C04 / C05 / C07 / C08, carrying their hypotheses (valid labels, non-empty
  input); where a model only compares / adds its inputs the invariance is proved on the model directly.

  Full-strength statements that are FALSE of the code by design are kept as decided witnesses next to the
  restricted theorem: MSE's eps clamp, CTR's `+ finfo.tiny`, raw-count confusion matrix and adjusted R² under
  duplication, first-index arg-max under column permutation with ties, fractional "labels" in binary_auroc.
  None of them is a defect of torcheval.
-/
import TE.Lemmas.MetaMono
import TE.Lemmas.MetaScale
import TE.Lemmas.MetaDupCount
import TE.Lemmas.MetaDupOther
import TE.Lemmas.MetaRelabel
import TE.Lemmas.MetaRelabelCurve
namespace TE.C17
open TE TE.MetaL


/-! ## (a) strictly increasing transformations of the scores

  `MonoOn D f`: `f` is strictly increasing on the domain `D` that contains every score (`∀ a b, D a → D b → (a < b ↔ f a < f b)`);
  `D := fun _ => True` for maps increasing everywhere.  `mapS f`, `mapLS f`, `mapP f` replace the score of a sample by `f score`. -/

section
open TE.Spec.Curve
variable {D : Q → Prop} {f : Q → Q}

/-- the transformations are not vacuous: every affine map with positive slope is strictly increasing on all of `Q` … -/
theorem strictly_increasing_affine (a b : Q) (ha : 0 < a) : Mono fun x => a * x + b := by
  apply MetaL.mono_affine <;> assumption

example : Mono fun x : Q => 3 / 4 * x + 1 / 4 := strictly_increasing_affine _ _ (by decide +kernel)

/-- … and `x ↦ x²` is strictly increasing on the non-negative scores (probabilities), although not on `Q`. -/
theorem strictly_increasing_square : MonoOn (fun x => 0 ≤ x) fun x => x * x :=
  monoOn_square

/-- **AUROC** (weighted pair probability, ties ½) is unchanged by a strictly increasing map of the scores. -/
theorem auroc_spec_mono (hf : MonoOn D f) (l : List Sample) (hD : ∀ x ∈ l, D x.s) :
    auroc (l.map (mapS f)) = auroc l := by
  apply MetaL.aurocSpec_mono <;> assumption

example : auroc ([⟨1/2, 1, 1⟩, ⟨1/4, 0, 2⟩, ⟨1/2, 0, 1⟩].map (mapS fun x => x * x)) = auroc [⟨1/2, 1, 1⟩, ⟨1/4, 0, 2⟩, ⟨1/2, 0, 1⟩] :=
  auroc_spec_mono strictly_increasing_square _ (by decide +kernel)

/-- … transferred to the executable model of `binary_auroc` (sort / diff-mask / cumsum / trapz) by `C05.auroc_model_eq_spec`:
    any tie pattern, any weights, 0/1 labels, `n ≥ 1`. -/
theorem binary_auroc_mono (hf : MonoOn D f) (xs ts ws : List Q) (hD : ∀ x ∈ xs, D x)
    (hne : samples xs ts ws ≠ [])
    (hlab : ∀ x ∈ samples xs ts ws, x.t = 0 ∨ x.t = 1) :
    Curve.binaryAuroc (xs.map f) ts ws = Curve.binaryAuroc xs ts ws := by
  apply MetaL.binaryAuroc_mono <;> assumption

example : Curve.binaryAuroc ([1/2, 1/4, 1/2].map fun x => 2 * x + 1) [1, 0, 0] [1, 2, 1] = Curve.binaryAuroc [1/2, 1/4, 1/2] [1, 0, 0] [1, 2, 1] :=
  binary_auroc_mono ((mono_affine 2 1 (by decide)).on fun _ => True) _ _ _ (fun _ _ => trivial) (by decide +kernel) (by decide +kernel)
example : Curve.binaryAuroc ([1/2, 1/4, 1/2].map fun x => x * x) [1, 0, 0] [1, 2, 1] = Curve.binaryAuroc [1/2, 1/4, 1/2] [1, 0, 0] [1, 2, 1] :=
  binary_auroc_mono strictly_increasing_square _ _ _ (by decide +kernel) (by decide +kernel) (by decide +kernel)

/-- multiclass AUROC (one-vs-rest per class, `macro` / `None`): every score column transformed. -/
theorem multiclass_auroc_mono (hf : MonoOn D f) (cols : List (List Q)) (labs : List Q) (avg : Curve.Avg)
    (hD : ∀ col ∈ cols, ∀ x ∈ col, D x) (hne : ∀ col ∈ cols, col.zip labs ≠ []) :
    Curve.multiclassAuroc (cols.map (·.map f)) labs avg = Curve.multiclassAuroc cols labs avg := by
  apply MetaL.multiclassAuroc_mono <;> assumption

example : Curve.multiclassAuroc ([[1/2, 1/2, 1], [1/2, 1/4, 0]].map (·.map fun x => 2 * x + 1)) [0, 1, 0] .macro = Curve.multiclassAuroc [[1/2, 1/2, 1], [1/2, 1/4, 0]] [0, 1, 0] .macro :=
  multiclass_auroc_mono ((mono_affine 2 1 (by decide)).on fun _ => True) _ _ _ (fun _ _ _ _ => trivial) (by decide +kernel)

/-- **precision-recall curve**: the precision and recall VALUES are unchanged, the thresholds are mapped by `f`
    (one point per distinct score: distinct scores stay distinct). -/
theorem prcurve_spec_mono (hf : MonoOn D f) (l : List LS) (hl : ∀ x ∈ l, D x.1) :
    prCurve (l.map (mapLS f)) = ⟨(prCurve l).precision, (prCurve l).recall, (prCurve l).thresholds.map f⟩ := by
  apply MetaL.prCurveSpec_mono <;> assumption

example : prCurve ([(1/2, true), (1/4, false), (1/2, false)].map (mapLS fun x => x * x))
    = ⟨(prCurve [(1/2, true), (1/4, false), (1/2, false)]).precision, (prCurve [(1/2, true), (1/4, false), (1/2, false)]).recall, [1/16, 1/4]⟩ := by
  rw [prcurve_spec_mono strictly_increasing_square _ (by decide +kernel)]; decide +kernel

/-- … transferred to the model of `binary_precision_recall_curve` (`mapThr f` maps the thresholds only). -/
theorem binary_prcurve_mono (hf : MonoOn D f) (xs ts : List Q) (hD : ∀ x ∈ xs, D x) (hne : posLS xs ts ≠ []) :
    Curve.binaryPrCurve (xs.map f) ts = (Curve.binaryPrCurve xs ts).map (mapThr f) := by
  apply MetaL.binaryPrCurve_mono <;> assumption

example : Curve.binaryPrCurve ([1/2, 1/2, 1/4, 3/4].map fun x => 2 * x + 1) [1, 0, 1, 0] = (Curve.binaryPrCurve [1/2, 1/2, 1/4, 3/4] [1, 0, 1, 0]).map (mapThr fun x => 2 * x + 1) :=
  binary_prcurve_mono ((mono_affine 2 1 (by decide)).on fun _ => True) _ _ (fun _ _ => trivial) (by decide +kernel)

/-- **AUPRC** (Σ (rₖ − rₖ₊₁)·pₖ over the curve) is unchanged. -/
theorem auprc_spec_mono (hf : MonoOn D f) (l : List LS) (hl : ∀ x ∈ l, D x.1) :
    auprc (l.map (mapLS f)) = auprc l := by
  apply MetaL.auprcSpec_mono <;> assumption

/-- … on the model of `binary_auprc`. -/
theorem binary_auprc_mono (hf : MonoOn D f) (xs ts : List Q) (hD : ∀ x ∈ xs, D x) (hne : posLS xs ts ≠ []) :
    Curve.binaryAuprc (xs.map f) ts = Curve.binaryAuprc xs ts := by
  apply MetaL.binaryAuprc_mono <;> assumption

example : Curve.binaryAuprc ([1/2, 1/2, 1/4, 3/4].map fun x => 2 * x + 1) [1, 0, 1, 0] = Curve.binaryAuprc [1/2, 1/2, 1/4, 3/4] [1, 0, 1, 0] :=
  binary_auprc_mono ((mono_affine 2 1 (by decide)).on fun _ => True) _ _ (fun _ _ => trivial) (by decide +kernel)

/-- **recall at fixed precision**: the recall value (largest recall among the points whose precision reaches the bound) is unchanged. -/
theorem recall_at_precision_spec_mono (hf : MonoOn D f) (l : List LS) (hl : ∀ x ∈ l, D x.1) (bound : Q) :
    Spec.Curve.recallAtPrecision (l.map (mapLS f)) bound = Spec.Curve.recallAtPrecision l bound := by
  apply MetaL.recallAtPrecisionSpec_mono <;> assumption

/-- … on the model of `binary_recall_at_fixed_precision`, for EVERY bound (bounds above 1 are rejected identically);
    the returned threshold is not compared (it is transformed). -/
theorem binary_recall_at_precision_mono (hf : MonoOn D f) (xs ts : List Q) (minP : Q) (hD : ∀ x ∈ xs, D x)
    (hne : posLS xs ts ≠ []) :
    (Curve.binaryRecallAtPrecision (xs.map f) ts minP).map (·.1)
      = (Curve.binaryRecallAtPrecision xs ts minP).map (·.1) := by
  apply MetaL.binaryRecallAtPrecision_mono <;> assumption

example : (Curve.binaryRecallAtPrecision ([1/2, 1/2, 1/4, 3/4].map fun x => 2 * x + 1) [1, 0, 1, 0] (1/2)).map (·.1) = (Curve.binaryRecallAtPrecision [1/2, 1/2, 1/4, 3/4] [1, 0, 1, 0] (1/2)).map (·.1) :=
  binary_recall_at_precision_mono ((mono_affine 2 1 (by decide)).on fun _ => True) _ _ _ (fun _ _ => trivial) (by decide +kernel)

/-- multiclass precision-recall curves (one-vs-rest). -/
theorem multiclass_prcurve_mono (hf : MonoOn D f) (cols : List (List Q)) (labs : List Q)
    (hD : ∀ col ∈ cols, ∀ x ∈ col, D x) (hne : ∀ col ∈ cols, col.zip labs ≠ []) :
    Curve.multiclassPrCurve (cols.map (·.map f)) labs
      = (Curve.multiclassPrCurve cols labs).map (·.map (mapThr f)) := by
  apply MetaL.multiclassPrCurve_mono <;> assumption

/-- multiclass AUPRC, `macro` / `None`. -/
theorem multiclass_auprc_mono (hf : MonoOn D f) (cols : List (List Q)) (labs : List Q) (avg : Curve.Avg)
    (hD : ∀ col ∈ cols, ∀ x ∈ col, D x) (hne : ∀ col ∈ cols, col.zip labs ≠ []) :
    Curve.multiclassAuprc (cols.map (·.map f)) labs avg = Curve.multiclassAuprc cols labs avg := by
  apply MetaL.multiclassAuprc_mono <;> assumption

/-- multilabel precision-recall curves (`mapCol f` transforms the score column of a label). -/
theorem multilabel_prcurve_mono (hf : MonoOn D f) (cols : List (List Q × List Q))
    (hD : ∀ c ∈ cols, ∀ x ∈ c.1, D x) (hne : ∀ c ∈ cols, posLS c.1 c.2 ≠ []) :
    Curve.multilabelPrCurve (cols.map (mapCol f)) = (Curve.multilabelPrCurve cols).map (·.map (mapThr f)) := by
  apply MetaL.multilabelPrCurve_mono <;> assumption

/-- multilabel AUPRC, `macro` / `None`. -/
theorem multilabel_auprc_mono (hf : MonoOn D f) (cols : List (List Q × List Q)) (avg : Curve.Avg)
    (hD : ∀ c ∈ cols, ∀ x ∈ c.1, D x) (hne : ∀ c ∈ cols, posLS c.1 c.2 ≠ []) :
    Curve.multilabelAuprc (cols.map (mapCol f)) avg = Curve.multilabelAuprc cols avg := by
  apply MetaL.multilabelAuprc_mono <;> assumption

example : Curve.multilabelAuprc ([([1/2, 1/2], [1, 0]), ([1/2, 1/4], [0, 1])].map (mapCol fun x => 2 * x + 1)) .none = Curve.multilabelAuprc [([1/2, 1/2], [1, 0]), ([1/2, 1/4], [0, 1])] .none :=
  multilabel_auprc_mono ((mono_affine 2 1 (by decide)).on fun _ => True) _ _ (fun _ _ _ _ => trivial) (by decide +kernel)

/-- **hit rate** by explicit ranking (sort descending, position of the target's score): unchanged. -/
theorem hit_rate_spec_mono (hf : MonoOn D f) (k : Option Nat) (rows : List (List Q)) (target : List Int)
    (hD : ∀ row ∈ rows, ∀ x ∈ row, D x) :
    Spec.Rank.hitRate k (rows.map (·.map f)) target = Spec.Rank.hitRate k rows target := by
  apply MetaL.hitRateSpec_mono <;> assumption

example : Spec.Rank.hitRate (some 2) ([[1, 1/2, 1/2, 0]].map (·.map fun x => x * x)) [2] = Spec.Rank.hitRate (some 2) [[1, 1/2, 1/2, 0]] [2] :=
  hit_rate_spec_mono strictly_increasing_square _ _ _ (by decide +kernel)

/-- **reciprocal rank** by explicit ranking: unchanged. -/
theorem reciprocal_rank_spec_mono (hf : MonoOn D f) (k : Option Nat) (rows : List (List Q)) (target : List Int)
    (hD : ∀ row ∈ rows, ∀ x ∈ row, D x) :
    Spec.Rank.reciprocalRank k (rows.map (·.map f)) target = Spec.Rank.reciprocalRank k rows target := by
  apply MetaL.reciprocalRankSpec_mono <;> assumption

/-- the model of `hit_rate` (gather, count strictly greater, compare with `k`): every `k`, ties, invalid targets (same error). -/
theorem hit_rate_mono (hf : MonoOn D f) (rows : List (List Q)) (C : Nat) (target : List Int) (k : Option Int)
    (hD : ∀ row ∈ rows, ∀ x ∈ row, D x) :
    Rank.hitRate (rows.map (·.map f)) C target k = Rank.hitRate rows C target k := by
  apply MetaL.hitRate_mono <;> assumption

example : Rank.hitRate ([[1, 1/2, 1/2, 0]].map (·.map fun x => 2 * x + 1)) 4 [2] (some 2) = Rank.hitRate [[1, 1/2, 1/2, 0]] 4 [2] (some 2) :=
  hit_rate_mono ((mono_affine 2 1 (by decide)).on fun _ => True) _ _ _ _ (fun _ _ _ _ => trivial)

/-- the model of `reciprocal_rank`. -/
theorem reciprocal_rank_mono (hf : MonoOn D f) (rows : List (List Q)) (target : List Int) (k : Option Int)
    (hD : ∀ row ∈ rows, ∀ x ∈ row, D x) :
    Rank.reciprocalRank (rows.map (·.map f)) target k = Rank.reciprocalRank rows target k := by
  apply MetaL.reciprocalRank_mono <;> assumption

example : Rank.reciprocalRank ([[1, 1/2, 1/2, 0]].map (·.map fun x => x * x)) [3] none = Rank.reciprocalRank [[1, 1/2, 1/2, 0]] [3] none :=
  reciprocal_rank_mono strictly_increasing_square _ _ _ (by decide +kernel)

/-- **retrieval precision** by counting (retrieved iff fewer than `k` items score strictly higher): unchanged. -/
theorem retrieval_precision_spec_mono (hf : MonoOn D f) (k : Option Nat) (limit : Bool) (items : List (Q × Q))
    (hD : ∀ p ∈ items, D p.1) :
    Spec.Rank.precision k limit (items.map (mapP f)) = Spec.Rank.precision k limit items := by
  apply MetaL.retrievalPrecisionSpec_mono <;> assumption

example : Spec.Rank.precision (some 2) false ([(1/2, 1), (3/4, 0), (1/4, 1)].map (mapP fun x => x * x)) = Spec.Rank.precision (some 2) false [(1/2, 1), (3/4, 0), (1/4, 1)] :=
  retrieval_precision_spec_mono strictly_increasing_square _ _ _ (by decide +kernel)

/-- **retrieval recall** by counting: unchanged. -/
theorem retrieval_recall_spec_mono (hf : MonoOn D f) (k : Option Nat) (items : List (Q × Q))
    (hD : ∀ p ∈ items, D p.1) :
    Spec.Rank.recall k (items.map (mapP f)) = Spec.Rank.recall k items := by
  apply MetaL.retrievalRecallSpec_mono <;> assumption

/-- the model of `retrieval_precision` (stable sort, take k, sum the labels): unchanged, ties included. -/
theorem retrieval_precision_mono (hf : MonoOn D f) (k : Option Nat) (limit : Bool) (items : List Rank.Pair)
    (hD : ∀ p ∈ items, D p.1) :
    Rank.precisionPairs k limit (items.map (mapP f)) = Rank.precisionPairs k limit items := by
  apply MetaL.retrievalPrecision_mono <;> assumption

example : Rank.precisionPairs (some 2) false ([(1/2, 1), (3/4, 0), (1/2, 1)].map (mapP fun x => 2 * x + 1)) = Rank.precisionPairs (some 2) false [(1/2, 1), (3/4, 0), (1/2, 1)] :=
  retrieval_precision_mono ((mono_affine 2 1 (by decide)).on fun _ => True) _ _ _ (fun _ _ => trivial)

/-- the model of `retrieval_recall`. -/
theorem retrieval_recall_mono (hf : MonoOn D f) (k : Option Nat) (items : List Rank.Pair)
    (hD : ∀ p ∈ items, D p.1) :
    Rank.recallPairs k (items.map (mapP f)) = Rank.recallPairs k items := by
  apply MetaL.retrievalRecall_mono <;> assumption

/-- **top-k correctness** of one sample (fewer than `k` classes score strictly higher than the true class) for a label inside the row. -/
theorem topk_correct_mono (hf : MonoOn D f) (row : List Q) (lab k : Nat) (hl : lab < row.length)
    (hrow : ∀ x ∈ row, D x) :
    Spec.Count.topkCorrect (row.map f) lab k = Spec.Count.topkCorrect row lab k := by
  apply MetaL.topkCorrect_mono <;> assumption

example : Spec.Count.topkCorrect ([1/2, 1/4, 1].map fun x => x * x) 0 2 = Spec.Count.topkCorrect [1/2, 1/4, 1] 0 2 :=
  topk_correct_mono strictly_increasing_square _ _ _ (by decide) (by decide +kernel)

/-- the correctness mask of `multiclass_accuracy(k > 1)` on transformed logits. -/
theorem topk_mask_mono (hf : MonoOn D f) (rows : List (List Q)) (labs : List Nat) (k : Nat)
    (hD : ∀ row ∈ rows, ∀ x ∈ row, D x) (hl : ∀ p ∈ rows.zip labs, p.2 < p.1.length) :
    Count.mcMaskTopk (rows.map (·.map f)) labs k = Count.mcMaskTopk rows labs k := by
  apply MetaL.mcMaskTopk_mono <;> assumption

example : Count.mcMaskTopk ([[1, 3, 2], [5, 4, 6]].map (·.map fun x => 2 * x + 1)) [2, 1] 2 = Count.mcMaskTopk [[1, 3, 2], [5, 4, 6]] [2, 1] 2 :=
  topk_mask_mono ((mono_affine 2 1 (by decide)).on fun _ => True) _ _ _ (fun _ _ _ _ => trivial) (by decide)

/-- `torch.argmax` (first maximal index) reads the logits only through `<`: ties at the maximum are broken identically. -/
theorem argmax_mono (hf : MonoOn D f) (row : List Q) (hrow : ∀ x ∈ row, D x) :
    Count.argmaxFirst (row.map f) = Count.argmaxFirst row := by
  apply MetaL.argmaxFirst_mono <;> assumption

example : Count.argmaxFirst ([1, 3, 2, 3].map fun x => 2 * x + 1) = Count.argmaxFirst [1, 3, 2, 3] :=
  argmax_mono ((mono_affine 2 1 (by decide)).on fun _ => True) _ (fun _ _ => trivial)

/-- hence the predictions of every arg-max metric (multiclass accuracy `k = 1`, precision, recall, F1, confusion matrix on logits) are unchanged. -/
theorem argmax_preds_mono (hf : MonoOn D f) (rows : List (List Q)) (hD : ∀ row ∈ rows, ∀ x ∈ row, D x) :
    (rows.map (·.map f)).map Count.argmaxFirst = rows.map Count.argmaxFirst := by
  apply MetaL.argmax_preds_mono <;> assumption

/-- `topk_multilabel_accuracy`: the top-k indicator rows, hence `(num_correct, num_total)` for every criterion. -/
theorem topk_multilabel_mono (hf : MonoOn D f) (crit : Count.Crit) (k : Nat) (inp tgt : List (List Q))
    (hD : ∀ row ∈ inp, ∀ x ∈ row, D x) :
    Count.topkMultilabelUpdate crit k (inp.map (·.map f)) tgt = Count.topkMultilabelUpdate crit k inp tgt := by
  apply MetaL.topkMultilabelUpdate_mono <;> assumption

example : Count.topkMultilabelUpdate .hamming 2 ([[1/2, 1/4, 1], [0, 3/4, 1/8]].map (·.map fun x => 2 * x + 1)) [[1, 0, 1], [0, 0, 1]] = Count.topkMultilabelUpdate .hamming 2 [[1/2, 1/4, 1], [0, 3/4, 1/8]] [[1, 0, 1], [0, 0, 1]] :=
  topk_multilabel_mono ((mono_affine 2 1 (by decide)).on fun _ => True) _ _ _ _ (fun _ _ _ _ => trivial)

/-- thresholded predictions (`binary_*`, `multilabel_accuracy`) are unchanged when the threshold is transformed along with the scores. -/
theorem threshold_mono (hf : MonoOn D f) (thr x : Q) (ht : D thr) (hx : D x) :
    Count.thresh (f thr) (f x) = Count.thresh thr x := by
  apply MetaL.thresh_mono <;> assumption

end


/-! ## (b) all weights multiplied by a positive constant -/

section

/-- **weighted mean** `Σwx / Σw` (non-zero total weight). -/
theorem mean_weight_scale_spec (c : Q) (hc : c ≠ 0) (ws xs : List Q) (hw : ws.sum ≠ 0) :
    Spec.Agg.wmean (ws.map (c * ·)) xs = Spec.Agg.wmean ws xs := by
  apply MetaL.wmean_scale <;> assumption

/-- the model of `mean(input, weight)`: torch division, so the zero-total-weight branch (`nan`, `±inf`) and the size-mismatch
    rejection are part of the statement — unconditional for `c > 0`. -/
theorem mean_weight_scale (c : Q) (hc : 0 < c) (xs ws : List Q) :
    Agg.meanFn xs (.tensor (ws.map (c * ·))) = Agg.meanFn xs (.tensor ws) := by
  apply MetaL.meanFn_scale <;> assumption

example : Agg.meanFn [1, 2, 3] (.tensor ([1, 2, 3].map (4 * ·))) = Agg.meanFn [1, 2, 3] (.tensor [1, 2, 3]) := mean_weight_scale 4 (by decide) _ _

/-- … with a scalar weight. -/
theorem mean_scalar_weight_scale (c : Q) (hc : 0 < c) (xs : List Q) (w : Q) :
    Agg.meanFn xs (.scalar (c * w)) = Agg.meanFn xs (.scalar w) := by
  apply MetaL.meanFn_scalar_scale <;> assumption

/-- `Mean.compute` on scaled state `(Σwx, Σw)` (returns `0.0` without weight). -/
theorem mean_class_weight_scale (c : Q) (hc : c ≠ 0) (s t : Q) :
    Agg.meanCompute (c * s) (c * t) = Agg.meanCompute s t := by
  apply MetaL.meanCompute_scale <;> assumption

/-- **weighted MSE** `Σw(t−x)² / Σw`. -/
theorem mse_weight_scale_spec (c : Q) (hc : c ≠ 0) (ws xs ts : List Q) (hw : ws.sum ≠ 0) :
    Spec.Agg.wmse (ws.map (c * ·)) xs ts = Spec.Agg.wmse ws xs ts := by
  apply MetaL.wmse_scale <;> assumption

/-- the model of `mean_squared_error(sample_weight)`, `raw_values` and `uniform_average`, multi-output: both totals at least
    `finfo(float64).eps` (the code clamps `|sum_weight|` there). -/
theorem mse_weight_scale (c : Q) (hc : 0 < c) (u : Bool) (ws : List Q) (xc tc : Mat) (n : Nat)
    (hw : Agg.eps64 ≤ ws.sum) (hw' : Agg.eps64 ≤ c * ws.sum) :
    Agg.mseCompute u (Agg.mseUpdate (some (ws.map (c * ·))) xc tc n).1 (Agg.mseUpdate (some (ws.map (c * ·))) xc tc n).2
      = Agg.mseCompute u (Agg.mseUpdate (some ws) xc tc n).1 (Agg.mseUpdate (some ws) xc tc n).2 := by
  apply MetaL.mse_scale <;> assumption

example : Agg.eps64 ≤ ([1, 2, 3] : List Q).sum ∧ Agg.eps64 ≤ 4 * ([1, 2, 3] : List Q).sum := by decide +kernel

/-- below `eps` the documented clamp `sum_weight.abs().clamp(min=eps)` is not homogeneous (decided instance; not a defect:
    the full statement without the two `eps ≤ …` hypotheses is false of the code by design). -/
theorem mse_weight_scale_clamp_witness :
    let c : Q := Agg.eps64 / 2
    0 < c ∧ Agg.eps64 ≤ ([1] : List Q).sum ∧ ¬ Agg.eps64 ≤ c * ([1] : List Q).sum ∧
    Agg.mseRaw (Agg.mseUpdate (some ([1] : List Q)) [[0]] [[1]] 1).1 (Agg.mseUpdate (some ([1] : List Q)) [[0]] [[1]] 1).2
      = [.val 1] ∧
    Agg.mseRaw (Agg.mseUpdate (some (([1] : List Q).map (c * ·))) [[0]] [[1]] 1).1
        (Agg.mseUpdate (some (([1] : List Q).map (c * ·))) [[0]] [[1]] 1).2
      = [.val (1 / 2)] ∧
    Agg.mseRaw (Agg.mseUpdate (some (([1] : List Q).map (c * ·))) [[0]] [[1]] 1).1
        (Agg.mseUpdate (some (([1] : List Q).map (c * ·))) [[0]] [[1]] 1).2
      ≠ Agg.mseRaw (Agg.mseUpdate (some ([1] : List Q)) [[0]] [[1]] 1).1 (Agg.mseUpdate (some ([1] : List Q)) [[0]] [[1]] 1).2 :=
  MetaL.mse_scale_clamp_witness

/-- **binary normalized entropy**, arbitrary `ln`, `exp`, probabilities or logits, any `c ≠ 0`: the three accumulated states scale by `c`
    and `compute` (incl. the no-weight `nan` branch and the clamped base rate) is unchanged. -/
theorem bne_weight_scale (ln exp : Q → Q) (fl : Bool) (xs ts ws : List Q) (c : Q) (hc : c ≠ 0) :
    let u := Agg.bneUpdate ln exp fl xs ts (some ws)
    let u' := Agg.bneUpdate ln exp fl xs ts (some (ws.map (c * ·)))
    u' = (c * u.1, c * u.2.1, c * u.2.2) ∧
    Agg.bneCompute ln u'.1 u'.2.1 u'.2.2 = Agg.bneCompute ln u.1 u.2.1 u.2.2 :=
  MetaL.bne_scale ln exp fl xs ts ws c hc

example : (Agg.bneUpdate (fun q => q - 1) (fun q => q) false [1/4, 1/2] [0, 1] (some ([1, 2].map ((3 : Q) * ·)))).2 = (6, 9) := by decide +kernel

/-- **weighted AUROC**: numerator and `W⁺·W⁻` both scale by `c²` (any `c ≠ 0`); `scaleW c` scales the weight of a sample. -/
theorem auroc_weight_scale_spec (c : Q) (hc : c ≠ 0) (l : List Spec.Curve.Sample) :
    Spec.Curve.auroc (l.map (scaleW c)) = Spec.Curve.auroc l := by
  apply MetaL.aurocSpec_scale <;> assumption

/-- … on the model of `binary_auroc(weight)`. -/
theorem binary_auroc_weight_scale (c : Q) (hc : c ≠ 0) (xs ts ws : List Q)
    (hne : Spec.Curve.samples xs ts ws ≠ []) (hlab : ∀ x ∈ Spec.Curve.samples xs ts ws, x.t = 0 ∨ x.t = 1) :
    Curve.binaryAuroc xs ts (ws.map (c * ·)) = Curve.binaryAuroc xs ts ws := by
  apply MetaL.binaryAuroc_scale <;> assumption

example : Curve.binaryAuroc [1/2, 1/2, 1/4, 3/4] [1, 0, 1, 0] ([1, 2, 1, 2].map (8 * ·)) = Curve.binaryAuroc [1/2, 1/2, 1/4, 3/4] [1, 0, 1, 0] [1, 2, 1, 2] :=
  binary_auroc_weight_scale 8 (by decide) _ _ _ (by decide +kernel) (by decide +kernel)

/-- **Wasserstein-1**: each distribution is normalised by its OWN total weight, so each weight vector may be scaled by its own constant. -/
theorem wasserstein_weight_scale_spec (c d : Q) (hc : c ≠ 0) (hd : d ≠ 0) (px py : List (Q × Q)) :
    Spec.Agg.w1 (px.map fun p => (p.1, c * p.2)) (py.map fun p => (p.1, d * p.2)) = Spec.Agg.w1 px py := by
  apply MetaL.w1_scale <;> assumption

/-- the model of `wasserstein_1d(x, y, x_weights, y_weights)`: unconditional for `c, d > 0` (invalid inputs are rejected identically;
    missing weights stay missing). -/
theorem wasserstein_weight_scale (c d : Q) (hc : 0 < c) (hd : 0 < d) (x y : List Q) (xw yw : Option (List Q)) :
    Agg.wasserstein x y (xw.map (·.map (c * ·))) (yw.map (·.map (d * ·))) = Agg.wasserstein x y xw yw := by
  apply MetaL.wasserstein_scale <;> assumption

example : Agg.wasserstein [1, 2, 3] [1, 5] ((some [1, 2, 1]).map (·.map ((2 : Q) * ·))) ((some [1, 3]).map (·.map ((1/4 : Q) * ·))) = Agg.wasserstein [1, 2, 3] [1, 5] (some [1, 2, 1]) (some [1, 3]) :=
  wasserstein_weight_scale 2 (1/4) (by decide +kernel) (by decide +kernel) _ _ _ _

/-- **click-through rate** `Σ w·click / Σ w`. -/
theorem ctr_weight_scale_spec (c : Q) (hc : c ≠ 0) (clicks ws : List Q) (hw : ws.sum ≠ 0) :
    Spec.Rank.ctr clicks (ws.map (c * ·)) = Spec.Rank.ctr clicks ws := by
  apply MetaL.ctrSpec_scale <;> assumption

/-- the code divides by `weight_total + eps` (`eps = finfo.tiny`): the run on scaled weights IS the run on the original weights with `eps / c` — -/
theorem ctr_weight_scale_eps (c : Q) (hc : 0 < c) (eps a b : Q) :
    Rank.ctrCompute eps (c * a) (c * b) = Rank.ctrCompute (eps / c) a b := by
  apply MetaL.ctrCompute_scale_eps <;> assumption

/-- — so the model of `click_through_rate(weights)` is exactly homogeneous for `eps = 0` … -/
theorem ctr_weight_scale (c : Q) (hc : 0 < c) (input ws : List Q) :
    Rank.ctrCompute 0 (Rank.ctrUpdate input (ws.map (c * ·))).1 (Rank.ctrUpdate input (ws.map (c * ·))).2
      = Rank.ctrCompute 0 (Rank.ctrUpdate input ws).1 (Rank.ctrUpdate input ws).2 := by
  apply MetaL.ctr_scale <;> assumption

example : Rank.ctrCompute 0 (Rank.ctrUpdate [1, 0, 1] ([1/2, 1, 2].map ((4 : Q) * ·))).1 (Rank.ctrUpdate [1, 0, 1] ([1/2, 1, 2].map ((4 : Q) * ·))).2 = .val (5/7) := by decide +kernel

/-- … and not for `eps ≠ 0` (decided instance with `eps = 1`; at `eps = 2⁻¹²⁶` the difference is far below float resolution). -/
theorem ctr_weight_scale_eps_witness :
    Rank.ctrCompute 1 (Rank.ctrUpdate [1, 0, 1] (([1, 2, 3] : List Q).map (2 * ·))).1
        (Rank.ctrUpdate [1, 0, 1] (([1, 2, 3] : List Q).map (2 * ·))).2 = .val (8 / 13) ∧
    Rank.ctrCompute 1 (Rank.ctrUpdate [1, 0, 1] [1, 2, 3]).1 (Rank.ctrUpdate [1, 0, 1] [1, 2, 3]).2 = .val (4 / 7) ∧
    Rank.ctrCompute 1 (Rank.ctrUpdate [1, 0, 1] (([1, 2, 3] : List Q).map (2 * ·))).1
        (Rank.ctrUpdate [1, 0, 1] (([1, 2, 3] : List Q).map (2 * ·))).2
      ≠ Rank.ctrCompute 1 (Rank.ctrUpdate [1, 0, 1] [1, 2, 3]).1 (Rank.ctrUpdate [1, 0, 1] [1, 2, 3]).2 :=
  MetaL.ctr_scale_eps_witness

/-- **weighted calibration** `Σ w·pred / Σ w·label` with torch division (`x/0 = ±inf`, `0/0 = nan`). -/
theorem calibration_weight_scale_spec (c : Q) (hc : 0 < c) (pred label w : List Q) :
    Spec.Rank.calibration pred label (w.map (c * ·)) = Spec.Rank.calibration pred label w := by
  apply MetaL.calibrationSpec_scale <;> assumption

/-- … on the model of `weighted_calibration(weight)`. -/
theorem calibration_weight_scale (c : Q) (hc : 0 < c) (input target w : List Q) :
    xdiv (Rank.wcUpdate input target (w.map (c * ·))).1 (Rank.wcUpdate input target (w.map (c * ·))).2
      = xdiv (Rank.wcUpdate input target w).1 (Rank.wcUpdate input target w).2 := by
  apply MetaL.wc_scale <;> assumption

example : xdiv (Rank.wcUpdate [1/2, 1/4] [1, 0] ([1, 2].map ((2 : Q) * ·))).1 (Rank.wcUpdate [1/2, 1/4] [1, 0] ([1, 2].map ((2 : Q) * ·))).2 = .val 1 := by decide +kernel

end


/-! ## (c) the whole data set duplicated

  Generic part (DESIGN §3): for every sufficient-statistics class `additive partsAcc stat outA` — all count / sum metrics of the
  driver — feeding the same stream twice doubles the accumulated statistics (`pscale 2`), so a `compute` that is homogeneous of
  degree 0 returns the same value.  The per-metric homogeneity lemmas follow; then the direct statements on specs and models. -/

section
open TE.Spec.Count

/-- a class fed the same stream (any batching) twice computes what it computes after one pass. -/
theorem class_dup_stream {B O : Type} (stat : B → Except Err Parts) (outA : Parts → Except Err O)
    (hout : ∀ a, outA (pscale 2 a) = outA a) (bs : List B) (s s' : Parts)
    (h1 : eval (additive partsAcc stat outA) (single bs) = .ok s)
    (h2 : eval (additive partsAcc stat outA) (single (bs ++ bs)) = .ok s') :
    (additive partsAcc stat outA).out s' = (additive partsAcc stat outA).out s := by
  apply MetaL.additive_dup_stream <;> assumption

/-- a toy ratio class (state `[[Σ num], [Σ den]]`, `compute = num/den`) on a two-batch stream: after one pass the state is
    `[[2],[5]]`, after the stream fed twice `[[4],[10]]`, and `compute` agrees. -/
example : (additive partsAcc DupCount.toyStat DupCount.toyOut).out [[4], [10]] = (additive partsAcc DupCount.toyStat DupCount.toyOut).out [[2], [5]] :=
  class_dup_stream DupCount.toyStat DupCount.toyOut DupCount.toyOut_scale [(1, 2), (1, 3)] [[2], [5]] [[4], [10]]
    (by simp only [single, List.foldl, eval, additive, DupCount.toyStat, partsAcc, bind, Except.bind, ppadd, padd]
        exact congrArg Except.ok (by decide +kernel))
    (by show eval _ (single [(1, 2), (1, 3), (1, 2), (1, 3)]) = _
        simp only [single, List.foldl, eval, additive, DupCount.toyStat, partsAcc, bind, Except.bind, ppadd, padd]
        exact congrArg Except.ok (by decide +kernel))

/-- the functional (`stat >=> outA`) on a duplicated batch, given that `stat` is additive on the duplication. -/
theorem functional_dup {B O : Type} (stat : B → Except Err Parts) (outA : Parts → Except Err O)
    (dup : B → B)
    (hstat : ∀ b a, stat b = .ok a → stat (dup b) = .ok (ppadd a a))
    (hout : ∀ a, outA (pscale 2 a) = outA a) (b : B) (hb : ∃ a, stat b = .ok a) :
    (stat (dup b) >>= outA) = (stat b >>= outA) := by
  apply MetaL.functional_dup <;> assumption

/-- the accumulated statistics of the duplicated stream are twice those of the stream. -/
theorem stats_double {B : Type} (stat : B → Parts) (bs : List B) :
    accL partsAcc stat (bs ++ bs) = pscale 2 (accL partsAcc stat bs) := by
  apply MetaL.accL_dup <;> assumption

/-- `_accuracy_compute` (micro / macro / None) is homogeneous of degree 0. -/
theorem accuracy_compute_homogeneous (k : Q) (hk : 0 < k) (c t : List Q) (avg : Count.Avg) :
    Count.accuracyCompute (c.map (k * ·)) (t.map (k * ·)) avg = Count.accuracyCompute c t avg := by
  apply MetaL.accuracyCompute_scale <;> assumption

/-- `_precision_compute`, all four averages. -/
theorem precision_compute_homogeneous (k : Q) (hk : 0 < k) (s : Count.PRF) (avg : Count.Avg) :
    Count.precisionCompute ⟨s.tp.map (k * ·), s.a.map (k * ·), s.b.map (k * ·)⟩ avg
      = Count.precisionCompute s avg := by
  apply MetaL.precisionCompute_scale <;> assumption

/-- `_recall_compute`, all four averages. -/
theorem recall_compute_homogeneous (k : Q) (hk : 0 < k) (s : Count.PRF) (avg : Count.Avg) :
    Count.recallCompute ⟨s.tp.map (k * ·), s.a.map (k * ·), s.b.map (k * ·)⟩ avg
      = Count.recallCompute s avg := by
  apply MetaL.recallCompute_scale <;> assumption

/-- `_f1_score_compute`, all four averages. -/
theorem f1_compute_homogeneous (k : Q) (hk : 0 < k) (s : Count.PRF) (avg : Count.Avg) :
    Count.f1Compute ⟨s.tp.map (k * ·), s.a.map (k * ·), s.b.map (k * ·)⟩ avg
      = Count.f1Compute s avg := by
  apply MetaL.f1Compute_scale <;> assumption

/-- `_confusion_matrix_compute` with `normalize ∈ {all, pred, true}`. -/
theorem confusion_compute_homogeneous (k : Q) (hk : 0 < k) (m : Mat) (n : Nat) (norm : Count.Norm)
    (h : norm ≠ .none) :
    Count.confusionCompute (m.map (·.map (k * ·))) n norm = Count.confusionCompute m n norm := by
  apply MetaL.confusionCompute_scale <;> assumption

/-- the `nan_to_num` ratio of binary precision / recall. -/
theorem binary_ratio_homogeneous (k a b : Q) (hk : k ≠ 0) : Count.divNan0 (k * a) (k * b) = Count.divNan0 a b := by
  apply MetaL.divNan0_scale <;> assumption

/-- the harmonic mean of binary F1. -/
theorem binary_f1_homogeneous (k t l p : Q) (hk : k ≠ 0) :
    Count.f1One (k * t) (k * l) (k * p) = Count.f1One t l p := by
  apply MetaL.f1One_scale <;> assumption

/-- textbook per-class precision of the duplicated pairs. -/
theorem precision_spec_dup (ps : Pairs) (c : Nat) : precision (ps ++ ps) c = precision ps c := by
  apply MetaL.precision_dup <;> assumption

/-- textbook per-class recall. -/
theorem recall_spec_dup (ps : Pairs) (c : Nat) : recall (ps ++ ps) c = recall ps c := by
  apply MetaL.recall_dup <;> assumption

/-- textbook per-class F1. -/
theorem f1_spec_dup (ps : Pairs) (c : Nat) : f1 (ps ++ ps) c = f1 ps c := by
  apply MetaL.f1_dup <;> assumption

/-- the classes taking part in macro / weighted averages are the same. -/
theorem present_classes_dup (ps : Pairs) (C : Nat) : present (ps ++ ps) C = present ps C := by
  apply MetaL.present_dup <;> assumption

/-- micro accuracy `#correct / n` (incl. the empty `nan`). -/
theorem micro_accuracy_spec_dup (ps : Pairs) : microAccuracy (ps ++ ps) = microAccuracy ps := by
  apply MetaL.microAccuracy_dup <;> assumption

/-- per-class accuracy (incl. `nan` for classes without support). -/
theorem class_accuracy_spec_dup (ps : Pairs) (c : Nat) : classAccuracy (ps ++ ps) c = classAccuracy ps c := by
  apply MetaL.classAccuracy_dup <;> assumption

/-- the model of `multiclass_precision` on `cat([x, x])`: EVERY average (micro, macro, weighted, None), valid labels. -/
theorem precision_model_dup (preds labs : List Nat) (C : Nat) (avg : Count.Avg)
    (hlen : preds.length = labs.length) (hp : preds.all (· < C) = true)
    (hl : labs.all (· < C) = true) :
    (Count.precisionUpdate (preds ++ preds) (labs ++ labs) avg C).map (Count.precisionCompute · avg)
      = (Count.precisionUpdate preds labs avg C).map (Count.precisionCompute · avg) := by
  apply MetaL.precision_model_dup <;> assumption

example : (Count.precisionUpdate ([0, 2, 1, 2] ++ [0, 2, 1, 2]) ([0, 1, 1, 2] ++ [0, 1, 1, 2]) .weighted 3).map (Count.precisionCompute · .weighted) = (Count.precisionUpdate [0, 2, 1, 2] [0, 1, 1, 2] .weighted 3).map (Count.precisionCompute · .weighted) :=
  precision_model_dup _ _ _ _ (by decide) (by decide) (by decide)

/-- the model of `multiclass_recall`, every average. -/
theorem recall_model_dup (preds labs : List Nat) (C : Nat) (avg : Count.Avg)
    (hlen : preds.length = labs.length) (hp : preds.all (· < C) = true)
    (hl : labs.all (· < C) = true) :
    (Count.recallUpdate (preds ++ preds) (labs ++ labs) avg C).map (Count.recallCompute · avg)
      = (Count.recallUpdate preds labs avg C).map (Count.recallCompute · avg) := by
  apply MetaL.recall_model_dup <;> assumption

/-- the model of `multiclass_f1_score`, every average. -/
theorem f1_model_dup (preds labs : List Nat) (C : Nat) (avg : Count.Avg)
    (hlen : preds.length = labs.length) (hp : preds.all (· < C) = true)
    (hl : labs.all (· < C) = true) :
    (Count.recallUpdate (preds ++ preds) (labs ++ labs) avg C).map (Count.f1Compute · avg)
      = (Count.recallUpdate preds labs avg C).map (Count.f1Compute · avg) := by
  apply MetaL.f1_model_dup <;> assumption

/-- the model of `multiclass_accuracy`, micro / macro / None. -/
theorem accuracy_model_dup (preds labs : List Nat) (C : Nat) (avg : Count.Avg)
    (hlen : preds.length = labs.length) (hl : labs.all (· < C) = true) :
    (Count.mcAccFromMask (Count.mcMaskLabel (preds ++ preds) (labs ++ labs)) (labs ++ labs) avg C).map
        (fun r => Count.accuracyCompute r.1 r.2 avg)
      = (Count.mcAccFromMask (Count.mcMaskLabel preds labs) labs avg C).map
        (fun r => Count.accuracyCompute r.1 r.2 avg) := by
  apply MetaL.accuracy_model_dup <;> assumption

/-- the model of `multiclass_confusion_matrix(normalize ∈ {all, pred, true})`. -/
theorem confusion_model_dup (preds labs : List Nat) (C : Nat) (norm : Count.Norm)
    (hnorm : norm ≠ .none) (hlen : preds.length = labs.length) (hp : preds.all (· < C) = true)
    (hl : labs.all (· < C) = true) :
    (Count.confusionUpdate (preds ++ preds) (labs ++ labs) C).map (Count.confusionCompute · C norm)
      = (Count.confusionUpdate preds labs C).map (Count.confusionCompute · C norm) := by
  apply MetaL.confusion_model_dup <;> assumption

example : Count.Norm.all ≠ .none ∧ ([0, 1, 1] : List Nat).length = ([0, 0, 1] : List Nat).length ∧ ([0, 1, 1] : List Nat).all (· < 2) = true := by decide

/-- the un-normalized confusion matrix holds raw counts: it doubles (not a ratio metric; not claimed). -/
theorem confusion_counts_dup_witness :
    (Count.confusionUpdate ([0, 1, 1] ++ [0, 1, 1]) ([0, 0, 1] ++ [0, 0, 1]) 2).map
        (Count.confusionCompute · 2 .none)
      ≠ (Count.confusionUpdate [0, 1, 1] [0, 0, 1] 2).map (Count.confusionCompute · 2 .none) :=
  MetaL.confusion_unnormalized_dup_witness

/-- the model of `binary_accuracy` (any threshold). -/
theorem binary_accuracy_dup (thr : Q) (xs ys : List Q) (hlen : xs.length = ys.length) :
    let u := Count.binaryAccuracyUpdate thr (xs ++ xs) (ys ++ ys)
    let v := Count.binaryAccuracyUpdate thr xs ys
    xdiv u.1 u.2 = xdiv v.1 v.2 :=
  MetaL.binaryAccuracy_dup thr xs ys hlen

end

section
open TE.Spec.Curve TE.Curve

/-- **AUROC**: `W⁺`, `W⁻` double, the pair sum quadruples. -/
theorem auroc_spec_dup (l : List Sample) : auroc (l ++ l) = auroc l := by
  apply MetaL.aurocSpec_dup <;> assumption

/-- the model of `binary_auroc` (weights included). -/
theorem binary_auroc_dup (xs ts ws : List Q) (h1 : xs.length = ts.length) (h2 : ts.length = ws.length)
    (hne : samples xs ts ws ≠ []) (hlab : ∀ x ∈ samples xs ts ws, x.t = 0 ∨ x.t = 1) :
    binaryAuroc (xs ++ xs) (ts ++ ts) (ws ++ ws) = binaryAuroc xs ts ws := by
  apply MetaL.binaryAuroc_dup <;> assumption

example : binaryAuroc ([1/2, 1/4, 1/2] ++ [1/2, 1/4, 1/2]) ([1, 0, 0] ++ [1, 0, 0]) ([1, 2, 1] ++ [1, 2, 1]) = binaryAuroc [1/2, 1/4, 1/2] [1, 0, 0] [1, 2, 1] :=
  binary_auroc_dup _ _ _ rfl rfl (by decide +kernel) (by decide +kernel)

/-- why the 0/1-label hypothesis cannot be dropped: with a fractional "label" `binary_auroc` is not duplication invariant
    (same artefact as `C05.auroc_fractional_label_witness`; labels outside {0,1} are outside the documented domain). -/
theorem binary_auroc_fractional_label_dup_witness :
    (binaryAuroc [1, 1/2] [1/2, 0] [1, 1]).toOption = some (2/3)
      ∧ (binaryAuroc ([1, 1/2] ++ [1, 1/2]) ([1/2, 0] ++ [1/2, 0]) ([1, 1] ++ [1, 1])).toOption = some (5/6) :=
  MetaL.binaryAuroc_fractional_label_dup_witness

/-- the model of `multiclass_auroc`, `macro` / `None`. -/
theorem multiclass_auroc_dup (cols : List (List Q)) (labs : List Q) (avg : Avg)
    (hlen : ∀ col ∈ cols, col.length = labs.length) (hne : labs ≠ []) :
    multiclassAuroc (cols.map fun c => c ++ c) (labs ++ labs) avg = multiclassAuroc cols labs avg := by
  apply MetaL.multiclassAuroc_dup <;> assumption

/-- **precision-recall curve**: the WHOLE curve — precision, recall and thresholds — is unchanged. -/
theorem prcurve_spec_dup (l : List LS) : prCurve (l ++ l) = prCurve l := by
  apply MetaL.prCurveSpec_dup <;> assumption

/-- **AUPRC**. -/
theorem auprc_spec_dup (l : List LS) : auprc (l ++ l) = auprc l := by
  apply MetaL.auprcSpec_dup <;> assumption

/-- the model of `binary_precision_recall_curve`. -/
theorem binary_prcurve_dup (xs ts : List Q) (hlen : xs.length = ts.length) (hne : posLS xs ts ≠ []) :
    binaryPrCurve (xs ++ xs) (ts ++ ts) = binaryPrCurve xs ts := by
  apply MetaL.binaryPrCurve_dup <;> assumption

/-- the model of `binary_auprc`. -/
theorem binary_auprc_dup (xs ts : List Q) (hlen : xs.length = ts.length) (hne : posLS xs ts ≠ []) :
    binaryAuprc (xs ++ xs) (ts ++ ts) = binaryAuprc xs ts := by
  apply MetaL.binaryAuprc_dup <;> assumption

example : binaryAuprc ([1/2, 1/2, 1/4, 3/4] ++ [1/2, 1/2, 1/4, 3/4]) ([1, 0, 1, 0] ++ [1, 0, 1, 0]) = binaryAuprc [1/2, 1/2, 1/4, 3/4] [1, 0, 1, 0] :=
  binary_auprc_dup _ _ rfl (by decide +kernel)

/-- the model of `binary_recall_at_fixed_precision` (recall AND threshold). -/
theorem binary_recall_at_precision_dup (xs ts : List Q) (hlen : xs.length = ts.length)
    (hne : posLS xs ts ≠ []) (minP : Q) :
    binaryRecallAtPrecision (xs ++ xs) (ts ++ ts) minP = binaryRecallAtPrecision xs ts minP := by
  apply MetaL.binaryRecallAtPrecision_dup <;> assumption

/-- multiclass precision-recall curves. -/
theorem multiclass_prcurve_dup (cols : List (List Q)) (labs : List Q)
    (hlen : ∀ col ∈ cols, col.length = labs.length) (hne : labs ≠ []) :
    multiclassPrCurve (cols.map fun c => c ++ c) (labs ++ labs) = multiclassPrCurve cols labs := by
  apply MetaL.multiclassPrCurve_dup <;> assumption

/-- multiclass AUPRC. -/
theorem multiclass_auprc_dup (cols : List (List Q)) (labs : List Q) (avg : Avg)
    (hlen : ∀ col ∈ cols, col.length = labs.length) (hne : labs ≠ []) :
    multiclassAuprc (cols.map fun c => c ++ c) (labs ++ labs) avg = multiclassAuprc cols labs avg := by
  apply MetaL.multiclassAuprc_dup <;> assumption

/-- multilabel precision-recall curves. -/
theorem multilabel_prcurve_dup (cols : List (List Q × List Q))
    (hlen : ∀ c ∈ cols, c.1.length = c.2.length) (hne : ∀ c ∈ cols, posLS c.1 c.2 ≠ []) :
    multilabelPrCurve (cols.map fun c => (c.1 ++ c.1, c.2 ++ c.2)) = multilabelPrCurve cols := by
  apply MetaL.multilabelPrCurve_dup <;> assumption

/-- multilabel AUPRC. -/
theorem multilabel_auprc_dup (cols : List (List Q × List Q)) (avg : Avg)
    (hlen : ∀ c ∈ cols, c.1.length = c.2.length) (hne : ∀ c ∈ cols, posLS c.1 c.2 ≠ []) :
    multilabelAuprc (cols.map fun c => (c.1 ++ c.1, c.2 ++ c.2)) avg = multilabelAuprc cols avg := by
  apply MetaL.multilabelAuprc_dup <;> assumption

/-- multilabel recall at fixed precision. -/
theorem multilabel_recall_at_precision_dup (cols : List (List Q × List Q)) (minP : Q)
    (hlen : ∀ c ∈ cols, c.1.length = c.2.length) (hne : ∀ c ∈ cols, posLS c.1 c.2 ≠ []) :
    multilabelRecallAtPrecision (cols.map fun c => (c.1 ++ c.1, c.2 ++ c.2)) minP
      = multilabelRecallAtPrecision cols minP := by
  apply MetaL.multilabelRecallAtPrecision_dup <;> assumption

end

section
open TE.Agg TE.Rank

/-- the model of `mean(input, weight)`: unconditional (zero weight, size mismatch included). -/
theorem mean_dup (xs ws : List Q) : meanFn (xs ++ xs) (.tensor (ws ++ ws)) = meanFn xs (.tensor ws) := by
  apply MetaL.meanFn_dup <;> assumption

example : meanFn ([1, 2, 3] ++ [1, 2, 3]) (.tensor ([1, 2, 3] ++ [1, 2, 3])) = meanFn [1, 2, 3] (.tensor [1, 2, 3]) := mean_dup _ _

/-- … with a scalar weight. -/
theorem mean_scalar_dup (xs : List Q) (w : Q) : meanFn (xs ++ xs) (.scalar w) = meanFn xs (.scalar w) := by
  apply MetaL.meanFn_scalar_dup <;> assumption

/-- **MSE** `Σ(t−x)²/n`. -/
theorem mse_spec_dup (xs ts : List Q) (hlen : xs.length = ts.length) (_hn : ts ≠ []) :
    Spec.Agg.mse (xs ++ xs) (ts ++ ts) = Spec.Agg.mse xs ts := by
  apply MetaL.mseSpec_dup <;> assumption

/-- the model of `mean_squared_error` (unweighted, multi-output, both `multioutput` modes). -/
theorem mse_model_dup (u : Bool) (xc tc : Mat) (n : Nat) (hn : n ≠ 0)
    (hx : ∀ p ∈ xc.zip tc, p.1.length = p.2.length) :
    mseCompute u (mseUpdate none (xc.map fun c => c ++ c) (tc.map fun c => c ++ c) (2 * n)).1
        (mseUpdate none (xc.map fun c => c ++ c) (tc.map fun c => c ++ c) (2 * n)).2
      = mseCompute u (mseUpdate none xc tc n).1 (mseUpdate none xc tc n).2 := by
  apply MetaL.mse_model_dup <;> assumption

example : (3 : Nat) ≠ 0 ∧ ∀ p ∈ ([[1, 1, 1], [0, 1, 2]] : Mat).zip [[0, 0, 0], [0, 3, 2]], p.1.length = p.2.length := by decide +kernel

/-- … with sample weights (total weight at least `eps`). -/
theorem mse_model_weighted_dup (u : Bool) (ws : List Q) (xc tc : Mat) (n : Nat) (hw : eps64 ≤ ws.sum)
    (hlens : ∀ p ∈ xc.zip tc, p.1.length = p.2.length ∧ p.2.length = ws.length) :
    mseCompute u (mseUpdate (some (ws ++ ws)) (xc.map fun c => c ++ c) (tc.map fun c => c ++ c) (2 * n)).1
        (mseUpdate (some (ws ++ ws)) (xc.map fun c => c ++ c) (tc.map fun c => c ++ c) (2 * n)).2
      = mseCompute u (mseUpdate (some ws) xc tc n).1 (mseUpdate (some ws) xc tc n).2 := by
  apply MetaL.mse_model_weighted_dup <;> assumption

/-- below `eps` total weight the clamp does not double (documented clamp, decided instance). -/
theorem mse_tiny_weight_dup_witness :
    mseCompute false (mseUpdate (some [eps64 / 2]) [[1]] [[0]] 1).1 (mseUpdate (some [eps64 / 2]) [[1]] [[0]] 1).2
        = [.val (1/2)]
      ∧ mseCompute false (mseUpdate (some ([eps64 / 2] ++ [eps64 / 2])) [[1] ++ [1]] [[0] ++ [0]] 2).1
          (mseUpdate (some ([eps64 / 2] ++ [eps64 / 2])) [[1] ++ [1]] [[0] ++ [0]] 2).2 = [.val 1] :=
  MetaL.mse_tiny_weight_dup_witness

/-- **R²** `1 − RSS/TSS`: the mean is unchanged, RSS and TSS double. -/
theorem r2_spec_dup (pred ys : List Q) (hlen : pred.length = ys.length) (_hn : ys ≠ []) :
    Spec.Agg.r2 (pred ++ pred) (ys ++ ys) = Spec.Agg.r2 pred ys := by
  apply MetaL.r2Spec_dup <;> assumption

/-- the model of `r2_score` (`num_regressors = 0`, all three `multioutput` modes, constant targets included) on duplicated columns. -/
theorem r2_model_dup (xc tc : Mat) (n : Nat) (mo : MultiOut) (hn : 2 ≤ n)
    (hx : ∀ p ∈ xc.zip tc, p.1.length = p.2.length) :
    let u := r2Update xc tc
    let u' := r2Update (xc.map fun c => c ++ c) (tc.map fun c => c ++ c)
    r2Compute u'.1 u'.2.1 u'.2.2 ((2 * n : Nat) : Q) mo 0 = r2Compute u.1 u.2.1 u.2.2 (n : Q) mo 0 :=
  MetaL.r2_model_dup xc tc n mo hn hx

example : (2 : Nat) ≤ 3 ∧ ∀ p ∈ ([[1, 2, 4]] : Mat).zip [[1, 3, 3]], p.1.length = p.2.length := by decide +kernel

/-- adjusted R² (`num_regressors > 0`) depends on `n` through `(n−1)/(n−p−1)`: NOT duplication invariant (by definition; not claimed). -/
theorem r2_adjusted_dup_witness :
    (r2Compute (r2Update [[1, 2, 4]] [[1, 3, 3]]).1 (r2Update [[1, 2, 4]] [[1, 3, 3]]).2.1
        (r2Update [[1, 2, 4]] [[1, 3, 3]]).2.2 3 .raw 1).toOption = some [.val (-1/2)]
    ∧ (r2Compute (r2Update [[1, 2, 4] ++ [1, 2, 4]] [[1, 3, 3] ++ [1, 3, 3]]).1
        (r2Update [[1, 2, 4] ++ [1, 2, 4]] [[1, 3, 3] ++ [1, 3, 3]]).2.1
        (r2Update [[1, 2, 4] ++ [1, 2, 4]] [[1, 3, 3] ++ [1, 3, 3]]).2.2 6 .raw 1).toOption = some [.val (1/16)] :=
  MetaL.r2_adjusted_dup_witness

/-- the model of `click_through_rate` (`eps = 0`, cf. `ctr_weight_scale_eps`). -/
theorem ctr_dup (input ws : List Q) (hlen : input.length = ws.length) :
    ctrCompute 0 (ctrUpdate (input ++ input) (ws ++ ws)).1 (ctrUpdate (input ++ input) (ws ++ ws)).2
      = ctrCompute 0 (ctrUpdate input ws).1 (ctrUpdate input ws).2 := by
  apply MetaL.ctr_dup <;> assumption

example : ctrCompute 0 (ctrUpdate ([1, 0, 1] ++ [1, 0, 1]) ([1/2, 1, 2] ++ [1/2, 1, 2])).1 (ctrUpdate ([1, 0, 1] ++ [1, 0, 1]) ([1/2, 1, 2] ++ [1/2, 1, 2])).2 = .val (5/7) := by decide +kernel

/-- the model of `weighted_calibration`. -/
theorem calibration_dup (input target w : List Q) (h1 : input.length = w.length) (h2 : target.length = w.length) :
    xdiv (wcUpdate (input ++ input) (target ++ target) (w ++ w)).1 (wcUpdate (input ++ input) (target ++ target) (w ++ w)).2
      = xdiv (wcUpdate input target w).1 (wcUpdate input target w).2 := by
  apply MetaL.wc_dup <;> assumption

/-- **binary normalized entropy** (arbitrary `ln`, `exp`): states double, `compute` unchanged. -/
theorem bne_dup (ln exp : Q → Q) (fl : Bool) (xs ts ws : List Q) (h1 : xs.length = ts.length) (h2 : ts.length = ws.length) :
    let u := bneUpdate ln exp fl xs ts (some ws)
    let u' := bneUpdate ln exp fl (xs ++ xs) (ts ++ ts) (some (ws ++ ws))
    u' = (2 * u.1, 2 * u.2.1, 2 * u.2.2) ∧ bneCompute ln u'.1 u'.2.1 u'.2.2 = bneCompute ln u.1 u.2.1 u.2.2 :=
  MetaL.bne_dup ln exp fl xs ts ws h1 h2

/-- **perplexity** `exp(Σ nll / #tokens)` on doubled states (arbitrary `exp`). -/
theorem perplexity_dup (exp : Q → Q) (s n : Q) : pplCompute exp (2 * s) (2 * n) = pplCompute exp s n := by
  apply MetaL.pplCompute_dup <;> assumption

/-- `hit_rate` of the duplicated batch is the per-sample vector twice … -/
theorem hit_rate_dup (rows : List (List Q)) (C : Nat) (target : List Int) (k : Option Int)
    (hlen : rows.length = target.length) :
    hitRate (rows ++ rows) C (target ++ target) k = (hitRate rows C target k).map fun l => l ++ l := by
  apply MetaL.hitRate_dup <;> assumption

/-- … likewise `reciprocal_rank` … -/
theorem reciprocal_rank_dup (rows : List (List Q)) (target : List Int) (k : Option Int)
    (hlen : rows.length = target.length) :
    reciprocalRank (rows ++ rows) (target ++ target) k = (reciprocalRank rows target k).map fun l => l ++ l := by
  apply MetaL.reciprocalRank_dup <;> assumption

/-- … so their means are unchanged. -/
theorem hit_rate_mean_dup (rows : List (List Q)) (C : Nat) (target : List Int) (k : Option Int)
    (hlen : rows.length = target.length) :
    (hitRate (rows ++ rows) C (target ++ target) k).map (fun l => xdiv l.sum (l.length : Q))
      = (hitRate rows C target k).map fun l => xdiv l.sum (l.length : Q) := by
  apply MetaL.hitRate_mean_dup <;> assumption

example : (hitRate ([[1, 1/2, 1/2, 0]] ++ [[1, 1/2, 1/2, 0]]) 4 ([2] ++ [2]) (some 2)).map (fun l => xdiv l.sum (l.length : Q)) = (hitRate [[1, 1/2, 1/2, 0]] 4 [2] (some 2)).map fun l => xdiv l.sum (l.length : Q) :=
  hit_rate_mean_dup _ _ _ _ rfl

/-- mean reciprocal rank. -/
theorem reciprocal_rank_mean_dup (rows : List (List Q)) (target : List Int) (k : Option Int)
    (hlen : rows.length = target.length) :
    (reciprocalRank (rows ++ rows) (target ++ target) k).map (fun l => xdiv l.sum (l.length : Q))
      = (reciprocalRank rows target k).map fun l => xdiv l.sum (l.length : Q) := by
  apply MetaL.reciprocalRank_mean_dup <;> assumption

end


/-! ## (d) consistent renaming of the classes

  `PermOn C σ τ`: `σ` permutes `[0, C)` with inverse `τ`.  `relabel σ ps` renames predictions and labels of the (prediction, label)
  pairs; `InRange C ps`: all of them are `< C`.  `permCols σ τ C row`: the logit row whose column `σ c` holds the old column `c`. -/

section
open TE.Count TE.Spec.Count
variable {C : Nat} {σ τ : Nat → Nat}

/-- per-class counts move with the class: true positives of class `σ c` after renaming = those of `c` before … -/
theorem tp_relabel (h : PermOn C σ τ) (ps : Pairs) (hr : InRange C ps) (c : Nat) (hc : c < C) :
    tp (relabel σ ps) (σ c) = tp ps c := by
  apply MetaL.tp_relabel <;> assumption

/-- … false positives … -/
theorem fp_relabel (h : PermOn C σ τ) (ps : Pairs) (hr : InRange C ps) (c : Nat) (hc : c < C) :
    fp (relabel σ ps) (σ c) = fp ps c := by
  apply MetaL.fp_relabel <;> assumption

/-- … false negatives … -/
theorem fn_relabel (h : PermOn C σ τ) (ps : Pairs) (hr : InRange C ps) (c : Nat) (hc : c < C) :
    fn (relabel σ ps) (σ c) = fn ps c := by
  apply MetaL.fn_relabel <;> assumption

/-- … and supports. -/
theorem support_relabel (h : PermOn C σ τ) (ps : Pairs) (hr : InRange C ps) (c : Nat) (hc : c < C) :
    support (relabel σ ps) (σ c) = support ps c := by
  apply MetaL.support_relabel <;> assumption

/-- the **confusion matrix is conjugated**: `cm'[σ t][σ p] = cm[t][p]`. -/
theorem confusion_relabel (h : PermOn C σ τ) (ps : Pairs) (hr : InRange C ps) (t p : Nat)
    (ht : t < C) (hp : p < C) :
    confusion (relabel σ ps) (σ t) (σ p) = confusion ps t p := by
  apply MetaL.confusion_relabel <;> assumption

example : confusion (relabel cyc3 rlPs) (cyc3 1) (cyc3 2) = confusion rlPs 1 2 :=
  confusion_relabel cyc3_perm rlPs rlPs_inRange 1 2 (by decide) (by decide)

/-- per-class precision … -/
theorem precision_relabel (h : PermOn C σ τ) (ps : Pairs) (hr : InRange C ps) (c : Nat) (hc : c < C) :
    precision (relabel σ ps) (σ c) = precision ps c := by
  apply MetaL.precision_relabel <;> assumption

example : precision (relabel cyc3 rlPs) (cyc3 2) = precision rlPs 2 := precision_relabel cyc3_perm rlPs rlPs_inRange 2 (by decide)

/-- … recall … -/
theorem recall_relabel (h : PermOn C σ τ) (ps : Pairs) (hr : InRange C ps) (c : Nat) (hc : c < C) :
    recall (relabel σ ps) (σ c) = recall ps c := by
  apply MetaL.recall_relabel <;> assumption

/-- … F1 of class `σ c` after = of class `c` before. -/
theorem f1_relabel (h : PermOn C σ τ) (ps : Pairs) (hr : InRange C ps) (c : Nat) (hc : c < C) :
    f1 (relabel σ ps) (σ c) = f1 ps c := by
  apply MetaL.f1_relabel <;> assumption

/-- `average=None`: the per-class vector is PERMUTED (entry `c` of the new vector is entry `τ c` of the old one). -/
theorem precision_perclass_relabel (h : PermOn C σ τ) (ps : Pairs) (hr : InRange C ps) :
    (List.range C).map (precision (relabel σ ps)) = (List.range C).map (fun c => precision ps (τ c)) := by
  apply MetaL.precision_perclass_relabel <;> assumption

/-- … recall vector … -/
theorem recall_perclass_relabel (h : PermOn C σ τ) (ps : Pairs) (hr : InRange C ps) :
    (List.range C).map (recall (relabel σ ps)) = (List.range C).map (fun c => recall ps (τ c)) := by
  apply MetaL.recall_perclass_relabel <;> assumption

/-- … F1 vector … -/
theorem f1_perclass_relabel (h : PermOn C σ τ) (ps : Pairs) (hr : InRange C ps) :
    (List.range C).map (f1 (relabel σ ps)) = (List.range C).map (fun c => f1 ps (τ c)) := by
  apply MetaL.f1_perclass_relabel <;> assumption

/-- … per-class accuracy vector (with its `nan`s). -/
theorem class_accuracy_perclass_relabel (h : PermOn C σ τ) (ps : Pairs) (hr : InRange C ps) :
    (List.range C).map (classAccuracy (relabel σ ps))
      = (List.range C).map (fun c => classAccuracy ps (τ c)) := by
  apply MetaL.classAccuracy_perclass_relabel <;> assumption

/-- micro accuracy is invariant. -/
theorem micro_accuracy_relabel (h : PermOn C σ τ) (ps : Pairs) (hr : InRange C ps) :
    microAccuracy (relabel σ ps) = microAccuracy ps := by
  apply MetaL.microAccuracy_relabel <;> assumption

/-- the classes present after renaming are the renamed present classes (up to order) … -/
theorem present_classes_relabel (h : PermOn C σ τ) (ps : Pairs) (hr : InRange C ps) :
    (present (relabel σ ps) C).Perm ((present ps C).map σ) := by
  apply MetaL.present_relabel_perm <;> assumption

/-- … so **macro** averages are invariant … -/
theorem precision_macro_relabel (h : PermOn C σ τ) (ps : Pairs) (hr : InRange C ps) :
    meanX ((present (relabel σ ps) C).map (precision (relabel σ ps)))
      = meanX ((present ps C).map (precision ps)) := by
  apply MetaL.precision_macro_relabel <;> assumption

example : (present (relabel cyc3 rlPs) 3).Perm ((present rlPs 3).map cyc3) := present_classes_relabel cyc3_perm rlPs rlPs_inRange

theorem recall_macro_relabel (h : PermOn C σ τ) (ps : Pairs) (hr : InRange C ps) :
    meanX ((present (relabel σ ps) C).map (recall (relabel σ ps)))
      = meanX ((present ps C).map (recall ps)) := by
  apply MetaL.recall_macro_relabel <;> assumption

theorem f1_macro_relabel (h : PermOn C σ τ) (ps : Pairs) (hr : InRange C ps) :
    meanX ((present (relabel σ ps) C).map (f1 (relabel σ ps)))
      = meanX ((present ps C).map (f1 ps)) := by
  apply MetaL.f1_macro_relabel <;> assumption

/-- … and so are the support-**weighted** averages. -/
theorem precision_weighted_relabel (h : PermOn C σ τ) (ps : Pairs) (hr : InRange C ps) :
    ((present (relabel σ ps) C).map fun c =>
        precision (relabel σ ps) c * ((support (relabel σ ps) c : Q) / ((relabel σ ps).length : Q))).sum
      = ((present ps C).map fun c => precision ps c * ((support ps c : Q) / (ps.length : Q))).sum := by
  apply MetaL.precision_weighted_relabel <;> assumption

theorem recall_weighted_relabel (h : PermOn C σ τ) (ps : Pairs) (hr : InRange C ps) :
    ((present (relabel σ ps) C).map fun c =>
        recall (relabel σ ps) c * ((support (relabel σ ps) c : Q) / ((relabel σ ps).length : Q))).sum
      = ((present ps C).map fun c => recall ps c * ((support ps c : Q) / (ps.length : Q))).sum := by
  apply MetaL.recall_weighted_relabel <;> assumption

theorem f1_weighted_relabel (h : PermOn C σ τ) (ps : Pairs) (hr : InRange C ps) :
    ((present (relabel σ ps) C).map fun c =>
        f1 (relabel σ ps) c * ((support (relabel σ ps) c : Q) / ((relabel σ ps).length : Q))).sum
      = ((present ps C).map fun c => f1 ps c * ((support ps c : Q) / (ps.length : Q))).sum := by
  apply MetaL.f1_weighted_relabel <;> assumption

/-- macro accuracy (mean of `tp/support` over the classes with support). -/
theorem macro_accuracy_relabel (h : PermOn C σ τ) (ps : Pairs) (hr : InRange C ps) :
    meanX (((List.range C).filter fun c => support (relabel σ ps) c != 0).map fun c =>
        (tp (relabel σ ps) c : Q) / (support (relabel σ ps) c : Q))
      = meanX (((List.range C).filter fun c => support ps c != 0).map fun c =>
        (tp ps c : Q) / (support ps c : Q)) := by
  apply MetaL.macroAccuracy_relabel <;> assumption

/-- the model of `multiclass_precision` on renamed label-predictions and labels (through `C04.precision_pipeline`): `None` permuted,
    macro / weighted / micro invariant. -/
theorem precision_model_relabel (h : PermOn C σ τ) (preds labs : List Nat)
    (hlen : preds.length = labs.length)
    (hp : preds.all (· < C) = true) (hl : labs.all (· < C) = true) :
    (precisionUpdate (preds.map σ) (labs.map σ) .none C).map (precisionCompute · .none)
        = (precisionUpdate preds labs .none C).map (fun s =>
            (List.range C).map fun c => (precisionCompute s .none).getD (τ c) (.val 0)) ∧
    ∀ avg ∈ [Avg.macro, .weighted, .micro],
      (precisionUpdate (preds.map σ) (labs.map σ) avg C).map (precisionCompute · avg)
        = (precisionUpdate preds labs avg C).map (precisionCompute · avg) := by
  apply MetaL.precision_model_relabel <;> assumption

example : PermOn 3 cyc3 cyc3inv ∧ ([0, 2, 1, 2] : List Nat).length = ([0, 1, 1, 2] : List Nat).length := ⟨cyc3_perm, rfl⟩

/-- the model of `multiclass_recall`. -/
theorem recall_model_relabel (h : PermOn C σ τ) (preds labs : List Nat)
    (hlen : preds.length = labs.length)
    (hp : preds.all (· < C) = true) (hl : labs.all (· < C) = true) :
    (recallUpdate (preds.map σ) (labs.map σ) .none C).map (recallCompute · .none)
        = (recallUpdate preds labs .none C).map (fun s =>
            (List.range C).map fun c => (recallCompute s .none).getD (τ c) (.val 0)) ∧
    ∀ avg ∈ [Avg.macro, .weighted, .micro],
      (recallUpdate (preds.map σ) (labs.map σ) avg C).map (recallCompute · avg)
        = (recallUpdate preds labs avg C).map (recallCompute · avg) := by
  apply MetaL.recall_model_relabel <;> assumption

/-- the model of `multiclass_f1_score`. -/
theorem f1_model_relabel (h : PermOn C σ τ) (preds labs : List Nat)
    (hlen : preds.length = labs.length)
    (hp : preds.all (· < C) = true) (hl : labs.all (· < C) = true) :
    (recallUpdate (preds.map σ) (labs.map σ) .none C).map (f1Compute · .none)
        = (recallUpdate preds labs .none C).map (fun s =>
            (List.range C).map fun c => (f1Compute s .none).getD (τ c) (.val 0)) ∧
    ∀ avg ∈ [Avg.macro, .weighted, .micro],
      (recallUpdate (preds.map σ) (labs.map σ) avg C).map (f1Compute · avg)
        = (recallUpdate preds labs avg C).map (f1Compute · avg) := by
  apply MetaL.f1_model_relabel <;> assumption

/-- the model of `multiclass_accuracy`: `None` permuted, macro / micro invariant. -/
theorem accuracy_model_relabel (h : PermOn C σ τ) (preds labs : List Nat)
    (hlen : preds.length = labs.length)
    (hp : preds.all (· < C) = true) (hl : labs.all (· < C) = true) :
    (mcAccFromMask (mcMaskLabel (preds.map σ) (labs.map σ)) (labs.map σ) .none C).map
        (fun r => accuracyCompute r.1 r.2 .none)
      = (mcAccFromMask (mcMaskLabel preds labs) labs .none C).map (fun r =>
          (List.range C).map fun c => (accuracyCompute r.1 r.2 .none).getD (τ c) .nan) ∧
    ∀ avg ∈ [Avg.macro, .micro],
      (mcAccFromMask (mcMaskLabel (preds.map σ) (labs.map σ)) (labs.map σ) avg C).map
          (fun r => accuracyCompute r.1 r.2 avg)
        = (mcAccFromMask (mcMaskLabel preds labs) labs avg C).map
          (fun r => accuracyCompute r.1 r.2 avg) := by
  apply MetaL.accuracy_model_relabel <;> assumption

example : rlPreds.length = rlLabs.length ∧ rlPreds.all (· < 3) = true ∧ rlLabs.all (· < 3) = true := by decide

/-- the model of `multiclass_confusion_matrix`: conjugated. -/
theorem confusion_model_relabel (h : PermOn C σ τ) (preds labs : List Nat)
    (hp : preds.all (· < C) = true) (hl : labs.all (· < C) = true) :
    ∃ m m', confusionUpdate preds labs C = .ok m ∧
      confusionUpdate (preds.map σ) (labs.map σ) C = .ok m' ∧
      ∀ t p, t < C → p < C → (m'.getD (σ t) []).getD (σ p) 0 = (m.getD t []).getD p 0 := by
  apply MetaL.confusion_model_relabel <;> assumption

example : ∃ m m', confusionUpdate [0, 2, 1, 2] [0, 1, 1, 2] 3 = .ok m ∧ confusionUpdate ([0, 2, 1, 2].map cyc3) ([0, 1, 1, 2].map cyc3) 3 = .ok m' ∧
    ∀ t p, t < 3 → p < 3 → (m'.getD (cyc3 t) []).getD (cyc3 p) 0 = (m.getD t []).getD p 0 :=
  confusion_model_relabel cyc3_perm _ _ (by decide) (by decide)

/-- predictions given as LOGITS with permuted columns: top-k correctness counts strictly greater scores, so NO tie hypothesis is needed. -/
theorem topk_correct_permuted_columns (h : PermOn C σ τ) (row : List Q) (hrow : row.length = C)
    (lab : Nat) (hl : lab < C) (k : Nat) :
    topkCorrect (permCols σ τ C row) (σ lab) k = topkCorrect row lab k := by
  apply MetaL.topkCorrect_permCols <;> assumption

example : topkCorrect (permCols cyc3 cyc3inv 3 [1/2, 1/2, 1]) (cyc3 0) 2 = topkCorrect [1/2, 1/2, 1] 0 2 :=
  topk_correct_permuted_columns cyc3_perm _ rfl 0 (by decide) 2

/-- the `k > 1` correctness mask of `multiclass_accuracy`. -/
theorem topk_mask_permuted_columns (h : PermOn C σ τ) (rows : List (List Q)) (labs : List Nat) (k : Nat)
    (hrows : ∀ r ∈ rows, r.length = C) (hl : ∀ l ∈ labs, l < C) :
    mcMaskTopk (rows.map (permCols σ τ C)) (labs.map σ) k = mcMaskTopk rows labs k := by
  apply MetaL.mcMaskTopk_permCols <;> assumption

/-- `torch.argmax` returns the FIRST maximal index: it commutes with the column permutation when the row maximum is unique … -/
theorem argmax_permuted_columns (h : PermOn C σ τ) (row : List Q) (hrow : row.length = C) (hC : 0 < C)
    (huniq : ∀ j, j < C → j ≠ argmaxFirst row → row.getD j 0 < row.getD (argmaxFirst row) 0) :
    argmaxFirst (permCols σ τ C row) = σ (argmaxFirst row) := by
  apply MetaL.argmaxFirst_permCols <;> assumption

example : argmaxFirst (permCols cyc3 cyc3inv 3 [1, 3, 2]) = cyc3 (argmaxFirst [1, 3, 2]) :=
  argmax_permuted_columns cyc3_perm _ rfl (by decide) (by decide +kernel)

/-- … batch version: the arg-max predictions are the renamed predictions. -/
theorem argmax_preds_permuted_columns (h : PermOn C σ τ) (rows : List (List Q)) (hC : 0 < C)
    (hrows : ∀ r ∈ rows, r.length = C)
    (huniq : ∀ r ∈ rows, ∀ j, j < C → j ≠ argmaxFirst r → r.getD j 0 < r.getD (argmaxFirst r) 0) :
    (rows.map (permCols σ τ C)).map argmaxFirst = (rows.map argmaxFirst).map σ := by
  apply MetaL.argmax_preds_permCols <;> assumption

/-- … and NOT when two columns tie at the maximum (decided instance: the sample is counted correct before and wrong after the renaming).
    Documented first-index tie-breaking, not a defect; full statement without `huniq` is false. -/
theorem argmax_permuted_columns_tie_witness :
    PermOn 2 swap2 swap2 ∧ permCols swap2 swap2 2 [1, 1] = [1, 1] ∧
    argmaxFirst [1, 1] = 0 ∧ argmaxFirst (permCols swap2 swap2 2 [1, 1]) = 0 ∧ swap2 0 = 1 ∧
    mcMaskLabel [argmaxFirst [1, 1]] [0] = [1] ∧
    mcMaskLabel [argmaxFirst (permCols swap2 swap2 2 [1, 1])] [swap2 0] = [0] :=
  MetaL.argmaxFirst_permCols_tie_witness

end

section
open TE.Spec.Curve
variable {C : Nat} {σ τ : Nat → Nat}

/-- one-vs-rest curve metrics: AUROC / AUPRC of class `σ c` on a score column under renamed labels = those of class `c` under the labels. -/
theorem ovr_auroc_auprc_relabel (h : PermOn C σ τ) (c : Nat) (hc : c < C) (col : List Q)
    (labs : List Nat) (hl : ∀ l ∈ labs, l < C) :
    auroc (ovrSamples (σ c) col (labs.map fun l => ((σ l : Nat) : Q)))
        = auroc (ovrSamples c col (labs.map fun l => ((l : Nat) : Q))) ∧
    auprc (ovrLS (σ c) col (labs.map fun l => ((σ l : Nat) : Q)))
        = auprc (ovrLS c col (labs.map fun l => ((l : Nat) : Q))) := by
  apply MetaL.ovr_auroc_auprc_relabel <;> assumption

/-- … the same for the model's per-class routine of `multiclass_auroc`. -/
theorem multiclass_auroc_class_relabel (h : PermOn C σ τ) (c : Nat) (hc : c < C) (col : List Q)
    (labs : List Nat) (hl : ∀ l ∈ labs, l < C) :
    TE.Curve.aurocCore (TE.Curve.ovrPts (σ c) col (labs.map fun l => ((σ l : Nat) : Q)))
      = TE.Curve.aurocCore (TE.Curve.ovrPts c col (labs.map fun l => ((l : Nat) : Q))) := by
  apply MetaL.aurocCore_ovr_relabel <;> assumption

/-- … and column `σ c` of the permuted logits is column `c` of the logits. -/
theorem column_permuted (h : PermOn C σ τ) (rows : List (List Q)) (c : Nat) (hc : c < C) :
    (rows.map (permCols σ τ C)).map (fun r => r.getD (σ c) 0) = rows.map (fun r => r.getD c 0) := by
  apply MetaL.column_permCols <;> assumption

/-- the model of `multiclass_auroc` on permuted score columns (`permColumns`: new column `σ c` = old column `c`) and renamed labels:
    `average=None` returns the per-class values PERMUTED (entry `j` is the old entry `τ j`), `macro` is invariant. -/
theorem multiclass_auroc_relabel (h : PermOn C σ τ) (cols : List (List Q)) (hC : cols.length = C)
    (labs : List Nat) (hl : ∀ l ∈ labs, l < C) (hne : labs ≠ [])
    (hlen : ∀ col ∈ cols, col.length = labs.length) :
    Curve.multiclassAuroc (permColumns σ τ C cols) (labs.map fun l => ((σ l : Nat) : Q)) .none
        = .ok ((List.range C).map fun j =>
            XQ.val (auroc (ovrSamples (τ j) (cols.getD (τ j) []) (labs.map fun l => ((l : Nat) : Q))))) ∧
    Curve.multiclassAuroc cols (labs.map fun l => ((l : Nat) : Q)) .none
        = .ok ((List.range C).map fun j =>
            XQ.val (auroc (ovrSamples j (cols.getD j []) (labs.map fun l => ((l : Nat) : Q))))) ∧
    Curve.multiclassAuroc (permColumns σ τ C cols) (labs.map fun l => ((σ l : Nat) : Q)) .macro
        = Curve.multiclassAuroc cols (labs.map fun l => ((l : Nat) : Q)) .macro := by
  apply MetaL.multiclassAuroc_relabel <;> assumption

example : Curve.multiclassAuroc (permColumns cyc3 cyc3inv 3 [[1/2, 1/4, 1], [1/4, 1/2, 0], [1, 0, 1/2]]) ([0, 1, 2].map fun l => ((cyc3 l : Nat) : Q)) .macro
    = Curve.multiclassAuroc [[1/2, 1/4, 1], [1/4, 1/2, 0], [1, 0, 1/2]] ([0, 1, 2].map fun l => ((l : Nat) : Q)) .macro :=
  (multiclass_auroc_relabel cyc3_perm _ rfl _ (by decide) (by decide) (by decide)).2.2

/-- the model of `multiclass_auprc`: `None` permuted, `macro` invariant. -/
theorem multiclass_auprc_relabel (h : PermOn C σ τ) (cols : List (List Q)) (hC : cols.length = C)
    (labs : List Nat) (hl : ∀ l ∈ labs, l < C) (hne : labs ≠ [])
    (hlen : ∀ col ∈ cols, col.length = labs.length) :
    Curve.multiclassAuprc (permColumns σ τ C cols) (labs.map fun l => ((σ l : Nat) : Q)) .none
        = .ok ((List.range C).map fun j =>
            XQ.val (auprc (ovrLS (τ j) (cols.getD (τ j) []) (labs.map fun l => ((l : Nat) : Q))))) ∧
    Curve.multiclassAuprc cols (labs.map fun l => ((l : Nat) : Q)) .none
        = .ok ((List.range C).map fun j =>
            XQ.val (auprc (ovrLS j (cols.getD j []) (labs.map fun l => ((l : Nat) : Q))))) ∧
    Curve.multiclassAuprc (permColumns σ τ C cols) (labs.map fun l => ((σ l : Nat) : Q)) .macro
        = Curve.multiclassAuprc cols (labs.map fun l => ((l : Nat) : Q)) .macro := by
  apply MetaL.multiclassAuprc_relabel <;> assumption

end

end TE.C17
