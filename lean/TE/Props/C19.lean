/-
  C19 — accumulated counts stay exact over long histories.
  An accumulator of significand width p counts exactly up to 2^p; torch's default float32
  (p = 24) stops counting at 16 777 216.  Per (class, state) the accumulator dtype is read
  off the real objects on every run (harness/translators/dtypes.py → TE/Gen/Dtypes.lean).
-/
import TE.Model.Accum
import TE.Gen.Dtypes
namespace TE.C19
open TE.Accum

theorem dropBits_eq_zero {p n : Nat} (hp : 0 < p) (h : n < 2 ^ p) : dropBits p n = 0 := by
  unfold dropBits
  by_cases hn : n = 0
  · subst hn
    have : Nat.log2 0 = 0 := by decide
    omega
  · have : Nat.log2 n < p := (Nat.log2_lt hn).mpr h
    omega

/-- a value below 2^p is representable: rounding is the identity. -/
theorem roundNE_exact {p n : Nat} (hp : 0 < p) (h : n < 2 ^ p) : roundNE p n = n := by
  simp [roundNE, dropBits_eq_zero hp h]

/-- 2^p itself is representable. -/
theorem roundNE_pow (p : Nat) (hp : 0 < p) : roundNE p (2 ^ p) = 2 ^ p := by
  have hl : Nat.log2 (2 ^ p) = p := Nat.log2_two_pow
  have hk : dropBits p (2 ^ p) = 1 := by unfold dropBits; rw [hl]; omega
  obtain ⟨q, rfl⟩ : ∃ q, p = q + 1 := ⟨p - 1, by omega⟩
  have e : 2 ^ (q + 1) = 2 * 2 ^ q := by rw [Nat.pow_succ]; omega
  have hr : 2 ^ (q + 1) % 2 ^ 1 = 0 := by rw [e]; omega
  have hq : 2 ^ (q + 1) / 2 ^ 1 * 2 ^ 1 = 2 ^ (q + 1) := by rw [e]; omega
  unfold roundNE
  simp only [hk, hr]
  have hh : (2 : Nat) ^ 1 / 2 = 1 := by decide
  rw [hh]
  simp [hq]

/-- one `+=` is exact while the total does not exceed 2^p. -/
theorem addR_exact {p a b : Nat} (hp : 0 < p) (h : a + b ≤ 2 ^ p) : addR p a b = a + b := by
  unfold addR
  rcases Nat.lt_or_eq_of_le h with h | h
  · exact roundNE_exact hp h
  · rw [h]; exact roundNE_pow p hp

/-- **C19**: any history of updates (many small or few large) whose true total stays
    ≤ 2^p is accumulated exactly. -/
theorem accumulate_exact {p : Nat} (hp : 0 < p) (xs : List Nat) (h : xs.sum ≤ 2 ^ p) :
    accumulate p xs = xs.sum := by
  unfold accumulate
  suffices ∀ (a : Nat), a + xs.sum ≤ 2 ^ p → xs.foldl (addR p) a = a + xs.sum by
    simpa using this 0 (by simpa using h)
  clear h
  induction xs with
  | nil => intro a _; simp
  | cons x xs ih =>
    intro a ha
    simp only [List.foldl_cons, List.sum_cons] at ha ⊢
    rw [addR_exact hp (by omega), ih (a + x) (by omega)]
    omega

/-- …and beyond it counting silently stops: a float32 counter at 2^24 ignores one more sample
    (and keeps ignoring single samples forever). -/
theorem float32_saturates : addR 24 (2 ^ 24) 1 = 2 ^ 24 := by decide +kernel

theorem float32_stuck (k : Nat) : (List.replicate k 1).foldl (addR 24) (2 ^ 24) = 2 ^ 24 := by
  induction k with
  | zero => rfl
  | succ k ih => simp only [List.replicate_succ, List.foldl_cons]; rw [float32_saturates, ih]

theorem float64_counts_past_float32 : addR 53 (2 ^ 24) 1 = 2 ^ 24 + 1 := by decide +kernel

/-! ### generated table: dtype of every count/sum accumulator, observed on the real objects -/

/-- wide enough for the property's range (totals up to 2^53). -/
def wideEnough (a : Gen.Accumulator) : Bool := decide (53 ≤ width a.dtype)

/-- the accumulators that are too narrow are exactly these (each is a recorded finding
    `C19|<Class>|<state>|float32-saturates`); every other accumulator counts exactly to 2^53. -/
theorem narrow_accumulators :
    (Gen.accumulators.filter fun a => !wideEnough a).map (fun a => (a.cls, a.state)) = Gen.expectedNarrow := by
  decide +kernel

example : 0 < (24 : Nat) ∧ [2 ^ 23, 2 ^ 23].sum ≤ 2 ^ 24 := by decide

end TE.C19
