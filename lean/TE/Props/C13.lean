/-
  C13 — windowed metrics report exactly the last N updates/samples; lifetime values
  report everything; compute() succeeds whenever the window is non-empty.
  (+ the windowed clause of C01: `merge_state` pools the live windows.)

  Update-granular classes (WindowedClickThroughRate, WindowedWeightedCalibration,
  WindowedBinaryNormalizedEntropy, WindowedMeanSquaredError): the driver executes
  `ringImpl partsAcc N whole stat render empty`; every theorem below is stated for an
  ARBITRARY accumulator `M` with commutative-monoid laws, arbitrary `stat` / `render`,
  every window size N ≥ 1 and every update sequence — so one proof serves all four
  (`whole = true` is WindowedMeanSquaredError, which always sums the whole buffer).
  Specification: TE/Spec/Window.lean (remember everything, take the last N).
  Helper lemmas: TE/Lemmas/Window*.lean.
-/
import TE.Model.Window
import TE.Spec.Window
import TE.Lemmas.Window
import TE.Lemmas.WindowMerge
import TE.Lemmas.WindowAuroc
namespace TE.C13
open TE TE.Window TE.Spec.Window TE.WindowL

variable {α B O : Type}

/-- accumulator used by the non-vacuity examples and the `decide`d witnesses:
    naturals under +; entries are distinct powers of two, so a sum identifies the
    set of entries it was taken over. -/
def natAcc : Acc Nat := ⟨0, (· + ·)⟩

theorem natAcc_laws : CommLaws natAcc where
  assoc := by intro a b c; simp only [natAcc]; omega
  add_zero := by intro a; simp only [natAcc]; omega
  zero_add := by intro a; simp only [natAcc]; omega
  comm := by intro a b; simp only [natAcc]; omega

/-! ## 1. the ring-buffer invariant -/

/-- **ring_inv**: after any update sequence `us` (any window size N ≥ 1) the counters are
    `total = |us|`, `next = |us| mod N`; while the window is not yet full the buffer is the
    history followed by zero slots; once it is full, slot `(next + k) mod N` holds the k-th of
    the last N updates (oldest first). -/
theorem ring_inv (M : Acc α) (N : Nat) (hN : 1 ≤ N) (us : List α) :
    (Ring.run M N us).cap = N ∧
    (Ring.run M N us).total = us.length ∧
    (Ring.run M N us).next = us.length % N ∧
    (Ring.run M N us).buf.length = N ∧
    (us.length < N → (Ring.run M N us).buf = us ++ List.replicate (N - us.length) M.zero) ∧
    (N ≤ us.length → ∀ k, k < N →
      (Ring.run M N us).buf[((Ring.run M N us).next + k) % N]? = (lastN N us)[k]?) := by
  have h := rinv_run M N hN us
  exact ⟨h.cap, h.total, h.next, h.len, fun hlt => (rinv_short M N _ us h hlt).2,
    fun hge k hk => rinv_long_index M N _ us h hge k hk⟩

example : (Ring.run natAcc 3 [1, 2, 4, 8, 16]).buf = [8, 16, 4] ∧
    (Ring.run natAcc 3 [1, 2, 4, 8, 16]).next = 2 ∧ lastN 3 [1, 2, 4, 8, 16] = [4, 8, 16] := by decide

/-! ## 2. windowed value = non-windowed metric on the last N updates; lifetime = on all -/

/-- **C13_window_eq**: the sums `compute()` forms over the ring buffer are the non-windowed
    metric's state on exactly the last N updates (all of them when fewer have arrived). -/
theorem C13_window_eq (M : Acc α) (L : CommLaws M) (N : Nat) (hN : 1 ≤ N) (whole : Bool)
    (us : List α) :
    (Ring.run M N us).windowed M whole = windowedSpec M N us :=
  windowed_eq M L N whole _ us (rinv_run M N hN us)

/-- **C13_lifetime_eq**: the lifetime accumulators are the non-windowed metric's state on everything. -/
theorem C13_lifetime_eq (M : Acc α) (N : Nat) (hN : 1 ≤ N) (us : List α) :
    (Ring.run M N us).life = lifetimeSpec M us :=
  (rinv_run M N hN us).life

example : (Ring.run natAcc 3 [1, 2, 4, 8, 16]).windowed natAcc false = 4 + 8 + 16 ∧
    (Ring.run natAcc 3 [1, 2]).windowed natAcc false = 1 + 2 ∧
    (Ring.run natAcc 3 [1, 2]).windowed natAcc true = 1 + 2 ∧
    (Ring.run natAcc 3 [1, 2, 4, 8, 16]).life = 31 := by decide

/-- the statistics of the four classes live in `Parts` (per-task vectors, zero-padding addition). -/
theorem C13_window_eq_parts (N : Nat) (hN : 1 ≤ N) (whole : Bool) (us : List Parts) :
    (Ring.run partsAcc N us).windowed partsAcc whole = windowedSpec partsAcc N us ∧
    (Ring.run partsAcc N us).life = lifetimeSpec partsAcc us :=
  ⟨C13_window_eq partsAcc partsAcc_laws N hN whole us, C13_lifetime_eq partsAcc N hN us⟩

/-- **the class**: a single instance fed any accepted batches returns from `compute()` what the
    queue specification returns — empty tensors before the first update, else
    `render (non-windowed on all) (non-windowed on the last N)`. -/
theorem C13_class_eq_spec (M : Acc α) (L : CommLaws M) (N : Nat) (hN : 1 ≤ N) (whole : Bool)
    (stat : B → Except Err α) (render : α → α → Except Err O) (empty : O) (bs : List B)
    (hb : ∀ b ∈ bs, ∃ a, stat b = .ok a) :
    ∃ s, eval (ringImpl M N whole stat render empty) (single bs) = .ok s ∧
      (ringImpl M N whole stat render empty).out s
        = computeSpec M N render empty (bs.map (statT M stat)) :=
  ⟨_, eval_single_ring M N whole stat render empty bs hb,
    out_run_eq_spec M L N hN whole stat render empty _⟩

/-- **compute() succeeds whenever the window is non-empty** (the value formulas of the four
    classes never raise: `hr`), and then shows the lifetime and last-N values. -/
theorem C13_compute_ok (M : Acc α) (L : CommLaws M) (N : Nat) (hN : 1 ≤ N) (whole : Bool)
    (stat : B → Except Err α) (render : α → α → Except Err O) (empty : O) (us : List α)
    (hne : us ≠ []) (hr : ∀ l w, ∃ o, render l w = .ok o) :
    ∃ o, (ringImpl M N whole stat render empty).out (Ring.run M N us) = .ok o ∧
      render (lifetimeSpec M us) (windowedSpec M N us) = .ok o := by
  rw [out_run_eq_spec M L N hN whole stat render empty us]
  obtain ⟨o, ho⟩ := hr (lifetimeSpec M us) (windowedSpec M N us)
  refine ⟨o, ?_, ho⟩
  simp only [computeSpec, hne, if_false, ho]

example :
    let stat : Nat → Except Err Nat := fun n => if n = 0 then .error .value else .ok n
    let render : Nat → Nat → Except Err (Nat × Nat) := fun l w => .ok (l, w)
    (eval (ringImpl natAcc 2 false stat render (0, 0)) (single [1, 2, 4])).toOption.bind
      (fun s => ((ringImpl natAcc 2 false stat render (0, 0)).out s).toOption) = some (7, 6) := by
  decide

/-- `reset()` (which since the `fix:` commit also zeroes `next_inserted`) returns the
    freshly constructed state, whatever happened before — cursor included. -/
theorem C13_reset_init (M : Acc α) (N : Nat) (whole : Bool) (stat : B → Except Err α)
    (render : α → α → Except Err O) (empty : O) (h : Hist B) (s : Ring α)
    (he : eval (ringImpl M N whole stat render empty) (.reset h) = .ok s) :
    s = Ring.init M N ∧ s.next = 0 ∧ s.total = 0 := by
  have := reset_forgets h s he
  subst this
  exact ⟨rfl, rfl, rfl⟩

theorem C13_auroc_reset_init (T N : Nat) (cols : B → Except Err (List Col)) (render : AOut → O)
    (h : Hist B) (s : SBuf) (he : eval (aurocImpl T N cols render) (.reset h) = .ok s) :
    s = SBuf.init T N ∧ s.next = 0 := by
  have := reset_forgets h s he
  subst this
  exact ⟨rfl, rfl⟩

/-! ## 3. WindowedBinaryAUROC (sample-granular)

Full statement (FALSE for the code as it is — see the three witnesses below):
    ∀ T N bs, 1 ≤ N → bs.flatten ≠ [] →
      (SBuf.run T N bs).compute = binaryAuroc T (sampleWindow N bs)              -/

/-- the sample buffer after any batches (any sizes: larger than the window, fitting, wrapping):
    read from the cursor on it is the last N samples of the zero-padded history. -/
theorem C13_auroc_inv (T N : Nat) (hN : 1 ≤ N) (bs : List (List Col)) :
    (SBuf.run T N bs).buf.length = N ∧ (SBuf.run T N bs).next < N ∧
    (SBuf.run T N bs).total = bs.flatten.length ∧
    rot (SBuf.run T N bs).buf (SBuf.run T N bs).next
      = lastN N (List.replicate N (zeroCol T) ++ bs.flatten) := by
  have h := sinv_run T N hN bs
  exact ⟨h.len, h.next, h.total, h.rot⟩

/-- **C13_auroc_partial**: windowed AUROC = `binary_auroc` on the last N samples, provided
    (S) the live window holds at least two samples — which also gives (T1) `num_tasks = 1 ∨ live ≥ 2` —
    and (Z) once the buffer is full, not every score beyond the cursor is exactly 0. -/
theorem C13_auroc_partial (T N : Nat) (hN : 1 ≤ N) (bs : List (List Col))
    (hS : 2 ≤ min bs.flatten.length N)
    (hZ : N ≤ bs.flatten.length → (SBuf.run T N bs).zeroBeyond = false) :
    (SBuf.run T N bs).compute = binaryAuroc T (sampleWindow N bs) :=
  auroc_compute_eq T N hN bs hS hZ

/-- (Z) holds in particular when no live sample has score 0 (in every task). -/
theorem C13_auroc_nonzero_scores (T N : Nat) (hN : 1 ≤ N) (bs : List (List Col))
    (hS : 2 ≤ min bs.flatten.length N)
    (hNZ : ∀ c ∈ sampleWindow N bs, colZero c = false) :
    (SBuf.run T N bs).compute = binaryAuroc T (sampleWindow N bs) :=
  auroc_compute_eq T N hN bs hS (fun hge => zeroBeyond_false_of_nonzero T N hN bs hge hNZ)

/-- non-vacuity: N = 3, batches of sizes 2, 2, 1 (fits, wraps, fits); the window [¼,½,½]
    with targets [0,1,0] has AUROC ¾ (one win, one tie). -/
def exampleBatches : List (List Col) :=
  [[[(1, 1, 1)], [(1/2, 0, 1)]], [[(1/4, 0, 1)], [(1/2, 1, 1)]], [[(1/2, 0, 1)]]]

example :
    2 ≤ min exampleBatches.flatten.length 3 ∧ (SBuf.run 1 3 exampleBatches).zeroBeyond = false ∧
    (SBuf.run 1 3 exampleBatches).compute = .ok (.scalar (3/4)) ∧
    binaryAuroc 1 (sampleWindow 3 exampleBatches) = .ok (.scalar (3/4)) := by
  decide +kernel

/-- **Wit** one live sample, one task: `squeeze()` makes the tensors 0-dim and `compute()` raises,
    although the window is not empty (`binary_auroc` of that sample is 0.5). -/
theorem C13_auroc_single_sample_raises :
    (SBuf.run 1 3 [[[(1/2, 1, 1)]]]).compute = .error .runtime ∧
    binaryAuroc 1 (sampleWindow 3 [[[((1/2 : Q), (1 : Q), (1 : Q))]]]) = .ok (.scalar (1/2)) := by
  decide +kernel

/-- **Wit** two tasks, one live sample: `squeeze()` turns (2,1) into (2,) and the two tasks are
    scored as two samples of one task — a single number 1 instead of [½, ½]. -/
theorem C13_auroc_two_tasks_one_sample_mixes :
    (SBuf.run 2 3 [[[(1/2, 1, 1), (1/4, 0, 1)]]]).compute = .ok (.scalar 1) ∧
    binaryAuroc 2 (sampleWindow 3 [[[((1/2 : Q), (1 : Q), (1 : Q)), (1/4, 0, 1)]]])
      = .ok (.vec [1/2, 1/2]) := by
  decide +kernel

/-- **Wit** a wrapped window whose slots beyond the cursor all hold score 0 is taken for
    unfilled: N = 4, scores [¾,0,0,0] then [½]; the live window [0,0,0,½] (AUROC ¾) is cut to
    the single sample in front of the cursor and `compute()` raises. -/
theorem C13_auroc_zero_scores_dropped :
    (SBuf.run 1 4 [[[(3/4, 1, 1)], [(0, 0, 1)], [(0, 1, 1)], [(0, 0, 1)]], [[(1/2, 1, 1)]]]).compute
      = .error .runtime ∧
    binaryAuroc 1 (sampleWindow 4
      [[[((3/4 : Q), (1 : Q), (1 : Q))], [(0, 0, 1)], [(0, 1, 1)], [(0, 0, 1)]], [[(1/2, 1, 1)]]])
      = .ok (.scalar (3/4)) := by
  decide +kernel

/-! ## 4. C01, windowed clause: `merge_state` pools the live windows

Full statement (FALSE for the code as it is — see the two witnesses below): for every history
of updates and merges the windowed value is the non-windowed metric over the pooled live windows. -/

/-- **C01_window_flat_partial**: ONE flat `merge_state` of metrics that were only ever updated
    (target fresh or updated, any window sizes ≥ 1, any numbers of updates incl. none and wrapped)
    pools exactly the live entries: the windowed sums are the non-windowed metric over
    `lastN N target ++ lastN Nᵢ sourceᵢ …`, the lifetime sums over everything. -/
theorem C01_window_flat_partial (M : Acc α) (L : CommLaws M) (N : Nat) (hN : 1 ≤ N) (whole : Bool)
    (ut : List α) (srcs : List (Nat × List α)) (hs : ∀ p ∈ srcs, 1 ≤ p.1) :
    ((Ring.run M N ut).merge M (runs M srcs)).windowed M whole = pooledSpec M N ut srcs ∧
    ((Ring.run M N ut).merge M (runs M srcs)).life
      = lifetimeSpec M (ut ++ srcs.flatMap fun p => p.2) :=
  ⟨merge_flat_windowed M L N hN whole ut srcs hs, merge_flat_life M L.toLaws N hN ut srcs hs⟩

example :
    ((Ring.run natAcc 3 [1, 2, 4, 8]).merge natAcc (runs natAcc [(2, [16, 32, 64]), (3, []), (3, [128])])).windowed natAcc false
      = (2 + 4 + 8) + (32 + 64) + 128 ∧
    pooledSpec natAcc 3 [1, 2, 4, 8] [(2, [16, 32, 64]), (3, []), (3, [128])] = (2 + 4 + 8) + (32 + 64) + 128 := by
  decide

/-- **Wit** sequential merges drop a window: `t.merge([a]); t.merge([b])` with window size 3,
    t fed [1,2], a fed [4,8], b fed [16].  The second merge sizes the new buffer from the
    un-updated `max_num_updates` and copies only `min(total,max) = 3` leading slots: entry 8 is lost
    (23 instead of 31). -/
theorem C01_window_sequential_merge_drops :
    (((Ring.run natAcc 3 [1, 2]).merge natAcc [Ring.run natAcc 3 [4, 8]]).merge natAcc
        [Ring.run natAcc 3 [16]]).windowed natAcc false = 1 + 2 + 4 + 16 ∧
    pooledSpec natAcc 3 [1, 2] [(3, [4, 8]), (3, [16])] = 1 + 2 + 4 + 8 + 16 := by
  decide

/-- **Wit** an update after a merge overwrites a live slot: window size 3, t fed [1,2] merges a fed
    [4,8]; the merged buffer [1,2,4,8,0,0] has room, but the cursor is `4 mod 3 = 1`, so the next
    update (16) replaces entry 2 — neither kept nor the oldest. -/
theorem C01_window_update_after_merge_overwrites :
    (((Ring.run natAcc 3 [1, 2]).merge natAcc [Ring.run natAcc 3 [4, 8]]).push natAcc 16).buf
      = [1, 16, 4, 8, 0, 0] ∧
    (((Ring.run natAcc 3 [1, 2]).merge natAcc [Ring.run natAcc 3 [4, 8]]).push natAcc 16).windowed natAcc false
      = 1 + 16 + 4 + 8 := by
  decide

/-- **Wit** (WindowedBinaryAUROC, which does update `max_num_samples`): merging copies the buffers in
    slot order and restarts the cursor, so after merging a wrapped target (window 3, fed ½,⅛ then ¾,¼:
    buffer [¼,⅛,¾], oldest entry ⅛) with a full source, the next sample evicts the target's NEWEST
    sample ¼ (slot 0) instead of its oldest: AUROC ½ instead of 2/9 for the newest six samples. -/
theorem C01_auroc_update_after_merge_evicts_newest :
    (((SBuf.run 1 3 [[[(1/2, 1, 1)], [(1/8, 0, 1)]], [[(3/4, 1, 1)], [(1/4, 1, 1)]]]).merge
        [SBuf.run 1 3 [[[(5/8, 0, 1)], [(3/8, 1, 1)], [(7/8, 0, 1)]]]]).update [[(1/2, 0, 1)]]).compute
      = .ok (.scalar (1/2)) ∧
    binaryAuroc 1 [[((3/4 : Q), (1 : Q), (1 : Q))], [(1/4, 1, 1)], [(5/8, 0, 1)], [(3/8, 1, 1)], [(7/8, 0, 1)],
        [(1/2, 0, 1)]] = .ok (.scalar (2/9)) := by
  decide +kernel

end TE.C13
