/-
  C03 (last sentence) — every metric class is constructible with its documented default arguments, and class
  and functional agree on the defaults.
  harness/translators/defaults.py regenerates TE/Gen/Defaults.lean from /repo's working tree on every run:
  per class the `__init__` defaults, the `_*_param_check` helpers the constructor reaches (its own AST and the
  base-class constructors it runs) and, per (class, helper), the GENERATED param check of TE/Gen/Shapes.lean
  applied to the class's own defaults (required parameters: the smallest documented-valid value, `requiredChoice`;
  derived arguments — threshold tensors built from the default bin count — and value oracles are read off the
  running constructor).  harness/props/c03.py constructs every class for real and compares.
-/
import TE.Gen.Defaults
namespace TE.C03
open TE TE.Shape

/-- the generated parameter check of every class accepts the class's own default arguments; every
    (class, helper) pair could be resolved to a closed term. -/
theorem C03_defaults_ok :
    Gen.defaultVerdicts.all (fun v => v.2.2 == Res.ok) = true ∧ Gen.unresolvedChecks = [] := by decide +kernel

/-- the verdict table covers exactly the param-check calls found for the constructors -/
theorem C03_defaults_table_complete :
    Gen.ctorChecks.map (fun c => (c.1, c.2.1)) = Gen.defaultVerdicts.map (fun v => (v.1, v.2.1)) := by decide +kernel

/-- class default = functional default for every shared parameter that has a default on both sides.
    The only exception: `AUC(reorder=True)` vs `auc(..., reorder=False)` — stated in both docstrings
    ("Default value is True" / "default value is False"), i.e. a documented difference, reported to the coordinator. -/
theorem C03_defaults_agree : Gen.defaultMismatches = [("AUC", "auc", "reorder")] := by decide +kernel

/-- non-vacuity: the table is populated, and the check does reject a bad default — the constructor default
    `k = 1` that TopKMultilabelAccuracy used to have (fixed upstream in /repo) is refused by its own check. -/
example : Gen.ctorDefaults.length ≥ 55 ∧ Gen.defaultVerdicts.length ≥ 35 ∧ Gen.twinDefaults.length ≥ 50 := by decide +kernel
example : Gen.check_topk_multilabel_accuracy_param "exact_match" 1 = Res.err Err.value := by decide

end TE.C03
