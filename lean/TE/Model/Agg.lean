/-
  TE.Model.Agg — executable exact-rational models of the aggregation, regression,
  statistical, image and entropy metrics (C07), following the code's algorithm:

    functional/aggregation/{mean,sum,auc,throughput}.py   aggregation/{mean,sum,max,min,auc,cov,throughput}.py
    functional/regression/{mean_squared_error,r2_score}.py   regression/*.py
    functional/statistical/wasserstein.py   statistical/wasserstein.py
    functional/image/psnr.py   image/psnr.py
    functional/frechet.py   audio/fad.py
    functional/classification/binary_normalized_entropy.py   classification/binary_normalized_entropy.py
    functional/text/perplexity.py   text/perplexity.py

  Scalars are exact rationals.  `log`, `exp`, `log10` cannot run on `Rat`: they are
  *function parameters* (`ln exp : Q → Q`) of the models that need them, and PSNR
  is modelled up to the *argument* of `log10`.  The eigenvalue term of
  `gaussian_frechet_distance` is out of scope (only `a + b` and the moment
  bookkeeping of FrechetAudioDistance are modelled).
-/
import TE.Model.Basic
import TE.Model.ClassSM
namespace TE.Agg
open TE

/-! ### scalar helpers -/

def qabs (a : Q) : Q := if a < 0 then -a else a
/-- `torch.max(a, b)` on finite scalars -/
def qmax (a b : Q) : Q := if a < b then b else a
/-- `torch.min(a, b)` on finite scalars -/
def qmin (a b : Q) : Q := if b < a then b else a
/-- `tensor.sign()` -/
def sgn (a : Q) : Q := if a < 0 then -1 else if a = 0 then 0 else 1
/-- `torch.finfo(torch.float64).eps` -/
def eps64 : Q := 1 / 4503599627370496
/-- `torch.clamp(x, min=lo, max=hi)` = `min(max(x, lo), hi)` -/
def clampQ (lo hi x : Q) : Q := qmin (qmax x lo) hi

/-! ### IEEE-style arithmetic on `XQ` (finite rationals, NaN, ±inf; signed zeros are not modelled) -/

def xneg : XQ → XQ
  | .val q => .val (-q) | .nan => .nan | .pinf => .ninf | .ninf => .pinf

def xadd : XQ → XQ → XQ
  | .val a, .val b => .val (a + b)
  | .nan, _ => .nan
  | _, .nan => .nan
  | .pinf, .ninf => .nan
  | .ninf, .pinf => .nan
  | .pinf, _ => .pinf
  | _, .pinf => .pinf
  | .ninf, _ => .ninf
  | _, .ninf => .ninf

def xsub (a b : XQ) : XQ := xadd a (xneg b)

/-- sign of an extended scalar (`0` for zero and NaN). -/
def xsgn : XQ → Int
  | .val q => if q < 0 then -1 else if q = 0 then 0 else 1
  | .nan => 0 | .pinf => 1 | .ninf => -1

def xmul : XQ → XQ → XQ
  | .val a, .val b => .val (a * b)
  | .nan, _ => .nan
  | _, .nan => .nan
  | a, b =>            -- at least one factor is infinite: 0·inf = NaN
    let s := xsgn a * xsgn b
    if s = 0 then .nan else if 0 < s then .pinf else .ninf

def xdivX : XQ → XQ → XQ
  | .val a, .val b => xdiv a b
  | .nan, _ => .nan
  | _, .nan => .nan
  | .val _, _ => .val 0            -- finite / ±inf
  | .pinf, .val b => if b < 0 then .ninf else .pinf
  | .ninf, .val b => if b < 0 then .pinf else .ninf
  | _, _ => .nan                   -- inf / inf

def xsum (l : List XQ) : XQ := l.foldr xadd (.val 0)

/-- `tensor.mean()` over extended scalars -/
def xmean (l : List XQ) : XQ := xdivX (xsum l) (.val (l.length : Q))

/-! ### stable sorting (`torch.sort(stable=True)`), `gather`, cumulative sums -/

/-- insert `a` before the first element `b` with `le a b` (keeps equal keys in arrival order). -/
def insertBy {α : Type} (le : α → α → Bool) (a : α) : List α → List α
  | [] => [a]
  | b :: l => if le a b then a :: b :: l else b :: insertBy le a l

/-- stable insertion sort. -/
def isort {α : Type} (le : α → α → Bool) : List α → List α
  | [] => []
  | a :: l => insertBy le a (isort le l)

def leFst {β : Type} (a b : Q × β) : Bool := decide (a.1 ≤ b.1)

/-- `torch.sort(x, stable=True)`: sorted values paired with their source indices. -/
def argsortStable (xs : List Q) : List (Q × Nat) := isort leFst (xs.zip (List.range xs.length))

/-- `v.gather(idx)` / `v[idx]` along the sorted order. -/
def gatherBy (idx : List (Q × Nat)) (v : List Q) : List Q := idx.map fun p => v.getD p.2 0

/-- `torch.diff` -/
def diffs : List Q → List Q
  | a :: b :: l => (b - a) :: diffs (b :: l)
  | _ => []

/-- `torch.cat(([a]), a + cumsum(ws))`: running totals starting at `a`. -/
def cumFrom (a : Q) : List Q → List Q
  | [] => [a]
  | w :: ws => a :: cumFrom (a + w) ws

/-- `torch.searchsorted(s, v, right=True)` on a sorted `s`: the insertion point after every entry `≤ v`. -/
def searchsortedRight (s : List Q) (v : Q) : Nat := (s.takeWhile fun a => decide (a ≤ v)).length

/-- column `j` of a row-major matrix. -/
def col (j : Nat) (rows : Mat) : List Q := rows.map fun r => r.getD j 0

def cols (d : Nat) (rows : Mat) : Mat := (List.range d).map fun j => col j rows

/-! ### Mean / Sum -/

/-- `weight` argument of `mean` / `sum`: a Python number or a tensor of the input's size. -/
inductive Weight where
  | scalar (w : Q)
  | tensor (ws : List Q)

/-- `_mean_update` : `(weighted_sum, weights)` -/
def meanUpdate (xs : List Q) : Weight → Except Err (Q × Q)
  | .scalar w => .ok (w * xs.sum, w * (xs.length : Q))
  | .tensor ws =>
    if ws.length = xs.length then .ok ((List.zipWith (· * ·) ws xs).sum, ws.sum) else .error .value

/-- functional `mean` : `weighted_sum / weights` (torch division: NaN / ±inf for zero weights). -/
def meanFn (xs : List Q) (w : Weight) : Except Err XQ := do
  let (s, t) ← meanUpdate xs w
  pure (xdiv s t)

/-- `Mean.compute` : `0.0` when no weight has been seen. -/
def meanCompute (s t : Q) : Q := if t = 0 then 0 else s / t

/-- `_sum_update` : `(input * weight).sum()` -/
def sumUpdate (xs : List Q) : Weight → Except Err Q
  | .scalar w => .ok (xs.map (· * w)).sum
  | .tensor ws =>
    if ws.length = xs.length then .ok (List.zipWith (· * ·) xs ws).sum else .error .value

/-! ### Max / Min : `torch.max(self.max, torch.max(input))`, state `none` = `∓inf` -/

/-- `torch.max(input)` / `torch.min(input)` over all elements; `none` = torch raises (empty input). -/
def reduceBy (pick : Q → Q → Q) : List Q → Option Q
  | [] => none
  | x :: xs => some (xs.foldl pick x)

/-- `torch.max(self.max, other)` with `none` standing for the initial `-inf` (resp. `+inf`). -/
def opick (pick : Q → Q → Q) : Option Q → Option Q → Option Q
  | none, b => b
  | a, none => a
  | some a, some b => some (pick a b)

/-- per-batch statistic of `Max.update` / `Min.update` (`RuntimeError` on an empty tensor). -/
def extStat (pick : Q → Q → Q) (xs : List Q) : Except Err (Option Q) :=
  match reduceBy pick xs with
  | none => .error .runtime
  | some m => .ok (some m)

def extOut (empty : XQ) : Option Q → XQ
  | none => empty
  | some a => .val a

/-! ### trapezoidal AUC -/

/-- `torch.trapz(y, x)` -/
def trapz : List Q → List Q → Q
  | x0 :: x1 :: xs, y0 :: y1 :: ys => (x1 - x0) * (y0 + y1) / 2 + trapz (x1 :: xs) (y1 :: ys)
  | _, _ => 0

/-- one task row of `_auc_compute` -/
def aucRow (reorder : Bool) (xs ys : List Q) : Q :=
  if reorder then
    let s := argsortStable xs
    trapz (s.map (·.1)) (gatherBy s ys)
  else trapz xs ys

/-- `_auc_compute` on `n_tasks` rows (shape checks are done by the adapter). -/
def auc (reorder : Bool) (xrows yrows : Mat) : List Q :=
  List.zipWith (aucRow reorder) xrows yrows

/-! ### Covariance : streaming `(n, Σx, M2)` with the Chan combine -/

structure CovS where
  n : Nat
  sum : List Q
  ss : Mat
deriving Repr, DecidableEq

def covInit : CovS := ⟨0, [], []⟩

/-- `Σ_k (x_k − x̄)(y_k − ȳ)` : entry of `einsum('ni,nj->ij', demeaned, demeaned)` -/
def comoment (xs ys : List Q) : Q :=
  let mx := xs.sum / (xs.length : Q)
  let my := ys.sum / (ys.length : Q)
  (List.zipWith (fun x y => (x - mx) * (y - my)) xs ys).sum

/-- statistics of one batch `obs` of shape `(n, d)` : `(len(obs), obs.sum(0), demeanedᵀ demeaned)` -/
def covBatch (d : Nat) (rows : Mat) : CovS :=
  ⟨rows.length, (List.range d).map fun j => (col j rows).sum,
   (List.range d).map fun i => (List.range d).map fun j => comoment (col i rows) (col j rows)⟩

/-- `Covariance._update(sum, ss_sum, n)` -/
def covCombine (a b : CovS) : CovS :=
  if b.n = 0 then a
  else if a.n = 0 then b
  else
    let na : Q := a.n
    let nb : Q := b.n
    let delta := List.zipWith (fun s t => s / na - t / nb) a.sum b.sum
    let outer := delta.map fun di => delta.map fun dj => di * dj
    ⟨a.n + b.n, List.zipWith (· + ·) a.sum b.sum,
     List.zipWith (List.zipWith (· + ·)) a.ss
       (List.zipWith (List.zipWith fun s o => s + o * (nb * na) / (na + nb)) b.ss outer)⟩

def covUpdate (d : Nat) (s : CovS) (rows : Mat) : CovS := covCombine s (covBatch d rows)

/-- `Covariance.compute` : `(sum / n, ss_sum / (n − 1))`, `ValueError` below two samples. -/
def covCompute (s : CovS) : Except Err (List Q × Mat) :=
  if s.n < 2 then .error .value
  else .ok (s.sum.map (· / (s.n : Q)), s.ss.map fun r => r.map (· / ((s.n : Q) - 1)))

/-! ### mean squared error -/

/-- one output column of `_update` : `Σ w·(target − input)²` -/
def sseCol (w : Option (List Q)) (xs ts : List Q) : Q :=
  let se := List.zipWith (fun x t => (t - x) * (t - x)) xs ts
  match w with
  | none => se.sum
  | some ws => (List.zipWith (· * ·) se ws).sum

/-- `_mean_squared_error_update` on columns: `(sum_squared_error per output, sum_weight)` -/
def mseUpdate (w : Option (List Q)) (xcols tcols : Mat) (n : Nat) : List Q × Q :=
  (List.zipWith (sseCol w) xcols tcols, match w with | none => (n : Q) | some ws => ws.sum)

/-- `sum_squared_error / (sum_weight.abs().clamp(min=eps) * sign)` -/
def mseRaw (sse : List Q) (sw : Q) : List XQ :=
  sse.map fun s => xdiv s (qmax (qabs sw) eps64 * sgn sw)

/-- `_mean_squared_error_compute` ; `uniform = true` is `raw_values.mean()` -/
def mseCompute (uniform : Bool) (sse : List Q) (sw : Q) : List XQ :=
  if uniform then [xmean (mseRaw sse sw)] else mseRaw sse sw

/-! ### R² -/

inductive MultiOut where | raw | uniform | variance
deriving DecidableEq, Repr

/-- `_update` of r2_score on columns: `(Σy², Σy, Σ(y−ŷ)²)` per output -/
def r2Update (xcols tcols : Mat) : List Q × List Q × List Q :=
  (tcols.map fun t => (t.map fun y => y * y).sum,
   tcols.map fun t => t.sum,
   List.zipWith (fun x t => (List.zipWith (fun a y => (y - a) * (y - a)) x t).sum) xcols tcols)

/-- `tss = sum_squared_obs − sum_obs² / num_obs` -/
def r2Tss (sso so : List Q) (n : Q) : List Q := List.zipWith (fun a b => a - b * b / n) sso so

/-- `1 − rss / tss` -/
def r2Raw (rss tss : List Q) : List XQ := List.zipWith (fun r t => xsub (.val 1) (xdiv r t)) rss tss

/-- `1 − (1 − r²)(n − 1)/(n − p − 1)` -/
def r2Adjust (n : Q) (p : Nat) (r : XQ) : XQ :=
  xsub (.val 1) (xdivX (xmul (xsub (.val 1) r) (.val (n - 1))) (.val (n - (p : Q) - 1)))

/-- `_r2_score_compute` -/
def r2Compute (sso so rss : List Q) (n : Q) (mo : MultiOut) (p : Nat) : Except Err (List XQ) :=
  if n < 2 then .error .value
  else if n - 1 ≤ (p : Q) then .error .value
  else
    let tss := r2Tss sso so n
    let r := r2Raw rss tss
    let r := match mo with
      | .raw => r
      | .uniform => [xmean r]
      | .variance => [xsum (List.zipWith (fun ri ti => xdivX (xmul ri (.val ti)) (.val tss.sum)) r tss)]
    .ok (if p = 0 then r else r.map (r2Adjust n p))

/-! ### Wasserstein-1D -/

/-- sorted sample values and the weights carried along (`x[x_sorter]`, `x_weights[x_sorter]`) -/
def sortWith (xs ws : List Q) : List Q × List Q :=
  let s := argsortStable xs
  (s.map (·.1), gatherBy s ws)

/-- CDF of one distribution at the query points: `idx / n` or `cum[idx] / cum[-1]` -/
def wCdf (xs : List Q) (w : Option (List Q)) (queries : List Q) : List Q :=
  match w with
  | none =>
    let sx := (argsortStable xs).map (·.1)
    queries.map fun v => (searchsortedRight sx v : Q) / (xs.length : Q)
  | some ws =>
    let (sx, sw) := sortWith xs ws
    let cum := cumFrom 0 sw
    queries.map fun v => cum.getD (searchsortedRight sx v) 0 / sw.sum

def weightsOk (xs : List Q) : Option (List Q) → Bool
  | none => true
  | some ws => !ws.isEmpty && ws.all (fun w => decide (0 < w)) && ws.length == xs.length

/-- `_wasserstein_compute` after `_wasserstein_update_input_check` -/
def wasserstein (x y : List Q) (xw yw : Option (List Q)) : Except Err Q :=
  if x.isEmpty || y.isEmpty then .error .value
  else if !weightsOk x xw || !weightsOk y yw then .error .value
  else
    let all := isort (fun a b => decide (a ≤ b)) (x ++ y)
    let deltas := diffs all
    let q := all.dropLast
    let fx := wCdf x xw q
    let fy := wCdf y yw q
    .ok (List.zipWith (· * ·) (List.zipWith (fun a b => qabs (a - b)) fx fy) deltas).sum

/-! ### PSNR (up to the argument of `log10`) -/

/-- `_psnr_update` : `(Σ(input − target)², numel)` -/
def psnrUpdate (xs ts : List Q) : Q × Q :=
  ((List.zipWith (fun x t => (x - t) * (x - t)) xs ts).sum, (ts.length : Q))

/-- argument of `log10` in `_psnr_compute` : `data_range² / (sse / n)` -/
def psnrArg (sse n : Q) (range : XQ) : XQ := xdivX (xmul range range) (xdiv sse n)

/-- functional `peak_signal_noise_ratio` up to `10·log10(·)`; `data_range = none` uses `max − min` of the target. -/
def psnrFn (xs ts : List Q) (dataRange : Option Q) : Except Err XQ :=
  match dataRange with
  | some r =>
    if r ≤ 0 then .error .value
    else let (s, n) := psnrUpdate xs ts; .ok (psnrArg s n (.val r))
  | none =>
    match reduceBy qmax ts, reduceBy qmin ts with
    | some hi, some lo => let (s, n) := psnrUpdate xs ts; .ok (psnrArg s n (.val (hi - lo)))
    | _, _ => .error .runtime

/-- state of the class: `(sum_squared_error, num_observations, min_target, max_target, data_range)` -/
structure PsnrS where
  sse : Q
  n : Q
  lo : Option Q
  hi : Option Q
  range : XQ
deriving Repr, DecidableEq

def psnrInit (dataRange : Option Q) : PsnrS := ⟨0, 0, none, none, .val (dataRange.getD 0)⟩

def boundsRange (lo hi : Option Q) : XQ := xsub (extOut .ninf hi) (extOut .pinf lo)

def psnrUpd (auto : Bool) (s : PsnrS) (xs ts : List Q) : Except Err PsnrS :=
  let (e, k) := psnrUpdate xs ts
  if auto then
    match reduceBy qmin ts, reduceBy qmax ts with
    | some lo, some hi =>
      let lo' := opick qmin (some lo) s.lo
      let hi' := opick qmax (some hi) s.hi
      .ok ⟨s.sse + e, s.n + k, lo', hi', boundsRange lo' hi'⟩
    | _, _ => .error .runtime
  else .ok { s with sse := s.sse + e, n := s.n + k }

def psnrMrg (auto : Bool) (s : PsnrS) (ss : List PsnrS) : PsnrS :=
  let t := ss.foldl (fun a m =>
    if auto then { a with sse := a.sse + m.sse, n := a.n + m.n, lo := opick qmin a.lo m.lo, hi := opick qmax a.hi m.hi }
    else { a with sse := a.sse + m.sse, n := a.n + m.n }) s
  if auto then { t with range := boundsRange t.lo t.hi } else t

/-! ### binary normalized entropy (`ln`, `exp` are parameters) -/

/-- `F.binary_cross_entropy(x, t, w, reduction='none')` : logs are clamped at −100 -/
def bceProb (ln : Q → Q) (x t w : Q) : Q :=
  -(w * (t * qmax (ln x) (-100) + (1 - t) * qmax (ln (1 - x)) (-100)))

/-- `F.binary_cross_entropy_with_logits(x, t, w, reduction='none')` : `w·((1−t)·x + ln(1 + e^{−x}))` -/
def bceLogit (ln exp : Q → Q) (x t w : Q) : Q := w * ((1 - t) * x + ln (1 + exp (-x)))

/-- `_update` : `(cross_entropy, num_positive, num_examples)` of one task row -/
def bneUpdate (ln exp : Q → Q) (fromLogits : Bool) (xs ts : List Q) (w : Option (List Q)) : Q × Q × Q :=
  let ws := match w with | none => ts.map fun _ => (1 : Q) | some ws => ws
  let ce := List.zipWith (fun (p : Q × Q) wi => if fromLogits then bceLogit ln exp p.1 p.2 wi else bceProb ln p.1 p.2 wi)
              (xs.zip ts) ws
  (ce.sum, (List.zipWith (· * ·) ws ts).sum, ws.sum)

/-- `_baseline_update` : entropy of the clamped base rate -/
def bneBaseline (ln : Q → Q) (pos ex : Q) : Q :=
  let p := clampQ eps64 (1 - eps64) (pos / ex)
  (-p) * ln p - (1 - p) * ln (1 - p)

/-- `(cross_entropy / num_examples) / baseline_entropy` (NaN when there is no weight) -/
def bneCompute (ln : Q → Q) (ce pos ex : Q) : XQ :=
  if ex = 0 then .nan else xdiv (ce / ex) (bneBaseline ln pos ex)

/-! ### perplexity (`exp`, `ln` are parameters) -/

/-- `softmax(row)[t]` -/
def softmaxAt (exp : Q → Q) (row : List Q) (t : Nat) : Q := exp (row.getD t 0) / (row.map exp).sum

/-- tokens that count: target ≠ ignore_index -/
def pplTokens (rows : Mat) (tgt : List Int) (ignore : Option Int) : List (List Q × Int) :=
  (rows.zip tgt).filter fun p => !(ignore == some p.2)

/-- `_perplexity_update` : `(−Σ ln p_target, #tokens)`; a label `≥ vocab` raises `ValueError` -/
def pplUpdate (exp ln : Q → Q) (vocab : Nat) (rows : Mat) (tgt : List Int) (ignore : Option Int) :
    Except Err (Q × Q) :=
  let toks := pplTokens rows tgt ignore
  if toks.any (fun p => decide ((vocab : Int) ≤ p.2)) then .error .value
  else .ok (-(toks.map fun p => ln (softmaxAt exp p.1 p.2.toNat)).sum, (toks.length : Q))

/-- argument of the final `exp` : mean negative log-likelihood -/
def pplArg (s n : Q) : XQ := xdiv s n

/-- `_perplexity_compute` -/
def pplCompute (exp : Q → Q) (s n : Q) : XQ :=
  match pplArg s n with
  | .val a => .val (exp a)
  | _ => .nan

/-! ### Throughput -/

/-- `_throughput_compute` -/
def throughputFn (num elapsed : Q) : Except Err Q :=
  if num < 0 then .error .value else if elapsed ≤ 0 then .error .value else .ok (num / elapsed)

/-- class state `(num_total, elapsed_time_sec)` -/
def thrUpd (s : Q × Q) (num elapsed : Q) : Except Err (Q × Q) :=
  if num < 0 then .error .value else if elapsed ≤ 0 then .error .value
  else .ok (s.1 + num, s.2 + elapsed)

/-- `merge_state` : counts add, elapsed time is the maximum -/
def thrMrg (s : Q × Q) (ss : List (Q × Q)) : Q × Q :=
  ss.foldl (fun a m => (a.1 + m.1, qmax a.2 m.2)) s

def thrOut (s : Q × Q) : Q := if s.2 = 0 then 0 else s.1 / s.2

/-! ### Fréchet audio distance: moment bookkeeping -/

structure FadS where
  n : Nat
  sum : List Q      -- mean_partial = Σ e
  outer : Mat       -- cov_partial  = Σ eᵀe
deriving Repr, DecidableEq

/-- contribution of embeddings `rows` (shape `(n, d)`) to the partial sums -/
def fadBatch (d : Nat) (rows : Mat) : FadS :=
  ⟨rows.length, (List.range d).map fun j => (col j rows).sum,
   (List.range d).map fun i => (List.range d).map fun j =>
     (List.zipWith (· * ·) (col i rows) (col j rows)).sum⟩

def fadAdd (a b : FadS) : FadS :=
  ⟨a.n + b.n, List.zipWith (· + ·) a.sum b.sum, List.zipWith (List.zipWith (· + ·)) a.outer b.outer⟩

/-- `mean = Σe / n`, `cov = ΣeᵀE/(n−1) − meanᵀ mean · n/(n−1)` (as in `FrechetAudioDistance.compute`) -/
def fadMoments (s : FadS) : List Q × Mat :=
  let n : Q := s.n
  let mean := s.sum.map (· / n)
  (mean, List.zipWith (fun row mi => List.zipWith (fun c mj => c / (n - 1) - mi * mj * n / (n - 1)) row mean)
           s.outer mean)

/-- the rational part `a + b` of `gaussian_frechet_distance` : `‖μx − μy‖² + tr Σx + tr Σy` -/
def frechetAB (mux muy : List Q) (cx cy : Mat) : Q :=
  (List.zipWith (fun a b => (a - b) * (a - b)) mux muy).sum +
  (((List.range cx.length).map fun i => (cx.getD i []).getD i 0).sum +
   ((List.range cy.length).map fun i => (cy.getD i []).getD i 0).sum)

/-! ### typed class state machines (the driver wraps exactly these with argument parsing) -/

/-- `Max` / `Min` : the state is the running extremum, `merge_state` folds `torch.max` over the sources. -/
def extImpl (pick : Q → Q → Q) (empty : XQ) : Impl (List Q) (Option Q) XQ :=
  additive ⟨none, opick pick⟩ (extStat pick) (fun s => .ok (extOut empty s))

/-- `Covariance` : a batch is `(d, rows)` with `d = obs.shape[1]`. -/
def covImpl : Impl (Nat × Mat) CovS (List Q × Mat) where
  init := covInit
  upd s b := .ok (covUpdate b.1 s b.2)
  mrg s ss := .ok (ss.foldl covCombine s)
  out := covCompute

/-- `Throughput` : a batch is `(num_processed, elapsed_time_sec)`. -/
def thrImpl : Impl (Q × Q) (Q × Q) Q where
  init := (0, 0)
  upd s b := thrUpd s b.1 b.2
  mrg s ss := .ok (thrMrg s ss)
  out s := .ok (thrOut s)

/-- `PeakSignalNoiseRatio` : a batch is `(input, target)` flattened; output = argument of `log10`. -/
def psnrImpl (dataRange : Option Q) : Impl (List Q × List Q) PsnrS XQ where
  init := psnrInit dataRange
  upd s b := psnrUpd dataRange.isNone s b.1 b.2
  mrg s ss := .ok (psnrMrg dataRange.isNone s ss)
  out s := .ok (psnrArg s.sse s.n s.range)

end TE.Agg
