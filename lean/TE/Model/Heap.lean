/-
  TE.Model.Heap — a small imperative semantics for aliasing questions (C11).
  A heap maps cells to version counters (a tensor's storage; every in-place write
  bumps the version).  A metric object maps state names to cells.  An *effect
  program* is what a method does to the target's states, with every right-hand
  side classified as fresh storage, the target's own storage, or storage of a
  source metric / caller argument.
-/
namespace TE.Heap

abbrev Cell := Nat

structure Heap where
  ver  : Cell → Nat
  next : Cell            -- cells ≥ next are unallocated

abbrev Obj := List (String × Cell)

def cells (o : Obj) : List Cell := o.map (·.2)

inductive Eff where
  /-- `self.a = <new tensor>` (arithmetic, `torch.cat`, `.clone()`, reductions) -/
  | rebindFresh (attr : String)
  /-- `self.a = other.b` / `.to(same device)` / view: the target now shares the source's storage -/
  | rebindAlias (attr : String) (src : Cell)
  /-- `self.a += …`, `self.a[i] = …`, `self.a.append(…)`: in-place on the target's current cell -/
  | inplace (attr : String)
  /-- in-place write through a foreign reference (source state or caller argument) -/
  | inplaceOn (c : Cell)
deriving Repr

def lookup (o : Obj) (a : String) : Option Cell := (o.find? (·.1 = a)).map (·.2)

def setAttr (o : Obj) (a : String) (c : Cell) : Obj :=
  (a, c) :: o.filter (·.1 ≠ a)

def bump (h : Heap) (c : Cell) : Heap := { h with ver := fun x => if x = c then h.ver x + 1 else h.ver x }

def step (st : Heap × Obj) : Eff → Heap × Obj
  | .rebindFresh a => ({ st.1 with next := st.1.next + 1 }, setAttr st.2 a st.1.next)
  | .rebindAlias a c => (st.1, setAttr st.2 a c)
  | .inplace a => match lookup st.2 a with
      | some c => (bump st.1 c, st.2)
      | none => st
  | .inplaceOn c => (bump st.1 c, st.2)

def run (st : Heap × Obj) (p : List Eff) : Heap × Obj := p.foldl step st

/-- the static/dynamic verdict the translator records per method. -/
def Eff.safe : Eff → Bool
  | .rebindFresh _ => true
  | .inplace _ => true
  | .rebindAlias _ _ => false
  | .inplaceOn _ => false

def safeProg (p : List Eff) : Bool := p.all Eff.safe

end TE.Heap
