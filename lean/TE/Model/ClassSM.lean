/-
  TE.Model.ClassSM — the generic class-metric state machine (DESIGN §3).
  A class metric is `init / upd / mrg / out`; a *history* is any tree of
  update / merge_state / reset calls.  `eval` runs a history on an
  implementation; `flatten` lists the batches that are still "alive" in it.
-/
import TE.Model.Basic
namespace TE

structure Impl (B S O : Type) where
  init : S
  upd  : S → B → Except Err S
  /-- `merge_state([m₁,…,m_k])` receives the whole list: windowed / retrieval
      classes are *not* a fold of binary merges in the code. -/
  mrg  : S → List S → Except Err S
  out  : S → Except Err O

/-- operation histories of one metric object (a tree: sources of a merge have
    their own histories). -/
inductive Hist (B : Type) where
  | fresh  : Hist B
  | update : Hist B → B → Hist B
  | merge  : Hist B → List (Hist B) → Hist B
  | reset  : Hist B → Hist B

variable {B S O : Type}

mutual
def eval (m : Impl B S O) : Hist B → Except Err S
  | .fresh      => .ok m.init
  | .update h b => do let s ← eval m h; m.upd s b
  | .merge h hs => do let s ← eval m h; let ss ← evalList m hs; m.mrg s ss
  | .reset h    => do let _ ← eval m h; .ok m.init
def evalList (m : Impl B S O) : List (Hist B) → Except Err (List S)
  | []      => .ok []
  | h :: hs => do let s ← eval m h; let ss ← evalList m hs; .ok (s :: ss)
end

mutual
/-- the batches a history still carries, in merge order (`reset` forgets). -/
def flatten : Hist B → List B
  | .fresh      => []
  | .update h b => flatten h ++ [b]
  | .merge h hs => flatten h ++ flattenList hs
  | .reset _    => []
def flattenList : List (Hist B) → List B
  | []      => []
  | h :: hs => flatten h ++ flattenList hs
end

/-- a single instance fed the batches one after another. -/
def single (bs : List B) : Hist B := bs.foldl Hist.update Hist.fresh

/-- a commutative-monoid-like accumulator, laws supplied where needed. -/
structure Acc (A : Type) where
  zero : A
  add  : A → A → A

/-- generic additive class: the state is the accumulator itself. `stat` is the
    functional `_update` (validation + per-batch statistics; an error leaves the
    state untouched: validate-then-mutate). -/
def additive {A : Type} (M : Acc A) (stat : B → Except Err A)
    (outA : A → Except Err O) : Impl B A O where
  init := M.zero
  upd s b := do let a ← stat b; .ok (M.add s a)
  mrg s ss := .ok (ss.foldl M.add s)
  out := outA

/-- total view of a partial statistic (only used on batches that passed validation). -/
def statT {A : Type} (M : Acc A) (stat : B → Except Err A) (b : B) : A :=
  match stat b with | .ok a => a | .error _ => M.zero

end TE
