/-
  TE.Model.Count — executable models of the count-based classification
  functionals (accuracy, precision, recall, F1, confusion matrix), following
  the code's algorithm: threshold → where, first-index argmax, rank by
  strictly-greater, `scatter_(reduce="add")`, boolean masks, `nan_to_num`.
  Anchors: torcheval/metrics/functional/classification/{accuracy,precision,
  recall,f1_score,confusion_matrix}.py
-/
import TE.Model.Basic
namespace TE.Count
open TE

/-- `torch.where(input < threshold, 0, 1)` -/
def thresh (thr x : Q) : Nat := if x < thr then 0 else 1

/-- `torch.argmax(row)`: index of the first maximal element (0 for an empty row). -/
def argmaxFirst (row : List Q) : Nat :=
  let rec go (l : List Q) (i best : Nat) (bv : Q) : Nat :=
    match l with
    | [] => best
    | x :: xs => if bv < x then go xs (i + 1) i x else go xs (i + 1) best bv
  match row with
  | [] => 0
  | x :: xs => go xs 1 0 x

/-- one step of `scatter_(0, idx, v, reduce="add")`. -/
def bump (acc : List Q) (i : Nat) (v : Q) : List Q := acc.modify i (· + v)

/-- `zeros(n).scatter_(0, idx, vals, reduce="add")`; torch raises a
    `RuntimeError` for an index outside `[0,n)`. -/
def scatterAdd (n : Nat) (idx : List Nat) (vals : List Q) : Except Err (List Q) :=
  if idx.all (· < n) then .ok ((idx.zip vals).foldl (fun a p => bump a p.1 p.2) (vzero n))
  else .error .runtime

/-- scatter of ones: per-class occurrence counts. -/
def scatterOnes (n : Nat) (idx : List Nat) : Except Err (List Q) :=
  scatterAdd n idx (idx.map fun _ => 1)

/-- `nan_to_num` after a division: `0/0 ↦ 0`; `x/0 (x≠0) ↦ ±inf` is replaced by
    torch with the largest float — it cannot occur for counts (`tp ≤ tp+fp`). -/
def divNan0 (a b : Q) : Q := if b = 0 then 0 else a / b

/-- `tensor.mean()` (NaN for an empty tensor). -/
def meanX (l : List Q) : XQ := xdiv (qsum l) l.length

inductive Avg where | micro | macro | weighted | none
deriving DecidableEq, Repr

/-! ### accuracy -/

/-- `_binary_accuracy_update` -/
def binaryAccuracyUpdate (thr : Q) (xs ys : List Q) : Q × Q :=
  (qcount (fun p : Q × Q => ((thresh thr p.1 : Nat) : Q) == p.2) (xs.zip ys), ys.length)

/-- correctness mask of `_multiclass_accuracy_update`: `k = 1` compares the
    (arg-max) prediction; `k > 1` ranks by strictly greater scores. -/
def mcMaskLabel (preds labs : List Nat) : List Q :=
  (preds.zip labs).map fun p => b2q (p.1 == p.2)

def rankOf (row : List Q) (lab : Nat) : Nat := row.countP (fun x => row.getD lab 0 < x)

def mcMaskTopk (rows : List (List Q)) (labs : List Nat) (k : Nat) : List Q :=
  (rows.zip labs).map fun p => b2q (rankOf p.1 p.2 < k)

/-- per-class or micro `(num_correct, num_total)` from a correctness mask. -/
def mcAccFromMask (mask : List Q) (labs : List Nat) (avg : Avg) (numClasses : Nat) :
    Except Err (List Q × List Q) :=
  match avg with
  | .micro => .ok ([qsum mask], [(labs.length : Q)])
  | _ => do
    let c ← scatterAdd numClasses labs mask
    let t ← scatterOnes numClasses labs
    .ok (c, t)

/-- `_accuracy_compute` -/
def accuracyCompute (c t : List Q) (avg : Avg) : List XQ :=
  match avg with
  | .macro =>
    let pairs := (c.zip t).filter (fun p => p.2 != 0)
    [meanX (pairs.map fun p => p.1 / p.2)]
  | _ => (c.zip t).map fun p => xdiv p.1 p.2

/-- `_multilabel_update` on 0/1 rows. -/
inductive Crit where | exact | hamming | overlap | contain | belong
deriving DecidableEq, Repr

def mlRowCorrect (crit : Crit) (inp tgt : List Q) : Q :=
  let z := inp.zip tgt
  match crit with
  | .exact   => b2q (z.all fun p => p.1 == p.2)
  | .hamming => qcount (fun p : Q × Q => p.1 == p.2) z
  | .overlap => b2q (z.any fun p => p.1 == p.2 && p.1 == 1) + b2q (z.all fun p => p.1 == 0 && p.2 == 0)
  | .contain => b2q (z.all fun p => decide (0 ≤ p.1 - p.2))
  | .belong  => b2q (z.all fun p => decide (p.1 - p.2 ≤ 0))

def multilabelUpdate (crit : Crit) (inp tgt : List (List Q)) : Q × Q :=
  (qsum ((inp.zip tgt).map fun p => mlRowCorrect crit p.1 p.2),
   match crit with
   | .hamming => qsum (tgt.map fun r => (r.length : Q))
   | _ => (tgt.length : Q))

def multilabelAccuracyUpdate (thr : Q) (crit : Crit) (inp tgt : List (List Q)) : Q × Q :=
  multilabelUpdate crit (inp.map fun r => r.map fun x => ((thresh thr x : Nat) : Q)) tgt

/-- top-k indicator row of `_topk_multilabel_accuracy_update` **when the k-th
    and (k+1)-th largest scores differ** (torch.topk's tie order is
    unspecified): position `j` is set iff fewer than `k` scores are strictly
    greater. -/
def topkIndicator (row : List Q) (k : Nat) : List Q :=
  row.map fun x => b2q (row.countP (fun y => x < y) < k)

def topkMultilabelUpdate (crit : Crit) (k : Nat) (inp tgt : List (List Q)) : Q × Q :=
  multilabelUpdate crit (inp.map fun r => topkIndicator r k) tgt

/-! ### precision / recall / F1 -/

/-- `_binary_precision_update` : `(num_tp, num_fp)` -/
def binaryPrecisionUpdate (thr : Q) (xs ys : List Q) : Q × Q :=
  let tp := qsum ((xs.zip ys).map fun p => ((thresh thr p.1 : Nat) : Q) * p.2)
  (tp, qsum (xs.map fun x => ((thresh thr x : Nat) : Q)) - tp)

/-- `_binary_recall_update` (integer targets: `input & target`). -/
def binaryRecallUpdate (thr : Q) (xs : List Q) (ys : List Nat) : Q × Q :=
  (qsum ((xs.zip ys).map fun p => ((Nat.land (thresh thr p.1) p.2 : Nat) : Q)), qsum (ys.map fun y => ((y : Nat) : Q)))

/-- `_binary_f1_score_update` : `(num_tp, num_label, num_prediction)` -/
def binaryF1Update (thr : Q) (xs ys : List Q) : Q × Q × Q :=
  (qsum ((xs.zip ys).map fun p => ((thresh thr p.1 : Nat) : Q) * p.2), qsum ys,
   qsum (xs.map fun x => ((thresh thr x : Nat) : Q)))

structure PRF where
  tp : List Q
  a  : List Q   -- precision: num_fp      | recall / f1: num_label(s)
  b  : List Q   -- precision: num_label   | recall / f1: num_prediction(s)
deriving Repr

/-- `_precision_update` -/
def precisionUpdate (preds labs : List Nat) (avg : Avg) (numClasses : Nat) : Except Err PRF :=
  match avg with
  | .micro =>
    .ok ⟨[qcount (fun p : Nat × Nat => p.1 == p.2) (preds.zip labs)],
         [qcount (fun p : Nat × Nat => p.1 != p.2) (preds.zip labs)], [0]⟩
  | _ => do
    let lab ← scatterOnes numClasses labs
    let tp ← scatterOnes numClasses (((preds.zip labs).filter fun p => p.1 == p.2).map (·.2))
    let fp ← scatterOnes numClasses (((preds.zip labs).filter fun p => p.1 != p.2).map (·.1))
    .ok ⟨tp, fp, lab⟩

/-- `_precision_compute` -/
def precisionCompute (s : PRF) (avg : Avg) : List XQ :=
  match avg with
  | .micro | .none => (s.tp.zip s.a).map fun p => .val (divNan0 p.1 (p.1 + p.2))
  | .macro =>
    let rows := (s.tp.zip (s.a.zip s.b)).filter fun r => r.2.2 != 0 || r.1 + r.2.1 != 0
    [meanX (rows.map fun r => divNan0 r.1 (r.1 + r.2.1))]
  | .weighted =>
    let rows := (s.tp.zip (s.a.zip s.b)).filter fun r => r.2.2 != 0 || r.1 + r.2.1 != 0
    let tot := qsum s.b
    -- torch.inner(precision, num_label[mask] / num_label.sum()); x/0 → nan/inf propagates
    if tot = 0 then (if rows.isEmpty then [.val 0] else [.nan])
    else [.val (qsum (rows.map fun r => divNan0 r.1 (r.1 + r.2.1) * (r.2.2 / tot)))]

/-- `_recall_update` / `_f1_score_update` : `(num_tp, num_labels, num_predictions)` -/
def recallUpdate (preds labs : List Nat) (avg : Avg) (numClasses : Nat) : Except Err PRF :=
  match avg with
  | .micro =>
    .ok ⟨[qcount (fun p : Nat × Nat => p.1 == p.2) (preds.zip labs)], [(labs.length : Q)], [(labs.length : Q)]⟩
  | _ => do
    let lab ← scatterOnes numClasses labs
    let prd ← scatterOnes numClasses preds
    let tp ← scatterOnes numClasses (((preds.zip labs).filter fun p => p.1 == p.2).map (·.2))
    .ok ⟨tp, lab, prd⟩

/-- `_recall_compute` (after the `fix:` commit for the weighted branch). -/
def recallCompute (s : PRF) (avg : Avg) : List XQ :=
  match avg with
  | .micro | .none => (s.tp.zip s.a).map fun p => .val (divNan0 p.1 p.2)
  | .macro =>
    let rows := (s.tp.zip (s.a.zip s.b)).filter fun r => r.2.1 != 0 || r.2.2 != 0
    [meanX (rows.map fun r => divNan0 r.1 r.2.1)]
  | .weighted =>
    let rows := (s.tp.zip (s.a.zip s.b)).filter fun r => r.2.1 != 0 || r.2.2 != 0
    let tot := qsum (rows.map fun r => r.2.1)
    if tot = 0 then (if rows.isEmpty then [.val 0] else [.nan])
    else [.val (qsum (rows.map fun r => divNan0 r.1 r.2.1 * (r.2.1 / tot)))]

/-- per-class F1 with `nan_to_num`: `2·p·r/(p+r)` where `p = tp/pred`, `r = tp/label`;
    any NaN (0/0) in the chain collapses to 0; `tp ≤ pred, label` so no infinities. -/
def f1One (tp lab prd : Q) : Q :=
  if prd = 0 ∨ lab = 0 then 0 else
    let p := tp / prd; let r := tp / lab
    if p + r = 0 then 0 else 2 * p * r / (p + r)

/-- `_f1_score_compute` -/
def f1Compute (s : PRF) (avg : Avg) : List XQ :=
  match avg with
  | .micro | .none => (s.tp.zip (s.a.zip s.b)).map fun r => .val (f1One r.1 r.2.1 r.2.2)
  | .macro =>
    let rows := (s.tp.zip (s.a.zip s.b)).filter fun r => r.2.1 != 0 || r.2.2 != 0
    [meanX (rows.map fun r => f1One r.1 r.2.1 r.2.2)]
  | .weighted =>
    let rows := (s.tp.zip (s.a.zip s.b)).filter fun r => r.2.1 != 0 || r.2.2 != 0
    let tot := qsum (rows.map fun r => r.2.1)
    if tot = 0 then (if rows.isEmpty then [.val 0] else [.nan])
    else [.val (qsum (rows.map fun r => f1One r.1 r.2.1 r.2.2 * (r.2.1 / tot)))]

/-! ### confusion matrix -/

/-- `_update`: dense accumulation of the COO pairs `(target, prediction)`;
    `sparse_coo_tensor` raises `RuntimeError` for an index ≥ size. -/
def confusionUpdate (preds labs : List Nat) (numClasses : Nat) : Except Err Mat :=
  if (preds.all (· < numClasses)) && (labs.all (· < numClasses)) then
    .ok ((labs.zip preds).foldl
      (fun m p => m.modify p.1 (fun row => bump row p.2 1)) (mzero numClasses numClasses))
  else .error .runtime

inductive Norm where | none | all | pred | true_
deriving DecidableEq, Repr

def absQ (q : Q) : Q := if q < 0 then -q else q

/-- `torch.nn.functional.normalize(p=1, dim)` divides by `max(‖·‖₁, 1e-12)`;
    for count matrices the norm is 0 or ≥ 1, so the clamp only matters at 0
    where the numerator is 0 as well. -/
def l1normalize (v : List Q) : List Q :=
  let s := qsum (v.map absQ)
  v.map fun x => if s = 0 then 0 else x / s

def transpose (m : Mat) (cols : Nat) : Mat :=
  (List.range cols).map fun j => m.map fun row => row.getD j 0

/-- `_confusion_matrix_compute` (multiclass orientation: rows = true class). -/
def confusionCompute (m : Mat) (n : Nat) (norm : Norm) : List (List XQ) :=
  match norm with
  | .none => m.map fun r => r.map XQ.val
  | .all => let s := qsum (m.map qsum); m.map fun r => r.map fun x => xdiv x s
  | .true_ => m.map fun r => (l1normalize r).map XQ.val
  | .pred => (transpose ((transpose m n).map l1normalize) n).map fun r => r.map XQ.val

end TE.Count
