/-
  TE.Model.Window — the windowed metrics (torcheval/metrics/window/*.py), core Lean only.

  Part 1: the update-granular ring buffer shared by WindowedClickThroughRate,
          WindowedWeightedCalibration, WindowedBinaryNormalizedEntropy and
          WindowedMeanSquaredError — generic over the per-update statistic `α`
          and an accumulator `M : Acc α` (slot-wise addition of the per-task vectors).
  Part 2: the per-class statistics (`_click_through_rate_update`, `_weighted_calibration_update`,
          `_binary_normalized_entropy_update`, `_mean_squared_error_update`) and the
          value formulas of the four `compute()`s.
  Part 3: WindowedBinaryAUROC — a sample-granular buffer with its three update
          branches, the "all zeros beyond the cursor ⇒ unfilled" test, `.squeeze()`,
          and a small local pair-counting AUROC.

  The model follows the code as it is (after the `fix:` commits: `reset()` also
  zeroes `next_inserted`, which here is simply `init`).
-/
import TE.Model.Parts
namespace TE.Window
open TE

/-! ## 1. update-granular ring buffer -/

/-- state of an update-granular windowed metric.
    `cap`   = the `max_num_updates` attribute (NOT changed by `merge_state`),
    `buf`   = the `windowed_*` tensors, one slot (column) per update; its length is
              `cap` until a merge re-allocates it with `Σ max_num_updates` columns,
    `next`  = `next_inserted`, `total` = `total_updates`,
    `life`  = the lifetime accumulators (kept even when `enable_lifetime=False`,
              where `compute()` simply does not show them). -/
structure Ring (α : Type) where
  cap   : Nat
  buf   : List α
  next  : Nat
  total : Nat
  life  : α

variable {α B O : Type}

/-- `__init__` / `reset()`: zero buffers, cursor 0. -/
def Ring.init (M : Acc α) (N : Nat) : Ring α :=
  ⟨N, List.replicate N M.zero, 0, 0, M.zero⟩

/-- `update`: lifetime `+=`, slot `next_inserted` overwritten, cursor advanced
    modulo `max_num_updates`, `total_updates += 1`. -/
def Ring.push (M : Acc α) (r : Ring α) (x : α) : Ring α :=
  { r with
    buf   := r.buf.set r.next x
    next  := (r.next + 1) % r.cap
    total := r.total + 1
    life  := M.add r.life x }

/-- `tensor.sum(dim=-1)` over a list of slots. -/
def sumA (M : Acc α) (l : List α) : α := l.foldl M.add M.zero

/-- the windowed sums `compute()` forms: the whole buffer once
    `total_updates >= max_num_updates`, else `buffer[:, :next_inserted]`.
    `whole = true` is WindowedMeanSquaredError, which always sums the whole buffer. -/
def Ring.windowed (M : Acc α) (whole : Bool) (r : Ring α) : α :=
  if whole || decide (r.cap ≤ r.total) then sumA M r.buf else sumA M (r.buf.take r.next)

/-- the slots `merge_state` copies out of a metric: `buffer[:, :min(total_updates, max_num_updates)]`. -/
def Ring.lead (r : Ring α) : List α := r.buf.take (min r.total r.cap)

/-- `merge_state(metrics)` exactly as coded: a new zero buffer of
    `self.max + Σ metric.max` columns; the leading `min(total,max)` slots of the
    target, then of every source, are copied one after the other (consecutive slice
    assignments into the zero buffer = concatenation followed by zero padding);
    lifetime sums and `total_updates` are added; the cursor becomes
    `idx % self.max_num_updates` — and `max_num_updates` itself is left alone. -/
def Ring.merge (M : Acc α) (r : Ring α) (srcs : List (Ring α)) : Ring α :=
  let mergeMax := r.cap + (srcs.map (·.cap)).sum
  let copied := r.lead ++ srcs.flatMap Ring.lead
  let idx := min r.total r.cap + (srcs.map fun s => min s.total s.cap).sum
  { cap   := r.cap
    buf   := copied ++ List.replicate (mergeMax - copied.length) M.zero
    next  := idx % r.cap
    total := r.total + (srcs.map (·.total)).sum
    life  := srcs.foldl (fun a s => M.add a s.life) r.life }

/-- the class: `stat` = the functional `_update` (validation + per-update statistics,
    raises before anything is mutated), `render life windowed` = the value formulas
    and the (lifetime, windowed) tuple, `empty` = what `compute()` returns before the
    first update. -/
def ringImpl (M : Acc α) (N : Nat) (whole : Bool) (stat : B → Except Err α)
    (render : α → α → Except Err O) (empty : O) : Impl B (Ring α) O where
  init := Ring.init M N
  upd r b := do let x ← stat b; .ok (r.push M x)
  mrg r ss := .ok (r.merge M ss)
  out r := if r.total = 0 then .ok empty else render r.life (r.windowed M whole)

/-- a single instance fed the statistics one after the other. -/
def Ring.run (M : Acc α) (N : Nat) (us : List α) : Ring α := us.foldl (Ring.push M) (Ring.init M N)

/-! ## 2. per-class statistics and value formulas

Statistics are `Parts` (a list of per-task vectors) under zero-padding addition;
a zero slot of the real buffers is the identity `[]`. -/

def dot (a b : List Q) : Q := qsum (List.zipWith (· * ·) a b)

/-- float64 machine epsilon `torch.finfo(torch.float64).eps` and smallest normal `tiny`. -/
def eps64 : Q := 1 / (2 ^ 52 : Nat)
def tinyInv64 : Q := ((2 ^ 1022 : Nat) : Q)

/-- `_click_through_rate_update`: per task `(Σ input·w, Σ w)`; a scalar weight is the
    constant weight row. -/
def ctrStat (input weights : List (List Q)) : Parts :=
  [List.zipWith dot input weights, weights.map qsum]

/-- `_click_through_rate_compute`: `click / (weight + tiny)`.  In float64 `w + tiny = w`
    for every `|w| ≥ 2⁻⁹⁶⁹`, so the model divides by `w` itself unless `w = 0`. -/
def ctrValue (c w : Q) : XQ := if w = 0 then .val (c * tinyInv64) else .val (c / w)

/-- `_weighted_calibration_update`: per task `(Σ w·input, Σ w·target)`. -/
def calStat (input target weight : List (List Q)) : Parts :=
  [List.zipWith dot weight input, List.zipWith dot weight target]

/-- windowed / lifetime calibration: `input_sum / clamp(target_sum, min=eps)`. -/
def calValue (i t : Q) : XQ := .val (i / (if t < eps64 then eps64 else t))

/-- `_mean_squared_error_update`: per output column `Σ wᵢ (targetᵢ − inputᵢ)²` and the
    scalar `Σ wᵢ` (`n` without weights: the driver passes a row of ones). `rows` are samples. -/
def mseStat (input target : List (List Q)) (w : List Q) (outputs : Nat) : Parts :=
  let sq := List.zipWith (fun x t => List.zipWith (fun a b => (b - a) * (b - a)) x t) input target
  [(List.range outputs).map (fun j => dot w (sq.map fun r => r.getD j 0)), [qsum w]]

def qabs (x : Q) : Q := if x < 0 then -x else x
def qsign (x : Q) : Q := if x < 0 then -1 else if x = 0 then 0 else 1

/-- `_mean_squared_error_compute` for one output: `sse / (|w|.clamp(min=eps) · sign w)`. -/
def mseValue (sse w : Q) : XQ :=
  xdiv sse ((if qabs w < eps64 then eps64 else qabs w) * qsign w)

/-- mean of output values (`raw_values.mean()`); NaN/inf propagate. -/
def xmean (l : List XQ) : XQ :=
  let vals := l.filterMap fun x => match x with | .val q => some q | _ => none
  if vals.length = l.length then
    (if l.isEmpty then .nan else .val (qsum vals / (l.length : Nat)))
  else if l.any (· == .nan) || (l.any (· == .pinf) && l.any (· == .ninf)) then .nan
  else if l.any (· == .pinf) then .pinf else .ninf

/-! ### normalized entropy: `ln` is taken by `Float` evaluation (C library `log`),
    the resulting doubles are converted *exactly* to rationals so that the windowed
    sums are exact rational sums of those doubles.  No theorem looks inside these
    functions: C13 is proved for an arbitrary statistic. -/

def toF (q : Q) : Float := Float.ofInt q.num / Float.ofNat q.den

/-- exact rational value of a finite double from its bit pattern. -/
def bitsToQ (b : UInt64) : Q :=
  let n := b.toNat
  let neg := n / 2 ^ 63 = 1
  let e := (n / 2 ^ 52) % 2048
  let m := n % 2 ^ 52
  let mag : Q :=
    if e = 0 then ((m : Nat) : Q) / ((2 ^ 1074 : Nat) : Q)
    else if 1075 ≤ e then (((2 ^ 52 + m) * 2 ^ (e - 1075) : Nat) : Q)
    else (((2 ^ 52 + m : Nat)) : Q) / ((2 ^ (1075 - e) : Nat) : Q)
  if neg then -mag else mag

def ofF (f : Float) : XQ :=
  if f.isNaN then .nan else if f.isInf then (if f > 0 then .pinf else .ninf) else .val (bitsToQ f.toBits)

/-- a finite double as a rational (non-finite values cannot be stored in `Parts`;
    they do not occur for probabilities in (0,1) / finite logits). -/
def ofFq (f : Float) : Q := match ofF f with | .val q => q | _ => 0

/-- `F.binary_cross_entropy` (log clamped at −100) / `…_with_logits`, one element. -/
def bce (fromLogits : Bool) (x t : Q) : Float :=
  let xf := toF x; let tf := toF t
  if fromLogits then
    let m := if xf < 0 then -xf else 0
    (1 - tf) * xf + m + Float.log (Float.exp (-m) + Float.exp (-xf - m))
  else
    let l1 := Float.log xf; let l0 := Float.log (1 - xf)
    let l1 := if l1 < -100 then -100 else l1
    let l0 := if l0 < -100 then -100 else l0
    Float.neg (tf * l1 + (1 - tf) * l0)

/-- `_binary_normalized_entropy_update`: per task (Σ w·bce, Σ w·target, Σ w). -/
def neStat (fromLogits : Bool) (input target weight : List (List Q)) : Parts :=
  let ce := List.zipWith (fun (xt : List Q × List Q) w =>
      ofFq ((List.zipWith (fun (p : Q × Q) wi => toF wi * bce fromLogits p.1 p.2) (xt.1.zip xt.2) w).foldl (· + ·) 0))
      (input.zip target) weight
  [ce, List.zipWith dot weight target, weight.map qsum]

/-- `(ce / n) / _baseline_update(pos, n)`. -/
def neValue (ce pos n : Q) : XQ :=
  let e : Float := toF eps64
  let r := toF pos / toF n
  let r := if r < e then e else if r > 1 - e then 1 - e else r
  let base := Float.neg r * Float.log r - (1 - r) * Float.log (1 - r)
  ofF ((toF ce / toF n) / base)

/-! ## 3. WindowedBinaryAUROC -/

/-- one buffer cell of one task: (score, target, weight). -/
abbrev Cell := Q × Q × Q
/-- one sample = one column of the `(num_tasks, max_num_samples)` buffers. -/
abbrev Col := List Cell

structure SBuf where
  cap   : Nat          -- `max_num_samples` (updated by `merge_state`, unlike the other classes)
  tasks : Nat
  buf   : List Col     -- the columns of `inputs` / `targets` / `weights`
  next  : Nat
  total : Nat
deriving Repr, DecidableEq

def zeroCol (T : Nat) : Col := List.replicate T (0, 0, 0)

def SBuf.init (T N : Nat) : SBuf := ⟨N, T, List.replicate N (zeroCol T), 0, 0⟩

/-- slice assignment `dst[:, i:i+len(src)] = src`. -/
def place (dst : List α) (i : Nat) (src : List α) : List α :=
  dst.take i ++ src ++ dst.drop (i + src.length)

/-- `update` with a batch of `b.length` samples — the three branches of the code. -/
def SBuf.update (s : SBuf) (b : List Col) : SBuf :=
  let n := b.length
  if s.cap ≤ n then
    -- batch ≥ window: keep the last `max_num_samples`, cursor 0
    { s with buf := b.drop (n - s.cap), next := 0, total := s.total + n }
  else
    let rest := s.cap - s.next
    if n ≤ rest then
      -- fits behind the cursor
      { s with buf := place s.buf s.next b, next := (s.next + n) % s.cap, total := s.total + n }
    else
      -- wraps around
      { s with buf := place (place s.buf s.next (b.take rest)) 0 (b.drop rest),
               next := (n - rest) % s.cap, total := s.total + n }

def colZero (c : Col) : Bool := c.all fun x => x.1 == 0

/-- `torch.all(self.inputs[:, self.next_inserted:] == 0)` -/
def SBuf.zeroBeyond (s : SBuf) : Bool := (s.buf.drop s.next).all colZero

/-- pair-counting AUROC of one task's cells: Σᵢⱼ aᵢ bⱼ ([sᵢ>sⱼ] + ½[sᵢ=sⱼ]) / (Σa · Σb)
    with a = w·t, b = w·(1−t); 0.5 when the factor is 0.  For targets in {0,1} this is
    what `_binary_auroc_compute_jit` (sort, tie groups, trapezoid) returns. -/
def pairTerm (x y : Cell) : Q :=
  (x.2.2 * x.2.1) * (y.2.2 * (1 - y.2.1)) * (if y.1 < x.1 then 1 else if x.1 = y.1 then 1 / 2 else 0)

def pairNum (l : List Cell) : Q := (l.map fun x => (l.map fun y => pairTerm x y).sum).sum
def posW (l : List Cell) : Q := (l.map fun x => x.2.2 * x.2.1).sum
def negW (l : List Cell) : Q := (l.map fun x => x.2.2 * (1 - x.2.1)).sum

def pairAuroc (l : List Cell) : Q :=
  if posW l * negW l = 0 then 1 / 2 else pairNum l / (posW l * negW l)

/-- row `t` of a block of columns. -/
def row (cols : List Col) (t : Nat) : List Cell := cols.map fun c => c.getD t (0, 0, 0)

inductive AOut where
  | scalar (v : Q)          -- 0-dim result
  | vec (v : List Q)        -- one value per task
deriving Repr, DecidableEq

/-- `binary_auroc(…, num_tasks=T)` on a `(T, k)` block with k ≥ 1: one value per task
    (0-dim for a single task). -/
def perTask (T : Nat) (cols : List Col) : AOut :=
  if T = 1 then .scalar (pairAuroc (row cols 0))
  else .vec ((List.range T).map fun t => pairAuroc (row cols t))

/-- the non-windowed functional `binary_auroc` on explicit samples (raises on none). -/
def binaryAuroc (T : Nat) (cols : List Col) : Except Err AOut :=
  if cols.isEmpty then .error .runtime else .ok (perTask T cols)

/-- `_binary_auroc_compute(x.squeeze(), …)` on a `(T, k)` block: `squeeze()` drops every
    dimension of size 1, so `(1,k)` → `(k,)`, `(1,1)` → 0-dim (raises), `(T,1)` → `(T,)`
    (the T tasks are scored as T samples of ONE task), `(·,0)` raises. -/
def aurocSqueezed (T : Nat) (cols : List Col) : Except Err AOut :=
  match cols with
  | [] => .error .runtime
  | [c] => if T = 1 then .error .runtime else .ok (.scalar (pairAuroc c))
  | cols => .ok (perTask T cols)

def SBuf.compute (s : SBuf) : Except Err AOut :=
  aurocSqueezed s.tasks (if s.zeroBeyond then s.buf.take s.next else s.buf)

/-- `merge_state` as coded (this class DOES update `max_num_samples`). -/
def SBuf.merge (s : SBuf) (srcs : List SBuf) : SBuf :=
  let mergeMax := s.cap + (srcs.map (·.cap)).sum
  let copied := s.buf.take (min s.total s.cap) ++ srcs.flatMap fun m => m.buf.take (min m.total m.cap)
  let idx := min s.total s.cap + (srcs.map fun m => min m.total m.cap).sum
  { cap := mergeMax, tasks := s.tasks
    buf := copied ++ List.replicate (mergeMax - copied.length) (zeroCol s.tasks)
    next := idx % mergeMax
    total := s.total + (srcs.map (·.total)).sum }

def SBuf.run (T N : Nat) (bs : List (List Col)) : SBuf := bs.foldl SBuf.update (SBuf.init T N)

def aurocImpl (T N : Nat) (cols : B → Except Err (List Col)) (render : AOut → O) : Impl B SBuf O where
  init := SBuf.init T N
  upd s b := do let c ← cols b; .ok (s.update c)
  mrg s ss := .ok (s.merge ss)
  out s := do let r ← s.compute; .ok (render r)

end TE.Window
