/-
  TE.Model.Text — executable models of the text metrics, following the code:
    `_edit_distance` (two textually identical copies: functional/text/helper.py
        used by WIP/WIL and functional/text/word_error_rate.py used by WER):
        the (|pred|+1)×(|ref|+1) dynamic-programming table, filled row by row;
    `_word_error_rate_update/_compute`, `_get_errors_and_totals`,
        `_word_information_preserved_*`, `_wil_*` (the latter keeps
        `errors − max_total`, i.e. *minus* the number of correct words);
    `_bleu_score_update`: `_get_ngrams` into a `Counter` (insertion-ordered
        association list), `|=` over the references (max of counts), `&` with
        the candidate (min of counts, positive entries only), matches per
        n-gram order, possible matches `max(len − i, 0)`, closest reference
        length with the shorter one winning a tie; `_bleu_score_compute`'s
        rational ingredients (the final `exp`/`log` are evaluated in `Float`
        by the driver adapter, TE/Driver/Text.lean).
  Tokens are any type with decidable equality (the driver uses token ids).
  Anchors: torcheval/metrics/functional/text/{helper,word_error_rate,
  word_information_lost,word_information_preserved,bleu}.py
-/
import TE.Model.Basic
namespace TE.Text
open TE

section
variable {α : Type} [DecidableEq α]

/-! ### `_edit_distance` -/

/-- the inner `for j` loop of one row `i`: `rs` = reference tokens `ref[j-1:]`,
    the previous row from column `j-1` on, and `left = dp[i][j-1]`. -/
def rowGo (p : α) : List α → List Nat → Nat → List Nat
  | r :: rs, d :: u :: prev, left =>
    let v := if p = r then d else min (min u left) d + 1
    v :: rowGo p rs (u :: prev) v
  | _, _, _ => []

/-- row `i` of the table from row `i-1`: `dp[i][0] = i`, then the inner loop. -/
def nextRow (p : α) (ref : List α) (prev : List Nat) (i : Nat) : List Nat :=
  i :: rowGo p ref prev i

/-- the outer `for i` loop: remaining prediction tokens, current row and its index. -/
def dpRows (ref : List α) : List α → List Nat → Nat → List Nat
  | [], row, _ => row
  | p :: ps, row, i => dpRows ref ps (nextRow p ref row (i + 1)) (i + 1)

/-- `_edit_distance(prediction_tokens, reference_tokens)` = `dp[-1][-1]`
    (copy in functional/text/word_error_rate.py). -/
def editDistance (pred ref : List α) : Nat :=
  (dpRows ref pred (List.range (ref.length + 1)) 0).getLastD 0

/-- the copy in functional/text/helper.py (same source text; the harness checks
    that the two function bodies are identical and tests both). -/
def editDistanceHelper (pred ref : List α) : Nat :=
  (dpRows ref pred (List.range (ref.length + 1)) 0).getLastD 0

/-! ### WER / WIP / WIL -/

/-- `_word_error_rate_update` after the input check: `(errors, total)` over `zip(input, target)`. -/
def werUpdate (input target : List (List α)) : Q × Q :=
  (input.zip target).foldl
    (fun acc p => (acc.1 + (editDistance p.1 p.2 : Nat), acc.2 + (p.2.length : Nat))) (0, 0)

structure Totals where
  errors : Q
  maxTotal : Q
  targetTotal : Q
  inputTotal : Q
deriving Repr

/-- `_get_errors_and_totals` -/
def errorsAndTotals (input target : List (List α)) : Totals :=
  (input.zip target).foldl
    (fun acc p => ⟨acc.errors + (editDistanceHelper p.1 p.2 : Nat), acc.maxTotal + (max p.2.length p.1.length : Nat),
                   acc.targetTotal + (p.2.length : Nat), acc.inputTotal + (p.1.length : Nat)⟩) ⟨0, 0, 0, 0⟩

/-- `_word_information_preserved_update`: `(max_total − errors, target_total, input_total)` -/
def wipUpdate (input target : List (List α)) : Q × Q × Q :=
  let t := errorsAndTotals input target
  (t.maxTotal - t.errors, t.targetTotal, t.inputTotal)

/-- `_wil_update`: `(errors − max_total, target_total, input_total)` — note the sign. -/
def wilUpdate (input target : List (List α)) : Q × Q × Q :=
  let t := errorsAndTotals input target
  (t.errors - t.maxTotal, t.targetTotal, t.inputTotal)

end

/-- IEEE product on extended rationals. -/
def xmul : XQ → XQ → XQ
  | .val a, .val b => .val (a * b)
  | .nan, _ | _, .nan => .nan
  | .val a, .pinf | .pinf, .val a => if a = 0 then .nan else if 0 < a then .pinf else .ninf
  | .val a, .ninf | .ninf, .val a => if a = 0 then .nan else if 0 < a then .ninf else .pinf
  | .pinf, .pinf | .ninf, .ninf => .pinf
  | .pinf, .ninf | .ninf, .pinf => .ninf

/-- `1 − x` -/
def xoneMinus : XQ → XQ
  | .val a => .val (1 - a)
  | .nan => .nan
  | .pinf => .ninf
  | .ninf => .pinf

/-- `_word_error_rate_compute` -/
def werCompute (errors total : Q) : XQ := xdiv errors total

/-- `_word_information_preserved_compute` -/
def wipCompute (correct targetTotal inputTotal : Q) : XQ :=
  xmul (xdiv correct targetTotal) (xdiv correct inputTotal)

/-- `_wil_compute` -/
def wilCompute (correct targetTotal predsTotal : Q) : XQ :=
  xoneMinus (xmul (xdiv correct targetTotal) (xdiv correct predsTotal))

/-! ### BLEU -/

section
variable {κ : Type} [DecidableEq κ]

/-- `collections.Counter` as an insertion-ordered association list. -/
abbrev Ctr (κ : Type) := List (κ × Nat)

/-- `c[g]` (0 for a missing key) -/
def cget : Ctr κ → κ → Nat
  | [], _ => 0
  | p :: c, g => if p.1 = g then p.2 else cget c g

/-- `c[g] = v` (keeps the position of an existing key, appends a new one) -/
def cset : Ctr κ → κ → Nat → Ctr κ
  | [], g, v => [(g, v)]
  | p :: c, g, v => if p.1 = g then (g, v) :: c else p :: cset c g v

/-- `for g in l: c[g] += 1` -/
def cofList (l : List κ) : Ctr κ := l.foldl (fun c g => cset c g (cget c g + 1)) []

/-- `Counter._keep_positive` -/
def keepPositive (c : Ctr κ) : Ctr κ := c.filter fun p => decide (0 < p.2)

/-- `a |= b` (`Counter.__ior__`): raise `a[g]` to `b[g]` for every entry of `b`. -/
def cior (a b : Ctr κ) : Ctr κ :=
  keepPositive (b.foldl (fun acc p => if cget acc p.1 < p.2 then cset acc p.1 p.2 else acc) a)

/-- `a & b` (`Counter.__and__`): `min(a[g], b[g])` for every key of `a`, positive entries only. -/
def cinter (a b : Ctr κ) : Ctr κ :=
  a.filterMap fun p =>
    let m := min p.2 (cget b p.1)
    if 0 < m then some (p.1, m) else none

end

section
variable {α : Type} [DecidableEq α]

/-- the n-grams of one order: `tuple(sentence[i:i+n]) for i in range(0, len − n + 1)` -/
def ngramsOf (s : List α) (n : Nat) : List (List α) :=
  (List.range (s.length + 1 - n)).map fun i => (s.drop i).take n

/-- the order in which `_get_ngrams` meets the n-grams: `for n_val in 1..N: for i: …` -/
def allNgrams (s : List α) (N : Nat) : List (List α) :=
  ((List.range N).map fun m => ngramsOf s (m + 1)).flatten

/-- `_get_ngrams(sentence, n_gram)` -/
def getNgrams (s : List α) (N : Nat) : Ctr (List α) := cofList (allNgrams s N)

/-- `reference_ngram_counter`: `|=` over the references, starting from an empty counter. -/
def refCounter (refs : List (List α)) (N : Nat) : Ctr (List α) :=
  refs.foldl (fun acc r => cior acc (getNgrams r N)) []

/-- `matches_by_order` contribution of one overlap counter: the entries are
    routed to their order by `len(ngram) − 1`. -/
def matchesOf (ov : Ctr (List α)) (N : Nat) : List Nat :=
  (List.range N).map fun i => ((ov.filter fun p => p.1.length = i + 1).map (·.2)).sum

/-- `possible_matches_by_order` contribution of one candidate. -/
def possibleOf (lenCand N : Nat) : List Nat := (List.range N).map fun i => lenCand - i

def absDiff (a b : Nat) : Nat := if a ≤ b then b - a else a - b

/-- `min(lens, key=lambda l: (abs(l − len_cand), l))`: first minimum of the key;
    equal keys are equal lengths.  `ValueError` for no reference (`min([])`). -/
def closestRefLen (lenCand : Nat) : List Nat → Except Err Nat
  | [] => .error .value
  | l :: ls => .ok (ls.foldl (fun best x =>
      if absDiff x lenCand < absDiff best lenCand ∨ (absDiff x lenCand = absDiff best lenCand ∧ x < best)
      then x else best) l)

def addVec (a b : List Nat) : List Nat := List.zipWith (· + ·) a b

structure BleuStats where
  inputLen : Nat
  targetLen : Nat
  matchesBy : List Nat
  possibleBy : List Nat
deriving Repr, DecidableEq

/-- one `(candidate, references)` step of the loop in `_bleu_score_update`. -/
def bleuStep (N : Nat) (acc : BleuStats) (cand : List α) (refs : List (List α)) : Except Err BleuStats := do
  let lenRef ← closestRefLen cand.length (refs.map (·.length))
  if !(N = 1 ∨ N = 2 ∨ N = 3 ∨ N = 4) then throw .value     -- `_get_ngrams` parameter check
  let overlap := cinter (getNgrams cand N) (refCounter refs N)
  pure ⟨acc.inputLen + cand.length, acc.targetLen + lenRef,
        addVec acc.matchesBy (matchesOf overlap N), addVec acc.possibleBy (possibleOf cand.length N)⟩

/-- `_bleu_score_update` after the corpus-size check (adapter): the loop, then
    "input too short" when some order has no possible match.  (`N ≤ 0` makes
    `torch.zeros/torch.min` raise instead; modelled as `RuntimeError` for an
    empty corpus.) -/
def bleuUpdate (N : Nat) (input : List (List α)) (target : List (List (List α))) : Except Err BleuStats := do
  let s ← (input.zip target).foldlM (fun acc p => bleuStep N acc p.1 p.2)
    ⟨0, 0, List.replicate N 0, List.replicate N 0⟩
  if N = 0 then throw .runtime
  if s.possibleBy.any (· == 0) then throw .value
  pure s

end

end TE.Text
