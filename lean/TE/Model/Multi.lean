/-
  TE.Model.Multi — executable models of the code's *vectorised multi-row pipelines* (C16).

  Where torcheval handles several tasks / classes / outputs in ONE tensor program, the
  rows meet in flat (row-major) intermediate tensors, and "row i only sees row i" is a
  fact about index arithmetic, not a definition.  This file models exactly those places:

  * `_binary_auroc_compute_jit` / `_multiclass_auroc_compute`
      (functional/classification/auroc.py):
        `cum_tp_before_pad[mask]`          → `selectFlat`   (boolean-mask indexing of a 2-D tensor:
                                              ONE 1-D vector, all rows' selected values row-major)
        `mask.sum(-1, keepdim=True) >= arange(n, 0, -1)`   → `shiftedMask`
        `zeros_like(..).masked_scatter_(shifted_mask, v)`  → `maskedScatterFlat` (consumes the ONE
                                              source vector in row-major order of the true positions)
        `cum_tp[:, -1] * cum_fp[:, -1]`, `trapz`, `where(factor == 0, 0.5, …)`   → `aurocFinish`
  * `_multiclass_precision_recall_curve_compute` (precision_recall_curve.py):
        `x[mask].split(sizes)` with `sizes = mask.sum(1).tolist()`  → `splitSizes ∘ selectFlat`
  * `(input * weights).sum(-1)` of click_through_rate / weighted_calibration /
    binary_normalized_entropy on a `(num_tasks, n)` tensor  → `sumLastDim` over the flat data
  * `.sum(dim=0)` of mean_squared_error / r2_score on a `(n, outputs)` tensor → `sumDim0`
  * `RetrievalPrecision/RetrievalRecall.update(input, target, indexes)`: the
    `indexes == i` filter of a mixed batch (the model `TE.Rank.rUpdate` already follows the
    code; here are the stream runners the C16 theorems talk about).

  Operations that torch *defines* row by row (`sort(dim=-1)`, `diff(dim=-1)`, `cumsum(-1)`,
  `flip(1)`, `F.pad` of the last dimension, `trapz` over the last dimension, element-wise
  arithmetic) are written as `List.map` over the rows: there is nothing to leak.
  Python loops over slices (`for i in range(num_tasks)`: binary_auprc, binned_auprc,
  multilabel curves, recall@precision) are `List.map`s in TE/Model/Curve.lean and
  TE/Model/Binned.lean already; for those C16 is `rfl` on the model and the burden is on
  the differential check (harness/props/c16.py).

  Import-free apart from the sibling models (core Lean only): compiled into `tedriver`.
-/
import TE.Model.Curve
import TE.Model.Rank
import TE.Model.Agg
namespace TE.Multi
open TE TE.Curve

/-! ### flat (row-major) tensor primitives -/

/-- `mask.sum(-1)` of one row. -/
def countTrue (m : List Bool) : Nat := m.count true

/-- `x[mask]` for 2-D `x`, `mask` of the same shape: torch flattens both row-major and
    returns ONE 1-D tensor of the selected values of all rows. -/
def selectFlat {α : Type} (masks : List (List Bool)) (vals : List (List α)) : List α :=
  select masks.flatten vals.flatten

/-- `torch.arange(n, 0, -1)` = `[n, n-1, …, 1]`. -/
def arangeDown : Nat → List Nat
  | 0 => []
  | n + 1 => (n + 1) :: arangeDown n

/-- one row of `mask.sum(-1, keepdim=True) >= torch.arange(n, 0, -1)`. -/
def shiftedMask (n cnt : Nat) : List Bool := (arangeDown n).map fun a => decide (a ≤ cnt)

/-- `shifted_mask`: every row of `mask` is compared with the same `arange(mask.size(-1), 0, -1)`
    (the tensor is rectangular: `mask.size(-1)` is the length of every row). -/
def shiftedMasks (masks : List (List Bool)) : List (List Bool) :=
  masks.map fun m => shiftedMask m.length (countTrue m)

/-- `masked_scatter_` along one row of a zero tensor: positions where the mask is set take
    the next unread element of the source; returns the row and the unread rest of the
    source.  torch raises `RuntimeError` when the source runs out. -/
def scatterRow : List Bool → List Q → Except Err (List Q × List Q)
  | [], src => .ok ([], src)
  | false :: m, src =>
    match scatterRow m src with
    | .ok (r, s) => .ok (0 :: r, s)
    | .error e => .error e
  | true :: _, [] => .error .runtime
  | true :: m, x :: src =>
    match scatterRow m src with
    | .ok (r, s) => .ok (x :: r, s)
    | .error e => .error e

/-- `torch.zeros_like(x).masked_scatter_(mask, source)` for 2-D `mask`: the true positions
    are visited in row-major order (row after row), each taking the next element of the ONE
    1-D `source`; surplus source elements are ignored. -/
def maskedScatterFlat : List (List Bool) → List Q → Except Err (List (List Q))
  | [], _ => .ok []
  | m :: ms, src =>
    match scatterRow m src with
    | .error e => .error e
    | .ok (r, s) =>
      match maskedScatterFlat ms s with
      | .ok rs => .ok (r :: rs)
      | .error e => .error e

/-- `t.split(sizes)`: consecutive pieces of the given lengths. -/
def splitSizes {α : Type} : List Nat → List α → List (List α)
  | [], _ => []
  | k :: ks, l => l.take k :: splitSizes ks (l.drop k)

/-- row-major view of flat data as `t` rows of length `n` (the protocol's `SHAPE:DATA`). -/
def chunks {α : Type} (n : Nat) : Nat → List α → List (List α)
  | 0, _ => []
  | t + 1, l => l.take n :: chunks n t (l.drop n)

/-- `x.sum(-1)` of a `(t, n)` tensor given by its flat data. -/
def sumLastDim (t n : Nat) (flat : List Q) : List Q := (chunks n t flat).map List.sum

/-- `x.sum(dim=0)` of an `(n, d)` tensor given by its rows: the rows are added up
    element-wise, starting from `zeros(d)`. -/
def sumDim0 (d : Nat) (rows : Mat) : List Q := rows.foldl vadd (vzero d)

/-! ### AUROC: `_binary_auroc_compute_jit`, `_multiclass_auroc_compute` -/

/-- the tail of the AUROC routines on one row of `cum_tp`, `cum_fp`:
    `factor = cum_tp[-1] * cum_fp[-1]`; `where(factor == 0, 0.5, trapz(cum_tp, cum_fp) / factor)`.
    Indexing `[:, -1]` of a tensor without columns raises inside TorchScript. -/
def aurocFinish (cumTp cumFp : List Q) : Except Err Q :=
  match cumTp.getLast?, cumFp.getLast? with
  | some tp, some fp =>
    let factor := tp * fp
    .ok (if factor = 0 then 1 / 2 else Curve.trapz cumTp cumFp / factor)
  | _, _ => .error .runtime

/-- the vectorised pipeline on the sorted rows (one `List Pt` per task / class, samples in
    non-increasing score order): row-wise mask and cumulative sums, then the **flat**
    boolean-mask selection and the **flat** `masked_scatter_` under the shifted mask. -/
def aurocRows (rows : List (List Pt)) : Except Err (List Q) := do
  let masks := rows.map fun r => diffMask (r.map (·.s))
  let shifted := shiftedMasks masks
  let cumTp ← maskedScatterFlat shifted (selectFlat masks (rows.map fun r => cumsum (r.map (·.a))))
  let cumFp ← maskedScatterFlat shifted (selectFlat masks (rows.map fun r => cumsum (r.map (·.b))))
  (cumTp.zip cumFp).mapM fun p => aurocFinish p.1 p.2

/-- `binary_auroc(input, target, num_tasks=T, weight=w)` on `(T, n)` tensors (`input.sort(descending=True)`
    sorts every row on its own; the `gather`s carry target and weight along). -/
def binaryAurocMulti (rows : List (List Q × List Q × List Q)) : Except Err (List Q) :=
  aurocRows (rows.map fun r => sortDesc (binPts r.1 r.2.1 r.2.2))

/-- the 1-D call is the same program on a 1-D tensor: one row. -/
def binaryAuroc1 (xs ts ws : List Q) : Except Err (List Q) := binaryAurocMulti [(xs, ts, ws)]

/-- `_multiclass_auroc_compute`: `input.T.sort(dim=1, descending=True)`, one row per class,
    `cmp = target[indices] == arange[:, None]`, then the same flat select / scatter; `average`. -/
def multiclassAurocMulti (cols : List (List Q)) (labs : List Q) (avg : Avg) : Except Err (List XQ) := do
  let per ← aurocRows (cols.zipIdx.map fun cc => sortDesc (ovrPts cc.2 cc.1 labs))
  .ok (averaged avg per)

/-! ### multiclass precision-recall curve: `x[mask].split(sizes)` -/

/-- the per-row (dim = 1) intermediates of `_multiclass_precision_recall_curve_compute`:
    flipped thresholds, flipped mask, padded precision and recall at *every* position. -/
structure PrRow where
  thrF      : List Q
  mask      : List Bool
  precision : List XQ
  recall    : List XQ
deriving Repr

def prRow (srt : List Pt) : Except Err PrRow :=
  let thr := srt.map (·.s)
  let numTp := (cumsum (srt.map (·.a))).reverse
  let numFp := (cumsum (srt.map (·.b))).reverse
  match numTp.head? with
  | none => .error .runtime
  | some P =>
    .ok ⟨thr.reverse, (diffMask thr).reverse,
         ((numTp.zip numFp).map fun p => xdiv p.1 (p.1 + p.2)) ++ [.val 1],
         (numTp.map fun tp => nanTo1 (xdiv tp P)) ++ [.val 0]⟩

/-- all classes at once: the three outputs are cut out of ONE flat masked selection each,
    with `sizes = mask.sum(1).tolist()`. -/
def mcPrCurveRows (rows : List (List Pt)) : Except Err (List PRC) := do
  let rs ← rows.mapM prRow
  let mask := rs.map (·.mask)
  let thresholds := splitSizes (mask.map countTrue) (selectFlat mask (rs.map (·.thrF)))
  let mask' := mask.map (· ++ [true])
  let sizes := mask'.map countTrue
  let precision := splitSizes sizes (selectFlat mask' (rs.map (·.precision)))
  let recall := splitSizes sizes (selectFlat mask' (rs.map (·.recall)))
  .ok ((precision.zip (recall.zip thresholds)).map fun p => ⟨p.1, p.2.1, p.2.2⟩)

def multiclassPrCurveMulti (cols : List (List Q)) (labs : List Q) : Except Err (List PRC) :=
  mcPrCurveRows (cols.zipIdx.map fun cc => sortDesc (ovrPts cc.2 cc.1 labs))

/-! ### `sum(-1)` per task: click-through rate, weighted calibration, normalized entropy

The tensors are given as the protocol gives them: `t` tasks, `n` samples, flat row-major data. -/

def mulFlat (a b : List Q) : List Q := List.zipWith (· * ·) a b

/-- `_click_through_rate_update` + `_compute` with tensor weights on a `(t, n)` input. -/
def ctrMulti (eps : Q) (t n : Nat) (input weights : List Q) : List XQ :=
  List.zipWith (Rank.ctrCompute eps) (sumLastDim t n (mulFlat input weights)) (sumLastDim t n weights)

/-- … with a scalar weight: `weights * input.sum(-1)`, `weights * input.size(-1) * ones`. -/
def ctrMultiScalar (eps : Q) (t n : Nat) (input : List Q) (w : Q) : List XQ :=
  (sumLastDim t n input).map fun s => Rank.ctrCompute eps (w * s) (w * (n : Q))

/-- `_weighted_calibration_compute` with tensor weights on `(t, n)` tensors. -/
def wcMulti (t n : Nat) (input target weight : List Q) : List XQ :=
  List.zipWith xdiv (sumLastDim t n (mulFlat weight input)) (sumLastDim t n (mulFlat weight target))

/-- … with a scalar weight. -/
def wcMultiScalar (t n : Nat) (input target : List Q) (w : Q) : List XQ :=
  List.zipWith (fun a b => xdiv (w * a) (w * b)) (sumLastDim t n input) (sumLastDim t n target)

/-- `binary_normalized_entropy` on `(t, n)` tensors with a weight tensor (`ln`, `exp` are parameters). -/
def bneMulti (ln exp : Q → Q) (fromLogits : Bool) (t n : Nat) (xs ts ws : List Q) : List XQ :=
  let ce := List.zipWith (fun (p : Q × Q) wi =>
    if fromLogits then Agg.bceLogit ln exp p.1 p.2 wi else Agg.bceProb ln p.1 p.2 wi) (xs.zip ts) ws
  let ceS := sumLastDim t n ce
  let pos := sumLastDim t n (mulFlat ws ts)
  let ex := sumLastDim t n ws
  (ceS.zip (pos.zip ex)).map fun r => Agg.bneCompute ln r.1 r.2.1 r.2.2

/-! ### the "never updated" guard of the class forms

`WeightedCalibration.compute()` begins with `if torch.all(self.weighted_target_sum == 0.0): return torch.empty(0)`,
`BinaryNormalizedEntropy.compute()` with `if torch.all(self.num_examples == 0.0): return torch.empty(0)`
("no update yet"); otherwise every task gets its own division (`x/0` of a degenerate task stays in that task). -/

/-- the guard: an empty result only when EVERY task's denominator is 0. -/
def emptyIfAllZero (den : List Q) (vals : List XQ) : List XQ := if den.all (· == 0) then [] else vals

/-- `WeightedCalibration.compute()` on the per-task `(weighted_input_sum, weighted_target_sum)`. -/
def wcClassCompute (sums : List (Q × Q)) : List XQ :=
  emptyIfAllZero (sums.map (·.2)) (sums.map fun s => xdiv s.1 s.2)

/-- `BinaryNormalizedEntropy.compute()` on the per-task `(total_entropy, num_positive, num_examples)`. -/
def bneClassCompute (ln : Q → Q) (stats : List (Q × Q × Q)) : List XQ :=
  emptyIfAllZero (stats.map (·.2.2)) (stats.map fun s => Agg.bneCompute ln s.1 s.2.1 s.2.2)

/-! ### `sum(dim=0)` per output: mean squared error, R² -/

/-- `_update` of mean_squared_error on the `(n, d)` tensors given by their rows (samples):
    `square(target - input)`, `* sample_weight.unsqueeze(-1)`, `.sum(dim=0)`. -/
def mseUpdateRows (w : Option (List Q)) (xrows trows : Mat) (d : Nat) : List Q × Q :=
  let se := List.zipWith (fun x t => List.zipWith (fun a b => (b - a) * (b - a)) x t) xrows trows
  match w with
  | none => (sumDim0 d se, (trows.length : Q))
  | some ws => (sumDim0 d (List.zipWith (fun r wi => r.map (· * wi)) se ws), ws.sum)

def mseMulti (uniform : Bool) (w : Option (List Q)) (xrows trows : Mat) (d : Nat) : List XQ :=
  let u := mseUpdateRows w xrows trows d
  Agg.mseCompute uniform u.1 u.2

/-- `_update` of r2_score on rows: `(Σy², Σy, Σ(y−ŷ)²)` per output by `sum(dim=0)`. -/
def r2UpdateRows (xrows trows : Mat) (d : Nat) : List Q × List Q × List Q :=
  (sumDim0 d (trows.map fun r => r.map fun y => y * y),
   sumDim0 d trows,
   sumDim0 d (List.zipWith (fun x t => List.zipWith (fun a y => (y - a) * (y - a)) x t) xrows trows))

def r2Multi (xrows trows : Mat) (d : Nat) (mo : Agg.MultiOut) (p : Nat) : Except Err (List XQ) :=
  let u := r2UpdateRows xrows trows d
  Agg.r2Compute u.1 u.2.1 u.2.2 (trows.length : Q) mo p

/-! ### retrieval: streams of `update(input, target, indexes)` -/

open TE.Rank in
/-- `input[indexes == i]`, `target[indexes == i]`: the rows of a mixed batch that carry query `i`. -/
def queryRows (batch : List Pair) (ix : List Int) (i : Nat) : List Pair :=
  ((batch.zip ix).filter fun p => p.2 == (i : Int)).map (·.1)

open TE.Rank in
/-- a stream of `update(input, target, indexes)` calls on one multi-query instance. -/
def rRun (c : RCfg) (st : RState) : List (List Pair × List Int) → Except Err RState
  | [] => .ok st
  | b :: bs =>
    match rUpdate c st b.1 (some b.2) with
    | .ok st' => rRun c st' bs
    | .error e => .error e

open TE.Rank in
/-- a stream of `update(input, target)` calls on a single-query instance. -/
def rRunSingle (c : RCfg) (st : RState) : List (List Pair) → Except Err RState
  | [] => .ok st
  | b :: bs =>
    match rUpdate c st b none with
    | .ok st' => rRunSingle c st' bs
    | .error e => .error e

open TE.Rank in
/-- what a single-query metric for query `i` is fed: the rows of query `i`, call by call,
    for the calls whose `indexes` mention `i` at all (`if i in indexes`). -/
def queryStream (bs : List (List Pair × List Int)) (i : Nat) : List (List Pair) :=
  bs.filterMap fun b => if b.2.any (· == (i : Int)) then some (queryRows b.1 b.2 i) else none

end TE.Multi
