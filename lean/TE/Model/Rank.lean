/-
  TE.Model.Rank — executable models of the ranking / retrieval metrics,
  following the code's algorithm:
    hit_rate / reciprocal_rank : gather the target's score, count strictly
        greater scores, compare with k (and hit_rate's `k ≥ C` shortcut);
    retrieval_precision / retrieval_recall (functional): `get_topk` + gather
        of labels + sum, the three denominators (k None / limit_k_to_size / k);
    RetrievalPrecision / RetrievalRecall (class): per query a retained list of
        (score, label) pairs, `update_single_query` = top-k of (retained ++
        batch), `merge_state` = concatenation without re-pruning, `compute`
        = empty-target policy on the *retained* labels, else the functional
        on the retained pairs; `avg="macro"` = nanmean;
    click_through_rate, weighted_calibration, num_collisions, frequency_at_k.
  Anchors: torcheval/metrics/functional/ranking/*.py, torcheval/metrics/ranking/*.py

  `torch.topk` returns the values sorted descending; its order among *equal*
  scores is unspecified.  `sortDesc` below is a stable insertion sort (an equal
  score stays behind the earlier one), so the model coincides with torch on
  tie-free score lists — the only ones the correspondence sends through a
  top-k — and is one admissible behaviour otherwise.
-/
import TE.Model.Basic
namespace TE.Rank
open TE

/-! ### hit rate / reciprocal rank -/

/-- `torch.gather(input, -1, target.unsqueeze(-1))` for one row: torch raises
    `RuntimeError` for an index outside `[0, C)` (negative indices do not wrap). -/
def gather1 (row : List Q) (t : Int) : Except Err Q :=
  if t < 0 then .error .runtime else
    match row[t.toNat]? with
    | some y => .ok y
    | none => .error .runtime

/-- `torch.gt(input, y_score).sum(dim=-1)` for one row. -/
def rankRow (row : List Q) (y : Q) : Nat := row.countP (fun x => decide (y < x))

/-- rank of the target of every sample (fails as a whole when one gather fails). -/
def ranks (rows : List (List Q)) (target : List Int) : Except Err (List Nat) :=
  (rows.zip target).mapM fun p => do
    let y ← gather1 p.1 p.2
    pure (rankRow p.1 y)

/-- `hit_rate(input, target, k=k)`; `C = input.size(-1)`.  Shape checks are done
    by the adapter; `k ≤ 0` is rejected here (`_hit_rate_input_check`).  For
    `k is None or k >= C` the code returns ones *without* looking at `target`. -/
def hitRate (rows : List (List Q)) (C : Nat) (target : List Int) (k : Option Int) :
    Except Err (List Q) :=
  match k with
  | none => .ok (target.map fun _ => 1)
  | some k =>
    if k ≤ 0 then .error .value
    else if (C : Int) ≤ k then .ok (target.map fun _ => 1)
    else do
      let rs ← ranks rows target
      pure (rs.map fun (r : Nat) => b2q (decide (Int.ofNat r < k)))

/-- `reciprocal_rank(input, target, k=k)`: `1/(rank+1)`, zeroed where `rank ≥ k`
    (no parameter check: `k ≤ 0` zeroes everything). -/
def reciprocalRank (rows : List (List Q)) (target : List Int) (k : Option Int) :
    Except Err (List Q) := do
  let rs ← ranks rows target
  pure (rs.map fun (r : Nat) =>
    match k with
    | none => 1 / ((r : Q) + 1)
    | some k => if k ≤ Int.ofNat r then 0 else 1 / ((r : Q) + 1))

/-! ### top-k -/

abbrev Pair := Q × Q     -- (score, label)

/-- insert behind every element whose score is not smaller (stable). -/
def insDesc (x : Pair) : List Pair → List Pair
  | [] => [x]
  | y :: l => if y.1 < x.1 then x :: y :: l else y :: insDesc x l

/-- stable descending insertion sort by score, elements inserted left to right. -/
def sortDesc (l : List Pair) : List Pair := l.foldl (fun acc x => insDesc x acc) []

/-- `get_topk(t, k)` with the labels carried along (`target.gather(-1, idx)`):
    `t.topk(min(k, n))`, `k = None` ↦ everything, sorted descending. -/
def topk (k : Option Nat) (l : List Pair) : List Pair :=
  match k with
  | none => sortDesc l
  | some k => (sortDesc l).take k

/-- `compute_nb_relevant_items_retrieved` -/
def nbRelevant (k : Option Nat) (l : List Pair) : Q := qsum ((topk k l).map (·.2))

/-- `compute_total_number_items_retrieved` -/
def nbRetrieved (k : Option Nat) (limit : Bool) (n : Nat) : Nat :=
  match k with
  | none => n
  | some k => if limit then min k n else k

/-- `_retrieval_precision_param_check` / `_retrieval_recall_param_check` -/
def paramOk (k : Option Int) (limit : Bool) : Bool :=
  match k with
  | none => !limit
  | some k => decide (0 < k)

/-- `_retrieval_precision_compute` on one task (row). -/
def precisionPairs (k : Option Nat) (limit : Bool) (l : List Pair) : XQ :=
  xdiv (nbRelevant k l) (nbRetrieved k limit l.length)

/-- `_retrieval_recall_compute` on one task (row): the denominator is the sum
    of *all* labels handed to the functional. -/
def recallPairs (k : Option Nat) (l : List Pair) : XQ :=
  xdiv (nbRelevant k l) (qsum (l.map (·.2)))

/-! ### RetrievalPrecision / RetrievalRecall classes -/

inductive Action where | neg | pos | skip | err | other
deriving DecidableEq, Repr

inductive Kind where | precision | recall
deriving DecidableEq, Repr

structure RCfg where
  kind : Kind
  k : Option Nat
  limit : Bool
  numQueries : Nat
  action : Action
  isMacro : Bool
deriving Repr

/-- per query the retained (score, label) pairs — `self.topk[i]`, `self.target[i]`. -/
abbrev RState := List (List Pair)

def rInit (c : RCfg) : RState := List.replicate c.numQueries []

/-- `update_single_query` -/
def updateSingle (k : Option Nat) (retained batch : List Pair) : List Pair :=
  topk k (retained ++ batch)

/-- `update(input, target, indexes)` after the shape check (adapter).  With one
    query `indexes` is ignored; with several it is required, and a query is
    touched only when its number occurs in `indexes`. -/
def rUpdate (c : RCfg) (st : RState) (batch : List Pair) (indexes : Option (List Int)) :
    Except Err RState :=
  if c.numQueries = 1 then
    .ok (st.map fun s => updateSingle c.k s batch)
  else
    match indexes with
    | none => .error .value
    | some ix =>
      .ok (st.zipIdx.map fun (s, i) =>
        if ix.any (· == (i : Int)) then
          updateSingle c.k s (((batch.zip ix).filter fun p => p.2 == (i : Int)).map (·.1))
        else s)

/-- `merge_state(metrics)`: per query `cat([self] + [m for m in metrics])`, no re-pruning. -/
def rMerge (st : RState) (others : List RState) : Except Err RState :=
  if others.any (fun o => decide (o.length < st.length)) then .error .index
  else .ok (others.foldl (fun acc o => List.zipWith (· ++ ·) acc o) st)

/-- the functional applied by `compute` to the retained pairs of one query. -/
def functionalOn (c : RCfg) (s : List Pair) : XQ :=
  match c.kind with
  | .precision => precisionPairs c.k c.limit s
  | .recall => recallPairs c.k s

/-- one query of `compute`: `none` = nothing appended (unknown action string). -/
def queryValue (c : RCfg) (s : List Pair) : Except Err (Option XQ) :=
  if s.isEmpty then .ok (some .nan)
  else if !(s.any fun p => p.2 == 1) then
    match c.action with
    | .pos => .ok (some (.val 1))
    | .neg => .ok (some (.val 0))
    | .skip => .ok (some .nan)
    | .err => .error .value
    | .other => .ok none
  else .ok (some (functionalOn c s))

def isNan : XQ → Bool | .nan => true | _ => false

def xadd : XQ → XQ → XQ
  | .val a, .val b => .val (a + b)
  | .nan, _ | _, .nan => .nan
  | .pinf, .ninf | .ninf, .pinf => .nan
  | .pinf, _ | _, .pinf => .pinf
  | .ninf, _ | _, .ninf => .ninf

def xdivNat (x : XQ) (n : Nat) : XQ :=
  match x with
  | .val a => xdiv a n
  | .nan => .nan
  | .pinf => .pinf
  | .ninf => .ninf

/-- `tensor.nanmean()` -/
def nanmean (l : List XQ) : XQ :=
  let f := l.filter (fun x => !isNan x)
  if f.isEmpty then .nan else xdivNat (f.foldl xadd (.val 0)) f.length

/-- `compute()`: per-query values, or their nanmean for `avg="macro"`. -/
def rCompute (c : RCfg) (st : RState) : Except Err (List XQ ⊕ XQ) := do
  let vs ← st.mapM (queryValue c)
  let vs := vs.filterMap id
  if vs.isEmpty then throw .runtime        -- `torch.cat([])`
  pure (if c.isMacro then .inr (nanmean vs) else .inl vs)

/-! ### click-through rate, weighted calibration, collisions, frequency -/

/-- `_click_through_rate_update` for one task with tensor weights. -/
def ctrUpdate (input weights : List Q) : Q × Q :=
  (qsum ((input.zip weights).map fun p => p.1 * p.2), qsum weights)

/-- … with a scalar weight. -/
def ctrUpdateScalar (input : List Q) (w : Q) : Q × Q :=
  (w * qsum input, w * (input.length : Q))

/-- `_click_through_rate_compute`: `eps = torch.finfo(dtype).tiny` keeps `0/0` at 0. -/
def ctrCompute (eps clicks weight : Q) : XQ := xdiv clicks (weight + eps)

/-- `_weighted_calibration_update` for one task with tensor weights. -/
def wcUpdate (input target weight : List Q) : Q × Q :=
  (qsum ((weight.zip input).map fun p => p.1 * p.2), qsum ((weight.zip target).map fun p => p.1 * p.2))

def wcUpdateScalar (input target : List Q) (w : Q) : Q × Q := (w * qsum input, w * qsum target)

/-- `num_collisions`: compare every id with every id, subtract the self-match. -/
def numCollisions (ids : List Int) : List Int :=
  ids.map fun x => ((ids.countP (· == x) : Nat) : Int) - 1

/-- `frequency_at_k` (after the `k < 0` check): `(input < k).float()` -/
def frequencyAtK (input : List Q) (k : Q) : Except Err (List Q) :=
  if k < 0 then .error .value else .ok (input.map fun x => b2q (decide (x < k)))

end TE.Rank
