/-
  TE.Model.Round — the STANDARD MODEL of floating-point arithmetic over the rationals
  (Higham, "Accuracy and Stability of Numerical Algorithms", §2.2), import-free.

  A rounding operator with unit roundoff `u` is ANY function `rnd : Q → Q` with

        |rnd x − x| ≤ u · |x|            for every x                 (`structure Fl u`)

  (IEEE round-to-nearest in binary32 / binary64 is such an operator with u = 2⁻²⁴ / 2⁻⁵³ as long as
  no intermediate result overflows or falls into the subnormal range; rounding toward zero / up /
  down are such operators with u = 2⁻²³ / 2⁻⁵²).  A floating-point operation is the exact operation
  followed by `rnd`:  `fadd a b = rnd (a + b)`, `fsub`, `fmul`, `fdiv`.

  Summation.  `torch.sum` is vectorised / cascaded / multi-threaded and its order of additions is not
  specified.  Every such order is a binary tree whose leaves are the addends, so the model of a sum
  is `fsum F t` for an ARBITRARY tree shape `t` (`inductive SumTree`), and the theorems of
  TE/Props/C07_Round.lean quantify over all trees.  (Adding an exact zero is exact — `rnd 0 = 0` is
  forced by the model — so zero-initialised accumulators / vector lanes do not add leaves.)
  For "every per-node rounding" (different rounding at different nodes, mixed float32 / float64
  accumulation, non-deterministic choice) there is the relational form `RSum u t v`:
  "v is a possible result of summing t when every addition is within relative error u".
  `fsum F t` is one such result (`TE.RoundL.fsum_RSum`).

  The class accumulators (`self.weighted_sum += batch_sum`) are a LEFT FOLD over batches of tree sums:
  `stream F s₀ batches`; it equals the tree sum over the left comb `comb (leaf s₀) batches`.

  Elementwise operations before the sum (`weight * input`, `square(target − input) * sample_weight`)
  are `SumTree.map` of a rounded term function over a tree of argument tuples; the exact counterpart is
  `SumTree.map` of the exact term function.  `RelErr u k â a` says "â carries at most k roundings
  relative to a":  |â − a| ≤ ((1+u)ᵏ − 1)·|a|.

  Nothing here is linked into the driver; the file is a specification for the theorems and is tied
  to the real code by the rounding-model stream of harness/props/c07.py.
-/
namespace TE.Round

abbrev Q := Rat

/-- absolute value on `Q` (core Lean only). -/
def qabs (x : Q) : Q := if x < 0 then -x else x

/-- **the standard model**: a rounding operator with unit roundoff `u`. -/
structure Fl (u : Q) where
  rnd : Q → Q
  err : ∀ x : Q, qabs (rnd x - x) ≤ u * qabs x

namespace Fl
variable {u : Q}
/-- floating-point addition / subtraction / multiplication / division: exact result, then rounded. -/
def fadd (F : Fl u) (a b : Q) : Q := F.rnd (a + b)
def fsub (F : Fl u) (a b : Q) : Q := F.rnd (a - b)
def fmul (F : Fl u) (a b : Q) : Q := F.rnd (a * b)
def fdiv (F : Fl u) (a b : Q) : Q := F.rnd (a / b)
end Fl

/-- "`â` is `a` up to `k` roundings": `|â − a| ≤ ((1+u)ᵏ − 1)·|a|`. -/
def RelErr (u : Q) (k : Nat) (ah a : Q) : Prop := qabs (ah - a) ≤ ((1 + u) ^ k - 1) * qabs a

/-! ## summation trees -/

/-- a binary tree with data at the leaves: the SHAPE of a summation (which partial sums are formed). -/
inductive SumTree (α : Type) where
  | leaf : α → SumTree α
  | node : SumTree α → SumTree α → SumTree α

namespace SumTree
variable {α β : Type}

def map (f : α → β) : SumTree α → SumTree β
  | leaf a => leaf (f a)
  | node l r => node (map f l) (map f r)

/-- the leaves, left to right. -/
def leaves : SumTree α → List α
  | leaf a => [a]
  | node l r => leaves l ++ leaves r

/-- number of leaves (= number of addends). -/
def size : SumTree α → Nat
  | leaf _ => 1
  | node l r => size l + size r

/-- number of additions on the longest root-to-leaf path. -/
def depth : SumTree α → Nat
  | leaf _ => 0
  | node l r => max (depth l) (depth r) + 1

/-- exact sum of the leaves. -/
def sum : SumTree Q → Q
  | leaf x => x
  | node l r => sum l + sum r

/-- `Σ |leaf|`. -/
def asum : SumTree Q → Q
  | leaf x => qabs x
  | node l r => asum l + asum r

/-- every leaf is non-negative (weights / terms of a denominator). -/
def NonNeg : SumTree Q → Prop
  | leaf x => 0 ≤ x
  | node l r => NonNeg l ∧ NonNeg r

/-- the computed sum: one rounded addition per inner node, in the order given by the tree. -/
def fsum {u : Q} (F : Fl u) : SumTree Q → Q
  | leaf x => x
  | node l r => F.fadd (fsum F l) (fsum F r)

/-- the left comb over `xs` starting from `s`: `((s + x₁) + x₂) + …` — sequential (left-fold) summation. -/
def comb (s : SumTree α) (bs : List (SumTree α)) : SumTree α := bs.foldl node s

end SumTree

/-- **every per-node rounding**: `RSum u t v` — `v` is a possible floating-point value of the sum
    with shape `t` when EACH addition commits a relative error of at most `u` (the rounding may
    differ from node to node). -/
inductive RSum (u : Q) : SumTree Q → Q → Prop where
  | leaf (x : Q) : RSum u (.leaf x) x
  | node {l r : SumTree Q} {a b v : Q} : RSum u l a → RSum u r b →
      qabs (v - (a + b)) ≤ u * qabs (a + b) → RSum u (.node l r) v

/-- sequential summation `((s + x₁) + x₂) + …` with one rounding per addition. -/
def lfold {u : Q} (F : Fl u) (s : Q) (xs : List Q) : Q := xs.foldl F.fadd s

/-- the class accumulator: the state starts at `s`, every `update` adds the (tree-)sum of its batch:
    `state ← fl(state + fsum batch)`. -/
def stream {u : Q} (F : Fl u) (s : Q) (batches : List (SumTree Q)) : Q :=
  lfold F s (batches.map (SumTree.fsum F))

/-! ## the sums and ratios of the metrics, as computed -/

/-- `torch.sum(weight * input)` — leaves are `(w, x)`; one rounded product per term (`Sum`, `Mean.weighted_sum`,
    the numerators of click-through rate and weighted calibration). -/
def fwsum {u : Q} (F : Fl u) (t : SumTree (Q × Q)) : Q := SumTree.fsum F (t.map fun p => F.fmul p.1 p.2)
/-- its exact value `Σ wᵢxᵢ` and the scale `Σ |wᵢxᵢ|`. -/
def wsum (t : SumTree (Q × Q)) : Q := (t.map fun p => p.1 * p.2).sum
def awsum (t : SumTree (Q × Q)) : Q := (t.map fun p => p.1 * p.2).asum

/-- one term of the weighted squared error as computed: `fl(fl(fl(y − x)²)·w)` — leaves are `(w, x, y)`. -/
def fsqTerm {u : Q} (F : Fl u) (p : Q × Q × Q) : Q :=
  F.fmul (F.fmul (F.fsub p.2.2 p.2.1) (F.fsub p.2.2 p.2.1)) p.1
def sqTerm (p : Q × Q × Q) : Q := p.1 * ((p.2.2 - p.2.1) * (p.2.2 - p.2.1))

/-- the unweighted term `fl(fl(y − x)²)` — leaves are `(x, y)`. -/
def fsq {u : Q} (F : Fl u) (p : Q × Q) : Q := F.fmul (F.fsub p.2 p.1) (F.fsub p.2 p.1)
def sq (p : Q × Q) : Q := (p.2 - p.1) * (p.2 - p.1)

/-- `(square(target − input) * sample_weight).sum()` as computed, and its exact value. -/
def fsse {u : Q} (F : Fl u) (t : SumTree (Q × Q × Q)) : Q := SumTree.fsum F (t.map (fsqTerm F))
def sse (t : SumTree (Q × Q × Q)) : Q := (t.map sqTerm).sum

/-- weighted mean as computed: `fl( fl-Σ(w·x) / fl-Σ w )`; the two sums may use different tree shapes. -/
def fwmean {u : Q} (F : Fl u) (tn : SumTree (Q × Q)) (td : SumTree Q) : Q := F.fdiv (fwsum F tn) (td.fsum F)

/-- weighted mean squared error as computed. -/
def fmse {u : Q} (F : Fl u) (tn : SumTree (Q × Q × Q)) (td : SumTree Q) : Q := F.fdiv (fsse F tn) (td.fsum F)

/-- ratio of two weighted sums as computed (weighted calibration `Σ w·input / Σ w·target`). -/
def fwratio {u : Q} (F : Fl u) (tn td : SumTree (Q × Q)) : Q := F.fdiv (fwsum F tn) (fwsum F td)

/-- `Mean.compute()` after a history of `update`s: both states are accumulator streams (one batch tree per update),
    `weighted_sum / weights`. -/
def fmeanClass {u : Q} (F : Fl u) (bn : List (SumTree (Q × Q))) (bd : List (SumTree Q)) : Q :=
  F.fdiv (stream F 0 (bn.map fun t => t.map fun p => F.fmul p.1 p.2)) (stream F 0 bd)

/-! ## the raw-moments total sum of squares (r2_score), as computed on two observations -/

/-- `Σy² − (Σy)²/n` for `n = 2`, every operation rounded (the sufficient-statistics form of
    `_r2_score_compute`): `fl( fl(fl(y₁²) + fl(y₂²)) − fl( fl(fl(y₁+y₂)²) / 2 ) )`. -/
def ftssRaw2 {u : Q} (F : Fl u) (y1 y2 : Q) : Q :=
  F.fsub (F.fadd (F.fmul y1 y1) (F.fmul y2 y2)) (F.fdiv (F.fmul (F.fadd y1 y2) (F.fadd y1 y2)) 2)

/-- the definition `Σ (y − ȳ)²` for `n = 2`. -/
def tssDef2 (y1 y2 : Q) : Q :=
  (y1 - (y1 + y2) / 2) * (y1 - (y1 + y2) / 2) + (y2 - (y1 + y2) / 2) * (y2 - (y1 + y2) / 2)

end TE.Round
