/-
  TE.Model.Obj — a metric *object* as the checkpoint machinery sees it: the
  registered part (what `state_dict()` shows and `load_state_dict`/`reset` set)
  and the unregistered part (plain attributes).  Used by C09/C10.
-/
namespace TE

structure Obj (R U : Type) where
  reg   : R
  unreg : U

/-- object semantics: one operation (update / merge / compute …) on the whole object. -/
structure ObjSem (R U Op Out : Type) where
  step : Obj R U → Op → Obj R U × Out

variable {R U Op Out : Type}

def ObjSem.run (sem : ObjSem R U Op Out) (o : Obj R U) : List Op → Obj R U
  | [] => o
  | op :: ops => sem.run (sem.step o op).1 ops

def ObjSem.outputs (sem : ObjSem R U Op Out) (o : Obj R U) : List Op → List Out
  | [] => []
  | op :: ops => (sem.step o op).2 :: sem.outputs (sem.step o op).1 ops

/-- `load_state_dict(state_dict())` into a freshly constructed instance: registered
    part from the saved object, unregistered part from the constructor. -/
def restore (saved fresh : Obj R U) : Obj R U := ⟨saved.reg, fresh.unreg⟩

/-- `reset()`: registered part back to the default; unregistered part is what the
    class's `reset` override (if any) makes of it. -/
def resetObj (dflt : R) (resetU : U → U) (o : Obj R U) : Obj R U := ⟨dflt, resetU o.unreg⟩

/-- no operation writes the unregistered part. -/
def FrozenUnreg (sem : ObjSem R U Op Out) : Prop := ∀ o op, (sem.step o op).1.unreg = o.unreg

end TE
