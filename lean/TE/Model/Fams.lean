/-
  TE.Model.Fams — TYPED metric families (C12 / C03 / C01).

  A driver family is `Fam = {stat : Args → Except Err Parts, outA}`: `stat` parses the
  protocol strings, performs the shape checks and calls the typed `…Update` of TE/Model.
  This file holds the part of every `stat` that comes *after parsing*: the validation
  that depends on the data (sample counts of input and target differ ⇒ `ValueError`,
  label out of range ⇒ the modelled error, …) followed by the typed `…Update`, packed
  into `Parts`.  The adapters of TE/Driver call exactly these functions, so the compiled
  driver (compared with the real code on every check) executes the objects the
  `statCat_*` theorems of TE/Lemmas/FamStat*.lean are about.

  For every batch type there is a concatenation `cat…` of a list of batches along the
  sample dimension.  Configuration (threshold, average, num_classes, k, the threshold
  list of the binned metrics, n-gram order, `ln`/`exp`, …) and the *arity* of a stream
  (logit width `W`, number of output columns `d`, number of tasks `nt`) are parameters
  of the family: the theorems are about streams of one fixed arity (DESIGN §C12).
-/
import TE.Model.Parts
import TE.Model.Count
import TE.Model.Agg
import TE.Model.Binned
import TE.Model.Rank
import TE.Model.Text
namespace TE.Fams
open TE

/-- a typed sufficient-statistic family: the functional is `stat >=> outA`, the class is
    `additive partsAcc stat outA`. -/
structure TFam (B O : Type) where
  stat : B → Except Err Parts
  outA : Parts → Except Err O

def TFam.cls {B O : Type} (f : TFam B O) : Impl B Parts O := additive partsAcc f.stat f.outA
def TFam.fn {B O : Type} (f : TFam B O) (b : B) : Except Err O := f.stat b >>= f.outA

/-- a typed cache-all family: the state is the list of cached samples. -/
structure LFam (B α O : Type) where
  stat : B → Except Err (List α)
  outA : List α → Except Err O

def LFam.cls {B α O : Type} (f : LFam B α O) : Impl B (List α) O := additive (listAcc α) f.stat f.outA
def LFam.fn {B α O : Type} (f : LFam B α O) (b : B) : Except Err O := f.stat b >>= f.outA

/-! ## batch types and their concatenation along the sample dimension -/

/-- `(input, target)` with one entry per sample: `torch.cat` of both. -/
def catPair {α β : Type} (bs : List (List α × List β)) : List α × List β :=
  ((bs.map (·.1)).flatten, (bs.map (·.2)).flatten)

/-- `(input, target, weight)` with one entry per sample. -/
def catTriple {α β γ : Type} (bs : List (List α × List β × List γ)) : List α × List β × List γ :=
  ((bs.map (·.1)).flatten, (bs.map (·.2.1)).flatten, (bs.map (·.2.2)).flatten)

/-- per-task (or per-column) concatenation: row `k` of the result is the concatenation of
    the rows `k` of the batches (`torch.cat(dim=-1)` of `(num_tasks, n)` tensors). -/
def appendRows {α : Type} (a b : List (List α)) : List (List α) := List.zipWith (· ++ ·) a b

def catRows {α : Type} (r : Nat) (bs : List (List (List α))) : List (List α) :=
  bs.foldr appendRows (List.replicate r [])

/-! ### weights: a Python number, a tensor, or absent -/

/-- a scalar weight stands for that weight on every sample. -/
def expandW (n : Nat) : Agg.Weight → List Q
  | .scalar w => List.replicate n w
  | .tensor ws => ws

/-- `(input, weight)` batches of `Mean` / `Sum`: the concatenation carries element weights. -/
def catWeighted (bs : List (List Q × Agg.Weight)) : List Q × Agg.Weight :=
  ((bs.map (·.1)).flatten, .tensor (bs.map fun b => expandW b.1.length b.2).flatten)

/-- `sample_weight=None` stands for weight one on every sample. -/
def expandO (n : Nat) : Option (List Q) → List Q
  | none => List.replicate n 1
  | some ws => ws

/-! ## count-based classification metrics (TE/Model/Count.lean) -/

section count
open TE.Count

/-- `binary_accuracy` : `input`, `target` data of two 1-D tensors. -/
def binaryAccuracyStat (thr : Q) (b : List Q × List Q) : Except Err Parts :=
  if b.1.length = b.2.length then
    let r := binaryAccuracyUpdate thr b.1 b.2
    .ok [[r.1], [r.2]]
  else .error .value

/-- `multiclass_accuracy`, `k = 1`: predictions (labels, or the arg-max of the logit rows)
    and integer targets. -/
def mcAccuracyStat (avg : Avg) (C : Nat) (b : List Nat × List Nat) : Except Err Parts :=
  if b.1.length = b.2.length then
    (mcAccFromMask (mcMaskLabel b.1 b.2) b.2 avg C).map fun r => [r.1, r.2]
  else .error .value

/-- `multiclass_accuracy`, `k > 1`: logit rows of width `W`; `torch.gather` raises for a
    label outside the row. -/
def mcAccuracyTopkStat (avg : Avg) (C k W : Nat) (b : List (List Q) × List Nat) : Except Err Parts :=
  if b.1.length = b.2.length then
    if b.2.all (· < W) then
      (mcAccFromMask (mcMaskTopk b.1 b.2 k) b.2 avg C).map fun r => [r.1, r.2]
    else .error .runtime
  else .error .value

/-- `multilabel_accuracy` : rows of scores and rows of 0/1 targets. -/
def multilabelAccuracyStat (thr : Q) (crit : Crit) (b : List (List Q) × List (List Q)) : Except Err Parts :=
  if b.1.length = b.2.length then
    let r := multilabelAccuracyUpdate thr crit b.1 b.2
    .ok [[r.1], [r.2]]
  else .error .value

/-- `topk_multilabel_accuracy` -/
def topkMultilabelStat (crit : Crit) (k : Nat) (b : List (List Q) × List (List Q)) : Except Err Parts :=
  if b.1.length = b.2.length then
    let r := topkMultilabelUpdate crit k b.1 b.2
    .ok [[r.1], [r.2]]
  else .error .value

/-- `binary_precision` -/
def binaryPrecisionStat (thr : Q) (b : List Q × List Q) : Except Err Parts :=
  if b.1.length = b.2.length then
    let r := binaryPrecisionUpdate thr b.1 b.2
    .ok [[r.1], [r.2]]
  else .error .value

/-- `binary_recall` (integer targets) -/
def binaryRecallStat (thr : Q) (b : List Q × List Nat) : Except Err Parts :=
  if b.1.length = b.2.length then
    let r := binaryRecallUpdate thr b.1 b.2
    .ok [[r.1], [r.2]]
  else .error .value

/-- `binary_f1_score` -/
def binaryF1Stat (thr : Q) (b : List Q × List Q) : Except Err Parts :=
  if b.1.length = b.2.length then
    let r := binaryF1Update thr b.1 b.2
    .ok [[r.1], [r.2.1], [r.2.2]]
  else .error .value

/-- `multiclass_precision` : predictions and integer targets. -/
def mcPrecisionStat (avg : Avg) (C : Nat) (b : List Nat × List Nat) : Except Err Parts :=
  if b.1.length = b.2.length then
    (precisionUpdate b.1 b.2 avg C).map fun s => [s.tp, s.a, s.b]
  else .error .value

/-- `multiclass_recall` and `multiclass_f1_score` (same `_update`). -/
def mcRecallStat (avg : Avg) (C : Nat) (b : List Nat × List Nat) : Except Err Parts :=
  if b.1.length = b.2.length then
    (recallUpdate b.1 b.2 avg C).map fun s => [s.tp, s.a, s.b]
  else .error .value

/-- `multiclass_confusion_matrix` on predictions and integer targets.  `checkP` / `checkL`:
    the value checks of `_confusion_matrix_update_input_check` (`ValueError`) precede the
    sparse accumulation (`RuntimeError`). -/
def confusionStat (C : Nat) (checkP checkL : Bool) (b : List Nat × List Nat) : Except Err Parts :=
  if b.1.length = b.2.length then
    if checkP && !(b.1.all (· < C)) then .error .value
    else if checkL && !(b.2.all (· < C)) then .error .value
    else (confusionUpdate b.1 b.2 C).map fun m => [m.flatten]
  else .error .value

/-- `binary_confusion_matrix` : thresholded scores against integer targets. -/
def binaryConfusionStat (thr : Q) (b : List Q × List Nat) : Except Err Parts :=
  confusionStat 2 false false (b.1.map (thresh thr), b.2)

end count

/-! ## aggregation / regression / entropy (TE/Model/Agg.lean) -/

section agg
open TE.Agg

/-- `Mean` : `(weighted_sum, weights)` -/
def meanStat (b : List Q × Weight) : Except Err Parts :=
  (meanUpdate b.1 b.2).map fun r => [[r.1], [r.2]]

/-- `Sum` -/
def sumStat (b : List Q × Weight) : Except Err Parts :=
  (sumUpdate b.1 b.2).map fun s => [[s]]

/-- a regression batch as columns: `d` output columns of `n` samples each (a 1-D tensor is
    one column), optional per-sample weights. -/
structure ColBatch where
  xcols : Mat
  tcols : Mat
  n : Nat
  w : Option (List Q)

/-- the shape check `input.shape == target.shape`, `sample_weight.shape[0] == n` on the
    column view; `d` is the arity of the stream. -/
def ColBatch.ok (d : Nat) (b : ColBatch) : Bool :=
  b.xcols.length == d && b.tcols.length == d &&
  b.xcols.all (·.length == b.n) && b.tcols.all (·.length == b.n) &&
  (match b.w with | none => true | some ws => ws.length == b.n)

def catCols (d : Nat) (bs : List ColBatch) : ColBatch :=
  { xcols := catRows d (bs.map (·.xcols))
    tcols := catRows d (bs.map (·.tcols))
    n := (bs.map (·.n)).sum
    w := some (bs.map fun b => expandO b.n b.w).flatten }

/-- `MeanSquaredError`, streams of arity `d` : `(sum_squared_error per output, sum_weight)` -/
def mseStat (d : Nat) (b : ColBatch) : Except Err Parts :=
  if b.ok d then
    let r := mseUpdate b.w b.xcols b.tcols b.n
    .ok [r.1, [r.2]]
  else .error .value

/-- `R2Score`, streams of arity `d` : `(Σy², Σy, Σ(y−ŷ)², n)` -/
def r2Stat (d : Nat) (b : ColBatch) : Except Err Parts :=
  if b.ok d then
    let r := r2Update b.xcols b.tcols
    .ok [r.1, r.2.1, r.2.2, [(b.n : Q)]]
  else .error .value

/-- the driver adapters of MeanSquaredError / R2Score append an *arity marker* part (`1` for an
    `(n, d)` batch, `0` for a 1-D batch) to the additive parts; `compute` only asks whether it is
    non-zero.  The marker is a counter, not a sufficient statistic (see `C12.mse_arity_marker_witness`). -/
def withMarker (two : Bool) (p : Except Err Parts) : Except Err Parts :=
  p.map (· ++ [[if two then 1 else 0]])

/-- a multi-task batch: `nt` task rows of input, target and (optional) weight. -/
structure TaskBatch where
  x : Mat
  t : Mat
  w : Option Mat

def TaskBatch.shapeOk (nt : Nat) (b : TaskBatch) : Bool :=
  b.x.length == nt && b.t.length == nt &&
  (List.zipWith (fun a c => a.length == c.length) b.x b.t).all id &&
  (match b.w with
   | none => true
   | some w => w.length == nt && (List.zipWith (fun a c => a.length == c.length) b.x w).all id)

def catTasks (nt : Nat) (bs : List TaskBatch) : TaskBatch :=
  { x := catRows nt (bs.map (·.x))
    t := catRows nt (bs.map (·.t))
    w := some (catRows nt (bs.map fun b => match b.w with
      | some w => w
      | none => b.t.map fun r => r.map fun _ => (1 : Q))) }

/-- per-task `(cross_entropy, num_positive, num_examples)` -/
def bneRows (ln exp : Q → Q) (fromLogits : Bool) (x t : Mat) (w : Option Mat) : List (Q × Q × Q) :=
  (List.range x.length).map fun k =>
    bneUpdate ln exp fromLogits (x.getD k []) (t.getD k []) (w.map fun w => w.getD k [])

/-- `BinaryNormalizedEntropy` with `num_tasks = nt` : shapes, "no sample" (`RuntimeError`),
    probabilities outside `[0,1]` (`ValueError`), then per task `(ce, num_examples, num_positive)`. -/
def bneStat (ln exp : Q → Q) (fromLogits : Bool) (nt : Nat) (b : TaskBatch) : Except Err Parts :=
  if !b.shapeOk nt then .error .value
  else if b.x.flatten.isEmpty then .error .runtime
  else if !fromLogits && (b.x.flatten.any (fun q => decide (1 < q)) || b.x.flatten.any (fun q => decide (q < 0)))
    then .error .value
  else
    let r := bneRows ln exp fromLogits b.x b.t b.w
    .ok [r.map (·.1), r.map (·.2.2), r.map (·.2.1)]

/-- `Perplexity` : one logit row (width = vocabulary `v`) and one label per token. -/
def pplStat (exp ln : Q → Q) (v : Nat) (ignore : Option Int) (b : Mat × List Int) : Except Err Parts :=
  if b.1.length = b.2.length then
    (pplUpdate exp ln v b.1 b.2 ignore).map fun r => [[r.1], [r.2]]
  else .error .value

/-- the additive part of `PeakSignalNoiseRatio` : `(Σ(input − target)², numel)` -/
def psnrStat (b : List Q × List Q) : Except Err Parts :=
  if b.1.length = b.2.length then
    let r := psnrUpdate b.1 b.2
    .ok [[r.1], [r.2]]
  else .error .value

end agg

/-! ## ranking (TE/Model/Rank.lean) -/

section rank
open TE.Rank

/-- `weights=` of `click_through_rate` / `weighted_calibration`: per-task rows or a number. -/
inductive TW where
  | tensor (rows : Mat)
  | scalar (q : Q)

def TW.rows (t : Mat) : TW → Mat
  | .tensor r => r
  | .scalar q => t.map fun r => r.map fun _ => q

def rowsLenOk (nt : Nat) (a b : Mat) : Bool :=
  a.length == nt && b.length == nt && (List.zipWith (fun r s => r.length == s.length) a b).all id

/-- `ClickThroughRate` with `num_tasks = nt` : per task `(click_total, weight_total)` -/
def ctrStat (nt : Nat) (b : Mat × TW) : Except Err Parts :=
  match b.2 with
  | .tensor w =>
    if rowsLenOk nt b.1 w then
      let s := (b.1.zip w).map fun p => ctrUpdate p.1 p.2
      .ok [s.map (·.1), s.map (·.2)]
    else .error .value
  | .scalar q =>
    if b.1.length = nt then
      let s := b.1.map fun r => ctrUpdateScalar r q
      .ok [s.map (·.1), s.map (·.2)]
    else .error .value

def catCtr (nt : Nat) (bs : List (Mat × TW)) : Mat × TW :=
  (catRows nt (bs.map (·.1)), .tensor (catRows nt (bs.map fun b => b.2.rows b.1)))

/-- `WeightedCalibration` with `num_tasks = nt` : per task `(Σ w·input, Σ w·target)` -/
def wcStat (nt : Nat) (b : Mat × Mat × TW) : Except Err Parts :=
  if rowsLenOk nt b.1 b.2.1 then
    match b.2.2 with
    | .scalar q =>
      let s := (b.1.zip b.2.1).map fun p => wcUpdateScalar p.1 p.2 q
      .ok [s.map (·.1), s.map (·.2)]
    | .tensor w =>
      if rowsLenOk nt b.1 w then
        let s := (b.1.zip (b.2.1.zip w)).map fun p => wcUpdate p.1 p.2.1 p.2.2
        .ok [s.map (·.1), s.map (·.2)]
      else .error .value
  else .error .value

def catWc (nt : Nat) (bs : List (Mat × Mat × TW)) : Mat × Mat × TW :=
  (catRows nt (bs.map (·.1)), catRows nt (bs.map (·.2.1)),
   .tensor (catRows nt (bs.map fun b => b.2.2.rows b.1)))

end rank

/-! ## binned metrics (TE/Model/Binned.lean); the threshold list `t` is configuration -/

section binned
open TE.Binned

def parts3 (m : Mat × Mat × Mat) : Parts := [m.1.flatten, m.2.1.flatten, m.2.2.flatten]

/-- `BinaryBinnedPrecisionRecallCurve` : `(num_tp, num_fp, num_fn)` per threshold. -/
def binaryBinnedStat (t : List Q) (b : List Q × List Nat) : Except Err Parts :=
  if b.1.length = b.2.length then
    (binaryUpdate t b.1 b.2).map fun r => [r.1, r.2.1, r.2.2]
  else .error .value

/-- `MulticlassBinnedPrecisionRecallCurve` / `MulticlassBinnedAUPRC` : logit rows of width
    `W`, integer labels; three `(T, W)` count matrices, flattened. -/
def mcBinnedStat (t : List Q) (opt : Opt) (W : Nat) (b : Mat × List Nat) : Except Err Parts :=
  if b.1.length = b.2.length then
    (match opt with
     | .vectorized => mcVectorized t W b.1 b.2
     | .memory => mcMemory t W b.1 b.2).map parts3
  else .error .value

/-- `MultilabelBinnedPrecisionRecallCurve` / `MultilabelBinnedAUPRC` : `L` label columns. -/
def mlBinnedStat (t : List Q) (opt : Opt) (L : Nat) (b : Mat × List (List Nat)) : Except Err Parts :=
  if b.1.length = b.2.length then
    (match opt with
     | .vectorized => Except.ok (mlVectorized t L b.1 b.2)
     | .memory => mlMemory t L b.1 b.2).map parts3
  else .error .value

/-- `BinaryBinnedAUPRC` with `num_tasks = nt` : the binary counts of every task row. -/
def binaryBinnedAuprcStat (t : List Q) (nt : Nat) (b : List (List Q × List Nat)) : Except Err Parts :=
  if !(b.all fun p => p.1.length == p.2.length) then .error .value
  else if b.length ≠ nt then .error .index
  else (b.mapM fun p => binaryUpdate t p.1 p.2).map fun rows =>
    [(rows.map (·.1)).flatten, (rows.map (·.2.1)).flatten, (rows.map (·.2.2)).flatten]

/-- per-task concatenation of `(scores, targets)` rows. -/
def catTaskPairs {α β : Type} (nt : Nat) (bs : List (List (List α × List β))) : List (List α × List β) :=
  bs.foldr (List.zipWith fun p q => (p.1 ++ q.1, p.2 ++ q.2)) (List.replicate nt ([], []))

end binned

/-! ## text (TE/Model/Text.lean); tokens are any type with decidable equality -/

section text
open TE.Text
variable {α : Type} [DecidableEq α]

/-- `WordErrorRate` : `(errors, total)` over `zip(input, target)` -/
def werStat (b : List (List α) × List (List α)) : Except Err Parts :=
  if b.1.length = b.2.length then
    let r := werUpdate b.1 b.2
    .ok [[r.1], [r.2]]
  else .error .value

/-- `WordInformationPreserved` -/
def wipStat (b : List (List α) × List (List α)) : Except Err Parts :=
  if b.1.length = b.2.length then
    let r := wipUpdate b.1 b.2
    .ok [[r.1], [r.2.1], [r.2.2]]
  else .error .value

/-- `WordInformationLost` (`assert len(input) == len(target)`) -/
def wilStat (b : List (List α) × List (List α)) : Except Err Parts :=
  if b.1.length = b.2.length then
    let r := wilUpdate b.1 b.2
    .ok [[r.1], [r.2.1], [r.2.2]]
  else .error .assertion

def natQ (l : List Nat) : List Q := l.map fun (n : Nat) => (n : Q)

/-- `BLEUScore` with n-gram order `N` : candidates and their groups of references;
    `(input_len, target_len, matches_by_order, possible_matches_by_order)` -/
def bleuStat (N : Nat) (b : List (List α) × List (List (List α))) : Except Err Parts :=
  if b.1.length = b.2.length then
    (bleuUpdate N b.1 b.2).map fun s =>
      [[(s.inputLen : Nat)], [(s.targetLen : Nat)], natQ s.matchesBy, natQ s.possibleBy]
  else .error .value

end text

/-! ## cache-all families: the statistic is the list of the batch's samples -/

/-- validation, then one record per sample. -/
def cacheStat {B α : Type} (valid : B → Except Err Unit) (samples : B → List α) (b : B) :
    Except Err (List α) :=
  (valid b).map fun _ => samples b

def lenCheck {α β : Type} (b : List α × List β) : Except Err Unit :=
  if b.1.length = b.2.length then .ok () else .error .value

/-- `(score, target)` samples: BinaryAUROC (unweighted), BinaryAUPRC, BinaryPrecisionRecallCurve,
    BinaryRecallAtFixedPrecision, one task row of BinaryBinnedAUROC, AUC's `(x, y)` points. -/
def pairSamples {α β : Type} : List α × List β → Except Err (List (α × β)) :=
  cacheStat lenCheck fun b => b.1.zip b.2

/-- `(score, target, weight)` samples: BinaryAUROC with weights, one distribution of Wasserstein1D. -/
def tripleSamples {α β γ : Type} : List α × List β × List γ → Except Err (List (α × β × γ)) :=
  cacheStat (fun b => if b.1.length = b.2.1.length ∧ b.1.length = b.2.2.length then Except.ok () else Except.error Err.value)
    fun b => b.1.zip (b.2.1.zip b.2.2)

/-- `(logit row, label)` / `(score row, target row)` samples: Multiclass/Multilabel AUROC, AUPRC,
    PR curves, recall@precision, MulticlassBinnedAUROC. -/
def rowSamples {β : Type} : Mat × List β → Except Err (List (List Q × β)) :=
  cacheStat lenCheck fun b => b.1.zip b.2

/-- `Cat` : the elements themselves. -/
def catSamples {α : Type} : List α → Except Err (List α) := cacheStat (fun _ => Except.ok ()) id

/-- `HitRate` : one value per sample, in update order. -/
def hitRateStat (C : Nat) (k : Option Int) (b : Mat × List Int) : Except Err (List Q) :=
  if b.1.length = b.2.length then Rank.hitRate b.1 C b.2 k else .error .value

/-- `ReciprocalRank` -/
def reciprocalRankStat (k : Option Int) (b : Mat × List Int) : Except Err (List Q) :=
  if b.1.length = b.2.length then Rank.reciprocalRank b.1 b.2 k else .error .value

end TE.Fams
