/-
  TE.Model.Plumb — the PLUMBING of a class metric as the translator
  `harness/translators/plumbing.py` reads it off the source of update() / merge_state() /
  compute():  per registered state, how update() accumulates it, how merge_state() folds the
  sources into it and how compute() reads it.  `plumbImpl` gives a row its meaning as a class
  state machine (`TE.Impl`) over an abstract numeric carrier `A` (tensors of one shape over an
  exact field, with `+`, `max`, `min`) and an abstract chunk carrier `C` (tensors, with
  `torch.cat` along a dimension).  TE/Lemmas/Plumb.lean proves the refinement for every
  well-formed row; TE/Gen/Plumbing.lean is the generated table.
-/
import TE.Model.ClassSM
namespace TE.Plumb
open TE

/-- the accumulation operators the translator recognises on numeric states. -/
inductive NOp where
  | add | max | min
deriving DecidableEq, Repr

inductive FieldPlumb where
  /-- numeric state: `update` does `state = upd(state, term)`, `merge_state` does
      `state = mrg(state, source.<src>)` for every source in order; `defaultIsUnit` says that the
      registered default is the neutral element of `upd` (0 / -inf / +inf in every entry). -/
  | num (name : String) (upd mrg : NOp) (src : String) (defaultIsUnit : Bool)
  /-- list state: `update` appends one chunk; `merge_state` appends
      `torch.cat(source.<src>, dim)` for every source whose `<guard>` list is non-empty;
      `compute` reads it through `torch.cat(state, d)` for the `d` in `readDims`, through
      emptiness tests, and in `raw` other places. -/
  | lst (name src guard : String) (dim : Int) (readDims : List Int) (raw : Nat)
deriving DecidableEq, Repr

structure ClassPlumb where
  name : String
  fields : List FieldPlumb
  /-- the reason the class is outside the translator's normal form (then `fields = []`). -/
  unsupported : Option String
deriving Repr

def FieldPlumb.name' : FieldPlumb → String
  | .num n _ _ _ _ => n
  | .lst n _ _ _ _ _ => n

/-- `(upd, mrg, src)` of a numeric field. -/
def numOf (fs : List FieldPlumb) (f : String) : Option (NOp × NOp × String) :=
  match fs with
  | [] => none
  | .num n u m s _ :: rest => if n = f then some (u, m, s) else numOf rest f
  | .lst .. :: rest => numOf rest f

/-- `(src, guard, dim)` of a list field. -/
def lstOf (fs : List FieldPlumb) (f : String) : Option (String × String × Int) :=
  match fs with
  | [] => none
  | .lst n s g d _ _ :: rest => if n = f then some (s, g, d) else lstOf rest f
  | .num .. :: rest => lstOf rest f

def isLst (fs : List FieldPlumb) (f : String) : Bool := (lstOf fs f).isSome

def dimOf (fs : List FieldPlumb) (f : String) : Int :=
  match lstOf fs f with | some (_, _, d) => d | none => 0

/-- well-formedness of one field inside its class (decidable: `decide` runs it on the
    generated table). -/
def wfField (fs : List FieldPlumb) : FieldPlumb → Bool
  | .num n u m s du => u == m && s == n && du
  | .lst n s g d rd raw => s == n && isLst fs g && rd.all (· == d) && raw == 0

def WF (P : ClassPlumb) : Bool :=
  P.unsupported.isNone && P.fields.all (wfField P.fields)

/-! ## semantics -/

/-- the operations of the carriers with the laws the refinement needs.  For tensors over an
    exact field: `+`, elementwise `max` / `min` with neutral elements `0`, `-inf`, `+inf`;
    `cat d` is `torch.cat(·, dim=d)`, and `cat_flat` is its associativity: replacing a run of
    chunks by their concatenation along the SAME dimension does not change the concatenation. -/
structure Ops (A C : Type) where
  op : NOp → A → A → A
  unit : NOp → A
  cat : Int → List C → C
  assoc : ∀ o a b c, op o (op o a b) c = op o a (op o b c)
  comm : ∀ o a b, op o a b = op o b a
  unit_left : ∀ o a, op o (unit o) a = a
  cat_flat : ∀ d (xs ys zs : List C), ys ≠ [] → cat d (xs ++ [cat d ys] ++ zs) = cat d (xs ++ ys ++ zs)

/-- the object's registered states. -/
structure St (A C : Type) where
  num : String → A
  lst : String → List C

/-- what one valid `update()` call contributes to every state (the outputs of the functional
    `_update` helper / the arguments themselves; they do not depend on the object's state —
    the translator checks that). -/
structure Contrib (A C : Type) where
  num : String → A
  lst : String → C

variable {A C : Type}

def initSt (O : Ops A C) (fs : List FieldPlumb) : St A C where
  num f := match numOf fs f with | some (u, _, _) => O.unit u | none => O.unit .add
  lst _ := []

def updSt (O : Ops A C) (fs : List FieldPlumb) (s : St A C) (b : Contrib A C) : St A C where
  num f := match numOf fs f with | some (u, _, _) => O.op u (s.num f) (b.num f) | none => s.num f
  lst f := match lstOf fs f with | some _ => s.lst f ++ [b.lst f] | none => s.lst f

/-- one source folded into the target, as `merge_state` does inside its loop. -/
def mrg1 (O : Ops A C) (fs : List FieldPlumb) (s t : St A C) : St A C where
  num f := match numOf fs f with | some (_, m, src) => O.op m (s.num f) (t.num src) | none => s.num f
  lst f := match lstOf fs f with
    | some (src, g, d) => if t.lst g ≠ [] then s.lst f ++ [O.cat d (t.lst src)] else s.lst f
    | none => s.lst f

/-- what `compute()` can see of the state: numeric states as such, list states through
    `torch.cat(state, dim)` and through emptiness. -/
structure View (A C : Type) where
  num : String → A
  cat : String → C
  empty : String → Bool

def view (O : Ops A C) (fs : List FieldPlumb) (s : St A C) : View A C where
  num := s.num
  cat f := O.cat (dimOf fs f) (s.lst f)
  empty f := (s.lst f).isEmpty

/-- the class state machine of a plumbing row; `g` is the rest of `compute()` (the functional
    `_compute` helper applied to what compute reads). -/
def plumbImpl {R : Type} (O : Ops A C) (P : ClassPlumb) (g : View A C → Except Err R) :
    Impl (Contrib A C) (St A C) R where
  init := initSt O P.fields
  upd s b := .ok (updSt O P.fields s b)
  mrg s ss := .ok (ss.foldl (mrg1 O P.fields) s)
  out s := g (view O P.fields s)

end TE.Plumb
