/-
  TE.Model.Plumb — the PLUMBING of a class metric as the translator
  `harness/translators/plumbing.py` reads it off the source of update() / merge_state() /
  compute():  per registered state, how update() accumulates it, how merge_state() folds the
  sources into it and how compute() reads it.  `plumbImpl` gives a row its meaning as a class
  state machine (`TE.Impl`) over an abstract numeric carrier `A` (tensors of one shape over an
  exact field, with `+`, `max`, `min`) and an abstract chunk carrier `C` (tensors, with
  `torch.cat` along a dimension).  TE/Lemmas/Plumb.lean proves the refinement for every
  well-formed row; TE/Gen/Plumbing.lean is the generated table.

  A row is a list of FACTS.  `num` / `lst` say how a state is accumulated; the other
  constructors are supplementary facts about control flow the translator found literally in the
  source (and whose absence or mismatch makes the row ill-formed):
    `adopt`  the scalar→vector adoption branch of MeanSquaredError / R2Score,
    `task`   an update that accumulates row by row in a `for i in range(self.num_tasks)` loop,
    `der`    a state recomputed from two others (`data_range = max_target - min_target`),
    `const`  a registered state no method writes (a configuration value kept as a state),
    `cmp`    merge_state() first compacts the object's own chunk list (AUC).
  A class whose states are written only JOINTLY by one combine method (Covariance: the Chan / Welford combine)
  has the single fact `welford`; its meaning is `welfordImpl`.  The retrieval classes (two per-query lists of
  retained (score, label) pairs, pruned to the top k by update() and only concatenated by merge_state()) have
  the single fact `topk`; its meaning is `topkImpl`, and it describes the code AS IT IS.
-/
import TE.Model.ClassSM
namespace TE.Plumb
open TE

/-- the accumulation operators the translator recognises on numeric states. -/
inductive NOp where
  | add | max | min
deriving DecidableEq, Repr

/-- a concatenation dimension: a literal, or the value of a constant state of the object
    (`Cat` keeps its `dim` as a registered state and reads the SOURCE's `dim` in merge_state). -/
inductive Dim where
  | lit (d : Int)
  | st (name : String)
deriving DecidableEq, Repr

inductive FieldPlumb where
  /-- numeric state: `update` does `state = upd(state, term)`, `merge_state` does
      `state = mrg(state, source.<src>)` for every source in order; `defaultIsUnit` says that the
      registered default is the neutral element of `upd` (0 / -inf / +inf in every entry). -/
  | num (name : String) (upd mrg : NOp) (src : String) (defaultIsUnit : Bool)
  /-- list state: `update` appends one chunk; `merge_state` appends
      `torch.cat(source.<src>, dim)` for every source whose `<guard>` list is non-empty;
      `compute` reads it through `torch.cat(state, d)` for the `d` in `readDims`, through
      emptiness tests, and in `raw` other places. -/
  | lst (name src guard : String) (dim : Dim) (readDims : List Dim) (raw : Nat)
  /-- adoption: the numeric state `name` is not always accumulated with `+=`:
      update() does `if self.<updGuard>.ndim == 0 and <summand of updGuard>.ndim == 1: self.name = summand
      else: self.name += summand`, merge_state() does the same with `metric.<mrgGuard>` / `metric.<src>`
      (`""` = the method has no such branch for this state). -/
  | adopt (name updGuard mrgGuard : String)
  /-- task-mapped update: update() accumulates `name` row by row,
      `for i in range(<loop>): self.name[i] op= helper(row i of the arguments)`; `rows` is the number of
      rows (first dimension) of the registered default, as an expression over the configuration. -/
  | task (name loop rows : String)
  /-- derived state: `self.name = self.a - self.b`, recomputed by update() (`inUpd`) and by merge_state()
      (`inMrg`; `atEnd` = once after the loop over the sources, even when there is no source; otherwise inside
      the loop) from the CURRENT values of `a` and `b`. -/
  | der (name a b : String) (inUpd inMrg atEnd : Bool)
  /-- a registered state that update() and merge_state() never write. -/
  | const (name : String)
  /-- merge_state() first compacts the object's own list: `self.name = [torch.cat(self.name, dim)]` when
      every list state in `guards` is non-empty. -/
  | cmp (name : String) (guards : List String) (dim : Dim)
  /-- joint accumulator (Covariance): the states `n`, `sum`, `ss` are written only by ONE combine method, which
      update() calls exactly once with the statistics of the batch (`same`) and merge_state() calls once per
      source, in order, with the source's states in the positions of the statistics (`args`); `chan` = the body of
      the combine is literally the three-branch Chan / Welford combine (`if n == 0: return` / `elif self.n == 0:`
      adopt / else `ss += ss' + outer(δ, δ)·n·n'/(n+n')`, `sum += sum'`, `n += n'`). -/
  | welford (n sum ss : String) (same args chan : Bool)
  /-- per-query retained lists (RetrievalPrecision / RetrievalRecall): `vals[i]` / `labels[i]` hold the retained
      scores / labels of query `i`, `for i in range(<loop>)` (`rows` = length of the registered default lists).
      update() does `vals[i], idx = get_topk(cat([vals[i], scores of query i]), <k>)`,
      `labels[i] = cat([labels[i], labels of query i]).gather(idx)` for every query present in the batch
      (`updPrunes`), merge_state() does `state[i] = cat([state[i]] + [m.state[i] for m in metrics])` for both lists and
      re-selects the top k afterwards iff `mrgPrunes`. -/
  | topk (vals labels k loop rows : String) (updPrunes mrgPrunes : Bool)
deriving DecidableEq, Repr

structure ClassPlumb where
  name : String
  fields : List FieldPlumb
  /-- the reason the class is outside the translator's normal form (then `fields = []`). -/
  unsupported : Option String
  /-- the configuration condition under which the row describes the class (`""` = always): a class whose
      methods branch on a constructor flag (`if self.auto_range:`) gets one row per branch. -/
  mode : String
deriving Repr

def FieldPlumb.name' : FieldPlumb → String
  | .num n _ _ _ _ => n
  | .lst n _ _ _ _ _ => n
  | .adopt n _ _ => n
  | .task n _ _ => n
  | .der n _ _ _ _ _ => n
  | .const n => n
  | .cmp n _ _ => n
  | .welford n _ _ _ _ _ => n
  | .topk n _ _ _ _ _ _ => n

/-- `(upd, mrg, src)` of a numeric field. -/
def numOf (fs : List FieldPlumb) (f : String) : Option (NOp × NOp × String) :=
  match fs with
  | [] => none
  | .num n u m s _ :: rest => if n = f then some (u, m, s) else numOf rest f
  | _ :: rest => numOf rest f

/-- `(src, guard, dim)` of a list field. -/
def lstOf (fs : List FieldPlumb) (f : String) : Option (String × String × Dim) :=
  match fs with
  | [] => none
  | .lst n s g d _ _ :: rest => if n = f then some (s, g, d) else lstOf rest f
  | _ :: rest => lstOf rest f

/-- `(updGuard, mrgGuard)` of an adopting field. -/
def adoptOf (fs : List FieldPlumb) (f : String) : Option (String × String) :=
  match fs with
  | [] => none
  | .adopt n ug mg :: rest => if n = f then some (ug, mg) else adoptOf rest f
  | _ :: rest => adoptOf rest f

def isTask (fs : List FieldPlumb) (f : String) : Bool :=
  match fs with
  | [] => false
  | .task n _ _ :: rest => n == f || isTask rest f
  | _ :: rest => isTask rest f

/-- `(a, b, inUpd, inMrg, atEnd)` of a derived field. -/
def derOf (fs : List FieldPlumb) (f : String) : Option (String × String × Bool × Bool × Bool) :=
  match fs with
  | [] => none
  | .der n a b iu im ae :: rest => if n = f then some (a, b, iu, im, ae) else derOf rest f
  | _ :: rest => derOf rest f

/-- `(guards, dim)` of a list field compacted at the start of merge_state(). -/
def cmpOf (fs : List FieldPlumb) (f : String) : Option (List String × Dim) :=
  match fs with
  | [] => none
  | .cmp n gs d :: rest => if n = f then some (gs, d) else cmpOf rest f
  | _ :: rest => cmpOf rest f

/-- a state is derived only if it is not accumulated (an accumulated state of the same name takes precedence). -/
def effDer (fs : List FieldPlumb) (f : String) : Option (String × String × Bool × Bool × Bool) :=
  if (numOf fs f).isSome then none else derOf fs f

def isLst (fs : List FieldPlumb) (f : String) : Bool := (lstOf fs f).isSome
def isNum (fs : List FieldPlumb) (f : String) : Bool := (numOf fs f).isSome

def dimOf (fs : List FieldPlumb) (f : String) : Dim :=
  match lstOf fs f with | some (_, _, d) => d | none => .lit 0

def isConst (fs : List FieldPlumb) (f : String) : Bool :=
  fs.any fun | .const n => n == f | _ => false

def dimOk (fs : List FieldPlumb) : Dim → Bool
  | .lit _ => true
  | .st n => isConst fs n

def hasAdopt (fs : List FieldPlumb) : Bool := fs.any fun | .adopt .. => true | _ => false
def hasDer (fs : List FieldPlumb) : Bool := fs.any fun | .der .. => true | _ => false

/-- well-formedness of one fact inside its class (decidable: `decide` runs it on the
    generated table). -/
def wfField (fs : List FieldPlumb) : FieldPlumb → Bool
  | .num n u m s du => u == m && s == n && du
  | .lst n s g d rd raw => s == n && isLst fs g && rd.all (· == d) && raw == 0 && dimOk fs d
  | .adopt n ug mg =>
      -- both methods have the branch, on the same guard state; the adopting state and the guard are additive
      ug == mg && numOf fs n == some (.add, .add, n) && numOf fs ug == some (.add, .add, ug)
  | .task n loop rows => isNum fs n && loop == rows && (adoptOf fs n).isNone
  | .der n a b iu im _ => iu && im && isNum fs a && isNum fs b && (numOf fs n).isNone
  | .const n => (numOf fs n).isNone && (lstOf fs n).isNone && (derOf fs n).isNone
  | .cmp n gs d => isLst fs n && d == dimOf fs n && !gs.isEmpty && gs.all (isLst fs)
  | .welford n s q same args chan => same && args && chan && n != s && n != q && s != q && fs.length == 1
  | .topk v l _ loop rows _ _ => v != l && loop == rows && fs.length == 1

def WF (P : ClassPlumb) : Bool :=
  P.unsupported.isNone && P.fields.all (wfField P.fields)

/-- the rows whose meaning is `welfordImpl` (a joint accumulator) rather than `plumbImpl`. -/
def isWelford (P : ClassPlumb) : Bool := P.fields.any fun | .welford .. => true | _ => false

/-- the rows whose meaning is `topkImpl` (per-query retained lists). -/
def isTopk (P : ClassPlumb) : Bool := P.fields.any fun | .topk .. => true | _ => false

/-- `(updPrunes, mrgPrunes)` of a `topk` row. -/
def topkFlags : List FieldPlumb → Bool × Bool
  | [.topk _ _ _ _ _ u m] => (u, m)
  | _ => (false, false)

/-- the rows of the basic normal form: no adoption branch, no derived state (their theorems need no
    hypothesis on the history). -/
def Basic (P : ClassPlumb) : Bool := !hasAdopt P.fields && !hasDer P.fields

/-! ## semantics -/

/-- the operations of the carriers with the laws the refinement needs.  For tensors over an
    exact field: `+`, elementwise `max` / `min` with neutral elements `0`, `-inf`, `+inf`;
    `cat d` is `torch.cat(·, dim=d)`, and `cat_flat` is its associativity: replacing a run of
    chunks by their concatenation along the SAME dimension does not change the concatenation.
    `scalar` / `vec` are the tests `ndim == 0` / `ndim == 1` of the adoption branch (a sum is 0-dim
    iff both summands are: broadcasting); `sub` is the `-` of derived states; `rowAcc i o a c` is
    `a[i] = o(a[i], c[i])` on a carrier whose elements have `ntasks` rows, and `row_fold` says that
    accumulating every row is accumulating the tensor. -/
structure Ops (A C : Type) where
  op : NOp → A → A → A
  unit : NOp → A
  cat : Dim → List C → C
  assoc : ∀ o a b c, op o (op o a b) c = op o a (op o b c)
  comm : ∀ o a b, op o a b = op o b a
  unit_left : ∀ o a, op o (unit o) a = a
  cat_flat : ∀ d (xs ys zs : List C), ys ≠ [] → cat d (xs ++ [cat d ys] ++ zs) = cat d (xs ++ ys ++ zs)
  scalar : A → Bool
  vec : A → Bool
  scalar_unit : scalar (unit .add) = true
  scalar_add : ∀ a b, scalar (op .add a b) = (scalar a && scalar b)
  vec_scalar : ∀ a, vec a = true → scalar a = false
  sub : A → A → A
  ntasks : Nat
  rowAcc : Nat → NOp → A → A → A
  row_fold : ∀ o a c, (List.range ntasks).foldl (fun x i => rowAcc i o x c) a = op o a c

/-- the object's registered states. -/
structure St (A C : Type) where
  num : String → A
  lst : String → List C

/-- what one valid `update()` call contributes to every state (the outputs of the functional
    `_update` helper / the arguments themselves; they do not depend on the object's state —
    the translator checks that).  For a task-mapped state the contribution is the stack of the
    helper's outputs on the rows of the arguments. -/
structure Contrib (A C : Type) where
  num : String → A
  lst : String → C

variable {A C : Type}

def initSt (O : Ops A C) (fs : List FieldPlumb) : St A C where
  num f := match numOf fs f with | some (u, _, _) => O.unit u | none => O.unit .add
  lst _ := []

/-- the new value of the accumulated numeric state `f` after `update()` — as the code computes it. -/
def updNum (O : Ops A C) (fs : List FieldPlumb) (s : St A C) (b : Contrib A C) (f : String) : A :=
  match numOf fs f with
  | some (u, _, _) =>
    match adoptOf fs f with
    | some (ug, _) =>
      if O.scalar (s.num ug) && O.vec (b.num ug) then b.num f else O.op u (s.num f) (b.num f)
    | none =>
      if isTask fs f then (List.range O.ntasks).foldl (fun x i => O.rowAcc i u x (b.num f)) (s.num f)
      else O.op u (s.num f) (b.num f)
  | none => s.num f

def updSt (O : Ops A C) (fs : List FieldPlumb) (s : St A C) (b : Contrib A C) : St A C where
  num f := match effDer fs f with
    | some (a, b', true, _, _) => O.sub (updNum O fs s b a) (updNum O fs s b b')
    | _ => updNum O fs s b f
  lst f := match lstOf fs f with | some _ => s.lst f ++ [b.lst f] | none => s.lst f

/-- the accumulated numeric state `f` after one source has been folded in. -/
def mrgNum (O : Ops A C) (fs : List FieldPlumb) (s t : St A C) (f : String) : A :=
  match numOf fs f with
  | some (_, m, src) =>
    match adoptOf fs f with
    | some (_, mg) =>
      if O.scalar (s.num mg) && O.vec (t.num mg) then t.num src else O.op m (s.num f) (t.num src)
    | none => O.op m (s.num f) (t.num src)
  | none => s.num f

/-- one source folded into the target, as `merge_state` does inside its loop (derived states are
    recomputed by `mrgSt` below). -/
def mrg1 (O : Ops A C) (fs : List FieldPlumb) (s t : St A C) : St A C where
  num f := mrgNum O fs s t f
  lst f := match lstOf fs f with
    | some (src, g, d) => if t.lst g ≠ [] then s.lst f ++ [O.cat d (t.lst src)] else s.lst f
    | none => s.lst f

/-- the compaction of the object's own lists at the start of merge_state(). -/
def compact (O : Ops A C) (fs : List FieldPlumb) (s : St A C) : St A C where
  num := s.num
  lst f := match cmpOf fs f with
    | some (gs, d) => if gs.all (fun g => !(s.lst g).isEmpty) then [O.cat d (s.lst f)] else s.lst f
    | none => s.lst f

/-- derived states after merge_state(): recomputed from the merged values once after the loop
    (`atEnd`), or inside the loop (then only when there is a source). -/
def rederive (O : Ops A C) (fs : List FieldPlumb) (any : Bool) (s : St A C) : St A C where
  num f := match effDer fs f with
    | some (a, b, _, true, ae) => if ae || any then O.sub (s.num a) (s.num b) else s.num f
    | _ => s.num f
  lst := s.lst

def mrgSt (O : Ops A C) (fs : List FieldPlumb) (s : St A C) (ss : List (St A C)) : St A C :=
  rederive O fs (!ss.isEmpty) (ss.foldl (mrg1 O fs) (compact O fs s))

/-- what `compute()` can see of the state: numeric states as such, list states through
    `torch.cat(state, dim)` and through emptiness. -/
structure View (A C : Type) where
  num : String → A
  cat : String → C
  empty : String → Bool

def view (O : Ops A C) (fs : List FieldPlumb) (s : St A C) : View A C where
  num := s.num
  cat f := O.cat (dimOf fs f) (s.lst f)
  empty f := (s.lst f).isEmpty

/-- the class state machine of a plumbing row; `g` is the rest of `compute()` (the functional
    `_compute` helper applied to what compute reads). -/
def plumbImpl {R : Type} (O : Ops A C) (P : ClassPlumb) (g : View A C → Except Err R) :
    Impl (Contrib A C) (St A C) R where
  init := initSt O P.fields
  upd s b := .ok (updSt O P.fields s b)
  mrg s ss := .ok (mrgSt O P.fields s ss)
  out s := g (view O P.fields s)

/-! ## joint accumulators -/

/-- a combine with its neutral element (the registered defaults). -/
structure JOps (J : Type) where
  comb : J → J → J
  e : J

/-- the class state machine of a `welford` row: update() combines the state with the statistics of the batch,
    merge_state() combines it with the state of every source in order — with the SAME combine. -/
def welfordImpl {B J R : Type} (W : JOps J) (stat : B → J) (g : J → Except Err R) : Impl B J R where
  init := W.e
  upd s b := .ok (W.comb s (stat b))
  mrg s ss := .ok (ss.foldl W.comb s)
  out := g

/-! ## per-query retained lists -/

/-- the retained (score, label) pairs of one query: `cat2` concatenates, `sel` is the top-k selection of the
    configured `k`, `obs` is what compute() depends on (for `k = None`: the multiset of pairs). -/
structure TOps (C M : Type) where
  cat2 : C → C → C
  empty : C
  sel : C → C
  obs : C → M
  assoc : ∀ a b c, cat2 (cat2 a b) c = cat2 a (cat2 b c)
  empty_left : ∀ a, cat2 empty a = a
  empty_right : ∀ a, cat2 a empty = a
  obs_cat : ∀ a a' b b', obs a = obs a' → obs b = obs b' → obs (cat2 a b) = obs (cat2 a' b')

/-- the class state machine of a `topk` row; a batch gives, per query, the pairs of that query (`none` = the query
    does not occur in the batch: its entry is left alone). -/
def topkImpl {C M R : Type} (T : TOps C M) (P : ClassPlumb) (g : (Nat → C) → Except Err R) :
    Impl (Nat → Option C) (Nat → C) R where
  init := fun _ => T.empty
  upd s b := .ok fun i =>
    match b i with
    | some x => if (topkFlags P.fields).1 then T.sel (T.cat2 (s i) x) else T.cat2 (s i) x
    | none => s i
  mrg s ss := .ok fun i =>
    let c := ss.foldl (fun a t => T.cat2 a (t i)) (s i)
    if (topkFlags P.fields).2 then T.sel c else c
  out := g

end TE.Plumb
