/-
  TE.Model.WinPlumb — the RING-BUFFER PLUMBING of an update-windowed class as the translator
  `harness/translators/winplumb.py` reads it off the source of `__init__` / `update` / `compute` /
  `reset` / `merge_state` (torcheval/metrics/window/*.py), and its meaning as a class state machine.

  A `WinRow` is DATA: per windowed buffer the column expression it is written at and the component of
  the functional helper's result tuple it receives; per lifetime state the component, the operator and
  the guard; the new cursor / new total as index expressions (`Ix`) over cursor / total / cap; which
  columns `compute()` sums under which condition; what `reset()` does; the slices, running index and
  totals of `merge_state`.  `toImpl` INTERPRETS that data (it evaluates the index expressions, it does
  not assume they are the expected ones) over an abstract carrier `γ` of per-component statistics
  (one entry = one column of a buffer = the per-task vector of one update) with an accumulator
  `M : Acc γ`.  `WF` (decidable) says that the data is the ring buffer: TE/Lemmas/WinPlumb.lean proves
  that the state machine of every well-formed row IS `TE.Window.Ring` (push / windowed / lifetime /
  merge), TE/Props/C13_Plumb.lean states the C13 corollaries and `decide`s `WF` of every generated row
  (TE/Gen/WinPlumbing.lean).  The sample-windowed WindowedBinaryAUROC has its own row type (`SRow`, last
  section): the `if` cascade of its batch write as data, interpreted by `sPush`.  Core Lean only.
-/
import TE.Model.Window
namespace TE.WinPlumb
open TE TE.Window

/-! ## the row -/

/-- index expressions of the ring-buffer code.  `cur` / `tot` / `cap` = the object's `next_inserted`,
    `total_updates`, `max_num_updates` where the expression is evaluated (method entry for `update` /
    `compute`; inside the `merge_state` loop `tot` is the running total).  `idx` / `mmax` / `stot` /
    `scap` occur in `merge_state` only (`batch` in the sample-windowed `update` only): the running copy index, the size of the new buffers, the current
    source's `total_updates` / `max_num_updates`. -/
inductive Ix where
  | cur | tot | cap
  | lit (n : Nat)
  | add (a b : Ix) | sub (a b : Ix) | mod (a b : Ix) | min (a b : Ix)
  | idx | mmax | stot | scap
  /-- sample-windowed classes only: the number of samples (columns) of the batch `update()` received -/
  | batch
deriving DecidableEq, Repr

structure IxEnv where
  cur : Nat := 0
  tot : Nat := 0
  cap : Nat := 0
  idx : Nat := 0
  mmax : Nat := 0
  stot : Nat := 0
  scap : Nat := 0
  n : Nat := 0

/-- value of an index expression (`sub` truncates, `x % 0 = x`: well-formed rows have no `sub` and only
    reduce modulo `cap ≥ 1`). -/
def Ix.eval (e : IxEnv) : Ix → Nat
  | .cur => e.cur | .tot => e.tot | .cap => e.cap
  | .lit n => n
  | .add a b => a.eval e + b.eval e
  | .sub a b => a.eval e - b.eval e
  | .mod a b => a.eval e % b.eval e
  | .min a b => Nat.min (a.eval e) (b.eval e)
  | .idx => e.idx | .mmax => e.mmax | .stot => e.stot | .scap => e.scap
  | .batch => e.n

/-- conditions of `compute()`. -/
inductive Cnd where
  | tt
  | le (a b : Ix) | lt (a b : Ix) | eq (a b : Ix)
deriving DecidableEq, Repr

def Cnd.eval (e : IxEnv) : Cnd → Bool
  | .tt => true
  | .le a b => decide (a.eval e ≤ b.eval e)
  | .lt a b => decide (a.eval e < b.eval e)
  | .eq a b => decide (a.eval e = b.eval e)

/-- under which paths of the method an effect happens: on all of them, exactly on those where
    `self.enable_lifetime` is true / false, on none. -/
inductive Guard where
  | always | lifetime | notLifetime | never
deriving DecidableEq, Repr

def Guard.holds (lifetime : Bool) : Guard → Bool
  | .always => true | .lifetime => lifetime | .notLifetime => !lifetime | .never => false

/-- how a lifetime state takes a component: `state += x`, or WindowedMeanSquaredError's
    `if state.ndim == 0 and x.ndim == 1: state = x else: state += x`. -/
inductive LifeOp where
  | add | adopt
deriving DecidableEq, Repr

/-- one windowed buffer state. -/
structure BufW where
  name : String
  /-- registered by `__init__` under this guard as `zeros(num_tasks, cols)` (`rowsTasks`: the first dimension
      is `num_tasks`) -/
  regGuard : Guard
  rowsTasks : Bool
  cols : Ix
  /-- `update`: under `guard`, `buf[:, col] = helper(...)[comp]`, exactly once -/
  guard : Guard
  col : Ix
  comp : Nat
  /-- `merge_state` reads this buffer of every source -/
  msrc : String
deriving DecidableEq, Repr

/-- one lifetime state. -/
structure LifeW where
  name : String
  regGuard : Guard
  zeroInit : Bool
  /-- `update`: under `guard`, `state op= helper(...)[comp]` -/
  guard : Guard
  op : LifeOp
  comp : Nat
  /-- `merge_state`: `state mop= source.<msrc>` -/
  mop : LifeOp
  msrc : String
deriving DecidableEq, Repr

structure UpdW where
  helper : String
  ncomp : Nat
  /-- on every path every call that can raise (the helper, input checks, `raise`) precedes every write -/
  checksFirst : Bool
  curGuard : Guard
  curNew : Ix
  totGuard : Guard
  totNew : Ix
deriving DecidableEq, Repr

structure CompW where
  /-- `compute()` returns empty tensors when this holds -/
  emptyWhen : Cnd
  /-- the whole buffer is summed (`buf.sum(dim=-1)`) when this holds, else `buf[:, :partHi].sum(dim=-1)`
      (`none`: there is no such branch — `fullWhen = tt`) -/
  fullWhen : Cnd
  partHi : Option Ix
  /-- the lifetime value is the windowed value's formula with every windowed sum replaced by the lifetime
      state of the same component (and the formula is the same on the full / partial path) -/
  sameFormula : Bool
  /-- the components the formula consumes, in argument order (windowed / lifetime) -/
  winArgs : List Nat
  lifeArgs : List Nat
  /-- the lifetime value is part of the result under this guard -/
  lifeShown : Guard
deriving DecidableEq, Repr

structure ResetW where
  /-- `super().reset()` is called (registered states return to their defaults); without an override this
      is all that happens -/
  callsSuper : Bool
  cursorTo : Option Ix
deriving DecidableEq, Repr

structure MergeW where
  /-- `size = sizeInit; for m in metrics: size = sizeStep` (`mmax` = running value) -/
  sizeInit : Ix
  sizeStep : Ix
  /-- every windowed buffer is replaced by `zeros(num_tasks, allocCols)` (`mmax` = the size after that loop) -/
  allocCols : Ix
  /-- `new[:, :ownHi] = old[:, :ownTake]` -/
  ownHi : Ix
  ownTake : Ix
  idxInit : Ix
  /-- per source: `new[:, srcLo:srcHi] = m.buf[:, :srcTake]`, `idx = idxStep`, `total = totStep` -/
  srcLo : Ix
  srcHi : Ix
  srcTake : Ix
  idxStep : Ix
  totStep : Ix
  lifeGuard : Guard
  /-- after the loop: `next_inserted = curFinal`, `max_num_updates = capFinal` -/
  curFinal : Ix
  capFinal : Ix
deriving DecidableEq, Repr

structure WinRow where
  name : String
  capName : String
  totName : String
  curName : String
  /-- `max_num_updates` is registered with the constructor argument as default, `total_updates` with `tot0`,
      the cursor attribute is set to `cur0` -/
  capIsParam : Bool
  tot0 : Ix
  cur0 : Ix
  bufs : List BufW
  lifes : List LifeW
  upd : UpdW
  cmp : CompW
  rst : ResetW
  mrg : MergeW
deriving DecidableEq, Repr


/-! ## well-formedness: the data is the ring buffer -/

def ixStep : Ix := .mod (.add .cur (.lit 1)) .cap
def ixLead : Ix := .min .tot .cap
def ixSrcLead : Ix := .min .stot .scap

def BufW.wf (b : BufW) : Bool :=
  b.regGuard == .always && b.rowsTasks && b.cols == .cap && b.guard == .always && b.col == .cur && b.msrc == b.name

def LifeW.wf (l : LifeW) : Bool :=
  l.regGuard == .lifetime && l.zeroInit && l.guard == .lifetime && l.mop == l.op && l.msrc == l.name

def UpdW.wf (u : UpdW) : Bool :=
  u.checksFirst && u.curGuard == .always && u.curNew == ixStep && u.totGuard == .always && u.totNew == .add .tot (.lit 1)

/-- `whole`: the class always sums the whole buffer (WindowedMeanSquaredError). -/
def CompW.whole (c : CompW) : Bool := c.fullWhen == .tt

def CompW.wf (c : CompW) (ncomp : Nat) : Bool :=
  c.emptyWhen == .eq .tot (.lit 0) &&
    ((c.fullWhen == .tt && c.partHi == none) || (c.fullWhen == .le .cap .tot && c.partHi == some .cur)) &&
    c.sameFormula && c.winArgs == c.lifeArgs && c.winArgs.all (· < ncomp) && c.lifeShown == .lifetime

def ResetW.wf (r : ResetW) : Bool := r.callsSuper && r.cursorTo == some (.lit 0)

/-- the merge as coded on the pinned tree: `max_num_updates` is NOT enlarged (`capFinal = cap`) — the
    recorded C13 findings (a second merge drops a window, an update after a merge overwrites a live slot)
    follow from exactly this; the row describes the code as it is. -/
def MergeW.wf (m : MergeW) : Bool :=
  m.sizeInit == .cap && m.sizeStep == .add .mmax .scap && m.allocCols == .mmax &&
    m.ownHi == ixLead && m.ownTake == ixLead && m.idxInit == ixLead &&
    m.srcLo == .idx && m.srcHi == .add .idx ixSrcLead && m.srcTake == ixSrcLead &&
    m.idxStep == .add .idx ixSrcLead && m.totStep == .add .tot .stot && m.lifeGuard == .lifetime &&
    m.curFinal == .mod .idx .cap && m.capFinal == .cap

def nodup : List String → Bool
  | [] => true
  | x :: xs => !xs.contains x && nodup xs

def WinRow.WF (r : WinRow) : Bool :=
  r.capIsParam && r.tot0 == .lit 0 && r.cur0 == .lit 0 &&
    r.bufs.all BufW.wf && r.lifes.all LifeW.wf &&
    r.bufs.map (·.comp) == List.range r.upd.ncomp && r.lifes.map (·.comp) == List.range r.upd.ncomp &&
    nodup (r.bufs.map (·.name)) && nodup (r.lifes.map (·.name)) && 1 ≤ r.upd.ncomp &&
    r.upd.wf && r.cmp.wf r.upd.ncomp && r.rst.wf && r.mrg.wf

/-! ## semantics -/

/-- the object: the three counters, the windowed buffers (one list of columns per state name) and the
    lifetime states. -/
structure RowState (γ : Type) where
  cap : Nat
  next : Nat
  total : Nat
  buf : String → List γ
  life : String → γ

/-- constructor arguments: window size `max_num_updates`, `enable_lifetime`. -/
structure Cfg where
  N : Nat
  lifetime : Bool

variable {γ B V : Type}

def findBuf (r : WinRow) (name : String) : Option BufW := r.bufs.find? (·.name == name)
def findLife (r : WinRow) (name : String) : Option LifeW := r.lifes.find? (·.name == name)

def RowState.env (s : RowState γ) : IxEnv := { cur := s.next, tot := s.total, cap := s.cap }

/-- `sc x` = "x is a 0-dim tensor" (only WindowedMeanSquaredError's adoption branch looks at it). -/
def lifeApply (M : Acc γ) (sc : γ → Bool) : LifeOp → γ → γ → γ
  | .add, a, x => M.add a x
  | .adopt, a, x => if sc a && !sc x then x else M.add a x

/-- `__init__`. -/
def rowInit (r : WinRow) (cfg : Cfg) (M : Acc γ) : RowState γ where
  cap := cfg.N
  next := r.cur0.eval { cap := cfg.N }
  total := r.tot0.eval { cap := cfg.N }
  buf name := match findBuf r name with
    | some b => if b.regGuard.holds cfg.lifetime then List.replicate (b.cols.eval { cap := cfg.N }) M.zero else []
    | none => []
  life _ := M.zero

/-- a state the method touches must have been registered (else `AttributeError`). -/
def attrOk (r : WinRow) (cfg : Cfg) : Bool :=
  r.bufs.all (fun b => !b.guard.holds cfg.lifetime || b.regGuard.holds cfg.lifetime) &&
  r.lifes.all (fun l => !l.guard.holds cfg.lifetime || l.regGuard.holds cfg.lifetime)

/-- the writes of one accepted `update()`; `x c` = component `c` of the helper's result. -/
def rowPush (r : WinRow) (cfg : Cfg) (M : Acc γ) (sc : γ → Bool) (s : RowState γ) (x : Nat → γ) : RowState γ where
  cap := s.cap
  next := if r.upd.curGuard.holds cfg.lifetime then r.upd.curNew.eval s.env else s.next
  total := if r.upd.totGuard.holds cfg.lifetime then r.upd.totNew.eval s.env else s.total
  buf name := match findBuf r name with
    | some b => if b.guard.holds cfg.lifetime then (s.buf name).set (b.col.eval s.env) (x b.comp) else s.buf name
    | none => s.buf name
  life name := match findLife r name with
    | some l => if l.guard.holds cfg.lifetime then lifeApply M sc l.op (s.life name) (x l.comp) else s.life name
    | none => s.life name

/-- what a REJECTED `update()` leaves behind: nothing when every raising call precedes every write;
    otherwise the writes may have happened (with whatever values `junk`). -/
def rowReject (r : WinRow) (cfg : Cfg) (M : Acc γ) (sc : γ → Bool) (s : RowState γ) (junk : Nat → γ) : RowState γ :=
  if r.upd.checksFirst then s else rowPush r cfg M sc s junk

/-- the sum `compute()` forms over one buffer. -/
def rowWindowed (r : WinRow) (M : Acc γ) (s : RowState γ) (name : String) : γ :=
  if r.cmp.fullWhen.eval s.env then sumA M (s.buf name)
  else match r.cmp.partHi with
    | some h => sumA M ((s.buf name).take (h.eval s.env))
    | none => sumA M (s.buf name)

/-- `compute()`: `value` is the class's value formula over the per-component sums (in the order of
    `bufs` / `lifes`), `valueL` whatever else the lifetime branch computes when it is NOT the same formula. -/
def rowOut (r : WinRow) (cfg : Cfg) (M : Acc γ) (value valueL : List γ → Except Err V) (s : RowState γ) :
    Except Err (Option (Option V × V)) :=
  if r.cmp.emptyWhen.eval s.env then .ok none
  else do
    let w ← value (r.bufs.map fun b => rowWindowed r M s b.name)
    if r.cmp.lifeShown.holds cfg.lifetime then
      let l ← (if r.cmp.sameFormula then value else valueL) (r.lifes.map fun l => s.life l.name)
      .ok (some (some l, w))
    else .ok (some (none, w))

/-- `reset()`: `Metric.reset()` puts every REGISTERED state back to its default (the buffers with the
    constructor's size, `max_num_updates`, `total_updates`); the cursor is a plain attribute and changes only if
    the override assigns it. -/
def rowReset (r : WinRow) (cfg : Cfg) (M : Acc γ) (s : RowState γ) : RowState γ :=
  let i := rowInit r cfg M
  { cap := if r.rst.callsSuper then i.cap else s.cap
    total := if r.rst.callsSuper then i.total else s.total
    buf := if r.rst.callsSuper then i.buf else s.buf
    life := if r.rst.callsSuper then i.life else s.life
    next := match r.rst.cursorTo with | some e => e.eval s.env | none => s.next }

/-- size of the buffers `merge_state` allocates. -/
def mergeMax (r : WinRow) (s : RowState γ) (ss : List (RowState γ)) : Nat :=
  ss.foldl (fun a t => r.mrg.sizeStep.eval { s.env with mmax := a, stot := t.total, scap := t.cap })
    (r.mrg.sizeInit.eval s.env)

/-- loop state of `merge_state`. -/
structure MLoop (γ : Type) where
  idx : Nat
  tot : Nat
  buf : String → List γ
  life : String → γ

def mergeStep (r : WinRow) (cfg : Cfg) (M : Acc γ) (sc : γ → Bool) (e0 : IxEnv) (a : MLoop γ) (t : RowState γ) :
    MLoop γ :=
  let e : IxEnv := { e0 with idx := a.idx, tot := a.tot, stot := t.total, scap := t.cap }
  { idx := r.mrg.idxStep.eval e
    tot := r.mrg.totStep.eval e
    buf := fun name => match findBuf r name with
      | some b => place (a.buf name) (r.mrg.srcLo.eval e) ((t.buf b.msrc).take (r.mrg.srcTake.eval e))
      | none => a.buf name
    life := fun name => match findLife r name with
      | some l => if r.mrg.lifeGuard.holds cfg.lifetime then lifeApply M sc l.mop (a.life name) (t.life l.msrc)
                  else a.life name
      | none => a.life name }

/-- the index environment of `merge_state` outside its copy loop. -/
def mergeEnv (r : WinRow) (s : RowState γ) (ss : List (RowState γ)) : IxEnv :=
  { s.env with mmax := mergeMax r s ss }

/-- before the copy loop: new zero buffers holding the target's leading columns. -/
def mergeInit (r : WinRow) (M : Acc γ) (s : RowState γ) (ss : List (RowState γ)) : MLoop γ where
  idx := r.mrg.idxInit.eval (mergeEnv r s ss)
  tot := s.total
  buf name := match findBuf r name with
    | some _ => place (List.replicate (r.mrg.allocCols.eval (mergeEnv r s ss)) M.zero) 0
                  ((s.buf name).take (r.mrg.ownTake.eval (mergeEnv r s ss)))
    | none => s.buf name
  life := s.life

def mergeLoop (r : WinRow) (cfg : Cfg) (M : Acc γ) (sc : γ → Bool) (s : RowState γ) (ss : List (RowState γ)) :
    MLoop γ :=
  ss.foldl (mergeStep r cfg M sc (mergeEnv r s ss)) (mergeInit r M s ss)

/-- `merge_state(metrics)`: new zero buffers, the target's leading columns, then every source's leading
    columns at the running index (slice assignment `dst[:, i:i+k] = src` = `place`). -/
def rowMerge (r : WinRow) (cfg : Cfg) (M : Acc γ) (sc : γ → Bool) (s : RowState γ) (ss : List (RowState γ)) :
    RowState γ :=
  let st := mergeLoop r cfg M sc s ss
  let e1 : IxEnv := { mergeEnv r s ss with idx := st.idx, tot := st.tot }
  { cap := r.mrg.capFinal.eval e1
    next := r.mrg.curFinal.eval e1
    total := st.tot
    buf := st.buf
    life := st.life }

/-- **the class state machine of a row** over abstract per-update statistics: `stat` is the functional
    `_update` helper with its input checks (it raises before anything is written — `rowReject`). -/
def toImpl (r : WinRow) (cfg : Cfg) (M : Acc γ) (sc : γ → Bool) (stat : B → Except Err (Nat → γ))
    (value valueL : List γ → Except Err V) : Impl B (RowState γ) (Option (Option V × V)) where
  init := rowInit r cfg M
  upd s b := do
    let x ← stat b
    if attrOk r cfg then .ok (rowPush r cfg M sc s x) else .error .runtime
  mrg s ss := .ok (rowMerge r cfg M sc s ss)
  out s := rowOut r cfg M value valueL s

/-- a single instance fed the per-update statistics `xs`. -/
def rowRun (r : WinRow) (cfg : Cfg) (M : Acc γ) (sc : γ → Bool) (xs : List (Nat → γ)) : RowState γ :=
  xs.foldl (rowPush r cfg M sc) (rowInit r cfg M)

/-- the ring buffer one (buffer, lifetime state) pair of the object forms. -/
def RowState.ring (s : RowState γ) (bufName lifeName : String) : Ring γ :=
  ⟨s.cap, s.buf bufName, s.next, s.total, s.life lifeName⟩

/-! ## sample-windowed classes (WindowedBinaryAUROC): the buffers hold SAMPLES, one column each

`update(input, target, weight)` writes a whole batch of `n` columns: every sample buffer receives the same slices
of its own argument block (`inputs` of `input`, `targets` of `target`, `weights` of `weight`), chosen by a cascade
of tests on `n`, the cursor and the window size. -/

/-- columns of the argument block: all, `x[:, :k]`, `x[:, -k:]`. -/
inductive SSlice where
  | all | first (k : Ix) | last (k : Ix)
deriving DecidableEq, Repr

/-- destination: `buf.copy_(src)` (the whole buffer) or `buf[:, lo:hi] = src`. -/
inductive SDst where
  | whole | range (lo hi : Ix)
deriving DecidableEq, Repr

structure SWrite where
  dst : SDst
  src : SSlice
deriving DecidableEq, Repr

/-- one leaf of the `if` cascade of `update`: the tests that lead to it (with their polarity), the writes every
    sample buffer receives (in order), the new cursor and counter. -/
structure SBranch where
  conds : List (Cnd × Bool)
  writes : List SWrite
  curNew : Ix
  totNew : Ix
deriving DecidableEq, Repr

/-- `compute()`: `if torch.all(self.<zeroBuf>[:, zeroFrom:] == 0)` every buffer is read as `[:, :partHi]`, else
    whole; `squeezed`: every read goes through `.squeeze()`; the reads feed `helper` in the order `argBufs`. -/
structure SCompW where
  zeroBuf : String
  zeroFrom : Ix
  partHi : Ix
  squeezed : Bool
  helper : String
  argBufs : List String
deriving DecidableEq, Repr

structure SRow where
  name : String
  capName : String
  totName : String
  curName : String
  capIsParam : Bool
  tot0 : Ix
  cur0 : Ix
  /-- sample buffers (registered as `zeros(num_tasks, cap)`: `rowsTasks`, `cols`) with the argument of `update`
      each is fed from and the buffer of a source `merge_state` reads for it -/
  bufs : List (String × String × String)
  bufShapesOk : Bool
  checksFirst : Bool
  branches : List SBranch
  cmp : SCompW
  rst : ResetW
  mrg : MergeW
deriving DecidableEq, Repr

/-- the cascade as coded: batch ≥ window keeps the last `cap` samples and puts the cursor at 0; a batch that fits
    behind the cursor is placed there; otherwise it wraps around. -/
def sBranchesExpected : List SBranch :=
  [ { conds := [(.le .cap .batch, true)], writes := [⟨.whole, .last .cap⟩],
      curNew := .mod (.lit 0) .cap, totNew := .add .tot .batch },
    { conds := [(.le .cap .batch, false), (.le .batch (.sub .cap .cur), true)], writes := [⟨.range .cur (.add .cur .batch), .all⟩],
      curNew := .mod (.add .cur .batch) .cap, totNew := .add .tot .batch },
    { conds := [(.le .cap .batch, false), (.le .batch (.sub .cap .cur), false)],
      writes := [⟨.range .cur (.add .cur (.sub .cap .cur)), .first (.sub .cap .cur)⟩,
                 ⟨.range (.lit 0) (.sub .batch (.sub .cap .cur)), .last (.sub .batch (.sub .cap .cur))⟩],
      curNew := .mod (.sub .batch (.sub .cap .cur)) .cap, totNew := .add .tot .batch } ]

/-- merge as coded for the sample-windowed class: the same copy loop, but the window IS enlarged
    (`max_num_samples = Σ`) and the cursor is reduced modulo the new size. -/
def MergeW.swf (m : MergeW) : Bool :=
  m.sizeInit == .cap && m.sizeStep == .add .mmax .scap && m.allocCols == .mmax &&
    m.ownHi == ixLead && m.ownTake == ixLead && m.idxInit == ixLead &&
    m.srcLo == .idx && m.srcHi == .add .idx ixSrcLead && m.srcTake == ixSrcLead &&
    m.idxStep == .add .idx ixSrcLead && m.totStep == .add .tot .stot && m.lifeGuard == .never &&
    m.curFinal == .mod .idx .mmax && m.capFinal == .mmax

def SRow.WF (r : SRow) : Bool :=
  r.capIsParam && r.tot0 == .lit 0 && r.cur0 == .lit 0 && r.bufShapesOk && r.checksFirst &&
    r.bufs.map (·.2.1) == ["input", "target", "weight"] && r.bufs.all (fun b => b.2.2 == b.1) &&
    nodup (r.bufs.map (·.1)) &&
    r.branches == sBranchesExpected &&
    r.cmp.zeroBuf == (r.bufs.map (·.1)).headD "" && r.cmp.zeroFrom == .cur && r.cmp.partHi == .cur && r.cmp.squeezed &&
    r.cmp.argBufs == r.bufs.map (·.1) &&
    r.rst.wf && r.mrg.swf

/-- the object: counters and one list of columns per sample buffer. -/
structure SState (γ : Type) where
  cap : Nat
  next : Nat
  total : Nat
  buf : String → List γ

def SSlice.apply (e : IxEnv) (b : List γ) : SSlice → List γ
  | .all => b
  | .first k => b.take (k.eval e)
  | .last k => if k.eval e = 0 then b else b.drop (b.length - k.eval e)     -- `x[:, -0:]` is everything

def SWrite.apply (e : IxEnv) (buf b : List γ) (w : SWrite) : List γ :=
  match w.dst with
  | .whole => w.src.apply e b
  | .range lo _ => place buf (lo.eval e) (w.src.apply e b)

def SBranch.taken (e : IxEnv) (br : SBranch) : Bool := br.conds.all fun c => c.1.eval e == c.2

/-- one accepted `update()` with a batch of `n` columns; `x arg` = the columns of argument `arg`. -/
def sPush (r : SRow) (s : SState γ) (n : Nat) (x : String → List γ) : SState γ :=
  let e : IxEnv := { cur := s.next, tot := s.total, cap := s.cap, n := n }
  match r.branches.find? (·.taken e) with
  | none => s
  | some br =>
    { cap := s.cap
      next := br.curNew.eval e
      total := br.totNew.eval e
      buf := fun name => match r.bufs.find? (·.1 == name) with
        | some b => br.writes.foldl (fun buf w => w.apply e buf (x b.2.1)) (s.buf name)
        | none => s.buf name }

/-- `__init__` of a sample-windowed class (`z` = a zero column). -/
def sInit (r : SRow) (N : Nat) (z : γ) : SState γ where
  cap := N
  next := r.cur0.eval { cap := N }
  total := r.tot0.eval { cap := N }
  buf name := match r.bufs.find? (·.1 == name) with
    | some _ => List.replicate N z
    | none => []

/-- `reset()`: registered states back to their defaults when `super().reset()` is called, the cursor as the
    override says. -/
def sReset (r : SRow) (N : Nat) (z : γ) (s : SState γ) : SState γ :=
  let i := sInit r N z
  { cap := if r.rst.callsSuper then i.cap else s.cap
    total := if r.rst.callsSuper then i.total else s.total
    buf := if r.rst.callsSuper then i.buf else s.buf
    next := match r.rst.cursorTo with
      | some e => e.eval { cur := s.next, tot := s.total, cap := s.cap }
      | none => s.next }

/-- the three-branch sample window of TE.Model.Window (`SBuf.update`), on any column type. -/
def sUpdate (cap next : Nat) (buf b : List γ) : List γ × Nat :=
  let n := b.length
  if cap ≤ n then (b.drop (n - cap), 0)
  else
    let rest := cap - next
    if n ≤ rest then (place buf next b, (next + n) % cap)
    else (place (place buf next (b.take rest)) 0 (b.drop rest), (n - rest) % cap)

/-- the columns `compute()` hands to the functional: the prefix below the cursor when every score from the
    cursor on is zero (`isZero`), else the whole buffer. -/
def sWindow (r : SRow) (isZero : γ → Bool) (s : SState γ) (name : String) : List γ :=
  let e : IxEnv := { cur := s.next, tot := s.total, cap := s.cap }
  if ((s.buf r.cmp.zeroBuf).drop (r.cmp.zeroFrom.eval e)).all isZero then (s.buf name).take (r.cmp.partHi.eval e)
  else s.buf name

/-- a class of TE/Gen/WinPlumbing.lean: its row in the update-windowed grammar, or in the sample-windowed one,
    or the reason it is outside both (then whatever could still be read of `reset()` / `merge_state()` is kept). -/
structure WinClass where
  name : String
  row : Option WinRow
  srow : Option SRow
  untranslated : Option String
  rst : Option ResetW
  mrg : Option MergeW
deriving Repr

end TE.WinPlumb
