/-
  TE.Model.FamsCache — TYPED CLASS OBJECTS of the cache-all and of the non-additive
  metric classes (C01 / C03 / C12).

  TE/Model/Fams.lean holds the typed sufficient-statistic families.  This file holds the
  classes whose state is *not* a vector of additive counts:

    * cache-all classes (`CFam` / `LFam`): the state is the list of cached samples.
      `compute()` of BinaryAUROC, MulticlassAUROC, Binary/Multiclass/Multilabel AUPRC,
      Binary/Multiclass/Multilabel PrecisionRecallCurve, Binary/Multilabel
      RecallAtFixedPrecision and AUC distinguishes "`update` was never called" from "no
      sample was seen" (a different exception resp. an empty tensor), so their accumulator
      carries one Boolean besides the samples (`flagAcc`).  Binary/Multiclass BinnedAUROC
      do not (`torch.cat` of an empty cache raises the same error either way): plain `listAcc`.
    * Wasserstein1D: two sample caches (one per distribution), `pairAcc`.
    * PeakSignalNoiseRatio: additive sums + the running min / max of the targets
      (`Agg.psnrImpl` behind the sample-count check of `_psnr_input_check`).
    * Max / Min (`Agg.extImpl`), Covariance (`Agg.covImpl`, Chan combine) and Throughput
      (`Agg.thrImpl`, step ≠ join) are already typed in TE/Model/Agg.lean.

  Every object is an `Impl B S O` whose `upd / mrg / out` are the computation the driver
  pack performs after parsing; the adapters of TE/Driver/{Curve,Agg,Binned}.lean call
  exactly these objects, so the compiled driver (compared with the real code on every
  check) executes what the theorems of TE/Lemmas/FamCache*.lean are about.

  A *sample* of a `(num_tasks, n)` batch is one column: the values of all tasks at one
  sample index (`TaskSample` / `TaskPair`); of a multiclass / multilabel batch it is one
  row with its label / target row.  Concatenation along the sample dimension is `++`.
-/
import TE.Model.Fams
import TE.Model.Curve
namespace TE.Fams
open TE

/-! ## the cache-all class with a "was updated" flag -/

/-- accumulator: has `update()` been called, and the cached samples in update / merge order. -/
def flagAcc (α : Type) : Acc (Bool × List α) := ⟨(false, []), fun a b => (a.1 || b.1, a.2 ++ b.2)⟩

/-- a typed cache-all family: `stat` = validation + the samples of a batch, `out` = `compute()`
    on the cached samples, `never` = `compute()` before any `update()`.  The functional is
    `stat >=> out`. -/
structure CFam (B α O : Type) where
  stat : B → Except Err (List α)
  out : List α → Except Err O
  never : Except Err O

namespace CFam
variable {B α O : Type}

def flagged (f : CFam B α O) (b : B) : Except Err (Bool × List α) := (f.stat b).map fun l => (true, l)

def outS (f : CFam B α O) (s : Bool × List α) : Except Err O := if s.1 then f.out s.2 else f.never

/-- the class: `update` appends the batch's samples, `merge_state` appends the sources' caches. -/
def cls (f : CFam B α O) : Impl B (Bool × List α) O := additive (flagAcc α) f.flagged f.outS

/-- the functional on one batch. -/
def fn (f : CFam B α O) (b : B) : Except Err O := f.stat b >>= f.out

end CFam

/-! ## samples of multi-task batches -/

/-- one sample index of a `(num_tasks, n)` batch: scores, targets and weights of all tasks. -/
abbrev TaskSample := List Q × List Q × List Q

/-- one sample index of a `(num_tasks, n)` pair of tensors. -/
abbrev TaskPair := List Q × List Q

/-- row `k` of the cached `(num_tasks, N)` tensors. -/
def taskRow (k : Nat) (l : List TaskSample) : List Q × List Q × List Q :=
  (l.map (·.1.getD k 0), l.map (·.2.1.getD k 0), l.map (·.2.2.getD k 0))

def taskRows (nt : Nat) (l : List TaskSample) : List (List Q × List Q × List Q) :=
  (List.range nt).map fun k => taskRow k l

def taskPairRow (k : Nat) (l : List TaskPair) : List Q × List Q :=
  (l.map (·.1.getD k 0), l.map (·.2.getD k 0))

def taskPairRows (nt : Nat) (l : List TaskPair) : List (List Q × List Q) :=
  (List.range nt).map fun k => taskPairRow k l

/-- the samples (columns) of `(num_tasks, n)` tensors given as rows. -/
def taskSamplesOf (n : Nat) (x t w : Mat) : List TaskSample :=
  (List.range n).map fun j => (x.map (·.getD j 0), t.map (·.getD j 0), w.map (·.getD j 0))

def taskPairsOf (n : Nat) (x t : Mat) : List TaskPair :=
  (List.range n).map fun j => (x.map (·.getD j 0), t.map (·.getD j 0))

/-- column `j` of every row (`input.T` of an `(n, c)` tensor). -/
def colsOf (rows : Mat) (c : Nat) : Mat := (List.range c).map fun j => rows.map (·.getD j 0)

/-! ## AUROC / AUPRC / precision-recall curves / recall at fixed precision (TE/Model/Curve.lean) -/

section curve
open TE.Curve

/-- `BinaryAUROC(num_tasks = nt)` : one AUROC per task row; `compute()` before `update()` fails its
    assertion. -/
def binaryAurocC (nt : Nat) : CFam (List TaskSample) TaskSample (List Q) where
  stat := catSamples
  out l := binaryAurocTasks (taskRows nt l)
  never := .error .assertion

/-- `MulticlassAUROC(num_classes = nc, average)` : samples are `(logit row, label)`. -/
def multiclassAurocC (nc : Nat) (avg : Avg) : CFam (Mat × List Q) (List Q × Q) (List XQ) where
  stat := rowSamples
  out l := multiclassAuroc (colsOf (l.map (·.1)) nc) (l.map (·.2)) avg
  never := .error .assertion

/-- `BinaryAUPRC(num_tasks = nt)`; `torch.cat([])` raises before any update. -/
def binaryAuprcC (nt : Nat) : CFam (List TaskPair) TaskPair (List XQ) where
  stat := catSamples
  out l := binaryAuprcTasks (taskPairRows nt l)
  never := .error .runtime

/-- `MulticlassAUPRC(num_classes = nc, average)` -/
def multiclassAuprcC (nc : Nat) (avg : Avg) : CFam (Mat × List Q) (List Q × Q) (List XQ) where
  stat := rowSamples
  out l := multiclassAuprc (colsOf (l.map (·.1)) nc) (l.map (·.2)) avg
  never := .error .runtime

/-- the label columns `(scores, targets)` of cached `(score row, target row)` samples. -/
def labelCols (nl : Nat) (l : List (List Q × List Q)) : List (List Q × List Q) :=
  (colsOf (l.map (·.1)) nl).zip (colsOf (l.map (·.2)) nl)

/-- `MultilabelAUPRC(num_labels = nl, average)` : samples are `(score row, target row)`. -/
def multilabelAuprcC (nl : Nat) (avg : Avg) : CFam (Mat × Mat) (List Q × List Q) (List XQ) where
  stat := rowSamples
  out l := multilabelAuprc (labelCols nl l) avg
  never := .error .runtime

/-- `BinaryPrecisionRecallCurve` : samples are `(score, target)`. -/
def binaryPrCurveC : CFam (List Q × List Q) (Q × Q) PRC where
  stat := pairSamples
  out l := binaryPrCurve (l.map (·.1)) (l.map (·.2))
  never := .error .runtime

/-- the class count of `MulticlassPrecisionRecallCurve(num_classes=None)`: the width of the cached rows. -/
def widthOr (nc0 : Option Nat) (l : List (List Q × Q)) : Nat :=
  nc0.getD ((l.head?.map (·.1.length)).getD 0)

/-- all cached logit rows have the width of the first one. -/
def uniformB (l : List (List Q × Q)) : Bool :=
  match l with
  | [] => true
  | r :: t => t.all fun r' => r'.1.length == r.1.length

/-- `MulticlassPrecisionRecallCurve(num_classes = nc0)`.  With `num_classes=None` nothing constrains the
    width of the logit rows at `update`; `torch.cat` of cached inputs of different widths raises at
    `compute()`. -/
def multiclassPrCurveC (nc0 : Option Nat) : CFam (Mat × List Q) (List Q × Q) (List PRC) where
  stat := rowSamples
  out l :=
    if nc0.isNone && !uniformB l then .error .runtime
    else multiclassPrCurve (colsOf (l.map (·.1)) (widthOr nc0 l)) (l.map (·.2))
  never := .error .runtime

/-- `MultilabelPrecisionRecallCurve(num_labels = nl)` -/
def multilabelPrCurveC (nl : Nat) : CFam (Mat × Mat) (List Q × List Q) (List PRC) where
  stat := rowSamples
  out l := multilabelPrCurve (labelCols nl l)
  never := .error .runtime

/-- `BinaryRecallAtFixedPrecision(min_precision = p)` -/
def binaryRecallAtPrecisionC (p : Q) : CFam (List Q × List Q) (Q × Q) (XQ × XQ) where
  stat := pairSamples
  out l := binaryRecallAtPrecision (l.map (·.1)) (l.map (·.2)) p
  never := .error .runtime

/-- `MultilabelRecallAtFixedPrecision(num_labels = nl, min_precision = p)` -/
def multilabelRecallAtPrecisionC (p : Q) (nl : Nat) :
    CFam (Mat × Mat) (List Q × List Q) (List (XQ × XQ)) where
  stat := rowSamples
  out l := multilabelRecallAtPrecision (labelCols nl l) p
  never := .error .runtime

end curve

/-! ## binned AUROC (TE/Model/Binned.lean); the threshold list `t` is configuration -/

section binned
open TE.Binned

/-- `BinaryBinnedAUROC(num_tasks = nt, threshold = t)` : `torch.cat` of an empty cache raises. -/
def binaryBinnedAurocL (t : List Q) (nt : Nat) : LFam (List TaskPair) TaskPair (List Q) where
  stat := catSamples
  outA l := if l.isEmpty then .error .runtime else .ok (binaryBinnedAuroc t (taskPairRows nt l))

/-- the functional `binary_binned_auroc` has no `torch.cat`: an empty batch is fine. -/
def binaryBinnedAurocFn (t : List Q) (nt : Nat) (b : List TaskPair) : Except Err (List Q) :=
  .ok (binaryBinnedAuroc t (taskPairRows nt b))

/-- `MulticlassBinnedAUROC(num_classes = C, threshold = t)` AS IT IS on this tree: one value per
    cached *sample* (recorded finding, `TE.C06.multiclass_binned_auroc_witness`), hence an
    order-carrying class.  `F.one_hot` raises for a label `≥ C`. -/
def mcBinnedAurocL (t : List Q) (C : Nat) : LFam (Mat × List Nat) (List Q × Nat) (List Q) where
  stat := rowSamples
  outA l :=
    if l.isEmpty then .error .runtime
    else if !(l.all fun p => p.2 < C) then .error .runtime
    else .ok (mcBinnedAuroc t C (l.map (·.1)) (l.map (·.2)))

/-- the functional `multiclass_binned_auroc` (no `torch.cat`). -/
def mcBinnedAurocFn (t : List Q) (C : Nat) (b : Mat × List Nat) : Except Err (List Q) := do
  let l ← rowSamples b
  if !(l.all fun p => p.2 < C) then .error .runtime
  else .ok (mcBinnedAuroc t C (l.map (·.1)) (l.map (·.2)))

end binned

/-! ## aggregation (TE/Model/Agg.lean) -/

section agg
open TE.Agg

/-- `AUC(reorder, n_tasks = nt)` : samples are the points `(x, y)` of all tasks at one index;
    `compute()` before any update returns an empty tensor. -/
def aucC (reorder : Bool) (nt : Nat) : CFam (List TaskPair) TaskPair (List Q) where
  stat := catSamples
  out l := .ok ((taskPairRows nt l).map fun r => aucRow reorder r.1 r.2)
  never := .ok []

/-- accumulator of `Wasserstein1D`: the weighted samples of the two distributions. -/
def pairAcc (α β : Type) : Acc (List α × List β) := ⟨([], []), fun a b => (a.1 ++ b.1, a.2 ++ b.2)⟩

/-- one `Wasserstein1D.update`: new samples of both distributions with optional weights. -/
structure WBatch where
  x : List Q
  y : List Q
  xw : Option (List Q)
  yw : Option (List Q)

/-- `_wasserstein_update_input_check` on the data (non-empty samples, positive weights of matching
    size), then the weighted samples; missing weights are ones. -/
def wassStat (b : WBatch) : Except Err (List (Q × Q) × List (Q × Q)) :=
  if b.x.isEmpty || b.y.isEmpty then .error .value
  else if !weightsOk b.x b.xw || !weightsOk b.y b.yw then .error .value
  else .ok (b.x.zip (expandO b.x.length b.xw), b.y.zip (expandO b.y.length b.yw))

/-- `Wasserstein1D.compute` : `_wasserstein_compute` on the cached samples and weights
    (`ValueError` while either cache is empty). -/
def wassOut (s : List (Q × Q) × List (Q × Q)) : Except Err Q :=
  wasserstein (s.1.map (·.1)) (s.2.map (·.1)) (some (s.1.map (·.2))) (some (s.2.map (·.2)))

def wassCls : Impl WBatch (List (Q × Q) × List (Q × Q)) Q := additive (pairAcc (Q × Q) (Q × Q)) wassStat wassOut

/-- the class's view of the functional: `stat >=> out`
    (`= wasserstein b.x b.y b.xw b.yw`, `TE.FamCache.wassFn_eq_functional`). -/
def wassFn (b : WBatch) : Except Err Q := wassStat b >>= wassOut

def catW (bs : List WBatch) : WBatch :=
  { x := (bs.map (·.x)).flatten
    y := (bs.map (·.y)).flatten
    xw := some (bs.map fun b => expandO b.x.length b.xw).flatten
    yw := some (bs.map fun b => expandO b.y.length b.yw).flatten }

/-- `PeakSignalNoiseRatio(data_range = dr)` : `(input, target)` flattened; `_psnr_input_check`
    rejects differing shapes; output = the argument of `10·log10`. -/
def psnrCls (dr : Option Q) : Impl (List Q × List Q) PsnrS XQ where
  init := (psnrImpl dr).init
  upd s b := if b.1.length = b.2.length then (psnrImpl dr).upd s b else .error .value
  mrg := (psnrImpl dr).mrg
  out := (psnrImpl dr).out

/-- `Max`, `Min`, `Covariance`, `Throughput` under the names used by the class-level theorems. -/
abbrev maxCls : Impl (List Q) (Option Q) XQ := extImpl qmax .ninf
abbrev minCls : Impl (List Q) (Option Q) XQ := extImpl qmin .pinf
abbrev covCls : Impl (Nat × Mat) CovS (List Q × Mat) := covImpl
abbrev thrCls : Impl (Q × Q) (Q × Q) Q := thrImpl

end agg

end TE.Fams
