/-
  TE.Model.Binned — executable models of the binned classification functionals
  (binned precision-recall curve, binned AUROC, binned AUPRC), following the
  code's algorithm:
    * "memory" forms: `searchsorted(right=True) − 1` bucket index, flat integer
      code `2·(S·bucket + slot) + bit`, unit-width `histc`, reshape/transpose,
      suffix sums (`flip.cumsum.flip`), `num_fn = class_counts − num_tp`;
    * "vectorized" forms: the broadcast comparison `input >= threshold[:,None,None]`;
    * `_compute`: precision `nan_to_num(·, 1.0)`, appended `(1, 0)` point;
    * binned AUROC: comparison, `rot90` + `pad` (reverse and prepend 0), `trapz`;
    * binned AUPRC: `_riemann_integral(recall, precision)`, `nan_to_num(nan=0)`.
  Anchors: torcheval/metrics/functional/classification/{binned_precision_recall_curve,
  binned_auroc,binned_auprc}.py, torcheval/metrics/functional/tensor_utils.py.

  Targets are natural numbers (class indices / 0-1 indicators); negative or
  fractional targets are outside these models (the adapters refuse them).
-/
import TE.Model.Basic
namespace TE.Binned
open TE

/-! ### torch primitives -/

/-- `torch.searchsorted(t, x, right=True)` on a sorted sequence: the first index
    `i` with `x < t[i]` (`len t` if there is none). Unsorted `t` never reaches
    this point (rejected by the parameter check). -/
def searchsortedRight : List Q → Q → Nat
  | [], _ => 0
  | u :: t, x => if x < u then 0 else searchsortedRight t x + 1

/-- `searchsorted(threshold, x, right=True) - 1` : `-1` for a score below the first threshold. -/
def bucket (t : List Q) (x : Q) : Int := (searchsortedRight t x : Int) - 1

/-- `torch.histc(v, bins=b, min=0, max=b)` on integer-valued data: unit-width
    bins, values outside `[0, b]` are ignored, the value `b` itself (= `max`)
    falls into the last bin. -/
def histcUnit (bins : Nat) (vals : List Int) : List Q :=
  (List.range bins).map fun (k : Nat) =>
    qcount (fun v : Int => v == (k : Int) || (k + 1 == bins && v == (bins : Int))) vals

/-- `v.flip(-1).cumsum(-1).flip(-1)` : entry `j` is the sum of the entries `≥ j`. -/
def suffixSums : List Q → List Q
  | [] => []
  | x :: xs =>
    let r := suffixSums xs
    (x + r.headD 0) :: r

/-- `not (torch.diff(threshold) < 0.0).any()` -/
def sortedB : List Q → Bool
  | u :: v :: t => !(decide (v - u < 0)) && sortedB (v :: t)
  | _ => true

/-- `not ((threshold < 0.0).any() or (threshold > 1.0).any())` -/
def inUnitB (t : List Q) : Bool := t.all fun u => !(decide (u < 0)) && !(decide (1 < u))

/-- `_binned_precision_recall_curve_param_check` (also the sorted/range part of the
    AUROC / AUPRC parameter checks). -/
def paramCheck (t : List Q) : Except Err Unit :=
  if !sortedB t then .error .value
  else if !inUnitB t then .error .value
  else .ok ()

/-- the extra conditions of the `*_binned_auprc_param_check`s: `threshold[0] == 0`
    (IndexError on an empty tensor) and `threshold[-1] == 1`. -/
def auprcParamCheck (t : List Q) : Except Err Unit := do
  paramCheck t
  match t with
  | [] => .error .index
  | u :: _ =>
    if u ≠ 0 then .error .value
    else if t.getLast? ≠ some 1 then .error .value
    else .ok ()

/-- `_optimization_param_check` -/
inductive Opt where | vectorized | memory
deriving DecidableEq, Repr

/-- element `c` of a row (`input[i, c]`); rows have passed the shape check. -/
def colAt (row : List Q) (c : Nat) : Q := row.getD c 0
def tgtAt (row : List Nat) (c : Nat) : Nat := row.getD c 0

/-- `m[:, c]` -/
def column (m : Mat) (c : Nat) : List Q := m.map fun r => r.getD c 0

/-! ### binary: `_update` -/

/-- the integer code `2 * (searchsorted(threshold, x, right=True) - 1) + target`. -/
def binaryCode (t : List Q) (x : Q) (y : Nat) : Int := 2 * bucket t x + (y : Int)

/-- `_update(input, target, threshold)` → `(num_tp, num_fp, num_fn)`.
    `histc(bins=0)` raises for an empty threshold tensor. -/
def binaryUpdate (t : List Q) (xs : List Q) (ys : List Nat) : Except Err (List Q × List Q × List Q) :=
  let T := t.length
  if T = 0 then .error .runtime else
  let hist := histcUnit (2 * T) ((xs.zip ys).map fun p => binaryCode t p.1 p.2)
  let targetSum : Q := qsum (ys.map fun y => ((y : Nat) : Q))
  -- hist.reshape((T, 2)).T : row r holds the bins 2k + r
  let row (r : Nat) : List Q := (List.range T).map fun k => hist.getD (2 * k + r) 0
  let fp := suffixSums (row 0)
  let tp := suffixSums (row 1)
  .ok (tp, fp, tp.map fun a => targetSum - a)

/-! ### multiclass: `_update_vectorized` / `_update_memory` -/

/-- `(labels & one_hot(target)).sum(dim=1)[k, c]` with `labels = input >= threshold[k]`. -/
def mcVecTp (u : Q) (c : Nat) (rows : List (List Q)) (labs : List Nat) : Q :=
  qsum ((rows.zip labs).map fun p => b2q (decide (u ≤ colAt p.1 c)) * b2q (p.2 == c))

/-- `labels.sum(dim=1) - num_tp` -/
def mcVecFp (u : Q) (c : Nat) (rows : List (List Q)) (labs : List Nat) : Q :=
  qsum (rows.map fun r => b2q (decide (u ≤ colAt r c))) - mcVecTp u c rows labs

/-- `one_hot(target).sum(dim=0) - num_tp` -/
def mcVecFn (u : Q) (c : Nat) (rows : List (List Q)) (labs : List Nat) : Q :=
  qsum (labs.map fun l => b2q (l == c)) - mcVecTp u c rows labs

/-- `_multiclass_binned_precision_recall_curve_update_vectorized` → three `(T, C)` matrices.
    `F.one_hot` raises for a label `≥ num_classes`. -/
def mcVectorized (t : List Q) (C : Nat) (rows : List (List Q)) (labs : List Nat) :
    Except Err (Mat × Mat × Mat) :=
  if !(labs.all (· < C)) then .error .runtime else
  .ok (t.map (fun u => (List.range C).map fun c => mcVecTp u c rows labs),
       t.map (fun u => (List.range C).map fun c => mcVecFp u c rows labs),
       t.map (fun u => (List.range C).map fun c => mcVecFn u c rows labs))

/-- the flat code `2 * (S * bucket + slot) + bit` of the memory forms. -/
def flatCode (S : Nat) (t : List Q) (x : Q) (slot bit : Nat) : Int :=
  2 * ((S : Int) * bucket t x + (slot : Int)) + (bit : Int)

/-- `hist.reshape((T, S, 2)).transpose(0, 2)[r][s]` then the suffix sums along the
    threshold axis. -/
def memLine (T S : Nat) (hist : List Q) (r s : Nat) : List Q :=
  suffixSums ((List.range T).map fun k => hist.getD (2 * (S * k + s) + r) 0)

/-- `suffix_total[r].T` : a `(T, S)` matrix out of the `S` lines of length `T`. -/
def memMat (T S : Nat) (hist : List Q) (r : Nat) : Mat :=
  (List.range T).map fun k => (List.range S).map fun s => (memLine T S hist r s).getD k 0

/-- `class_counts[None, :] - num_tp` -/
def fnFrom (counts : List Q) (tp : Mat) : Mat :=
  tp.map fun rowk => (counts.zip rowk).map fun p => p.1 - p.2

/-- `_multiclass_binned_precision_recall_curve_update_memory`.
    `largest_index[range(n), target] += 1` raises IndexError for a label `≥ C`;
    `histc(bins=0)` raises for an empty threshold tensor. -/
def mcMemory (t : List Q) (C : Nat) (rows : List (List Q)) (labs : List Nat) :
    Except Err (Mat × Mat × Mat) :=
  let T := t.length
  if !(labs.all (· < C)) then .error .index else
  if 2 * T * C = 0 then .error .runtime else
  let codes : List Int := (rows.zip labs).flatMap fun p =>
    (List.range C).map fun c => flatCode C t (colAt p.1 c) c (if c == p.2 then 1 else 0)
  let hist := histcUnit (2 * T * C) codes
  let classCounts := histcUnit C (labs.map fun l => ((l : Nat) : Int))
  let tp := memMat T C hist 1
  .ok (tp, memMat T C hist 0, fnFrom classCounts tp)

/-! ### multilabel: `_update_vectorized` / `_update_memory` -/

def b2n (b : Bool) : Nat := if b then 1 else 0

/-- `(labels & target).sum(dim=1)[k, l]` (bitwise and of the 0/1 decision with the integer target). -/
def mlVecTp (u : Q) (l : Nat) (rows : List (List Q)) (tgts : List (List Nat)) : Q :=
  qsum ((rows.zip tgts).map fun p => ((Nat.land (b2n (decide (u ≤ colAt p.1 l))) (tgtAt p.2 l) : Nat) : Q))

def mlVecFp (u : Q) (l : Nat) (rows : List (List Q)) (tgts : List (List Nat)) : Q :=
  qsum (rows.map fun r => b2q (decide (u ≤ colAt r l))) - mlVecTp u l rows tgts

def mlVecFn (u : Q) (l : Nat) (rows : List (List Q)) (tgts : List (List Nat)) : Q :=
  qsum (tgts.map fun r => ((tgtAt r l : Nat) : Q)) - mlVecTp u l rows tgts

/-- `_multilabel_binned_precision_recall_curve_update_vectorized` -/
def mlVectorized (t : List Q) (L : Nat) (rows : List (List Q)) (tgts : List (List Nat)) : Mat × Mat × Mat :=
  (t.map (fun u => (List.range L).map fun l => mlVecTp u l rows tgts),
   t.map (fun u => (List.range L).map fun l => mlVecFp u l rows tgts),
   t.map (fun u => (List.range L).map fun l => mlVecFn u l rows tgts))

/-- `_multilabel_binned_precision_recall_curve_update_memory` -/
def mlMemory (t : List Q) (L : Nat) (rows : List (List Q)) (tgts : List (List Nat)) :
    Except Err (Mat × Mat × Mat) :=
  let T := t.length
  if 2 * T * L = 0 then .error .runtime else
  let codes : List Int := (rows.zip tgts).flatMap fun p =>
    (List.range L).map fun l => flatCode L t (colAt p.1 l) l (tgtAt p.2 l)
  let hist := histcUnit (2 * T * L) codes
  let classCounts := (List.range L).map fun l => qsum (tgts.map fun r => ((tgtAt r l : Nat) : Q))
  let tp := memMat T L hist 1
  .ok (tp, memMat T L hist 0, fnFrom classCounts tp)

/-! ### `_compute` -/

/-- `torch.nan_to_num(x, 1.0)` on a ratio of non-negative counts (no infinities: `tp > 0 → tp + fp > 0`). -/
def nanTo1 : XQ → XQ
  | .nan => .val 1
  | x => x

/-- `_binary_binned_precision_recall_curve_compute` (also one class / label column of the
    multiclass / multilabel forms): `(precision ++ [1], recall ++ [0])`. -/
def curveCompute (tp fp fn : List Q) : List XQ × List XQ :=
  ((tp.zip fp).map (fun p => nanTo1 (xdiv p.1 (p.1 + p.2))) ++ [.val 1],
   (tp.zip fn).map (fun p => xdiv p.1 (p.1 + p.2)) ++ [.val 0])

/-- `_multiclass/_multilabel_…_compute`: `list(precision.T), list(recall.T)`. -/
def curveComputeMat (S : Nat) (tp fp fn : Mat) : List (List XQ × List XQ) :=
  (List.range S).map fun s => curveCompute (column tp s) (column fp s) (column fn s)

/-! ### binned AUPRC -/

/-- `torch.sum((x[1:] - x[:-1]) * y[:-1])` -/
def riemannSum : List Q → List Q → Q
  | x0 :: x1 :: xs, y0 :: ys => (x1 - x0) * y0 + riemannSum (x1 :: xs) ys
  | _, _ => 0

/-- all entries finite rationals? -/
def allVals : List XQ → Option (List Q)
  | [] => some []
  | .val q :: r => (allVals r).map (q :: ·)
  | _ :: _ => none

/-- `nan_to_num(_riemann_integral(recall, precision), nan=0.0)` of one curve: any NaN
    (recall = 0/0 when there is no positive) makes the sum NaN, which becomes 0. -/
def auprcOfCurve (pr : List XQ × List XQ) : Q :=
  match allVals pr.2, allVals pr.1 with
  | some r, some p => - riemannSum r p
  | _, _ => 0

def auprcOf (tp fp fn : List Q) : Q := auprcOfCurve (curveCompute tp fp fn)

/-- `tensor.mean()` -/
def meanX (l : List Q) : XQ := xdiv (qsum l) l.length

/-! ### binned AUROC -/

/-- `torch.trapz(y, x)` -/
def trapz : List Q → List Q → Q
  | y0 :: y1 :: ys, x0 :: x1 :: xs => (x1 - x0) * (y0 + y1) / 2 + trapz (y1 :: ys) (x1 :: xs)
  | _, _ => 0

/-- `(pred_label * target).sum(dim=-1)[k]` -/
def aurocTp (u : Q) (xs ys : List Q) : Q :=
  qsum ((xs.zip ys).map fun p => b2q (decide (u ≤ p.1)) * p.2)

/-- `pred_label.sum(dim=-1)[k] - input_target.sum(dim=-1)[k]` -/
def aurocFp (u : Q) (xs ys : List Q) : Q :=
  qsum (xs.map fun x => b2q (decide (u ≤ x))) - aurocTp u xs ys

/-- one row of `_binary_binned_auroc_compute` (one task): `rot90` + `pad` turn the
    per-threshold sums into `[0, c(t_{T-1}), …, c(t_0)]`; `factor = cum_tp[-1] * cum_fp[-1]`;
    `0.5` when the factor is 0. -/
def binnedAurocRow (t : List Q) (xs ys : List Q) : Q :=
  let cumTp := 0 :: (t.map fun u => aurocTp u xs ys).reverse
  let cumFp := 0 :: (t.map fun u => aurocFp u xs ys).reverse
  let factor := cumTp.getLast (List.cons_ne_nil _ _) * cumFp.getLast (List.cons_ne_nil _ _)
  if factor = 0 then 1 / 2 else trapz cumTp cumFp / factor

/-- `_binary_binned_auroc_compute` on `(num_tasks, n)` data (a 1-D input is one task). -/
def binaryBinnedAuroc (t : List Q) (tasks : List (List Q × List Q)) : List Q :=
  tasks.map fun p => binnedAurocRow t p.1 p.2

def oneHot (C lab : Nat) : List Q := (List.range C).map fun c => b2q (c == lab)

/-- `_multiclass_binned_auroc_compute` AS IT IS on this tree: `pred_label` has shape
    `(T, n, C)` and is summed over `dim=-1`, i.e. over the **classes**, so every *sample*
    is treated as a task whose "samples" are its `C` class scores: one value per sample. -/
def mcBinnedAuroc (t : List Q) (C : Nat) (rows : List (List Q)) (labs : List Nat) : List Q :=
  (rows.zip labs).map fun p => binnedAurocRow t p.1 (oneHot C p.2)

/-- what the documentation promises: one-vs-rest binned AUROC per **class**. -/
def mcBinnedAurocIntended (t : List Q) (C : Nat) (rows : List (List Q)) (labs : List Nat) : List Q :=
  (List.range C).map fun c => binnedAurocRow t (rows.map fun r => colAt r c) (labs.map fun l => b2q (l == c))

/-! ### `_create_threshold_tensor` -/

/-- exact `i / (n-1)` grid; the float32 values `torch.linspace(0, 1, n)` produces are
    supplied by the caller (harness / adapter), see `TE.Driver.Binned`. -/
def linspaceExact (n : Nat) : List Q :=
  if n = 1 then [0] else (List.range n).map fun (i : Nat) => (i : Q) / ((n - 1 : Nat) : Q)

end TE.Binned
