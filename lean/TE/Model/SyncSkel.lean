/-
  TE.Model.SyncSkel — the COLLECTIVE SKELETON of torcheval/metrics/synclib.py and of the sync half of
  toolkit.py, as the translator `harness/translators/syncskel.py` reads it off the source on every run
  (TE/Gen/SyncSkel.lean is the generated table).  Core Lean only.

  A function's skeleton is a tree
      seq | ite guard | forEach iterable | coll (kind, payload, group, root, receive buffer) | call f args | eff | ret | raise
  over first-order terms in which local variables have been substituted away, one-line helpers inlined
  (`toGlobal g r` = `_to_global_rank`, `recv g r` = `r is None or dist.get_rank(g) == r`, `notInit`,
  `wsOr1` / `meOr0` = toolkit's `_get_world_size` / `_get_rank`, `groupOrWorld`), loop / comprehension variables
  numbered by binding depth (`b k`), results of collectives and of calls of communicating functions numbered in
  program order (`r n`), written containers named (`loc k`).  Normal forms the translator applies to every function (so that
  behaviour-preserving rewritings of the source give the same table): the guard of an `ite` — node or term — is positive
  (`is`, `eq`, `lt`, `le`, `in`, no `not`; the branches are swapped instead), so a guard clause `if not c: return` followed by
  the rest is `ite c rest skip`; a `return None` in tail position is `skip` (falling off the end); `for i in range(len(S))`
  that uses only `S[i]` is `forEach S`; a map / filter iterated by a comprehension is fused with it.

  * `Facts` / `WF`  — decidable facts about a table of skeletons the C02 / C15 proofs rest on;
  * `run`           — a small interpreter: the sequence of collective sites a member issues under a valuation of the
                      guards and trip counts;
  * `expected`      — (second half of the file) the skeleton the hand-written model TE/Model/Sync.lean follows, node by node.
-/
import TE.Model.Sync
namespace TE.SyncSkel

inductive Term where
  | v (name : String)        -- a parameter of the function
  | b (k : Nat)              -- the variable bound at binding depth k (loop / comprehension variable)
  | r (n : Nat)              -- the result of the n-th collective / call node of the function
  | loc (k : Nat)            -- the k-th container the function creates and writes
  | none | tt | ff | unit
  | int (n : Int)
  | str (s : String)
  | fn (name : String)       -- a global name: a function, a class, a module attribute
  | app (f a : Term)
deriving DecidableEq, Repr, Inhabited

/-- `f(a₁, …, aₙ)`; a call without arguments is `f(unit)`. -/
def c (f : String) (args : List Term) : Term := args.foldl .app (.fn f)
def c0 (f : String) : Term := .app (.fn f) .unit

inductive CKind where
  | allGather | gather | allGatherObj | gatherObj | broadcastObj
deriving DecidableEq, Repr, Inhabited

inductive Skel where
  | skip
  | seq (a b : Skel)
  | ite (g : Term) (t e : Skel)
  /-- `for b k in it: body` -/
  | forEach (k : Nat) (it : Term) (body : Skel)
  /-- `r n = dist.<kind>(payload, group = …, dst/src = root)`; `out` is the receive buffer the member prepared. -/
  | coll (n : Nat) (kind : CKind) (payload group root out : Term)
  /-- `r n = f(args)`, arguments in the order of `f`'s parameters (keywords and defaults bound). -/
  | call (n : Nat) (f : String) (args : List Term)
  /-- a local effect: `store [target, value]`, `append [target, value]`, `ensure [dict, key, default]` (= setdefault),
      `new [loc k, initial value]`, `assert [t]`, `do [call]`. -/
  | eff (kind : String) (args : List Term)
  | ret (t : Term)
  | raise (exc : String)
deriving DecidableEq, Repr, Inhabited

def seqs : List Skel → Skel
  | [] => .skip
  | [a] => a
  | a :: rest => .seq a (seqs rest)

structure FnSkel where
  module : String
  name : String
  params : List String
  untranslated : Option String      -- the reason, when the function is outside the grammar
  body : Skel
deriving DecidableEq, Repr, Inhabited

abbrev Table := List FnSkel

def Table.find (t : Table) (f : String) : Option FnSkel := List.find? (fun x => x.name == f) t

/-! ### traversals -/

/-- does `p` hold of some sub-term -/
def Term.any (p : Term → Bool) : Term → Bool
  | .app f a => p (.app f a) || f.any p || a.any p
  | t => p t

/-- head symbol and arity-1 argument of `f(a)` -/
def Term.isCall1 (f : String) : Term → Option Term
  | .app (.fn g) a => if g == f then some a else Option.none
  | _ => Option.none

def Term.isCall2 (f : String) : Term → Option (Term × Term)
  | .app (.app (.fn g) x) y => if g == f then some (x, y) else Option.none
  | _ => Option.none

def Term.headIs (f : String) : Term → Bool
  | .fn g => g == f
  | .app h _ => h.headIs f
  | _ => false

/-- all terms of a skeleton (guards, iterables, payloads, arguments, …) -/
def Skel.terms : Skel → List Term
  | .skip => []
  | .seq a b => a.terms ++ b.terms
  | .ite g t e => g :: (t.terms ++ e.terms)
  | .forEach _ it body => it :: body.terms
  | .coll _ _ p g r o => [p, g, r, o]
  | .call _ _ args => args
  | .eff _ args => args
  | .ret t => [t]
  | .raise _ => []

/-- the collective nodes of a skeleton -/
def Skel.colls : Skel → List (Nat × CKind × Term × Term × Term × Term)
  | .seq a b => a.colls ++ b.colls
  | .ite _ t e => t.colls ++ e.colls
  | .forEach _ _ body => body.colls
  | .coll n k p g r o => [(n, k, p, g, r, o)]
  | _ => []

/-- the call nodes -/
def Skel.calls : Skel → List (Nat × String × List Term)
  | .seq a b => a.calls ++ b.calls
  | .ite _ t e => t.calls ++ e.calls
  | .forEach _ _ body => body.calls
  | .call n f args => [(n, f, args)]
  | _ => []

/-- no collective and no call of a communicating function inside -/
def Skel.quiet : Skel → Bool
  | .seq a b => a.quiet && b.quiet
  | .ite _ t e => t.quiet && e.quiet
  | .forEach _ _ body => body.quiet
  | .coll .. => false
  | .call .. => false
  | _ => true

def Skel.noRet : Skel → Bool
  | .seq a b => a.noRet && b.noRet
  | .ite _ t e => t.noRet && e.noRet
  | .forEach _ _ body => body.noRet
  | .ret _ => false
  | .raise _ => false
  | _ => true

/-- the guards and iterables the collective sequence depends on.  `tail`: nothing that communicates follows
    (a `return` in a quiet branch then changes nothing). -/
def Skel.relevant : Skel → Bool → List Term
  | .seq a b, tail => a.relevant (tail && b.quiet) ++ b.relevant tail
  | .ite g t e, tail =>
    if t.quiet && e.quiet && (tail || (t.noRet && e.noRet)) then [] else g :: (t.relevant tail ++ e.relevant tail)
  | .forEach _ it body, tail =>
    if body.quiet && (tail || body.noRet) then [] else it :: body.relevant false
  | _, _ => []

/-! ### the facts -/

/-- the atoms whose value differs from member to member -/
def rankAtom : Term → Bool
  | .fn f => f == "dist.get_rank" || f == "recv" || f == "meOr0"
  | _ => false

def Term.rankFree (t : Term) : Bool := !(t.any rankAtom)

/-- `x.keys()` occurs only as the immediate argument of `sorted`, `.values()` / `.items()` do not occur:
    every traversal of a dict is in SORTED key order. -/
def Term.keysSorted : Term → Bool
  | .app (.fn "sorted") (.app (.fn ".keys()") x) => x.keysSorted
  | .app f a =>
    (match f with
     | .fn g => !(g == ".keys()" || g == ".values()" || g == ".items()")
     | _ => true) && f.keysSorted && a.keysSorted
  | .fn g => !(g == ".keys()" || g == ".values()" || g == ".items()")
  | _ => true

/-- rank and world size are asked of a GROUP expression, never of the default (global) world -/
def Term.groupScoped : Term → Bool
  | .app (.fn g) a =>
    (if g == "dist.get_rank" || g == "dist.get_world_size" || g == "wsOr1" || g == "meOr0" then
      (match a with | .v _ => true | _ => false) else true) && a.groupScoped
  | .app f a => f.groupScoped && a.groupScoped
  | _ => true

def rooted : CKind → Bool
  | .gather | .gatherObj | .broadcastObj => true
  | _ => false

/-- a rooted collective names its root as `toGlobal(<the group of the collective>, ·)` (group rank → global rank);
    a collective without root names none; the group is a parameter of the function. -/
def collAddressed : (Nat × CKind × Term × Term × Term × Term) → Bool
  | (_, k, _, g, root, _) =>
    (match g with | .v _ => true | _ => false) &&
    (if rooted k then
      (match root.isCall2 "toGlobal" with
       | some (g', _) => g' == g
       | none => false)
     else root == .none)

/-- the receive buffer of a gathering collective has one slot per member OF THE GROUP
    (`dist.get_world_size(group)`, or the `world_size` parameter its caller computed that way) -/
def bufferSized : (Nat × CKind × Term × Term × Term × Term) → Bool
  | (_, k, _, g, _, out) =>
    if k == .broadcastObj then true
    else out.any fun t => t == c "dist.get_world_size" [g] || t == .v "world_size"

/-- `for i, x in enumerate(r n): gathered_states[i][…][…] = x` — what member i sent is stored under index i -/
def storesByIndex : Skel → Bool
  | .seq a b => storesByIndex a && storesByIndex b
  | .ite _ t e => storesByIndex t && storesByIndex e
  | .forEach k it body =>
    (match it.isCall1 "enumerate" with
     | some _ =>
       body.terms.all fun t =>
         -- every index into `gathered_states` inside the loop is the enumeration index
         !(t.any fun s => match s.isCall2 "getitem" with
                          | some (.v "gathered_states", i) => i != c "getitem" [.b k, .int 0]
                          | _ => false)
     | none => true) && storesByIndex body
  | _ => true

/-- position of a parameter -/
def paramIdx (ps : List String) (p : String) : Option Nat :=
  let i := ps.idxOf p
  if i < ps.length then some i else Option.none

/-- a callee's `world_size` parameter receives `dist.get_world_size(<the group handed to the callee>)`
    (or the caller's own `world_size`; toolkit: `wsOr1 g` next to `groupOrWorld g`) -/
def wsArgOk (t : Table) : (Nat × String × List Term) → Bool
  | (_, f, args) =>
    match t.find f with
    | Option.none => false
    | some fs =>
      match paramIdx fs.params "world_size" with
      | Option.none => true
      | some i =>
        let g := match paramIdx fs.params "group", paramIdx fs.params "process_group" with
                 | some j, _ => args[j]?
                 | _, some j => args[j]?
                 | _, _ => Option.none
        match args[i]?, g with
        | some w, some g =>
          w == .v "world_size" || w == c "dist.get_world_size" [g] ||
          (match g.isCall1 "groupOrWorld" with
           | some pg => w == c "wsOr1" [pg]
           | Option.none => false)
        | _, _ => false

structure Facts where
  translated : Bool          -- every function is inside the grammar
  keysSorted : Bool          -- synclib traverses dicts in sorted key order only
  groupScoped : Bool         -- rank / world size always taken from a group expression
  addressed : Bool           -- roots are group rank → global rank; groups are passed through
  bufferSized : Bool         -- receive buffers sized by the group
  storesByIndex : Bool       -- gathered value of member i lands under index i
  relevantRankFree : Bool    -- no guard / trip count the collective sequence depends on mentions the member's own rank
deriving DecidableEq, Repr

def factsOf (t : Table) : Facts where
  translated := t.all (·.untranslated.isNone)
  keysSorted := t.all fun f => f.module != "synclib" || f.body.terms.all Term.keysSorted
  groupScoped := t.all fun f => f.body.terms.all Term.groupScoped
  addressed := t.all fun f => f.body.colls.all collAddressed
  bufferSized := t.all fun f => f.body.colls.all bufferSized && f.body.calls.all (wsArgOk t)
  storesByIndex := t.all fun f => storesByIndex f.body
  relevantRankFree := t.all fun f => (f.body.relevant true).all Term.rankFree

def WF (t : Table) : Bool := factsOf t == ⟨true, true, true, true, true, true, true⟩

/-! ### a small interpreter: the collective sites a member passes -/

/-- how a member resolves what the skeleton leaves open: the truth value of a guard, the trip count of a loop -/
structure Valuation where
  guard : Term → Bool
  trips : Term → Nat

/-- a collective site: function, node number, kind -/
structure Site where
  fn : String
  n : Nat
  kind : CKind
deriving DecidableEq, Repr

def repeatK {α : Type} (f : List α → List α) : Nat → List α → List α
  | 0, k => k
  | n + 1, k => f (repeatK f n k)

/-- the sites `sk` passes before the continuation `k`; `callee f` = the sites of a call of `f`.
    `ret` / `raise` drop the continuation. -/
def Skel.run (ρ : Valuation) (callee : String → List Site) (fname : String) : Skel → List Site → List Site
  | .skip, k => k
  | .seq a b, k => a.run ρ callee fname (b.run ρ callee fname k)
  | .ite g t e, k => if ρ.guard g then t.run ρ callee fname k else e.run ρ callee fname k
  | .forEach _ it body, k => repeatK (body.run ρ callee fname) (ρ.trips it) k
  | .coll n kind _ _ _ _, k => ⟨fname, n, kind⟩ :: k
  | .call _ f _, k => callee f ++ k
  | .eff _ _, k => k
  | .ret _, _ => []
  | .raise _, _ => []

/-- the sites of a call of `f`, calls resolved `fuel` levels deep (the call graph of synclib is 5 deep) -/
def run (t : Table) (ρ : Valuation) : Nat → String → List Site
  | 0, _ => []
  | fuel + 1, f =>
    match t.find f with
    | some fs => fs.body.run ρ (run t ρ fuel) f []
    | none => []

/-! ### the meaning of the gather pattern `for i, x in enumerate(xs): col[<idx>] = x` -/

/-- the enumeration index of the loop that binds `b k` -/
def enumIdx (k : Nat) : Term := c "getitem" [.b k, .int 0]

/-- value of an index expression in iteration `i`: the enumeration index, or a literal -/
def evalIdx (k : Nat) (idx : Term) (i : Nat) : Option Nat :=
  if idx == enumIdx k then some i
  else match idx with
    | .int n => some n.toNat
    | _ => Option.none

/-- run the loop from iteration `i` on -/
def storeLoop {α : Type} (k : Nat) (idx : Term) : Nat → List α → List α → List α
  | _, [], col => col
  | i, x :: xs, col =>
    match evalIdx k idx i with
    | some j => storeLoop k idx (i + 1) xs (col.set j x)
    | Option.none => col

/-! ### the expected skeleton: what the hand-written model TE/Model/Sync.lean follows, node by node

Every definition below mirrors one Python function; the comment above a `coll` / `call` node names the definition of
TE/Model/Sync.lean that issues the same collective / makes the same call.  TE/Props/C15_Skel.lean and C02_Skel.lean decide,
per function, that the skeleton regenerated from /repo's working tree equals it. -/

/-- `synclib._simple_send_tensors` ↔ `simpleSend e dst t` (TE/Model/Sync.lean): `dst = none` ⇒ `.coll (.allGather t)`, else `.coll (.gather gd (e.me == d) t)` with `gd = toGlobal e d`. -/
def ex_simple_send_tensors : FnSkel :=
  ⟨"synclib", "_simple_send_tensors", ["tensor", "world_size", "group", "rank"], none,
   (seqs [
     (.ite (c "is" [.none, (.v "rank")])
         -- simpleSend, dst = none: `.coll (.allGather t) recvTensors`; buffer on receiving members only
         (.coll 0 .allGather
             (payload := (.v "tensor"))
             (group := (.v "group"))
             (root := .none)
             (out := (c "ite" [(c "recv" [(.v "group"), (.v "rank")]), (c "list" [(c "torch.empty" [(c "add" [(c "[]" [(.v "world_size")]), (c "list" [(c ".size()" [(.v "tensor")])])]), (c "kw" [(.str "device"), (c ".device" [(.v "tensor")])]), (c "kw" [(.str "dtype"), (c ".dtype" [(.v "tensor")])])])]), .none])))
         -- simpleSend, dst = some d: `.coll (.gather gd (e.me == d) t)`, `gd = toGlobal e d`
         (.coll 1 .gather
             (payload := (.v "tensor"))
             (group := (.v "group"))
             (root := (c "toGlobal" [(.v "group"), (.v "rank")]))
             (out := (c "ite" [(c "recv" [(.v "group"), (.v "rank")]), (c "list" [(c "torch.empty" [(c "add" [(c "[]" [(.v "world_size")]), (c "list" [(c ".size()" [(.v "tensor")])])]), (c "kw" [(.str "device"), (c ".device" [(.v "tensor")])]), (c "kw" [(.str "dtype"), (c ".dtype" [(.v "tensor")])])])]), .none])))),
     (.ret (c "ite" [(c "is" [.none, (.v "rank")]), (.r 0), (.r 1)]))])⟩

/-- `synclib._send_uneven_tensors` ↔ `sendUneven` = `simpleSend e none (shapeTensor t)` then `sendUnevenK`: sizes first, the equal-shape fast path (`mx == pmin shapes`), else pad to `pmax` and `trimK`. -/
def ex_send_uneven_tensors : FnSkel :=
  ⟨"synclib", "_send_uneven_tensors", ["tensor", "world_size", "group", "rank"], none,
   (seqs [
     -- sendUneven: `simpleSend e none (shapeTensor t)` — the sizes travel first, to ALL members
     (.call 0 "_simple_send_tensors" [(c "torch.tensor" [(c ".shape" [(.v "tensor")]), (c "kw" [(.str "device"), (c ".device" [(.v "tensor")])])]), (.v "world_size"), (.v "group"), .none]),
     (.eff "assert" [(c "is_not" [.none, (.r 0)])]),
     (.ite (c "torch.equal" [(c ".values" [(c ".max()" [(c "torch.stack" [(.r 0)]), (c "kw" [(.str "dim"), (.int 0)])])]), (c ".values" [(c ".min()" [(c "torch.stack" [(.r 0)]), (c "kw" [(.str "dim"), (.int 0)])])])])
         (seqs [
           -- sendUnevenK, `mx == pmin shapes`: `simpleSend e e.dst t`
           (.call 1 "_simple_send_tensors" [(.v "tensor"), (.v "world_size"), (.v "group"), (.v "rank")]),
           (.ret (.r 1))])
         (seqs [
           -- sendUnevenK, else: `simpleSend e e.dst (t.pad mx)`; then `trimK shapes`
           (.call 2 "_simple_send_tensors" [(c "F.pad" [(.v "tensor"), (c "flatfor" [(.b 0), (c "reversed" [(c ".cpu()" [(c ".detach()" [(c "sub" [(c ".values" [(c ".max()" [(c "torch.stack" [(.r 0)]), (c "kw" [(.str "dim"), (.int 0)])])]), (c "torch.tensor" [(c ".shape" [(.v "tensor")]), (c "kw" [(.str "device"), (c ".device" [(.v "tensor")])])])])])])]), (c "[]" [(.int 0), (c ".item()" [(.b 0)])])])]), (.v "world_size"), (.v "group"), (.v "rank")]),
           (.ite (.r 2)
               (.forEach 0 (c "enumerate" [(.r 0)])
                   (.eff "store" [(c "getitem" [(.r 2), (c "getitem" [(.b 0), (.int 0)])]), (c "getitem" [(c "getitem" [(.r 2), (c "getitem" [(.b 0), (.int 0)])]), (c "for" [(.b 1), (c "getitem" [(.b 0), (.int 1)]), (c "slice" [(.b 1)])])])]))
               .skip),
           (.ret (.r 2))]))])⟩

/-- `synclib.send_tensors` ↔ `sendTensorsTop` (the not-initialised short cut) over `sendTensors` (`t.shape.length == 0` ⇒ `simpleSend`, else `sendUneven`); world size = `e.ws`, the size of the GROUP. -/
def ex_send_tensors : FnSkel :=
  ⟨"synclib", "send_tensors", ["result", "group", "rank"], none,
   (.ite (c0 "notInit")
       (.ret (c "[]" [(.v "result")]))
       (.ite (c "eq" [(c ".ndim" [(c ".contiguous()" [(.v "result")])]), (.int 0)])
           (seqs [
             -- sendTensors, 0-dim: `simpleSend e e.dst t`
             (.call 0 "_simple_send_tensors" [(c ".contiguous()" [(.v "result")]), (c "dist.get_world_size" [(.v "group")]), (.v "group"), (.v "rank")]),
             (.ret (.r 0))])
           (seqs [
             -- sendTensors, else: `sendUneven e t`
             (.call 1 "_send_uneven_tensors" [(c ".contiguous()" [(.v "result")]), (c "dist.get_world_size" [(.v "group")]), (.v "group"), (.v "rank")]),
             (.ret (.r 1))])))⟩

/-- `synclib.metrics_traversal_order` ↔ `traversal`: `sortKeys` of the metric names, per metric `sortKeys` of its state names. -/
def ex_metrics_traversal_order : FnSkel :=
  ⟨"synclib", "metrics_traversal_order", ["state_dict"], none,
   (.ret (c "flatfor" [(.b 0), (c "sorted" [(c ".keys()" [(.v "state_dict")])]), (c "for" [(.b 1), (c "sorted" [(c ".keys()" [(c "getitem" [(.v "state_dict"), (.b 0)])])]), (c "()" [(.b 0), (.b 1)])])]))⟩

/-- `synclib._get_empty_metric_state_collection` ↔ `placeholder` (`.dict []`) in every slot: `List.replicate e.ws placeholder` is one column of it (`syncOne`). -/
def ex_get_empty_metric_state_collection : FnSkel :=
  ⟨"synclib", "_get_empty_metric_state_collection", ["metrics_traversal_order"], none,
   (seqs [
     (.eff "new" [(.loc 0), (c0 "{}")]),
     (.forEach 0 (.v "metrics_traversal_order")
         (seqs [
           (.eff "ensure" [(.loc 0), (c "getitem" [(.b 0), (.int 0)]), (c0 "{}")]),
           (.eff "store" [(c "getitem" [(c "getitem" [(.loc 0), (c "getitem" [(.b 0), (.int 0)])]), (c "getitem" [(.b 0), (.int 1)])]), (c0 "{}")])])),
     (.ret (.loc 0))])⟩

/-- `synclib._sync_tensor_states` ↔ `syncTensor` = `sendTensors` then `syncTensorK`: `none` ⇒ column unchanged, `some ts` ⇒ `assignCol col ts` (value i under index i). -/
def ex_sync_tensor_states : FnSkel :=
  ⟨"synclib", "_sync_tensor_states", ["metric_name", "state_name", "my_state_data", "gathered_states", "process_group", "rank"], none,
   (seqs [
     -- syncTensor: `sendTensors e t`
     (.call 0 "send_tensors" [(.v "my_state_data"), (.v "process_group"), (.v "rank")]),
     (.ite (c "is" [.none, (.r 0)])
         .skip
         (.forEach 0 (c "enumerate" [(.r 0)])
             (.eff "store" [(c "getitem" [(c "getitem" [(c "getitem" [(.v "gathered_states"), (c "getitem" [(.b 0), (.int 0)])]), (.v "metric_name")]), (.v "state_name")]), (c "getitem" [(.b 0), (.int 1)])])))])⟩

/-- `synclib._sync_dtype_and_shape` ↔ `syncDtypeShape` = `allGatherObj (rankOrMinus1 e t)` then `syncDtypeShapeK`: `mx = max`, `mx == -1` ⇒ `none`, else `.broadcastObj (toGlobal e mx) (dtypePayload e t mx)`; `recvDtypeShape`. -/
def ex_sync_dtype_and_shape : FnSkel :=
  ⟨"synclib", "_sync_dtype_and_shape", ["tensor", "process_group"], none,
   (seqs [
     -- syncDtypeShape: `allGatherObj (Obj.int (rankOrMinus1 e t))`
     (.coll 0 .allGatherObj
         (payload := (c "ite" [(c "is" [.none, (.v "tensor")]), (.int (-1)), (c "dist.get_rank" [(.v "process_group")])]))
         (group := (.v "process_group"))
         (root := .none)
         (out := (c "repeat" [.none, (c "dist.get_world_size" [(.v "process_group")])]))),
     (.ite (c "eq" [(c "max" [(.r 0)]), (.int (-1))])
         .skip
         (seqs [
           -- syncDtypeShapeK: `.coll (.broadcastObj gs (dtypePayload e t mx))`, `gs = toGlobal e mx`
           (.coll 1 .broadcastObj
               (payload := (c "ite" [(c "eq" [(c "dist.get_rank" [(.v "process_group")]), (c "max" [(.r 0)])]), (c "[]" [(c "()" [(c ".dtype" [(.v "tensor")]), (c ".shape" [(.v "tensor")])])]), (c "[]" [.none])]))
               (group := (.v "process_group"))
               (root := (c "toGlobal" [(.v "process_group"), (c "max" [(.r 0)])]))
               (out := (c "ite" [(c "eq" [(c "dist.get_rank" [(.v "process_group")]), (c "max" [(.r 0)])]), (c "[]" [(c "()" [(c ".dtype" [(.v "tensor")]), (c ".shape" [(.v "tensor")])])]), (c "[]" [.none])]))),
           (.ret (c "()" [(c "getitem" [(c "getitem" [(.r 1), (.int 0)]), (.int 0)]), (c "getitem" [(c "getitem" [(.r 1), (.int 0)]), (.int 1)])]))]))])⟩

/-- `synclib._sync_list_length` ↔ the `allGatherObj (Obj.int xs.length)` that opens `syncList`. -/
def ex_sync_list_length : FnSkel :=
  ⟨"synclib", "_sync_list_length", ["state_data", "process_group"], none,
   (seqs [
     -- syncList: `allGatherObj (Obj.int xs.length)`
     (.coll 0 .allGatherObj
         (payload := (c "len" [(.v "state_data")]))
         (group := (.v "process_group"))
         (root := .none)
         (out := (c "repeat" [.none, (c "dist.get_world_size" [(.v "process_group")])]))),
     (.ret (.r 0))])⟩

/-- `synclib._sync_list_tensor_states` ↔ `syncList` → `syncListK` (`lens.any (· == 0)` ⇒ `syncDtypeShape e xs.head?` → `syncListDS`: all empty ⇒ receiving members get `[]`) → `listGo` / `listRounds` over `range (max lens)`, `roundTensor` (own element or `dummy`), `roundK` / `appendRound` / `updCell` (`i < len` guard). -/
def ex_sync_list_tensor_states : FnSkel :=
  ⟨"synclib", "_sync_list_tensor_states", ["metric_name", "state_name", "my_state_data", "device", "gathered_states", "process_group", "rank"], none,
   (seqs [
     -- syncList: the lengths
     (.call 0 "_sync_list_length" [(.v "my_state_data"), (.v "process_group")]),
     (.ite (c "any" [(c "for" [(.b 0), (.r 0), (c "eq" [(.b 0), (.int 0)])])])
         (seqs [
           -- syncListK, some length is 0: `syncDtypeShape e xs.head?`
           (.call 1 "_sync_dtype_and_shape" [(c "ite" [(c "le" [(c "len" [(.v "my_state_data")]), (.int 0)]), .none, (c "getitem" [(.v "my_state_data"), (.int 0)])]), (.v "process_group")]),
           (.ite (c "is" [.none, (.r 1)])
               (seqs [
                 (.ite (c "recv" [(.v "process_group"), (.v "rank")])
                     (.forEach 0 (.v "gathered_states")
                         (.eff "store" [(c "getitem" [(c "getitem" [(.b 0), (.v "metric_name")]), (.v "state_name")]), (c0 "[]")]))
                     .skip),
                 (.ret .none)])
               .skip)])
         .skip),
     (.forEach 0 (c "range" [(c "max" [(.r 0)])])
         (seqs [
           -- listRounds: `sendTensors e (roundTensor e xs d s i)`
           (.call 2 "send_tensors" [(c "ite" [(c "lt" [(.b 0), (c "len" [(.v "my_state_data")])]), (c "getitem" [(.v "my_state_data"), (.b 0)]), (c "torch.empty" [(c "ite" [(c "any" [(c "for" [(.b 0), (.r 0), (c "eq" [(.b 0), (.int 0)])])]), (c "getitem" [(.r 1), (.int 1)]), (c ".shape" [(c "getitem" [(.v "my_state_data"), (.int 0)])])]), (c "kw" [(.str "device"), (.v "device")]), (c "kw" [(.str "dtype"), (c "ite" [(c "any" [(c "for" [(.b 0), (.r 0), (c "eq" [(.b 0), (.int 0)])])]), (c "getitem" [(.r 1), (.int 0)]), (c ".dtype" [(c "getitem" [(.v "my_state_data"), (.int 0)])])])])])]), (.v "process_group"), (.v "rank")]),
           (.ite (c "is" [.none, (.r 2)])
               .skip
               (.forEach 1 (c "enumerate" [(.r 2)])
                   (seqs [
                     (.ite (c "eq" [(c "len" [(c "getitem" [(c "getitem" [(c "getitem" [(.v "gathered_states"), (c "getitem" [(.b 1), (.int 0)])]), (.v "metric_name")]), (.v "state_name")])]), (.int 0)])
                         (.eff "store" [(c "getitem" [(c "getitem" [(c "getitem" [(.v "gathered_states"), (c "getitem" [(.b 1), (.int 0)])]), (.v "metric_name")]), (.v "state_name")]), (c0 "[]")])
                         .skip),
                     (.ite (c "lt" [(.b 0), (c "getitem" [(.r 0), (c "getitem" [(.b 1), (.int 0)])])])
                         (.eff "append" [(c "getitem" [(c "getitem" [(c "getitem" [(.v "gathered_states"), (c "getitem" [(.b 1), (.int 0)])]), (.v "metric_name")]), (.v "state_name")]), (c "getitem" [(.b 1), (.int 1)])])
                         .skip)])))]))])⟩

/-- `synclib._sync_dict_tensor_states` ↔ `syncDict`: `ks = sortKeys keys`, `syncList e (valuesByKeys kv ks)`, then `rezipAll e ks` on receiving members (`rezip` = `dict(zip(sorted_keys, …))` with the LOCAL keys). -/
def ex_sync_dict_tensor_states : FnSkel :=
  ⟨"synclib", "_sync_dict_tensor_states", ["metric_name", "state_name", "my_state_data", "device", "gathered_states", "process_group", "rank"], none,
   (seqs [
     (.eff "new" [(.loc 0), (c "for" [(.b 0), (c "sorted" [(c ".keys()" [(.v "my_state_data")])]), (c "getitem" [(.v "my_state_data"), (.b 0)])])]),
     -- syncDict: `syncList e (valuesByKeys kv ks) col`, `ks = sortKeys (kv.map (·.1))`
     (.call 0 "_sync_list_tensor_states" [(.v "metric_name"), (.v "state_name"), (.loc 0), (.v "device"), (.v "gathered_states"), (.v "process_group"), (.v "rank")]),
     (.ite (c "recv" [(.v "process_group"), (.v "rank")])
         (.forEach 0 (.v "gathered_states")
             (.eff "store" [(c "getitem" [(c "getitem" [(.b 0), (.v "metric_name")]), (.v "state_name")]), (c "dict" [(c "zip" [(c "sorted" [(c ".keys()" [(.v "my_state_data")])]), (c "getitem" [(c "getitem" [(.b 0), (.v "metric_name")]), (.v "state_name")])])])]))
         .skip)])⟩

/-- `synclib._sync_obj_states` ↔ `syncObj`: `dst = none` ⇒ `.allGatherObj o`, else `.gatherObj (toGlobal e d) (e.me == d) o`; `recvObjCol` / `finishObj` (`assignCol`). -/
def ex_sync_obj_states : FnSkel :=
  ⟨"synclib", "_sync_obj_states", ["metric_name", "state_name", "my_state_data", "gathered_states", "process_group", "rank"], none,
   (seqs [
     (.ite (c "is" [.none, (.v "rank")])
         -- syncObj, dst = none: `.coll (.allGatherObj o)`
         (.coll 0 .allGatherObj
             (payload := (.v "my_state_data"))
             (group := (.v "process_group"))
             (root := .none)
             (out := (c "ite" [(c "recv" [(.v "process_group"), (.v "rank")]), (c "repeat" [.none, (c "dist.get_world_size" [(.v "process_group")])]), .none])))
         -- syncObj, dst = some d: `.coll (.gatherObj gd (e.me == d) o)`, `gd = toGlobal e d`
         (.coll 1 .gatherObj
             (payload := (.v "my_state_data"))
             (group := (.v "process_group"))
             (root := (c "toGlobal" [(.v "process_group"), (.v "rank")]))
             (out := (c "ite" [(c "recv" [(.v "process_group"), (.v "rank")]), (c "repeat" [.none, (c "dist.get_world_size" [(.v "process_group")])]), .none])))),
     (.ite (c "recv" [(.v "process_group"), (.v "rank")])
         (.forEach 0 (c "enumerate" [(c "none_throws" [(c "ite" [(c "is" [.none, (.v "rank")]), (.r 0), (.r 1)])])])
             (.eff "store" [(c "getitem" [(c "getitem" [(c "getitem" [(.v "gathered_states"), (c "getitem" [(.b 0), (.int 0)])]), (.v "metric_name")]), (.v "state_name")]), (c "getitem" [(.b 0), (.int 1)])]))
         .skip)])⟩

/-- `synclib.sync_states` ↔ `syncFlat` / `syncCols` / `syncOne`: one column `List.replicate e.ws placeholder` per state in traversal order, dispatch on the state kind; `syncResult`: rows on receiving members (`e.recv`), `none` elsewhere. -/
def ex_sync_states : FnSkel :=
  ⟨"synclib", "sync_states", ["states", "devices", "metrics_traversal_order", "process_group", "rank"], none,
   (seqs [
     (.eff "new" [(.loc 0), (c "for" [(.b 0), (c "range" [(c "dist.get_world_size" [(.v "process_group")])]), (c "_get_empty_metric_state_collection" [(.v "metrics_traversal_order")])])]),
     (.forEach 0 (.loc 0)
         (.forEach 1 (.v "states")
             (.eff "ensure" [(.b 0), (.b 1), (c0 "{}")]))),
     (.forEach 0 (.v "metrics_traversal_order")
         (.ite (c "isinstance" [(c "getitem" [(c "getitem" [(.v "states"), (c "getitem" [(.b 0), (.int 0)])]), (c "getitem" [(.b 0), (.int 1)])]), (.fn "torch.Tensor")])
             -- syncOne, `.tensor t`: `syncTensor e t col`
             (.call 0 "_sync_tensor_states" [(c "getitem" [(.b 0), (.int 0)]), (c "getitem" [(.b 0), (.int 1)]), (c "getitem" [(c "getitem" [(.v "states"), (c "getitem" [(.b 0), (.int 0)])]), (c "getitem" [(.b 0), (.int 1)])]), (.loc 0), (.v "process_group"), (.v "rank")])
             (.ite (c "isinstance" [(c "getitem" [(c "getitem" [(.v "states"), (c "getitem" [(.b 0), (.int 0)])]), (c "getitem" [(.b 0), (.int 1)])]), (.fn "list")])
                 -- syncOne, `.list xs`: `syncList e xs col`
                 (.call 1 "_sync_list_tensor_states" [(c "getitem" [(.b 0), (.int 0)]), (c "getitem" [(.b 0), (.int 1)]), (c "getitem" [(c "getitem" [(.v "states"), (c "getitem" [(.b 0), (.int 0)])]), (c "getitem" [(.b 0), (.int 1)])]), (c "getitem" [(.v "devices"), (c "getitem" [(.b 0), (.int 0)])]), (.loc 0), (.v "process_group"), (.v "rank")])
                 (.ite (c "isinstance" [(c "getitem" [(c "getitem" [(.v "states"), (c "getitem" [(.b 0), (.int 0)])]), (c "getitem" [(.b 0), (.int 1)])]), (.fn "dict")])
                     -- syncOne, `.dict kv`: `syncDict e kv col`
                     (.call 2 "_sync_dict_tensor_states" [(c "getitem" [(.b 0), (.int 0)]), (c "getitem" [(.b 0), (.int 1)]), (c "getitem" [(c "getitem" [(.v "states"), (c "getitem" [(.b 0), (.int 0)])]), (c "getitem" [(.b 0), (.int 1)])]), (c "getitem" [(.v "devices"), (c "getitem" [(.b 0), (.int 0)])]), (.loc 0), (.v "process_group"), (.v "rank")])
                     (.ite (c "isinstance" [(c "getitem" [(c "getitem" [(.v "states"), (c "getitem" [(.b 0), (.int 0)])]), (c "getitem" [(.b 0), (.int 1)])]), (c "()" [(.fn "int"), (.fn "float")])])
                         -- syncOne, `.int` / `.float`: `syncObj e o col`
                         (.call 3 "_sync_obj_states" [(c "getitem" [(.b 0), (.int 0)]), (c "getitem" [(.b 0), (.int 1)]), (c "getitem" [(c "getitem" [(.v "states"), (c "getitem" [(.b 0), (.int 0)])]), (c "getitem" [(.b 0), (.int 1)])]), (.loc 0), (.v "process_group"), (.v "rank")])
                         (.raise "RuntimeError")))))),
     (.ret (c "ite" [(c "recv" [(.v "process_group"), (.v "rank")]), (.loc 0), .none]))])⟩

/-- `toolkit._sync_metric_object` ↔ the first half of `getSyncedMetric` / `getSyncedCollection`: `M.prep` on every metric BEFORE `M.sd`, `syncStates { e with dst := none }` over the whole collection, `rows.map (statesOf name)` = the pseudo-metrics. -/
def ex_sync_metric_object : FnSkel :=
  ⟨"toolkit", "_sync_metric_object", ["local_metric_data", "process_group", "world_size"], none,
   (seqs [
     (.forEach 0 (c ".values()" [(c "ite" [(c "isinstance" [(.v "local_metric_data"), (.fn "Metric")]), (c "{}" [(c "()" [(.str "tmp"), (.v "local_metric_data")])]), (.v "local_metric_data")])])
         (.eff "do" [(c "._prepare_for_merge_state()" [(.b 0)])])),
     (.eff "new" [(.loc 0), (c0 "{}")]),
     (.eff "new" [(.loc 1), (c0 "{}")]),
     (.forEach 0 (c ".items()" [(c "ite" [(c "isinstance" [(.v "local_metric_data"), (.fn "Metric")]), (c "{}" [(c "()" [(.str "tmp"), (.v "local_metric_data")])]), (.v "local_metric_data")])])
         (seqs [
           (.eff "store" [(c "getitem" [(.loc 0), (c "getitem" [(.b 0), (.int 0)])]), (c ".state_dict()" [(c "getitem" [(.b 0), (.int 1)])])]),
           (.ite (c "and" [(c "eq" [(c "dist.get_backend" [(.v "process_group")]), (.str "nccl")]), (c "eq" [(c ".type" [(c ".device" [(c "getitem" [(.b 0), (.int 1)])])]), (.str "cpu")])])
               (seqs [
                 (.eff "do" [(c "_apply_device_to_tensor_states" [(c "getitem" [(.loc 0), (c "getitem" [(.b 0), (.int 0)])]), (c0 "torch.cuda.current_device")])]),
                 (.eff "store" [(c "getitem" [(.loc 1), (c "getitem" [(.b 0), (.int 0)])]), (c0 "torch.cuda.current_device")])])
               (.eff "store" [(c "getitem" [(.loc 1), (c "getitem" [(.b 0), (.int 0)])]), (c ".device" [(c "getitem" [(.b 0), (.int 1)])])]))])),
     -- `syncStates { e with dst := none } …` (rank = None: every member receives)
     (.call 0 "sync_states" [(.loc 0), (.loc 1), (c "metrics_traversal_order" [(.loc 0)]), (.v "process_group"), .none]),
     (.ret (c "ite" [(c "isinstance" [(.v "local_metric_data"), (.fn "Metric")]), (c "for" [(.b 0), (c "none_throws" [(.r 0)]), (c "type" [(.str ""), (c0 "()"), (c "getitem" [(.b 0), (.str "tmp")])])]), (c "for" [(.b 0), (c "none_throws" [(.r 0)]), (c "dictof" [(c "for" [(.b 1), (c ".keys()" [(c "ite" [(c "isinstance" [(.v "local_metric_data"), (.fn "Metric")]), (c "{}" [(c "()" [(.str "tmp"), (.v "local_metric_data")])]), (.v "local_metric_data")])]), (c "()" [(.b 1), (c "type" [(.str ""), (c0 "()"), (c "getitem" [(.b 0), (.b 1)])])])])])])]))])⟩

/-- `toolkit.get_synced_metric` ↔ `getSyncedMetric`: `ws = if init then e.ws else 1`, `ws == 1` ⇒ the input; else merge into the (cloned) own metric `pick pseudo (othersIdx ws e.me)` — own index = GROUP rank, others ascending. -/
def ex_get_synced_metric : FnSkel :=
  ⟨"toolkit", "get_synced_metric", ["metric", "process_group"], none,
   (seqs [
     (.eff "do" [(c "_validate_rank_and_world_size" [(c "wsOr1" [(.v "process_group")])])]),
     (.ite (c "eq" [(c "wsOr1" [(.v "process_group")]), (.int 1)])
         (.ret (.v "metric"))
         (seqs [
           -- getSyncedMetric: prep, sd, syncStates, `statesOf tmpName`
           (.call 0 "_sync_metric_object" [(.v "metric"), (c "groupOrWorld" [(.v "process_group")]), (c "wsOr1" [(.v "process_group")])]),
           (.ret (c ".merge_state()" [(c ".to()" [(c "deepcopy" [(.v "metric")]), (c ".device" [(.v "metric")])]), (c "filtered" [(c "for" [(.b 0), (c "range" [(c "wsOr1" [(.v "process_group")])]), (c "getitem" [(.r 0), (.b 0)])]), (c "ne" [(.b 0), (c "meOr0" [(.v "process_group")])])])]))]))])⟩

/-- `toolkit.get_synced_metric_collection` ↔ `getSyncedCollection`: as above per key of the collection (insertion order kept for the result), own index `e.me` = `dist.get_rank(process_group)`. -/
def ex_get_synced_metric_collection : FnSkel :=
  ⟨"toolkit", "get_synced_metric_collection", ["metric_collection", "process_group"], none,
   (seqs [
     (.eff "do" [(c "_validate_rank_and_world_size" [(c "wsOr1" [(.v "process_group")])])]),
     (.ite (c "eq" [(c "wsOr1" [(.v "process_group")]), (.int 1)])
         (.ret (.v "metric_collection"))
         (seqs [
           -- getSyncedCollection: prep, sd, syncStates, `statesOf k`
           (.call 0 "_sync_metric_object" [(.v "metric_collection"), (c "groupOrWorld" [(.v "process_group")]), (c "wsOr1" [(.v "process_group")])]),
           (.ite (c "isinstance" [(c "getitem" [(.r 0), (.int 0)]), (.fn "MutableMapping")])
               (seqs [
                 (.eff "new" [(.loc 0), (c0 "{}")]),
                 (.forEach 0 (c ".keys()" [(.v "metric_collection")])
                     (.eff "store" [(c "getitem" [(.loc 0), (.b 0)]), (c ".merge_state()" [(c ".to()" [(c "deepcopy" [(c "getitem" [(.v "metric_collection"), (.b 0)])]), (c ".device" [(c "getitem" [(.v "metric_collection"), (.b 0)])])]), (c "filtered" [(c "for" [(.b 1), (c "range" [(c "wsOr1" [(.v "process_group")])]), (c "getitem" [(c "getitem" [(.r 0), (.b 1)]), (.b 0)])]), (c "ne" [(.b 1), (c "dist.get_rank" [(.v "process_group")])])])])])),
                 (.ret (.loc 0))])
               .skip)]))])⟩

/-- `toolkit.get_synced_state_dict` ↔ `get_synced_metric` then `state_dict()` (no model definition of its own: `M.sd` of the result). -/
def ex_get_synced_state_dict : FnSkel :=
  ⟨"toolkit", "get_synced_state_dict", ["metric", "process_group"], none,
   (seqs [
     -- getSyncedMetric
     (.call 0 "get_synced_metric" [(.v "metric"), (.v "process_group")]),
     (.ret (c "ite" [(.r 0), (c ".state_dict()" [(.r 0)]), (c0 "{}")]))])⟩

/-- `toolkit.get_synced_state_dict_collection` ↔ `get_synced_metric_collection` then `state_dict()` per entry. -/
def ex_get_synced_state_dict_collection : FnSkel :=
  ⟨"toolkit", "get_synced_state_dict_collection", ["metric_collection", "process_group"], none,
   (seqs [
     -- getSyncedCollection
     (.call 0 "get_synced_metric_collection" [(.v "metric_collection"), (.v "process_group")]),
     (.ret (c "dictof" [(c "for" [(.b 0), (c ".items()" [(.r 0)]), (c "()" [(c "getitem" [(.b 0), (.int 0)]), (c ".state_dict()" [(c "getitem" [(.b 0), (.int 1)])])])])]))])⟩

/-- `toolkit.sync_and_compute` ↔ `get_synced_metric` then `compute()` (the class models' `outA`). -/
def ex_sync_and_compute : FnSkel :=
  ⟨"toolkit", "sync_and_compute", ["metric", "process_group"], none,
   (seqs [
     -- getSyncedMetric
     (.call 0 "get_synced_metric" [(.v "metric"), (.v "process_group")]),
     (.ret (c ".compute()" [(.r 0)]))])⟩

/-- `toolkit.sync_and_compute_collection` ↔ `get_synced_metric_collection` then `compute()` per entry. -/
def ex_sync_and_compute_collection : FnSkel :=
  ⟨"toolkit", "sync_and_compute_collection", ["metrics", "process_group"], none,
   (seqs [
     -- getSyncedCollection
     (.call 0 "get_synced_metric_collection" [(.v "metrics"), (.v "process_group")]),
     (.ret (c "dictof" [(c "for" [(.b 0), (c ".items()" [(.r 0)]), (c "()" [(c "getitem" [(.b 0), (.int 0)]), (c ".compute()" [(c "getitem" [(.b 0), (.int 1)])])])])]))])⟩

/-- the skeleton the hand-written model follows, function by function -/
def expected : Table := [ex_simple_send_tensors, ex_send_uneven_tensors, ex_send_tensors, ex_metrics_traversal_order, ex_get_empty_metric_state_collection, ex_sync_tensor_states, ex_sync_dtype_and_shape, ex_sync_list_length, ex_sync_list_tensor_states, ex_sync_dict_tensor_states, ex_sync_obj_states, ex_sync_states, ex_sync_metric_object, ex_get_synced_metric, ex_get_synced_metric_collection, ex_get_synced_state_dict, ex_get_synced_state_dict_collection, ex_sync_and_compute, ex_sync_and_compute_collection]


end TE.SyncSkel
