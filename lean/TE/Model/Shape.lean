/-
  TE.Model.Shape — vocabulary of the GENERATED shape-check functions (C18).
  Import-free apart from TE.Model.Basic (core Lean only): compiled into the driver
  and reasoned about in TE/Props/C18.lean.

  A tensor argument is represented by its shape `Shp = List Nat` (0-dim = `[]`);
  an optional tensor argument (`Optional[Tensor]`, or `Tensor | float | int` where the
  check asks `isinstance(w, Tensor)`) by `Option Shp`.
  `int` parameters are `Int`, `Optional[int]` is `Option Int`, `str` is `String`,
  `Optional[str]` is `Option String`, `bool` is `Bool`; a `str | list[str]` argument is
  `Option Nat` (`none` = a single string, `some n` = a list of n strings).
  Conditions that depend on tensor VALUES (label ranges, probabilities in [0,1], dtypes,
  devices) or on `float` parameters are Boolean *oracle* parameters `o_k` of the generated
  function (the Python expression each one stands for is recorded beside it).

  Python's partial operations (`x.shape[i]`, `x.size(i)` with `i ≥ ndim`, `w.shape` on
  `None`, `n <= 0` on `None`) are total here (`size`, `shp`, `ival`), and every use is
  preceded in the generated code by its definedness test, which returns the error the
  Python expression would raise (`IndexError`, …): the default value is never observed.
-/
import TE.Model.Basic
namespace TE.Shape
open TE

abbrev Shp := List Nat

/-- outcome of a check helper: returns (`ok`) or raises. -/
inductive Res where
  | ok
  | err (e : Err)
deriving DecidableEq, Repr, Inhabited

/-- `a; b` : the second statement runs only when the first did not raise. -/
def Res.seq (a b : Res) : Res :=
  match a with
  | .ok => b
  | e => e

/-- `x.ndim`, `x.dim()`, `len(x.shape)` -/
def ndim (s : Shp) : Nat := s.length
/-- `x.shape[i]`, `x.size(i)` — only used under the guard `i < ndim x`. -/
def size (s : Shp) (i : Nat) : Nat := s.getD i 0
/-- `x.numel()`, `x.nelement()` -/
def numel (s : Shp) : Nat := s.foldr (· * ·) 1
/-- `w.shape` of an optional tensor — only used under the guard `w.isSome`. -/
def shp (o : Option Shp) : Shp := o.getD []
/-- value of an `Optional[int]` — only used under the guard `n.isSome`. -/
def ival (o : Option Int) : Int := o.getD 0
/-- `len(xs)` of a `str | list[str]` argument — only used under the guard `xs.isSome`. -/
def slen (o : Option Nat) : Nat := o.getD 0
/-- `x.unsqueeze(0)` -/
def unsqueeze0 (s : Shp) : Shp := 1 :: s
/-- Python truthiness of an `Optional[int]` (`if ignore_index:`) -/
def itruthy (o : Option Int) : Bool := o.isSome && o != some 0

/-- protocol arguments of a `chk.` / `valid.` / `gap.` driver request: raw `key ↦ token`.
    token syntax: `T2x3` tensor shape (`T` = 0-dim), `none`, `I-3` int, `Smacro` string,
    `Btrue` bool, `L3` list of 3 strings, `Lstr` a single string. -/
abbrev CallArgs := List (String × String)

namespace CallArgs
def raw (a : CallArgs) (k : String) : String := ((a.find? (·.1 = k)).map (·.2)).getD "none"
def parseShape (s : String) : Option Shp :=
  if s.startsWith "T" then
    let r := (s.drop 1).toString
    if r = "" then some [] else (r.splitOn "x").mapM String.toNat?
  else none
def oshape (a : CallArgs) (k : String) : Option Shp := parseShape (a.raw k)
def shape (a : CallArgs) (k : String) : Shp := (a.oshape k).getD []
def oint (a : CallArgs) (k : String) : Option Int :=
  let s := a.raw k
  if s.startsWith "I" then (s.drop 1).toString.toInt? else none
def int (a : CallArgs) (k : String) : Int := (a.oint k).getD 0
def ostr (a : CallArgs) (k : String) : Option String :=
  let s := a.raw k
  if s.startsWith "S" then some (s.drop 1).toString else none
def str (a : CallArgs) (k : String) : String := (a.ostr k).getD ""
def bool (a : CallArgs) (k : String) : Bool := a.raw k == "Btrue"
def seq (a : CallArgs) (k : String) : Option Nat :=
  let s := a.raw k
  if s.startsWith "L" then (s.drop 1).toString.toNat? else none
end CallArgs

def Res.tag : Res → String
  | .ok => "ok"
  | .err e => "err " ++ e.tag

end TE.Shape
