/-
  TE.Model.Curve — executable models of the threshold-curve functionals
  (AUROC, AUPRC, precision-recall curves, recall at fixed precision), following
  the code's algorithm: descending sort, `diff != 0` mask padded with `True`,
  cumulative (weighted) TP / FP, boolean-mask selection of the last element of
  every tie group, `masked_scatter_` right alignment, `trapz`, flips, the
  appended `(precision 1, recall 0)` point, `nan_to_num(1.0)`, Riemann sum,
  `max(recall[precision >= min_precision])`.
  Anchors: torcheval/metrics/functional/classification/{auroc,auprc,
  precision_recall_curve,recall_at_fixed_precision}.py, functional/tensor_utils.py
-/
import TE.Model.Basic
namespace TE.Curve
open TE

/-- one sample as the sorted pipelines see it: score, the mass it adds to
    `cum_tp`, the mass it adds to `cum_fp`. -/
structure Pt where
  s : Q
  a : Q
  b : Q
deriving DecidableEq, Repr, Inhabited

/-! ### torch primitives -/

/-- `input.sort(descending=True)` followed by the `gather`s: the samples ordered
    by non-increasing score (merge sort; which of several tied samples comes
    first is irrelevant — `TE.C05.auroc_any_sort`, `prCurve_any_sort`). -/
def sortDesc (l : List Pt) : List Pt := l.mergeSort fun x y => decide (y.s ≤ x.s)

/-- `F.pad(threshold.diff() != 0, [0, 1], value=1.0)`: position `i` is set iff the
    next score differs (last position: always) — the last element of every tie group. -/
def diffMask : List Q → List Bool
  | [] => []
  | [_] => [true]
  | x :: y :: r => (y - x != 0) :: diffMask (y :: r)

/-- `cumsum` with a running accumulator. -/
def cumsumFrom (acc : Q) : List Q → List Q
  | [] => []
  | x :: xs => (acc + x) :: cumsumFrom (acc + x) xs

def cumsum (l : List Q) : List Q := cumsumFrom 0 l

/-- boolean-mask indexing `x[mask]`. -/
def select {α : Type} : List Bool → List α → List α
  | m :: ms, x :: xs => if m then x :: select ms xs else select ms xs
  | _, _ => []

/-- `zeros(n).masked_scatter_(shifted_mask, v)` where `shifted_mask` marks the
    last `len(v)` positions: `v` right-aligned, zeros in front. -/
def padLeft (n : Nat) (v : List Q) : List Q := List.replicate (n - v.length) 0 ++ v

/-- `torch.trapz(y, x)` = Σ (x[i+1] − x[i])·(y[i] + y[i+1])/2. -/
def trapz : List Q → List Q → Q
  | y₀ :: y₁ :: ys, x₀ :: x₁ :: xs => (x₁ - x₀) * (y₀ + y₁) / 2 + trapz (y₁ :: ys) (x₁ :: xs)
  | _, _ => 0

/-- `tensor.mean()` (NaN for an empty tensor). -/
def meanX (l : List Q) : XQ := xdiv l.sum l.length

/-! ### AUROC -/

/-- `_binary_auroc_compute_jit` / one row of `_multiclass_auroc_compute` after the
    sort: mask, cumulative sums, masked scatter, `factor`, `where(factor == 0, 0.5, trapz / factor)`.
    Indexing `[-1]` of an empty tensor raises inside TorchScript (`RuntimeError`). -/
def aurocSorted (srt : List Pt) : Except Err Q :=
  let n := srt.length
  let mask := diffMask (srt.map (·.s))
  let cumTp := padLeft n (select mask (cumsum (srt.map (·.a))))
  let cumFp := padLeft n (select mask (cumsum (srt.map (·.b))))
  match cumTp.getLast?, cumFp.getLast? with
  | some tp, some fp =>
    let factor := tp * fp
    .ok (if factor = 0 then 1 / 2 else trapz cumTp cumFp / factor)
  | _, _ => .error .runtime

def aurocCore (l : List Pt) : Except Err Q := aurocSorted (sortDesc l)

/-- binary AUROC: `cum_tp` accumulates `weight * target`, `cum_fp` accumulates `weight * (1 - target)`. -/
def binPts (xs ts ws : List Q) : List Pt :=
  (xs.zip (ts.zip ws)).map fun p => ⟨p.1, p.2.2 * p.2.1, p.2.2 * (1 - p.2.1)⟩

def binaryAuroc (xs ts ws : List Q) : Except Err Q := aurocCore (binPts xs ts ws)

/-- `num_tasks > 1`: every row on its own. -/
def binaryAurocTasks (rows : List (List Q × List Q × List Q)) : Except Err (List Q) :=
  rows.mapM fun r => binaryAuroc r.1 r.2.1 r.2.2

/-- one-vs-rest samples of class `c` as `_multiclass_*_compute` forms them:
    `cmp = target[indices] == c`, `cum_tp = cmp.cumsum`, `cum_fp = (~cmp).cumsum`. -/
def ovrPts (c : Nat) (col labs : List Q) : List Pt :=
  (col.zip labs).map fun p => ⟨p.1, b2q (p.2 == (c : Q)), b2q (!(p.2 == (c : Q)))⟩

inductive Avg where | macro | none
deriving DecidableEq, Repr

/-- per-class values followed by the `average` option. -/
def averaged (avg : Avg) (per : List Q) : List XQ :=
  match avg with
  | .macro => [meanX per]
  | .none => per.map XQ.val

/-- `_multiclass_auroc_compute`; `cols` = `input.T` (one score column per class). -/
def multiclassAuroc (cols : List (List Q)) (labs : List Q) (avg : Avg) : Except Err (List XQ) := do
  let per ← cols.zipIdx.mapM fun cc => aurocCore (ovrPts cc.2 cc.1 labs)
  .ok (averaged avg per)

/-! ### precision-recall curves -/

structure PRC where
  precision  : List XQ
  recall     : List XQ
  thresholds : List Q
deriving DecidableEq, Repr

def nanTo1 : XQ → XQ
  | .nan => .val 1
  | x => x

/-- `_compute_for_each_class` after the sort. -/
def prCurveSorted (srt : List Pt) : Except Err PRC :=
  let thr := srt.map (·.s)
  let mask := diffMask thr
  let numTp := select mask (cumsum (srt.map (·.a)))
  let numFp := select mask (cumsum (srt.map (·.b)))
  match numTp.getLast? with
  | none => .error .runtime                       -- `num_tp[-1]` of an empty tensor
  | some P =>
    let precision := ((numTp.zip numFp).map fun p => xdiv p.1 (p.1 + p.2)).reverse ++ [.val 1]
    let recall := (numTp.map fun tp => xdiv tp P).reverse ++ [.val 0]
    let recall := if recall.head? == some .nan then recall.map nanTo1 else recall
    .ok ⟨precision, recall, (select mask thr).reverse⟩

/-- samples of `_compute_for_each_class(input, target, pos_label=1)`:
    `target == 1` counts as positive, everything else as negative. -/
def posPts (xs ts : List Q) : List Pt :=
  (xs.zip ts).map fun p => ⟨p.1, b2q (p.2 == 1), 1 - b2q (p.2 == 1)⟩

def binaryPrCurve (xs ts : List Q) : Except Err PRC := prCurveSorted (sortDesc (posPts xs ts))

/-- one row of the vectorised `_multiclass_precision_recall_curve_compute`:
    everything is flipped first, precision / recall are computed at *every*
    position, padded, and only then masked. -/
def mcPrCurveSorted (srt : List Pt) : Except Err PRC :=
  let thr := srt.map (·.s)
  let mask := (diffMask thr).reverse
  let numTp := (cumsum (srt.map (·.a))).reverse
  let numFp := (cumsum (srt.map (·.b))).reverse
  match numTp.head? with
  | none => .error .runtime
  | some P =>
    let precision := ((numTp.zip numFp).map fun p => xdiv p.1 (p.1 + p.2)) ++ [.val 1]
    let recall := (numTp.map fun tp => nanTo1 (xdiv tp P)) ++ [.val 0]
    let mask' := mask ++ [true]
    .ok ⟨select mask' precision, select mask' recall, select mask thr.reverse⟩

def multiclassPrCurve (cols : List (List Q)) (labs : List Q) : Except Err (List PRC) :=
  cols.zipIdx.mapM fun cc => mcPrCurveSorted (sortDesc (ovrPts cc.2 cc.1 labs))

/-- `_multilabel_precision_recall_curve_compute`: the binary routine on every label column. -/
def multilabelPrCurve (cols : List (List Q × List Q)) : Except Err (List PRC) :=
  cols.mapM fun c => binaryPrCurve c.1 c.2

/-! ### AUPRC -/

def xq? : XQ → Option Q
  | .val q => some q
  | _ => none

/-- all entries finite? (curve values always are: `TE.C05.prCurve_model_eq_spec`) -/
def allQ? : List XQ → Option (List Q)
  | [] => some []
  | x :: xs => match xq? x, allQ? xs with
    | some q, some qs => some (q :: qs)
    | _, _ => none

def riemannSum : List Q → List Q → Q
  | x₀ :: x₁ :: xs, y₀ :: ys => (x₁ - x₀) * y₀ + riemannSum (x₁ :: xs) ys
  | _, _ => 0

/-- `_riemann_integral(x, y) = -sum((x[1:] - x[:-1]) * y[:-1])` -/
def riemann (x y : List Q) : Q := -riemannSum x y

/-- `_riemann_integral(recall, precision)`; a non-finite entry would make the sum NaN. -/
def auprcOf (c : PRC) : XQ :=
  match allQ? c.recall, allQ? c.precision with
  | some r, some p => .val (riemann r p)
  | _, _ => .nan

def binaryAuprc (xs ts : List Q) : Except Err XQ := do
  let c ← binaryPrCurve xs ts
  .ok (auprcOf c)

def binaryAuprcTasks (rows : List (List Q × List Q)) : Except Err (List XQ) :=
  rows.mapM fun r => binaryAuprc r.1 r.2

/-- per-class values (possibly NaN) followed by the `average` option. -/
def averagedX (avg : Avg) (per : List XQ) : List XQ :=
  match avg with
  | .none => per
  | .macro => match allQ? per with
    | some qs => [meanX qs]
    | none => [.nan]

def multiclassAuprc (cols : List (List Q)) (labs : List Q) (avg : Avg) : Except Err (List XQ) := do
  let cs ← multiclassPrCurve cols labs
  .ok (averagedX avg (cs.map auprcOf))

def multilabelAuprc (cols : List (List Q × List Q)) (avg : Avg) : Except Err (List XQ) := do
  let cs ← multilabelPrCurve cols
  .ok (averagedX avg (cs.map auprcOf))

/-! ### recall at fixed precision -/

def qmax (a b : Q) : Q := if a < b then b else a
def qabs (a : Q) : Q := if a < 0 then -a else a

/-- `torch.max(v)`; raises for an empty tensor. -/
def listMax : List Q → Except Err Q
  | [] => .error .runtime
  | x :: xs => .ok (xs.foldl qmax x)

/-- `_recall_at_precision` -/
def recallAtPrecision (c : PRC) (minP : Q) : Except Err (XQ × XQ) :=
  match allQ? c.recall, allQ? c.precision with
  | some r, some p => do
    let maxR ← listMax (((r.zip p).filter fun rp => decide (minP ≤ rp.2)).map (·.1))
    let thr := c.thresholds ++ [-1]
    let best ← listMax (((thr.zip r).filter fun tr => tr.2 == maxR).map (·.1))
    .ok (.val maxR, .val (qabs best))
  | _, _ => .ok (.nan, .nan)

def binaryRecallAtPrecision (xs ts : List Q) (minP : Q) : Except Err (XQ × XQ) := do
  let c ← binaryPrCurve xs ts
  recallAtPrecision c minP

def multilabelRecallAtPrecision (cols : List (List Q × List Q)) (minP : Q) :
    Except Err (List (XQ × XQ)) := do
  let cs ← multilabelPrCurve cols
  cs.mapM fun c => recallAtPrecision c minP

end TE.Curve
