/-
  TE.Model.Sync — executable model of torcheval/metrics/synclib.py and of the
  sync part of toolkit.py (C02, C15).  Core Lean only.

  One rank's run of `sync_states` is a *resumption* `Prog`: it either is done, has
  crashed with a Python exception, or sits at a collective with a continuation that
  awaits the transport's answer.  `runWorld` steps all members of a process group in
  lock-step and fails when the members are not at compatible collectives — which is
  what real gloo turns into a hang or a process abort.

  The model follows the code literally:
    * synclib names members by their GROUP rank (`rank=`, `max(object_list)`); torch reads the
      root of a collective (`dst=` / `src=`) as a GLOBAL rank.  The code translates with
      `_to_global_rank(group, r)`, here `toGlobal e r = e.grp[r]`; `exchange` reads roots as torch does;
    * `sync_states` sizes its result by the size of the process group;
    * dict states are re-zipped with the LOCAL sorted keys (wrong when key sets differ — see the
      witness theorems of TE.Props.C15);
    * a list state that is empty on every rank is delivered as `[]` to the receiving ranks;
    * a metric without any registered state has an (empty) entry in every rank's gathered collection:
      no collective is issued for it and the toolkit merges empty pseudo-metrics.
-/
import TE.Model.Basic
namespace TE.Sync
open TE

/-! ### values -/

inductive DType where
  | f16 | bf16 | f32 | f64 | u8 | i8 | i16 | i32 | i64 | bool
deriving DecidableEq, Repr, Inhabited

/-- a tensor: dtype tag, N-d shape, row-major data (`data.length = shape.prod` for well-formed ones). -/
structure Tensor where
  dtype : DType
  shape : List Nat
  data  : List Q
deriving DecidableEq, Repr, Inhabited

def prod (s : List Nat) : Nat := s.foldr (· * ·) 1

def Tensor.WF (t : Tensor) : Prop := t.data.length = prod t.shape

/-- `TState = Union[Tensor, list[Tensor], dict[Any, Tensor], int, float]`.
    The placeholder `{}` that `_get_empty_metric_state_collection` puts into every slot
    is literally the empty dict: `.dict []`. -/
inductive TState where
  | tensor (t : Tensor)
  | list (ts : List Tensor)
  | dict (kv : List (String × Tensor))
  | int (n : Int)
  | float (q : Q)
deriving DecidableEq, Repr, Inhabited

def placeholder : TState := .dict []

/-- Python objects that travel through the object collectives. -/
inductive Obj where
  | none
  | int (n : Int)
  | float (q : Q)
  | dsh (d : DType) (shape : List Nat)       -- the tuple `(tensor.dtype, tensor.shape)`
deriving DecidableEq, Repr, Inhabited

/-! ### collectives -/

inductive Req where
  | allGather (t : Tensor)
  /-- `hasOut`: this rank passed a `gather_list` (it believes it is the destination). -/
  | gather (dst : Nat) (hasOut : Bool) (t : Tensor)
  | allGatherObj (o : Obj)
  | gatherObj (dst : Nat) (hasOut : Bool) (o : Obj)
  | broadcastObj (src : Nat) (o : Obj)
deriving DecidableEq, Repr, Inhabited

inductive Resp where
  | tensors (ts : List Tensor)
  | objs (os : List Obj)
  | obj (o : Obj)
  | unit
deriving DecidableEq, Repr, Inhabited

inductive Mismatch where
  | differentCollectives      -- members are at different kinds of collective
  | dtypeShapeDiffers         -- all_gather / gather with different dtype or shape across ranks
  | rootDiffers               -- members name different dst / src
  | rootNotInGroup            -- dst / src, read as a GLOBAL rank, is not a member
  | rootNotMeant              -- dst / src, read as a GLOBAL rank, is another member than the one the caller meant
  | peerFinished              -- a member returned while others wait at a collective
  | crashed (e : Err)         -- a member raised a Python exception
  | arity
deriving DecidableEq, Repr, Inhabited

/-- one rank's run: a resumption over collectives. -/
inductive Prog (R : Type) where
  | done (r : R)
  | fail (e : Err)
  | coll (req : Req) (k : Resp → Prog R)

namespace Prog
def bind {A B : Type} : Prog A → (A → Prog B) → Prog B
  | .done a, f => f a
  | .fail e, _ => .fail e
  | .coll q k, f => .coll q (fun r => (k r).bind f)
instance : Monad Prog where
  pure := .done
  bind := Prog.bind
end Prog

/-! ### the transport: one rendezvous -/

def tensorsOf : List Req → Option (List Tensor)
  | [] => some []
  | .allGather t :: rs => (tensorsOf rs).map (t :: ·)
  | _ :: _ => none

def gathersOf : List Req → Option (List (Nat × Bool × Tensor))
  | [] => some []
  | .gather d h t :: rs => (gathersOf rs).map ((d, h, t) :: ·)
  | _ :: _ => none

def objsOf : List Req → Option (List Obj)
  | [] => some []
  | .allGatherObj o :: rs => (objsOf rs).map (o :: ·)
  | _ :: _ => none

def gatherObjsOf : List Req → Option (List (Nat × Bool × Obj))
  | [] => some []
  | .gatherObj d h o :: rs => (gatherObjsOf rs).map ((d, h, o) :: ·)
  | _ :: _ => none

def bcastsOf : List Req → Option (List (Nat × Obj))
  | [] => some []
  | .broadcastObj s o :: rs => (bcastsOf rs).map ((s, o) :: ·)
  | _ :: _ => none

def sameSig (t0 : Tensor) (ts : List Tensor) : Bool :=
  ts.all fun t => t.dtype == t0.dtype && t.shape == t0.shape

/-- who is the root: `root` is read as a GLOBAL rank (torch semantics); the answer is its
    position in the group. `hasOuts[i]` says whether member `i` believes it is the root. -/
def rootCheck (group : List Nat) (root : Nat) (roots : List Nat) (believes : List Bool) : Except Mismatch Nat :=
  if !(roots.all (· == root)) then .error .rootDiffers
  else if !(group.contains root) then .error .rootNotInGroup
  else
    let gr := group.idxOf root
    if believes == (List.range believes.length).map (· == gr) then .ok gr else .error .rootNotMeant

/-- all members arrived with `reqs` (in group order): every member's answer, or the mismatch. -/
def exchange (group : List Nat) (reqs : List Req) : Except Mismatch (List Resp) :=
  match reqs with
  | [] => .ok []
  | .allGather t0 :: _ =>
    match tensorsOf reqs with
    | none => .error .differentCollectives
    | some ts => if sameSig t0 ts then .ok (ts.map fun _ => .tensors ts) else .error .dtypeShapeDiffers
  | .gather d _ t0 :: _ =>
    match gathersOf reqs with
    | none => .error .differentCollectives
    | some gs =>
      let ts := gs.map (·.2.2)
      if !(sameSig t0 ts) then .error .dtypeShapeDiffers else
      match rootCheck group d (gs.map (·.1)) (gs.map (·.2.1)) with
      | .error e => .error e
      | .ok gr => .ok ((List.range gs.length).map fun i => if i == gr then .tensors ts else .unit)
  | .allGatherObj _ :: _ =>
    match objsOf reqs with
    | none => .error .differentCollectives
    | some os => .ok (os.map fun _ => .objs os)
  | .gatherObj d _ _ :: _ =>
    match gatherObjsOf reqs with
    | none => .error .differentCollectives
    | some gs =>
      let os := gs.map (·.2.2)
      match rootCheck group d (gs.map (·.1)) (gs.map (·.2.1)) with
      | .error e => .error e
      | .ok gr => .ok ((List.range gs.length).map fun i => if i == gr then .objs os else .unit)
  | .broadcastObj s _ :: _ =>
    match bcastsOf reqs with
    | none => .error .differentCollectives
    | some bs =>
      -- the member that believes it is the source is the one holding a payload
      match rootCheck group s (bs.map (·.1)) (bs.map fun b => b.2 != .none) with
      | .error e => .error e
      | .ok gr =>
        match bs[gr]? with
        | some (_, o) => .ok (bs.map fun _ => .obj o)
        | none => .error .arity

/-! ### lock-step execution of a group -/

def dones {R : Type} : List (Prog R) → Option (List R)
  | [] => some []
  | .done r :: ps => (dones ps).map (r :: ·)
  | _ :: _ => none

/-- the requests of members that all sit at a collective. -/
def reqsOf {R : Type} : List (Prog R) → Option (List Req)
  | [] => some []
  | .coll q _ :: ps => (reqsOf ps).map (q :: ·)
  | _ :: _ => none

def firstFail {R : Type} : List (Prog R) → Option Err
  | [] => none
  | .fail e :: _ => some e
  | _ :: ps => firstFail ps

/-- the request a member sits at (`none`: returned or crashed). -/
def reqOf {R : Type} : Prog R → Option Req
  | .coll q _ => some q
  | _ => none

/-- hand a member the transport's answer. -/
def step {R : Type} : Prog R → Resp → Prog R
  | .coll _ k, r => k r
  | p, _ => p

def stepAll {R : Type} : List (Prog R) → List Resp → List (Prog R)
  | p :: ps, r :: rs => step p r :: stepAll ps rs
  | _ :: ps, [] => .fail .other :: stepAll ps []      -- no answer for a member: protocol error
  | [], _ => []

/-- why a world in which not all members are at a collective (resp. not all done) is stuck. -/
def stuck {R : Type} (ps : List (Prog R)) : Mismatch :=
  match firstFail ps with
  | some e => .crashed e
  | none => .peerFinished

/-- result of running a group: the rounds (each member's request per rendezvous, in group
    order; `none` for a member that is not at a collective) and the outcome. -/
structure Run (R : Type) where
  rounds : List (List (Option Req))
  out : Except Mismatch (List R)

/-- lock-step execution of `p :: ps` (members in group order; `group` = their global ranks).
    Structural on the first member's program. -/
def runWorld {R : Type} (group : List Nat) : Prog R → List (Prog R) → Run R
  | .done r, ps =>
    match dones ps with
    | some rs => ⟨[], .ok (r :: rs)⟩
    | none => ⟨[none :: ps.map reqOf], .error (stuck ps)⟩
  | .fail e, ps => ⟨[none :: ps.map reqOf], .error (.crashed e)⟩
  | .coll q k, ps =>
    match reqsOf ps with
    | none => ⟨[some q :: ps.map reqOf], .error (stuck ps)⟩
    | some qs =>
      match exchange group (q :: qs) with
      | .error e => ⟨[some q :: ps.map reqOf], .error e⟩
      | .ok [] => ⟨[some q :: ps.map reqOf], .error .arity⟩
      | .ok (r :: rs) =>
        let rest := runWorld group (k r) (stepAll ps rs)
        ⟨(some q :: ps.map reqOf) :: rest.rounds, rest.out⟩

def runWorldL {R : Type} (group : List Nat) : List (Prog R) → Run R
  | [] => ⟨[], .ok []⟩
  | p :: ps => runWorld group p ps

/-! ### tensors: shapes, pad, slice -/

/-- split `d` into `n` consecutive blocks of `k` elements. -/
def splitN : (n k : Nat) → List Q → List (List Q)
  | 0, _, _ => []
  | n + 1, k, d => d.take k :: splitN n k (d.drop k)

/-- `F.pad(t, (0, m_last - s_last, …, 0, m_0 - s_0))` on row-major data of shape `s`: zeros
    appended at the end of every dimension up to shape `m`. -/
def padTo : (s m : List Nat) → List Q → List Q
  | s0 :: s, m0 :: m, d =>
    ((splitN s0 (prod s) d).map (padTo s m)).flatten ++ List.replicate ((m0 - s0) * prod m) 0
  | _, _, d => d

/-- `t[:s_0, :s_1, …]` on row-major data of shape `m`. -/
def sliceTo : (m s : List Nat) → List Q → List Q
  | m0 :: m, s0 :: s, d =>
    (((splitN m0 (prod m) d).take s0).map (sliceTo m s)).flatten
  | _, _, d => d

def Tensor.pad (t : Tensor) (m : List Nat) : Tensor := ⟨t.dtype, m, padTo t.shape m t.data⟩
def Tensor.slice (t : Tensor) (s : List Nat) : Tensor := ⟨t.dtype, s, sliceTo t.shape s t.data⟩

/-- `torch.tensor(tensor.shape)`: an int64 vector. -/
def shapeTensor (t : Tensor) : Tensor := ⟨.i64, [t.shape.length], t.shape.map fun (n : Nat) => (n : Q)⟩
/-- reading a gathered shape vector back. -/
def shapeOf (t : Tensor) : List Nat := t.data.map fun q => q.num.toNat

/-- `stacked.max(dim=0).values` / `.min(dim=0).values` -/
def pmax : List (List Nat) → List Nat
  | [] => []
  | s :: ss => ss.foldl (List.zipWith max) s
def pmin : List (List Nat) → List Nat
  | [] => []
  | s :: ss => ss.foldl (List.zipWith min) s

/-! ### synclib, one rank -/

structure Env where
  me  : Nat           -- dist.get_rank(group)            (group-relative)
  ws  : Nat           -- dist.get_world_size(group)
  grp : List Nat      -- the members' GLOBAL ranks in group order (`range(world)` for `group=None`)
  dst : Option Nat    -- the `rank` argument             (group-relative: compared with `me`)
  junk : Q            -- what `torch.empty` happens to contain
deriving Repr, Inhabited

/-- `_to_global_rank(group, r)`: `r` for the default group, else `dist.get_global_rank(group, r)`
    (which raises `ValueError` for a number that is no group rank: `none`). -/
def toGlobal (e : Env) (r : Nat) : Option Nat := e.grp[r]?

/-- `rank is None or dist.get_rank(group) == rank`: this member receives. -/
def Env.recv (e : Env) : Bool :=
  match e.dst with
  | none => true
  | some d => e.me == d

/-- what a tensor collective hands back to the caller -/
def recvTensors : Resp → Prog (Option (List Tensor))
  | .tensors ts => .done (some ts)
  | .unit => .done none                               -- non-destination rank of a `gather`
  | _ => .fail .other

/-- `_simple_send_tensors` -/
def simpleSend (e : Env) (dst : Option Nat) (t : Tensor) : Prog (Option (List Tensor)) :=
  match dst with
  | none => .coll (.allGather t) recvTensors
  | some d =>
    match toGlobal e d with
    | some gd => .coll (.gather gd (e.me == d) t) recvTensors     -- `dst=_to_global_rank(group, rank)`
    | none => .fail .value

/-- the trimming loop of `_send_uneven_tensors` (`if gathered_result:`). -/
def trimK (shapes : List (List Nat)) : Option (List Tensor) → Prog (Option (List Tensor))
  | none => .done none
  | some ts => .done (some (List.zipWith Tensor.slice ts shapes))

/-- `_send_uneven_tensors` after the shapes have been gathered. -/
def sendUnevenK (e : Env) (t : Tensor) : Option (List Tensor) → Prog (Option (List Tensor))
  | none => .fail .assertion                          -- `assert local_sizes is not None`
  | some sizes =>
    let shapes := sizes.map shapeOf
    let mx := pmax shapes
    if mx == pmin shapes then simpleSend e e.dst t
    else (simpleSend e e.dst (t.pad mx)).bind (trimK shapes)

/-- `_send_uneven_tensors` -/
def sendUneven (e : Env) (t : Tensor) : Prog (Option (List Tensor)) :=
  (simpleSend e none (shapeTensor t)).bind (sendUnevenK e t)

/-- `send_tensors` (inside an initialised process group) -/
def sendTensors (e : Env) (t : Tensor) : Prog (Option (List Tensor)) :=
  if t.shape.length == 0 then simpleSend e e.dst t else sendUneven e t

/-- overwrite the leading cells of a column (`gathered_states[i][m][s] = v` for `i, v in enumerate(vals)`). -/
def assignCol : List TState → List TState → List TState
  | _ :: col, v :: vs => v :: assignCol col vs
  | col, _ => col

def syncTensorK (col : List TState) : Option (List Tensor) → Prog (List TState)
  | none => .done col
  | some ts => if ts.length > col.length then .fail .index else .done (assignCol col (ts.map .tensor))

/-- `_sync_tensor_states` on the column of this state. -/
def syncTensor (e : Env) (t : Tensor) (col : List TState) : Prog (List TState) :=
  (sendTensors e t).bind (syncTensorK col)

def objInt : Obj → Option Int
  | .int n => some n
  | _ => none

def recvObjs : Resp → Prog (List Obj)
  | .objs os => .done os
  | _ => .fail .other

/-- `dist.all_gather_object(lst, o)`; answers the list. -/
def allGatherObj (o : Obj) : Prog (List Obj) := .coll (.allGatherObj o) recvObjs

/-- `dtype, shape = object_list[0]` -/
def recvDtypeShape : Resp → Prog (Option (DType × List Nat))
  | .obj (.dsh d s) => .done (some (d, s))
  | .obj _ => .fail .type                             -- `dtype, shape = None`
  | _ => .fail .other

/-- `rank_with_dtype = my_rank if tensor is not None else -1` -/
def rankOrMinus1 (e : Env) (t : Option Tensor) : Int :=
  match t with | some _ => (e.me : Int) | none => -1

/-- `[(tensor.dtype, tensor.shape)]` on the chosen rank, `[None]` elsewhere. -/
def dtypePayload (e : Env) (t : Option Tensor) (mx : Int) : Obj :=
  match t with
  | some x => if (e.me : Int) == mx then .dsh x.dtype x.shape else .none
  | none => .none

/-- `_sync_dtype_and_shape` after the `all_gather_object` of `rank_or_-1`. -/
def syncDtypeShapeK (e : Env) (t : Option Tensor) (os : List Obj) : Prog (Option (DType × List Nat)) :=
  match os.mapM objInt with
  | none => .fail .type
  | some rs =>
    let mx := rs.foldl max (-1)                      -- `max(object_list)`; the own entry makes the list non-empty
    if mx == -1 then .done none
    else
      -- `src=_to_global_rank(process_group, rank_with_dtype)`
      match toGlobal e mx.toNat with
      | some gs => .coll (.broadcastObj gs (dtypePayload e t mx)) recvDtypeShape
      | none => .fail .value

/-- `_sync_dtype_and_shape` -/
def syncDtypeShape (e : Env) (t : Option Tensor) : Prog (Option (DType × List Nat)) :=
  (allGatherObj (Obj.int (rankOrMinus1 e t))).bind (syncDtypeShapeK e t)

def listCell : TState → List Tensor
  | .list l => l
  | _ => []

/-- one `(_rank, state_tensor)` step of the inner loop of `_sync_list_tensor_states`. -/
def updCell (i : Nat) (cell : TState) (st : Tensor) (len : Nat) : TState :=
  .list (if i < len then listCell cell ++ [st] else listCell cell)

def appendRound (i : Nat) : List TState → List Tensor → List Nat → List TState
  | c :: col, t :: ts, l :: lens => updCell i c t l :: appendRound i col ts lens
  | col, _, _ => col

def dummy (e : Env) (d : DType) (s : List Nat) : Tensor := ⟨d, s, List.replicate (prod s) e.junk⟩

/-- `_generate_dummy_tensor(...) if i >= len(my_state_data) else my_state_data[i]` -/
def roundTensor (e : Env) (xs : List Tensor) (d : DType) (s : List Nat) (i : Nat) : Tensor :=
  match xs[i]? with | some x => x | none => dummy e d s

/-- the body of round `i` after `send_tensors` returned. -/
def roundK (lens : List Nat) (i : Nat) (col : List TState) : Option (List Tensor) → Except Err (List TState)
  | none => .ok col
  | some ts => if ts.length > col.length then .error .index else .ok (appendRound i col ts lens)

def liftE {R : Type} : Except Err R → Prog R
  | .ok r => .done r
  | .error e => .fail e

/-- the `for i in range(max_length)` loop. -/
def listRounds (e : Env) (xs : List Tensor) (lens : List Nat) (d : DType) (s : List Nat) :
    List Nat → List TState → Prog (List TState)
  | [], col => .done col
  | i :: is, col =>
    (sendTensors e (roundTensor e xs d s i)).bind fun r =>
      (liftE (roundK lens i col r)).bind (listRounds e xs lens d s is)

def objNat : Obj → Option Nat
  | .int n => if 0 ≤ n then some n.toNat else none
  | _ => none

/-- all rounds, once dtype and shape of the dummies are known. -/
def listGo (e : Env) (xs : List Tensor) (col : List TState) (lens : List Nat) (d : DType) (s : List Nat) :
    Prog (List TState) :=
  listRounds e xs lens d s (List.range (lens.foldl max 0)) col

def syncListDS (e : Env) (xs : List Tensor) (col : List TState) (lens : List Nat) :
    Option (DType × List Nat) → Prog (List TState)
  | none =>                                           -- every rank is empty: receiving ranks get `[]`
    .done (if e.recv then col.map fun _ => TState.list [] else col)
  | some (d, s) => listGo e xs col lens d s

/-- `_sync_list_tensor_states` after the lengths have been gathered. -/
def syncListK (e : Env) (xs : List Tensor) (col : List TState) (os : List Obj) : Prog (List TState) :=
  match os.mapM objNat with
  | none => .fail .type
  | some lens =>
    if lens.any (· == 0) then
      (syncDtypeShape e xs.head?).bind (syncListDS e xs col lens)
    else
      match xs with
      | x :: _ => listGo e xs col lens x.dtype x.shape
      | [] => .fail .index                            -- unreachable: own length is in `lens`

/-- `_sync_list_tensor_states` -/
def syncList (e : Env) (xs : List Tensor) (col : List TState) : Prog (List TState) :=
  (allGatherObj (Obj.int (xs.length : Int))).bind (syncListK e xs col)

/-- insertion sort of keys (`sorted(d.keys())`) -/
def insertKey (k : String) : List String → List String
  | [] => [k]
  | a :: as => if k ≤ a then k :: a :: as else a :: insertKey k as
def sortKeys (ks : List String) : List String := ks.foldr insertKey []

def lookupKey {α : Type} (k : String) : List (String × α) → Option α
  | [] => none
  | (a, v) :: rest => if a == k then some v else lookupKey k rest

/-- `[my_state_data[key] for key in sorted_keys]` -/
def valuesByKeys {α : Type} (kv : List (String × α)) (ks : List String) : List α :=
  ks.filterMap fun k => lookupKey k kv

/-- `dict(zip(sorted_keys, tensor_list))`; a later duplicate key would win, keys here are distinct. -/
def rezip (ks : List String) (cell : TState) : TState :=
  .dict (List.zip ks (listCell cell))

/-- the re-zipping loop at the end of `_sync_dict_tensor_states` (receiving ranks only). -/
def rezipAll (e : Env) (ks : List String) (col : List TState) : List TState :=
  if e.recv then col.map (rezip ks) else col

/-- `_sync_dict_tensor_states` -/
def syncDict (e : Env) (kv : List (String × Tensor)) (col : List TState) : Prog (List TState) :=
  let ks := sortKeys (kv.map (·.1))
  (syncList e (valuesByKeys kv ks) col).bind fun col' => .done (rezipAll e ks col')

def objState : Obj → TState
  | .int n => .int n
  | .float q => .float q
  | _ => placeholder

def finishObj (col : List TState) (os : List Obj) : Prog (List TState) :=
  if os.length > col.length then .fail .index else .done (assignCol col (os.map objState))

def recvObjCol (col : List TState) : Resp → Prog (List TState)
  | .objs os => finishObj col os
  | .unit => .done col                                -- non-destination rank of `gather_object`
  | _ => .fail .other

/-- `_sync_obj_states` -/
def syncObj (e : Env) (o : Obj) (col : List TState) : Prog (List TState) :=
  match e.dst with
  | none => .coll (.allGatherObj o) (recvObjCol col)
  | some d =>
    match toGlobal e d with
    | some gd => .coll (.gatherObj gd (e.me == d) o) (recvObjCol col)   -- `dst=_to_global_rank(process_group, rank)`
    | none => .fail .value

/-- one state of the traversal: its column of `gathered_states`. -/
def syncOne (e : Env) (st : TState) : Prog (List TState) :=
  let col := List.replicate e.ws placeholder          -- `range(dist.get_world_size(process_group))`
  match st with
  | .tensor t => syncTensor e t col
  | .list xs => syncList e xs col
  | .dict kv => syncDict e kv col
  | .int n => syncObj e (Obj.int n) col
  | .float q => syncObj e (Obj.float q) col

abbrev Key := String × String     -- (metric name, state name)

/-- the columns of all states, in traversal order. -/
def syncCols (e : Env) : List (Key × TState) → Prog (List (List TState))
  | [] => .done []
  | (_, st) :: rest => (syncOne e st).bind fun c => (syncCols e rest).bind fun cs => .done (c :: cs)

/-- row `i` of a list of columns -/
def rowOf (keys : List Key) (cols : List (List TState)) (i : Nat) : List (Key × TState) :=
  List.zipWith (fun k c => (k, match c[i]? with | some v => v | none => placeholder)) keys cols

/-- `return gathered_states` on receiving ranks, `None` elsewhere. -/
def syncResult (e : Env) (keys : List Key) (cols : List (List TState)) : Option (List (List (Key × TState))) :=
  let res := (List.range e.ws).map (rowOf keys cols)
  if e.recv then some res else none

/-- `sync_states` on an already flattened state collection (traversal order given):
    `None` on non-destination ranks, else one state collection per member of the group. -/
def syncFlat (e : Env) (entries : List (Key × TState)) : Prog (Option (List (List (Key × TState)))) :=
  (syncCols e entries).bind fun cols => .done (syncResult e (entries.map (·.1)) cols)

/-- `metrics_traversal_order`: sorted metric names, then sorted state names. -/
def traversal (sd : List (String × List (String × TState))) : List (Key × TState) :=
  (sortKeys (sd.map (·.1))).flatMap fun m =>
    match lookupKey m sd with
    | none => []
    | some inner => (sortKeys (inner.map (·.1))).filterMap fun s =>
        (lookupKey s inner).map fun v => ((m, s), v)

/-- `sync_states(states, devices, metrics_traversal_order(states), process_group, rank)` -/
def syncStates (e : Env) (sd : List (String × List (String × TState))) :=
  syncFlat e (traversal sd)

/-! ### toolkit -/

/-- what the toolkit needs of a metric: `_prepare_for_merge_state`, `state_dict`, and
    `merge_state` over pseudo-metrics (objects whose attributes are exactly a state dict). -/
structure MetricI (S : Type) where
  prep : S → S
  sd   : S → List (String × TState)
  mrg  : S → List (List (String × TState)) → Except Err S

def tmpName : String := "tmp"

def statesOf (m : String) (row : List (Key × TState)) : List (String × TState) :=
  row.filterMap fun kv => if kv.1.1 == m then some (kv.1.2, kv.2) else none

/-- all `j < n`, `j ≠ me`, ascending -/
def othersIdx (n me : Nat) : List Nat := (List.range n).filter (· != me)

def pick {α : Type} (xs : List α) (is : List Nat) : List α := is.filterMap (xs[·]?)

/-- `get_synced_metric(metric, process_group)`; `init = dist.is_available() and dist.is_initialized()`.
    The world-size-1 / uninitialised short-circuit returns the input object itself. -/
def getSyncedMetric {S : Type} (M : MetricI S) (init : Bool) (e : Env) (s : S) : Prog S :=
  let ws := if init then e.ws else 1
  if ws == 1 then .done s
  else if ws < 1 then .fail .runtime
  else
    let s' := M.prep s
    (syncStates { e with dst := none } [(tmpName, M.sd s')]).bind fun r =>
      match r with
      | none => .fail .assertion                      -- none_throws
      | some rows =>
        -- `rank_data[_TMP]`: `sync_states` gives every metric of `states` a slot in every rank's
        -- collection (`setdefault(metric_name, {})`), so a metric without any registered state is
        -- gathered as the empty state dict (`statesOf` of a row without entries for it)
        let pseudo := rows.map (statesOf tmpName)
        liftE (M.mrg s' (pick pseudo (othersIdx ws e.me)))

/-- `get_synced_metric_collection` on a dict of metrics (insertion order kept). -/
def getSyncedCollection {S : Type} (M : MetricI S) (init : Bool) (e : Env) (ms : List (String × S)) :
    Prog (List (String × S)) :=
  let ws := if init then e.ws else 1
  if ws == 1 then .done ms
  else if ws < 1 then .fail .runtime
  else
    let ms' := ms.map fun (k, s) => (k, M.prep s)
    (syncStates { e with dst := none } (ms'.map fun (k, s) => (k, M.sd s))).bind fun r =>
      match r with
      | none => .fail .assertion
      | some rows =>
        let merged := ms'.mapM fun (k, s) =>
          (M.mrg s (pick (rows.map (statesOf k)) (othersIdx ws e.me))).map fun s' => (k, s')
        liftE merged

/-- `send_tensors` as called by a user (checks initialisation first). -/
def sendTensorsTop (init : Bool) (e : Env) (t : Tensor) : Prog (Option (List Tensor)) :=
  if init then sendTensors e t else .done (some [t])

end TE.Sync
