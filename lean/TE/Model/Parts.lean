/-
  TE.Model.Parts — the accumulator of all sufficient-statistic classes: a list
  of rational vectors ("parts": num_tp, num_fp, …) under zero-padding pointwise
  addition.  `[]` is the identity, so (Parts, ppadd, []) is a genuine
  commutative monoid (no length side-conditions).  A freshly constructed
  torcheval metric holds `zeros(C)` instead of `[]`; `compute` models pad with
  zeros, so the two are observationally the same.
-/
import TE.Model.ClassSM
namespace TE

def padd : List Q → List Q → List Q
  | [], b => b
  | a, [] => a
  | x :: a, y :: b => (x + y) :: padd a b

abbrev Parts := List (List Q)

def ppadd : Parts → Parts → Parts
  | [], b => b
  | a, [] => a
  | x :: a, y :: b => padd x y :: ppadd a b

def partsAcc : Acc Parts := ⟨[], ppadd⟩

/-- i-th part padded with zeros to length n. -/
def part (p : Parts) (i n : Nat) : List Q :=
  let v := p.getD i []
  v ++ List.replicate (n - v.length) 0

/-- scalar part -/
def part0 (p : Parts) (i : Nat) : Q := (p.getD i []).getD 0 0

/-- list accumulator (cache-all and order-carrying classes). -/
def listAcc (α : Type) : Acc (List α) := ⟨[], (· ++ ·)⟩

end TE
