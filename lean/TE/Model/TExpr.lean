/-
  TE.Model.TExpr — a small deep embedding of the tensor-expression language in which the numeric kernels of
  the count-based classification metrics are written (torcheval/metrics/functional/classification/
  {accuracy,precision,recall,f1_score,confusion_matrix}.py), and its evaluator.

  `harness/translators/kernels.py` walks the Python AST of every kernel of /repo's working tree and emits one
  closed `TExpr` per kernel into `TE/Gen/Kernels.lean` (regenerated on every run).  `TE/Props/C04_Kernels.lean`
  proves, for all inputs, that evaluating the GENERATED term gives the hand-written model of
  `TE/Model/Count.lean`; `TE/Driver/Kernels.lean` runs the generated terms against the real kernels.

  Conventions
  * tensors have rank ≤ 2 with explicit constructors (`scalar`, `vec`, `mat` = list of rows); a `(0, C)` matrix
    is `mat []` (its column count is not recorded — no kernel reads it).
  * elements are `XQ` (exact rationals + NaN / ±inf): the compute kernels really produce NaN (`0/0`) and test
    for it (`isnan`, `nan_to_num`).  Storage dtypes are NOT modelled: `.long()`, `.float()`, `.type(...)`,
    `.to(...)` are identities on rationals and are dropped by the translator; `bool` tensors are `0/1` tensors.
  * `nan_to_num` maps `nan ↦ 0` and keeps `±inf` (torch substitutes the largest finite float of the dtype; the
    theorems exclude infinities by hypothesis, the kernel stream never produces one).  Signed zeros are not
    modelled.
  * errors: where torch raises (shape mismatch in an elementwise op, scatter / gather / COO index out of range,
    boolean-mask shape mismatch, reduction over an empty dimension) `eval` returns the error.  When several
    sub-terms fail, the error reported is that of the first in term order, which may differ from Python's
    statement order.
  * the semantics of the torch primitives themselves (first-index `argmax`, `scatter_(reduce="add")`,
    broadcasting) is the trusted base here, as in TE/Model/Count.lean, whose primitives are reused.
-/
import TE.Model.Basic
import TE.Model.Count
namespace TE.TX
open TE

/-! ## extended rationals -/

def b2x (b : Bool) : XQ := .val (if b then 1 else 0)

def xneg : XQ → XQ
  | .val a => .val (-a) | .nan => .nan | .pinf => .ninf | .ninf => .pinf

def xadd : XQ → XQ → XQ
  | .val a, .val b => .val (a + b)
  | .nan, _ => .nan
  | _, .nan => .nan
  | .pinf, .ninf => .nan
  | .ninf, .pinf => .nan
  | .pinf, _ => .pinf
  | _, .pinf => .pinf
  | .ninf, _ => .ninf
  | _, .ninf => .ninf

def xsub (a b : XQ) : XQ := xadd a (xneg b)

/-- `±inf` times a rational. -/
def infMul (pos : Bool) (a : Q) : XQ :=
  if a = 0 then .nan else if (0 < a) = pos then .pinf else .ninf

def xmul : XQ → XQ → XQ
  | .val a, .val b => .val (a * b)
  | .nan, _ => .nan
  | _, .nan => .nan
  | .val a, .pinf => infMul true a
  | .val a, .ninf => infMul false a
  | .pinf, .val a => infMul true a
  | .ninf, .val a => infMul false a
  | .pinf, .pinf => .pinf
  | .ninf, .ninf => .pinf
  | .pinf, .ninf => .ninf
  | .ninf, .pinf => .ninf

/-- torch division; `val / val` is `TE.xdiv`. -/
def xdivX : XQ → XQ → XQ
  | .val a, .val b => xdiv a b
  | .nan, _ => .nan
  | _, .nan => .nan
  | .val _, .pinf => .val 0
  | .val _, .ninf => .val 0
  | .pinf, .val b => if b < 0 then .ninf else .pinf
  | .ninf, .val b => if b < 0 then .pinf else .ninf
  | .pinf, .pinf => .nan
  | .pinf, .ninf => .nan
  | .ninf, .pinf => .nan
  | .ninf, .ninf => .nan

def xlt : XQ → XQ → Bool
  | .val a, .val b => decide (a < b)
  | .nan, _ => false
  | _, .nan => false
  | .ninf, .ninf => false
  | .ninf, _ => true
  | _, .ninf => false
  | .pinf, _ => false
  | _, .pinf => true

def xeq : XQ → XQ → Bool
  | .val a, .val b => a == b
  | .pinf, .pinf => true
  | .ninf, .ninf => true
  | _, _ => false

def xisNan : XQ → Bool
  | .nan => true | _ => false

inductive CmpOp where | lt | gt | le | ge | eq | ne
deriving DecidableEq, Repr

inductive ArOp where | add | sub | mul | div
deriving DecidableEq, Repr

def xcmp : CmpOp → XQ → XQ → Bool
  | .lt, a, b => xlt a b
  | .gt, a, b => xlt b a
  | .le, a, b => xlt a b || xeq a b
  | .ge, a, b => xlt b a || xeq a b
  | .eq, a, b => xeq a b
  | .ne, a, b => !(xeq a b)

def xarith : ArOp → XQ → XQ → XQ
  | .add => xadd | .sub => xsub | .mul => xmul | .div => xdivX

/-- truthiness of an element (`bool(tensor(nan))` is `True`). -/
def xtruthy (x : XQ) : Bool := !(xeq x (.val 0))

def xsum (l : List XQ) : XQ := l.foldl xadd (.val 0)

/-- `max` with NaN propagation. -/
def xmax (a b : XQ) : XQ := if xisNan a || xisNan b then .nan else if xlt a b then b else a

/-- natural-number view of an index element. -/
def xnat? : XQ → Option Nat
  | .val q => if q.den = 1 ∧ 0 ≤ q.num then some q.num.toNat else none
  | _ => none

def xabs : XQ → XQ
  | .val a => .val (Count.absQ a) | .nan => .nan | .pinf => .pinf | .ninf => .pinf

/-! ## values -/

inductive Val where
  | scalar (x : XQ)                 -- 0-d tensor
  | vec (l : List XQ)               -- 1-d tensor
  | mat (rows : List (List XQ))     -- 2-d tensor, row major
  | int (i : Int)                   -- Python int
  | num (q : Q)                     -- Python float
  | bool (b : Bool)                 -- Python bool
  | str (s : String)                -- Python str
  | none                            -- Python None
  | pair (a b : Val)                -- Python tuple (right nested)
deriving Repr, Inhabited

abbrev Env := List (String × Val)

/-- tensor view of a value; Python numbers are 0-d. -/
inductive TV where
  | s (x : XQ) | v (l : List XQ) | m (rows : List (List XQ))

def Val.toTV : Val → Except Err TV
  | .scalar x => .ok (.s x)
  | .vec l => .ok (.v l)
  | .mat r => .ok (.m r)
  | .int i => .ok (.s (.val (i : Q)))
  | .num q => .ok (.s (.val q))
  | .bool b => .ok (.s (b2x b))
  | .str _ => .error .type
  | .none => .error .type
  | .pair _ _ => .error .type

def TV.toVal : TV → Val
  | .s x => .scalar x | .v l => .vec l | .m r => .mat r

/-- broadcasting zip of two 1-d extents (equal lengths, or one of them 1). -/
def bzip (f : XQ → XQ → XQ) (a b : List XQ) : Except Err (List XQ) :=
  if a.length = b.length then .ok (List.zipWith f a b)
  else match a, b with
    | [x], _ => .ok (b.map (f x))
    | _, [y] => .ok (a.map (f · y))
    | _, _ => .error .runtime

/-- all-or-first-error over a list of row results. -/
def seqE {α : Type} : List (Except Err α) → Except Err (List α)
  | [] => .ok []
  | x :: xs => match x, seqE xs with
    | .ok a, .ok as => .ok (a :: as)
    | .error e, _ => .error e
    | .ok _, .error e => .error e

def bzipM (f : XQ → XQ → XQ) (a b : List (List XQ)) : Except Err (List (List XQ)) :=
  if a.length = b.length then seqE (List.zipWith (bzip f) a b)
  else match a, b with
    | [r], _ => seqE (b.map (bzip f r))
    | _, [r] => seqE (a.map (bzip f · r))
    | _, _ => .error .runtime

def tvBop (f : XQ → XQ → XQ) : TV → TV → Except Err TV
  | .s x, .s y => .ok (.s (f x y))
  | .s x, .v b => .ok (.v (b.map (f x)))
  | .v a, .s y => .ok (.v (a.map (f · y)))
  | .s x, .m b => .ok (.m (b.map fun r => r.map (f x)))
  | .m a, .s y => .ok (.m (a.map fun r => r.map (f · y)))
  | .v a, .v b => (bzip f a b).map .v
  | .m a, .m b => (bzipM f a b).map .m
  | .v a, .m b => (bzipM f [a] b).map .m
  | .m a, .v b => (bzipM f a [b]).map .m

/-- elementwise binary operation with torch broadcasting (rank ≤ 2). -/
def bop (f : XQ → XQ → XQ) (a b : Val) : Except Err Val := do
  let x ← a.toTV
  let y ← b.toTV
  (tvBop f x y).map TV.toVal

def tvMap (f : XQ → XQ) : TV → TV
  | .s x => .s (f x) | .v l => .v (l.map f) | .m r => .m (r.map fun row => row.map f)

def uop (f : XQ → XQ) (a : Val) : Except Err Val := do
  let x ← a.toTV
  pure (tvMap f x).toVal

/-- Python number as an element. -/
def Val.asElem : Val → Except Err XQ
  | .scalar x => .ok x
  | .int i => .ok (.val (i : Q))
  | .num q => .ok (.val q)
  | .bool b => .ok (b2x b)
  | _ => .error .other

/-- `torch.where(c, a, b)` with 0-d `a`, `b` (the only form the translator emits). -/
def whereV (c a b : Val) : Except Err Val := do
  let x ← a.asElem
  let y ← b.asElem
  uop (fun m => if xtruthy m then x else y) c

def sumV : Val → Except Err Val
  | .scalar x => .ok (.scalar x)
  | .vec l => .ok (.scalar (xsum l))
  | .mat r => .ok (.scalar (xsum r.flatten))
  | _ => .error .type

/-- `.sum(dim=-1)` -/
def sumLastV : Val → Except Err Val
  | .scalar x => .ok (.scalar x)
  | .vec l => .ok (.scalar (xsum l))
  | .mat r => .ok (.vec (r.map xsum))
  | _ => .error .type

/-- `.mean()`: NaN for an empty tensor. -/
def xmean (l : List XQ) : XQ := xdivX (xsum l) (.val (l.length : Q))

def meanV : Val → Except Err Val
  | .scalar x => .ok (.scalar x)
  | .vec l => .ok (.scalar (xmean l))
  | .mat r => .ok (.scalar (xmean r.flatten))
  | _ => .error .type

def anyV : Val → Except Err Val
  | .scalar x => .ok (.scalar (b2x (xtruthy x)))
  | .vec l => .ok (.scalar (b2x (l.any xtruthy)))
  | .mat r => .ok (.scalar (b2x (r.flatten.any xtruthy)))
  | _ => .error .type

/-- `torch.all(x, dim=1)` -/
def allDim1V : Val → Except Err Val
  | .mat r => .ok (.vec (r.map fun row => b2x (row.all xtruthy)))
  | .scalar _ => .error .index
  | .vec _ => .error .index
  | _ => .error .type

def rowMax : List XQ → Except Err XQ
  | [] => .error .index
  | x :: xs => .ok (xs.foldl xmax x)

/-- `x.max(dim=1)[0]` -/
def maxDim1V : Val → Except Err Val
  | .mat r => (seqE (r.map rowMax)).map .vec
  | .scalar _ => .error .index
  | .vec _ => .error .index
  | _ => .error .type

/-- first maximal index of a row (`torch.argmax`); `IndexError` for an empty row.  NaN entries are outside
    the model (torch treats NaN as maximal). -/
def xargmaxGo : List XQ → Nat → Nat → XQ → Nat
  | [], _, best, _ => best
  | x :: xs, i, best, bv => if xlt bv x then xargmaxGo xs (i + 1) i x else xargmaxGo xs (i + 1) best bv

def rowArgmax : List XQ → Except Err XQ
  | [] => .error .index
  | x :: xs => .ok (.val ((xargmaxGo xs 1 0 x : Nat) : Q))

/-- `torch.argmax(x, dim=1)` -/
def argmax1V : Val → Except Err Val
  | .mat r => (seqE (r.map rowArgmax)).map .vec
  | .scalar _ => .error .index
  | .vec _ => .error .index
  | _ => .error .type

def idxList (l : List XQ) : Except Err (List Nat) :=
  seqE (l.map fun x => match xnat? x with | some n => .ok n | none => .error .runtime)

def gatherRow (row idx : List XQ) : Except Err (List XQ) := do
  let js ← idxList idx
  seqE (js.map fun j => match row[j]? with | some x => .ok x | none => .error .runtime)

/-- `torch.gather(a, dim=-1, index=idx)` for 2-d `a`, `idx`. -/
def gatherLastV : Val → Val → Except Err Val
  | .mat a, .mat idx =>
    if idx.length ≤ a.length then (seqE (List.zipWith gatherRow a idx)).map .mat else .error .runtime
  | .vec a, .vec idx => (gatherRow a idx).map .vec
  | _, _ => .error .runtime

/-- `x.unsqueeze(dim=-1)` -/
def unsqueezeLastV : Val → Except Err Val
  | .scalar x => .ok (.vec [x])
  | .vec l => .ok (.mat (l.map fun x => [x]))
  | _ => .error .other

/-- boolean-mask indexing `x[mask]` of a 1-d tensor. -/
def maskSelV : Val → Val → Except Err Val
  | .vec a, .vec m =>
    if a.length = m.length then .ok (.vec (((a.zip m).filter fun p => xtruthy p.2).map (·.1)))
    else .error .index
  | _, _ => .error .index

/-- one step of `scatter_(0, idx, v, reduce="add")` on extended rationals. -/
def xbump (acc : List XQ) (i : Nat) (v : XQ) : List XQ := acc.modify i (xadd · v)

def xscatterAdd (n : Nat) (idx : List Nat) (vals : List XQ) : Except Err (List XQ) :=
  if idx.all (· < n) then
    .ok ((idx.zip vals).foldl (fun a p => xbump a p.1 p.2) (List.replicate n (.val 0)))
  else .error .runtime

def sizeOf? : Val → Except Err Nat
  | .int i => if 0 ≤ i then .ok i.toNat else .error .runtime
  | _ => .error .type

/-- `t.new_zeros(n).scatter_(0, idx, src, reduce="add")`: `src` a 1-d tensor with at least as many
    entries as `idx`, or a Python number. -/
def scatterAddV (n idx src : Val) : Except Err Val := do
  let n ← sizeOf? n
  match idx with
  | .vec il => do
    let js ← idxList il
    match src with
    | .vec sl => if js.length ≤ sl.length then (xscatterAdd n js sl).map .vec else .error .runtime
    | s => do
      let x ← s.asElem
      (xscatterAdd n js (js.map fun _ => x)).map .vec
  | _ => .error .runtime

def xnanToNum : XQ → XQ
  | .nan => .val 0 | x => x

/-- `torch.inner` of two 1-d tensors. -/
def innerV : Val → Val → Except Err Val
  | .vec a, .vec b =>
    if a.length = b.length then .ok (.scalar (xsum (List.zipWith xmul a b))) else .error .runtime
  | _, _ => .error .runtime

def onesLikeV : Val → Except Err Val
  | .scalar _ => .ok (.scalar (.val 1))
  | .vec l => .ok (.vec (l.map fun _ => .val 1))
  | .mat r => .ok (.mat (r.map fun row => row.map fun _ => .val 1))
  | _ => .error .type

/-- `torch.sparse_coo_tensor(vstack((r, c)), v, Size([n, m])).to_dense()`: duplicates accumulate; `vstack` of
    different lengths is a `RuntimeError`.  An index outside the size is modelled as the `RuntimeError` torch
    raises when it validates sparse indices; the torch build of this sandbox does NOT validate them and
    `to_dense()` then writes out of bounds (memory safety is C14's subject) — the kernel stream never feeds such
    an index to the real kernel, the public functions reject it in their input check. -/
def cooDenseV (r c v n m : Val) : Except Err Val := do
  let n ← sizeOf? n
  let m ← sizeOf? m
  match r, c, v with
  | .vec rl, .vec cl, .vec vl => do
    if rl.length ≠ cl.length ∨ rl.length ≠ vl.length then throw .runtime
    let ri ← idxList rl
    let ci ← idxList cl
    if ri.all (· < n) && ci.all (· < m) then
      pure (.mat (((ri.zip ci).zip vl).foldl
        (fun acc p => acc.modify p.1.1 (fun row => xbump row p.1.2 p.2))
        (List.replicate n (List.replicate m (.val 0)))))
    else throw .runtime
  | _, _, _ => throw .runtime

/-- the clamp of `torch.nn.functional.normalize` -/
def normEps : Q := 1 / 1000000000000

/-- `normalize(p=1)` of one fibre: `v / max(‖v‖₁, 1e-12)`. -/
def xl1normalize (v : List XQ) : List XQ :=
  let s := xsum (v.map xabs)
  let d := if xlt s (.val normEps) then .val normEps else s
  v.map fun x => xdivX x d

def xtranspose (m : List (List XQ)) (cols : Nat) : List (List XQ) :=
  (List.range cols).map fun j => m.map fun row => row.getD j (.val 0)

/-- `torch.nn.functional.normalize(x, p=1, dim=d)` of a 2-d tensor. -/
def l1normV (x dim : Val) : Except Err Val :=
  match x, dim with
  | .mat r, .int 1 => .ok (.mat (r.map xl1normalize))
  | .mat r, .int 0 =>
    let cols := (r.headD []).length
    .ok (.mat (xtranspose ((xtranspose r cols).map xl1normalize) r.length))
  | _, _ => .error .other

def ndimV : Val → Except Err Val
  | .scalar _ => .ok (.int 0) | .vec _ => .ok (.int 1) | .mat _ => .ok (.int 2) | _ => .error .type

/-- `x.shape[0]` -/
def shape0V : Val → Except Err Val
  | .vec l => .ok (.int l.length) | .mat r => .ok (.int r.length)
  | .scalar _ => .error .index | _ => .error .type

def numelV : Val → Except Err Val
  | .scalar _ => .ok (.int 1) | .vec l => .ok (.int l.length)
  | .mat r => .ok (.int r.flatten.length) | _ => .error .type

/-- `torch.tensor(<python number>)` / `t.new_tensor(<python number>)` -/
def tensorOfV (a : Val) : Except Err Val := do
  let x ← a.asElem
  pure (.scalar x)

/-- Python `==` on configuration values. -/
def pyEqV : Val → Val → Except Err Val
  | .int a, .int b => .ok (.bool (a == b))
  | .num a, .num b => .ok (.bool (a == b))
  | .int a, .num b => .ok (.bool ((a : Q) == b))
  | .num a, .int b => .ok (.bool (a == (b : Q)))
  | .str a, .str b => .ok (.bool (a == b))
  | .bool a, .bool b => .ok (.bool (a == b))
  | .none, .none => .ok (.bool true)
  | .scalar _, _ => .error .other
  | .vec _, _ => .error .other
  | .mat _, _ => .error .other
  | .pair _ _, _ => .error .other
  | _, .scalar _ => .error .other
  | _, .vec _ => .error .other
  | _, .mat _ => .error .other
  | _, .pair _ _ => .error .other
  | _, _ => .ok (.bool false)

def isStrV : Val → Val
  | .str _ => .bool true | _ => .bool false

def isIntV : Val → Val
  | .int _ => .bool true | _ => .bool false

def asBool : Val → Except Err Bool
  | .bool b => .ok b | _ => .error .other

/-- truthiness of a one-element tensor (`if t:`) -/
def truthT : Val → Except Err Bool
  | .scalar x => .ok (xtruthy x)
  | .vec [x] => .ok (xtruthy x)
  | .mat [[x]] => .ok (xtruthy x)
  | .bool b => .ok b
  | _ => .error .runtime

/-! ## primitives of the aggregation / regression / ranking kernels (C07, C08) -/

def xsign : XQ → XQ
  | .val a => .val (if a < 0 then -1 else if a = 0 then 0 else 1)
  | .nan => .nan | .pinf => .val 1 | .ninf => .val (-1)

/-- `x.clamp(min=lo)` (NaN stays NaN) -/
def xclampMin (lo x : XQ) : XQ := if xlt x lo then lo else x

/-- `torch.trapz(y, x)` of one row: `Σ (x[i+1] − x[i])·(y[i] + y[i+1]) / 2` -/
def xtrapz : List XQ → List XQ → XQ
  | x0 :: x1 :: xs, y0 :: y1 :: ys =>
    xadd (xdivX (xmul (xsub x1 x0) (xadd y0 y1)) (.val 2)) (xtrapz (x1 :: xs) (y1 :: ys))
  | _, _ => .val 0

/-- `torch.trapz(y, x)` along the last dimension, equal shapes (a mismatch that torch would broadcast is outside
    the model: `RuntimeError`). -/
def trapzV : Val → Val → Except Err Val
  | .vec y, .vec x => if y.length = x.length then .ok (.scalar (xtrapz x y)) else .error .runtime
  | .mat y, .mat x =>
    if y.length = x.length && (List.zipWith (fun (a b : List XQ) => a.length == b.length) y x).all id then
      .ok (.vec (List.zipWith xtrapz x y))
    else .error .runtime
  | _, _ => .error .runtime

/-- `.sum(dim=0)`: a `(0, C)` matrix is `mat []`, its column count is not recorded (result `vec []`). -/
def sumDim0V : Val → Except Err Val
  | .scalar x => .ok (.scalar x)
  | .vec l => .ok (.scalar (xsum l))
  | .mat r => .ok (.vec ((List.range (r.headD []).length).map fun j => xsum (r.map fun row => row.getD j (.val 0))))
  | _ => .error .type

/-- `.squeeze()` -/
def squeezeV : Val → Except Err Val
  | .scalar x => .ok (.scalar x)
  | .vec l => .ok (if l.length = 1 then .scalar (l.headD (.val 0)) else .vec l)
  | .mat rows =>
    .ok (if rows.length = 1 then
        (if (rows.headD []).length = 1 then .scalar ((rows.headD []).headD (.val 0)) else .vec (rows.headD []))
      else if rows.all (fun r => r.length == 1) then .vec (rows.map fun r => r.headD (.val 0))
      else .mat rows)
  | _ => .error .type

/-- `.unsqueeze(0)` / `.view(1, -1)` of a 1-d tensor -/
def unsqueeze0V : Val → Except Err Val
  | .scalar x => .ok (.vec [x])
  | .vec l => .ok (.mat [l])
  | _ => .error .other

/-- `x.size(-1)` -/
def sizeLastV : Val → Except Err Val
  | .vec l => .ok (.int l.length) | .mat r => .ok (.int (r.headD []).length)
  | .scalar _ => .error .index | _ => .error .type

def shapeOf : Val → Except Err (List Nat)
  | .scalar _ => .ok [] | .vec l => .ok [l.length] | .mat r => .ok [r.length, (r.headD []).length]
  | _ => .error .other

/-- `a.size() == b.size()` -/
def sameSizeV (a b : Val) : Except Err Val := do
  let x ← shapeOf a
  let y ← shapeOf b
  pure (.bool (x == y))

def isFloatV : Val → Val
  | .num _ => .bool true | _ => .bool false

def isTensorV : Val → Val
  | .scalar _ => .bool true | .vec _ => .bool true | .mat _ => .bool true | _ => .bool false

def isNoneV : Val → Val
  | .none => .bool true | _ => .bool false

/-- Python `<`, `<=`, … on numbers (`None` operand: `TypeError`). -/
def pyCmpV (op : CmpOp) : Val → Val → Except Err Val
  | .none, _ => .error .type
  | _, .none => .error .type
  | a, b => do
    let x ← a.asElem
    let y ← b.asElem
    pure (.bool (xcmp op x y))

def fstV : Val → Except Err Val
  | .pair a _ => .ok a | _ => .error .other

def sndV : Val → Except Err Val
  | .pair _ b => .ok b | _ => .error .other

/-- `a[mask] = v` (same shapes; `v` a Python number) -/
def maskedFillV (a m v : Val) : Except Err Val := do
  let x ← v.asElem
  let sa ← shapeOf a
  let sm ← shapeOf m
  if sa == sm then bop (fun p q => if xtruthy q then x else p) a m else .error .index

/-- `x.repeat_interleave(n, dim=0)` of a 2-d tensor -/
def repeatRowsV : Val → Val → Except Err Val
  | .mat r, .int n => if 0 ≤ n then .ok (.mat (r.flatMap fun row => List.replicate n.toNat row)) else .error .runtime
  | _, _ => .error .other

/-- `.view(-1)` -/
def flattenV : Val → Except Err Val
  | .scalar x => .ok (.vec [x]) | .vec l => .ok (.vec l) | .mat r => .ok (.vec r.flatten)
  | _ => .error .type

/-- `≤` on elements (NaN is outside the model: torch sorts NaN last). -/
def xle (a b : XQ) : Bool := xlt a b || xeq a b

/-- insert before the first element that is not smaller (keeps equal keys in arrival order) -/
def xinsertBy (a : XQ × Nat) : List (XQ × Nat) → List (XQ × Nat)
  | [] => [a]
  | b :: l => if xle a.1 b.1 then a :: b :: l else b :: xinsertBy a l

/-- stable ascending insertion sort of (value, source index) pairs -/
def xisort : List (XQ × Nat) → List (XQ × Nat)
  | [] => []
  | a :: l => xinsertBy a (xisort l)

/-- `torch.sort(x, stable=True)` of one row: sorted values paired with their source indices -/
def xargsortStable (l : List XQ) : List (XQ × Nat) := xisort (l.zip (List.range l.length))

/-- `torch.sort(x, dim=-1, stable=True)`: the pair (values, indices) -/
def sortStableV : Val → Except Err Val
  | .vec l => let s := xargsortStable l; .ok (.pair (.vec (s.map (·.1))) (.vec (s.map fun p => .val ((p.2 : Nat) : Q))))
  | .mat r =>
    let s := r.map xargsortStable
    .ok (.pair (.mat (s.map fun row => row.map (·.1))) (.mat (s.map fun row => row.map fun p => .val ((p.2 : Nat) : Q))))
  | .scalar _ => .error .index
  | _ => .error .type

/-! ## primitives of the curve kernels (C05) -/

/-- `input.sort(descending=True)` of one row: merge sort (stable) by non-increasing value, with source indices.  torch
    leaves the order of tied scores unspecified; the kernels' results do not depend on it (TE/Props/C05). -/
def xargsortDesc (l : List XQ) : List (XQ × Nat) :=
  (l.zip (List.range l.length)).mergeSort fun x y => xle y.1 x.1

def sortDescV : Val → Except Err Val
  | .vec l => let s := xargsortDesc l; .ok (.pair (.vec (s.map (·.1))) (.vec (s.map fun p => .val ((p.2 : Nat) : Q))))
  | .scalar _ => .error .index
  | _ => .error .other

/-- `torch.diff` of one row -/
def xdiff : List XQ → List XQ
  | a :: b :: l => xsub b a :: xdiff (b :: l)
  | _ => []

def xcumsumFrom (acc : XQ) : List XQ → List XQ
  | [] => []
  | x :: xs => xadd acc x :: xcumsumFrom (xadd acc x) xs

/-- 1-d tensor operations -/
def vecOp (f : List XQ → List XQ) : Val → Except Err Val
  | .vec l => .ok (.vec (f l))
  | _ => .error .other

/-- `x[0]` / `x[-1]` of a 1-d tensor (`IndexError` when empty) -/
def firstV : Val → Except Err Val
  | .vec (x :: _) => .ok (.scalar x)
  | _ => .error .index

def lastV : Val → Except Err Val
  | .vec l => match l.getLast? with | some x => .ok (.scalar x) | none => .error .index
  | _ => .error .index

/-- `torch.cat([a, b])` of 1-d tensors -/
def catV : Val → Val → Except Err Val
  | .vec a, .vec b => .ok (.vec (a ++ b))
  | _, _ => .error .runtime

/-- `t.new_ones(n)` / `t.new_zeros(n)` / `torch.full` -/
def fullV (n v : Val) : Except Err Val := do
  let k ← sizeOf? n
  let x ← v.asElem
  pure (.vec (List.replicate k x))

/-- `torch.nan_to_num(x, v)` -/
def xnanTo (v : XQ) : XQ → XQ
  | .nan => v | x => x

/-- `torch.arange(n, 0, -1)` -/
def arangeDownV : Val → Except Err Val
  | .int n => if 0 ≤ n then .ok (.vec ((List.range n.toNat).map fun i => .val (((n.toNat - i : Nat) : Nat) : Q))) else .error .runtime
  | _ => .error .type

def zerosLikeV : Val → Except Err Val
  | .scalar _ => .ok (.scalar (.val 0))
  | .vec l => .ok (.vec (l.map fun _ => .val 0))
  | .mat r => .ok (.mat (r.map fun row => row.map fun _ => .val 0))
  | _ => .error .type

/-- `a.masked_scatter_(mask, src)` on one row: the positions where `mask` holds take the elements of `src` in order
    (`RuntimeError` when `src` has too few) -/
def xmaskedScatter : List XQ → List XQ → List XQ → Except Err (List XQ)
  | [], _, _ => .ok []
  | a :: as, m :: ms, src =>
    if xtruthy m then
      match src with
      | [] => .error .runtime
      | s :: ss => (xmaskedScatter as ms ss).map (s :: ·)
    else (xmaskedScatter as ms src).map (a :: ·)
  | _ :: _, [], _ => .error .runtime

def maskedScatterV : Val → Val → Val → Except Err Val
  | .vec a, .vec m, .vec src => if a.length = m.length then (xmaskedScatter a m src).map .vec else .error .runtime
  | _, _, _ => .error .other

/-- `torch.where(c, x, b)` with a Python number `x` and a tensor `b` -/
def whereTV (c a b : Val) : Except Err Val := do
  let x ← a.asElem
  bop (fun m y => if xtruthy m then x else y) c b

/-- inside a TorchScript function an out-of-range index is a `RuntimeError` -/
def scriptedE : Except Err Val → Except Err Val
  | .error .index => .error .runtime
  | r => r

/-- `torch.max(x)` of a whole tensor (`RuntimeError` when it has no element) -/
def maxAllV : Val → Except Err Val
  | .scalar x => .ok (.scalar x)
  | .vec [] => .error .runtime
  | .vec (x :: xs) => .ok (.scalar (xs.foldl xmax x))
  | .mat r => match r.flatten with
    | [] => .error .runtime
    | x :: xs => .ok (.scalar (xs.foldl xmax x))
  | _ => .error .type

/-! ## primitives of the binned curve kernels (C06) -/

/-- `torch.searchsorted(t, x, right=True)` for one value on a sorted row: the first index `i` with `x < t[i]` -/
def xsearchsortedRight : List XQ → XQ → Nat
  | [], _ => 0
  | u :: t, x => if xlt x u then 0 else xsearchsortedRight t x + 1

def searchsortedRV : Val → Val → Except Err Val
  | .vec t, .vec x => .ok (.vec (x.map fun v => .val ((xsearchsortedRight t v : Nat) : Q)))
  | .vec t, .scalar v => .ok (.scalar (.val ((xsearchsortedRight t v : Nat) : Q)))
  | _, _ => .error .runtime

/-- does `v` fall into bin `k` of `torch.histc(·, bins=b, min=0, max=b)` (unit width; the value `b` itself, = `max`, falls
    into the last bin; everything outside `[0, b]`, NaN and ±inf are ignored) -/
def xhistHit (bins k : Nat) : XQ → Bool
  | .val q => q.floor == (k : Int) || (k + 1 == bins && q == (bins : Q))
  | _ => false

/-- `torch.histc(a, bins=b, min=0, max=b)`; `bins = 0` raises -/
def histcUnitV (a b : Val) : Except Err Val := do
  let e ← b.asElem
  match a, xnat? e with
  | .vec l, some bins =>
    if bins = 0 then .error .runtime
    else .ok (.vec ((List.range bins).map fun k => .val ((l.countP (xhistHit bins k) : Nat) : Q)))
  | _, _ => .error .runtime

/-- `a.reshape((r, c))` of a 1-d tensor -/
def reshape2V (a r c : Val) : Except Err Val := do
  let x ← r.asElem
  let y ← c.asElem
  match a, xnat? x, xnat? y with
  | .vec l, some rows, some cols =>
    if l.length = rows * cols then
      .ok (.mat ((List.range rows).map fun i => (List.range cols).map fun j => l.getD (i * cols + j) (.val 0)))
    else .error .runtime
  | _, _, _ => .error .runtime

/-- `.T` of a 2-d tensor -/
def transposeV : Val → Except Err Val
  | .mat m => .ok (.mat (xtranspose m (m.headD []).length))
  | _ => .error .other

/-- an operation on every row of a 2-d tensor (`flip(dims=(1,))`, `cumsum(dim=1)`) -/
def rowsOp (f : List XQ → List XQ) : Val → Except Err Val
  | .mat m => .ok (.mat (m.map f))
  | _ => .error .index

/-- `a[i]` of a 2-d tensor, `i ≥ 0` -/
def rowAtV : Val → Int → Except Err Val
  | .mat m, i => if 0 ≤ i then match m[i.toNat]? with | some r => .ok (.vec r) | none => .error .index else .error .other
  | _, _ => .error .index

/-- `a[i, :]` of a 2-d tensor with a Python integer `i ≥ 0` (a loop index) -/
def rowDynV : Val → Val → Except Err Val
  | .mat m, .int i => if 0 ≤ i then match m[i.toNat]? with | some r => .ok (.vec r) | none => .error .index else .error .other
  | _, _ => .error .other

/-- `torch.tensor([v₀, v₁, …])` of the 0-d results of a Python-level loop -/
def collectV (l : List Val) : Except Err Val := do
  let xs ← seqE (l.map Val.asElem)
  pure (.vec xs)

/-! ## expressions -/

inductive TExpr where
  | var (x : String)
  | int (i : Int) | flt (q : Q) | str (s : String) | none | bool (b : Bool)
  | pyEq (a b : TExpr) | isStr (a : TExpr) | isInt (a : TExpr)
  | pyAnd (a b : TExpr) | pyOr (a b : TExpr) | pyNot (a : TExpr)
  | ite (c a b : TExpr)              -- Python-level condition on configuration
  | iteT (c a b : TExpr)             -- `if <one-element tensor>:`
  | assert (c body : TExpr)
  | ndim (a : TExpr) | shape0 (a : TExpr) | numel (a : TExpr)
  | tensorOf (a : TExpr)
  | cmp (op : CmpOp) (a b : TExpr)
  | arith (op : ArOp) (a b : TExpr)
  | land (a b : TExpr) | lor (a b : TExpr) | lnot (a : TExpr)   -- on 0/1 masks
  | band (a b : TExpr)                                        -- `&` on integer tensors
  | where_ (c a b : TExpr)
  | sum (a : TExpr) | sumLast (a : TExpr) | mean (a : TExpr) | any (a : TExpr)
  | allDim1 (a : TExpr) | maxDim1 (a : TExpr)
  | argmax1 (a : TExpr) | gatherLast (a idx : TExpr) | unsqueezeLast (a : TExpr)
  | maskSel (a m : TExpr)
  | scatterAdd (n idx src : TExpr)
  | nanToNum (a : TExpr) | isnan (a : TExpr) | inner (a b : TExpr)
  | onesLike (a : TExpr)
  | cooDense (r c v n m : TExpr)
  | l1norm (a dim : TExpr)
  | pair (a b : TExpr)
  -- aggregation / regression / ranking kernels (C07, C08)
  | isFloat (a : TExpr) | isTensor (a : TExpr) | isNone (a : TExpr)
  | sameSize (a b : TExpr)
  | pyCmp (op : CmpOp) (a b : TExpr)                          -- Python numbers
  | raise_ (e : Err)
  | fst (a : TExpr) | snd (a : TExpr)
  | sumDim0 (a : TExpr) | squeeze (a : TExpr) | unsqueeze0 (a : TExpr) | sizeLast (a : TExpr)
  | sign (a : TExpr) | abs (a : TExpr) | clampMin (a lo : TExpr)
  | emptyVec
  | trapz (y x : TExpr)
  | maskedFill (a m v : TExpr)
  | repeatRows (a n : TExpr) | flatten (a : TExpr)
  | ufun (name : String) (a : TExpr)                           -- uninterpreted function (`log10`): no value
  | unsupported (reason : String)                              -- a branch outside the grammar (partial kernels)
  | sortStable (a : TExpr)                                     -- `torch.sort(a, dim=-1, stable=True)`: (values, indices)
  -- curve kernels (C05)
  | sortDesc (a : TExpr)                                       -- `a.sort(descending=True)` of a 1-d tensor: (values, indices)
  | diff (a : TExpr) | cumsum (a : TExpr) | flip (a : TExpr) | dropFirst (a : TExpr) | dropLast (a : TExpr)   -- 1-d
  | padRight (a v : TExpr)                                     -- `F.pad(a, [0, 1], value=v)`
  | first (a : TExpr) | last (a : TExpr)
  | cat (a b : TExpr) | full (n v : TExpr)
  | nanToNumTo (a v : TExpr) | neg (a : TExpr)
  | scripted (body : TExpr)                                    -- body of a `@torch.jit.script` function that indexes
  | arangeDown (n : TExpr) | zerosLike (a : TExpr) | maskedScatter (a m src : TExpr) | whereT (c a b : TExpr)
  -- call of ANOTHER generated kernel (cross-module helper): the arguments are evaluated in the caller's environment, the
  -- callee's term in the fresh environment that binds exactly its parameters
  | call1 (p : String) (a : TExpr) (body : TExpr)
  | call2 (p : String) (a : TExpr) (q : String) (b : TExpr) (body : TExpr)
  | call3 (p : String) (a : TExpr) (q : String) (b : TExpr) (r : String) (c : TExpr) (body : TExpr)
  | maxAll (a : TExpr)                                         -- `torch.max(a)`
  -- binned curve kernels (C06)
  | searchsortedR (t x : TExpr)                                -- `torch.searchsorted(t, x, right=True)`
  | histcUnit (a bins : TExpr)                                 -- `torch.histc(a, bins=b, min=0, max=b)`
  | reshape2 (a r c : TExpr) | transpose (a : TExpr)
  | flipRows (a : TExpr) | cumsumRows (a : TExpr)              -- `flip(dims=(1,))`, `cumsum(dim=1)` of a 2-d tensor
  | rowAt (a : TExpr) (i : Int)                                -- `a[i]` of a 2-d tensor
  -- a Python-level loop that collects one 0-d tensor per index: `torch.tensor([body(i) for i in range(n)])`
  | mapRange (n : TExpr) (i : String) (body : TExpr)
  | rowDyn (a i : TExpr)                                       -- `a[i, :]` with the loop index `i`
  | call4 (p : String) (a : TExpr) (q : String) (b : TExpr) (r : String) (c : TExpr) (s : String) (d : TExpr) (body : TExpr)
deriving Repr, Inhabited

/-- bitwise and of two non-negative integer elements (negative integers and non-integers are outside the
    model: torch refuses float tensors). -/
def xband (a b : XQ) : XQ :=
  match xnat? a, xnat? b with
  | some p, some q => .val ((Nat.land p q : Nat) : Q)
  | _, _ => .nan

def xland (a b : XQ) : XQ := b2x (xtruthy a && xtruthy b)
def xlor (a b : XQ) : XQ := b2x (xtruthy a || xtruthy b)
def xlnot (a : XQ) : XQ := b2x (!(xtruthy a))

def eval (env : Env) : TExpr → Except Err Val
  | .var x => match env.lookup x with | some v => .ok v | none => .error .other
  | .int i => .ok (.int i)
  | .flt q => .ok (.num q)
  | .str s => .ok (.str s)
  | .none => .ok .none
  | .bool b => .ok (.bool b)
  | .pyEq a b => do let x ← eval env a; let y ← eval env b; pyEqV x y
  | .isStr a => do let x ← eval env a; pure (isStrV x)
  | .isInt a => do let x ← eval env a; pure (isIntV x)
  | .pyAnd a b => do
    let x ← eval env a
    if (← asBool x) then do let y ← eval env b; pure (.bool (← asBool y)) else pure (.bool false)
  | .pyOr a b => do
    let x ← eval env a
    if (← asBool x) then pure (.bool true) else do let y ← eval env b; pure (.bool (← asBool y))
  | .pyNot a => do let x ← eval env a; pure (.bool (!(← asBool x)))
  | .ite c a b => do
    let x ← eval env c
    if (← asBool x) then eval env a else eval env b
  | .iteT c a b => do
    let x ← eval env c
    if (← truthT x) then eval env a else eval env b
  | .assert c body => do
    let x ← eval env c
    if (← asBool x) then eval env body else .error .assertion
  | .ndim a => do let x ← eval env a; ndimV x
  | .shape0 a => do let x ← eval env a; shape0V x
  | .numel a => do let x ← eval env a; numelV x
  | .tensorOf a => do let x ← eval env a; tensorOfV x
  | .cmp op a b => do let x ← eval env a; let y ← eval env b; bop (fun p q => b2x (xcmp op p q)) x y
  | .arith op a b => do let x ← eval env a; let y ← eval env b; bop (xarith op) x y
  | .land a b => do let x ← eval env a; let y ← eval env b; bop xland x y
  | .lor a b => do let x ← eval env a; let y ← eval env b; bop xlor x y
  | .lnot a => do let x ← eval env a; uop xlnot x
  | .band a b => do let x ← eval env a; let y ← eval env b; bop xband x y
  | .where_ c a b => do let x ← eval env c; let y ← eval env a; let z ← eval env b; whereV x y z
  | .sum a => do let x ← eval env a; sumV x
  | .sumLast a => do let x ← eval env a; sumLastV x
  | .mean a => do let x ← eval env a; meanV x
  | .any a => do let x ← eval env a; anyV x
  | .allDim1 a => do let x ← eval env a; allDim1V x
  | .maxDim1 a => do let x ← eval env a; maxDim1V x
  | .argmax1 a => do let x ← eval env a; argmax1V x
  | .gatherLast a i => do let x ← eval env a; let y ← eval env i; gatherLastV x y
  | .unsqueezeLast a => do let x ← eval env a; unsqueezeLastV x
  | .maskSel a m => do let x ← eval env a; let y ← eval env m; maskSelV x y
  | .scatterAdd n i s => do
    let x ← eval env n; let y ← eval env i; let z ← eval env s; scatterAddV x y z
  | .nanToNum a => do let x ← eval env a; uop xnanToNum x
  | .isnan a => do let x ← eval env a; uop (fun e => b2x (xisNan e)) x
  | .inner a b => do let x ← eval env a; let y ← eval env b; innerV x y
  | .onesLike a => do let x ← eval env a; onesLikeV x
  | .cooDense r c v n m => do
    let r ← eval env r; let c ← eval env c; let v ← eval env v; let n ← eval env n; let m ← eval env m
    cooDenseV r c v n m
  | .l1norm a d => do let x ← eval env a; let y ← eval env d; l1normV x y
  | .pair a b => do let x ← eval env a; let y ← eval env b; pure (.pair x y)
  | .isFloat a => do let x ← eval env a; pure (isFloatV x)
  | .isTensor a => do let x ← eval env a; pure (isTensorV x)
  | .isNone a => do let x ← eval env a; pure (isNoneV x)
  | .sameSize a b => do let x ← eval env a; let y ← eval env b; sameSizeV x y
  | .pyCmp op a b => do let x ← eval env a; let y ← eval env b; pyCmpV op x y
  | .raise_ e => .error e
  | .fst a => do let x ← eval env a; fstV x
  | .snd a => do let x ← eval env a; sndV x
  | .sumDim0 a => do let x ← eval env a; sumDim0V x
  | .squeeze a => do let x ← eval env a; squeezeV x
  | .unsqueeze0 a => do let x ← eval env a; unsqueeze0V x
  | .sizeLast a => do let x ← eval env a; sizeLastV x
  | .sign a => do let x ← eval env a; uop xsign x
  | .abs a => do let x ← eval env a; uop xabs x
  | .clampMin a lo => do let x ← eval env a; let y ← eval env lo; let l ← y.asElem; uop (xclampMin l) x
  | .emptyVec => .ok (.vec [])
  | .trapz y x => do let a ← eval env y; let b ← eval env x; trapzV a b
  | .maskedFill a m v => do let x ← eval env a; let y ← eval env m; let z ← eval env v; maskedFillV x y z
  | .repeatRows a n => do let x ← eval env a; let y ← eval env n; repeatRowsV x y
  | .flatten a => do let x ← eval env a; flattenV x
  | .ufun _ a => do let _ ← eval env a; .error .notImpl
  | .unsupported _ => .error .notImpl
  | .sortStable a => do let x ← eval env a; sortStableV x
  | .sortDesc a => do let x ← eval env a; sortDescV x
  | .diff a => do let x ← eval env a; vecOp xdiff x
  | .cumsum a => do let x ← eval env a; vecOp (xcumsumFrom (.val 0)) x
  | .flip a => do let x ← eval env a; vecOp List.reverse x
  | .dropFirst a => do let x ← eval env a; vecOp (List.drop 1) x
  | .dropLast a => do let x ← eval env a; vecOp List.dropLast x
  | .padRight a v => do let x ← eval env a; let y ← eval env v; let e ← y.asElem; vecOp (· ++ [e]) x
  | .first a => do let x ← eval env a; firstV x
  | .last a => do let x ← eval env a; lastV x
  | .cat a b => do let x ← eval env a; let y ← eval env b; catV x y
  | .full n v => do let x ← eval env n; let y ← eval env v; fullV x y
  | .nanToNumTo a v => do let x ← eval env a; let y ← eval env v; let e ← y.asElem; uop (xnanTo e) x
  | .neg a => do let x ← eval env a; uop xneg x
  | .scripted b => scriptedE (eval env b)
  | .arangeDown n => do let x ← eval env n; arangeDownV x
  | .zerosLike a => do let x ← eval env a; zerosLikeV x
  | .maskedScatter a m src => do
    let x ← eval env a; let y ← eval env m; let z ← eval env src; maskedScatterV x y z
  | .whereT c a b => do let x ← eval env c; let y ← eval env a; let z ← eval env b; whereTV x y z
  | .maxAll a => do let x ← eval env a; maxAllV x
  | .searchsortedR t x => do let a ← eval env t; let b ← eval env x; searchsortedRV a b
  | .histcUnit a b => do let x ← eval env a; let y ← eval env b; histcUnitV x y
  | .reshape2 a r c => do let x ← eval env a; let y ← eval env r; let z ← eval env c; reshape2V x y z
  | .transpose a => do let x ← eval env a; transposeV x
  | .flipRows a => do let x ← eval env a; rowsOp List.reverse x
  | .cumsumRows a => do let x ← eval env a; rowsOp (xcumsumFrom (.val 0)) x
  | .rowAt a i => do let x ← eval env a; rowAtV x i
  | .mapRange n i body => do
    let c ← eval env n
    let k ← sizeOf? c
    let vs ← seqE ((List.range k).map fun (j : Nat) => eval ((i, .int ((j : Nat) : Int)) :: env) body)
    collectV vs
  | .rowDyn a i => do let x ← eval env a; let y ← eval env i; rowDynV x y
  | .call4 p a q b r c s d body => do
    let x ← eval env a; let y ← eval env b; let z ← eval env c; let w ← eval env d
    eval [(p, x), (q, y), (r, z), (s, w)] body
  | .call1 p a body => do let x ← eval env a; eval [(p, x)] body
  | .call2 p a q b body => do let x ← eval env a; let y ← eval env b; eval [(p, x), (q, y)] body
  | .call3 p a q b r c body => do
    let x ← eval env a; let y ← eval env b; let z ← eval env c; eval [(p, x), (q, y), (r, z)] body

/-! ## kernel table -/

/-- one row of the generated table: the translated term with its parameter names, or the reason why the
    kernel is outside the grammar. -/
inductive Kernel where
  | translated (name : String) (params : List String) (body : TExpr)
  | untranslated (name : String) (reason : String)
deriving Repr, Inhabited

def Kernel.name : Kernel → String
  | .translated n _ _ => n | .untranslated n _ => n

def Kernel.reason? : Kernel → Option String
  | .translated _ _ _ => Option.none | .untranslated _ r => some r

end TE.TX
