/-
  TE.Model.Accum — an accumulator of significand width `p` holding non-negative integers
  (counts / sums of integer-valued statistics).  `roundNE p n` is IEEE round-to-nearest-even
  of the natural number `n` to `p` significant bits; `addR p a b` is one `+=`.
-/
namespace TE.Accum

/-- number of low bits that do not fit into a `p`-bit significand. -/
def dropBits (p n : Nat) : Nat := (Nat.log2 n + 1) - p

def roundNE (p n : Nat) : Nat :=
  let k := dropBits p n
  let q := n / 2 ^ k
  let r := n % 2 ^ k
  let half := 2 ^ k / 2
  if k = 0 then n
  else if r > half ∨ (r = half ∧ q % 2 = 1) then (q + 1) * 2 ^ k else q * 2 ^ k

def addR (p a b : Nat) : Nat := roundNE p (a + b)

/-- a history of updates adding `xs` one after another. -/
def accumulate (p : Nat) (xs : List Nat) : Nat := xs.foldl (addR p) 0

/-- significand widths of the dtypes an accumulator can have. -/
def width : String → Nat
  | "float16" => 11 | "bfloat16" => 8 | "float32" => 24 | "float64" => 53
  | "int64" => 63 | "int32" => 31 | "python-int" => 4096 | "python-float" => 53 | _ => 0

end TE.Accum
