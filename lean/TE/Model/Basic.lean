/-
  TE.Model.Basic — shared vocabulary of the executable models.
  Import-free (core Lean only): everything here is compiled into the driver
  (`tedriver`) *and* reasoned about in `TE/Props`.
-/
namespace TE

/-- exact scalars: the models run on rationals; Python feeds the real code the
    very same rationals (every float it uses is converted with `Fraction`). -/
abbrev Q := Rat

/-- the small error enum every model entry point may return; the harness maps
    Python exceptions onto it. -/
inductive Err where
  | value | type | runtime | index | assertion | notImpl | other
deriving DecidableEq, Repr, Inhabited

def Err.tag : Err → String
  | .value => "ValueError" | .type => "TypeError" | .runtime => "RuntimeError"
  | .index => "IndexError" | .assertion => "AssertionError"
  | .notImpl => "NotImplementedError" | .other => "Other"

/-- output scalars: torch results may be NaN / ±inf, rationals cannot. -/
inductive XQ where
  | val (q : Q) | nan | pinf | ninf
deriving DecidableEq, Repr, Inhabited

/-- torch division semantics on exact scalars (`x/0` is `nan`, `+inf` or `-inf`). -/
def xdiv (a b : Q) : XQ :=
  if b = 0 then (if a = 0 then .nan else if 0 < a then .pinf else .ninf) else .val (a / b)

/-- sum of a list of rationals (left fold, matches `List.sum`). -/
def qsum (l : List Q) : Q := l.foldl (· + ·) 0

def b2q (b : Bool) : Q := if b then 1 else 0

/-- pointwise addition of two vectors (truncating zip, total). -/
def vadd (a b : List Q) : List Q := List.zipWith (· + ·) a b

def vzero (n : Nat) : List Q := List.replicate n 0

/-- row-major matrix as list of rows -/
abbrev Mat := List (List Q)

def madd (a b : Mat) : Mat := List.zipWith vadd a b
def mzero (r c : Nat) : Mat := List.replicate r (vzero c)

/-- number of elements satisfying a Boolean predicate, as a rational. -/
def qcount {α} (p : α → Bool) (l : List α) : Q := (l.countP p : Nat)

end TE
