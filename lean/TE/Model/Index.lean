/-
  TE.Model.Index — index kernels and index sites (C14, index-range safety).  Core Lean only.

  1. A small semantics of an index-taking kernel on a buffer of length `n` fed an integer
     index `i`.  All kernels agree on `0 ≤ i < n`; outside they differ, and the behaviours that
     the installed torch shows (harness/translators/indexsites.py, `probe_kernels`, written into
     TE/Gen/IndexSites.lean on every run) are
       raises     every out-of-range index is a Python exception (scatter_, gather, one_hot,
                  index_add_, index_select, topk's k, split, slice assignment)
       wraps      `-n ≤ i < 0` addresses `i + n`, everything else raises (x[idx], x[idx] = v,
                  x[idx] += v, index_put_, Python lists)
       drops      the element is silently ignored (histc with min/max)
       unchecked  no check at all: the access leaves the buffer (sparse_coo_tensor(...).to_dense(),
                  take_along_dim on this build) — modelled as `undefined`
  2. `IndexSite`: one row of the generated inventory of index sites of /repo.
  3. Integer-level entry models: the value checks that precede a kernel in the code
     (`_confusion_matrix_update_input_check`), the raising scatter on possibly negative labels,
     and the slice assignments of `WindowedBinaryAUROC.update` as explicit (start, block) writes.
-/
import TE.Model.Basic
import TE.Model.Count
import TE.Model.Window
namespace TE.Index
open TE

/-! ## 1. kernels -/

inductive Behaviour where
  | raises | wraps | drops | unchecked
deriving DecidableEq, Repr

/-- result of one kernel call: a value, a Python exception, or an access outside the buffer
    (no defined result: wrong counts, heap corruption, a signal). -/
inductive Res (β : Type) where
  | ok (b : β)
  | raised
  | undefined
deriving DecidableEq, Repr

/-- `0 ≤ i < n` -/
def inRange (n : Nat) (i : Int) : Bool := decide (0 ≤ i) && decide (i < (n : Int))

/-- Python's negative indexing: `-n ≤ i < 0`. -/
def wrapsTo (n : Nat) (i : Int) : Bool := decide (-(n : Int) ≤ i) && decide (i < 0)

variable {α : Type}

/-- the kernel applies `f` to slot `i` of the buffer (`f = fun _ => v`: write; `f = (· + v)`:
    accumulate). -/
def modifyAt (b : Behaviour) (buf : List α) (i : Int) (f : α → α) : Res (List α) :=
  if inRange buf.length i then .ok (buf.modify i.toNat f)
  else match b with
    | .raises => .raised
    | .wraps => if wrapsTo buf.length i then .ok (buf.modify (i + buf.length).toNat f) else .raised
    | .drops => .ok buf
    | .unchecked => .undefined

def writeAt (b : Behaviour) (buf : List α) (i : Int) (v : α) : Res (List α) :=
  modifyAt b buf i (fun _ => v)

/-- the kernel reads slot `i` (a dropping reader does not exist: `drops` reads raise). -/
def readAt (b : Behaviour) (buf : List α) (i : Int) : Res α :=
  if inRange buf.length i then
    (match buf[i.toNat]? with | some a => .ok a | none => .undefined)
  else match b with
    | .raises | .drops => .raised
    | .wraps =>
      if wrapsTo buf.length i then
        (match buf[(i + buf.length).toNat]? with | some a => .ok a | none => .undefined)
      else .raised
    | .unchecked => .undefined

/-- a whole index tensor: the updates are applied one after the other; the first exception /
    undefined access decides. -/
def applyAll (b : Behaviour) (buf : List α) : List (Int × (α → α)) → Res (List α)
  | [] => .ok buf
  | (i, f) :: ops =>
    match modifyAt b buf i f with
    | .ok buf' => applyAll b buf' ops
    | .raised => .raised
    | .undefined => .undefined

/-- what the caller means: every index addresses its own slot. -/
def textbook (buf : List α) (ops : List (Int × (α → α))) : List α :=
  ops.foldl (fun l p => l.modify p.1.toNat p.2) buf

/-- **Safe**: the kernel is of the raising kind, or every index it receives is inside `[0, n)`. -/
def SafeIdx (b : Behaviour) (n : Nat) (idx : List Int) : Prop :=
  b = .raises ∨ ∀ i ∈ idx, 0 ≤ i ∧ i < (n : Int)

/-! ## 2. the inventory row -/

inductive Guard where
  | explicitCheck | byConstruction | kernelRaises | none
deriving DecidableEq, Repr

structure IndexSite where
  file     : String
  func     : String
  line     : Nat
  kind     : String        -- kernel kind (key of `Gen.kernelBehaviour`)
  operand  : String        -- source text of the index operand
  source   : String        -- parameters / attributes it derives from, with the index-producing operations passed
  rawRoots : String        -- those of them that reach the kernel WITHOUT passing an index-producing operation
  bound    : String        -- the extent it has to respect
  guard    : Guard
  guardRef : String        -- where the guard is
  entries  : List String   -- user-callable entry points that reach the site
deriving Repr

/-- identification that survives line-number changes. -/
def IndexSite.key (s : IndexSite) : String × String × String × String :=
  (s.file, s.func, s.kind, s.rawRoots)

/-! ## 3. integer-level entry models -/

/-- the value checks of `_confusion_matrix_update_input_check` on one operand:
    `torch.max(x) >= num_classes → ValueError`, `torch.min(x) < 0 → ValueError`
    (`torch.max` of an empty tensor raises `RuntimeError`). -/
def checkLabels (C : Nat) (ls : List Int) : Except Err (List Nat) :=
  if ls.isEmpty then .error .runtime
  else if ls.any (fun l => decide ((C : Int) ≤ l)) then .error .value
  else if ls.any (fun l => decide (l < 0)) then .error .value
  else .ok (ls.map Int.toNat)

/-- `multiclass_confusion_matrix` on integer predictions and targets as the user passes them
    (possibly negative): the checks, then the typed accumulation `Count.confusionUpdate`
    (whose kernel `sparse_coo_tensor(...).to_dense()` is of the `unchecked` kind). -/
def confusionI (C : Nat) (preds labs : List Int) : Except Err Mat := do
  let p ← checkLabels C preds
  let l ← checkLabels C labs
  Count.confusionUpdate p l C

/-- `zeros(n).scatter_(0, idx, vals, reduce="add")` on an index tensor as the user passes it:
    `scatter_` is of the raising kind — a negative index is a `RuntimeError` as well. -/
def scatterAddI (n : Nat) (idx : List Int) (vals : List Q) : Except Err (List Q) :=
  if idx.all (inRange n) then Count.scatterAdd n (idx.map Int.toNat) vals else .error .runtime

/-- the updates `scatter_(…, reduce="add")` performs, as kernel operations. -/
def scatterOps (idx : List Int) (vals : List Q) : List (Int × (Q → Q)) :=
  (idx.zip vals).map fun p => (p.1, (· + p.2))

/-- the slice assignments `buffer[:, a : a + len(block)] = block` executed by
    `WindowedBinaryAUROC.update` for a batch `b` (`cap = max_num_samples`, `next = next_inserted`):
    batch ≥ window → the last `cap` columns replace the whole buffer (`copy_`); batch fits behind
    the cursor → one write; otherwise the first `cap − next` columns go to the end and the rest to
    the front. -/
def aurocWrites {γ : Type} (cap next : Nat) (b : List γ) : List (Nat × List γ) :=
  if cap ≤ b.length then [(0, b.drop (b.length - cap))]
  else
    let rest := cap - next
    if b.length ≤ rest then [(next, b)]
    else [(next, b.take rest), (0, b.drop rest)]

/-- the column ranges `[a, b)` those assignments touch. -/
def aurocWriteRanges (cap next n : Nat) : List (Nat × Nat) :=
  if cap ≤ n then [(0, cap)]
  else
    let rest := cap - next
    if n ≤ rest then [(next, next + n)]
    else [(next, next + rest), (0, n - rest)]

end TE.Index
