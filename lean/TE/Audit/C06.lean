import TE.Props.C06
#print axioms TE.C06.stub
