import TE.Props.C04
#print axioms TE.C04.thresh_eq_binPred
