import TE.Props.C14
#print axioms TE.C14.failed_update_keeps_state
#print axioms TE.C14.failed_update_invisible
#print axioms TE.C14.additive_failure_state_independent
#print axioms TE.C14.validate_then_mutate_table
