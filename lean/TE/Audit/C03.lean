import TE.Props.C03
#print axioms TE.C03.class_eq_functional_on_concat
#print axioms TE.C03.cacheall_class_eq_functional
