import TE.Props.C02
#print axioms TE.C02.C02_ws1
#print axioms TE.C02.C02_ws1_collection
