import TE.Props.C02
#print axioms TE.C02.C02_ws1
#print axioms TE.C02.C02_ws1_collection
#print axioms TE.C02.recon_same_map
#print axioms TE.C02.C02_sync_is_local_merge
#print axioms TE.C02.C02_sync_ok
#print axioms TE.C02.C02_sync_merge_raises
#print axioms TE.C02.C02_sync_ok_direct
#print axioms TE.C02.C02_sync_ok_collection
#print axioms TE.C02.C02_collection_pseudo_metric
#print axioms TE.C02.C02_schedule_indep
#print axioms TE.C02.C02_schedule_terminates
#print axioms TE.C02.wit_sync_ndim_mismatch
#print axioms TE.C02.wit_sync_unequal_keys
#print axioms TE.C02.wit_sync_dummy_first_element_only
#print axioms TE.C02.reg_stateless_metric
#print axioms TE.C02.reg_stateless_in_collection
