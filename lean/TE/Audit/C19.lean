import TE.Props.C19
#print axioms TE.C19.dropBits_eq_zero
#print axioms TE.C19.roundNE_exact
#print axioms TE.C19.roundNE_pow
#print axioms TE.C19.addR_exact
#print axioms TE.C19.accumulate_exact
#print axioms TE.C19.float32_saturates
#print axioms TE.C19.float32_stuck
#print axioms TE.C19.float64_counts_past_float32
#print axioms TE.C19.narrow_accumulators
