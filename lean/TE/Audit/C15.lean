import TE.Props.C15
#print axioms TE.C15.pad_trim_id
#print axioms TE.C15.send_tensors_lossless
#print axioms TE.C15.wit_ndim_mismatch
#print axioms TE.C15.wit_dst_group_relative
#print axioms TE.C15.wit_all_empty_list
#print axioms TE.C15.wit_unequal_keys
#print axioms TE.C15.wit_sized_by_global_world
#print axioms TE.C15.wit_src_group_relative
#print axioms TE.C15.wit_dummy_first_element_only
