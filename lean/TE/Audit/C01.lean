import TE.Props.C01
#print axioms TE.C01.additive_merge_eq_single
#print axioms TE.C01.additive_state_eq
#print axioms TE.C01.ordered_merge_eq_concat
#print axioms TE.C01.cacheall_merge_eq_single
#print axioms TE.C01.additive_single_total
