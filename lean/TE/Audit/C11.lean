import TE.Props.C11
#print axioms TE.C11.safe_program_preserves_sources
#print axioms TE.C11.later_operations_preserve_sources
#print axioms TE.C11.alias_then_inplace_witness
#print axioms TE.C11.merge_safe_all
#print axioms TE.C11.compute_pure_all
#print axioms TE.C11.update_args_untouched_all
