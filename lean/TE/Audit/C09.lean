import TE.Props.C09
#print axioms TE.C09.run_unreg
#print axioms TE.C09.restore_bisim
#print axioms TE.C09.clone_bisim
#print axioms TE.C09.restore_loses_cursor_witness
#print axioms TE.C09.restoreSafe_table
#print axioms TE.C09.window_unsafe_attr
#print axioms TE.C09.resetSafe_table
