import TE.Props.C12
#print axioms TE.C12.batching_irrelevant
#print axioms TE.C12.batching_irrelevant_ordered
#print axioms TE.C12.class_eq_functional
