import TE.Props.C10
#print axioms TE.C10.eval_graft
#print axioms TE.C10.reset_then_eq_fresh
#print axioms TE.C10.reset_then_out_eq_fresh
#print axioms TE.C10.reset_obj_eq_fresh
#print axioms TE.C10.reset_restores_unregistered
