/-
  TE.Lemmas.MetaRelabelCurve — C17 (d) for the one-vs-rest curve metrics: multiclass AUROC / AUPRC when the
  score columns are permuted and the labels renamed consistently.  `average=None` returns the per-class values
  permuted, `macro` is invariant.  Built on the per-class statements of TE/Lemmas/MetaRelabel.lean and on
  C05's `multiclass_auroc_none_eq / macro_eq`, `multiclass_auprc_eq`.
-/
import TE.Lemmas.MetaRelabel
import TE.Props.C05
namespace TE.MetaL
open TE TE.Spec.Curve

variable {C : Nat} {σ τ : Nat → Nat}

/-- the list of score columns after the renaming: new column `σ c` is the old column `c`. -/
def permColumns (_σ τ : Nat → Nat) (C : Nat) (cols : List (List Q)) : List (List Q) :=
  (List.range C).map fun j => cols.getD (τ j) []

theorem zipIdx_map_range {α : Type} (G : Nat → List Q → α) (l : List (List Q)) (hl : l.length = C) :
    l.zipIdx.map (fun cc => G cc.2 cc.1) = (List.range C).map (fun j => G j (l.getD j [])) := by
  apply List.ext_getElem
  · simp [hl]
  · intro i h1 h2
    simp at h1 h2
    simp [List.getD_eq_getElem?_getD, h1]

theorem permColumns_length (σ τ : Nat → Nat) (C : Nat) (cols : List (List Q)) :
    (permColumns σ τ C cols).length = C := by simp [permColumns]

theorem permColumns_getD (σ τ : Nat → Nat) (C : Nat) (cols : List (List Q)) (j : Nat) (hj : j < C) :
    (permColumns σ τ C cols).getD j [] = cols.getD (τ j) [] := by
  simp [permColumns, List.getD_eq_getElem?_getD, hj]

/-- per-class values of a one-vs-rest curve metric on the renamed problem: entry `j` is the old entry `τ j`. -/
theorem perclass_permColumns {α : Type} (h : PermOn C σ τ) (G G' : Nat → List Q → α) (cols : List (List Q))
    (hG : ∀ c, c < C → G' (σ c) (cols.getD c []) = G c (cols.getD c [])) :
    (permColumns σ τ C cols).zipIdx.map (fun cc => G' cc.2 cc.1)
      = (List.range C).map (fun j => G (τ j) (cols.getD (τ j) [])) := by
  rw [zipIdx_map_range G' _ (permColumns_length σ τ C cols)]
  apply List.map_congr_left
  intro j hj
  have hj' : j < C := List.mem_range.mp hj
  rw [permColumns_getD σ τ C cols j hj']
  have := hG (τ j) (h.inv j hj')
  rwa [h.right j hj'] at this


theorem zip_ne_nil_of_length {col X : List Q} {n : Nat} (h1 : col.length = n) (h2 : X.length = n) (hn : n ≠ 0) :
    col.zip X ≠ [] := by
  cases col <;> cases X <;> simp_all

theorem getD_mem_cols (cols : List (List Q)) (j : Nat) (hj : j < cols.length) : cols.getD j [] ∈ cols := by
  simp [List.getD_eq_getElem?_getD, hj]

theorem mem_permColumns (h : PermOn C σ τ) (cols : List (List Q)) (hC : cols.length = C) :
    ∀ col ∈ permColumns σ τ C cols, col ∈ cols := by
  intro col hc
  obtain ⟨j, hj, rfl⟩ := List.mem_map.mp hc
  exact getD_mem_cols cols (τ j) (by rw [hC]; exact h.inv j (List.mem_range.mp hj))

theorem sum_range_perm (h : PermOn C σ τ) (g : Nat → Q) :
    ((List.range C).map fun j => g (τ j)).sum = ((List.range C).map g).sum := by
  have hp := range_map_perm h.symm
  have : ((List.range C).map fun j => g (τ j)) = ((List.range C).map τ).map g := by rw [List.map_map]; rfl
  rw [this]
  exact CurveL.sum_map_perm hp g

/-- **multiclass AUROC under a renaming of the classes** (columns permuted, labels renamed): `average=None` returns the
    per-class one-vs-rest values PERMUTED (entry `j` is the old entry `τ j`), `macro` is invariant. -/
theorem multiclassAuroc_relabel (h : PermOn C σ τ) (cols : List (List Q)) (hC : cols.length = C)
    (labs : List Nat) (hl : ∀ l ∈ labs, l < C) (hne : labs ≠ [])
    (hlen : ∀ col ∈ cols, col.length = labs.length) :
    Curve.multiclassAuroc (permColumns σ τ C cols) (labs.map fun l => ((σ l : Nat) : Q)) .none
        = .ok ((List.range C).map fun j =>
            XQ.val (auroc (ovrSamples (τ j) (cols.getD (τ j) []) (labs.map fun l => ((l : Nat) : Q))))) ∧
    Curve.multiclassAuroc cols (labs.map fun l => ((l : Nat) : Q)) .none
        = .ok ((List.range C).map fun j =>
            XQ.val (auroc (ovrSamples j (cols.getD j []) (labs.map fun l => ((l : Nat) : Q))))) ∧
    Curve.multiclassAuroc (permColumns σ τ C cols) (labs.map fun l => ((σ l : Nat) : Q)) .macro
        = Curve.multiclassAuroc cols (labs.map fun l => ((l : Nat) : Q)) .macro := by
  have hn : labs.length ≠ 0 := by simpa using hne
  have hne1 : ∀ col ∈ cols, col.zip (labs.map fun l => ((l : Nat) : Q)) ≠ [] :=
    fun col hc => zip_ne_nil_of_length (hlen col hc) (by simp) hn
  have hne2 : ∀ col ∈ permColumns σ τ C cols, col.zip (labs.map fun l => ((σ l : Nat) : Q)) ≠ [] :=
    fun col hc => zip_ne_nil_of_length (hlen col (mem_permColumns h cols hC col hc)) (by simp) hn
  have e2 : (permColumns σ τ C cols).zipIdx.map
        (fun cc => auroc (ovrSamples cc.2 cc.1 (labs.map fun l => ((σ l : Nat) : Q))))
      = (List.range C).map fun j => auroc (ovrSamples (τ j) (cols.getD (τ j) []) (labs.map fun l => ((l : Nat) : Q))) :=
    perclass_permColumns h (fun c col => auroc (ovrSamples c col (labs.map fun l => ((l : Nat) : Q))))
      (fun c col => auroc (ovrSamples c col (labs.map fun l => ((σ l : Nat) : Q)))) cols
      (fun c hc => by rw [ovrSamples_relabel h c hc _ labs hl])
  have e1 : cols.zipIdx.map (fun cc => auroc (ovrSamples cc.2 cc.1 (labs.map fun l => ((l : Nat) : Q))))
      = (List.range C).map fun j => auroc (ovrSamples j (cols.getD j []) (labs.map fun l => ((l : Nat) : Q))) :=
    zipIdx_map_range (fun c col => auroc (ovrSamples c col (labs.map fun l => ((l : Nat) : Q)))) cols hC
  refine ⟨?_, ?_, ?_⟩
  · rw [C05.multiclass_auroc_none_eq _ _ hne2, e2, List.map_map]; rfl
  · rw [C05.multiclass_auroc_none_eq _ _ hne1, e1, List.map_map]; rfl
  · rw [C05.multiclass_auroc_macro_eq _ _ hne2, C05.multiclass_auroc_macro_eq _ _ hne1, e1, e2]
    simp only [Spec.Curve.mean, List.length_map, List.length_range]
    rw [sum_range_perm h fun j => auroc (ovrSamples j (cols.getD j []) (labs.map fun l => ((l : Nat) : Q)))]

/-- **multiclass AUPRC under a renaming of the classes**: `None` permuted, `macro` invariant. -/
theorem multiclassAuprc_relabel (h : PermOn C σ τ) (cols : List (List Q)) (hC : cols.length = C)
    (labs : List Nat) (hl : ∀ l ∈ labs, l < C) (hne : labs ≠ [])
    (hlen : ∀ col ∈ cols, col.length = labs.length) :
    Curve.multiclassAuprc (permColumns σ τ C cols) (labs.map fun l => ((σ l : Nat) : Q)) .none
        = .ok ((List.range C).map fun j =>
            XQ.val (auprc (ovrLS (τ j) (cols.getD (τ j) []) (labs.map fun l => ((l : Nat) : Q))))) ∧
    Curve.multiclassAuprc cols (labs.map fun l => ((l : Nat) : Q)) .none
        = .ok ((List.range C).map fun j =>
            XQ.val (auprc (ovrLS j (cols.getD j []) (labs.map fun l => ((l : Nat) : Q))))) ∧
    Curve.multiclassAuprc (permColumns σ τ C cols) (labs.map fun l => ((σ l : Nat) : Q)) .macro
        = Curve.multiclassAuprc cols (labs.map fun l => ((l : Nat) : Q)) .macro := by
  have hn : labs.length ≠ 0 := by simpa using hne
  have hne1 : ∀ col ∈ cols, col.zip (labs.map fun l => ((l : Nat) : Q)) ≠ [] :=
    fun col hc => zip_ne_nil_of_length (hlen col hc) (by simp) hn
  have hne2 : ∀ col ∈ permColumns σ τ C cols, col.zip (labs.map fun l => ((σ l : Nat) : Q)) ≠ [] :=
    fun col hc => zip_ne_nil_of_length (hlen col (mem_permColumns h cols hC col hc)) (by simp) hn
  have e2 : (permColumns σ τ C cols).zipIdx.map
        (fun cc => auprc (ovrLS cc.2 cc.1 (labs.map fun l => ((σ l : Nat) : Q))))
      = (List.range C).map fun j => auprc (ovrLS (τ j) (cols.getD (τ j) []) (labs.map fun l => ((l : Nat) : Q))) :=
    perclass_permColumns h (fun c col => auprc (ovrLS c col (labs.map fun l => ((l : Nat) : Q))))
      (fun c col => auprc (ovrLS c col (labs.map fun l => ((σ l : Nat) : Q)))) cols
      (fun c hc => by rw [ovrLS_relabel h c hc _ labs hl])
  have e1 : cols.zipIdx.map (fun cc => auprc (ovrLS cc.2 cc.1 (labs.map fun l => ((l : Nat) : Q))))
      = (List.range C).map fun j => auprc (ovrLS j (cols.getD j []) (labs.map fun l => ((l : Nat) : Q))) :=
    zipIdx_map_range (fun c col => auprc (ovrLS c col (labs.map fun l => ((l : Nat) : Q)))) cols hC
  refine ⟨?_, ?_, ?_⟩
  · rw [C05.multiclass_auprc_eq _ _ _ hne2, e2]; simp only [Curve.averaged, List.map_map]; rfl
  · rw [C05.multiclass_auprc_eq _ _ _ hne1, e1]; simp only [Curve.averaged, List.map_map]; rfl
  · rw [C05.multiclass_auprc_eq _ _ _ hne2, C05.multiclass_auprc_eq _ _ _ hne1, e1, e2]
    simp only [Curve.averaged, Curve.meanX, List.length_map, List.length_range]
    rw [sum_range_perm h fun j => auprc (ovrLS j (cols.getD j []) (labs.map fun l => ((l : Nat) : Q)))]

end TE.MetaL
